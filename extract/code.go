// Go → Lean translation of a white-list of functions (tie T, second half): every function of the packages in
// `codePkgs` is translated statement by statement into a Lean `do`-block over the primitives of
// lean/Panacea/Go/Prelude.lean and written to Generated/Code.lean.  The Lean side then proves
// `Generated code = hand-written model` for all inputs (Panacea/Refine/*.lean).  A function (or a construct in
// it) the translator does not understand is emitted as `Go.unsupported "<why>"`, which no refinement proof
// survives — the translator never guesses.
package main

import (
	"fmt"
	"go/ast"
	"go/constant"
	"go/token"
	"go/types"
	"regexp/syntax"
	"sort"
	"strconv"
	"strings"

	"golang.org/x/tools/go/packages"
)

// packages whose functions are translated, with the Lean namespace used for them
var codePkgs = map[string]string{
	"types/compkey": "compkey",
	"x/aol/types":   "aoltypes",
	"x/aol/keeper":  "aolkeeper",
	"x/did/types":   "didtypes",
	"x/did/keeper":  "didkeeper",
	"x/did/internal/secp256k1util": "didsecp",
	"x/burn/keeper": "burnkeeper",
	"x/pnft/types":  "pnfttypes",
	"x/pnft/keeper": "pnftkeeper",
	"x/pnft":        "pnft",
	"x/did":         "did",
	"x/aol":         "aol",
}

// the state a package's keeper works on: the block's KV stores, or (x/burn, which only talks to x/bank) the bank model
var worldTypeOf = map[string]string{"burnkeeper": "Go.BankWorld", "pnftkeeper": "Go.Nft.World", "pnft": "Go.Nft.World"}

func worldType(ns string) string {
	if t, ok := worldTypeOf[ns]; ok {
		return t
	}
	return "Go.World"
}

// files that are not translated (CLI wiring, codec registration, generated code)
func codeSkipFile(name string) bool {
	return strings.HasSuffix(name, ".pb.go") || strings.HasSuffix(name, ".pb.gw.go") || strings.HasSuffix(name, "_test.go") ||
		strings.HasSuffix(name, "/codec.go") || strings.HasSuffix(name, "/errors.go") || strings.HasSuffix(name, "/expected_keepers.go") ||
		strings.HasSuffix(name, "/keeper.go") || strings.HasSuffix(name, "/x/aol/keeper/msg_server.go") ||
		strings.HasSuffix(name, "/x/did/keeper/msg_server.go") ||
		(strings.HasSuffix(name, "/grpc_query.go") && !strings.HasSuffix(name, "/x/pnft/keeper/grpc_query.go")) ||
		strings.HasSuffix(name, "/module.go")
}

// store key of each keeper package (the value of `k.storeKey`; tied separately by Facts.mountedStores)
var storeKeyOf = map[string]string{"aolkeeper": "aol", "pnftkeeper": "nft", "didkeeper": "did"}

type cfn struct {
	pkg      *packages.Package
	ns       string
	decl     *ast.FuncDecl
	obj      *types.Func
	lean     string // full Lean name
	recv     *types.Var
	implicit bool   // receiver is a keeper / server: dropped
	stateful bool   // runs in M (touches the block context)
	usesBech bool
	usesCrypto bool // needs the signature scheme parameter
	protos   map[string]bool
	mut      []bool // per parameter slot (receiver first when explicit): written through
	slots    []*types.Var
	calls    map[*cfn]bool
	body     []string
	failed   string
	ifaceGen bool // has a CompositeKey-typed parameter: generic in κ with a dictionary
	needInst []string
}

type cgen struct {
	pkgs    map[string]*packages.Package
	fns     map[*types.Func]*cfn
	list    []*cfn
	structs map[string]*types.Named // lean name -> type
	sorder  []string
	vars    map[string]string // lean name of package var -> definition
	vorder  []string
	insts   map[string]string // instances of compkey.CompositeKey
	instBech map[string]bool
	oneofs   map[string]string
	iorder  []string
}

type fctx struct {
	g      *cgen
	f      *cfn
	info   *types.Info
	names  map[types.Object]string
	used   map[string]bool
	tmp    int
	iters  map[types.Object]string // iterator variable -> loop element variable
	iterOf map[types.Object]string // iterator variable -> Lean expr of materialised entries
	localInit map[types.Object]ast.Expr // local variables defined exactly once: their initialiser
	sets      map[types.Object]bool     // local variables of type map[string]struct{} (a set, modelled as a list)
}

type unsupported struct{ why string }

func fail(format string, a ...interface{}) { panic(unsupported{fmt.Sprintf(format, a...)}) }

func isCtxType(t types.Type) bool {
	s := t.String()
	return s == "github.com/cosmos/cosmos-sdk/types.Context" || s == "context.Context"
}

// the codec is ambient as well (its use is `Go.Proto`), but does not make a function stateful
func isCodecType(t types.Type) bool {
	s := t.String()
	return s == "github.com/cosmos/cosmos-sdk/codec.BinaryCodec" || s == "github.com/cosmos/cosmos-sdk/codec.Codec"
}

// parameters that are ambient in the translation: the codec, and a keeper passed to a free function (InitGenesis)
var badStructs = map[string]string{}

func isAmbientParam(t types.Type) bool { return isCodecType(t) || isImplicitRecv(t) }

func namedOf(t types.Type) *types.Named {
	if p, ok := t.(*types.Pointer); ok {
		t = p.Elem()
	}
	n, _ := t.(*types.Named)
	return n
}

func isImplicitRecv(t types.Type) bool {
	n := namedOf(t)
	if n == nil {
		return false
	}
	switch n.Obj().Name() {
	case "Keeper", "msgServer", "queryServer":
		return true
	}
	return false
}

func isCompositeKeyIface(t types.Type) bool {
	n, ok := t.(*types.Named)
	return ok && n.Obj().Name() == "CompositeKey" && strings.HasSuffix(n.Obj().Pkg().Path(), "types/compkey")
}

func (g *cgen) nsOf(pkg *types.Package) (string, bool) {
	ns, ok := codePkgs[rel(pkg.Path())]
	return ns, ok
}

// leanType translates a Go type; fails on anything not understood.
func (g *cgen) leanType(t types.Type) string {
	switch u := t.(type) {
	case *types.Basic:
		switch u.Kind() {
		case types.Bool, types.UntypedBool:
			return "Bool"
		case types.String, types.UntypedString:
			return "Bytes"
		case types.Int, types.Int64, types.Int32, types.UntypedInt:
			return "Int"
		case types.Uint64, types.Uint32, types.Uint:
			return "Nat"
		case types.Uint8:
			return "UInt8"
		}
		fail("basic type %s", u)
	case *types.Slice:
		if b, ok := u.Elem().(*types.Basic); ok && b.Kind() == types.Uint8 {
			return "Bytes"
		}
		return "(List " + g.leanType(u.Elem()) + ")"
	case *types.Map:
		if isStringSet(u) {
			return "(List Bytes)"
		}
		if isStringMap(u) {
			// a Go map with string keys: its entries in *some* order (the theorems quantify over every order)
			return "(Go.GoMap " + g.leanType(u.Elem()) + ")"
		}
		fail("type %s", t)
	case *types.Pointer:
		return "(Option " + g.leanType(u.Elem()) + ")"
	case *types.Named:
		full := u.Obj().Pkg()
		name := u.Obj().Name()
		if full == nil {
			if name == "error" {
				return "Go.Err"
			}
			fail("named type %s", name)
		}
		switch full.Path() + "." + name {
		case "github.com/cosmos/cosmos-sdk/x/nft.Class":
			return "Go.Nft.Class"
		case "github.com/cosmos/cosmos-sdk/x/nft.NFT":
			return "Go.Nft.NFT"
		case "github.com/cosmos/cosmos-sdk/codec/types.Any":
			return "Go.Any"
		case "time.Time":
			return "Go.Time"
		case "github.com/cosmos/cosmos-sdk/types.Coins":
			return "(List (Bytes × Nat))"
		case "github.com/cosmos/cosmos-sdk/types.AccAddress", "github.com/cometbft/cometbft/crypto/secp256k1.PubKey",
			"github.com/cometbft/cometbft/crypto/secp256k1.PrivKey":
			return "Bytes"
		}
		if ns, ok := g.nsOf(full); ok {
			if _, isIface := u.Underlying().(*types.Interface); isIface && strings.HasPrefix(name, "is") {
				return g.oneofType(ns, u)
			}
			if _, isStruct := u.Underlying().(*types.Struct); isStruct {
				ln := ns + "." + name
				if why, bad := badStructs[ln]; bad {
					fail("%s", why)
				}
				if _, seen := g.structs[ln]; !seen {
					g.structs[ln] = u
					// fields first (dependencies before dependants); a field type without a rule makes the whole
					// structure (and every function that mentions it) untranslated, now and at every later use
					func() {
						defer func() {
							if r := recover(); r != nil {
								delete(g.structs, ln)
								if us, ok := r.(unsupported); ok {
									badStructs[ln] = us.why
								}
								panic(r)
							}
						}()
						st := u.Underlying().(*types.Struct)
						for i := 0; i < st.NumFields(); i++ {
							g.leanType(st.Field(i).Type())
						}
					}()
					g.sorder = append(g.sorder, ln)
				}
				return ln
			}
			return g.leanType(u.Underlying())
		}
		fail("named type %s.%s", full.Path(), name)
	}
	fail("type %s", t)
	return ""
}

// oneofType: a protobuf `oneof` (interface isT_F implemented by wrapper structs T_X with one field X) becomes an
// inductive type with one constructor per wrapper and `none` for the unset field.
func (g *cgen) oneofType(ns string, u *types.Named) string {
	ln := ns + "." + u.Obj().Name()
	if _, seen := g.oneofs[ln]; seen {
		return ln
	}
	g.oneofs[ln] = "" // placeholder against recursion
	owner := strings.TrimPrefix(strings.SplitN(u.Obj().Name(), "_", 2)[0], "is")
	scope := u.Obj().Pkg().Scope()
	var b strings.Builder
	fmt.Fprintf(&b, "inductive %s where\n  | none\n", ln)
	for _, nm := range scope.Names() {
		if !strings.HasPrefix(nm, owner+"_") {
			continue
		}
		tn, ok := scope.Lookup(nm).(*types.TypeName)
		if !ok {
			continue
		}
		st, ok := tn.Type().Underlying().(*types.Struct)
		if !ok || st.NumFields() != 1 || !types.Implements(types.NewPointer(tn.Type()), u.Underlying().(*types.Interface)) {
			continue
		}
		fmt.Fprintf(&b, "  | %s (v : %s)\n", st.Field(0).Name(), g.leanType(st.Field(0).Type()))
	}
	b.WriteString("  deriving Repr, DecidableEq\ninstance : Inhabited " + ln + " := ⟨.none⟩\n")
	g.oneofs[ln] = b.String()
	g.sorder = append(g.sorder, "oneof:"+ln)
	return ln
}

// leanField: a Go field name as a Lean field name (`Type`, … are keywords)
func leanField(n string) string {
	if leanReserved[n] {
		return "«" + n + "»"
	}
	return n
}

func (g *cgen) structDecl(ln string) string {
	if strings.HasPrefix(ln, "oneof:") {
		return g.oneofs[strings.TrimPrefix(ln, "oneof:")]
	}
	n := g.structs[ln]
	st := n.Underlying().(*types.Struct)
	var b strings.Builder
	fmt.Fprintf(&b, "structure %s where\n", ln)
	for i := 0; i < st.NumFields(); i++ {
		f := st.Field(i)
		fmt.Fprintf(&b, "  %s : %s := default\n", leanField(f.Name()), g.leanType(f.Type()))
	}
	if st.NumFields() == 0 {
		b.WriteString("  mk ::\n")
	}
	b.WriteString("  deriving Repr, DecidableEq, Inhabited\n")
	return b.String()
}

func leanBytesLit(s string) string {
	if s == "" {
		return "([] : Bytes)"
	}
	parts := make([]string, len(s))
	for i := 0; i < len(s); i++ {
		parts[i] = strconv.Itoa(int(s[i]))
	}
	return "([" + strings.Join(parts, ", ") + "] : Bytes)"
}

// ---------------------------------------------------------------------------------------------------------
// regular expressions

func reTree(pattern string) string {
	re, err := syntax.Parse(pattern, syntax.Perl)
	if err != nil {
		return fmt.Sprintf("(Go.Re.unsupported %s)", leanStr(err.Error()))
	}
	return reNode(re)
}

func reRanges(rs []rune) (string, bool) {
	// a class is positive when it stays within one byte; a class reaching 0x10FFFF is a negated ASCII class
	var parts []string
	neg := false
	for i := 0; i+1 < len(rs); i += 2 {
		if rs[i+1] > 255 {
			neg = true
		}
	}
	if !neg {
		for i := 0; i+1 < len(rs); i += 2 {
			parts = append(parts, fmt.Sprintf("(%d, %d)", rs[i], rs[i+1]))
		}
		return "[" + strings.Join(parts, ", ") + "]", false
	}
	// complement within 0..0x10FFFF, cut to bytes
	prev := rune(0)
	for i := 0; i+1 < len(rs); i += 2 {
		if rs[i] > prev && prev <= 255 {
			hi := rs[i] - 1
			if hi > 255 {
				hi = 255
			}
			parts = append(parts, fmt.Sprintf("(%d, %d)", prev, hi))
		}
		prev = rs[i+1] + 1
	}
	return "[" + strings.Join(parts, ", ") + "]", true
}

func reNode(re *syntax.Regexp) string {
	switch re.Op {
	case syntax.OpBeginText:
		return "Go.Re.bot"
	case syntax.OpEndText:
		return "Go.Re.eot"
	case syntax.OpLiteral:
		return "(Go.Re.lit " + leanBytesLit(string(re.Rune)) + ")"
	case syntax.OpCharClass:
		r, neg := reRanges(re.Rune)
		if neg {
			return "(Go.Re.ncls " + r + ")"
		}
		return "(Go.Re.cls " + r + ")"
	case syntax.OpStar:
		return "(Go.Re.star " + reNode(re.Sub[0]) + ")"
	case syntax.OpPlus:
		return "(Go.Re.plus " + reNode(re.Sub[0]) + ")"
	case syntax.OpRepeat:
		return fmt.Sprintf("(Go.Re.rep %s %d %d)", reNode(re.Sub[0]), re.Min, re.Max)
	case syntax.OpConcat:
		var ps []string
		for _, s := range re.Sub {
			ps = append(ps, reNode(s))
		}
		return "(Go.Re.cat [" + strings.Join(ps, ", ") + "])"
	}
	return fmt.Sprintf("(Go.Re.unsupported %s)", leanStr(re.String()))
}

// ---------------------------------------------------------------------------------------------------------

func (c *fctx) fresh(base string) string {
	base = leanIdent(base)
	if base == "" || base == "_" {
		base = "t"
	}
	n := base
	for i := 1; c.used[n] || leanReserved[n]; i++ {
		n = fmt.Sprintf("%s_%d", base, i)
	}
	c.used[n] = true
	return n
}

var leanReserved = map[string]bool{"end": true, "at": true, "from": true, "to": true, "by": true, "in": true, "do": true, "then": true, "else": true,
	"if": true, "let": true, "fun": true, "match": true, "with": true, "have": true, "show": true, "open": true, "where": true, "def": true,
	"theorem": true, "instance": true, "structure": true, "class": true, "namespace": true, "section": true, "variable": true, "Type": true,
	"Prop": true, "Sort": true, "mut": true, "return": true, "for": true, "unless": true, "try": true, "catch": true, "finally": true,
	"break": true, "continue": true, "import": true, "export": true, "local": true, "private": true, "protected": true, "mutual": true,
	"inductive": true, "deriving": true, "extends": true, "using": true, "calc": true, "nomatch": true, "nofun": true, "macro": true,
	"syntax": true, "notation": true, "infix": true, "prefix": true, "postfix": true, "set_option": true, "attribute": true, "universe": true,
	"example": true, "abbrev": true, "meta": true, "nft": true, "world": true, "world0": true, "crypto": true, "id": true, "opaque": true, "axiom": true, "bech": true, "I": true, "Go": true, "strings": true}

func (c *fctx) nameOf(o types.Object) string {
	if n, ok := c.names[o]; ok {
		return n
	}
	n := c.fresh(o.Name())
	c.names[o] = n
	return n
}

type emitter struct {
	lines []string
}

func (e *emitter) add(ind int, s string) { e.lines = append(e.lines, strings.Repeat("  ", ind)+s) }

// expr translates an expression; calls that can panic or touch the world are hoisted into `e` as `let t ← …`.
func (c *fctx) expr(e *emitter, ind int, x ast.Expr) string {
	if tv, ok := c.info.Types[x]; ok && tv.Value != nil {
		return c.constExpr(tv)
	}
	switch v := x.(type) {
	case *ast.ParenExpr:
		return c.expr(e, ind, v.X)
	case *ast.Ident:
		if v.Name == "nil" {
			return c.zero(c.info.TypeOf(x), x)
		}
		if v.Name == "true" || v.Name == "false" {
			return v.Name
		}
		o := c.info.ObjectOf(v)
		if pv, ok := o.(*types.Var); ok && pv.Pkg() != nil && pv.Parent() == pv.Pkg().Scope() {
			return c.g.pkgVar(pv)
		}
		if o == nil {
			fail("unresolved identifier %s", v.Name)
		}
		return c.nameOf(o)
	case *ast.BasicLit:
		fail("non-constant literal %s", v.Value)
	case *ast.SelectorExpr:
		return c.selector(e, ind, v)
	case *ast.CallExpr:
		r := c.call(e, ind, v, 1)
		return r[0]
	case *ast.BinaryExpr:
		return c.binary(e, ind, v)
	case *ast.UnaryExpr:
		switch v.Op {
		case token.NOT:
			return "(!" + c.expr(e, ind, v.X) + ")"
		case token.AND:
			// &x : a pointer to a value we hold
			return "(some " + c.expr(e, ind, v.X) + ")"
		case token.SUB:
			return "(-" + c.expr(e, ind, v.X) + ")"
		}
		fail("unary operator %s", v.Op)
	case *ast.StarExpr:
		t := c.fresh("d")
		e.add(ind, fmt.Sprintf("let %s ← %s (Go.deref %s %s)", t, c.lift(), leanStr(exprStr(c.f.pkg.Fset, v.X)), c.expr(e, ind, v.X)))
		return t
	case *ast.IndexExpr:
		base := c.expr(e, ind, v.X)
		i := c.asInt(e, ind, v.Index)
		t := c.fresh("x")
		e.add(ind, fmt.Sprintf("let %s ← %s (Go.idx %s %s)", t, c.lift(), base, i))
		return t
	case *ast.SliceExpr:
		if v.Slice3 {
			fail("3-index slice")
		}
		base := c.expr(e, ind, v.X)
		lo := "0"
		if v.Low != nil {
			lo = c.asInt(e, ind, v.Low)
		}
		hi := "none"
		if v.High != nil {
			hi = "(some " + c.asInt(e, ind, v.High) + ")"
		}
		t := c.fresh("s")
		e.add(ind, fmt.Sprintf("let %s ← %s (Go.slice %s %s %s)", t, c.lift(), base, lo, hi))
		return t
	case *ast.CompositeLit:
		return c.composite(e, ind, v)
	}
	fail("expression %T", x)
	return ""
}

func (c *fctx) lift() string {
	return ""
}

func (c *fctx) asInt(e *emitter, ind int, x ast.Expr) string {
	s := c.expr(e, ind, x)
	t := c.info.TypeOf(x)
	if b, ok := t.Underlying().(*types.Basic); ok {
		switch b.Kind() {
		case types.Uint64, types.Uint32, types.Uint:
			return "(" + s + " : Int)"
		case types.Uint8:
			return "(" + s + ".toNat : Int)"
		}
	}
	return s
}

func (c *fctx) constExpr(tv types.TypeAndValue) string {
	switch tv.Value.Kind() {
	case constant.Bool:
		return tv.Value.String()
	case constant.String:
		return leanBytesLit(constant.StringVal(tv.Value))
	case constant.Int:
		s := tv.Value.ExactString()
		if b, ok := tv.Type.Underlying().(*types.Basic); ok {
			switch b.Kind() {
			case types.Uint8:
				return "(" + s + " : UInt8)"
			case types.Uint64, types.Uint32, types.Uint:
				return "(" + s + " : Nat)"
			}
		}
		if strings.HasPrefix(s, "-") {
			return "(" + s + " : Int)"
		}
		return "(" + s + " : Int)"
	}
	fail("constant of kind %v", tv.Value.Kind())
	return ""
}

func (c *fctx) zero(t types.Type, at ast.Node) string {
	if t == nil {
		fail("zero value of unknown type")
	}
	if b, ok := t.(*types.Basic); ok && b.Kind() == types.UntypedNil {
		return "default"
	}
	if isCompositeKeyIface(t) {
		fail("nil interface value")
	}
	return "(default : " + c.g.leanType(t) + ")"
}

func (g *cgen) pkgVar(v *types.Var) string {
	ns, ok := g.nsOf(v.Pkg())
	if !ok {
		// external package variables: registered errors of the SDK
		switch v.Pkg().Path() + "." + v.Name() {
		case "github.com/cosmos/cosmos-sdk/types/errors.ErrInvalidAddress":
			return "(some \"sdk/7\" : Go.Err)"
		case "github.com/cosmos/cosmos-sdk/types/errors.ErrInvalidRequest":
			return "(some \"sdk/18\" : Go.Err)"
		case "github.com/cosmos/cosmos-sdk/types/errors.ErrUnauthorized":
			return "(some \"sdk/4\" : Go.Err)"
		case "github.com/cosmos/cosmos-sdk/types/errors.ErrKeyNotFound":
			return "(some \"sdk/30\" : Go.Err)"
		case "github.com/cosmos/cosmos-sdk/x/nft/keeper.ClassKey":
			return "Go.Nft.classKey"
		}
		fail("external package variable %s.%s", v.Pkg().Path(), v.Name())
	}
	ln := ns + "." + v.Name()
	if _, seen := g.vars[ln]; seen {
		return ln
	}
	// find the declaration
	p := g.pkgs[v.Pkg().Path()]
	for _, f := range p.Syntax {
		for _, d := range f.Decls {
			gd, ok := d.(*ast.GenDecl)
			if !ok || gd.Tok != token.VAR {
				continue
			}
			for _, sp := range gd.Specs {
				vs := sp.(*ast.ValueSpec)
				for i, nm := range vs.Names {
					if p.TypesInfo.Defs[nm] != v || i >= len(vs.Values) {
						continue
					}
					g.vars[ln] = g.varInit(p, v, vs.Values[i])
					g.vorder = append(g.vorder, ln)
					return ln
				}
			}
		}
	}
	fail("package variable %s without initialiser", ln)
	return ""
}

func (g *cgen) varInit(p *packages.Package, v *types.Var, init ast.Expr) string {
	// errors.Register(ModuleName, code, "…")
	if call, ok := init.(*ast.CallExpr); ok {
		if calleeName(call.Fun) == "errors.Register" || strings.HasSuffix(calleeName(call.Fun), ".Register") {
			cs := p.TypesInfo.Types[call.Args[0]]
			cd := p.TypesInfo.Types[call.Args[1]]
			if cs.Value != nil && cd.Value != nil {
				return fmt.Sprintf("Go.Err := some %s", leanStr(constant.StringVal(cs.Value)+"/"+cd.Value.ExactString()))
			}
		}
	}
	if cl, ok := init.(*ast.CompositeLit); ok {
		c := &fctx{g: g, f: &cfn{pkg: p}, info: p.TypesInfo, names: map[types.Object]string{}, used: map[string]bool{}}
		e := &emitter{}
		s := c.composite(e, 0, cl)
		if len(e.lines) == 0 {
			return g.leanType(v.Type()) + " := " + s
		}
	}
	fail("initialiser of package variable %s", v.Name())
	return ""
}

func (c *fctx) composite(e *emitter, ind int, v *ast.CompositeLit) string {
	t := c.info.TypeOf(v)
	if isStringMap(t) {
		if len(v.Elts) != 0 {
			fail("non-empty map literal")
		}
		return "([] : " + c.g.leanType(t) + ")"
	}
	switch u := t.Underlying().(type) {
	case *types.Slice:
		var parts []string
		for _, el := range v.Elts {
			if _, ok := el.(*ast.KeyValueExpr); ok {
				fail("keyed slice literal")
			}
			parts = append(parts, c.expr(e, ind, el))
		}
		return "([" + strings.Join(parts, ", ") + "] : " + c.g.leanType(t) + ")"
	case *types.Struct:
		var parts []string
		for i, el := range v.Elts {
			kv, ok := el.(*ast.KeyValueExpr)
			if ok {
				// a oneof field set to `&Wrapper{F: x}` is the constructor `.F x`
				if ue, ok := kv.Value.(*ast.UnaryExpr); ok && ue.Op == token.AND {
					if wl, ok := ue.X.(*ast.CompositeLit); ok && len(wl.Elts) == 1 {
						if wn, ok := c.info.TypeOf(wl).(*types.Named); ok && strings.Contains(wn.Obj().Name(), "_") {
							if ft := c.info.TypeOf(kv.Value); ft != nil {
								var fieldT types.Type
								for j := 0; j < u.NumFields(); j++ {
									if u.Field(j).Name() == kv.Key.(*ast.Ident).Name {
										fieldT = u.Field(j).Type()
									}
								}
								if fn, ok := fieldT.(*types.Named); ok {
									if _, isIface := fn.Underlying().(*types.Interface); isIface {
										c.g.leanType(fn)
										inner := wl.Elts[0]
										fname := wn.Underlying().(*types.Struct).Field(0).Name()
										if ikv, ok := inner.(*ast.KeyValueExpr); ok {
											fname = ikv.Key.(*ast.Ident).Name
											inner = ikv.Value
										}
										parts = append(parts, leanField(kv.Key.(*ast.Ident).Name)+" := (."+fname+" "+c.expr(e, ind, inner)+")")
										continue
									}
								}
							}
						}
					}
				}
				parts = append(parts, leanField(kv.Key.(*ast.Ident).Name)+" := "+c.expr(e, ind, kv.Value))
			} else {
				parts = append(parts, leanField(u.Field(i).Name())+" := "+c.expr(e, ind, el))
			}
		}
		lt := c.g.leanType(t)
		if len(parts) == 0 {
			return "(default : " + lt + ")"
		}
		return "({ " + strings.Join(parts, ", ") + " } : " + lt + ")"
	}
	fail("composite literal of type %s", t)
	return ""
}

func (c *fctx) selector(e *emitter, ind int, v *ast.SelectorExpr) string {
	// qualified identifier pkg.Name
	if id, ok := v.X.(*ast.Ident); ok {
		if _, isPkg := c.info.ObjectOf(id).(*types.PkgName); isPkg {
			o := c.info.ObjectOf(v.Sel)
			if pv, ok := o.(*types.Var); ok {
				return c.g.pkgVar(pv)
			}
			fail("qualified identifier %s.%s", id.Name, v.Sel.Name)
		}
	}
	sel := c.info.Selections[v]
	if sel == nil || sel.Kind() != types.FieldVal {
		fail("selector %s", exprStr(c.f.pkg.Fset, v))
	}
	// field of the implicit receiver
	if id, ok := v.X.(*ast.Ident); ok && c.f.implicit && c.info.ObjectOf(id) == c.f.recv {
		switch v.Sel.Name {
		case "storeKey":
			return "(Go.kvStore " + leanStr(storeKeyOf[c.f.ns]) + ")"
		}
		if isImplicitRecv(c.info.TypeOf(v)) {
			return "()" // the embedded keeper: implicit as well
		}
		fail("field %s of the keeper", v.Sel.Name)
	}
	base := c.expr(e, ind, v.X)
	bt := c.info.TypeOf(v.X)
	if len(sel.Index()) != 1 {
		fail("promoted field %s", v.Sel.Name)
	}
	if _, isPtr := bt.Underlying().(*types.Pointer); isPtr {
		t := c.fresh("d")
		e.add(ind, fmt.Sprintf("let %s ← %s (Go.deref %s %s)", t, c.lift(), leanStr(exprStr(c.f.pkg.Fset, v.X)), base))
		return t + "." + leanField(v.Sel.Name)
	}
	return base + "." + leanField(v.Sel.Name)
}

// map[string]struct{} is used as a set: modelled as the list of its members
// isStringMap: map[string]T for a T that is not the empty struct
func isStringMap(t types.Type) bool {
	m, ok := t.Underlying().(*types.Map)
	if !ok || isStringSet(t) {
		return false
	}
	b, ok := m.Key().Underlying().(*types.Basic)
	return ok && b.Kind() == types.String
}

func isStringSet(t types.Type) bool {
	m, ok := t.Underlying().(*types.Map)
	if !ok {
		return false
	}
	st, ok := m.Elem().Underlying().(*types.Struct)
	return ok && st.NumFields() == 0 && isStringish(m.Key())
}

func isU64(t types.Type) bool {
	b, ok := t.Underlying().(*types.Basic)
	return ok && (b.Kind() == types.Uint64 || b.Kind() == types.Uint32 || b.Kind() == types.Uint)
}
func isStringish(t types.Type) bool {
	if b, ok := t.Underlying().(*types.Basic); ok {
		return b.Kind() == types.String || b.Kind() == types.UntypedString
	}
	return false
}

func (c *fctx) binary(e *emitter, ind int, v *ast.BinaryExpr) string {
	lt := c.info.TypeOf(v.X)
	switch v.Op {
	case token.LAND, token.LOR:
		l := c.expr(e, ind, v.X)
		sub := &emitter{}
		r := c.expr(sub, ind+1, v.Y)
		if len(sub.lines) == 0 {
			if v.Op == token.LAND {
				return "(" + l + " && " + r + ")"
			}
			return "(" + l + " || " + r + ")"
		}
		t := c.fresh("b")
		e.add(ind, fmt.Sprintf("let mut %s := %s", t, l))
		if v.Op == token.LAND {
			e.add(ind, fmt.Sprintf("if %s then", t))
		} else {
			e.add(ind, fmt.Sprintf("if !%s then", t))
		}
		e.lines = append(e.lines, sub.lines...)
		e.add(ind+1, fmt.Sprintf("%s := %s", t, r))
		return t
	}
	l := c.expr(e, ind, v.X)
	r := c.expr(e, ind, v.Y)
	// comparison with nil
	isNil := func(x ast.Expr) bool { id, ok := x.(*ast.Ident); return ok && id.Name == "nil" }
	if v.Op == token.EQL || v.Op == token.NEQ {
		var other string
		var ot types.Type
		if isNil(v.Y) {
			other, ot = l, lt
		} else if isNil(v.X) {
			other, ot = r, c.info.TypeOf(v.Y)
		}
		if other != "" {
			_, isSlice := ot.Underlying().(*types.Slice)
			var s string
			if isSlice {
				// a slice decoded from protobuf (or never assigned) is nil exactly when it is empty
				s = "(" + other + ").isEmpty"
			} else {
				s = "(" + other + ").isNone"
			}
			if v.Op == token.NEQ {
				return "(!" + s + ")"
			}
			return s
		}
	}
	switch v.Op {
	case token.EQL:
		return "(decide (" + l + " = " + r + "))"
	case token.NEQ:
		return "(decide (" + l + " ≠ " + r + "))"
	case token.LSS:
		return "(decide (" + l + " < " + r + "))"
	case token.LEQ:
		return "(decide (" + l + " ≤ " + r + "))"
	case token.GTR:
		return "(decide (" + l + " > " + r + "))"
	case token.GEQ:
		return "(decide (" + l + " ≥ " + r + "))"
	case token.ADD:
		if isStringish(lt) {
			return "(" + l + " ++ " + r + ")"
		}
		if isU64(lt) {
			return "(Go.u64add " + l + " " + r + ")"
		}
		return "(" + l + " + " + r + ")"
	case token.SUB:
		if isU64(lt) {
			return "(Go.u64sub " + l + " " + r + ")"
		}
		return "(" + l + " - " + r + ")"
	case token.MUL:
		if isU64(lt) {
			return "(Go.u64mul " + l + " " + r + ")"
		}
		return "(" + l + " * " + r + ")"
	}
	fail("binary operator %s", v.Op)
	return ""
}

// constString evaluates an expression to a compile-time string where Go's constant folding does not: fmt.Sprintf
// over such strings with %s / %v verbs, and calls of parameterless functions of the translated packages whose body is
// a single `return <such an expression>`.
func (c *fctx) constString(x ast.Expr, depth int) (string, bool) {
	if depth > 6 {
		return "", false
	}
	info := c.info
	if tv, ok := info.Types[x]; ok && tv.Value != nil && tv.Value.Kind() == constant.String {
		return constant.StringVal(tv.Value), true
	}
	switch v := x.(type) {
	case *ast.ParenExpr:
		return c.constString(v.X, depth+1)
	case *ast.Ident:
		// a local variable assigned exactly once from such an expression
		if init, ok := c.localInit[info.ObjectOf(v)]; ok {
			return c.constString(init, depth+1)
		}
	case *ast.CallExpr:
		name := calleeName(v.Fun)
		if name == "fmt.Sprintf" && len(v.Args) >= 1 {
			f, ok := c.constString(v.Args[0], depth+1)
			if !ok {
				return "", false
			}
			var out strings.Builder
			ai := 1
			for i := 0; i < len(f); i++ {
				if f[i] != '%' {
					out.WriteByte(f[i])
					continue
				}
				if i+1 >= len(f) {
					return "", false
				}
				i++
				switch f[i] {
				case '%':
					out.WriteByte('%')
				case 's', 'v':
					if ai >= len(v.Args) {
						return "", false
					}
					a, ok := c.constString(v.Args[ai], depth+1)
					if !ok {
						return "", false
					}
					out.WriteString(a)
					ai++
				default:
					return "", false
				}
			}
			return out.String(), true
		}
		if fn := c.calleeFunc(v); fn != nil && len(v.Args) == 0 {
			if cf, ok := c.g.fns[fn]; ok && cf.recv == nil && len(cf.decl.Body.List) > 0 {
				if rs, ok := cf.decl.Body.List[len(cf.decl.Body.List)-1].(*ast.ReturnStmt); ok && len(rs.Results) == 1 {
					sub := &fctx{g: c.g, f: cf, info: cf.pkg.TypesInfo, localInit: map[types.Object]ast.Expr{}}
					return sub.constString(rs.Results[0], depth+1)
				}
			}
		}
	}
	return "", false
}

// sprintfConcat: fmt.Sprintf whose verbs are all %s / %v applied to string-typed arguments is a concatenation.
func (c *fctx) sprintfConcat(e *emitter, ind int, call *ast.CallExpr) (string, bool) {
	tv := c.info.Types[call.Args[0]]
	if tv.Value == nil {
		return "", false
	}
	f := constant.StringVal(tv.Value)
	var parts []string
	lit := ""
	ai := 1
	flush := func() {
		if lit != "" {
			parts = append(parts, leanBytesLit(lit))
			lit = ""
		}
	}
	for i := 0; i < len(f); i++ {
		if f[i] != '%' {
			lit += string(f[i])
			continue
		}
		if i+1 >= len(f) {
			return "", false
		}
		i++
		switch f[i] {
		case '%':
			lit += "%"
		case 's', 'v':
			if ai >= len(call.Args) || !isStringish(c.info.TypeOf(call.Args[ai])) {
				return "", false
			}
			flush()
			parts = append(parts, c.expr(e, ind, call.Args[ai]))
			ai++
		default:
			return "", false
		}
	}
	flush()
	if len(parts) == 0 {
		return "([] : Bytes)", true
	}
	return "(" + strings.Join(parts, " ++ ") + ")", true
}

// oneofGetter: `m.GetF()` of a protobuf message with a oneof field — the generated getter, written out.
func (c *fctx) oneofGetter(e *emitter, ind int, call *ast.CallExpr, fn *types.Func) (string, bool) {
	sel, ok := call.Fun.(*ast.SelectorExpr)
	if !ok || !strings.HasPrefix(fn.Name(), "Get") || len(call.Args) != 0 {
		return "", false
	}
	sig := fn.Type().(*types.Signature)
	if sig.Recv() == nil {
		return "", false
	}
	n := namedOf(sig.Recv().Type())
	if n == nil {
		return "", false
	}
	if !strings.HasSuffix(c.f.pkg.Fset.Position(fn.Pos()).Filename, ".pb.go") {
		return "", false
	}
	st, ok := n.Underlying().(*types.Struct)
	if !ok {
		return "", false
	}
	field := strings.TrimPrefix(fn.Name(), "Get")
	wrapper, _ := n.Obj().Pkg().Scope().Lookup(n.Obj().Name() + "_" + field).(*types.TypeName)
	if wrapper == nil {
		return "", false
	}
	for i := 0; i < st.NumFields(); i++ {
		ft, ok := st.Field(i).Type().(*types.Named)
		if !ok {
			continue
		}
		if _, isIface := ft.Underlying().(*types.Interface); !isIface {
			continue
		}
		recv := c.expr(e, ind, sel.X)
		if _, isPtr := c.info.TypeOf(sel.X).Underlying().(*types.Pointer); isPtr {
			// the generated getters are nil-safe: a nil receiver yields the zero value
			return fmt.Sprintf("(match %s with | some m_ => (match m_.%s with | .%s v_ => v_ | _ => default) | none => default)", recv, st.Field(i).Name(), field), true
		}
		c.g.leanType(ft)
		return fmt.Sprintf("(match %s.%s with | .%s v_ => v_ | _ => default)", recv, st.Field(i).Name(), field), true
	}
	return "", false
}

// callee resolution ------------------------------------------------------------------------------------------

func (c *fctx) calleeFunc(call *ast.CallExpr) *types.Func {
	switch f := call.Fun.(type) {
	case *ast.Ident:
		if fn, ok := c.info.ObjectOf(f).(*types.Func); ok {
			return fn
		}
	case *ast.SelectorExpr:
		if fn, ok := c.info.ObjectOf(f.Sel).(*types.Func); ok {
			return fn
		}
	}
	return nil
}

func (c *fctx) bind(e *emitter, ind int, rhs string, n int) []string {
	if n == 0 {
		e.add(ind, rhs)
		return nil
	}
	if n == 1 {
		t := c.fresh("t")
		e.add(ind, fmt.Sprintf("let %s ← %s", t, rhs))
		return []string{t}
	}
	t := c.fresh("t")
	e.add(ind, fmt.Sprintf("let %s ← %s", t, rhs))
	out := make([]string, n)
	for i := 0; i < n; i++ {
		out[i] = tupleProj(t, i, n)
	}
	return out
}

func tupleProj(t string, i, n int) string {
	// right-nested pairs
	s := t
	for j := 0; j < i; j++ {
		s += ".2"
	}
	if i < n-1 {
		s += ".1"
	}
	return s
}

// call translates a call and returns the Lean expressions of its `want` results (0 = statement).
func (c *fctx) call(e *emitter, ind int, call *ast.CallExpr, want int) []string {
	fset := c.f.pkg.Fset
	// conversions
	if tv, ok := c.info.Types[call.Fun]; ok && tv.IsType() {
		return []string{c.conversion(e, ind, tv.Type, call.Args[0])}
	}
	// builtins
	if id, ok := call.Fun.(*ast.Ident); ok {
		if _, isB := c.info.ObjectOf(id).(*types.Builtin); isB {
			return c.builtin(e, ind, id.Name, call, want)
		}
	}
	name := calleeName(call.Fun)
	fn := c.calleeFunc(call)
	if fn != nil && fn.Pkg() != nil {
		switch fn.Pkg().Path() + "." + fn.Name() {
		case modPath + "/x/did/types.Verify":
			// Verify(signature, signableData, seq, pubKey): sign bytes = DataWithSeq{data.Marshal(), seq}, then the
			// signature scheme (a parameter); the marshalled document is `Proto.marshal`
			c.f.usesCrypto = true
			dt := c.info.TypeOf(call.Args[1])
			dn := namedOf(dt)
			if dn == nil {
				fail("Verify of %s", dt)
			}
			c.f.protos[c.g.leanType(dn)] = true
			data := c.expr(e, ind, call.Args[1])
			if _, isPtr := dt.Underlying().(*types.Pointer); isPtr {
				t := c.fresh("d")
				e.add(ind, fmt.Sprintf("let %s ← %s (Go.deref %s %s)", t, c.lift(), leanStr(exprStr(fset, call.Args[1])), data))
				data = t
			}
			t := c.fresh("t")
			e.add(ind, fmt.Sprintf("let %s := Go.didVerify crypto %s (Go.Proto.marshal %s) %s %s", t, c.expr(e, ind, call.Args[0]), data, c.expr(e, ind, call.Args[2]), c.expr(e, ind, call.Args[3])))
			return []string{t + ".1", t + ".2"}
		case "github.com/btcsuite/btcutil/base58.Decode":
			return []string{"(Did.b58Decode " + c.expr(e, ind, call.Args[0]) + ")"}
		}
	}
	// translated function?
	if fn != nil {
		if cf, ok := c.g.fns[fn]; ok {
			return c.callTranslated(e, ind, cf, call, want)
		}
	}
	arg := func(i int) string { return c.expr(e, ind, call.Args[i]) }
	full := ""
	if fn != nil && fn.Pkg() != nil {
		full = fn.Pkg().Path() + "." + fn.Name()
		if sig, ok := fn.Type().(*types.Signature); ok && sig.Recv() != nil {
			if n := namedOf(sig.Recv().Type()); n != nil {
				full = fn.Pkg().Path() + "." + n.Obj().Name() + "." + fn.Name()
			}
		}
	}
	sel, _ := call.Fun.(*ast.SelectorExpr)
	if fn != nil {
		if r, ok := c.oneofGetter(e, ind, call, fn); ok {
			return []string{r}
		}
	}
	// set membership / insertion on a local map[string]struct{}
	switch full {
	case "regexp.MatchString":
		pat, ok := c.constString(call.Args[0], 0)
		if !ok {
			fail("regexp.MatchString with a pattern that is not a compile-time string")
		}
		r := c.bind(e, ind, c.lift()+" (Go.reMatch "+reTree(pat)+" "+arg(1)+")", 1)
		return []string{r[0], "(none : Go.Err)"}[:max1(want, 1)]
	case "errors.New":
		if tv := c.info.Types[call.Args[0]]; tv.Value != nil {
			return []string{"(some " + leanStr("err:"+constant.StringVal(tv.Value)) + " : Go.Err)"}
		}
		return []string{"(some \"err\" : Go.Err)"}
	case "strings.IndexByte":
		return []string{"(Go.indexByte " + arg(0) + " " + arg(1) + ")"}
	case "strings.HasPrefix":
		return []string{"(List.isPrefixOf " + arg(1) + " " + arg(0) + ")"}
	case "github.com/cosmos/cosmos-sdk/types.AccAddress.Empty":
		return []string{"(" + c.expr(e, ind, sel.X) + ").isEmpty"}
	case "log.Printf", "log.Println":
		return nil
	case "github.com/cosmos/cosmos-sdk/codec/types.NewAnyWithValue":
		u, ok := call.Args[0].(*ast.UnaryExpr)
		if !ok || u.Op != token.AND {
			fail("NewAnyWithValue of a non-address")
		}
		lt := c.g.leanType(c.info.TypeOf(u.X))
		c.f.protos[lt] = true
		return []string{"(some ({ TypeUrl := " + leanBytesLit(lt) + ", Value := Go.Proto.marshal " + c.expr(e, ind, u.X) + " } : Go.Any))", "(none : Go.Err)"}
	case "github.com/cosmos/cosmos-sdk/codec/types.Any.GetValue":
		return []string{"(Go.anyValue " + c.expr(e, ind, sel.X) + ")"}
	case "github.com/cosmos/cosmos-sdk/types.EventManager.EmitTypedEvent":
		return []string{"(none : Go.Err)"} // events are not part of the modelled state
	case "github.com/cosmos/cosmos-sdk/types.Context.BlockTime":
		if worldType(c.f.ns) == "Go.Nft.World" {
			return []string{"(Go.Nft.blockTime world)"}
		}
		fail("ctx.BlockTime() outside UnixNano()")
	case "time.Time.IsZero":
		return []string{"(Go.Time.isZero " + c.expr(e, ind, sel.X) + ")"}
	case "github.com/cosmos/cosmos-sdk/types.Coins.Empty":
		return []string{"(" + c.expr(e, ind, sel.X) + ").isEmpty"}
	case "fmt.Sprintf":
		if str, ok := c.constString(call, 0); ok {
			return []string{leanBytesLit(str)}
		}
		if str, ok := c.sprintfConcat(e, ind, call); ok {
			return []string{str}
		}
		fail("fmt.Sprintf with verbs other than %%s/%%v on strings")
	}
	switch full {
	case "github.com/cosmos/cosmos-sdk/types.AccAddressFromBech32":
		c.f.usesBech = true
		t := c.fresh("t")
		e.add(ind, fmt.Sprintf("let %s := Go.accAddressFromBech32 bech %s", t, arg(0)))
		return []string{t + ".1", t + ".2"}
	case "github.com/cosmos/cosmos-sdk/types.VerifyAddressFormat":
		return []string{"(Go.verifyAddressFormat " + arg(0) + ")"}
	case "github.com/cosmos/cosmos-sdk/types.Uint64ToBigEndian":
		return []string{"(be64 " + arg(0) + ")"}
	case "github.com/cosmos/cosmos-sdk/types.BigEndianToUint64":
		return c.bind(e, ind, c.lift()+" (Go.bigEndianToUint64 "+arg(0)+")", 1)
	case "github.com/cosmos/cosmos-sdk/types.AccAddress.Bytes":
		return []string{c.expr(e, ind, sel.X)}
	case "github.com/cosmos/cosmos-sdk/types.AccAddress.String":
		c.f.usesBech = true
		return []string{"(bech.enc " + c.expr(e, ind, sel.X) + ")"}
	case "github.com/cosmos/cosmos-sdk/types.UnwrapSDKContext":
		return []string{"()"}
	case "github.com/cosmos/cosmos-sdk/types.KVStorePrefixIterator":
		return []string{"(Go.Store.iterate " + arg(0) + " " + arg(1) + " world)"}
	case "github.com/cosmos/cosmos-sdk/store/prefix.NewStore":
		return []string{"(Go.prefixStore " + arg(0) + " " + arg(1) + ")"}
	case "github.com/cosmos/cosmos-sdk/types.Context.KVStore":
		return []string{arg(0)}
	case "github.com/cosmos/cosmos-sdk/store/prefix.Store.Set":
		e.add(ind, "world ← Go.Store.set "+c.expr(e, ind, sel.X)+" "+arg(0)+" "+arg(1)+" world")
		return nil
	case "github.com/cosmos/cosmos-sdk/store/prefix.Store.Get":
		return []string{"(Go.Store.get " + c.expr(e, ind, sel.X) + " " + arg(0) + " world)"}
	case "github.com/cosmos/cosmos-sdk/store/prefix.Store.Has":
		return []string{"(Go.Store.has " + c.expr(e, ind, sel.X) + " " + arg(0) + " world)"}
	case "github.com/cosmos/cosmos-sdk/store/prefix.Store.Delete":
		e.add(ind, "world ← Go.Store.delete "+c.expr(e, ind, sel.X)+" "+arg(0)+" world")
		return nil
	case "cosmossdk.io/errors.Wrapf", "cosmossdk.io/errors.Wrap":
		return []string{"(Go.wrap " + arg(0) + ")"}
	case "fmt.Errorf":
		// an error with its own text; `%w` keeps nothing we compare
		return []string{"(some " + leanStr("fmt:"+constant.StringVal(c.info.Types[call.Args[0]].Value)) + " : Go.Err)"}
	case "google.golang.org/grpc/status.Error", "google.golang.org/grpc/status.Errorf":
		return []string{"(some " + leanStr("grpc/"+exprStr(fset, call.Args[0])) + " : Go.Err)"}
	case "strings.Split":
		sep := c.info.Types[call.Args[1]]
		if sep.Value == nil || len(constant.StringVal(sep.Value)) != 1 {
			// separator is a parameter: it must be a one-byte string at run time
			return c.bind(e, ind, c.lift()+" (Go.splitSep "+arg(0)+" "+arg(1)+")", 1)
		}
		return []string{fmt.Sprintf("(Go.splitByte %s %d)", arg(0), constant.StringVal(sep.Value)[0])}
	case "strings.Builder.WriteString":
		id, ok := sel.X.(*ast.Ident)
		if !ok {
			fail("strings.Builder that is not a local variable")
		}
		n := c.nameOf(c.info.ObjectOf(id))
		e.add(ind, fmt.Sprintf("%s := %s ++ %s", n, n, arg(0)))
		return []string{"()", "none"}[:want]
	case "strings.Builder.String":
		return []string{c.expr(e, ind, sel.X)}
	case "strconv.FormatUint":
		if b := c.info.Types[call.Args[1]]; b.Value == nil || b.Value.ExactString() != "10" {
			fail("FormatUint base")
		}
		return []string{"(CompKey.formatUint " + arg(0) + ")"}
	case "strconv.ParseUint":
		if b := c.info.Types[call.Args[1]]; b.Value == nil || b.Value.ExactString() != "10" {
			fail("ParseUint base")
		}
		if b := c.info.Types[call.Args[2]]; b.Value == nil || b.Value.ExactString() != "64" {
			fail("ParseUint size")
		}
		t := c.fresh("t")
		e.add(ind, fmt.Sprintf("let %s := Go.parseUint64 %s", t, arg(0)))
		return []string{t + ".1", t + ".2"}
	case "regexp.Regexp.MatchString":
		// regexp.MustCompile(<constant>).MatchString(s)
		inner, ok := sel.X.(*ast.CallExpr)
		if !ok || calleeName(inner.Fun) != "regexp.MustCompile" {
			fail("MatchString on a non-literal regexp")
		}
		pv := c.info.Types[inner.Args[0]]
		if pv.Value == nil {
			fail("non-constant regexp")
		}
		return c.bind(e, ind, c.lift()+" (Go.reMatch "+reTree(constant.StringVal(pv.Value))+" "+arg(0)+")", 1)
	case "time.Time.UnixNano":
		inner, ok := sel.X.(*ast.CallExpr)
		if ok && strings.HasSuffix(calleeName(inner.Fun), ".BlockTime") {
			return []string{"(Go.blockTimeUnixNano world)"}
		}
		fail("UnixNano of something that is not ctx.BlockTime()")
	}
	// the SDK's x/nft keeper (hand-written model Go/Nft.lean)
	if sel != nil {
		if inner, ok := sel.X.(*ast.SelectorExpr); ok && inner.Sel.Name == "nftKeeper" {
			switch sel.Sel.Name {
			case "SaveClass", "UpdateClass":
				fnm := map[string]string{"SaveClass": "saveClass", "UpdateClass": "updateClass"}[sel.Sel.Name]
				t := c.fresh("t")
				e.add(ind, fmt.Sprintf("let %s := Go.Nft.%s world %s", t, fnm, arg(1)))
				e.add(ind, fmt.Sprintf("world := %s.1", t))
				return []string{t + ".2"}
			case "Mint":
				t := c.fresh("t")
				e.add(ind, fmt.Sprintf("let %s := Go.Nft.mint world %s %s", t, arg(1), arg(2)))
				e.add(ind, fmt.Sprintf("world := %s.1", t))
				return []string{t + ".2"}
			case "Burn":
				t := c.fresh("t")
				e.add(ind, fmt.Sprintf("let %s := Go.Nft.burn world %s %s", t, arg(1), arg(2)))
				e.add(ind, fmt.Sprintf("world := %s.1", t))
				return []string{t + ".2"}
			case "Transfer":
				t := c.fresh("t")
				e.add(ind, fmt.Sprintf("let %s := Go.Nft.transfer world %s %s %s", t, arg(1), arg(2), arg(3)))
				e.add(ind, fmt.Sprintf("world := %s.1", t))
				return []string{t + ".2"}
			case "GetClass":
				t := c.fresh("t")
				e.add(ind, fmt.Sprintf("let %s := Go.Nft.getClass world %s", t, arg(1)))
				return []string{t + ".1", t + ".2"}
			case "GetNFT":
				t := c.fresh("t")
				e.add(ind, fmt.Sprintf("let %s := Go.Nft.getNFT world %s %s", t, arg(1), arg(2)))
				return []string{t + ".1", t + ".2"}
			case "GetClasses":
				return []string{"(Go.Nft.getClasses world)"}
			case "GetOwner":
				return []string{"(Go.Nft.getOwner world " + arg(1) + " " + arg(2) + ")"}
			case "GetTotalSupply":
				return []string{"(Go.Nft.getTotalSupply world " + arg(1) + ")"}
			case "GetNFTsOfClass":
				return []string{"(Go.Nft.getNFTsOfClass world " + arg(1) + ")"}
			case "GetNFTsOfClassByOwner":
				return []string{"(Go.Nft.getNFTsOfClassByOwner world " + arg(1) + " " + arg(2) + ")"}
			}
			fail("x/nft keeper method %s", sel.Sel.Name)
		}
		// cdc.Unmarshal(bz, &m) through a codec-typed receiver (k.cdc or a parameter)
		if sel.Sel.Name == "Unmarshal" && len(call.Args) == 2 {
			if rt := c.info.TypeOf(sel.X); rt != nil && isCodecType(rt) {
				u, ok := call.Args[1].(*ast.UnaryExpr)
				id, ok2 := u.X.(*ast.Ident)
				if !ok || u.Op != token.AND || !ok2 {
					fail("Unmarshal into a non-variable")
				}
				lt := c.g.leanType(c.info.TypeOf(u.X))
				c.f.protos[lt] = true
				t := c.fresh("t")
				e.add(ind, fmt.Sprintf("let %s := (Go.unmarshalE %s : %s × Go.Err)", t, arg(0), lt))
				e.add(ind, fmt.Sprintf("%s := %s.1", c.nameOf(c.info.ObjectOf(id)), t))
				return []string{t + ".2"}
			}
		}
		// raw delete on the module store of a keeper whose world is the x/nft model
		if sel.Sel.Name == "Delete" && worldType(c.f.ns) == "Go.Nft.World" {
			e.add(ind, "world ← Go.Nft.rawDelete world "+arg(0))
			return nil
		}
		// generated plain getter of a protobuf message: `m.GetX()` is nil-safe field access
		if fn != nil && strings.HasPrefix(fn.Name(), "Get") && len(call.Args) == 0 &&
			strings.HasSuffix(fset.Position(fn.Pos()).Filename, ".pb.go") {
			if n := namedOf(fn.Type().(*types.Signature).Recv().Type()); n != nil {
				if st, ok := n.Underlying().(*types.Struct); ok {
					field := strings.TrimPrefix(fn.Name(), "Get")
					for i := 0; i < st.NumFields(); i++ {
						if st.Field(i).Name() == field {
							recv := c.expr(e, ind, sel.X)
							if _, isPtr := c.info.TypeOf(sel.X).Underlying().(*types.Pointer); isPtr {
								return []string{fmt.Sprintf("(match %s with | some m_ => m_.%s | none => default)", recv, leanField(field))}
							}
							return []string{recv + "." + leanField(field)}
						}
					}
				}
			}
		}
	}
	// logging has no effect on the state (its arguments are not evaluated here)
	if sel != nil && (sel.Sel.Name == "Info" || sel.Sel.Name == "Error" || sel.Sel.Name == "Debug") {
		if ic, ok := sel.X.(*ast.CallExpr); ok && strings.HasSuffix(calleeName(ic.Fun), ".Logger") {
			return nil
		}
	}
	// x/bank through the keeper's interface field
	if sel != nil {
		if inner, ok := sel.X.(*ast.SelectorExpr); ok && inner.Sel.Name == "bankKeeper" {
			switch sel.Sel.Name {
			case "SpendableCoins":
				return []string{"(Go.bankSpendableCoins world " + arg(1) + ")"}
			case "SendCoinsFromAccountToModule":
				t := c.fresh("t")
				e.add(ind, fmt.Sprintf("let %s := Go.bankSendToModule world %s %s %s", t, arg(1), arg(2), arg(3)))
				e.add(ind, fmt.Sprintf("world := %s.1", t))
				return []string{t + ".2"}
			case "BurnCoins":
				t := c.fresh("t")
				e.add(ind, fmt.Sprintf("let %s := Go.bankBurnCoins world %s %s", t, arg(1), arg(2)))
				e.add(ind, fmt.Sprintf("world := %s.1", t))
				return []string{t + ".2"}
			}
			fail("bank keeper method %s", sel.Sel.Name)
		}
	}
	// codec of the keeper
	if sel != nil {
		if inner, ok := sel.X.(*ast.SelectorExpr); ok && inner.Sel.Name == "cdc" {
			switch sel.Sel.Name {
			case "MustMarshal", "MustMarshalLengthPrefixed":
				u, ok := call.Args[0].(*ast.UnaryExpr)
				if !ok || u.Op != token.AND {
					fail("MustMarshal of a non-address")
				}
				c.f.protos[c.g.leanType(c.info.TypeOf(u.X))] = true
				return []string{"(Go.Proto.marshal " + c.expr(e, ind, u.X) + ")"}
			case "MustUnmarshal", "MustUnmarshalLengthPrefixed":
				u, ok := call.Args[1].(*ast.UnaryExpr)
				id, ok2 := u.X.(*ast.Ident)
				if !ok || u.Op != token.AND || !ok2 {
					fail("MustUnmarshal into a non-variable")
				}
				c.f.protos[c.g.leanType(c.info.TypeOf(u.X))] = true
				bz := arg(0)
				e.add(ind, fmt.Sprintf("%s ← %s (Go.mustUnmarshal %s)", c.nameOf(c.info.ObjectOf(id)), c.lift(), bz))
				return nil
			}
		}
		// iterator methods inside a recognised iterator loop
		if id, ok := sel.X.(*ast.Ident); ok {
			if el, ok := c.iters[c.info.ObjectOf(id)]; ok {
				switch sel.Sel.Name {
				case "Key":
					return []string{el + ".1"}
				case "Value":
					return []string{el + ".2"}
				}
			}
		}
		// interface method of compkey.CompositeKey
		if isCompositeKeyIface(c.info.TypeOf(sel.X)) {
			recvExpr := c.expr(e, ind, sel.X)
			var args []string
			for i := range call.Args {
				args = append(args, arg(i))
			}
			rhs := fmt.Sprintf("%s (I.%s %s %s)", c.lift(), sel.Sel.Name, recvExpr, strings.Join(args, " "))
			if ifaceMutates[sel.Sel.Name] {
				id, ok := sel.X.(*ast.Ident)
				if !ok {
					fail("mutating interface method on a non-variable")
				}
				r := c.bind(e, ind, rhs, 2)
				e.add(ind, fmt.Sprintf("%s := %s", c.nameOf(c.info.ObjectOf(id)), r[1]))
				return []string{r[0]}
			}
			return c.bind(e, ind, rhs, 1)
		}
	}
	fail("call of %s (%s)", name, full)
	return nil
}

// methods of compkey.CompositeKey that write through their (pointer) receiver
var ifaceMutates = map[string]bool{"FromByteSlices": true, "FromStrings": true}

func max1(a, b int) int {
	if a > b {
		return a
	}
	return b
}

func (c *fctx) conversion(e *emitter, ind int, to types.Type, x ast.Expr) string {
	from := c.info.TypeOf(x)
	s := c.expr(e, ind, x)
	lt := c.g.leanType(to)
	lf := c.g.leanType(from)
	if lt == lf {
		return s
	}
	switch {
	case lt == "Int" && lf == "UInt8":
		return "(" + s + ".toNat : Int)"
	case lt == "Int" && lf == "Nat":
		return "(" + s + " : Int)"
	case lt == "UInt8" && lf == "Int":
		return "(Go.toU8 " + s + ")"
	case lt == "Nat" && lf == "Int":
		return "(Go.toU64 " + s + ")"
	}
	fail("conversion %s → %s", from, to)
	return ""
}

func (c *fctx) builtin(e *emitter, ind int, name string, call *ast.CallExpr, want int) []string {
	switch name {
	case "len":
		return []string{"(Go.len " + c.expr(e, ind, call.Args[0]) + ")"}
	case "append":
		if call.Ellipsis.IsValid() {
			return []string{"(" + c.expr(e, ind, call.Args[0]) + " ++ " + c.expr(e, ind, call.Args[1]) + ")"}
		}
		var parts []string
		for _, a := range call.Args[1:] {
			parts = append(parts, c.expr(e, ind, a))
		}
		return []string{"(" + c.expr(e, ind, call.Args[0]) + " ++ [" + strings.Join(parts, ", ") + "])"}
	case "make":
		t := c.info.TypeOf(call)
		if isStringSet(t) {
			return []string{"([] : List Bytes)"}
		}
		if isStringMap(t) {
			return []string{"([] : " + c.g.leanType(t) + ")"}
		}
		if _, ok := t.Underlying().(*types.Slice); !ok {
			fail("make of %s", t)
		}
		n := c.asInt(e, ind, call.Args[1])
		return c.bind(e, ind, fmt.Sprintf("%s (Go.make (α := _) %s : Go.P %s)", c.lift(), n, c.g.leanType(t)), 1)
	case "copy":
		// copy(dst[lo:], src)  or  copy(dst, src) with dst a local variable
		dst := call.Args[0]
		lo := "0"
		if se, ok := dst.(*ast.SliceExpr); ok && se.High == nil && !se.Slice3 {
			dst = se.X
			if se.Low != nil {
				lo = c.asInt(e, ind, se.Low)
			}
		}
		id, ok := dst.(*ast.Ident)
		if !ok {
			fail("copy into something that is not a (sliced) local variable")
		}
		dn := c.nameOf(c.info.ObjectOf(id))
		src := c.expr(e, ind, call.Args[1])
		t := c.fresh("cp")
		e.add(ind, fmt.Sprintf("let %s ← %s (Go.copyAt %s %s %s)", t, c.lift(), dn, lo, src))
		e.add(ind, fmt.Sprintf("%s := %s.1", dn, t))
		return []string{t + ".2"}
	case "panic":
		e.add(ind, fmt.Sprintf("%s (Go.P.panic %s : Go.P Unit)", c.lift(), leanStr(exprStr(c.f.pkg.Fset, call.Args[0]))))
		return nil
	}
	fail("builtin %s", name)
	return nil
}

func (c *fctx) callTranslated(e *emitter, ind int, cf *cfn, call *ast.CallExpr, want int) []string {
	c.f.calls[cf] = true
	sig := cf.obj.Type().(*types.Signature)
	var args []string
	var backAssign []string // Lean lvalues receiving mutated parameters, in slot order
	slot := 0
	addArg := func(x ast.Expr, paramT types.Type) {
		s := ""
		xt := c.info.TypeOf(x)
		_, pPtr := paramT.Underlying().(*types.Pointer)
		_, xPtr := xt.Underlying().(*types.Pointer)
		switch {
		case isCompositeKeyIface(paramT):
			s = c.expr(e, ind, x)
		case pPtr && !xPtr:
			s = "(some " + c.expr(e, ind, x) + ")"
		case !pPtr && xPtr:
			t := c.fresh("d")
			e.add(ind, fmt.Sprintf("let %s ← %s (Go.deref %s %s)", t, c.lift(), leanStr(exprStr(c.f.pkg.Fset, x)), c.expr(e, ind, x)))
			s = t
		default:
			s = c.expr(e, ind, x)
		}
		args = append(args, s)
		if cf.mut[slot] {
			// where does the new value go?
			y := x
			if u, ok := y.(*ast.UnaryExpr); ok && u.Op == token.AND {
				y = u.X
			}
			id, ok := y.(*ast.Ident)
			if !ok {
				fail("argument written through by %s is not a variable", cf.lean)
			}
			lv := c.nameOf(c.info.ObjectOf(id))
			_, yPtr := c.info.TypeOf(y).Underlying().(*types.Pointer)
			if isCompositeKeyIface(paramT) && !isCompositeKeyIface(c.info.TypeOf(y)) && !yPtr {
				backAssign = append(backAssign, lv+" ← "+c.lift()+" (Go.deref \"written-back pointer\" %s)")
			} else if isCompositeKeyIface(paramT) || (pPtr && yPtr) || (!pPtr && !yPtr) {
				backAssign = append(backAssign, lv+" := %s")
			} else if pPtr && !yPtr {
				backAssign = append(backAssign, lv+" ← "+c.lift()+" (Go.deref \"written-back pointer\" %s)")
			} else {
				fail("write-back shape")
			}
		}
		slot++
	}
	dict := ""
	if cf.ifaceGen {
		// the dictionary for the CompositeKey argument
		for i := 0; i < sig.Params().Len(); i++ {
			if isCompositeKeyIface(sig.Params().At(i).Type()) {
				at := c.info.TypeOf(call.Args[i])
				if isCompositeKeyIface(at) {
					dict = "I"
				} else {
					nm, nb := c.g.instanceFor(at)
					c.f.needInst = append(c.f.needInst, nm)
					dict = nm
					if nb {
						c.f.usesBech = true
						dict = "(" + nm + " bech)"
					}
				}
			}
		}
	}
	if cf.recv != nil && !cf.implicit {
		sel := call.Fun.(*ast.SelectorExpr)
		addArg(sel.X, cf.recv.Type())
	}
	for i, a := range call.Args {
		pt := sig.Params().At(i).Type()
		if isCtxType(pt) || isAmbientParam(pt) {
			continue
		}
		addArg(a, pt)
	}
	for p := range cf.protos {
		c.f.protos[p] = true
	}
	head := cf.lean
	if cf.usesBech {
		c.f.usesBech = true
		head += " bech"
	}
	if cf.usesCrypto {
		c.f.usesCrypto = true
		head += " crypto"
	}
	if dict != "" {
		head += " " + dict
	}
	rhs := head + " " + strings.Join(args, " ")
	nres := sig.Results().Len()
	total := nres + len(backAssign)
	if cf.stateful {
		if !c.f.stateful {
			fail("stateful callee %s in a pure function", cf.lean)
		}
		rhs += " world"
		total++
	}
	r := c.bind(e, ind, strings.TrimSpace(rhs), total)
	if total > 0 && len(r) == 0 {
		fail("internal: results")
	}
	for i, ba := range backAssign {
		e.add(ind, fmt.Sprintf(ba, r[nres+i]))
	}
	if cf.stateful {
		e.add(ind, "world := "+r[total-1])
	}
	if want == 0 && nres > 0 && total == nres {
		// result ignored: the `let` above already ran it
	}
	return r[:nres]
}

// instanceFor names (and creates on demand) the CompositeKey dictionary for a concrete argument type
func (g *cgen) instanceFor(t types.Type) (string, bool) {
	n := namedOf(t)
	if n == nil {
		fail("CompositeKey argument of type %s", t)
	}
	ns, ok := g.nsOf(n.Obj().Pkg())
	if !ok {
		fail("CompositeKey implementation outside the translated packages: %s", t)
	}
	_, isPtr := t.(*types.Pointer)
	if !isPtr {
		fail("CompositeKey argument that is not a pointer: %s", t)
	}
	name := ns + "." + n.Obj().Name() + ".asCompositeKey"
	if _, seen := g.insts[name]; seen {
		return name, g.instBech[name]
	}
	tn := ns + "." + n.Obj().Name()
	var b strings.Builder
	needBech := false
	for i := 0; i < n.NumMethods(); i++ {
		if cf, ok := g.fns[n.Method(i)]; ok && cf.usesBech {
			needBech = true
		}
	}
	hdr := "def " + name
	if needBech {
		hdr += " (bech : Go.Bech32)"
	}
	fmt.Fprintf(&b, "%s : compkey.CompositeKey (Option %s) where\n", hdr, tn)
	for _, m := range []string{"ByteSlices", "FromByteSlices", "Strings", "FromStrings"} {
		var cf *cfn
		for i := 0; i < n.NumMethods(); i++ {
			if n.Method(i).Name() == m {
				cf = g.fns[n.Method(i)]
			}
		}
		if cf == nil || cf.failed != "" {
			fmt.Fprintf(&b, "  %s := fun _ => Go.unsupported \"method %s not translated\"\n", m, m)
			if m == "FromByteSlices" || m == "FromStrings" {
				b.Reset()
				fail("method %s of %s not translated", m, tn)
			}
			continue
		}
		bech := ""
		if cf.usesBech {
			bech = " bech"
		}
		_, recvPtr := cf.recv.Type().(*types.Pointer)
		switch {
		case !ifaceMutates[m] && !recvPtr:
			fmt.Fprintf(&b, "  %s := fun p => do let v ← Go.deref \"%s\" p; %s%s v\n", m, m, cf.lean, bech)
		case !ifaceMutates[m] && recvPtr:
			fmt.Fprintf(&b, "  %s := fun p => %s%s p\n", m, cf.lean, bech)
		default:
			fmt.Fprintf(&b, "  %s := fun p a => %s%s p a\n", m, cf.lean, bech)
		}
	}
	g.insts[name] = b.String()
	g.instBech[name] = needBech
	g.iorder = append(g.iorder, name)
	return name, needBech
}

// statements ----------------------------------------------------------------------------------------------

func (c *fctx) block(e *emitter, ind int, list []ast.Stmt) {
	n0 := len(e.lines)
	for _, s := range list {
		c.stmt(e, ind, s)
	}
	if len(e.lines) == n0 {
		e.add(ind, "pure ()")
	}
}

func (c *fctx) assignTo(e *emitter, ind int, lhs ast.Expr, rhs string, define bool) {
	switch l := lhs.(type) {
	case *ast.Ident:
		if l.Name == "_" {
			return
		}
		o := c.info.ObjectOf(l)
		if define && c.info.Defs[l] != nil {
			n := c.nameOf(o)
			ty := ""
			if v, ok := o.(*types.Var); ok && !isCompositeKeyIface(v.Type()) && !isImplicitRecv(v.Type()) {
				func() {
					defer func() { recover() }()
					ty = " : " + c.g.leanType(v.Type())
				}()
			}
			e.add(ind, fmt.Sprintf("let mut %s%s := %s", n, ty, rhs))
			return
		}
		e.add(ind, fmt.Sprintf("%s := %s", c.nameOf(o), rhs))
	case *ast.SelectorExpr:
		// x.F = v  (x a struct variable, or a pointer to one)
		id, ok := l.X.(*ast.Ident)
		if !ok {
			fail("assignment to nested field")
		}
		n := c.nameOf(c.info.ObjectOf(id))
		if _, isPtr := c.info.TypeOf(l.X).Underlying().(*types.Pointer); isPtr {
			t := c.fresh("d")
			e.add(ind, fmt.Sprintf("let %s ← %s (Go.deref %s %s)", t, c.lift(), leanStr(id.Name), n))
			e.add(ind, fmt.Sprintf("%s := some { %s with %s := %s }", n, t, leanField(l.Sel.Name), rhs))
		} else {
			e.add(ind, fmt.Sprintf("%s := { %s with %s := %s }", n, n, leanField(l.Sel.Name), rhs))
		}
	case *ast.IndexExpr:
		id, ok := l.X.(*ast.Ident)
		if !ok {
			fail("indexed assignment to a non-variable")
		}
		n := c.nameOf(c.info.ObjectOf(id))
		i := c.asInt(e, ind, l.Index)
		e.add(ind, fmt.Sprintf("%s ← %s (Go.setIdx %s %s %s)", n, c.lift(), n, i, rhs))
	default:
		fail("assignment target %T", lhs)
	}
}

func (c *fctx) stmt(e *emitter, ind int, s ast.Stmt) {
	switch v := s.(type) {
	case *ast.ExprStmt:
		call, ok := v.X.(*ast.CallExpr)
		if !ok {
			fail("expression statement")
		}
		c.call(e, ind, call, 0)
	case *ast.AssignStmt:
		c.assign(e, ind, v)
	case *ast.DeclStmt:
		gd := v.Decl.(*ast.GenDecl)
		if gd.Tok != token.VAR {
			fail("local declaration %s", gd.Tok)
		}
		for _, sp := range gd.Specs {
			vs := sp.(*ast.ValueSpec)
			for i, nm := range vs.Names {
				o := c.info.ObjectOf(nm)
				t := o.Type()
				if t.String() == "strings.Builder" {
					e.add(ind, fmt.Sprintf("let mut %s : Bytes := []", c.nameOf(o)))
					continue
				}
				if i < len(vs.Values) {
					e.add(ind, fmt.Sprintf("let mut %s : %s := %s", c.nameOf(o), c.g.leanType(t), c.expr(e, ind, vs.Values[i])))
				} else {
					e.add(ind, fmt.Sprintf("let mut %s : %s := default", c.nameOf(o), c.g.leanType(t)))
				}
			}
		}
	case *ast.IncDecStmt:
		one := "1"
		op := "+"
		if v.Tok == token.DEC {
			op = "-"
		}
		x := c.expr(e, ind, v.X)
		r := "(" + x + " " + op + " " + one + ")"
		if isU64(c.info.TypeOf(v.X)) {
			if v.Tok == token.INC {
				r = "(Go.u64add " + x + " 1)"
			} else {
				r = "(Go.u64sub " + x + " 1)"
			}
		}
		c.assignTo(e, ind, v.X, r, false)
	case *ast.ReturnStmt:
		c.ret(e, ind, v)
	case *ast.IfStmt:
		c.ifStmt(e, ind, v)
	case *ast.ForStmt:
		c.forStmt(e, ind, v)
	case *ast.RangeStmt:
		c.rangeStmt(e, ind, v)
	case *ast.BlockStmt:
		c.block(e, ind, v.List)
	case *ast.SwitchStmt:
		c.switchStmt(e, ind, v)
	case *ast.DeferStmt:
		if strings.HasSuffix(calleeName(v.Call.Fun), ".Close") {
			return // iterator.Close(): no observable effect
		}
		fail("defer")
	case *ast.BranchStmt:
		switch v.Tok {
		case token.BREAK:
			e.add(ind, "break")
		case token.CONTINUE:
			e.add(ind, "continue")
		default:
			fail("branch %s", v.Tok)
		}
	default:
		fail("statement %T", s)
	}
}

func (c *fctx) assign(e *emitter, ind int, v *ast.AssignStmt) {
	define := v.Tok == token.DEFINE
	switch v.Tok {
	case token.ASSIGN, token.DEFINE:
	case token.ADD_ASSIGN, token.SUB_ASSIGN:
		op := token.ADD
		if v.Tok == token.SUB_ASSIGN {
			op = token.SUB
		}
		// x += y  ≡  x = x + y   (y evaluated after x's old value is read: both are pure reads here)
		be := &ast.BinaryExpr{X: v.Lhs[0], Op: op, Y: v.Rhs[0]}
		// type information for the synthetic node
		c.info.Types[be] = types.TypeAndValue{Type: c.info.TypeOf(v.Lhs[0])}
		r := c.binary(e, ind, be)
		c.assignTo(e, ind, v.Lhs[0], r, false)
		return
	default:
		fail("assignment operator %s", v.Tok)
	}
	if len(v.Rhs) == 1 && len(v.Lhs) == 2 {
		if ix, ok := v.Rhs[0].(*ast.IndexExpr); ok && isStringSet(c.info.TypeOf(ix.X)) {
			// _, present := set[key]
			c.assignTo(e, ind, v.Lhs[1], "(List.contains "+c.expr(e, ind, ix.X)+" "+c.expr(e, ind, ix.Index)+")", define)
			return
		}
	}
	if len(v.Rhs) == 1 && len(v.Lhs) == 1 {
		if ix, ok := v.Lhs[0].(*ast.IndexExpr); ok && isStringMap(c.info.TypeOf(ix.X)) {
			if sel, isSel := ix.X.(*ast.SelectorExpr); isSel {
				// p.Field[k] = v : the field is read (through the pointer, which may panic), updated, written back
				cur := c.expr(e, ind, ix.X)
				key := c.expr(e, ind, ix.Index)
				val := c.expr(e, ind, v.Rhs[0])
				c.assignTo(e, ind, sel, fmt.Sprintf("(Go.mapSet %s %s %s)", cur, key, val), false)
				return
			}
			id, ok := ix.X.(*ast.Ident)
			if !ok {
				fail("map that is not a local variable")
			}
			n := c.nameOf(c.info.ObjectOf(id))
			e.add(ind, fmt.Sprintf("%s := Go.mapSet %s %s %s", n, n, c.expr(e, ind, ix.Index), c.expr(e, ind, v.Rhs[0])))
			return
		}
		if ix, ok := v.Lhs[0].(*ast.IndexExpr); ok && isStringSet(c.info.TypeOf(ix.X)) {
			id, ok := ix.X.(*ast.Ident)
			if !ok {
				fail("set that is not a local variable")
			}
			n := c.nameOf(c.info.ObjectOf(id))
			e.add(ind, fmt.Sprintf("%s := %s :: %s", n, c.expr(e, ind, ix.Index), n))
			return
		}
	}
	if len(v.Rhs) == 1 && len(v.Lhs) > 1 {
		call, ok := v.Rhs[0].(*ast.CallExpr)
		if !ok {
			fail("multi-value assignment from a non-call")
		}
		rs := c.call(e, ind, call, len(v.Lhs))
		if len(rs) != len(v.Lhs) {
			fail("result count")
		}
		for i, l := range v.Lhs {
			c.assignTo(e, ind, l, rs[i], define)
		}
		return
	}
	if len(v.Rhs) != len(v.Lhs) {
		fail("assignment shape")
	}
	// iterator := sdk.KVStorePrefixIterator(...) : remember, materialise at the loop
	var rs []string
	for _, r := range v.Rhs {
		rs = append(rs, c.expr(e, ind, r))
	}
	for i, l := range v.Lhs {
		c.assignTo(e, ind, l, rs[i], define)
	}
}

func (c *fctx) ret(e *emitter, ind int, v *ast.ReturnStmt) {
	sig := c.f.obj.Type().(*types.Signature)
	var parts []string
	if len(v.Results) == 1 && sig.Results().Len() > 1 {
		call, ok := v.Results[0].(*ast.CallExpr)
		if !ok {
			fail("return of a multi-value non-call")
		}
		parts = c.call(e, ind, call, sig.Results().Len())
	} else {
		for i, r := range v.Results {
			rt := sig.Results().At(i).Type()
			if id, ok := r.(*ast.Ident); ok && id.Name == "nil" {
				parts = append(parts, "(default : "+c.g.leanType(rt)+")")
				continue
			}
			s := c.expr(e, ind, r)
			parts = append(parts, s)
		}
	}
	// written-through parameters follow
	for i, sl := range c.f.slots {
		if c.f.mut[i] {
			parts = append(parts, c.nameOf(sl))
		}
	}
	if c.f.stateful {
		parts = append(parts, "world")
	}
	switch len(parts) {
	case 0:
		e.add(ind, "return ()")
	case 1:
		e.add(ind, "return "+parts[0])
	default:
		e.add(ind, "return ("+strings.Join(parts, ", ")+")")
	}
}

func (c *fctx) ifStmt(e *emitter, ind int, v *ast.IfStmt) {
	if v.Init != nil {
		c.stmt(e, ind, v.Init)
	}
	cond := c.expr(e, ind, v.Cond)
	e.add(ind, "if "+cond+" then")
	c.block(e, ind+1, v.Body.List)
	if v.Else != nil {
		e.add(ind, "else")
		switch el := v.Else.(type) {
		case *ast.BlockStmt:
			c.block(e, ind+1, el.List)
		default:
			c.block(e, ind+1, []ast.Stmt{el})
		}
	}
}

// switchStmt: an expression switch without fallthrough is a chain of conditionals on the tag evaluated once.
func (c *fctx) switchStmt(e *emitter, ind int, v *ast.SwitchStmt) {
	if v.Init != nil {
		c.stmt(e, ind, v.Init)
	}
	if v.Tag == nil {
		fail("switch without a tag")
	}
	tag := c.fresh("tag")
	e.add(ind, fmt.Sprintf("let %s := %s", tag, c.expr(e, ind, v.Tag)))
	var clauses []*ast.CaseClause
	var def *ast.CaseClause
	for _, st := range v.Body.List {
		cc := st.(*ast.CaseClause)
		for _, b := range cc.Body {
			if br, ok := b.(*ast.BranchStmt); ok && br.Tok == token.FALLTHROUGH {
				fail("fallthrough")
			}
		}
		if cc.List == nil {
			def = cc
		} else {
			clauses = append(clauses, cc)
		}
	}
	depth := 0
	for _, cc := range clauses {
		var conds []string
		for _, x := range cc.List {
			conds = append(conds, "decide ("+tag+" = "+c.expr(e, ind+depth, x)+")")
		}
		e.add(ind+depth, "if "+strings.Join(conds, " || ")+" then")
		c.block(e, ind+depth+1, cc.Body)
		e.add(ind+depth, "else")
		depth++
	}
	if def != nil {
		c.block(e, ind+depth, def.Body)
	} else {
		e.add(ind+depth, "pure ()")
	}
}

func (c *fctx) rangeStmt(e *emitter, ind int, v *ast.RangeStmt) {
	if v.Tok != token.DEFINE && (v.Key != nil || v.Value != nil) {
		fail("range with assignment")
	}
	t := c.info.TypeOf(v.X)
	if isStringMap(t) {
		xs := c.expr(e, ind, v.X)
		el := c.fresh("kv")
		e.add(ind, fmt.Sprintf("for %s in %s do", el, xs))
		if id, ok := v.Key.(*ast.Ident); ok && id.Name != "_" {
			e.add(ind+1, fmt.Sprintf("let %s : Bytes := %s.1", c.nameOf(c.info.ObjectOf(id)), el))
		}
		if v.Value != nil {
			if id, ok := v.Value.(*ast.Ident); ok && id.Name != "_" {
				e.add(ind+1, fmt.Sprintf("let %s := %s.2", c.nameOf(c.info.ObjectOf(id)), el))
			}
		}
		c.block(e, ind+1, v.Body.List)
		return
	}
	if _, ok := t.Underlying().(*types.Slice); !ok {
		fail("range over %s", t)
	}
	xs := c.expr(e, ind, v.X)
	key, val := "", ""
	if id, ok := v.Key.(*ast.Ident); ok && id.Name != "_" {
		key = c.nameOf(c.info.ObjectOf(id))
	}
	if v.Value != nil {
		if id, ok := v.Value.(*ast.Ident); ok && id.Name != "_" {
			val = c.nameOf(c.info.ObjectOf(id))
		}
	}
	switch {
	case key == "" && val == "":
		e.add(ind, fmt.Sprintf("for _ in %s do", xs))
	case key == "":
		e.add(ind, fmt.Sprintf("for %s in %s do", val, xs))
	default:
		el := c.fresh("kv")
		e.add(ind, fmt.Sprintf("for %s in (Go.enum %s) do", el, xs))
		e.add(ind+1, fmt.Sprintf("let %s : Int := %s.1", key, el))
		if val != "" {
			e.add(ind+1, fmt.Sprintf("let %s := %s.2", val, el))
		}
	}
	c.block(e, ind+1, v.Body.List)
}

// fuel of `for cond {}` loops, by function and loop number; the refinement theorem proves it suffices
var loopFuel = map[string]string{
	"compkey.Decode#0": "bz.length + 1",
}

func (c *fctx) forStmt(e *emitter, ind int, v *ast.ForStmt) {
	// for ; it.Valid(); it.Next() { … } over a store iterator
	if v.Init == nil && v.Cond != nil && v.Post != nil {
		if cc, ok := v.Cond.(*ast.CallExpr); ok {
			if sel, ok := cc.Fun.(*ast.SelectorExpr); ok && sel.Sel.Name == "Valid" {
				if ps, ok := v.Post.(*ast.ExprStmt); ok {
					if pc, ok := ps.X.(*ast.CallExpr); ok {
						if psel, ok := pc.Fun.(*ast.SelectorExpr); ok && psel.Sel.Name == "Next" && exprStr(c.f.pkg.Fset, psel.X) == exprStr(c.f.pkg.Fset, sel.X) {
							id := sel.X.(*ast.Ident)
							o := c.info.ObjectOf(id)
							el := c.fresh("kv")
							c.iters[o] = el
							e.add(ind, fmt.Sprintf("for %s in %s do", el, c.nameOf(o)))
							c.block(e, ind+1, v.Body.List)
							delete(c.iters, o)
							return
						}
					}
				}
			}
		}
	}
	if v.Init != nil || v.Post != nil || v.Cond == nil {
		fail("for loop with init/post clauses")
	}
	key := fmt.Sprintf("%s#%d", strings.TrimPrefix(c.f.lean, "Gen."), c.tmp)
	c.tmp++
	fuel, ok := loopFuel[key]
	if !ok {
		fail("no fuel bound registered for loop %s", key)
	}
	done := c.fresh("done")
	e.add(ind, fmt.Sprintf("let mut %s := false", done))
	e.add(ind, fmt.Sprintf("for _ in List.range (%s) do", fuel))
	cond := c.expr(e, ind+1, v.Cond)
	e.add(ind+1, fmt.Sprintf("if !%s then", cond))
	e.add(ind+2, fmt.Sprintf("%s := true", done))
	e.add(ind+2, "break")
	c.block(e, ind+1, v.Body.List)
	e.add(ind, fmt.Sprintf("if !%s then", done))
	e.add(ind+1, fmt.Sprintf("%s (Go.P.panic \"out of fuel\" : Go.P Unit)", c.lift()))
}

// ---------------------------------------------------------------------------------------------------------

func (g *cgen) collect(pkgs []*packages.Package) {
	for _, p := range pkgs {
		ns, ok := codePkgs[rel(p.PkgPath)]
		if !ok {
			continue
		}
		for _, f := range p.Syntax {
			fname := p.Fset.Position(f.Pos()).Filename
			if codeSkipFile(fname) || strings.Contains(fname, "/client/") {
				continue
			}
			for _, d := range f.Decls {
				fd, ok := d.(*ast.FuncDecl)
				if !ok || fd.Body == nil || fd.Name.Name == "init" {
					continue
				}
				obj := p.TypesInfo.Defs[fd.Name].(*types.Func)
				cf := &cfn{pkg: p, ns: ns, decl: fd, obj: obj, protos: map[string]bool{}, calls: map[*cfn]bool{}}
				sig := obj.Type().(*types.Signature)
				cf.lean = "Gen." + ns + "."
				if sig.Recv() != nil {
					cf.recv = sig.Recv()
					cf.lean += namedOf(sig.Recv().Type()).Obj().Name() + "."
					cf.implicit = isImplicitRecv(sig.Recv().Type())
				}
				cf.lean += fd.Name.Name
				g.fns[obj] = cf
				g.list = append(g.list, cf)
			}
		}
	}
}

// mutation analysis: which parameter slots are written through
func (g *cgen) analyse() {
	for _, cf := range g.list {
		sig := cf.obj.Type().(*types.Signature)
		if cf.recv != nil && !cf.implicit {
			cf.slots = append(cf.slots, cf.recv)
		}
		for i := 0; i < sig.Params().Len(); i++ {
			p := sig.Params().At(i)
			if isCtxType(p.Type()) {
				cf.stateful = true
				continue
			}
			if isAmbientParam(p.Type()) {
				if isImplicitRecv(p.Type()) {
					cf.stateful = true
				}
				continue
			}
			if isCompositeKeyIface(p.Type()) {
				cf.ifaceGen = true
			}
			cf.slots = append(cf.slots, p)
		}
		if cf.implicit {
			cf.stateful = true
		}
		cf.mut = make([]bool, len(cf.slots))
	}
	changed := true
	for changed {
		changed = false
		for _, cf := range g.list {
			info := cf.pkg.TypesInfo
			slotOf := func(x ast.Expr) int {
				if u, ok := x.(*ast.UnaryExpr); ok && u.Op == token.AND {
					return -1 // address of a local: not a parameter slot being written through
				}
				id, ok := x.(*ast.Ident)
				if !ok {
					return -1
				}
				o := info.ObjectOf(id)
				for i, s := range cf.slots {
					if s == o {
						_, isPtr := s.Type().Underlying().(*types.Pointer)
						if isPtr || isCompositeKeyIface(s.Type()) {
							return i
						}
					}
				}
				return -1
			}
			mark := func(i int) {
				if i >= 0 && !cf.mut[i] {
					cf.mut[i] = true
					changed = true
				}
			}
			ast.Inspect(cf.decl.Body, func(n ast.Node) bool {
				switch v := n.(type) {
				case *ast.AssignStmt:
					for _, l := range v.Lhs {
						if se, ok := l.(*ast.SelectorExpr); ok {
							mark(slotOf(se.X))
						}
						if st, ok := l.(*ast.StarExpr); ok {
							mark(slotOf(st.X))
						}
					}
				case *ast.CallExpr:
					if sel, ok := v.Fun.(*ast.SelectorExpr); ok {
						if isCompositeKeyIface(info.TypeOf(sel.X)) && ifaceMutates[sel.Sel.Name] {
							mark(slotOf(sel.X))
						}
					}
					var fn *types.Func
					switch f := v.Fun.(type) {
					case *ast.Ident:
						fn, _ = info.ObjectOf(f).(*types.Func)
					case *ast.SelectorExpr:
						fn, _ = info.ObjectOf(f.Sel).(*types.Func)
					}
					if callee, ok := g.fns[fn]; ok && fn != nil {
						k := 0
						if callee.recv != nil && !callee.implicit {
							if callee.mut[0] {
								mark(slotOf(v.Fun.(*ast.SelectorExpr).X))
							}
							k = 1
						}
						sig := callee.obj.Type().(*types.Signature)
						for i, a := range v.Args {
							if i >= sig.Params().Len() || isCtxType(sig.Params().At(i).Type()) || isAmbientParam(sig.Params().At(i).Type()) {
								continue
							}
							if k < len(callee.mut) && callee.mut[k] {
								mark(slotOf(a))
							}
							k++
						}
					}
				}
				return true
			})
		}
	}
}

func (g *cgen) translate(cf *cfn) {
	defer func() {
		if r := recover(); r != nil {
			if u, ok := r.(unsupported); ok {
				cf.failed = u.why
				return
			}
			panic(r)
		}
	}()
	c := &fctx{g: g, f: cf, info: cf.pkg.TypesInfo, names: map[types.Object]string{}, used: map[string]bool{}, iters: map[types.Object]string{}, localInit: map[types.Object]ast.Expr{}, sets: map[types.Object]bool{}}
	c.collectLocalInits()
	sig := cf.obj.Type().(*types.Signature)
	var params []string
	mutParams := []string{}
	for i, s := range cf.slots {
		n := c.nameOf(s)
		if isCompositeKeyIface(s.Type()) {
			params = append(params, fmt.Sprintf("(%s : κ)", n))
		} else {
			params = append(params, fmt.Sprintf("(%s : %s)", n, g.leanType(s.Type())))
		}
		if cf.mut[i] {
			mutParams = append(mutParams, n)
		}
	}
	if cf.implicit && cf.recv != nil {
		c.names[cf.recv] = "«recv»"
	}
	var res []string
	for i := 0; i < sig.Results().Len(); i++ {
		r := sig.Results().At(i)
		if r.Name() != "" {
			fail("named results")
		}
		res = append(res, g.leanType(r.Type()))
	}
	for i, s := range cf.slots {
		if cf.mut[i] {
			if isCompositeKeyIface(s.Type()) {
				res = append(res, "κ")
			} else {
				res = append(res, g.leanType(s.Type()))
			}
		}
	}
	rt := "Unit"
	if len(res) == 1 {
		rt = res[0]
	} else if len(res) > 1 {
		rt = "(" + strings.Join(res, " × ") + ")"
	}
	e := &emitter{}
	if cf.stateful {
		e.add(1, "let mut world := world0")
	}
	// parameters that are assigned in the body need `let mut` shadows
	for _, n := range c.assignedParams() {
		e.add(1, fmt.Sprintf("let mut %s := %s", n, n))
	}
	c.block(e, 1, cf.decl.Body.List)
	// a function without results falls off its end
	if sig.Results().Len() == 0 {
		last := ""
		if len(e.lines) > 0 {
			last = strings.TrimSpace(e.lines[len(e.lines)-1])
		}
		if !strings.HasPrefix(last, "return") {
			c.ret(e, 1, &ast.ReturnStmt{})
		}
	}
	mon := "Go.P"
	if cf.stateful {
		params = append(params, "(world0 : "+worldType(cf.ns)+")")
		wt := worldType(cf.ns)
		if rt == "Unit" {
			rt = wt
		} else if len(res) == 1 {
			rt = "(" + rt + " × " + wt + ")"
		} else {
			rt = "(" + strings.TrimSuffix(strings.TrimPrefix(rt, "("), ")") + " × " + wt + ")"
		}
	}
	hdr := "def " + cf.lean
	if cf.usesBech {
		hdr += " (bech : Go.Bech32)"
	}
	if cf.usesCrypto {
		hdr += " (crypto : Go.SigScheme)"
	}
	var pr []string
	for p := range cf.protos {
		pr = append(pr, p)
	}
	sort.Strings(pr)
	for _, p := range pr {
		hdr += " [Go.Proto " + p + "]"
	}
	if cf.ifaceGen {
		hdr += " {κ : Type} (I : compkey.CompositeKey κ)"
	}
	hdr += " " + strings.Join(params, " ") + " : " + mon + " " + rt + " := do"
	cf.body = append([]string{hdr}, e.lines...)
}

// collectLocalInits records the initialiser of every local variable that is defined by `:=` and never assigned again
// (used to fold `pattern := fmt.Sprintf(…)` into a constant).
func (c *fctx) collectLocalInits() {
	count := map[types.Object]int{}
	ast.Inspect(c.f.decl.Body, func(n ast.Node) bool {
		if as, ok := n.(*ast.AssignStmt); ok {
			for i, l := range as.Lhs {
				if id, ok := l.(*ast.Ident); ok {
					o := c.info.ObjectOf(id)
					count[o]++
					if as.Tok == token.DEFINE && len(as.Lhs) == len(as.Rhs) {
						c.localInit[o] = as.Rhs[i]
					}
				}
			}
		}
		return true
	})
	for o, n := range count {
		if n != 1 {
			delete(c.localInit, o)
		}
	}
}

func (c *fctx) assignedParams() []string {
	var out []string
	seen := map[types.Object]bool{}
	isSlot := map[types.Object]bool{}
	for _, s := range c.f.slots {
		isSlot[s] = true
	}
	ast.Inspect(c.f.decl.Body, func(n ast.Node) bool {
		mark := func(x ast.Expr) {
			for {
				switch v := x.(type) {
				case *ast.SelectorExpr:
					x = v.X
					continue
				case *ast.IndexExpr:
					x = v.X
					continue
				case *ast.UnaryExpr:
					x = v.X
					continue
				}
				break
			}
			if id, ok := x.(*ast.Ident); ok {
				o := c.info.ObjectOf(id)
				if isSlot[o] && !seen[o] {
					seen[o] = true
					out = append(out, c.nameOf(o))
				}
			}
		}
		switch v := n.(type) {
		case *ast.AssignStmt:
			for _, l := range v.Lhs {
				mark(l)
			}
		case *ast.IncDecStmt:
			mark(v.X)
		case *ast.CallExpr:
			// anything passed where it may be written through
			if sel, ok := v.Fun.(*ast.SelectorExpr); ok {
				mark(sel.X)
			}
			for _, a := range v.Args {
				if u, ok := a.(*ast.UnaryExpr); ok && u.Op == token.AND {
					mark(u.X)
				} else if id, ok := a.(*ast.Ident); ok {
					t := c.info.TypeOf(id)
					if t != nil {
						if _, isPtr := t.Underlying().(*types.Pointer); isPtr || isCompositeKeyIface(t) {
							mark(a)
						}
					}
				}
			}
		}
		return true
	})
	return out
}

func emitCode(pkgs []*packages.Package, outDir string) {
	g := &cgen{pkgs: map[string]*packages.Package{}, fns: map[*types.Func]*cfn{}, structs: map[string]*types.Named{}, vars: map[string]string{}, insts: map[string]string{}, instBech: map[string]bool{}, oneofs: map[string]string{}}
	for _, p := range pkgs {
		g.pkgs[p.PkgPath] = p
	}
	g.collect(pkgs)
	g.analyse()
	// translate in dependency order: iterate until usesBech / protos / failures stabilise
	// first pass discovers the call graph; a callee's flags must be known before its callers are printed
	done := map[*cfn]bool{}
	var order []*cfn
	var visit func(cf *cfn, stack map[*cfn]bool)
	callees := func(cf *cfn) []*cfn {
		var out []*cfn
		info := cf.pkg.TypesInfo
		ast.Inspect(cf.decl.Body, func(n ast.Node) bool {
			if call, ok := n.(*ast.CallExpr); ok {
				var fn *types.Func
				switch f := call.Fun.(type) {
				case *ast.Ident:
					fn, _ = info.ObjectOf(f).(*types.Func)
				case *ast.SelectorExpr:
					fn, _ = info.ObjectOf(f.Sel).(*types.Func)
				}
				if c2, ok := g.fns[fn]; ok && fn != nil {
					out = append(out, c2)
				}
				// arguments converted to CompositeKey bring the methods of their type
				for _, a := range call.Args {
					at := info.TypeOf(a)
					if n := namedOf(at); n != nil && at != nil && !isCompositeKeyIface(at) {
						if _, isPtr := at.(*types.Pointer); isPtr {
							for i := 0; i < n.NumMethods(); i++ {
								if c3, ok := g.fns[n.Method(i)]; ok && ifaceMethod[n.Method(i).Name()] {
									out = append(out, c3)
								}
							}
						}
					}
				}
			}
			return true
		})
		return out
	}
	visit = func(cf *cfn, stack map[*cfn]bool) {
		if done[cf] {
			return
		}
		if stack[cf] {
			cf.failed = "recursive"
			return
		}
		stack[cf] = true
		for _, c2 := range callees(cf) {
			visit(c2, stack)
		}
		delete(stack, cf)
		done[cf] = true
		g.translate(cf)
		// a caller of a failed function fails too
		for c2 := range cf.calls {
			if c2.failed != "" && cf.failed == "" {
				cf.failed = "calls " + c2.lean + " (" + c2.failed + ")"
			}
		}
		order = append(order, cf)
	}
	sort.Slice(g.list, func(i, j int) bool { return g.list[i].lean < g.list[j].lean })
	for _, cf := range g.list {
		visit(cf, map[*cfn]bool{})
	}

	var b strings.Builder
	b.WriteString("-- GENERATED by /verif/extract from /repo's current working tree. Do not edit.\n")
	b.WriteString("import Panacea.Go.Lib\nimport Panacea.Go.Nft\nset_option linter.unusedVariables false\nopen Panacea\nnamespace Panacea.Gen\n\n")
	b.WriteString("/-- `compkey.CompositeKey` as a dictionary over the concrete (pointer) type -/\nstructure compkey.CompositeKey (κ : Type) where\n  ByteSlices : κ → Go.P (List Bytes)\n  FromByteSlices : κ → List Bytes → Go.P (Go.Err × κ)\n  Strings : κ → Go.P (List Bytes)\n  FromStrings : κ → List Bytes → Go.P (Go.Err × κ)\n\n")
	// function bodies first into a buffer (they may create structs / vars / instances on demand)
	type item struct {
		name string
		text string
	}
	var fnItems []item
	var failed [][2]string
	emitted := map[string]bool{}
	var body strings.Builder
	flushInsts := func(names []string) {
		for _, n := range names {
			if !emitted[n] {
				emitted[n] = true
				body.WriteString(g.insts[n] + "\n")
			}
		}
	}
	for _, cf := range order {
		if cf.failed != "" {
			failed = append(failed, [2]string{strings.TrimPrefix(cf.lean, "Gen."), cf.failed})
			continue
		}
		flushInsts(cf.needInst)
		body.WriteString(strings.Join(cf.body, "\n") + "\n\n")
		fnItems = append(fnItems, item{cf.lean, ""})
	}
	flushInsts(g.iorder)
	for _, ln := range g.sorder {
		b.WriteString(g.structDecl(ln) + "\n")
	}
	for _, ln := range g.vorder {
		b.WriteString("def " + ln + " : " + g.vars[ln] + "\n")
	}
	b.WriteString("\n")
	b.WriteString(strings.ReplaceAll(body.String(), "Gen.", ""))
	sort.Slice(failed, func(i, j int) bool { return failed[i][0] < failed[j][0] })
	b.WriteString("/-- functions of the translated packages the translator could not express, with the reason -/\ndef untranslated : List (String × String) := [\n")
	for i, f := range failed {
		sep := ","
		if i == len(failed)-1 {
			sep = ""
		}
		fmt.Fprintf(&b, "  (%s, %s)%s\n", leanStr(f[0]), leanStr(f[1]), sep)
	}
	b.WriteString("]\n\n/-- translated functions -/\ndef translated : List String := [\n")
	for i, it := range fnItems {
		sep := ","
		if i == len(fnItems)-1 {
			sep = ""
		}
		fmt.Fprintf(&b, "  %s%s\n", leanStr(strings.TrimPrefix(it.name, "Gen.")), sep)
	}
	b.WriteString("]\n\nend Panacea.Gen\n")
	write(outDir+"/Code.lean", b.String())
}

var ifaceMethod = map[string]bool{"ByteSlices": true, "FromByteSlices": true, "Strings": true, "FromStrings": true}
