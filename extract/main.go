// Command extract is the translator (tie T): it reads panacea-core's current sources with full type
// information and regenerates lean/Panacea/Generated/*.lean — constants, package variables, message field
// tables, keeper struct fields, function skeletons (call / branch structure of every function of the custom
// packages), configuration tables of the app (upgrades, mounted stores, module account permissions, block
// orders, consensus versions), uses of non-deterministic primitives, and the lock operations of the key store.
// The Lean side compares what it needs of these with hand-reviewed expectations (`Panacea/Expected/*.lean`)
// in kernel-checked obligations.
package main

import (
	"bytes"
	"flag"
	"fmt"
	"go/ast"
	"go/constant"
	"go/printer"
	"go/token"
	"go/types"
	"os"
	"path/filepath"
	"reflect"
	"sort"
	"strings"

	"golang.org/x/tools/go/packages"
)

const modPath = "github.com/medibloc/panacea-core/v2"

func leanStr(s string) string {
	var b strings.Builder
	b.WriteByte('"')
	for _, r := range s {
		switch {
		case r == '"':
			b.WriteString(`\"`)
		case r == '\\':
			b.WriteString(`\\`)
		case r == '\n':
			b.WriteString(`\n`)
		case r == '\t':
			b.WriteString(`\t`)
		case r < 0x20 || r == 0x7f:
			fmt.Fprintf(&b, `\x%02x`, r)
		case r > 0x7e:
			fmt.Fprintf(&b, `\u{%x}`, r)
		default:
			b.WriteRune(r)
		}
	}
	b.WriteByte('"')
	return b.String()
}

func leanList(items []string) string {
	q := make([]string, len(items))
	for i, s := range items {
		q[i] = leanStr(s)
	}
	return "[" + strings.Join(q, ", ") + "]"
}

func leanIdent(s string) string {
	var b strings.Builder
	for _, r := range s {
		if (r >= 'a' && r <= 'z') || (r >= 'A' && r <= 'Z') || (r >= '0' && r <= '9') {
			b.WriteRune(r)
		} else {
			b.WriteByte('_')
		}
	}
	return b.String()
}

func rel(pkgPath string) string { return strings.TrimPrefix(strings.TrimPrefix(pkgPath, modPath), "/") }

func exprStr(fset *token.FileSet, e ast.Node) string {
	var b bytes.Buffer
	printer.Fprint(&b, fset, e)
	return strings.Join(strings.Fields(b.String()), " ")
}

type out struct {
	consts    [][2]string            // name, value
	vars      [][3]string            // name, type, initializer text
	skel      map[string][]string    // function -> tokens
	structs   map[string][][3]string // struct -> (field, type, json tag)
	methods   map[string][]string    // named type -> sorted method names (pointer receiver set)
	nondet    [][3]string            // function, kind, detail
	lockOps   map[string][]string
	lockPaths map[string][][]string
	initFuncs map[string][]string // package -> init skeleton tokens (flattened)
	handlerMem [][2]string        // upgrade package, method call inside its handler closure that takes no block context
	appWiring    map[string][]string // every function of app, app/keepers, app/upgrades/*: skeleton
	moduleWiring map[string][]string // every function of the root packages x/<module> (module.go, genesis.go, …): skeleton
}

// collectHandlerMemoryCalls lists, for an upgrade package, every method call inside a function literal of the shape of
// an upgrade handler (first parameter sdk.Context) whose receiver lives in a keeper, params or module-manager package
// and which is given no sdk.Context: such a call can only read or change what the process holds in memory, and memory
// does not survive a restart (F24).
func collectHandlerMemoryCalls(p *packages.Package, r string, o *out) {
	isCtx := func(t types.Type) bool { return t != nil && t.String() == "github.com/cosmos/cosmos-sdk/types.Context" }
	for _, f := range p.Syntax {
		if generated(p.Fset, f) {
			continue
		}
		ast.Inspect(f, func(n ast.Node) bool {
			fl, ok := n.(*ast.FuncLit)
			if !ok || fl.Type.Params == nil || len(fl.Type.Params.List) == 0 || !isCtx(p.TypesInfo.TypeOf(fl.Type.Params.List[0].Type)) {
				return true
			}
			ast.Inspect(fl.Body, func(m ast.Node) bool {
				call, ok := m.(*ast.CallExpr)
				if !ok {
					return true
				}
				sel, ok := call.Fun.(*ast.SelectorExpr)
				if !ok {
					return true
				}
				fn, ok := p.TypesInfo.ObjectOf(sel.Sel).(*types.Func)
				if !ok || fn.Type().(*types.Signature).Recv() == nil || fn.Pkg() == nil {
					return true
				}
				pp := fn.Pkg().Path()
				if !(strings.HasSuffix(pp, "/keeper") || strings.Contains(pp, "x/params/types") || strings.HasSuffix(pp, "types/module") || strings.Contains(pp, "/app/keepers")) {
					return true
				}
				for _, a := range call.Args {
					if isCtx(p.TypesInfo.TypeOf(a)) {
						return true
					}
				}
				o.handlerMem = append(o.handlerMem, [2]string{r, exprStr(p.Fset, call)})
				return true
			})
			return false
		})
	}
}

func skip(p *packages.Package) bool {
	r := rel(p.PkgPath)
	return strings.Contains(r, "client/cli") || strings.Contains(r, "testsuite") || strings.HasSuffix(r, "/docs")
}

func generated(fset *token.FileSet, f *ast.File) bool {
	name := fset.Position(f.Pos()).Filename
	return strings.HasSuffix(name, ".pb.go") || strings.HasSuffix(name, ".pb.gw.go") || strings.HasSuffix(name, "_test.go")
}

var errCtors = map[string]bool{"Wrapf": true, "Wrap": true, "Errorf": true, "New": true, "Error": true, "Info": true, "Printf": true, "Sprintf_log": true}

func funcName(p *packages.Package, fd *ast.FuncDecl) string {
	n := rel(p.PkgPath) + "."
	if fd.Recv != nil && len(fd.Recv.List) > 0 {
		t := fd.Recv.List[0].Type
		if s, ok := t.(*ast.StarExpr); ok {
			t = s.X
		}
		if id, ok := t.(*ast.Ident); ok {
			n += id.Name + "."
		}
	}
	return n + fd.Name.Name
}

func calleeName(e ast.Expr) string {
	switch f := e.(type) {
	case *ast.Ident:
		return f.Name
	case *ast.SelectorExpr:
		if x, ok := f.X.(*ast.Ident); ok {
			return x.Name + "." + f.Sel.Name
		}
		return "_." + f.Sel.Name
	case *ast.IndexExpr:
		return calleeName(f.X)
	}
	return "?"
}

func skeleton(p *packages.Package, fd *ast.FuncDecl) []string {
	var toks []string
	if fd.Body == nil {
		return toks
	}
	errArg := map[ast.Node]bool{}
	ast.Inspect(fd.Body, func(n ast.Node) bool {
		switch x := n.(type) {
		case *ast.IfStmt:
			toks = append(toks, "if "+exprStr(p.Fset, x.Cond))
		case *ast.ForStmt:
			c := ""
			if x.Cond != nil {
				c = exprStr(p.Fset, x.Cond)
			}
			toks = append(toks, "for "+c)
		case *ast.RangeStmt:
			toks = append(toks, "range "+exprStr(p.Fset, x.X))
		case *ast.SwitchStmt:
			t := ""
			if x.Tag != nil {
				t = exprStr(p.Fset, x.Tag)
			}
			toks = append(toks, "switch "+t)
		case *ast.CaseClause:
			var cs []string
			for _, e := range x.List {
				cs = append(cs, exprStr(p.Fset, e))
			}
			toks = append(toks, "case "+strings.Join(cs, ","))
		case *ast.ReturnStmt:
			var rs []string
			for _, e := range x.Results {
				switch v := e.(type) {
				case *ast.Ident:
					rs = append(rs, v.Name)
				case *ast.BasicLit:
					rs = append(rs, v.Value)
				default:
					rs = append(rs, "_")
				}
			}
			toks = append(toks, "return "+strings.Join(rs, ","))
		case *ast.DeferStmt:
			toks = append(toks, "defer")
		case *ast.GoStmt:
			toks = append(toks, "go")
		case *ast.CallExpr:
			name := calleeName(x.Fun)
			last := name
			if i := strings.LastIndex(name, "."); i >= 0 {
				last = name[i+1:]
			}
			// the arguments as written (which value goes where is part of what a call does); message texts of
			// error constructors and long / composite arguments are left out
			var as []string
			for _, a := range x.Args {
				r := exprStr(p.Fset, a)
				if bl, ok := a.(*ast.BasicLit); ok && bl.Kind == token.STRING && (errCtors[last] || last == "Sprintf") {
					r = "_"
				}
				if len(r) > 60 || strings.ContainsAny(r, "{\n") || strings.Contains(r, "func(") {
					r = "_"
				}
				as = append(as, r)
			}
			toks = append(toks, "call "+name+"("+strings.Join(as, ", ")+")")
			if errCtors[last] || last == "Sprintf" && len(x.Args) > 0 {
				// message texts are not part of the skeleton
				for _, a := range x.Args {
					if bl, ok := a.(*ast.BasicLit); ok && bl.Kind == token.STRING && (errCtors[last]) {
						errArg[bl] = true
					}
				}
			}
		case *ast.BasicLit:
			if errArg[x] {
				return true
			}
			if x.Kind == token.INT || x.Kind == token.FLOAT || x.Kind == token.CHAR {
				toks = append(toks, "lit "+x.Value)
			} else if x.Kind == token.STRING && len(x.Value) <= 90 {
				toks = append(toks, "lit "+x.Value)
			}
		case *ast.BinaryExpr:
			if x.Op == token.ADD || x.Op == token.SUB {
				toks = append(toks, "op "+x.Op.String())
			}
		case *ast.KeyValueExpr:
			v := exprStr(p.Fset, x.Value)
			if len(v) <= 70 && !strings.Contains(v, "{") {
				toks = append(toks, "kv "+exprStr(p.Fset, x.Key)+"="+v)
			} else {
				toks = append(toks, "kv "+exprStr(p.Fset, x.Key))
			}
		case *ast.AssignStmt:
			var ls []string
			for _, l := range x.Lhs {
				ls = append(ls, exprStr(p.Fset, l))
			}
			r := ""
			if len(x.Rhs) == 1 {
				r = exprStr(p.Fset, x.Rhs[0])
				if len(r) > 90 || strings.Contains(r, "{") {
					r = "_"
				}
			}
			toks = append(toks, "assign "+strings.Join(ls, ",")+" "+x.Tok.String()+" "+r)
		}
		return true
	})
	return toks
}

func nondetOf(p *packages.Package, fd *ast.FuncDecl, o *out) {
	if fd.Body == nil {
		return
	}
	fn := funcName(p, fd)
	add := func(kind, detail string) { o.nondet = append(o.nondet, [3]string{fn, kind, detail}) }
	ast.Inspect(fd.Body, func(n ast.Node) bool {
		switch x := n.(type) {
		case *ast.GoStmt:
			add("go-statement", "")
		case *ast.SelectStmt:
			add("select", "")
		case *ast.SendStmt:
			add("channel-send", "")
		case *ast.UnaryExpr:
			if x.Op == token.ARROW {
				add("channel-receive", "")
			}
		case *ast.RangeStmt:
			if tv, ok := p.TypesInfo.Types[x.X]; ok {
				if _, isMap := tv.Type.Underlying().(*types.Map); isMap {
					add("range-over-map", exprStr(p.Fset, x.X))
				}
			}
		case *ast.SelectorExpr:
			if id, ok := x.X.(*ast.Ident); ok {
				if pn, ok := p.TypesInfo.Uses[id].(*types.PkgName); ok {
					ip := pn.Imported().Path()
					switch {
					case ip == "time" && (x.Sel.Name == "Now" || x.Sel.Name == "Since" || x.Sel.Name == "Until"):
						add("wall-clock", "time."+x.Sel.Name)
					case ip == "math/rand" || ip == "crypto/rand" || ip == "math/rand/v2":
						add("randomness", ip+"."+x.Sel.Name)
					case ip == "os" && (x.Sel.Name == "Getenv" || x.Sel.Name == "LookupEnv" || x.Sel.Name == "Environ" || x.Sel.Name == "Hostname"):
						add("environment", "os."+x.Sel.Name)
					case ip == "runtime" && (x.Sel.Name == "NumCPU" || x.Sel.Name == "GOMAXPROCS" || x.Sel.Name == "NumGoroutine"):
						add("environment", "runtime."+x.Sel.Name)
					}
				}
			}
		case *ast.BasicLit:
			if x.Kind == token.FLOAT {
				add("float-literal", x.Value)
			}
		case *ast.Ident:
			if obj, ok := p.TypesInfo.Uses[x]; ok {
				if tn, ok := obj.(*types.TypeName); ok && tn.Pkg() == nil && (tn.Name() == "float64" || tn.Name() == "float32") {
					add("float-type", tn.Name())
				}
			}
		}
		return true
	})
}

// lockSeq flattens the mutex operations of a KeyStore method through calls to other methods of the type.
func lockSeq(methods map[string]*ast.FuncDecl, name string, depth int) []string {
	fd := methods[name]
	if fd == nil || fd.Body == nil || depth > 4 {
		return nil
	}
	var seq, deferred []string
	ast.Inspect(fd.Body, func(n ast.Node) bool {
		switch x := n.(type) {
		case *ast.DeferStmt:
			if s, ok := x.Call.Fun.(*ast.SelectorExpr); ok {
				if s.Sel.Name == "Unlock" || s.Sel.Name == "RUnlock" {
					deferred = append([]string{s.Sel.Name}, deferred...)
					return false
				}
			}
		case *ast.CallExpr:
			if s, ok := x.Fun.(*ast.SelectorExpr); ok {
				switch s.Sel.Name {
				case "Lock", "RLock", "Unlock", "RUnlock":
					if in, ok := s.X.(*ast.SelectorExpr); ok && in.Sel.Name == "mtx" {
						seq = append(seq, s.Sel.Name)
					}
				default:
					if id, ok := s.X.(*ast.Ident); ok && id.Name == "ks" {
						if _, ok := methods[s.Sel.Name]; ok {
							seq = append(seq, lockSeq(methods, s.Sel.Name, depth+1)...)
						}
					}
				}
			}
		}
		return true
	})
	return append(seq, deferred...)
}

// ---- path-sensitive lock programs --------------------------------------------------------------
// lockPaths enumerates the control paths of a KeyStore method (if/else, early returns, switch clauses,
// loops taken zero times or once, intra-type calls expanded path by path) and returns, per path, the
// sequence of mutex operations executed on it, deferred unlocks at the end.

type lpath struct {
	ops      []string
	deferred []string
	done     bool
}

func (p lpath) clone() lpath {
	return lpath{ops: append([]string{}, p.ops...), deferred: append([]string{}, p.deferred...), done: p.done}
}

const maxLockPaths = 512

func lpExpr(methods map[string]*ast.FuncDecl, n ast.Node, paths []lpath, depth int) []lpath {
	if n == nil {
		return paths
	}
	var calls []*ast.CallExpr
	ast.Inspect(n, func(x ast.Node) bool {
		switch c := x.(type) {
		case *ast.FuncLit:
			return false
		case *ast.CallExpr:
			calls = append(calls, c)
		}
		return true
	})
	for _, c := range calls {
		s, ok := c.Fun.(*ast.SelectorExpr)
		if !ok {
			continue
		}
		switch s.Sel.Name {
		case "Lock", "RLock", "Unlock", "RUnlock":
			if in, ok := s.X.(*ast.SelectorExpr); ok && in.Sel.Name == "mtx" {
				for i := range paths {
					if !paths[i].done {
						paths[i].ops = append(paths[i].ops, s.Sel.Name)
					}
				}
			}
		default:
			if id, ok := s.X.(*ast.Ident); ok && id.Name == "ks" {
				if _, ok := methods[s.Sel.Name]; ok && depth < 4 {
					sub := lockPaths(methods, s.Sel.Name, depth+1)
					var next []lpath
					for _, p := range paths {
						if p.done || len(sub) == 0 {
							next = append(next, p)
							continue
						}
						for _, sp := range sub {
							q := p.clone()
							q.ops = append(q.ops, sp...)
							next = append(next, q)
						}
					}
					paths = next
				}
			}
		}
	}
	if len(paths) > maxLockPaths {
		paths = paths[:maxLockPaths]
	}
	return paths
}

func lpFork(paths []lpath) []lpath {
	out := make([]lpath, len(paths))
	for i, p := range paths {
		out[i] = p.clone()
	}
	return out
}

func lpStmts(methods map[string]*ast.FuncDecl, list []ast.Stmt, paths []lpath, depth int) []lpath {
	for _, st := range list {
		paths = lpStmt(methods, st, paths, depth)
	}
	return paths
}

func lpSplit(paths []lpath) (live, dead []lpath) {
	for _, p := range paths {
		if p.done {
			dead = append(dead, p)
		} else {
			live = append(live, p)
		}
	}
	return
}

func lpStmt(methods map[string]*ast.FuncDecl, st ast.Stmt, paths []lpath, depth int) []lpath {
	live, dead := lpSplit(paths)
	if len(live) == 0 || st == nil {
		return paths
	}
	switch x := st.(type) {
	case *ast.BlockStmt:
		live = lpStmts(methods, x.List, live, depth)
	case *ast.ReturnStmt:
		live = lpExpr(methods, x, live, depth)
		for i := range live {
			live[i].done = true
		}
	case *ast.DeferStmt:
		if s, ok := x.Call.Fun.(*ast.SelectorExpr); ok && (s.Sel.Name == "Unlock" || s.Sel.Name == "RUnlock") {
			if in, ok := s.X.(*ast.SelectorExpr); ok && in.Sel.Name == "mtx" {
				for i := range live {
					live[i].deferred = append([]string{s.Sel.Name}, live[i].deferred...)
				}
			}
		}
	case *ast.IfStmt:
		live = lpStmt(methods, x.Init, live, depth)
		live = lpExpr(methods, x.Cond, live, depth)
		thenP := lpStmt(methods, x.Body, lpFork(live), depth)
		var elseP []lpath
		if x.Else != nil {
			elseP = lpStmt(methods, x.Else, lpFork(live), depth)
		} else {
			elseP = live
		}
		live = append(thenP, elseP...)
	case *ast.ForStmt:
		live = lpStmt(methods, x.Init, live, depth)
		live = lpExpr(methods, x.Cond, live, depth)
		once := lpStmt(methods, x.Body, lpFork(live), depth)
		live = append(once, live...)
	case *ast.RangeStmt:
		live = lpExpr(methods, x.X, live, depth)
		once := lpStmt(methods, x.Body, lpFork(live), depth)
		live = append(once, live...)
	case *ast.SwitchStmt:
		live = lpStmt(methods, x.Init, live, depth)
		live = lpExpr(methods, x.Tag, live, depth)
		var outp []lpath
		hasDefault := false
		for _, cc := range x.Body.List {
			c := cc.(*ast.CaseClause)
			if c.List == nil {
				hasDefault = true
			}
			outp = append(outp, lpStmts(methods, c.Body, lpFork(live), depth)...)
		}
		if !hasDefault {
			outp = append(outp, live...)
		}
		live = outp
	case *ast.TypeSwitchStmt:
		var outp []lpath
		for _, cc := range x.Body.List {
			c := cc.(*ast.CaseClause)
			outp = append(outp, lpStmts(methods, c.Body, lpFork(live), depth)...)
		}
		live = append(outp, live...)
	case *ast.SelectStmt:
		var outp []lpath
		for _, cc := range x.Body.List {
			c := cc.(*ast.CommClause)
			outp = append(outp, lpStmts(methods, c.Body, lpFork(live), depth)...)
		}
		live = outp
	case *ast.LabeledStmt:
		live = lpStmt(methods, x.Stmt, live, depth)
	default:
		live = lpExpr(methods, st, live, depth)
	}
	res := append(dead, live...)
	if len(res) > maxLockPaths {
		res = res[:maxLockPaths]
	}
	return res
}

func lockPaths(methods map[string]*ast.FuncDecl, name string, depth int) [][]string {
	fd := methods[name]
	if fd == nil || fd.Body == nil {
		return nil
	}
	paths := lpStmts(methods, fd.Body.List, []lpath{{}}, depth)
	seen := map[string]bool{}
	var outp [][]string
	for _, p := range paths {
		full := append(append([]string{}, p.ops...), p.deferred...)
		k := strings.Join(full, ",")
		if !seen[k] {
			seen[k] = true
			outp = append(outp, full)
		}
	}
	sort.Slice(outp, func(i, j int) bool { return strings.Join(outp[i], ",") < strings.Join(outp[j], ",") })
	return outp
}

func constStr(v constant.Value) string {
	switch v.Kind() {
	case constant.String:
		return constant.StringVal(v)
	default:
		return v.ExactString()
	}
}

func evalStrings(p *packages.Package, e ast.Expr) []string {
	var outv []string
	cl, ok := e.(*ast.CompositeLit)
	if !ok {
		return nil
	}
	for _, el := range cl.Elts {
		if tv, ok := p.TypesInfo.Types[el]; ok && tv.Value != nil {
			outv = append(outv, constStr(tv.Value))
		} else {
			outv = append(outv, "<dynamic:"+exprStr(p.Fset, el)+">")
		}
	}
	return outv
}

func main() {
	repo := flag.String("repo", "/repo", "repository root")
	outDir := flag.String("out", "", "output directory for the generated Lean files")
	flag.Parse()
	if *outDir == "" {
		fmt.Fprintln(os.Stderr, "usage: extract -repo /repo -out DIR")
		os.Exit(2)
	}
	cfg := &packages.Config{
		Mode: packages.NeedName | packages.NeedFiles | packages.NeedSyntax | packages.NeedTypes | packages.NeedTypesInfo | packages.NeedImports,
		Dir:  *repo,
		Env:  append(os.Environ(), "GOFLAGS=-mod=mod", "GOPROXY=off", "GOSUMDB=off", "GOTOOLCHAIN=local"),
	}
	pkgs, err := packages.Load(cfg, "./types/compkey", "./x/aol/...", "./x/did/...", "./x/pnft/...", "./x/burn/...", "./app", "./app/keepers", "./app/upgrades/...")
	if err != nil {
		fmt.Fprintln(os.Stderr, "load:", err)
		os.Exit(1)
	}
	bad := false
	for _, p := range pkgs {
		for _, e := range p.Errors {
			fmt.Fprintln(os.Stderr, "package error:", e)
			bad = true
		}
	}
	if bad {
		os.Exit(1)
	}
	sort.Slice(pkgs, func(i, j int) bool { return pkgs[i].PkgPath < pkgs[j].PkgPath })
	o := &out{skel: map[string][]string{}, structs: map[string][][3]string{}, methods: map[string][]string{}, lockOps: map[string][]string{}, lockPaths: map[string][][]string{}, initFuncs: map[string][]string{}, appWiring: map[string][]string{}, moduleWiring: map[string][]string{}}

	// configuration tables of the app
	var upgrades [][3][]string // name, added, deleted
	var upgradeOrder []string
	var mounted []string
	var macc [][2][]string
	orders := map[string][]string{}
	consVersions := [][2]string{}
	upgradeVars := map[string]*[3][]string{} // package name -> table

	for _, p := range pkgs {
		if skip(p) {
			continue
		}
		r := rel(p.PkgPath)
		isApp := strings.HasPrefix(r, "app")
		// constants and package variables
		scope := p.Types.Scope()
		for _, name := range scope.Names() {
			obj := scope.Lookup(name)
			pos := p.Fset.Position(obj.Pos()).Filename
			if strings.HasSuffix(pos, ".pb.go") || strings.HasSuffix(pos, ".pb.gw.go") || strings.HasSuffix(pos, "_test.go") {
				continue
			}
			switch c := obj.(type) {
			case *types.Const:
				if !isApp || strings.Contains(r, "upgrades") {
					o.consts = append(o.consts, [2]string{r + "." + name, constStr(c.Val())})
				}
			}
		}
		methodsOfKS := map[string]*ast.FuncDecl{}
		if strings.HasPrefix(r, "app/upgrades/") {
			collectHandlerMemoryCalls(p, r, o)
		}
		// message structs live in generated *.pb.go files: field, Go type, json tag (field order = proto order)
		for _, f := range p.Syntax {
			if !strings.HasSuffix(p.Fset.Position(f.Pos()).Filename, ".pb.go") || isApp {
				continue
			}
			for _, d := range f.Decls {
				gd, ok := d.(*ast.GenDecl)
				if !ok || gd.Tok != token.TYPE {
					continue
				}
				for _, sp := range gd.Specs {
					ts := sp.(*ast.TypeSpec)
					st, ok := ts.Type.(*ast.StructType)
					if !ok || !strings.HasPrefix(ts.Name.Name, "Msg") || !strings.HasSuffix(ts.Name.Name, "Request") {
						continue
					}
					var fields [][3]string
					for _, fl := range st.Fields.List {
						tag := ""
						if fl.Tag != nil {
							tag = reflect.StructTag(strings.Trim(fl.Tag.Value, "`")).Get("json")
						}
						for _, n := range fl.Names {
							fields = append(fields, [3]string{n.Name, exprStr(p.Fset, fl.Type), tag})
						}
					}
					o.structs[r+"."+ts.Name.Name] = fields
				}
			}
		}
		for _, f := range p.Syntax {
			if generated(p.Fset, f) {
				continue
			}
			for _, d := range f.Decls {
				switch d := d.(type) {
				case *ast.GenDecl:
					if d.Tok == token.VAR {
						for _, sp := range d.Specs {
							vs := sp.(*ast.ValueSpec)
							for i, id := range vs.Names {
								if id.Name == "_" {
									continue
								}
								typ := ""
								if obj := p.TypesInfo.Defs[id]; obj != nil {
									typ = types.TypeString(obj.Type(), func(q *types.Package) string { return q.Name() })
								}
								init := ""
								if i < len(vs.Values) {
									init = exprStr(p.Fset, vs.Values[i])
									if len(init) > 160 {
										init = init[:160] + "..."
									}
								}
								if !isApp {
									o.vars = append(o.vars, [3]string{r + "." + id.Name, typ, init})
								}
								// app tables
								if isApp && i < len(vs.Values) {
									switch id.Name {
									case "Upgrades":
										if cl, ok := vs.Values[i].(*ast.CompositeLit); ok {
											for _, el := range cl.Elts {
												upgradeOrder = append(upgradeOrder, exprStr(p.Fset, el))
											}
										}
									case "maccPerms":
										if cl, ok := vs.Values[i].(*ast.CompositeLit); ok {
											for _, el := range cl.Elts {
												kv := el.(*ast.KeyValueExpr)
												k := "<dynamic>"
												if tv, ok := p.TypesInfo.Types[kv.Key]; ok && tv.Value != nil {
													k = constStr(tv.Value)
												}
												macc = append(macc, [2][]string{{k}, evalStrings(p, kv.Value)})
											}
										}
									case "Upgrade":
										if cl, ok := vs.Values[i].(*ast.CompositeLit); ok {
											var tbl [3][]string
											for _, el := range cl.Elts {
												kv, ok := el.(*ast.KeyValueExpr)
												if !ok {
													continue
												}
												switch exprStr(p.Fset, kv.Key) {
												case "UpgradeName":
													if tv, ok := p.TypesInfo.Types[kv.Value]; ok && tv.Value != nil {
														tbl[0] = []string{constStr(tv.Value)}
													}
												case "StoreUpgrades":
													if su, ok := kv.Value.(*ast.CompositeLit); !ok {
														// not a literal: a reference to another release's descriptor is resolved below,
														// anything else is reported as such (and fails every theorem about the table)
														ref := ""
														if s1, ok := kv.Value.(*ast.SelectorExpr); ok && s1.Sel.Name == "StoreUpgrades" {
															if s2, ok := s1.X.(*ast.SelectorExpr); ok && s2.Sel.Name == "Upgrade" {
																if id, ok := s2.X.(*ast.Ident); ok {
																	if pn, ok := p.TypesInfo.Uses[id].(*types.PkgName); ok {
																		ref = pn.Imported().Name()
																	}
																}
															}
														}
														if ref != "" {
															tbl[1] = []string{"<ref:" + ref + ">"}
														} else {
															tbl[1] = []string{"<unsupported:" + exprStr(p.Fset, kv.Value) + ">"}
														}
													} else {
														for _, e2 := range su.Elts {
															kv2 := e2.(*ast.KeyValueExpr)
															switch exprStr(p.Fset, kv2.Key) {
															case "Added":
																tbl[1] = evalStrings(p, kv2.Value)
															case "Deleted":
																tbl[2] = evalStrings(p, kv2.Value)
															default:
																tbl[2] = append(tbl[2], "<unsupported:"+exprStr(p.Fset, kv2.Key)+">")
															}
														}
													}
												}
											}
											t := tbl
											upgradeVars[p.Name] = &t
										}
									}
								}
							}
						}
					}
					if d.Tok == token.TYPE {
						for _, sp := range d.Specs {
							ts := sp.(*ast.TypeSpec)
							st, ok := ts.Type.(*ast.StructType)
							if !ok || isApp {
								continue
							}
							var fields [][3]string
							for _, fl := range st.Fields.List {
								typ := exprStr(p.Fset, fl.Type)
								tag := ""
								if fl.Tag != nil {
									tag = reflect.StructTag(strings.Trim(fl.Tag.Value, "`")).Get("json")
								}
								if len(fl.Names) == 0 {
									fields = append(fields, [3]string{"<embedded>", typ, tag})
								}
								for _, n := range fl.Names {
									fields = append(fields, [3]string{n.Name, typ, tag})
								}
							}
							o.structs[r+"."+ts.Name.Name] = fields
						}
					}
				case *ast.FuncDecl:
					fn := funcName(p, d)
					if !isApp {
						o.skel[fn] = skeleton(p, d)
						if strings.HasPrefix(r, "x/") && strings.Count(r, "/") == 1 {
							o.moduleWiring[fn] = o.skel[fn]
						}
						if !strings.Contains(r, "client") {
							nondetOf(p, d, o)
						}
						if d.Name.Name == "init" && d.Recv == nil {
							o.initFuncs[r] = append(o.initFuncs[r], skeleton(p, d)...)
						}
						if d.Recv != nil && strings.Contains(fn, ".KeyStore.") {
							methodsOfKS[d.Name.Name] = d
						}
						if d.Name.Name == "ConsensusVersion" && d.Body != nil {
							for _, st := range d.Body.List {
								if rs, ok := st.(*ast.ReturnStmt); ok && len(rs.Results) == 1 {
									consVersions = append(consVersions, [2]string{r, exprStr(p.Fset, rs.Results[0])})
								}
							}
						}
					} else {
						// app: module orders, mounted stores, ante chain
						if d.Body == nil {
							continue
						}
						if d.Name.Name == "setAnteHandler" {
							o.skel[fn] = skeleton(p, d)
						}
						o.appWiring[fn] = skeleton(p, d)
						ast.Inspect(d.Body, func(n ast.Node) bool {
							ce, ok := n.(*ast.CallExpr)
							if !ok {
								return true
							}
							name := calleeName(ce.Fun)
							collect := func() []string {
								var vs []string
								for _, a := range ce.Args {
									if tv, ok := p.TypesInfo.Types[a]; ok && tv.Value != nil {
										vs = append(vs, constStr(tv.Value))
									} else {
										vs = append(vs, "<dynamic:"+exprStr(p.Fset, a)+">")
									}
								}
								return vs
							}
							switch {
							case strings.HasSuffix(name, "NewKVStoreKeys"):
								mounted = collect()
							case strings.HasSuffix(name, "SetOrderBeginBlockers"):
								orders["beginBlockers"] = collect()
							case strings.HasSuffix(name, "SetOrderEndBlockers"):
								orders["endBlockers"] = collect()
							}
							return true
						})
						// genesisModuleOrder := []string{...}
						ast.Inspect(d.Body, func(n ast.Node) bool {
							as, ok := n.(*ast.AssignStmt)
							if !ok || len(as.Lhs) != 1 || len(as.Rhs) != 1 {
								return true
							}
							if id, ok := as.Lhs[0].(*ast.Ident); ok && id.Name == "genesisModuleOrder" {
								orders["genesisOrder"] = evalStrings(p, as.Rhs[0])
							}
							return true
						})
					}
				}
			}
		}
		// method sets of the message types (legacy Msg interface needs Route and Type)
		if !isApp {
			for _, name := range scope.Names() {
				if tn, ok := scope.Lookup(name).(*types.TypeName); ok && strings.HasPrefix(name, "Msg") && strings.HasSuffix(name, "Request") {
					ms := types.NewMethodSet(types.NewPointer(tn.Type()))
					var names []string
					for i := 0; i < ms.Len(); i++ {
						m := ms.At(i).Obj().Name()
						switch m {
						case "Route", "Type", "GetSignBytes", "GetSigners", "ValidateBasic":
							names = append(names, m)
						}
					}
					sort.Strings(names)
					o.methods[r+"."+name] = names
				}
			}
		}
		if len(methodsOfKS) > 0 {
			for _, m := range []string{"Save", "Load", "LoadByAddress"} {
				o.lockOps[m] = lockSeq(methodsOfKS, m, 0)
			}
			for m := range methodsOfKS {
				if ast.IsExported(m) {
					o.lockPaths[m] = lockPaths(methodsOfKS, m, 0)
				}
			}
		}
	}
	for _, t := range upgradeVars {
		if len(t[1]) == 1 && strings.HasPrefix(t[1][0], "<ref:") {
			if src, ok := upgradeVars[strings.TrimSuffix(strings.TrimPrefix(t[1][0], "<ref:"), ">")]; ok && !(len(src[1]) == 1 && strings.HasPrefix(src[1][0], "<ref:")) {
				t[1], t[2] = append([]string{}, src[1]...), append([]string{}, src[2]...)
			}
		}
	}
	for _, u := range upgradeOrder {
		pkgName := strings.SplitN(u, ".", 2)[0]
		if t, ok := upgradeVars[pkgName]; ok {
			upgrades = append(upgrades, *t)
		} else {
			upgrades = append(upgrades, [3][]string{{"<unresolved:" + u + ">"}, nil, nil})
		}
	}

	// ---- write Lean ------------------------------------------------------------------------
	os.MkdirAll(*outDir, 0o755)
	var b strings.Builder
	b.WriteString("/-! GENERATED by /verif/extract from /repo's current working tree — do not edit. -/\nnamespace Panacea.Generated\n\n")
	sort.Slice(o.consts, func(i, j int) bool { return o.consts[i][0] < o.consts[j][0] })
	b.WriteString("/-- package-level constants of the custom packages: name ↦ value -/\ndef consts : List (String × String) := [\n")
	for i, c := range o.consts {
		sep := ","
		if i == len(o.consts)-1 {
			sep = ""
		}
		fmt.Fprintf(&b, "  (%s, %s)%s\n", leanStr(c[0]), leanStr(c[1]), sep)
	}
	b.WriteString("]\n\n")
	sort.Slice(o.vars, func(i, j int) bool { return o.vars[i][0] < o.vars[j][0] })
	b.WriteString("/-- package-level variables of the custom packages: name, type, initializer -/\ndef pkgVars : List (String × String × String) := [\n")
	for i, c := range o.vars {
		sep := ","
		if i == len(o.vars)-1 {
			sep = ""
		}
		fmt.Fprintf(&b, "  (%s, %s, %s)%s\n", leanStr(c[0]), leanStr(c[1]), leanStr(c[2]), sep)
	}
	b.WriteString("]\n\n")
	b.WriteString("/-- app.Upgrades in order: name, StoreUpgrades.Added, StoreUpgrades.Deleted -/\ndef upgrades : List (String × List String × List String) := [\n")
	for i, u := range upgrades {
		sep := ","
		if i == len(upgrades)-1 {
			sep = ""
		}
		n := ""
		if len(u[0]) > 0 {
			n = u[0][0]
		}
		fmt.Fprintf(&b, "  (%s, %s, %s)%s\n", leanStr(n), leanList(u[1]), leanList(u[2]), sep)
	}
	b.WriteString("]\n\n")
	b.WriteString("/-- method calls on keepers, params subspaces or the module manager inside an upgrade handler's closure that are given no block context (upgrade package, call): in-memory effects of running the handler -/\ndef handlerMemoryCalls : List (String × String) := [")
	for i, c := range o.handlerMem {
		if i > 0 {
			b.WriteString(", ")
		}
		fmt.Fprintf(&b, "(%s, %s)", leanStr(c[0]), leanStr(c[1]))
	}
	b.WriteString("]\n\n")
	for _, tb := range []struct {
		name, doc string
		m         map[string][]string
	}{{"appWiring", "every function of the packages app, app/keepers and app/upgrades/*: name, skeleton (statements and calls in source order)", o.appWiring},
		{"moduleWiring", "every function of the root packages x/<module> (module.go, genesis.go and whatever else is there): name, skeleton", o.moduleWiring}} {
		var names []string
		for n := range tb.m {
			names = append(names, n)
		}
		sort.Strings(names)
		fmt.Fprintf(&b, "/-- %s -/\ndef %s : List (String × List String) := [\n", tb.doc, tb.name)
		for i, n := range names {
			sep := ","
			if i == len(names)-1 {
				sep = ""
			}
			fmt.Fprintf(&b, "  (%s, %s)%s\n", leanStr(n), leanList(tb.m[n]), sep)
		}
		b.WriteString("]\n\n")
	}
	fmt.Fprintf(&b, "/-- arguments of sdk.NewKVStoreKeys in app/keepers/keys.go -/\ndef mountedStores : List String := %s\n\n", leanList(mounted))
	b.WriteString("/-- app.maccPerms -/\ndef maccPerms : List (String × List String) := [\n")
	sort.Slice(macc, func(i, j int) bool { return macc[i][0][0] < macc[j][0][0] })
	for i, m := range macc {
		sep := ","
		if i == len(macc)-1 {
			sep = ""
		}
		fmt.Fprintf(&b, "  (%s, %s)%s\n", leanStr(m[0][0]), leanList(m[1]), sep)
	}
	b.WriteString("]\n\n")
	for _, k := range []string{"beginBlockers", "endBlockers", "genesisOrder"} {
		fmt.Fprintf(&b, "def %s : List String := %s\n\n", k, leanList(orders[k]))
	}
	sort.Slice(consVersions, func(i, j int) bool { return consVersions[i][0] < consVersions[j][0] })
	b.WriteString("/-- ConsensusVersion() of the custom modules -/\ndef consensusVersions : List (String × String) := [")
	for i, c := range consVersions {
		if i > 0 {
			b.WriteString(", ")
		}
		fmt.Fprintf(&b, "(%s, %s)", leanStr(c[0]), leanStr(c[1]))
	}
	b.WriteString("]\n\n")
	sort.Slice(o.nondet, func(i, j int) bool {
		if o.nondet[i][0] != o.nondet[j][0] {
			return o.nondet[i][0] < o.nondet[j][0]
		}
		if o.nondet[i][1] != o.nondet[j][1] {
			return o.nondet[i][1] < o.nondet[j][1]
		}
		return o.nondet[i][2] < o.nondet[j][2]
	})
	b.WriteString("/-- every use of a non-deterministic primitive in the non-client custom packages: function, kind, detail -/\ndef nondet : List (String × String × String) := [\n")
	for i, c := range o.nondet {
		sep := ","
		if i == len(o.nondet)-1 {
			sep = ""
		}
		fmt.Fprintf(&b, "  (%s, %s, %s)%s\n", leanStr(c[0]), leanStr(c[1]), leanStr(c[2]), sep)
	}
	b.WriteString("]\n\n")
	b.WriteString("/-- mutex operations of the KeyStore methods, flattened through intra-type calls (deferred unlocks last) -/\ndef lockOps : List (String × List String) := [")
	for i, m := range []string{"Save", "Load", "LoadByAddress"} {
		if i > 0 {
			b.WriteString(", ")
		}
		fmt.Fprintf(&b, "(%s, %s)", leanStr(m), leanList(o.lockOps[m]))
	}
	b.WriteString("]\n\n")
	b.WriteString("/-- per exported KeyStore method: the mutex operations on every control path (early returns, branches, loops 0/1 times, intra-type calls expanded), deferred unlocks last -/\ndef lockPaths : List (String × List (List String)) := [")
	var lpk []string
	for k := range o.lockPaths {
		lpk = append(lpk, k)
	}
	sort.Strings(lpk)
	for i, m := range lpk {
		if i > 0 {
			b.WriteString(", ")
		}
		var ps []string
		for _, pth := range o.lockPaths[m] {
			ps = append(ps, leanList(pth))
		}
		fmt.Fprintf(&b, "\n  (%s, [%s])", leanStr(m), strings.Join(ps, ", "))
	}
	b.WriteString("]\n\n")
	var ipk []string
	for k := range o.initFuncs {
		ipk = append(ipk, k)
	}
	sort.Strings(ipk)
	b.WriteString("/-- skeletons of the `init` functions per package (empty list: the package has none) -/\ndef initFuncs : List (String × List String) := [")
	for i, k := range ipk {
		if i > 0 {
			b.WriteString(", ")
		}
		fmt.Fprintf(&b, "(%s, %s)", leanStr(k), leanList(o.initFuncs[k]))
	}
	b.WriteString("]\n\n")
	var mk []string
	for k := range o.methods {
		mk = append(mk, k)
	}
	sort.Strings(mk)
	b.WriteString("/-- which of Route / Type / GetSignBytes / GetSigners / ValidateBasic each message type implements -/\ndef msgMethods : List (String × List String) := [\n")
	for i, k := range mk {
		sep := ","
		if i == len(mk)-1 {
			sep = ""
		}
		fmt.Fprintf(&b, "  (%s, %s)%s\n", leanStr(k), leanList(o.methods[k]), sep)
	}
	b.WriteString("]\n\n")
	emitPairs := func(name, doc string, keep func(string) bool) {
		fmt.Fprintf(&b, "/-- %s -/\ndef %s : List (String × String) := [", doc, name)
		first := true
		for _, c := range o.consts {
			if !keep(c[0]) {
				continue
			}
			if !first {
				b.WriteString(", ")
			}
			first = false
			fmt.Fprintf(&b, "(%s, %s)", leanStr(c[0]), leanStr(c[1]))
		}
		b.WriteString("]\n\n")
	}
	emitPairs("validationConsts", "constants the validators use", func(k string) bool {
		return strings.HasPrefix(k, "x/aol/types.max") || strings.HasPrefix(k, "x/did/types.")
	})
	emitPairs("compkeyConsts", "constants of the composite-key encoding", func(k string) bool {
		return strings.HasPrefix(k, "types/compkey.") || k == "x/aol/types.GenesisKeySeparator"
	})
	emitPairs("keystoreConsts", "constants of the key store", func(k string) bool { return strings.HasPrefix(k, "x/did/client/crypto.") })
	b.WriteString("/-- the module-local amino codecs -/\ndef aminoVars : List (String × String × String) := [")
	first := true
	for _, c := range o.vars {
		if !(strings.HasSuffix(c[0], ".amino") || strings.HasSuffix(c[0], ".ModuleCdc")) {
			continue
		}
		if !first {
			b.WriteString(", ")
		}
		first = false
		fmt.Fprintf(&b, "(%s, %s, %s)", leanStr(c[0]), leanStr(c[1]), leanStr(c[2]))
	}
	b.WriteString("]\n\nend Panacea.Generated\n")
	write(filepath.Join(*outDir, "Facts.lean"), b.String())

	// structs (message field tables, keeper fields)
	b.Reset()
	b.WriteString("/-! GENERATED by /verif/extract — do not edit. -/\nnamespace Panacea.Generated\n\n")
	var sk []string
	for k := range o.structs {
		sk = append(sk, k)
	}
	sort.Strings(sk)
	b.WriteString("/-- hand-written struct types of the custom packages: field, Go type, json tag -/\ndef structs : List (String × List (String × String × String)) := [\n")
	for i, k := range sk {
		sep := ","
		if i == len(sk)-1 {
			sep = ""
		}
		var fs []string
		for _, f := range o.structs[k] {
			fs = append(fs, fmt.Sprintf("(%s, %s, %s)", leanStr(f[0]), leanStr(f[1]), leanStr(f[2])))
		}
		fmt.Fprintf(&b, "  (%s, [%s])%s\n", leanStr(k), strings.Join(fs, ", "), sep)
	}
	b.WriteString("]\n\n")
	emitStructs := func(name, doc string, keep func(string) bool) {
		fmt.Fprintf(&b, "/-- %s -/\ndef %s : List (String × List (String × String × String)) := [\n", doc, name)
		first := true
		for _, k := range sk {
			if !keep(k) {
				continue
			}
			var fs []string
			for _, f := range o.structs[k] {
				fs = append(fs, fmt.Sprintf("(%s, %s, %s)", leanStr(f[0]), leanStr(f[1]), leanStr(f[2])))
			}
			if !first {
				b.WriteString(",\n")
			}
			first = false
			fmt.Fprintf(&b, "  (%s, [%s])", leanStr(k), strings.Join(fs, ", "))
		}
		b.WriteString("\n]\n\n")
	}
	emitStructs("msgStructs", "the 14 message structs (generated protobuf code): field, Go type, json tag", func(k string) bool { return strings.Contains(k, ".Msg") })
	emitStructs("keeperStructs", "keeper and msg-server structs of the custom modules", func(k string) bool {
		return strings.HasSuffix(k, ".Keeper") || strings.HasSuffix(k, ".msgServer")
	})
	b.WriteString("end Panacea.Generated\n")
	write(filepath.Join(*outDir, "Structs.lean"), b.String())

	// skeletons: one definition per function
	b.Reset()
	b.WriteString("/-! GENERATED by /verif/extract — do not edit.  One definition per function of the custom packages:\nthe branch conditions, calls, literals and returns of its body in source order (message texts dropped). -/\nnamespace Panacea.Generated.Skel\n\n")
	var fk []string
	for k := range o.skel {
		fk = append(fk, k)
	}
	sort.Strings(fk)
	seen := map[string]bool{}
	for _, k := range fk {
		id := leanIdent(k)
		for seen[id] {
			id += "_"
		}
		seen[id] = true
		fmt.Fprintf(&b, "/-- %s -/\ndef %s : List String := %s\n\n", k, id, leanList(o.skel[k]))
	}
	b.WriteString("end Panacea.Generated.Skel\n")
	write(filepath.Join(*outDir, "Skeletons.lean"), b.String())
	emitCode(pkgs, *outDir)
}

func write(path, content string) {
	if err := os.WriteFile(path, []byte(content), 0o644); err != nil {
		fmt.Fprintln(os.Stderr, err)
		os.Exit(1)
	}
}
