#!/bin/sh
# Regenerate harness/go.mod + go.sum from /repo's current go.mod (offline; replace => /repo).
set -e
H="$(cd "$(dirname "$0")/.." && pwd)/harness"
REPO="${VERIF_REPO:-/repo}"
{
  sed -e 's#^module .*#module verifharness#' "$REPO/go.mod"
  echo
  echo 'require github.com/medibloc/panacea-core/v2 v2.0.0-00010101000000-000000000000'
  echo "replace github.com/medibloc/panacea-core/v2 => $REPO"
} > "$H/go.mod.new"
if ! cmp -s "$H/go.mod.new" "$H/go.mod" 2>/dev/null; then mv "$H/go.mod.new" "$H/go.mod"; else rm "$H/go.mod.new"; fi
cmp -s "$REPO/go.sum" "$H/go.sum" 2>/dev/null || cp "$REPO/go.sum" "$H/go.sum"
