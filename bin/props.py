"""Per-property configuration of bin/check: Lean module, obligations audited with #print axioms,
correspondence streams and budgets, trusted base."""

COMMON_TRUSTED = [
    "Lean 4.33.0 kernel (thorough tier re-checks the property module with leanchecker)",
    "allowed axioms only: propext, Classical.choice, Quot.sound; no sorry/admit/own axiom/native_decide/bv_decide (grepped and #print axioms on every run)",
    "correspondence harness /verif/harness (Go, built against /repo's working tree with -tags verif) and its canonicalisation",
    "line-protocol driver lean/Main.lean + Panacea/Driver/* (parsing of op lines, not covered by theorems)",
]

PROPS = {}

PROPS["C18"] = dict(
    module="Panacea.Properties.C18",
    obligations=[
        "Panacea.C18.decode_encode", "Panacea.C18.encode_decode", "Panacea.C18.encode_injective",
        "Panacea.C18.prefix_exact", "Panacea.C18.partial_prefix_exact", "Panacea.C18.encode_none_iff_long",
        "Panacea.C18.encode_length_exact", "Panacea.C18.decodeTyped_canonical", "Panacea.C18.decodeTyped_total",
        "Panacea.C18.string_roundtrip_admitted",
    ],
    streams=[dict(name="compkey", quick=3000, thorough=60000, thorough_seeds=3)],
    trusted=[
        "hand-written Lean model Panacea/Model/CompKey.lean of types/compkey/compkey.go and x/aol/types/keys.go, tied by the compkey stream",
        "bech32 is a parameter (AddrCodec) with three stated laws; the real bech32 runs on the Go side and is supplied to the driver as a finite table",
    ],
    assumptions=["AddrCodec.Lawful for the string-form theorem (dec∘enc = id on 1..255-byte addresses, no '/' in address text)"],
    note="all theorems hold for any number of components of any size; typed-key theorems are about the code after fix e1943c05 (offset component must be 8 bytes)",
)

AOL_TRUSTED = [
    "hand-written Lean model Panacea/Model/Aol.lean (+KV, Paginate) of x/aol keeper, msg server and queries, tied by the aol stream (real msg server and query server on a cache branch of a real app's deliver state)",
    "protobuf value encoding of Owner/Topic/Writer/Record is not modelled: store values are compared after decoding with the module codec",
    "bech32 is a parameter (AddrCodec); the real one is supplied to the driver as a finite table",
]

PROPS["C01"] = dict(
    module="Panacea.Properties.C01",
    obligations=[
        "Panacea.C01.tables_disjoint", "Panacea.C01.recordKey_injective", "Panacea.C01.recInv_genesis",
        "Panacea.C01.recInv_reachable", "Panacea.C01.addRecord_acknowledged", "Panacea.C01.acked_record_forever",
        "Panacea.C01.offsets_dense", "Panacea.C01.record_table_append_only",
    ],
    streams=[dict(name="aol", quick=150, thorough=3000, thorough_seeds=3)],
    trusted=AOL_TRUSTED,
    assumptions=[
        "RecInv s0 (records and total_records agree) for the start state: proved for the empty genesis and preserved by every message",
        "no uint64 overflow of total_records during the history (B + |history| < 2^64)",
        "a failing/panicking message leaves state unchanged (transaction atomicity: C15 / baseapp cache branch)",
    ],
    note="restart and genesis export/import are identities on the modelled state (C10, C08) and are not separate operations in these histories",
)
