"""Per-property configuration of bin/check: Lean module, obligations audited with #print axioms,
correspondence streams and budgets, trusted base."""

COMMON_TRUSTED = [
    "Lean 4.33.0 kernel (thorough tier re-checks the property module with leanchecker)",
    "allowed axioms only: propext, Classical.choice, Quot.sound; no sorry/admit/own axiom/native_decide/bv_decide (grepped and #print axioms on every run)",
    "correspondence harness /verif/harness (Go, built against /repo's working tree with -tags verif) and its canonicalisation",
    "line-protocol driver lean/Main.lean + Panacea/Driver/* (parsing of op lines, not covered by theorems)",
]

PROPS = {}

PROPS["C18"] = dict(
    module="Panacea.Properties.C18",
    obligations=[
        "Panacea.C18.decode_encode", "Panacea.C18.encode_decode", "Panacea.C18.encode_injective",
        "Panacea.C18.prefix_exact", "Panacea.C18.partial_prefix_exact", "Panacea.C18.encode_none_iff_long",
        "Panacea.C18.encode_length_exact", "Panacea.C18.decodeTyped_canonical", "Panacea.C18.decodeTyped_total",
        "Panacea.C18.string_roundtrip_admitted",
    ],
    streams=[dict(name="compkey", quick=3000, thorough=60000, thorough_seeds=3), dict(name="genesis", quick=3, thorough=60, thorough_seeds=2)],
    trusted=[
        "hand-written Lean model Panacea/Model/CompKey.lean of types/compkey/compkey.go and x/aol/types/keys.go, tied by the compkey stream",
        "bech32 is a parameter (AddrCodec) with three stated laws; the real bech32 runs on the Go side and is supplied to the driver as a finite table",
    ],
    assumptions=["AddrCodec.Lawful for the string-form theorem (dec∘enc = id on 1..255-byte addresses, no '/' in address text)"],
    note="all theorems hold for any number of components of any size; typed-key theorems are about the code after fix e1943c05 (offset component must be 8 bytes)",
)

AOL_TRUSTED = [
    "hand-written Lean model Panacea/Model/Aol.lean (+KV, Paginate) of x/aol keeper, msg server and queries, tied by the aol stream (real msg server and query server on a cache branch of a real app's deliver state)",
    "protobuf value encoding of Owner/Topic/Writer/Record is not modelled: store values are compared after decoding with the module codec",
    "bech32 is a parameter (AddrCodec); the real one is supplied to the driver as a finite table",
]

PROPS["C01"] = dict(
    module="Panacea.Properties.C01",
    obligations=["Panacea.C01.recInv_validated_genesis", "Panacea.Aol.nodup_full", 
        "Panacea.C01.tables_disjoint", "Panacea.C01.recordKey_injective", "Panacea.C01.recInv_genesis",
        "Panacea.C01.recInv_reachable", "Panacea.C01.addRecord_acknowledged", "Panacea.C01.acked_record_forever",
        "Panacea.C01.offsets_dense", "Panacea.C01.record_table_append_only",
    ],
    streams=[dict(name="aol", quick=150, thorough=3000, thorough_seeds=3), dict(name="genesis", quick=12, thorough=300, thorough_seeds=2)],
    trusted=AOL_TRUSTED,
    assumptions=[
        "RecInv s0 (records and total_records agree) for the start state: proved for the empty genesis and preserved by every message",
        "no uint64 overflow of total_records during the history (B + |history| < 2^64)",
        "a failing/panicking message leaves state unchanged (transaction atomicity: C15 / baseapp cache branch)",
    ],
    note="restart and genesis export/import are identities on the modelled state (C10, C08) and are not separate operations in these histories",
)

DID_TRUSTED = [
    "hand-written Lean model Panacea/Model/Did.lean of x/did (documents, validity, base58, DataWithSeq framing, VerifyDIDOwnership, msg server, query), tied by the did stream: ValidateBasic + real msg server + Query/DID on a real app with real secp256k1 keys, every message round-tripped through protobuf",
    "signature verification is a parameter (Crypto.verify); the driver instantiates it with the table of signatures the harness produced with real keys; replay theorems are stated as reductions and, separately, under SigBinds",
    "protobuf encoding of a DIDDocument is not modelled: messages carry the observed doc.Marshal() bytes; C11.proof_bound_to_did takes injectivity of that encoding as a hypothesis",
]
DID_ASSUME = [
    "WF s0 (entries carry a document pointer, uint64 sequence, active documents are self-describing): proved for the empty registry and preserved by every message",
    "no uint64 overflow of a DID sequence during the history (B + |history| < 2^64)",
]
DID_STREAM = [dict(name="did", quick=150, thorough=3000, thorough_seeds=3)]

PROPS["C03"] = dict(
    module="Panacea.Properties.C03",
    obligations=["Panacea.C03.update_requires_current_auth_proof", "Panacea.C03.deactivate_requires_current_auth_proof",
                 "Panacea.C03.create_requires_self_auth_proof", "Panacea.C03.proof_key_is_listed_under_authentication",
                 "Panacea.C03.not_under_authentication_rejected", "Panacea.C03.from_address_irrelevant",
                 "Panacea.C03.rejected_is_noop", "Panacea.C03.other_dids_untouched"],
    streams=DID_STREAM + [dict(name="genesis", quick=12, thorough=300, thorough_seeds=2)], trusted=DID_TRUSTED,
    assumptions=DID_ASSUME + ["known finding F18: 'over the new content' means over the document's JSON rendering, which is injective only on valid UTF-8 strings (mon.c03.utf8)"],
)
PROPS["C04"] = dict(
    module="Panacea.Properties.C04",
    obligations=["Panacea.C04.wf_empty", "Panacea.C04.wf_reachable", "Panacea.C04.seq_create_zero", "Panacea.C04.seq_advances", "Panacea.C04.seq_advances_total",
                 "Panacea.C04.seq_changes_only_by_acceptance", "Panacea.C04.seq_monotone", "Panacea.C04.read_seq_is_next",
                 "Panacea.C04.update_replay_reduction", "Panacea.C04.update_replay_rejected",
                 "Panacea.C04.deactivate_replay_rejected", "Panacea.C04.create_replay_rejected",
                 "Panacea.Did.signBytes_injective"],
    streams=DID_STREAM + [dict(name="genesis", quick=12, thorough=300, thorough_seeds=2), dict(name="tx", quick=4, thorough=80, thorough_seeds=2)], trusted=DID_TRUSTED,
    assumptions=DID_ASSUME + ["SigBinds (a signature verifies for at most one message) for update_replay_rejected only; the reduction form has no such hypothesis"],
)
PROPS["C05"] = dict(
    module="Panacea.Properties.C05",
    obligations=["Panacea.C05.genesis_seq_bound", "Panacea.C05.genesis_deactivate_makes_tombstone", "Panacea.C05.create_existing_fails_noop", "Panacea.C05.deactivate_makes_tombstone",
                 "Panacea.C05.tombstone_forever", "Panacea.C05.update_never_deactivates",
                 "Panacea.C05.deactivate_makes_tombstone_total", "Panacea.C05.exhausted_refused"],
    streams=DID_STREAM + [dict(name="genesis", quick=25, thorough=400, thorough_seeds=2)], trusted=DID_TRUSTED, assumptions=DID_ASSUME,
    note="export/import and restart preservation of tombstones: C08 / C10",
)
PROPS["C11"] = dict(
    module="Panacea.Properties.C11",
    obligations=["Panacea.C11.active_doc_id_eq_key", "Panacea.C11.write_is_about_its_own_did",
                 "Panacea.C11.proof_bound_to_did", "Panacea.C11.deactivation_proof_bound_to_did"],
    streams=DID_STREAM, trusted=DID_TRUSTED, assumptions=DID_ASSUME,
    note="theorems are about the code after fix 5604f2f8 (F6); monitor mon.c11.ids evaluates the property on the implementation's store after every history",
)

PROPS["C16"] = dict(
    module="Panacea.Properties.C16",
    obligations=["Panacea.C16.aol_accept_iff_documented", "Panacea.C16.pnft_accept_iff_documented",
                 "Panacea.C16.did_accept_iff_documented", "Panacea.C16.did_iff", "Panacea.C16.vmid_iff",
                 "Panacea.C16.topic_iff", "Panacea.C16.moniker_iff", "Panacea.C16.admitted_topic_has_no_slash"],
    streams=[dict(name="validate", quick=400, thorough=20000, thorough_seeds=3)],
    trusted=["hand-written Lean model Panacea/Model/Validate.lean (+Did.validateBasic) of the 14 ValidateBasic methods, tied by the validate stream (boundary-exhaustive lengths, all 256 byte values per position, multi-byte runes straddling limits)",
             "Go regexp semantics for the three character classes used ([A-Za-z0-9._-], base58, \\S) transcribed by hand; invalid UTF-8 and multi-byte input are exercised by the stream",
             "bech32 validity is a parameter (dec)"],
    assumptions=["dec [] = none (the empty string is not an address) for the PNFT equivalence"],
    note="`Doc.valid` (document well-formedness) is used as its own documentation except for identifiers (did_iff, vmid_iff); 'nothing outside the limits is stored' follows because deliver = validateBasic;handle in every pipeline model (C15)",
)

PROPS["C13"] = dict(
    module="Panacea.Properties.C13",
    obligations=["Panacea.C13.countInv_genesis", "Panacea.C13.countInv_reachable", "Panacea.C13.total_topics_eq_listed",
                 "Panacea.C13.total_writers_eq_listed", "Panacea.C13.topics_listing_only_owner",
                 "Panacea.C13.listing_walk_complete", "Panacea.C13.listing_count_total", "Panacea.C13.writers_listing_only_topic",
                 "Panacea.C13.listing_reverse_walk_complete", "Panacea.C13.listing_offset_page", "Panacea.C13.listing_offset_walk_complete",
                 "Panacea.C18.prefix_exact", "Panacea.C01.addRecord_acknowledged"],
    streams=[dict(name="aol", quick=150, thorough=3000, thorough_seeds=3), dict(name="genesis", quick=25, thorough=400, thorough_seeds=2)],
    trusted=AOL_TRUSTED + ["hand-written model Panacea/Model/Paginate.lean of cosmos-sdk v0.47.12 types/query/pagination.go (Paginate, getIterator), tied by the aol stream's random page requests and full walks"],
    assumptions=["CountInv s0 (sorted tables, well-formed keys, counters = listing lengths mod 2^64): proved for the empty genesis, preserved by every message",
                 "listing sizes and counters below 2^64 for the plain-equality corollaries",
                 "the theorems about walks are about the pagination model applied to any sorted view; that the Topics / Writers views are sorted with non-empty keys follows from the store invariant (Sorted) and key well-formedness"],
)

PROPS["C14"] = dict(
    module="Panacea.Properties.C14",
    obligations=["Panacea.C14.direct_injective", "Panacea.C14.fieldsOf_injective", "Panacea.C14.aol_legacy_injective",
                 "Panacea.C14.pnft_not_legacy_signable", "Panacea.C14.did_legacy_injective_same_type",
                 "Panacea.C14.did_deactivate_distinct", "Panacea.C14.did_create_update_collide"],
    streams=[dict(name="signbytes", quick=120, thorough=2500, thorough_seeds=3)],
    trusted=["hand-written Lean model Panacea/Model/SignBytes.lean of the legacy amino-JSON sign bytes (GetSignBytes = MustSortJSON(ModuleCdc.MustMarshalJSON(msg))): omitempty fields under their JSON names, {type,value} wrapper iff the module codec registers the name; tied by the signbytes stream, which compares the exact bytes of the real GetSignBytes of the AOL messages with the model's rendering and evaluates the pairwise-distinctness monitor on the real SignModeHandler of the app in both sign modes",
             "regenerated method table Generated.msgMethods (translator /verif/extract) for which messages implement legacytx.LegacyMsg",
             "that rendering distinct canonical documents gives distinct bytes (JSON is injective on {type, fields}); protobuf/Any decoding is a function of the body bytes (direct modes)",
             "DID documents embedded in DID messages are an opaque parameter docJson"],
    assumptions=["known finding F17: the JSON rendering of the sign document is injective only on valid UTF-8 strings; the validators admit others (mon.c14.pair.utf8)",
                 "known finding F1-DID: the theorem did_create_update_collide proves that MsgCreateDID and MsgUpdateDID with the same fields have the same legacy sign document (the property fails there); injectivity is proved within each DID message type and between deactivate and create/update only"],
)

PNFT_TRUSTED = [
    "hand-written Lean model Panacea/Model/Pnft.lean of x/pnft and of the cosmos-sdk v0.47.12 x/nft keeper's key layout (five prefixes, delimiter-based keys), tied by the pnft stream: real msg server + query server on a real app, raw store dumps compared key for key",
    "protobuf/Any encoding of class and token metadata not modelled (values compared after decoding with the real codecs)",
    "bech32 is a parameter (AddrCodec)",
]
PNFT_STREAM = [dict(name="pnft", quick=150, thorough=3000, thorough_seeds=3)]
PROPS["C06"] = dict(
    module="Panacea.Properties.C06",
    obligations=["Panacea.C06.denom_ops_require_current_owner", "Panacea.C06.token_ops_require_current_owner",
                 "Panacea.C06.denom_owner_changes_only_by_transfer", "Panacea.C06.former_owner_rejected",
                 "Panacea.C06.refused_is_noop"],
    streams=PNFT_STREAM, trusted=PNFT_TRUSTED,
    assumptions=["message level: that the actor named in the message signed the transaction (or delegated via authz) is the transaction layer (C15 / Tx model and tx stream)"],
)
PROPS["C12"] = dict(
    module="Panacea.Properties.C12",
    obligations=["Panacea.C12.admitted_ids_have_no_nul", "Panacea.C12.pairs_do_not_alias", "Panacea.C12.mint_existing_refused",
                 "Panacea.C12.token_metadata_immutable", "Panacea.C12.denomsByOwner_exact", "Panacea.C12.delete_nonempty_refused", "Panacea.C12.pinv_genesis", "Panacea.C12.pinv_reachable", "Panacea.C12.token_belongs_to_existing_denom", "Panacea.C12.queried_token_has_denom", "Panacea.C12.pnfts_listing_exact", "Panacea.C12.pnfts_listing_length", "Panacea.C12.oinv_genesis", "Panacea.C12.lawful_decShort", "Panacea.C12.invariants_reachable", "Panacea.C12.pnftsByDenomOwner_listing_exact", "Panacea.C12.token_has_owner"],
    streams=PNFT_STREAM + [dict(name="genesis", quick=3, thorough=60, thorough_seeds=2)], trusted=PNFT_TRUSTED,
    assumptions=["PInv s0 (supply = number of token entries under the denom's prefix, entries keyed by their own ids, every token's class exists): proved for the empty store, preserved by every message while fewer than 2^64 tokens exist (B + history length < 2^64)",
                 "OInv s0 (owner table has exactly the token keys; owner index has exactly one entry per token under its current owner): same status; decoded addresses shorter than 256 bytes (AddrCodec.Lawful)"],
    note="theorems are about the code after fixes 38809bd7 (F7), 463feecd (F8), 3b7d7856 (F9)",
)

TX_TRUSTED = [
    "hand-written Lean model Panacea/Model/Tx.lean of baseapp validateBasicTxMsgs/runTx, the ante chain of app/ante.go (signer set, one valid signature with the current sequence per signer, fee from FeePayer() to the fee collector, sequence increments), runMsgs on a discardable branch and authz MsgExec/DispatchActions with generic grants (cosmos-sdk v0.47.12), tied by the tx stream: real signed transactions (direct and amino-JSON) through DeliverTx on a real app, balances/sequences/custom stores dumped after every transaction",
    "not modelled: gas, memo, timeout height, tips, fee grants, multisig, gov/group execution paths, MsgGrant/MsgRevoke (grants are injected through the authz keeper)",
    "signature validity is an input of the model (SigInfo.valid); the harness produces real secp256k1 signatures, bad signatures and wrong sequences",
]
TX_STREAM = [dict(name="tx", quick=40, thorough=600, thorough_seeds=3)]
PROPS["C15"] = dict(
    module="Panacea.Properties.C15",
    obligations=["Panacea.C15.rejected_changes_nothing", "Panacea.C15.tx_atomic", "Panacea.C15.only_fee_moves",
                 "Panacea.C15.fee_payer_is_first_signer", "Panacea.C15.addRecord_fee_payer_first",
                 "Panacea.C15.custom_msgs_preserve_bank"],
    streams=TX_STREAM, trusted=TX_TRUSTED,
    assumptions=["total supply: the model has no mint/burn in the transaction path; the stream compares the real bank total-supply delta (must be 0) after every transaction"],
)
PROPS["C02"] = dict(
    module="Panacea.Properties.C02",
    obligations=["Panacea.C02.accepted_tx_signed_by_every_signer", "Panacea.C02.msg_signers_subset_tx_signers",
                 "Panacea.C02.exec_requires_grant_or_self", "Panacea.C02.append_requires_listed_writer",
                 "Panacea.C02.writer_list_changes_only_by_owner", "Panacea.C02.topic_created_under_signer",
                 "Panacea.C02.delete_writer_immediate", "Panacea.C02.rejected_is_noop", "Panacea.C15.tx_atomic"],
    streams=TX_STREAM + [dict(name="aol", quick=100, thorough=2000, thorough_seeds=2)],
    trusted=TX_TRUSTED + AOL_TRUSTED,
    assumptions=["gov- and group-executed messages are outside the model"],
)

PROPS["C07"] = dict(
    module="Panacea.Properties.C07",
    obligations=["Panacea.C07.burn_after_coin_moving_endblockers", "Panacea.C07.only_custom_modules_after_burn", "Panacea.C07.burn_endblock_spec", "Panacea.C07.burn_endblock_send_never_fails"],
    streams=[dict(name="burn", quick=40, thorough=800, thorough_seeds=3)],
    trusted=["hand-written Lean model Panacea/Model/Bank.lean of the parts of cosmos-sdk v0.47.12 x/bank the burn module uses (SpendableCoins, SendCoins incl. its coin-by-coin debit without rollback, BurnCoins, vesting locks) and of x/burn's end-blocker, tied by the burn stream: a real app, multi-denomination sends and vesting-account creation at the burn address, the real EndBlock/Commit of every block, balances/spendable/supply deltas compared, crisis.AssertInvariants after every history",
             "staking/distribution/gov invariants are not modelled: asserted on the implementation only (mon.c07.inv)"],
    assumptions=["denomination universe without duplicates; burn address != burn module account; locked <= balance at the burn address"],
    note="theorems are about the code after fix 4ab270d6 (F11); burnEndBlockOld with a decide-checked witness shows the unrepaired behaviour",
)

PROPS["C08"] = dict(
    module="Panacea.Properties.C08",
    obligations=["Panacea.C08.rebuild_sorted", "Panacea.C08.did_import_export", "Panacea.C08.import_get",
                 "Panacea.C08.entry_roundtrip", "Panacea.C08.aol_table_import_export", "Panacea.C08.aol_import_export",
                 "Panacea.C18.string_roundtrip_admitted"],
    streams=[dict(name="genesis", quick=40, thorough=600, thorough_seeds=3)],
    trusted=["hand-written Lean model Panacea/Model/Genesis.lean of x/aol and x/did Export/InitGenesis, tied by the genesis stream: histories over all three modules on a real app; the custom modules' genesis is exported twice (byte-equal), validated with ModuleBasics.ValidateGenesis, imported into a fresh application through InitChain, re-exported (byte-equal), and the history continues on the new application with all dumps and queries compared",
             "the JSON/jsonpb codecs and the PNFT import path are exercised by the stream only (partial)"] + AOL_TRUSTED[2:],
    assumptions=["tables sorted with keys that are canonical encodings of admitted tuples (CountInv / the validators) for the AOL identity; AddrCodec.Lawful",
                 "known finding F15: free-text strings with invalid UTF-8 are altered by the JSON export"],
    note="theorems about the code after fix 306b67e8 (F10)",
)

PROPS["C17"] = dict(
    module="Panacea.Properties.C17",
    obligations=["Panacea.C17.validateBasic_never_panics", "Panacea.C17.did_validateBasic_never_panics",
                 "Panacea.C17.signers_after_validation_never_panic", "Panacea.C17.did_deliver_never_panics",
                 "Panacea.C17.aol_handle_never_panics_after_validation", "Panacea.C17.pnft_handle_never_panics",
                 "Panacea.C17.decryptKey_never_panics", "Panacea.C17.aol_item_queries_never_panic",
                 "Panacea.C17.paginate_panics_only_in_reverse_key_mode", "Panacea.C07.burn_endblock_send_never_fails"],
    streams=[dict(name="totality", quick=1, thorough=1, thorough_seeds=1), dict(name="keystore", quick=300, thorough=5000, thorough_seeds=2),
             dict(name="validate", quick=200, thorough=5000, thorough_seeds=2)],
    trusted=["models of all entry points with every known partial Go operation as an explicit panic outcome (Validate, Did, Aol, Pnft, Paginate, Keystore)",
             "totality stream: every query handler and ValidateBasic under recover() on absent requests/sub-messages, empty/over-long/invalid-UTF-8 strings, extreme integers and pagination; keystore stream: crafted key files through KeyStore.Load; model and implementation must agree on panic/no panic input by input",
             "panic sources that were not modelled are visible to the streams only"],
    assumptions=["AddrCodec decodes only to 1..255-byte addresses (sdk.VerifyAddressFormat) for the AOL handler theorem",
                 "registry entries always carry a document pointer (Did.WF) for the DID pipeline theorem",
                 "known finding F14: reverse pagination with key = last key panics inside the SDK's query.getIterator (Topics, Writers, Denoms)"],
    note="C17 module imports C07 for the end-blocker totality statement",
)
PROPS["C20"] = dict(
    module="Panacea.Properties.C20",
    obligations=["Panacea.C20.good_step", "Panacea.C20.no_deadlock", "Panacea.C20.good_preserved",
                 "Panacea.C20.wb_threads_good", "Panacea.C20.wb_never_deadlocks", "Panacea.C20.source_paths_well_bracketed",
                 "Panacea.C20.source_methods", "Panacea.C20.keystore_never_deadlocks",
                 "Panacea.C20.listing_stable_without_fast_index", "Panacea.C20.listing_at_latest_sees_next_height"],
    streams=[dict(name="kslock", quick=1, thorough=1, thorough_seeds=1), dict(name="conc", quick=5, thorough=40, thorough_seeds=2)],
    trusted=["hand-written Lean model of Go's writer-preferring sync.RWMutex and of the lock operations of KeyStore.Save/Load/LoadByAddress (Panacea/Model/Keystore.lean); the lock programs are the regenerated table Generated.lockPaths (translator /verif/extract: mutex operations on every control path of every exported KeyStore method, intra-type calls expanded), over which source_paths_well_bracketed is re-proved on every run; the kslock stream runs every error/success path of each method followed by a Save and a Load under a watchdog, then 6 loaders + 6 savers, on the real code",
             "query snapshot isolation is a theorem of the App model only (Properties/C10); the real baseapp behaviour and Go data-race freedom cannot be exhibited by a model (partial)"],
    assumptions=["partial: data races in Go memory and baseapp's query snapshots are outside any executable model here"],
)

PROPS["C09"] = dict(
    module="Panacea.Properties.C09",
    obligations=["Panacea.C09.replicas_agree", "Panacea.C09.no_nondeterminism_but_genesis_maps",
                 "Panacea.C09.no_clock_random_concurrency_float_env", "Panacea.C09.genesis_import_order_independent",
                 "Panacea.C08.import_get", "Panacea.C08.rebuild_sorted"],
    streams=[dict(name="determinism", quick=6, thorough=120, thorough_seeds=3)],
    trusted=["translator /verif/extract: the table Generated.nondet of every use of wall clock, randomness, goroutines, channels, select, floats, environment reads and map ranges in the non-client custom packages, regenerated from the source on every run",
             "determinism stream (support, not proof): twin real applications with different GOMAXPROCS and CheckTx/Simulate/query noise over the same blocks, app hashes and full DeliverTx results compared; repeated import of an AOL genesis with two spellings of one key",
             "the model cannot exhibit wall clock, map iteration order, scheduler or hardware; IAVL/app-hash computation is SDK code outside it"],
    assumptions=["partial: replica agreement of the real application is supported by the twin runs, not proved",
                 "genesis entries have distinct decoded keys (enforced by GenesisState.Validate after fix 8c4f29e9, F12)"],
)
PROPS["C10"] = dict(
    module="Panacea.Properties.C10",
    obligations=["Panacea.C10.crash_discards_working", "Panacea.C10.restart_resumes_committed",
                 "Panacea.C10.crash_then_redeliver_eq_uninterrupted", "Panacea.C10.query_reads_committed_snapshot",
                 "Panacea.C10.upgrade_handlers_touch_only_block_state"],
    streams=[dict(name="restart", quick=6, thorough=120, thorough_seeds=3)],
    trusted=["node model Panacea/Model/App.lean (committed states per height + a working copy); that the real application has no state outside the mounted stores is the tie Ties/C10 (keeper structs, package variables, mounted stores regenerated from the source)",
             "restart stream (support): the real application re-opened on the same database after Commit / BeginBlock / any transaction prefix / EndBlock, compared with an uninterrupted twin (height, app hash, dumps, all later blocks)",
             "durability of IAVL and the database, LoadLatestVersion: outside any model here (MemDB in the stream)"],
    assumptions=["partial: see trusted base"],
)
PROPS["C19"] = dict(
    module="Panacea.Properties.C19",
    obligations=["Panacea.C19.fold_descriptors_eq_mounted", "Panacea.C19.every_mounted_store_accounted",
                 "Panacea.C19.no_mounted_store_deleted", "Panacea.C19.added_stores_are_mounted", "Panacea.C19.no_double_add",
                 "Panacea.C19.last_upgrade_is_v2_2_1", "Panacea.C19.custom_modules_not_migrated",
                 "Panacea.C19.upgrade_handlers_touch_only_block_state"],
    streams=[dict(name="upgrade", quick=8, thorough=100, thorough_seeds=3)],
    trusted=["translator /verif/extract: Generated.upgrades (app.Upgrades with each descriptor's name, Added, Deleted), Generated.mountedStores (arguments of sdk.NewKVStoreKeys), Generated.consensusVersions, regenerated from the source on every run; the theorems are about these regenerated tables",
             "recorded constant `baseline` (stores of the release before v2.0.5)",
             "upgrade stream (support for the dynamic half): the v2.2.1 plan crossing its height on a populated real application, custom dumps before/after, module version map, done height, re-opening the database before/at/after the height"],
    assumptions=["partial: x/upgrade machinery, store loader and restart behaviour are exercised, not proved"],
)


# ---- regenerated model (Generated/Code.lean, translated from /repo on every run) and its refinement theorems ----
# Each entry: Lean modules to build and theorems to audit, in addition to the property's own.
_RC = "Panacea.Refine.CompKey"
_RA = "Panacea.Refine.Aol"
_RT = "Panacea.Refine.AolTypes"
R_COMPKEY = [f"{_RC}.encode_refines", f"{_RC}.decode_refines"]
R_AOL = [f"{_RA}.createTopic_refines", f"{_RA}.addWriter_refines", f"{_RA}.deleteWriter_refines",
         f"{_RA}.addRecord_refines", f"{_RA}.genStep_abs", f"{_RA}.genRun_abs"]
R_VB = [f"{_RT}.createTopic_validateBasic_refines", f"{_RT}.addWriter_validateBasic_refines",
        f"{_RT}.deleteWriter_validateBasic_refines", f"{_RT}.addRecord_validateBasic_refines"]
R_SIGNERS = [f"{_RT}.createTopic_getSigners_refines", f"{_RT}.addWriter_getSigners_refines",
             f"{_RT}.deleteWriter_getSigners_refines", f"{_RT}.addRecord_getSigners_refines"]
_RD = "Panacea.Refine.DidTypes"
R_DIDV = [f"{_RD}.validateDID_refines", f"{_RD}.validateVMID_refines", f"{_RD}.vmValid_refines", f"{_RD}.relValid_refines",
          f"{_RD}.validRels_refines", f"{_RD}.validateContexts_refines", f"{_RD}.docValid_refines",
          f"{_RD}.create_validateBasic_refines", f"{_RD}.update_validateBasic_refines", f"{_RD}.deactivate_validateBasic_refines"]
_RK = "Panacea.Refine.DidKeeper"
R_DIDK = [f"{_RK}.vmFrom_run", f"{_RK}.findSome_vmFrom", f"{_RK}.verifyOwnership_refines", f"{_RK}.createDID_refines",
          f"{_RK}.updateDID_refines", f"{_RK}.deactivateDID_refines"]
_RB = "Panacea.Refine.Burn"
R_BURN = [f"{_RB}.burnCoins_refines", f"{_RB}.burnCoins_bad_address"]
_RP = "Panacea.Refine.Pnft"
R_PNFTV = [f"{_RP}.createDenom_vb", f"{_RP}.updateDenom_vb", f"{_RP}.deleteDenom_vb", f"{_RP}.transferDenom_vb",
           f"{_RP}.mint_vb", f"{_RP}.transfer_vb", f"{_RP}.burn_vb"]
R_PNFTH = [f"{_RP}.createDenom_refines", f"{_RP}.updateDenom_refines", f"{_RP}.deleteDenom_refines",
           f"{_RP}.transferDenom_refines", f"{_RP}.mint_refines", f"{_RP}.transfer_refines", f"{_RP}.burn_refines",
           f"{_RP}.goStep_abs", f"{_RP}.goRun_abs"]
_RPP = "Panacea.Refine.PnftProps"
R_PNFTP06 = [f"{_RP}.translated_denom_ops_require_current_owner", f"{_RP}.translated_token_ops_require_current_owner"]
R_PNFTP12 = [f"{_RP}.translated_history_invariants", f"{_RP}.getPNFTsByDenomId_refines",
             f"{_RP}.getPNFTsByDenomIdAndOwner_refines", f"{_RP}.getPNFTsByDenomIdAndOwner_bad", f"{_RP}.getAllDenoms_run",
             f"{_RP}.denomsByOwner_refines", f"{_RP}.pnftQuery_refines"]
_RPQ = "Panacea.Refine.PnftQuery"
_RAQ = "Panacea.Refine.AolQuery"
R_AOLQ = [f"{_RA}.topicQuery_refines", f"{_RA}.writerQuery_refines", f"{_RA}.recordQuery_refines", f"{_RA}.itemQueries_nil"]
_RPG = "Panacea.Refine.PnftGenesis"
R_PNFTG = [f"{_RP}.exportGenesis_run", f"{_RP}.initGenesis_run", f"{_RP}.importPNFT_run"]
_RCS = "Panacea.Refine.CompKeyString"
_RS = "Panacea.Refine.CompKeyString"
R_CKS = [f"{_RS}.encodeToString_run", f"{_RS}.decodeFromString_run",
         f"{_RS}.owner_strings", f"{_RS}.owner_fromStrings_some", f"{_RS}.owner_fromStrings_none",
         f"{_RS}.topic_strings", f"{_RS}.topic_fromStrings_some", f"{_RS}.topic_fromStrings_none",
         f"{_RS}.writer_strings", f"{_RS}.writer_fromStrings_some", f"{_RS}.writer_fromStrings_none",
         f"{_RS}.record_strings", f"{_RS}.record_fromStrings_some", f"{_RS}.record_fromStrings_none",
         f"{_RS}.roundtrip_owner", f"{_RS}.roundtrip_topic", f"{_RS}.roundtrip_writer", f"{_RS}.roundtrip_record"]
_RAG = "Panacea.Refine.AolGenesis"
R_AOLG = [f"{_RAG}.owner_step", f"{_RAG}.topic_step", f"{_RAG}.writer_step", f"{_RAG}.record_step", f"{_RAG}.initGenesis_run",
          f"{_RAG}.fold_table", f"{_RAG}.fold_table_panic", f"{_RAG}.initGenesis_refines", f"{_RAG}.initGenesis_panics",
          f"{_RAG}.initGenesis_of_export"]
_RAE = "Panacea.Refine.AolExport"
R_AOLE = [f"{_RAE}.owner_fromBytes", f"{_RAE}.topic_fromBytes", f"{_RAE}.writer_fromBytes", f"{_RAE}.record_fromBytes",
          f"{_RAE}.mustDecode_ok", f"{_RAE}.getAllOwners_run", f"{_RAE}.getAllTopics_run", f"{_RAE}.getAllWriters_run",
          f"{_RAE}.getAllRecords_run", f"{_RAE}.export_loop", f"{_RAE}.exportGenesis_run", f"{_RAE}.strs_nodup",
          f"{_RAE}.exportGenesis_ent", f"{_RAE}.exportTable_abs", f"{_RAE}.genesis_roundtrip"]
_RAO = "Panacea.Refine.AolOrder"
R_AOLO = [f"{_RAG}.initGenesis_order_independent", "Panacea.C09.importTable_perm", "Panacea.C09.aolImport_perm", "Panacea.Map.ext_sorted", "Panacea.Map.foldl_set_perm"]
_RAR = "Panacea.Refine.AolReach"
R_AOLR = [f"{_RAE}.reachable_genesis_roundtrip", f"{_RAE}.expList_congr", f"{_RAE}.genesis_roundtrip_reexport", f"{_RAE}.reachable_genesis_roundtrip_reexport", "Panacea.Aol.keysInv_step", "Panacea.Aol.keysInv_run", "Panacea.Aol.be64_mod"]
_RDX = "Panacea.Refine.DidReexport"
R_DIDX = [f"{_RK}.imported_store", f"{_RK}.exportEntries_imported", f"{_RK}.genesis_roundtrip_reexport", f"{_RK}.reachable_genesis_roundtrip_reexport"]
_RDR = "Panacea.Refine.DidReach"
R_DIDR = [f"{_RK}.dStep_wfd", f"{_RK}.dRun_wfd", f"{_RK}.reachable_genesis_roundtrip"]
_RDG = "Panacea.Refine.DidGenesis"
R_DIDG = [f"{_RK}.initGenesis_run", f"{_RK}.initGenesis_abs", f"{_RK}.initGenesis_empty", f"{_RK}.listDIDs_run",
          f"{_RK}.exportGenesis_run", f"{_RK}.genesis_roundtrip", f"{_RK}.initGenesis_order_independent"]
REFINE = {
    "C18": ([_RC, _RCS, _RAG, _RAE], R_COMPKEY + R_CKS + R_AOLG[:5] + R_AOLE[:5] + R_AOLE[11:12]),
    "C01": ([_RA, _RAQ], R_COMPKEY + R_AOL + R_AOLQ[2:3]),
    "C13": ([_RA, _RAQ, _RAE], R_COMPKEY + R_AOL + R_AOLQ + R_AOLE[5:9]),
    "C02": ([_RA, _RT], R_AOL + R_SIGNERS),
    "C15": ([_RT], R_SIGNERS),
    "C16": ([_RT, _RD, _RP, _RA], R_VB + R_DIDV + R_PNFTV + R_AOL[:4]),
    "C17": ([_RT, _RC, _RD, _RP, _RAQ, _RK], R_VB + R_SIGNERS + R_COMPKEY + R_DIDV[-3:] + R_PNFTV + R_AOLQ + R_DIDK),
    "C06": ([_RP, _RPP], R_PNFTV + R_PNFTH + R_PNFTP06),
    "C12": ([_RP, _RPP, _RPQ, _RPG], R_PNFTH + R_PNFTP12 + R_PNFTG),
    "C11": ([_RD, _RK], R_DIDV[-4:] + R_DIDK[3:5]),
    "C03": ([_RD, _RK, _RDG], R_DIDV[3:5] + R_DIDV[6:7] + R_DIDK + R_DIDG[-2:-1]),
    "C07": ([_RB], R_BURN),
    "C08": ([_RP, _RPQ, _RPG, _RDG, _RCS, _RAG, _RAE, _RAR, _RDR, _RDX], R_PNFTG + [f"{_RP}.getAllDenoms_run"] + R_DIDG + R_CKS[-4:] + R_AOLG + R_AOLE + R_AOLR + R_DIDR + R_DIDX),
    "C09": ([_RDG, _RAG, _RAO], R_DIDG[:3] + R_DIDG[-1:] + R_AOLG[4:5] + R_AOLG[7:9] + R_AOLO),
    "C04": ([_RK, _RDG], R_DIDK[2:] + R_DIDG[-2:-1]),
    "C05": ([_RK, _RDG, _RDR], R_DIDK[3:] + R_DIDG[-2:-1] + R_DIDR),
}
REFINE_TRUSTED = [
    "translator /verif/extract/code.go (Go → Lean `do`-blocks, statement by statement; anything it does not understand becomes `Go.unsupported`, which no refinement proof survives) and the meaning of its primitives lean/Panacea/Go/{Prelude,Lib}.lean (slices as lists with bounds checks that panic, `int` as unbounded Int, uint64 wrap-around, pointers as Option with panicking dereference, KV store as a sorted association list, bech32, the signature scheme and the protobuf codec as parameters — the codec with the two laws of LawfulProto and, for x/did, three facts about the encoding of documents (a length-prefixed value is never empty; the zero document encodes to the empty string; DIDDocument{Id: d} encodes to the bytes the model writes out), repeated message fields without nil elements (what protobuf decoding produces), decoded addresses never empty); for x/pnft the SDK's x/nft keeper is the hand-written lean/Panacea/Go/Nft.lean (five key spaces, SaveClass/UpdateClass/Mint/Burn/Transfer as in v0.47.12), `AccAddress(nil).String() = \"\"` is the hypothesis EncNil and the handler's block time is the model's `now`",
]
