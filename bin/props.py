"""Per-property configuration of bin/check: Lean module, obligations audited with #print axioms,
correspondence streams and budgets, trusted base."""

COMMON_TRUSTED = [
    "Lean 4.33.0 kernel (thorough tier re-checks the property module with leanchecker)",
    "allowed axioms only: propext, Classical.choice, Quot.sound; no sorry/admit/own axiom/native_decide/bv_decide (grepped and #print axioms on every run)",
    "correspondence harness /verif/harness (Go, built against /repo's working tree with -tags verif) and its canonicalisation",
    "line-protocol driver lean/Main.lean + Panacea/Driver/* (parsing of op lines, not covered by theorems)",
]

PROPS = {}

PROPS["C18"] = dict(
    module="Panacea.Properties.C18",
    obligations=[
        "Panacea.C18.decode_encode", "Panacea.C18.encode_decode", "Panacea.C18.encode_injective",
        "Panacea.C18.prefix_exact", "Panacea.C18.partial_prefix_exact", "Panacea.C18.encode_none_iff_long",
        "Panacea.C18.encode_length_exact", "Panacea.C18.decodeTyped_canonical", "Panacea.C18.decodeTyped_total",
        "Panacea.C18.string_roundtrip_admitted",
    ],
    streams=[dict(name="compkey", quick=3000, thorough=60000, thorough_seeds=3)],
    trusted=[
        "hand-written Lean model Panacea/Model/CompKey.lean of types/compkey/compkey.go and x/aol/types/keys.go, tied by the compkey stream",
        "bech32 is a parameter (AddrCodec) with three stated laws; the real bech32 runs on the Go side and is supplied to the driver as a finite table",
    ],
    assumptions=["AddrCodec.Lawful for the string-form theorem (dec∘enc = id on 1..255-byte addresses, no '/' in address text)"],
    note="all theorems hold for any number of components of any size; typed-key theorems are about the code after fix e1943c05 (offset component must be 8 bytes)",
)
