import Panacea.Model.Bytes
import Panacea.Model.Outcome
import Panacea.Model.CompKey
