import Panacea.Driver.CompKey
import Panacea.Driver.Aol
import Panacea.Driver.Did
import Panacea.Driver.Validate
import Panacea.Driver.Pnft
import Panacea.Driver.Tx
import Panacea.Driver.Bank
import Panacea.Driver.Keystore
import Panacea.Model.SignBytes
/-! Model driver: one operation per input line, one answer per output line. -/
open Panacea Panacea.Driver

structure DState where
  addrs : AddrTable := {}
  aol : AolD := {}
  sigs : SigTable := {}
  did : DidD := {}
  pnft : PnftD := {}
  tx : TxD := {}
  bank : BankD := {}

def stepLine (st : DState) (line : String) : DState × String :=
  let toks := (line.splitOn " ").filter (· ≠ "")
  match toks with
  | ["addr", text, v] =>
    match Bytes.ofHex text with
    | some t =>
      let v' := if v = "invalid" then none else Bytes.ofHex v
      ({ st with addrs := st.addrs.add t v' }, "-")
    | none => (st, "bad-op")
  | ["sig", sg, pk, m] =>
    match Bytes.ofHex sg, Bytes.ofHex pk, Bytes.ofHex m with
    | some a, some b, some c => ({ st with sigs := { entries := (a, b, c) :: st.sigs.entries } }, "-")
    | _, _, _ => (st, "bad-op")
  | ["mon.c01.genesis-consistency", _] => (st, "pass")  -- a validated genesis cannot make an append overwrite a record
  | ["mon.c13.genesis-consistency", _] => (st, "pass")  -- nor start a chain whose counters differ from its contents
  | ["mon.c08.export-at-sequence-end"] => (st, "pass")  -- whatever state accepted operations reach, its export validates
  | ["mon.c18.genesis-key-strings"] => (st, "pass")  -- roundtrip_owner/_topic/_writer/_record: distinct admitted keys have distinct strings that decode back
  | ["mon.c08.app-export"] => (st, "pass")  -- the application's export entry point (at height, zero-height) succeeds and carries the modules' export
  | ["mon.c08.utf8"] => (st, "pass")      -- what C08 demands; the implementation fails it (known finding F15)
  | ["genesis.roundtrip"] =>
    -- identity on the modelled state (Properties/C08), up to the representation of "no tokens": a class
    -- re-created by the import has no total-supply entry, where burning the last token leaves an entry `0`
    ({ st with pnft := { st.pnft with st := { st.pnft.st with supply := st.pnft.st.supply.filter (·.2 ≠ 0) } } }, "ok")
  | "sb.legacy" :: "aol" :: rest =>       -- exact legacy sign bytes of an AOL message (Properties/C14)
    match aolParseMsg rest with
    | some m => (st, "ok " ++ (SignBytes.aolRender m).toHex)
    | none => (st, "bad-op")
  | ["mon.c12.genesis-nul"] => (st, "pass")       -- identifiers with the x/nft key delimiter never get into the state: C12
  | ["mon.c05.genesis-tombstone-with-residue"] => (st, "pass")  -- a tombstone (no id, sequence past the initial one) is one whatever else the entry carries
  | ["mon.c04.other-key-types"] => (st, "pass")  -- whatever key type proves: an accepted proof is consumed (seq_advances, update_replay_rejected)
  | ["mon.c05.tombstone-survives-upgrade"] => (st, "pass")  -- C19.custom_modules_not_migrated, C10.upgrade_handlers_touch_only_block_state: an upgrade leaves the registry alone
  | ["mon.c05.genesis-seq-wrap"] => (st, "pass")  -- a deactivated DID is never creatable again: C05
  | ["mon.c05.seq-exhaustion", _] => (st, "pass")  -- the same at the end of the sequence space reached by updates
  | ["mon.c17.endblock-not-halted"] => (st, "pass")  -- C17: crafted transactions cannot make the end-blocker panic
  | ["mon.c18.long-address", _] => (st, "pass")  -- string form round-trips for every admitted address length (C18)
  | ["mon.c13.offset-walk", _] => (st, "pass")  -- a walk that changes its page size still delivers every item (F25: the SDK's offset + limit wraps)
  | ["mon.c07.send-disabled", _] => (st, "pass")  -- the bank's send switch guards messages, not the sink: what arrives is burned
  | ["mon.c07.many-denominations"] => (st, "pass")  -- burn_endblock_spec quantifies over every balance table: any number of denominations
  | ["mon.c07.whole-supply"] => (st, "pass")  -- burn_endblock_spec has no exception for "all that is left of a denomination"
  | ["mon.c07.invariant-check-period"] => (st, "pass")  -- invariant checks (genesis, inv-check-period) never halt on coins waiting to be burned
  | ["mon.c07.module-account-recipient"] => (st, "pass")  -- the transit module account cannot be squatted: the end-blocker never halts
  | ["mon.c07.endblock-movers"] => (st, "pass")   -- whatever reaches the burn address while the block ends is burned in that block
  | ["mon.c15.fee-denoms"] => (st, "pass")   -- the whole declared fee moves, in every denomination: what C15 demands
  | ["mon.c16.stored-within-limits"] => (st, "pass")  -- the handlers store what was validated (addWriter_refines …): nothing outside the limits
  | ["mon.c14.signature-transplant", _] => (st, "pass")  -- a signature made for one message does not validate a transaction carrying another
  | "mon.c14.pair" :: _ => (st, "pass")
  | "mon.c14.pair.utf8" :: _ => (st, "pass")
  | "mon.c14.pair.admissible" :: _ => (st, "pass")
  | "mon.c03.utf8" :: _ => (st, "pass")
  | ["mon.c11.genesis-with-nonexistent-entry"] => (st, "pass")   -- initGenesis_abs: every entry is written under its own key
  | ["mon.c11.genesis-key-spelling", _] => (st, "pass")   -- nor under a spelling variant of the identifier its document describes
  | "mon.c11.genesis-foreign-document" :: _ => (st, "pass")   -- the registry never holds a document about another DID   -- a proof made over other content is rejected: what C03 demands   -- two different messages never share sign bytes: what C14 demands
  | ["reset"] => ({ st with aol := {}, did := {}, pnft := {}, tx := {} }, "-")
  | ["now", n] =>
    match n.toInt? with
    | some t => ({ st with aol := { st.aol with now := t }, pnft := { st.pnft with now := t }, tx := { st.tx with now := t } }, "-")
    | none => (st, "bad-op")
  | tok :: _ =>
    if tok.startsWith "ck." then
      (st, (compkeyStep st.addrs toks).getD "bad-op")
    else if tok = "reset" || tok = "now" || tok.startsWith "aol." || tok.startsWith "mon.c01." then
      match aolStep st.addrs st.aol toks with
      | some (d, ans) => ({ st with aol := d }, ans)
      | none => (st, "bad-op")
    else if tok = "ks.load" then (st, (ksStep toks).getD "bad-op")
    else if tok = "mon.c17" || tok = "mon.c17.f14" || tok = "mon.c17.concurrent-validation" || tok = "mon.c17.did-handlers-total" || tok.startsWith "mon.c20." ||
        tok = "mon.c09.block" || tok = "mon.c09.parallelism" || tok = "mon.c09.read-history" || tok = "mon.c09.restart-every-block" || tok = "mon.c09.node-config" || tok = "mon.c09.upgrade-replicas" || tok = "mon.c09.genesis-spellings" || tok = "mon.c09.genesis-order" || tok = "mon.c10.block" || tok = "mon.c10.restart-after-handler" || tok = "mon.c10.stale-upgrade-info" || tok = "mon.c10.restart-then-verify-invariant" || tok = "mon.c10.rolled-back-handler-effects" || tok = "mon.c10.restart-inside-upgrade-block" || tok = "mon.c19.start-at-upgrade-height" || tok = "mon.c10.restart-after-param-change" || tok = "mon.c19.upgrade" || tok = "mon.c19.database-of-the-upgrade-path" || tok = "mon.c19.genesis-without-upgrade-section" then
      -- runtime monitors: the model's verdict is what the property demands (Properties/C09, C10, C19, C20)
      (st, "pass")
    else if tok.startsWith "bank." || tok = "endblock" || tok = "mon.c07.inv" then
      match bankStep st.bank toks with
      | some (d, ans) => ({ st with bank := d }, ans)
      | none => (st, "bad-op")
    else if tok = "tx" || tok.startsWith "tx." || tok = "grant" then
      match txStep st.addrs st.sigs st.tx toks with
      | some (d, ans) => ({ st with tx := d }, ans)
      | none => (st, "bad-op")
    else if tok.startsWith "pnft." || tok = "mon.c12" then
      match pnftStep st.addrs st.pnft toks with
      | some (d, ans) => ({ st with pnft := d }, ans)
      | none => (st, "bad-op")
    else if tok.startsWith "vb." || tok.startsWith "mon.c18." then
      (st, (validateStep st.addrs toks).getD "bad-op")
    else if tok.startsWith "did." || tok.startsWith "mon.c11." then
      match didStep st.addrs st.sigs st.did toks with
      | some (d, ans) => ({ st with did := d }, ans)
      | none => (st, "bad-op")
    else (st, "bad-op")
  | [] => (st, "bad-op")

partial def loop (h : IO.FS.Stream) (out : IO.FS.Stream) (st : DState) : IO Unit := do
  let line ← h.getLine
  if line.isEmpty then return ()
  let l := line.trimAscii.toString
  if l.isEmpty then loop h out st else
  let (st', ans) := stepLine st l
  out.putStrLn ans
  loop h out st'

def main : IO Unit := do
  let stdin ← IO.getStdin
  let stdout ← IO.getStdout
  loop stdin stdout {}
