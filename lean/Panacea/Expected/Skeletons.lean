/-! EXPECTED values: a reviewed snapshot of what /verif/extract produced (bin/accept_expected).  One definition per function of the custom packages:
the branch conditions, calls, literals and returns of its body in source order (message texts dropped). -/
namespace Panacea.Expected.Skel

/-- app.App.setAnteHandler -/
def app_App_setAnteHandler : List String := ["call app.SetAnteHandler", "call sdktypes.ChainAnteDecorators", "call ante.NewSetUpContextDecorator", "call ante.NewExtensionOptionsDecorator", "call ante.NewValidateBasicDecorator", "call ante.NewTxTimeoutHeightDecorator", "call ante.NewValidateMemoDecorator", "call ante.NewConsumeGasForTxSizeDecorator", "call ante.NewDeductFeeDecorator", "call ante.NewSetPubKeyDecorator", "call ante.NewValidateSigCountDecorator", "call ante.NewSigGasConsumeDecorator", "call ante.NewSigVerificationDecorator", "call txConfig.SignModeHandler", "call ante.NewIncrementSequenceDecorator", "call ibcante.NewRedundantRelayDecorator"]

/-- types/compkey.Decode -/
def types_compkey_Decode : List String := ["assign values := make([][]byte, 0)", "call make", "lit 0", "assign idx := 0", "lit 0", "for idx < len(bz)", "call len", "assign valueSize := int(bz[idx])", "call int", "assign idx += 1", "lit 1", "assign exclusiveEnd := idx + valueSize", "op +", "if exclusiveEnd > len(bz)", "call len", "return _", "call fmt.Errorf", "assign value := make([]byte, valueSize)", "call make", "assign idx += copy(value, bz[idx:exclusiveEnd])", "call copy", "assign values = append(values, value)", "call append", "return _", "call out.FromByteSlices"]

/-- types/compkey.DecodeFromString -/
def types_compkey_DecodeFromString : List String := ["assign values := strings.Split(encoded, separator)", "call strings.Split", "return _", "call out.FromStrings"]

/-- types/compkey.Encode -/
def types_compkey_Encode : List String := ["return _", "call encode", "call key.ByteSlices"]

/-- types/compkey.EncodeToString -/
def types_compkey_EncodeToString : List String := ["range key.Strings()", "call key.Strings", "if i > 0", "lit 0", "call builder.WriteString", "call builder.WriteString", "return _", "call builder.String"]

/-- types/compkey.MustDecode -/
def types_compkey_MustDecode : List String := ["if err != nil", "assign err := Decode(bz, out)", "call Decode", "call panic"]

/-- types/compkey.MustDecodeFromString -/
def types_compkey_MustDecodeFromString : List String := ["if err != nil", "assign err := DecodeFromString(encoded, separator, out)", "call DecodeFromString", "call panic"]

/-- types/compkey.MustEncode -/
def types_compkey_MustEncode : List String := ["assign bz,err := Encode(key)", "call Encode", "if err != nil", "call panic", "return bz"]

/-- types/compkey.MustPartialEncode -/
def types_compkey_MustPartialEncode : List String := ["assign bz,err := PartialEncode(key, numValues)", "call PartialEncode", "if err != nil", "call panic", "return bz"]

/-- types/compkey.PartialEncode -/
def types_compkey_PartialEncode : List String := ["assign values := key.ByteSlices()", "call key.ByteSlices", "if len(values) < numValues", "call len", "return nil,_", "call fmt.Errorf", "return _", "call encode"]

/-- types/compkey.encode -/
def types_compkey_encode : List String := ["assign size := 0", "lit 0", "range values", "assign size += sizeUint8 + len(value)", "op +", "call len", "assign bz := make([]byte, size)", "call make", "assign idx := 0", "lit 0", "range values", "if len(value) > maxUint8", "call len", "return nil,_", "call fmt.Errorf", "assign bz[idx] = uint8(len(value))", "call uint8", "call len", "assign idx += 1", "lit 1", "assign idx += copy(bz[idx:], value)", "call copy", "return bz,nil"]

/-- x/aol.AppModule.BeginBlock -/
def x_aol_AppModule_BeginBlock : List String := []

/-- x/aol.AppModule.ConsensusVersion -/
def x_aol_AppModule_ConsensusVersion : List String := ["return 1", "lit 1"]

/-- x/aol.AppModule.EndBlock -/
def x_aol_AppModule_EndBlock : List String := ["return _"]

/-- x/aol.AppModule.ExportGenesis -/
def x_aol_AppModule_ExportGenesis : List String := ["assign genState := ExportGenesis(ctx, am.keeper)", "call ExportGenesis", "return _", "call cdc.MustMarshalJSON"]

/-- x/aol.AppModule.InitGenesis -/
def x_aol_AppModule_InitGenesis : List String := ["call cdc.MustUnmarshalJSON", "call InitGenesis", "return _"]

/-- x/aol.AppModule.Name -/
def x_aol_AppModule_Name : List String := ["return _", "call _.Name"]

/-- x/aol.AppModule.QuerierRoute -/
def x_aol_AppModule_QuerierRoute : List String := ["return _"]

/-- x/aol.AppModule.RegisterInvariants -/
def x_aol_AppModule_RegisterInvariants : List String := []

/-- x/aol.AppModule.RegisterServices -/
def x_aol_AppModule_RegisterServices : List String := ["call types.RegisterQueryServer", "call cfg.QueryServer", "call types.RegisterMsgServer", "call cfg.MsgServer", "call keeper.NewMsgServerImpl"]

/-- x/aol.AppModuleBasic.DefaultGenesis -/
def x_aol_AppModuleBasic_DefaultGenesis : List String := ["return _", "call cdc.MustMarshalJSON", "call types.DefaultGenesis"]

/-- x/aol.AppModuleBasic.GetQueryCmd -/
def x_aol_AppModuleBasic_GetQueryCmd : List String := ["return _", "call cli.GetQueryCmd"]

/-- x/aol.AppModuleBasic.GetTxCmd -/
def x_aol_AppModuleBasic_GetTxCmd : List String := ["return _", "call cli.GetTxCmd"]

/-- x/aol.AppModuleBasic.Name -/
def x_aol_AppModuleBasic_Name : List String := ["return _"]

/-- x/aol.AppModuleBasic.RegisterCodec -/
def x_aol_AppModuleBasic_RegisterCodec : List String := ["call types.RegisterCodec"]

/-- x/aol.AppModuleBasic.RegisterGRPCGatewayRoutes -/
def x_aol_AppModuleBasic_RegisterGRPCGatewayRoutes : List String := ["if err != nil", "assign err := _", "call types.RegisterQueryHandlerClient", "call context.Background", "call types.NewQueryClient", "call panic"]

/-- x/aol.AppModuleBasic.RegisterInterfaces -/
def x_aol_AppModuleBasic_RegisterInterfaces : List String := ["call types.RegisterInterfaces"]

/-- x/aol.AppModuleBasic.RegisterLegacyAminoCodec -/
def x_aol_AppModuleBasic_RegisterLegacyAminoCodec : List String := ["call types.RegisterCodec"]

/-- x/aol.AppModuleBasic.ValidateGenesis -/
def x_aol_AppModuleBasic_ValidateGenesis : List String := ["if err != nil", "assign err := cdc.UnmarshalJSON(bz, &genState)", "call cdc.UnmarshalJSON", "return _", "call fmt.Errorf", "return _", "call genState.Validate"]

/-- x/aol.ExportGenesis -/
def x_aol_ExportGenesis : List String := ["assign genesis := types.DefaultGenesis()", "call types.DefaultGenesis", "assign ownerKeys,owners := k.GetAllOwners(ctx)", "call k.GetAllOwners", "range ownerKeys", "assign genesis.Owners[compkey.EncodeToString(&key, types.GenesisKeySeparator)] = &owners[i]", "call compkey.EncodeToString", "assign topicKeys,topics := k.GetAllTopics(ctx)", "call k.GetAllTopics", "range topicKeys", "assign genesis.Topics[compkey.EncodeToString(&key, types.GenesisKeySeparator)] = &topics[i]", "call compkey.EncodeToString", "assign writerKeys,writers := k.GetAllWriters(ctx)", "call k.GetAllWriters", "range writerKeys", "assign genesis.Writers[compkey.EncodeToString(&key, types.GenesisKeySeparator)] = &writers[i]", "call compkey.EncodeToString", "assign recordKeys,records := k.GetAllRecords(ctx)", "call k.GetAllRecords", "range recordKeys", "assign genesis.Records[compkey.EncodeToString(&key, types.GenesisKeySeparator)] = &records[i]", "call compkey.EncodeToString", "return genesis"]

/-- x/aol.InitGenesis -/
def x_aol_InitGenesis : List String := ["range genState.Owners", "call compkey.MustDecodeFromString", "call k.SetOwner", "range genState.Topics", "call compkey.MustDecodeFromString", "call k.SetTopic", "range genState.Writers", "call compkey.MustDecodeFromString", "call k.SetWriter", "range genState.Records", "call compkey.MustDecodeFromString", "call k.SetRecord"]

/-- x/aol.NewAppModule -/
def x_aol_NewAppModule : List String := ["return _", "kv AppModuleBasic=NewAppModuleBasic(cdc)", "call NewAppModuleBasic", "kv keeper=keeper"]

/-- x/aol.NewAppModuleBasic -/
def x_aol_NewAppModuleBasic : List String := ["return _", "kv cdc=cdc"]

/-- x/aol/keeper.Keeper.GetAllOwners -/
def x_aol_keeper_Keeper_GetAllOwners : List String := ["assign store := prefix.NewStore(ctx.KVStore(k.storeKey), types.OwnerKeyPrefix)", "call prefix.NewStore", "call ctx.KVStore", "assign iterator := _", "call sdk.KVStorePrefixIterator", "defer", "call iterator.Close", "assign keys := make([]types.OwnerCompositeKey, 0)", "call make", "lit 0", "assign values := make([]types.Owner, 0)", "call make", "lit 0", "for iterator.Valid()", "call iterator.Valid", "call iterator.Next", "call compkey.MustDecode", "call iterator.Key", "assign keys = append(keys, key)", "call append", "call _.MustUnmarshal", "call iterator.Value", "assign values = append(values, value)", "call append", "return keys,values"]

/-- x/aol/keeper.Keeper.GetAllRecords -/
def x_aol_keeper_Keeper_GetAllRecords : List String := ["assign store := prefix.NewStore(ctx.KVStore(k.storeKey), types.RecordKeyPrefix)", "call prefix.NewStore", "call ctx.KVStore", "assign iterator := _", "call sdk.KVStorePrefixIterator", "defer", "call iterator.Close", "assign keys := make([]types.RecordCompositeKey, 0)", "call make", "lit 0", "assign values := make([]types.Record, 0)", "call make", "lit 0", "for iterator.Valid()", "call iterator.Valid", "call iterator.Next", "call compkey.MustDecode", "call iterator.Key", "assign keys = append(keys, key)", "call append", "call _.MustUnmarshal", "call iterator.Value", "assign values = append(values, value)", "call append", "return keys,values"]

/-- x/aol/keeper.Keeper.GetAllTopics -/
def x_aol_keeper_Keeper_GetAllTopics : List String := ["assign store := prefix.NewStore(ctx.KVStore(k.storeKey), types.TopicKeyPrefix)", "call prefix.NewStore", "call ctx.KVStore", "assign iterator := _", "call sdk.KVStorePrefixIterator", "defer", "call iterator.Close", "assign keys := make([]types.TopicCompositeKey, 0)", "call make", "lit 0", "assign values := make([]types.Topic, 0)", "call make", "lit 0", "for iterator.Valid()", "call iterator.Valid", "call iterator.Next", "call compkey.MustDecode", "call iterator.Key", "assign keys = append(keys, key)", "call append", "call _.MustUnmarshal", "call iterator.Value", "assign values = append(values, value)", "call append", "return keys,values"]

/-- x/aol/keeper.Keeper.GetAllWriters -/
def x_aol_keeper_Keeper_GetAllWriters : List String := ["assign store := prefix.NewStore(ctx.KVStore(k.storeKey), types.WriterKeyPrefix)", "call prefix.NewStore", "call ctx.KVStore", "assign iterator := _", "call sdk.KVStorePrefixIterator", "defer", "call iterator.Close", "assign keys := make([]types.WriterCompositeKey, 0)", "call make", "lit 0", "assign values := make([]types.Writer, 0)", "call make", "lit 0", "for iterator.Valid()", "call iterator.Valid", "call iterator.Next", "call compkey.MustDecode", "call iterator.Key", "assign keys = append(keys, key)", "call append", "call _.MustUnmarshal", "call iterator.Value", "assign values = append(values, value)", "call append", "return keys,values"]

/-- x/aol/keeper.Keeper.GetOwner -/
def x_aol_keeper_Keeper_GetOwner : List String := ["assign store := prefix.NewStore(ctx.KVStore(k.storeKey), types.OwnerKeyPrefix)", "call prefix.NewStore", "call ctx.KVStore", "call _.MustUnmarshal", "call store.Get", "call compkey.MustEncode", "return owner"]

/-- x/aol/keeper.Keeper.GetRecord -/
def x_aol_keeper_Keeper_GetRecord : List String := ["assign store := prefix.NewStore(ctx.KVStore(k.storeKey), types.RecordKeyPrefix)", "call prefix.NewStore", "call ctx.KVStore", "call _.MustUnmarshal", "call store.Get", "call compkey.MustEncode", "return record"]

/-- x/aol/keeper.Keeper.GetTopic -/
def x_aol_keeper_Keeper_GetTopic : List String := ["assign store := prefix.NewStore(ctx.KVStore(k.storeKey), types.TopicKeyPrefix)", "call prefix.NewStore", "call ctx.KVStore", "call _.MustUnmarshal", "call store.Get", "call compkey.MustEncode", "return topic"]

/-- x/aol/keeper.Keeper.GetWriter -/
def x_aol_keeper_Keeper_GetWriter : List String := ["assign store := prefix.NewStore(ctx.KVStore(k.storeKey), types.WriterKeyPrefix)", "call prefix.NewStore", "call ctx.KVStore", "call _.MustUnmarshal", "call store.Get", "call compkey.MustEncode", "return writer"]

/-- x/aol/keeper.Keeper.HasOwner -/
def x_aol_keeper_Keeper_HasOwner : List String := ["assign store := prefix.NewStore(ctx.KVStore(k.storeKey), types.OwnerKeyPrefix)", "call prefix.NewStore", "call ctx.KVStore", "return _", "call store.Has", "call compkey.MustEncode"]

/-- x/aol/keeper.Keeper.HasRecord -/
def x_aol_keeper_Keeper_HasRecord : List String := ["assign store := prefix.NewStore(ctx.KVStore(k.storeKey), types.RecordKeyPrefix)", "call prefix.NewStore", "call ctx.KVStore", "return _", "call store.Has", "call compkey.MustEncode"]

/-- x/aol/keeper.Keeper.HasTopic -/
def x_aol_keeper_Keeper_HasTopic : List String := ["assign store := prefix.NewStore(ctx.KVStore(k.storeKey), types.TopicKeyPrefix)", "call prefix.NewStore", "call ctx.KVStore", "return _", "call store.Has", "call compkey.MustEncode"]

/-- x/aol/keeper.Keeper.HasWriter -/
def x_aol_keeper_Keeper_HasWriter : List String := ["assign store := prefix.NewStore(ctx.KVStore(k.storeKey), types.WriterKeyPrefix)", "call prefix.NewStore", "call ctx.KVStore", "return _", "call store.Has", "call compkey.MustEncode"]

/-- x/aol/keeper.Keeper.Logger -/
def x_aol_keeper_Keeper_Logger : List String := ["return _", "call _.With", "call ctx.Logger", "lit \"module\"", "call fmt.Sprintf", "lit \"x/%s\""]

/-- x/aol/keeper.Keeper.Record -/
def x_aol_keeper_Keeper_Record : List String := ["if req == nil", "return nil,_", "call status.Error", "assign ctx := sdk.UnwrapSDKContext(c)", "call sdk.UnwrapSDKContext", "assign ownerAddr,err := sdk.AccAddressFromBech32(req.OwnerAddress)", "call sdk.AccAddressFromBech32", "if err != nil", "return nil,_", "call status.Error", "assign recordKey := _", "kv OwnerAddress=ownerAddr", "kv TopicName=req.TopicName", "kv Offset=req.Offset", "if err != nil", "assign _,err := compkey.Encode(&recordKey)", "call compkey.Encode", "return nil,_", "call status.Error", "if !k.HasRecord(ctx, recordKey)", "call k.HasRecord", "return nil,_", "call status.Error", "assign record := k.GetRecord(ctx, recordKey)", "call k.GetRecord", "return _,nil", "kv Record=&record"]

/-- x/aol/keeper.Keeper.RemoveWriter -/
def x_aol_keeper_Keeper_RemoveWriter : List String := ["assign store := prefix.NewStore(ctx.KVStore(k.storeKey), types.WriterKeyPrefix)", "call prefix.NewStore", "call ctx.KVStore", "call store.Delete", "call compkey.MustEncode"]

/-- x/aol/keeper.Keeper.SetOwner -/
def x_aol_keeper_Keeper_SetOwner : List String := ["assign store := prefix.NewStore(ctx.KVStore(k.storeKey), types.OwnerKeyPrefix)", "call prefix.NewStore", "call ctx.KVStore", "assign b := k.cdc.MustMarshal(&owner)", "call _.MustMarshal", "call store.Set", "call compkey.MustEncode"]

/-- x/aol/keeper.Keeper.SetRecord -/
def x_aol_keeper_Keeper_SetRecord : List String := ["assign store := prefix.NewStore(ctx.KVStore(k.storeKey), types.RecordKeyPrefix)", "call prefix.NewStore", "call ctx.KVStore", "assign b := k.cdc.MustMarshal(&record)", "call _.MustMarshal", "call store.Set", "call compkey.MustEncode"]

/-- x/aol/keeper.Keeper.SetTopic -/
def x_aol_keeper_Keeper_SetTopic : List String := ["assign store := prefix.NewStore(ctx.KVStore(k.storeKey), types.TopicKeyPrefix)", "call prefix.NewStore", "call ctx.KVStore", "assign b := k.cdc.MustMarshal(&topic)", "call _.MustMarshal", "call store.Set", "call compkey.MustEncode"]

/-- x/aol/keeper.Keeper.SetWriter -/
def x_aol_keeper_Keeper_SetWriter : List String := ["assign store := prefix.NewStore(ctx.KVStore(k.storeKey), types.WriterKeyPrefix)", "call prefix.NewStore", "call ctx.KVStore", "assign b := k.cdc.MustMarshal(&writer)", "call _.MustMarshal", "call store.Set", "call compkey.MustEncode"]

/-- x/aol/keeper.Keeper.Topic -/
def x_aol_keeper_Keeper_Topic : List String := ["if req == nil", "return nil,_", "call status.Error", "assign ctx := sdk.UnwrapSDKContext(c)", "call sdk.UnwrapSDKContext", "assign ownerAddr,err := sdk.AccAddressFromBech32(req.OwnerAddress)", "call sdk.AccAddressFromBech32", "if err != nil", "return nil,_", "call status.Error", "assign topicKey := _", "kv OwnerAddress=ownerAddr", "kv TopicName=req.TopicName", "if err != nil", "assign _,err := compkey.Encode(&topicKey)", "call compkey.Encode", "return nil,_", "call status.Error", "if !k.HasTopic(ctx, topicKey)", "call k.HasTopic", "return nil,_", "call status.Error", "assign topic := k.GetTopic(ctx, topicKey)", "call k.GetTopic", "return _,nil", "kv Topic=&topic"]

/-- x/aol/keeper.Keeper.Topics -/
def x_aol_keeper_Keeper_Topics : List String := ["if req == nil", "return nil,_", "call status.Error", "assign ctx := sdk.UnwrapSDKContext(c)", "call sdk.UnwrapSDKContext", "assign ownerAddr,err := sdk.AccAddressFromBech32(req.OwnerAddress)", "call sdk.AccAddressFromBech32", "if err != nil", "return nil,_", "call status.Error", "assign compKeyPrefix,err := _", "call compkey.PartialEncode", "kv OwnerAddress=ownerAddr", "kv TopicName=\"\"", "lit \"\"", "lit 1", "if err != nil", "return nil,_", "call status.Errorf", "call err.Error", "assign store := ctx.KVStore(k.storeKey)", "call ctx.KVStore", "assign topicStore := prefix.NewStore(store, append(types.TopicKeyPrefix, compKeyPrefix...))", "call prefix.NewStore", "call append", "assign pageRes,err := _", "call query.Paginate", "if err != nil", "assign err := compkey.Decode(append(compKeyPrefix, compKeyLast...), &compKey)", "call compkey.Decode", "call append", "return err", "assign topicNames = append(topicNames, compKey.TopicName)", "call append", "return nil", "if err != nil", "return nil,_", "call status.Error", "call err.Error", "return _,nil", "kv TopicNames=topicNames", "kv Pagination=pageRes"]

/-- x/aol/keeper.Keeper.Writer -/
def x_aol_keeper_Keeper_Writer : List String := ["if req == nil", "return nil,_", "call status.Error", "assign ctx := sdk.UnwrapSDKContext(c)", "call sdk.UnwrapSDKContext", "assign ownerAddr,err := sdk.AccAddressFromBech32(req.OwnerAddress)", "call sdk.AccAddressFromBech32", "if err != nil", "return nil,_", "call status.Error", "assign writerAddr,err := sdk.AccAddressFromBech32(req.WriterAddress)", "call sdk.AccAddressFromBech32", "if err != nil", "return nil,_", "call status.Error", "assign writerKey := _", "kv OwnerAddress=ownerAddr", "kv TopicName=req.TopicName", "kv WriterAddress=writerAddr", "if err != nil", "assign _,err := compkey.Encode(&writerKey)", "call compkey.Encode", "return nil,_", "call status.Error", "if !k.HasWriter(ctx, writerKey)", "call k.HasWriter", "return nil,_", "call status.Error", "assign writer := k.GetWriter(ctx, writerKey)", "call k.GetWriter", "return _,nil", "kv Writer=&writer"]

/-- x/aol/keeper.Keeper.Writers -/
def x_aol_keeper_Keeper_Writers : List String := ["if req == nil", "return nil,_", "call status.Error", "assign ctx := sdk.UnwrapSDKContext(c)", "call sdk.UnwrapSDKContext", "assign ownerAddr,err := sdk.AccAddressFromBech32(req.OwnerAddress)", "call sdk.AccAddressFromBech32", "if err != nil", "return nil,_", "call status.Error", "assign compKeyPrefix,err := _", "call compkey.PartialEncode", "kv OwnerAddress=ownerAddr", "kv TopicName=req.TopicName", "kv WriterAddress=nil", "lit 2", "if err != nil", "return nil,_", "call status.Error", "assign store := ctx.KVStore(k.storeKey)", "call ctx.KVStore", "assign writerStore := prefix.NewStore(store, append(types.WriterKeyPrefix, compKeyPrefix...))", "call prefix.NewStore", "call append", "assign pageRes,err := _", "call query.Paginate", "if err != nil", "assign err := compkey.Decode(append(compKeyPrefix, compKeyLast...), &compKey)", "call compkey.Decode", "call append", "return err", "assign writerAddresses = append(writerAddresses, compKey.WriterAddress.String())", "call append", "call _.String", "return nil", "if err != nil", "return nil,_", "call status.Error", "call err.Error", "return _,nil", "kv WriterAddresses=writerAddresses", "kv Pagination=pageRes"]

/-- x/aol/keeper.NewKeeper -/
def x_aol_keeper_NewKeeper : List String := ["return _", "kv cdc=cdc", "kv storeKey=storeKey", "kv memKey=memKey"]

/-- x/aol/keeper.NewMsgServerImpl -/
def x_aol_keeper_NewMsgServerImpl : List String := ["return _", "kv Keeper=keeper"]

/-- x/aol/keeper.msgServer.AddRecord -/
def x_aol_keeper_msgServer_AddRecord : List String := ["assign ctx := sdk.UnwrapSDKContext(goCtx)", "call sdk.UnwrapSDKContext", "assign ownerAddr,err := sdk.AccAddressFromBech32(msg.OwnerAddress)", "call sdk.AccAddressFromBech32", "if err != nil", "return nil,_", "call errors.Wrapf", "assign writerAddr,err := sdk.AccAddressFromBech32(msg.WriterAddress)", "call sdk.AccAddressFromBech32", "if err != nil", "return nil,_", "call errors.Wrapf", "assign topicKey := _", "kv OwnerAddress=ownerAddr", "kv TopicName=msg.TopicName", "if !k.HasTopic(ctx, topicKey)", "call k.HasTopic", "return nil,_", "call errors.Wrapf", "assign writerKey := _", "kv OwnerAddress=ownerAddr", "kv TopicName=msg.TopicName", "kv WriterAddress=writerAddr", "if !k.HasWriter(ctx, writerKey)", "call k.HasWriter", "return nil,_", "call errors.Wrapf", "assign topic := k.GetTopic(ctx, topicKey)", "call k.GetTopic", "assign offset := topic.NextRecordOffset()", "call topic.NextRecordOffset", "call k.SetTopic", "call topic.IncreaseTotalRecords", "assign recordKey := _", "kv OwnerAddress=ownerAddr", "kv TopicName=msg.TopicName", "kv Offset=offset", "assign record := _", "kv Key=msg.Key", "kv Value=msg.Value", "kv NanoTimestamp=ctx.BlockTime().UnixNano()", "call _.UnixNano", "call ctx.BlockTime", "kv WriterAddress=msg.WriterAddress", "call k.SetRecord", "return _,nil", "kv OwnerAddress=msg.OwnerAddress", "kv TopicName=msg.TopicName", "kv Offset=offset"]

/-- x/aol/keeper.msgServer.AddWriter -/
def x_aol_keeper_msgServer_AddWriter : List String := ["assign ctx := sdk.UnwrapSDKContext(goCtx)", "call sdk.UnwrapSDKContext", "assign ownerAddr,err := sdk.AccAddressFromBech32(msg.OwnerAddress)", "call sdk.AccAddressFromBech32", "if err != nil", "return nil,_", "call errors.Wrapf", "assign writerAddr,err := sdk.AccAddressFromBech32(msg.WriterAddress)", "call sdk.AccAddressFromBech32", "if err != nil", "return nil,_", "call errors.Wrapf", "assign topicKey := _", "kv OwnerAddress=ownerAddr", "kv TopicName=msg.TopicName", "if !k.HasTopic(ctx, topicKey)", "call k.HasTopic", "return nil,_", "call errors.Wrapf", "assign writerKey := _", "kv OwnerAddress=ownerAddr", "kv TopicName=msg.TopicName", "kv WriterAddress=writerAddr", "if k.HasWriter(ctx, writerKey)", "call k.HasWriter", "return nil,_", "call errors.Wrapf", "assign topic := k.GetTopic(ctx, topicKey).IncreaseTotalWriters()", "call _.IncreaseTotalWriters", "call k.GetTopic", "call k.SetTopic", "assign writer := _", "kv Moniker=msg.Moniker", "kv Description=msg.Description", "kv NanoTimestamp=ctx.BlockTime().UnixNano()", "call _.UnixNano", "call ctx.BlockTime", "call k.SetWriter", "return _,nil"]

/-- x/aol/keeper.msgServer.CreateTopic -/
def x_aol_keeper_msgServer_CreateTopic : List String := ["assign ctx := sdk.UnwrapSDKContext(goCtx)", "call sdk.UnwrapSDKContext", "assign ownerAddr,err := sdk.AccAddressFromBech32(msg.OwnerAddress)", "call sdk.AccAddressFromBech32", "if err != nil", "return nil,_", "call errors.Wrapf", "assign topicKey := _", "kv OwnerAddress=ownerAddr", "kv TopicName=msg.TopicName", "if k.HasTopic(ctx, topicKey)", "call k.HasTopic", "return nil,_", "call errors.Wrapf", "assign ownerKey := _", "kv OwnerAddress=ownerAddr", "assign owner := k.GetOwner(ctx, ownerKey).IncreaseTotalTopics()", "call _.IncreaseTotalTopics", "call k.GetOwner", "call k.SetOwner", "assign topic := _", "kv Description=msg.Description", "call k.SetTopic", "return _,nil"]

/-- x/aol/keeper.msgServer.DeleteWriter -/
def x_aol_keeper_msgServer_DeleteWriter : List String := ["assign ctx := sdk.UnwrapSDKContext(goCtx)", "call sdk.UnwrapSDKContext", "assign ownerAddr,err := sdk.AccAddressFromBech32(msg.OwnerAddress)", "call sdk.AccAddressFromBech32", "if err != nil", "return nil,_", "call errors.Wrapf", "assign writerAddr,err := sdk.AccAddressFromBech32(msg.WriterAddress)", "call sdk.AccAddressFromBech32", "if err != nil", "return nil,_", "call errors.Wrapf", "assign topicKey := _", "kv OwnerAddress=ownerAddr", "kv TopicName=msg.TopicName", "assign writerKey := _", "kv OwnerAddress=ownerAddr", "kv TopicName=msg.TopicName", "kv WriterAddress=writerAddr", "if !k.HasWriter(ctx, writerKey)", "call k.HasWriter", "return nil,_", "call errors.Wrapf", "assign topic := k.GetTopic(ctx, topicKey).DecreaseTotalWriters()", "call _.DecreaseTotalWriters", "call k.GetTopic", "call k.SetTopic", "call k.RemoveWriter", "return _,nil"]

/-- x/aol/types.DefaultGenesis -/
def x_aol_types_DefaultGenesis : List String := ["return _", "kv Owners", "kv Topics", "kv Writers", "kv Records"]

/-- x/aol/types.GenesisState.Validate -/
def x_aol_types_GenesisState_Validate : List String := ["range gs.Owners", "if err != nil", "assign err := compkey.DecodeFromString(keyStr, GenesisKeySeparator, &key)", "call compkey.DecodeFromString", "return err", "if err != nil", "assign err := validateCanonicalKey(keyStr, &key)", "call validateCanonicalKey", "return err", "range gs.Topics", "if err != nil", "assign err := compkey.DecodeFromString(keyStr, GenesisKeySeparator, &key)", "call compkey.DecodeFromString", "return err", "if err != nil", "assign err := validateCanonicalKey(keyStr, &key)", "call validateCanonicalKey", "return err", "if err != nil", "assign err := topic.Validate()", "call topic.Validate", "return err", "range gs.Writers", "if err != nil", "assign err := compkey.DecodeFromString(keyStr, GenesisKeySeparator, &key)", "call compkey.DecodeFromString", "return err", "if err != nil", "assign err := validateCanonicalKey(keyStr, &key)", "call validateCanonicalKey", "return err", "if err != nil", "assign err := writer.Validate()", "call writer.Validate", "return err", "range gs.Records", "if err != nil", "assign err := compkey.DecodeFromString(keyStr, GenesisKeySeparator, &key)", "call compkey.DecodeFromString", "return err", "if err != nil", "assign err := validateCanonicalKey(keyStr, &key)", "call validateCanonicalKey", "return err", "if err != nil", "assign err := record.Validate()", "call record.Validate", "return err", "return nil"]

/-- x/aol/types.MsgAddRecordRequest.GetSignBytes -/
def x_aol_types_MsgAddRecordRequest_GetSignBytes : List String := ["assign bz := ModuleCdc.MustMarshalJSON(msg)", "call ModuleCdc.MustMarshalJSON", "return _", "call sdk.MustSortJSON"]

/-- x/aol/types.MsgAddRecordRequest.GetSigners -/
def x_aol_types_MsgAddRecordRequest_GetSigners : List String := ["assign writerAddress,err := sdk.AccAddressFromBech32(msg.WriterAddress)", "call sdk.AccAddressFromBech32", "if err != nil", "call panic", "if msg.FeePayerAddress != \"\"", "lit \"\"", "assign feePayerAddress,err := sdk.AccAddressFromBech32(msg.FeePayerAddress)", "call sdk.AccAddressFromBech32", "if err != nil", "call panic", "return _", "return _"]

/-- x/aol/types.MsgAddRecordRequest.Route -/
def x_aol_types_MsgAddRecordRequest_Route : List String := ["return RouterKey"]

/-- x/aol/types.MsgAddRecordRequest.Type -/
def x_aol_types_MsgAddRecordRequest_Type : List String := ["return \"AddRecord\"", "lit \"AddRecord\""]

/-- x/aol/types.MsgAddRecordRequest.ValidateBasic -/
def x_aol_types_MsgAddRecordRequest_ValidateBasic : List String := ["if err != nil", "assign err := validateTopicName(msg.TopicName)", "call validateTopicName", "return err", "if err != nil", "assign err := validateRecordKey(msg.Key)", "call validateRecordKey", "return err", "if err != nil", "assign err := validateRecordValue(msg.Value)", "call validateRecordValue", "return err", "if err != nil", "assign _,err := sdk.AccAddressFromBech32(msg.WriterAddress)", "call sdk.AccAddressFromBech32", "return _", "call errors.Wrapf", "if err != nil", "assign _,err := sdk.AccAddressFromBech32(msg.OwnerAddress)", "call sdk.AccAddressFromBech32", "return _", "call errors.Wrapf", "if msg.FeePayerAddress != \"\"", "lit \"\"", "if err != nil", "assign _,err := sdk.AccAddressFromBech32(msg.FeePayerAddress)", "call sdk.AccAddressFromBech32", "return _", "call errors.Wrapf", "return nil"]

/-- x/aol/types.MsgAddWriterRequest.GetSignBytes -/
def x_aol_types_MsgAddWriterRequest_GetSignBytes : List String := ["assign bz := ModuleCdc.MustMarshalJSON(msg)", "call ModuleCdc.MustMarshalJSON", "return _", "call sdk.MustSortJSON"]

/-- x/aol/types.MsgAddWriterRequest.GetSigners -/
def x_aol_types_MsgAddWriterRequest_GetSigners : List String := ["assign ownerAddress,err := sdk.AccAddressFromBech32(msg.OwnerAddress)", "call sdk.AccAddressFromBech32", "if err != nil", "call panic", "return _"]

/-- x/aol/types.MsgAddWriterRequest.Route -/
def x_aol_types_MsgAddWriterRequest_Route : List String := ["return RouterKey"]

/-- x/aol/types.MsgAddWriterRequest.Type -/
def x_aol_types_MsgAddWriterRequest_Type : List String := ["return \"AddWriter\"", "lit \"AddWriter\""]

/-- x/aol/types.MsgAddWriterRequest.ValidateBasic -/
def x_aol_types_MsgAddWriterRequest_ValidateBasic : List String := ["if err != nil", "assign err := validateTopicName(msg.TopicName)", "call validateTopicName", "return err", "if err != nil", "assign err := validateMoniker(msg.Moniker)", "call validateMoniker", "return err", "if err != nil", "assign err := validateDescription(msg.Description)", "call validateDescription", "return err", "if err != nil", "assign _,err := sdk.AccAddressFromBech32(msg.WriterAddress)", "call sdk.AccAddressFromBech32", "return _", "call errors.Wrapf", "if err != nil", "assign _,err := sdk.AccAddressFromBech32(msg.OwnerAddress)", "call sdk.AccAddressFromBech32", "return _", "call errors.Wrapf", "return nil"]

/-- x/aol/types.MsgCreateTopicRequest.GetSignBytes -/
def x_aol_types_MsgCreateTopicRequest_GetSignBytes : List String := ["assign bz := ModuleCdc.MustMarshalJSON(msg)", "call ModuleCdc.MustMarshalJSON", "return _", "call sdk.MustSortJSON"]

/-- x/aol/types.MsgCreateTopicRequest.GetSigners -/
def x_aol_types_MsgCreateTopicRequest_GetSigners : List String := ["assign ownerAddress,err := sdk.AccAddressFromBech32(msg.OwnerAddress)", "call sdk.AccAddressFromBech32", "if err != nil", "call panic", "return _"]

/-- x/aol/types.MsgCreateTopicRequest.Route -/
def x_aol_types_MsgCreateTopicRequest_Route : List String := ["return RouterKey"]

/-- x/aol/types.MsgCreateTopicRequest.Type -/
def x_aol_types_MsgCreateTopicRequest_Type : List String := ["return \"CreateTopic\"", "lit \"CreateTopic\""]

/-- x/aol/types.MsgCreateTopicRequest.ValidateBasic -/
def x_aol_types_MsgCreateTopicRequest_ValidateBasic : List String := ["if err != nil", "assign err := validateTopicName(msg.TopicName)", "call validateTopicName", "return err", "if err != nil", "assign err := validateDescription(msg.Description)", "call validateDescription", "return err", "if err != nil", "assign _,err := sdk.AccAddressFromBech32(msg.OwnerAddress)", "call sdk.AccAddressFromBech32", "return _", "call errors.Wrapf", "return nil"]

/-- x/aol/types.MsgDeleteWriterRequest.GetSignBytes -/
def x_aol_types_MsgDeleteWriterRequest_GetSignBytes : List String := ["assign bz := ModuleCdc.MustMarshalJSON(msg)", "call ModuleCdc.MustMarshalJSON", "return _", "call sdk.MustSortJSON"]

/-- x/aol/types.MsgDeleteWriterRequest.GetSigners -/
def x_aol_types_MsgDeleteWriterRequest_GetSigners : List String := ["assign ownerAddress,err := sdk.AccAddressFromBech32(msg.OwnerAddress)", "call sdk.AccAddressFromBech32", "if err != nil", "call panic", "return _"]

/-- x/aol/types.MsgDeleteWriterRequest.Route -/
def x_aol_types_MsgDeleteWriterRequest_Route : List String := ["return RouterKey"]

/-- x/aol/types.MsgDeleteWriterRequest.Type -/
def x_aol_types_MsgDeleteWriterRequest_Type : List String := ["return \"DeleteWriter\"", "lit \"DeleteWriter\""]

/-- x/aol/types.MsgDeleteWriterRequest.ValidateBasic -/
def x_aol_types_MsgDeleteWriterRequest_ValidateBasic : List String := ["if err != nil", "assign err := validateTopicName(msg.TopicName)", "call validateTopicName", "return err", "if err != nil", "assign _,err := sdk.AccAddressFromBech32(msg.WriterAddress)", "call sdk.AccAddressFromBech32", "return _", "call errors.Wrapf", "if err != nil", "assign _,err := sdk.AccAddressFromBech32(msg.OwnerAddress)", "call sdk.AccAddressFromBech32", "return _", "call errors.Wrapf", "return nil"]

/-- x/aol/types.NewMsgAddRecordRequest -/
def x_aol_types_NewMsgAddRecordRequest : List String := ["return _", "kv TopicName=topicName", "kv Key=key", "kv Value=value", "kv WriterAddress=writerAddress", "kv OwnerAddress=ownerAddress", "kv FeePayerAddress=feePayerAddress"]

/-- x/aol/types.NewMsgAddWriter -/
def x_aol_types_NewMsgAddWriter : List String := ["return _", "kv TopicName=topicName", "kv Moniker=moniker", "kv Description=description", "kv WriterAddress=writerAddress", "kv OwnerAddress=ownerAddress"]

/-- x/aol/types.NewMsgCreateTopic -/
def x_aol_types_NewMsgCreateTopic : List String := ["return _", "kv TopicName=topicName", "kv Description=description", "kv OwnerAddress=ownerAddress"]

/-- x/aol/types.NewMsgDeleteWriter -/
def x_aol_types_NewMsgDeleteWriter : List String := ["return _", "kv TopicName=topicName", "kv WriterAddress=writerAddress", "kv OwnerAddress=ownerAddress"]

/-- x/aol/types.Owner.IncreaseTotalTopics -/
def x_aol_types_Owner_IncreaseTotalTopics : List String := ["return _", "kv TotalTopics=o.TotalTopics + 1", "op +", "lit 1"]

/-- x/aol/types.OwnerCompositeKey.ByteSlices -/
def x_aol_types_OwnerCompositeKey_ByteSlices : List String := ["return _", "call _.Bytes"]

/-- x/aol/types.OwnerCompositeKey.FromByteSlices -/
def x_aol_types_OwnerCompositeKey_FromByteSlices : List String := ["if len(bzs) != 1", "call len", "lit 1", "return _", "call fmt.Errorf", "if err != nil", "assign err := sdk.VerifyAddressFormat(bzs[0])", "call sdk.VerifyAddressFormat", "lit 0", "return _", "call fmt.Errorf", "assign k.OwnerAddress = bzs[0]", "lit 0", "return nil"]

/-- x/aol/types.OwnerCompositeKey.FromStrings -/
def x_aol_types_OwnerCompositeKey_FromStrings : List String := ["if len(strings) != 1", "call len", "lit 1", "return _", "call fmt.Errorf", "assign addr,err := sdk.AccAddressFromBech32(strings[0])", "call sdk.AccAddressFromBech32", "lit 0", "if err != nil", "return _", "call fmt.Errorf", "assign k.OwnerAddress = addr", "return nil"]

/-- x/aol/types.OwnerCompositeKey.Strings -/
def x_aol_types_OwnerCompositeKey_Strings : List String := ["return _", "call _.String"]

/-- x/aol/types.Record.Validate -/
def x_aol_types_Record_Validate : List String := ["if err != nil", "assign err := validateRecordKey(r.Key)", "call validateRecordKey", "return err", "if err != nil", "assign err := validateRecordValue(r.Key)", "call validateRecordValue", "return err", "if err != nil", "assign _,err := sdk.AccAddressFromBech32(r.WriterAddress)", "call sdk.AccAddressFromBech32", "return err", "return nil"]

/-- x/aol/types.RecordCompositeKey.ByteSlices -/
def x_aol_types_RecordCompositeKey_ByteSlices : List String := ["return _", "call _.Bytes", "call ?", "call sdk.Uint64ToBigEndian"]

/-- x/aol/types.RecordCompositeKey.FromByteSlices -/
def x_aol_types_RecordCompositeKey_FromByteSlices : List String := ["if len(bzs) != 3", "call len", "lit 3", "return _", "call fmt.Errorf", "if err != nil", "assign err := sdk.VerifyAddressFormat(bzs[0])", "call sdk.VerifyAddressFormat", "lit 0", "return _", "call fmt.Errorf", "if len(bzs[2]) != 8", "call len", "lit 2", "lit 8", "return _", "call fmt.Errorf", "call len", "lit 2", "assign k.OwnerAddress = bzs[0]", "lit 0", "assign k.TopicName = string(bzs[1])", "call string", "lit 1", "assign k.Offset = sdk.BigEndianToUint64(bzs[2])", "call sdk.BigEndianToUint64", "lit 2", "return nil"]

/-- x/aol/types.RecordCompositeKey.FromStrings -/
def x_aol_types_RecordCompositeKey_FromStrings : List String := ["if len(strings) != 3", "call len", "lit 3", "return _", "call fmt.Errorf", "assign ownerAddr,err := sdk.AccAddressFromBech32(strings[0])", "call sdk.AccAddressFromBech32", "lit 0", "if err != nil", "return _", "call fmt.Errorf", "assign offset,err := strconv.ParseUint(strings[2], 10, 64)", "call strconv.ParseUint", "lit 2", "lit 10", "lit 64", "if err != nil", "return _", "call fmt.Errorf", "assign k.OwnerAddress = ownerAddr", "assign k.TopicName = strings[1]", "lit 1", "assign k.Offset = offset", "return nil"]

/-- x/aol/types.RecordCompositeKey.Strings -/
def x_aol_types_RecordCompositeKey_Strings : List String := ["return _", "call _.String", "call strconv.FormatUint", "lit 10"]

/-- x/aol/types.RegisterCodec -/
def x_aol_types_RegisterCodec : List String := ["call cdc.RegisterConcrete", "lit \"aol/CreateTopic\"", "call cdc.RegisterConcrete", "lit \"aol/AddWriter\"", "call cdc.RegisterConcrete", "lit \"aol/DeleteWriter\"", "call cdc.RegisterConcrete", "lit \"aol/AddRecord\""]

/-- x/aol/types.RegisterInterfaces -/
def x_aol_types_RegisterInterfaces : List String := ["call registry.RegisterImplementations", "call ?", "call msgservice.RegisterMsgServiceDesc"]

/-- x/aol/types.Topic.DecreaseTotalWriters -/
def x_aol_types_Topic_DecreaseTotalWriters : List String := ["return _", "kv TotalRecords=t.TotalRecords", "kv TotalWriters=t.TotalWriters - 1", "op -", "lit 1", "kv Description=t.Description"]

/-- x/aol/types.Topic.IncreaseTotalRecords -/
def x_aol_types_Topic_IncreaseTotalRecords : List String := ["return _", "kv TotalRecords=t.TotalRecords + 1", "op +", "lit 1", "kv TotalWriters=t.TotalWriters", "kv Description=t.Description"]

/-- x/aol/types.Topic.IncreaseTotalWriters -/
def x_aol_types_Topic_IncreaseTotalWriters : List String := ["return _", "kv TotalRecords=t.TotalRecords", "kv TotalWriters=t.TotalWriters + 1", "op +", "lit 1", "kv Description=t.Description"]

/-- x/aol/types.Topic.NextRecordOffset -/
def x_aol_types_Topic_NextRecordOffset : List String := ["return _"]

/-- x/aol/types.Topic.Validate -/
def x_aol_types_Topic_Validate : List String := ["return _", "call validateDescription"]

/-- x/aol/types.TopicCompositeKey.ByteSlices -/
def x_aol_types_TopicCompositeKey_ByteSlices : List String := ["return _", "call _.Bytes", "call ?"]

/-- x/aol/types.TopicCompositeKey.FromByteSlices -/
def x_aol_types_TopicCompositeKey_FromByteSlices : List String := ["if len(bzs) != 2", "call len", "lit 2", "return _", "call fmt.Errorf", "if err != nil", "assign err := sdk.VerifyAddressFormat(bzs[0])", "call sdk.VerifyAddressFormat", "lit 0", "return _", "call fmt.Errorf", "assign k.OwnerAddress = bzs[0]", "lit 0", "assign k.TopicName = string(bzs[1])", "call string", "lit 1", "return nil"]

/-- x/aol/types.TopicCompositeKey.FromStrings -/
def x_aol_types_TopicCompositeKey_FromStrings : List String := ["if len(strings) != 2", "call len", "lit 2", "return _", "call fmt.Errorf", "assign addr,err := sdk.AccAddressFromBech32(strings[0])", "call sdk.AccAddressFromBech32", "lit 0", "if err != nil", "return _", "call fmt.Errorf", "assign k.OwnerAddress = addr", "assign k.TopicName = strings[1]", "lit 1", "return nil"]

/-- x/aol/types.TopicCompositeKey.Strings -/
def x_aol_types_TopicCompositeKey_Strings : List String := ["return _", "call _.String"]

/-- x/aol/types.Writer.Validate -/
def x_aol_types_Writer_Validate : List String := ["if err != nil", "assign err := validateMoniker(w.Moniker)", "call validateMoniker", "return err", "if err != nil", "assign err := validateDescription(w.Description)", "call validateDescription", "return err", "return nil"]

/-- x/aol/types.WriterCompositeKey.ByteSlices -/
def x_aol_types_WriterCompositeKey_ByteSlices : List String := ["return _", "call _.Bytes", "call ?", "call _.Bytes"]

/-- x/aol/types.WriterCompositeKey.FromByteSlices -/
def x_aol_types_WriterCompositeKey_FromByteSlices : List String := ["if len(bzs) != 3", "call len", "lit 3", "return _", "call fmt.Errorf", "if err != nil", "assign err := sdk.VerifyAddressFormat(bzs[0])", "call sdk.VerifyAddressFormat", "lit 0", "return _", "call fmt.Errorf", "if err != nil", "assign err := sdk.VerifyAddressFormat(bzs[2])", "call sdk.VerifyAddressFormat", "lit 2", "return _", "call fmt.Errorf", "assign k.OwnerAddress = bzs[0]", "lit 0", "assign k.TopicName = string(bzs[1])", "call string", "lit 1", "assign k.WriterAddress = bzs[2]", "lit 2", "return nil"]

/-- x/aol/types.WriterCompositeKey.FromStrings -/
def x_aol_types_WriterCompositeKey_FromStrings : List String := ["if len(strings) != 3", "call len", "lit 3", "return _", "call fmt.Errorf", "assign ownerAddr,err := sdk.AccAddressFromBech32(strings[0])", "call sdk.AccAddressFromBech32", "lit 0", "if err != nil", "return _", "call fmt.Errorf", "assign writerAddr,err := sdk.AccAddressFromBech32(strings[2])", "call sdk.AccAddressFromBech32", "lit 2", "if err != nil", "return _", "call fmt.Errorf", "assign k.OwnerAddress = ownerAddr", "assign k.TopicName = strings[1]", "lit 1", "assign k.WriterAddress = writerAddr", "return nil"]

/-- x/aol/types.WriterCompositeKey.Strings -/
def x_aol_types_WriterCompositeKey_Strings : List String := ["return _", "call _.String", "call _.String"]

/-- x/aol/types.init -/
def x_aol_types_init : List String := ["call RegisterCodec", "call amino.Seal"]

/-- x/aol/types.validateCanonicalKey -/
def x_aol_types_validateCanonicalKey : List String := ["if canonical != keyStr", "assign canonical := compkey.EncodeToString(key, GenesisKeySeparator)", "call compkey.EncodeToString", "return _", "call fmt.Errorf", "return nil"]

/-- x/aol/types.validateDescription -/
def x_aol_types_validateDescription : List String := ["if len(description) > maxDescriptionLength", "call len", "return _", "call errors.Wrapf", "call len", "return nil"]

/-- x/aol/types.validateMoniker -/
def x_aol_types_validateMoniker : List String := ["if len(moniker) > maxMonikerLength", "call len", "return _", "call errors.Wrapf", "call len", "if !regexp.MustCompile(\"^[A-Za-z0-9._-]*$\").MatchString(moniker)", "call _.MatchString", "call regexp.MustCompile", "lit \"^[A-Za-z0-9._-]*$\"", "return _", "call errors.Wrapf", "return nil"]

/-- x/aol/types.validateRecordKey -/
def x_aol_types_validateRecordKey : List String := ["if len(key) > maxRecordKeyLength", "call len", "return _", "call errors.Wrapf", "call len", "return nil"]

/-- x/aol/types.validateRecordValue -/
def x_aol_types_validateRecordValue : List String := ["if len(value) > maxRecordValueLength", "call len", "return _", "call errors.Wrapf", "call len", "return nil"]

/-- x/aol/types.validateTopicName -/
def x_aol_types_validateTopicName : List String := ["if len(topicName) > maxTopicLength", "call len", "return _", "call errors.Wrapf", "call len", "if !regexp.MustCompile(\"^[A-Za-z0-9._-]+$\").MatchString(topicName)", "call _.MatchString", "call regexp.MustCompile", "lit \"^[A-Za-z0-9._-]+$\"", "return _", "call errors.Wrapf", "return nil"]

/-- x/burn.AppModule.BeginBlock -/
def x_burn_AppModule_BeginBlock : List String := []

/-- x/burn.AppModule.ConsensusVersion -/
def x_burn_AppModule_ConsensusVersion : List String := ["return 1", "lit 1"]

/-- x/burn.AppModule.EndBlock -/
def x_burn_AppModule_EndBlock : List String := ["assign err := am.keeper.BurnCoins(ctx, types.BurnAddress)", "call _.BurnCoins", "if err != nil", "call _.Error", "call ctx.Logger", "call fmt.Sprintf", "lit \"msg : %s\"", "call err.Error", "return _"]

/-- x/burn.AppModule.ExportGenesis -/
def x_burn_AppModule_ExportGenesis : List String := ["assign genState := ExportGenesis(ctx, am.keeper)", "call ExportGenesis", "return _", "call cdc.MustMarshalJSON"]

/-- x/burn.AppModule.InitGenesis -/
def x_burn_AppModule_InitGenesis : List String := ["call cdc.MustUnmarshalJSON", "call InitGenesis", "return _"]

/-- x/burn.AppModule.Name -/
def x_burn_AppModule_Name : List String := ["return _", "call _.Name"]

/-- x/burn.AppModule.QuerierRoute -/
def x_burn_AppModule_QuerierRoute : List String := ["return _"]

/-- x/burn.AppModule.RegisterInvariants -/
def x_burn_AppModule_RegisterInvariants : List String := []

/-- x/burn.AppModule.RegisterServices -/
def x_burn_AppModule_RegisterServices : List String := []

/-- x/burn.AppModuleBasic.DefaultGenesis -/
def x_burn_AppModuleBasic_DefaultGenesis : List String := ["return _", "call cdc.MustMarshalJSON", "call types.DefaultGenesis"]

/-- x/burn.AppModuleBasic.GetQueryCmd -/
def x_burn_AppModuleBasic_GetQueryCmd : List String := ["return nil"]

/-- x/burn.AppModuleBasic.GetTxCmd -/
def x_burn_AppModuleBasic_GetTxCmd : List String := ["return nil"]

/-- x/burn.AppModuleBasic.Name -/
def x_burn_AppModuleBasic_Name : List String := ["return _"]

/-- x/burn.AppModuleBasic.RegisterCodec -/
def x_burn_AppModuleBasic_RegisterCodec : List String := ["call types.RegisterCodec"]

/-- x/burn.AppModuleBasic.RegisterGRPCGatewayRoutes -/
def x_burn_AppModuleBasic_RegisterGRPCGatewayRoutes : List String := []

/-- x/burn.AppModuleBasic.RegisterInterfaces -/
def x_burn_AppModuleBasic_RegisterInterfaces : List String := ["call types.RegisterInterfaces"]

/-- x/burn.AppModuleBasic.RegisterLegacyAminoCodec -/
def x_burn_AppModuleBasic_RegisterLegacyAminoCodec : List String := ["call types.RegisterCodec"]

/-- x/burn.AppModuleBasic.ValidateGenesis -/
def x_burn_AppModuleBasic_ValidateGenesis : List String := ["if err != nil", "assign err := cdc.UnmarshalJSON(bz, &genState)", "call cdc.UnmarshalJSON", "return _", "call fmt.Errorf", "return _", "call genState.Validate"]

/-- x/burn.ExportGenesis -/
def x_burn_ExportGenesis : List String := ["return _", "call types.DefaultGenesis"]

/-- x/burn.InitGenesis -/
def x_burn_InitGenesis : List String := []

/-- x/burn.NewAppModule -/
def x_burn_NewAppModule : List String := ["return _", "kv AppModuleBasic=NewAppModuleBasic(cdc)", "call NewAppModuleBasic", "kv keeper=keeper"]

/-- x/burn.NewAppModuleBasic -/
def x_burn_NewAppModuleBasic : List String := ["return _", "kv cdc=cdc"]

/-- x/burn/keeper.Keeper.BurnCoins -/
def x_burn_keeper_Keeper_BurnCoins : List String := ["assign burnAcc,err := sdk.AccAddressFromBech32(acc)", "call sdk.AccAddressFromBech32", "if err != nil", "return err", "assign burnCoins := k.bankKeeper.SpendableCoins(ctx, burnAcc)", "call _.SpendableCoins", "if burnCoins.Empty()", "call burnCoins.Empty", "return nil", "call _.Info", "call ctx.Logger", "call fmt.Sprintf", "lit \"address: %s, coins: %s\"", "assign err = k.bankKeeper.SendCoinsFromAccountToModule(ctx, burnAcc, types.ModuleName, burnCoins)", "call _.SendCoinsFromAccountToModule", "if err != nil", "return err", "assign err = k.bankKeeper.BurnCoins(ctx, types.ModuleName, burnCoins)", "call _.BurnCoins", "if err != nil", "return err", "call _.Info", "call ctx.Logger", "call fmt.Sprintf", "lit \"address: %s, coins: %s\"", "call _.Info", "call ctx.Logger", "call fmt.Sprintf", "lit \"total: %s\"", "call _.GetSupply", "return nil"]

/-- x/burn/keeper.Keeper.Logger -/
def x_burn_keeper_Keeper_Logger : List String := ["return _", "call _.With", "call ctx.Logger", "lit \"burn\"", "call fmt.Sprintf", "lit \"x/%s\""]

/-- x/burn/keeper.NewKeeper -/
def x_burn_keeper_NewKeeper : List String := ["return _", "kv bankKeeper=bankKeeper"]

/-- x/burn/types.DefaultGenesis -/
def x_burn_types_DefaultGenesis : List String := ["return _"]

/-- x/burn/types.GenesisState.Validate -/
def x_burn_types_GenesisState_Validate : List String := ["return nil"]

/-- x/burn/types.RegisterCodec -/
def x_burn_types_RegisterCodec : List String := []

/-- x/burn/types.RegisterInterfaces -/
def x_burn_types_RegisterInterfaces : List String := []

/-- x/did.AppModule.BeginBlock -/
def x_did_AppModule_BeginBlock : List String := []

/-- x/did.AppModule.ConsensusVersion -/
def x_did_AppModule_ConsensusVersion : List String := ["return 1", "lit 1"]

/-- x/did.AppModule.EndBlock -/
def x_did_AppModule_EndBlock : List String := ["return _"]

/-- x/did.AppModule.ExportGenesis -/
def x_did_AppModule_ExportGenesis : List String := ["assign genState := ExportGenesis(ctx, am.keeper)", "call ExportGenesis", "return _", "call cdc.MustMarshalJSON"]

/-- x/did.AppModule.InitGenesis -/
def x_did_AppModule_InitGenesis : List String := ["call cdc.MustUnmarshalJSON", "call InitGenesis", "return _"]

/-- x/did.AppModule.Name -/
def x_did_AppModule_Name : List String := ["return _", "call _.Name"]

/-- x/did.AppModule.QuerierRoute -/
def x_did_AppModule_QuerierRoute : List String := ["return _"]

/-- x/did.AppModule.RegisterInvariants -/
def x_did_AppModule_RegisterInvariants : List String := []

/-- x/did.AppModule.RegisterServices -/
def x_did_AppModule_RegisterServices : List String := ["call types.RegisterQueryServer", "call cfg.QueryServer", "call types.RegisterMsgServer", "call cfg.MsgServer", "call keeper.NewMsgServerImpl"]

/-- x/did.AppModuleBasic.DefaultGenesis -/
def x_did_AppModuleBasic_DefaultGenesis : List String := ["return _", "call cdc.MustMarshalJSON", "call types.DefaultGenesis"]

/-- x/did.AppModuleBasic.GetQueryCmd -/
def x_did_AppModuleBasic_GetQueryCmd : List String := ["return _", "call cli.GetQueryCmd"]

/-- x/did.AppModuleBasic.GetTxCmd -/
def x_did_AppModuleBasic_GetTxCmd : List String := ["return _", "call cli.GetTxCmd"]

/-- x/did.AppModuleBasic.Name -/
def x_did_AppModuleBasic_Name : List String := ["return _"]

/-- x/did.AppModuleBasic.RegisterCodec -/
def x_did_AppModuleBasic_RegisterCodec : List String := ["call types.RegisterCodec"]

/-- x/did.AppModuleBasic.RegisterGRPCGatewayRoutes -/
def x_did_AppModuleBasic_RegisterGRPCGatewayRoutes : List String := ["assign err := _", "call types.RegisterQueryHandlerClient", "call context.Background", "call types.NewQueryClient", "if err != nil", "call panic", "lit \"Error RegisterGRPCGatewayRoutes\""]

/-- x/did.AppModuleBasic.RegisterInterfaces -/
def x_did_AppModuleBasic_RegisterInterfaces : List String := ["call types.RegisterInterfaces"]

/-- x/did.AppModuleBasic.RegisterLegacyAminoCodec -/
def x_did_AppModuleBasic_RegisterLegacyAminoCodec : List String := ["call types.RegisterCodec"]

/-- x/did.AppModuleBasic.ValidateGenesis -/
def x_did_AppModuleBasic_ValidateGenesis : List String := ["if err != nil", "assign err := cdc.UnmarshalJSON(bz, &genState)", "call cdc.UnmarshalJSON", "return _", "call fmt.Errorf", "return _", "call genState.Validate"]

/-- x/did.ExportGenesis -/
def x_did_ExportGenesis : List String := ["assign documentsMap := make(map[string]*types.DIDDocumentWithSeq)", "call make", "range k.ListDIDs(ctx)", "call k.ListDIDs", "assign key := _", "call _.Marshal", "kv DID=did", "assign document := k.GetDIDDocument(ctx, did)", "call k.GetDIDDocument", "assign documentsMap[key] = &document", "return _", "kv Documents=documentsMap"]

/-- x/did.InitGenesis -/
def x_did_InitGenesis : List String := ["range data.Documents", "call k.SetDIDDocument"]

/-- x/did.NewAppModule -/
def x_did_NewAppModule : List String := ["return _", "kv AppModuleBasic=NewAppModuleBasic(cdc)", "call NewAppModuleBasic", "kv keeper=keeper"]

/-- x/did.NewAppModuleBasic -/
def x_did_NewAppModuleBasic : List String := ["return _", "kv cdc=cdc"]

/-- x/did/client/crypto.GenSecp256k1PrivKey -/
def x_did_client_crypto_GenSecp256k1PrivKey : List String := ["if mnemonic == \"\"", "lit \"\"", "assign entropySeed,err := bip39.NewEntropy(mnemonicEntropySize)", "call bip39.NewEntropy", "if err != nil", "return _,err", "assign mnemonic,err = bip39.NewMnemonic(entropySeed[:])", "call bip39.NewMnemonic", "if err != nil", "return _,err", "call fmt.Fprintf", "lit \"A random mnemonic was generated: %s\\n\"", "if !bip39.IsMnemonicValid(mnemonic)", "call bip39.IsMnemonicValid", "return _,_", "call fmt.Errorf", "assign seed,err := bip39.NewSeedWithErrorChecking(mnemonic, bip39Passphrase)", "call bip39.NewSeedWithErrorChecking", "if err != nil", "return _,err", "assign hdPath := _", "call _.String", "call hd.NewFundraiserParams", "call _.GetCoinType", "call sdk.GetConfig", "assign masterPriv,chainCode := hd.ComputeMastersFromSeed(seed)", "call hd.ComputeMastersFromSeed", "return _", "call hd.DerivePrivateKeyForPath"]

/-- x/did/client/crypto.KeyStore.Load -/
def x_did_client_crypto_KeyStore_Load : List String := ["assign encryptedKey,err := ks.load(path)", "call ks.load", "if err != nil", "return nil,err", "return _", "call decryptKey"]

/-- x/did/client/crypto.KeyStore.LoadByAddress -/
def x_did_client_crypto_KeyStore_LoadByAddress : List String := ["call _.RLock", "assign path,err := ks.recentPath(address)", "call ks.recentPath", "call _.RUnlock", "if err != nil", "return nil,err", "return _", "call ks.Load"]

/-- x/did/client/crypto.KeyStore.Save -/
def x_did_client_crypto_KeyStore_Save : List String := ["assign encryptedKey,err := encryptKey(address, key, passwd)", "call encryptKey", "if err != nil", "return \"\",_", "lit \"\"", "call fmt.Errorf", "return _", "call ks.save"]

/-- x/did/client/crypto.KeyStore.load -/
def x_did_client_crypto_KeyStore_load : List String := ["call _.RLock", "defer", "call _.RUnlock", "assign file,err := os.Open(path)", "call os.Open", "if err != nil", "return key,err", "defer", "call file.Close", "if err != nil", "assign err := json.NewDecoder(file).Decode(&key)", "call _.Decode", "call json.NewDecoder", "return key,_", "call fmt.Errorf", "return key,nil"]

/-- x/did/client/crypto.KeyStore.newPath -/
def x_did_client_crypto_KeyStore_newPath : List String := ["return _", "call filepath.Join", "call fmt.Sprintf", "lit \"UTC--%s--%s.json\"", "call _.Format", "call _.UTC", "call time.Now", "lit \"2006-01-02T15-04-05.000000000Z\""]

/-- x/did/client/crypto.KeyStore.recentPath -/
def x_did_client_crypto_KeyStore_recentPath : List String := ["assign matches,err := filepath.Glob(fmt.Sprintf(\"%s/UTC--*--%s.json\", ks.baseDir, address))", "call filepath.Glob", "call fmt.Sprintf", "lit \"%s/UTC--*--%s.json\"", "if err != nil", "return \"\",err", "lit \"\"", "if len(matches) == 0", "call len", "lit 0", "return \"\",_", "lit \"\"", "call fmt.Errorf", "assign recentPath := \"\"", "lit \"\"", "range matches", "if recentPath < match", "assign recentPath = match", "return recentPath,nil"]

/-- x/did/client/crypto.KeyStore.save -/
def x_did_client_crypto_KeyStore_save : List String := ["call _.Lock", "defer", "call _.Unlock", "assign path := ks.newPath(address)", "call ks.newPath", "if fileExists(path)", "call fileExists", "return \"\",_", "lit \"\"", "call fmt.Errorf", "assign file,err := os.Create(path)", "call os.Create", "if err != nil", "return \"\",err", "lit \"\"", "defer", "call file.Close", "if err != nil", "assign err := json.NewEncoder(file).Encode(key)", "call _.Encode", "call json.NewEncoder", "return \"\",_", "lit \"\"", "call fmt.Errorf", "return path,nil"]

/-- x/did/client/crypto.NewKeyStore -/
def x_did_client_crypto_NewKeyStore : List String := ["if err != nil", "assign err := os.MkdirAll(baseDir, os.ModePerm)", "call os.MkdirAll", "return nil,err", "return _,nil", "kv baseDir=baseDir"]

/-- x/did/client/crypto.aesCTRXOR -/
def x_did_client_crypto_aesCTRXOR : List String := ["assign block,err := aes.NewCipher(key)", "call aes.NewCipher", "if err != nil", "return nil,_", "call fmt.Errorf", "assign buf := make([]byte, len(data))", "call make", "call len", "call _.XORKeyStream", "call cipher.NewCTR", "return buf,nil"]

/-- x/did/client/crypto.decryptKey -/
def x_did_client_crypto_decryptKey : List String := ["if key.Version != version", "return nil,_", "call fmt.Errorf", "if key.Crypto.Cipher != cipherAlgorithm", "return nil,_", "call fmt.Errorf", "if key.Crypto.KDF != kdf", "return nil,_", "call fmt.Errorf", "if key.Crypto.KDFParams.PRF != pbkdf2PRFStr", "return nil,_", "call fmt.Errorf", "assign mac,err := hex.DecodeString(key.Crypto.MAC)", "call hex.DecodeString", "if err != nil", "return nil,_", "call fmt.Errorf", "assign iv,err := hex.DecodeString(key.Crypto.CipherParams.IV)", "call hex.DecodeString", "if err != nil", "return nil,_", "call fmt.Errorf", "assign cipherText,err := hex.DecodeString(key.Crypto.CipherText)", "call hex.DecodeString", "if err != nil", "return nil,_", "call fmt.Errorf", "assign salt,err := hex.DecodeString(key.Crypto.KDFParams.Salt)", "call hex.DecodeString", "if err != nil", "return nil,_", "call fmt.Errorf", "assign dkLen := key.Crypto.KDFParams.DKLen", "if dkLen < macKeyOffset+macKeySize", "op +", "return nil,_", "call fmt.Errorf", "if len(iv) != aes.BlockSize", "call len", "return nil,_", "call fmt.Errorf", "call len", "assign derivedKey := pbkdf2.Key([]byte(passwd), salt, key.Crypto.KDFParams.C, dkLen, pbkdf2PRF)", "call pbkdf2.Key", "call ?", "assign expectedMac,err := newSHA3Keccak256(derivedKey[macKeyOffset:macKeyOffset+macKeySize], cipherText)", "call newSHA3Keccak256", "op +", "if err != nil", "return nil,_", "call fmt.Errorf", "if !bytes.Equal(expectedMac, mac)", "call bytes.Equal", "return nil,_", "call fmt.Errorf", "return _", "call aesCTRXOR"]

/-- x/did/client/crypto.encryptKey -/
def x_did_client_crypto_encryptKey : List String := ["assign salt := make([]byte, saltBytes)", "call make", "if err != nil", "assign _,err := io.ReadFull(rand.Reader, salt)", "call io.ReadFull", "return _,_", "call fmt.Errorf", "assign derivedKey := pbkdf2.Key([]byte(passwd), salt, pbkdf2C, pbkdf2DKLen, pbkdf2PRF)", "call pbkdf2.Key", "call ?", "assign iv := make([]byte, aes.BlockSize)", "call make", "if err != nil", "assign _,err := io.ReadFull(rand.Reader, iv)", "call io.ReadFull", "return _,_", "call fmt.Errorf", "assign cipherText,err := aesCTRXOR(derivedKey[:cipherKeySize], iv, key[:])", "call aesCTRXOR", "if err != nil", "return _,err", "assign mac,err := newSHA3Keccak256(derivedKey[macKeyOffset:macKeyOffset+macKeySize], cipherText)", "call newSHA3Keccak256", "op +", "if err != nil", "return _,err", "return _,nil", "kv Version=version", "kv ID=uuid.NewRandom().String()", "call _.String", "call uuid.NewRandom", "kv Address=address", "kv Crypto", "kv Cipher=cipherAlgorithm", "kv CipherText=hex.EncodeToString(cipherText)", "call hex.EncodeToString", "kv CipherParams", "kv IV=hex.EncodeToString(iv)", "call hex.EncodeToString", "kv KDF=kdf", "kv KDFParams", "kv C=pbkdf2C", "kv DKLen=pbkdf2DKLen", "kv PRF=pbkdf2PRFStr", "kv Salt=hex.EncodeToString(salt)", "call hex.EncodeToString", "kv MAC=hex.EncodeToString(mac)", "call hex.EncodeToString"]

/-- x/did/client/crypto.fileExists -/
def x_did_client_crypto_fileExists : List String := ["if os.IsNotExist(err)", "assign _,err := os.Stat(path)", "call os.Stat", "call os.IsNotExist", "return false", "return true"]

/-- x/did/client/crypto.newSHA3Keccak256 -/
def x_did_client_crypto_newSHA3Keccak256 : List String := ["assign hash := sha3.NewLegacyKeccak256()", "call sha3.NewLegacyKeccak256", "range data", "if err != nil", "assign _,err := hash.Write(b)", "call hash.Write", "return nil,err", "return _,nil", "call hash.Sum"]

/-- x/did/internal/secp256k1util.DerivePubKey -/
def x_did_internal_secp256k1util_DerivePubKey : List String := ["return _", "call privKey.PubKey"]

/-- x/did/internal/secp256k1util.PrivKeyFromBytes -/
def x_did_internal_secp256k1util_PrivKeyFromBytes : List String := ["assign key := make([]byte, secp256k1.PrivKeySize)", "call make", "if len(bz) != len(key)", "call len", "call len", "return key,_", "call fmt.Errorf", "call len", "call len", "call copy", "return key,nil"]

/-- x/did/internal/secp256k1util.PubKeyBytes -/
def x_did_internal_secp256k1util_PubKeyBytes : List String := ["return _"]

/-- x/did/internal/secp256k1util.PubKeyFromBase58 -/
def x_did_internal_secp256k1util_PubKeyFromBase58 : List String := ["assign key := make([]byte, secp256k1.PubKeySize)", "call make", "assign decoded := base58.Decode(b58)", "call base58.Decode", "if len(decoded) != len(key)", "call len", "call len", "return key,_", "call fmt.Errorf", "call len", "call len", "call copy", "return key,nil"]

/-- x/did/keeper.Keeper.DID -/
def x_did_keeper_Keeper_DID : List String := ["if req == nil", "return nil,_", "call status.Error", "assign ctx := sdk.UnwrapSDKContext(c)", "call sdk.UnwrapSDKContext", "assign didBz,err := base64.StdEncoding.DecodeString(req.DidBase64)", "call _.DecodeString", "if err != nil", "return nil,_", "call status.Error", "assign did := string(didBz)", "call string", "assign docWithSeq := k.GetDIDDocument(ctx, did)", "call k.GetDIDDocument", "if docWithSeq.Empty()", "call docWithSeq.Empty", "return nil,_", "call status.Error", "if docWithSeq.Deactivated()", "call docWithSeq.Deactivated", "return nil,_", "call status.Error", "return _,nil", "kv DidDocumentWithSeq=&docWithSeq"]

/-- x/did/keeper.Keeper.GetDIDDocument -/
def x_did_keeper_Keeper_GetDIDDocument : List String := ["assign store := prefix.NewStore(ctx.KVStore(k.storeKey), types.DIDKeyPrefix)", "call prefix.NewStore", "call ctx.KVStore", "assign key := []byte(did)", "call ?", "assign bz := store.Get(key)", "call store.Get", "if bz == nil", "return _", "call _.MustUnmarshalLengthPrefixed", "return doc"]

/-- x/did/keeper.Keeper.ListDIDs -/
def x_did_keeper_Keeper_ListDIDs : List String := ["assign store := prefix.NewStore(ctx.KVStore(k.storeKey), types.DIDKeyPrefix)", "call prefix.NewStore", "call ctx.KVStore", "assign dids := make([]string, 0)", "call make", "lit 0", "assign iter := _", "call sdk.KVStorePrefixIterator", "defer", "call iter.Close", "for iter.Valid()", "call iter.Valid", "call iter.Next", "assign did := string(iter.Key())", "call string", "call iter.Key", "assign dids = append(dids, did)", "call append", "return dids"]

/-- x/did/keeper.Keeper.Logger -/
def x_did_keeper_Keeper_Logger : List String := ["return _", "call _.With", "call ctx.Logger", "lit \"module\"", "call fmt.Sprintf", "lit \"x/%s\""]

/-- x/did/keeper.Keeper.SetDIDDocument -/
def x_did_keeper_Keeper_SetDIDDocument : List String := ["assign store := prefix.NewStore(ctx.KVStore(k.storeKey), types.DIDKeyPrefix)", "call prefix.NewStore", "call ctx.KVStore", "assign key := []byte(did)", "call ?", "assign bz := k.cdc.MustMarshalLengthPrefixed(&doc)", "call _.MustMarshalLengthPrefixed", "call store.Set"]

/-- x/did/keeper.NewKeeper -/
def x_did_keeper_NewKeeper : List String := ["return _", "kv cdc=cdc", "kv storeKey=storeKey", "kv memKey=memKey"]

/-- x/did/keeper.NewMsgServerImpl -/
def x_did_keeper_NewMsgServerImpl : List String := ["return _", "kv Keeper=keeper"]

/-- x/did/keeper.VerifyDIDOwnership -/
def x_did_keeper_VerifyDIDOwnership : List String := ["assign verificationMethod,ok := doc.VerificationMethodFrom(doc.Authentications, verificationMethodID)", "call doc.VerificationMethodFrom", "if !ok", "return 0,_", "lit 0", "call errors.Wrapf", "if verificationMethod.Type != types.ES256K_2019 && verificationMethod.Type != types.ES256K_2018", "return 0,_", "lit 0", "call errors.Wrapf", "assign pubKeySecp256k1,err := secp256k1util.PubKeyFromBase58(verificationMethod.PublicKeyBase58)", "call secp256k1util.PubKeyFromBase58", "if err != nil", "return 0,_", "lit 0", "call errors.Wrapf", "assign newSeq,ok := types.Verify(sig, signData, seq, pubKeySecp256k1)", "call types.Verify", "if !ok", "return 0,_", "lit 0", "return newSeq,nil"]

/-- x/did/keeper.msgServer.CreateDID -/
def x_did_keeper_msgServer_CreateDID : List String := ["assign keeper := m.Keeper", "assign ctx := sdk.UnwrapSDKContext(goCtx)", "call sdk.UnwrapSDKContext", "assign cur := keeper.GetDIDDocument(ctx, msg.Did)", "call keeper.GetDIDDocument", "if !cur.Empty()", "call cur.Empty", "if cur.Deactivated()", "call cur.Deactivated", "return nil,_", "call errors.Wrapf", "return nil,_", "call errors.Wrapf", "assign seq := types.InitialSequence", "assign _,err := _", "call VerifyDIDOwnership", "if err != nil", "return nil,err", "assign docWithSeq := types.NewDIDDocumentWithSeq(msg.Document, uint64(seq))", "call types.NewDIDDocumentWithSeq", "call uint64", "call keeper.SetDIDDocument", "return _,nil"]

/-- x/did/keeper.msgServer.DeactivateDID -/
def x_did_keeper_msgServer_DeactivateDID : List String := ["assign keeper := m.Keeper", "assign ctx := sdk.UnwrapSDKContext(goCtx)", "call sdk.UnwrapSDKContext", "assign docWithSeq := keeper.GetDIDDocument(ctx, msg.Did)", "call keeper.GetDIDDocument", "if docWithSeq.Empty()", "call docWithSeq.Empty", "return nil,_", "call errors.Wrapf", "if docWithSeq.Deactivated()", "call docWithSeq.Deactivated", "return nil,_", "call errors.Wrapf", "assign doc := _", "kv Id=msg.Did", "assign newSeq,err := _", "call VerifyDIDOwnership", "if err != nil", "return nil,err", "call keeper.SetDIDDocument", "call docWithSeq.Deactivate", "return _,nil"]

/-- x/did/keeper.msgServer.UpdateDID -/
def x_did_keeper_msgServer_UpdateDID : List String := ["assign keeper := m.Keeper", "assign ctx := sdk.UnwrapSDKContext(goCtx)", "call sdk.UnwrapSDKContext", "assign docWithSeq := keeper.GetDIDDocument(ctx, msg.Did)", "call keeper.GetDIDDocument", "if docWithSeq.Empty()", "call docWithSeq.Empty", "return nil,_", "call errors.Wrapf", "if docWithSeq.Deactivated()", "call docWithSeq.Deactivated", "return nil,_", "call errors.Wrapf", "assign newSeq,err := _", "call VerifyDIDOwnership", "if err != nil", "return nil,err", "assign newDocWithSeq := types.NewDIDDocumentWithSeq(msg.Document, newSeq)", "call types.NewDIDDocumentWithSeq", "call keeper.SetDIDDocument", "return _,nil"]

/-- x/did/types.DIDDocument.Empty -/
def x_did_types_DIDDocument_Empty : List String := ["return _", "call EmptyDID"]

/-- x/did/types.DIDDocument.GetSignBytes -/
def x_did_types_DIDDocument_GetSignBytes : List String := ["return _", "call sdk.MustSortJSON", "call ModuleCdc.MustMarshalJSON"]

/-- x/did/types.DIDDocument.Valid -/
def x_did_types_DIDDocument_Valid : List String := ["if doc.Empty()", "call doc.Empty", "return true", "if !ValidateDID(doc.Id) || doc.VerificationMethods == nil || doc.Authentications == nil", "call ValidateDID", "return false", "if doc.Controller != nil && !EmptyDIDs(*doc.Controller) && !ValidateDIDs(*doc.Controller)", "call EmptyDIDs", "call ValidateDIDs", "return false", "if doc.Contexts != nil && !ValidateContexts(*doc.Contexts)", "call ValidateContexts", "return false", "range doc.VerificationMethods", "if !verificationMethod.Valid(doc.Id)", "call verificationMethod.Valid", "return false", "if !doc.validVerificationRelationships(doc.Authentications)", "call doc.validVerificationRelationships", "return false", "if !doc.validVerificationRelationships(doc.AssertionMethods)", "call doc.validVerificationRelationships", "return false", "if !doc.validVerificationRelationships(doc.KeyAgreements)", "call doc.validVerificationRelationships", "return false", "if !doc.validVerificationRelationships(doc.CapabilityInvocations)", "call doc.validVerificationRelationships", "return false", "if !doc.validVerificationRelationships(doc.CapabilityDelegations)", "call doc.validVerificationRelationships", "return false", "range doc.Services", "if !service.Valid()", "call service.Valid", "return false", "return true"]

/-- x/did/types.DIDDocument.VerificationMethodByID -/
def x_did_types_DIDDocument_VerificationMethodByID : List String := ["range doc.VerificationMethods", "if verificationMethod.Id == id", "return _,true", "return _,false"]

/-- x/did/types.DIDDocument.VerificationMethodFrom -/
def x_did_types_DIDDocument_VerificationMethodFrom : List String := ["range relationships", "if relationship.hasDedicatedMethod()", "call relationship.hasDedicatedMethod", "assign veriMethod := relationship.GetVerificationMethod()", "call relationship.GetVerificationMethod", "if veriMethod.Id == id", "return _,true", "assign veriMethodID := relationship.GetVerificationMethodId()", "call relationship.GetVerificationMethodId", "if veriMethodID == id", "return _", "call doc.VerificationMethodByID", "return _,false"]

/-- x/did/types.DIDDocument.validVerificationRelationships -/
def x_did_types_DIDDocument_validVerificationRelationships : List String := ["range relationships", "if !relationship.Valid(doc.Id)", "call relationship.Valid", "return false", "if !relationship.hasDedicatedMethod()", "call relationship.hasDedicatedMethod", "if !ok", "assign _,ok := doc.VerificationMethodByID(relationship.GetVerificationMethodId())", "call doc.VerificationMethodByID", "call relationship.GetVerificationMethodId", "return false", "return true"]

/-- x/did/types.DIDDocumentWithSeq.Deactivate -/
def x_did_types_DIDDocumentWithSeq_Deactivate : List String := ["return _", "call NewDIDDocumentWithSeq"]

/-- x/did/types.DIDDocumentWithSeq.Deactivated -/
def x_did_types_DIDDocumentWithSeq_Deactivated : List String := ["return _", "call _.Empty"]

/-- x/did/types.DIDDocumentWithSeq.Empty -/
def x_did_types_DIDDocumentWithSeq_Empty : List String := ["return _", "call _.Empty"]

/-- x/did/types.DIDDocumentWithSeq.Valid -/
def x_did_types_DIDDocumentWithSeq_Valid : List String := ["return _", "call _.Valid"]

/-- x/did/types.DefaultGenesis -/
def x_did_types_DefaultGenesis : List String := ["return _"]

/-- x/did/types.EmptyDID -/
def x_did_types_EmptyDID : List String := ["return _", "lit \"\""]

/-- x/did/types.EmptyDIDs -/
def x_did_types_EmptyDIDs : List String := ["if len(strings) == 0", "call len", "lit 0", "return true", "range strings", "if !EmptyDID(did)", "call EmptyDID", "return false", "return true"]

/-- x/did/types.GenesisDIDDocumentKey.Marshal -/
def x_did_types_GenesisDIDDocumentKey_Marshal : List String := ["return _"]

/-- x/did/types.GenesisDIDDocumentKey.Unmarshal -/
def x_did_types_GenesisDIDDocumentKey_Unmarshal : List String := ["assign did := key", "if !ValidateDID(did)", "call ValidateDID", "return _", "call errors.Wrapf", "assign k.DID = did", "return nil"]

/-- x/did/types.GenesisState.Validate -/
def x_did_types_GenesisState_Validate : List String := ["range data.Documents", "if err != nil", "assign err := key.Unmarshal(bz)", "call key.Unmarshal", "return err", "if !doc.Valid()", "call doc.Valid", "return _", "call errors.Wrapf", "return nil"]

/-- x/did/types.JSONStringOrStrings.Marshal -/
def x_did_types_JSONStringOrStrings_Marshal : List String := ["return _", "call proto.Marshal", "call strings.protoType"]

/-- x/did/types.JSONStringOrStrings.MarshalJSON -/
def x_did_types_JSONStringOrStrings_MarshalJSON : List String := ["if len(strings) == 1", "call len", "lit 1", "return _", "call json.Marshal", "lit 0", "return _", "call json.Marshal", "call ?"]

/-- x/did/types.JSONStringOrStrings.MarshalTo -/
def x_did_types_JSONStringOrStrings_MarshalTo : List String := ["return _", "call _.MarshalTo", "call strings.protoType"]

/-- x/did/types.JSONStringOrStrings.Size -/
def x_did_types_JSONStringOrStrings_Size : List String := ["return _", "call _.Size", "call strings.protoType"]

/-- x/did/types.JSONStringOrStrings.Unmarshal -/
def x_did_types_JSONStringOrStrings_Unmarshal : List String := ["assign protoType := _", "if err != nil", "assign err := proto.Unmarshal(data, protoType)", "call proto.Unmarshal", "return err", "assign *strings = protoType.Values", "return nil"]

/-- x/did/types.JSONStringOrStrings.UnmarshalJSON -/
def x_did_types_JSONStringOrStrings_UnmarshalJSON : List String := ["assign err := json.Unmarshal(data, &single)", "call json.Unmarshal", "if err == nil", "assign *strings = _", "return nil", "if err != nil", "assign err := json.Unmarshal(data, &multiple)", "call json.Unmarshal", "return err", "assign *strings = multiple", "return nil"]

/-- x/did/types.JSONStringOrStrings.protoType -/
def x_did_types_JSONStringOrStrings_protoType : List String := ["assign values := make([]string, 0, len(strings))", "call make", "lit 0", "call len", "range strings", "assign values = append(values, s)", "call append", "return _"]

/-- x/did/types.MsgCreateDIDRequest.GetSignBytes -/
def x_did_types_MsgCreateDIDRequest_GetSignBytes : List String := ["return _", "call sdk.MustSortJSON", "call ModuleCdc.MustMarshalJSON"]

/-- x/did/types.MsgCreateDIDRequest.GetSigners -/
def x_did_types_MsgCreateDIDRequest_GetSigners : List String := ["assign creator,err := sdk.AccAddressFromBech32(msg.FromAddress)", "call sdk.AccAddressFromBech32", "if err != nil", "call panic", "return _"]

/-- x/did/types.MsgCreateDIDRequest.Route -/
def x_did_types_MsgCreateDIDRequest_Route : List String := ["return RouterKey"]

/-- x/did/types.MsgCreateDIDRequest.Type -/
def x_did_types_MsgCreateDIDRequest_Type : List String := ["return \"create_did\"", "lit \"create_did\""]

/-- x/did/types.MsgCreateDIDRequest.ValidateBasic -/
def x_did_types_MsgCreateDIDRequest_ValidateBasic : List String := ["if !ValidateDID(msg.Did)", "call ValidateDID", "return _", "call errors.Wrapf", "if msg.Document == nil || !msg.Document.Valid()", "call _.Valid", "return _", "call errors.Wrapf", "if msg.Document.Id != msg.Did", "return _", "call errors.Wrapf", "if msg.Signature == nil || len(msg.Signature) == 0", "call len", "lit 0", "return _", "call errors.Wrapf", "assign addr,err := sdk.AccAddressFromBech32(msg.FromAddress)", "call sdk.AccAddressFromBech32", "if err != nil", "return err", "if addr.Empty()", "call addr.Empty", "return _", "call errors.Wrapf", "call addr.String", "return nil"]

/-- x/did/types.MsgDeactivateDIDRequest.GetSignBytes -/
def x_did_types_MsgDeactivateDIDRequest_GetSignBytes : List String := ["return _", "call sdk.MustSortJSON", "call ModuleCdc.MustMarshalJSON"]

/-- x/did/types.MsgDeactivateDIDRequest.GetSigners -/
def x_did_types_MsgDeactivateDIDRequest_GetSigners : List String := ["assign creator,err := sdk.AccAddressFromBech32(msg.FromAddress)", "call sdk.AccAddressFromBech32", "if err != nil", "call panic", "return _"]

/-- x/did/types.MsgDeactivateDIDRequest.Route -/
def x_did_types_MsgDeactivateDIDRequest_Route : List String := ["return RouterKey"]

/-- x/did/types.MsgDeactivateDIDRequest.Type -/
def x_did_types_MsgDeactivateDIDRequest_Type : List String := ["return \"deactivate_did\"", "lit \"deactivate_did\""]

/-- x/did/types.MsgDeactivateDIDRequest.ValidateBasic -/
def x_did_types_MsgDeactivateDIDRequest_ValidateBasic : List String := ["if !ValidateDID(msg.Did)", "call ValidateDID", "return _", "call errors.Wrapf", "if msg.Signature == nil || len(msg.Signature) == 0", "call len", "lit 0", "return _", "call errors.Wrapf", "assign addr,err := sdk.AccAddressFromBech32(msg.FromAddress)", "call sdk.AccAddressFromBech32", "if err != nil", "return err", "if addr.Empty()", "call addr.Empty", "return _", "call errors.Wrapf", "call addr.String", "return nil"]

/-- x/did/types.MsgUpdateDIDRequest.GetSignBytes -/
def x_did_types_MsgUpdateDIDRequest_GetSignBytes : List String := ["return _", "call sdk.MustSortJSON", "call ModuleCdc.MustMarshalJSON"]

/-- x/did/types.MsgUpdateDIDRequest.GetSigners -/
def x_did_types_MsgUpdateDIDRequest_GetSigners : List String := ["assign creator,err := sdk.AccAddressFromBech32(msg.FromAddress)", "call sdk.AccAddressFromBech32", "if err != nil", "call panic", "return _"]

/-- x/did/types.MsgUpdateDIDRequest.Route -/
def x_did_types_MsgUpdateDIDRequest_Route : List String := ["return RouterKey"]

/-- x/did/types.MsgUpdateDIDRequest.Type -/
def x_did_types_MsgUpdateDIDRequest_Type : List String := ["return \"update_did\"", "lit \"update_did\""]

/-- x/did/types.MsgUpdateDIDRequest.ValidateBasic -/
def x_did_types_MsgUpdateDIDRequest_ValidateBasic : List String := ["if !ValidateDID(msg.Did)", "call ValidateDID", "return _", "call errors.Wrapf", "if msg.Document == nil || !msg.Document.Valid()", "call _.Valid", "return _", "call errors.Wrapf", "if msg.Document.Id != msg.Did", "return _", "call errors.Wrapf", "if msg.Signature == nil || len(msg.Signature) == 0", "call len", "lit 0", "return _", "call errors.Wrapf", "assign addr,err := sdk.AccAddressFromBech32(msg.FromAddress)", "call sdk.AccAddressFromBech32", "if err != nil", "return err", "if addr.Empty()", "call addr.Empty", "return _", "call errors.Wrapf", "call addr.String", "return nil"]

/-- x/did/types.NewDID -/
def x_did_types_NewDID : List String := ["assign hash := sha256.New()", "call sha256.New", "assign _,err := hash.Write(pubKey)", "call hash.Write", "if err != nil", "call panic", "lit \"failed to calculate SHA256 for DID\"", "assign idStr := base58.Encode(hash.Sum(nil))", "call base58.Encode", "call hash.Sum", "return _", "call fmt.Sprintf", "lit \"did:%s:%s\""]

/-- x/did/types.NewDIDDocument -/
def x_did_types_NewDIDDocument : List String := ["assign doc := _", "kv Contexts", "kv Id=id", "range opts", "call opt", "return doc"]

/-- x/did/types.NewDIDDocumentWithSeq -/
def x_did_types_NewDIDDocumentWithSeq : List String := ["return _", "kv Document=doc", "kv Sequence=seq"]

/-- x/did/types.NewMsgCreateDIDResponse -/
def x_did_types_NewMsgCreateDIDResponse : List String := ["return _", "kv Did=did", "kv Document=&document", "kv VerificationMethodId=VerificationMethodID", "kv Signature=Signature", "kv FromAddress=FromAddress"]

/-- x/did/types.NewMsgDeactivateDIDRequest -/
def x_did_types_NewMsgDeactivateDIDRequest : List String := ["return _"]

/-- x/did/types.NewMsgUpdateDID -/
def x_did_types_NewMsgUpdateDID : List String := ["return _", "kv Did=did", "kv Document=&doc", "kv VerificationMethodId=verificationMethodID", "kv Signature=sig", "kv FromAddress=fromAddr"]

/-- x/did/types.NewService -/
def x_did_types_NewService : List String := ["return _", "kv Id=id", "kv Type=type_", "kv ServiceEndpoint=serviceEndpoint"]

/-- x/did/types.NewVerificationMethod -/
def x_did_types_NewVerificationMethod : List String := ["return _", "kv Id=id", "kv Type=keyType", "kv Controller=controller", "kv PublicKeyBase58=base58.Encode(pubKey)", "call base58.Encode"]

/-- x/did/types.NewVerificationMethodID -/
def x_did_types_NewVerificationMethodID : List String := ["return _", "call fmt.Sprintf", "lit \"%v#%s\""]

/-- x/did/types.NewVerificationRelationship -/
def x_did_types_NewVerificationRelationship : List String := ["return _", "kv Content", "kv VerificationMethodId=verificationMethodID"]

/-- x/did/types.NewVerificationRelationshipDedicated -/
def x_did_types_NewVerificationRelationshipDedicated : List String := ["return _", "kv Content", "kv VerificationMethod=&verificationMethod"]

/-- x/did/types.ParseDID -/
def x_did_types_ParseDID : List String := ["assign did := str", "if !ValidateDID(did)", "call ValidateDID", "return \"\",_", "lit \"\"", "call errors.Wrapf", "return did,nil"]

/-- x/did/types.ParseVerificationMethodID -/
def x_did_types_ParseVerificationMethodID : List String := ["assign methodID := id", "if !ValidateVerificationMethodID(id, did)", "call ValidateVerificationMethodID", "return \"\",_", "lit \"\"", "call errors.Wrapf", "return methodID,nil"]

/-- x/did/types.RegisterCodec -/
def x_did_types_RegisterCodec : List String := ["call cdc.RegisterConcrete", "lit \"did/CreateDID\"", "call cdc.RegisterConcrete", "lit \"did/UpdateDID\"", "call cdc.RegisterConcrete", "lit \"did/DeactivateDID\""]

/-- x/did/types.RegisterInterfaces -/
def x_did_types_RegisterInterfaces : List String := ["call registry.RegisterImplementations", "call ?", "call msgservice.RegisterMsgServiceDesc"]

/-- x/did/types.Service.Valid -/
def x_did_types_Service_Valid : List String := ["return _", "lit \"\"", "lit \"\"", "lit \"\""]

/-- x/did/types.Sign -/
def x_did_types_Sign : List String := ["return _", "call privKey.Sign", "call mustGetSignBytesWithSeq"]

/-- x/did/types.ValidateContext -/
def x_did_types_ValidateContext : List String := ["return _", "lit \"\""]

/-- x/did/types.ValidateContexts -/
def x_did_types_ValidateContexts : List String := ["if len(contexts) == 0 || contexts[0] != ContextDIDV1", "call len", "lit 0", "lit 0", "return false", "assign set := _", "call make", "call len", "range contexts", "assign _,dup := set[context]", "if dup || !ValidateContext(context)", "call ValidateContext", "return false", "assign set[context] = _", "return true"]

/-- x/did/types.ValidateDID -/
def x_did_types_ValidateDID : List String := ["assign pattern := fmt.Sprintf(\"^%s$\", didRegex())", "call fmt.Sprintf", "lit \"^%s$\"", "call didRegex", "assign matched,_ := regexp.MatchString(pattern, did)", "call regexp.MatchString", "return matched"]

/-- x/did/types.ValidateDIDs -/
def x_did_types_ValidateDIDs : List String := ["if EmptyDIDs(strings)", "call EmptyDIDs", "return false", "range strings", "if !ValidateDID(did)", "call ValidateDID", "return false", "return true"]

/-- x/did/types.ValidateKeyType -/
def x_did_types_ValidateKeyType : List String := ["switch keyType", "case JSONWEBKEY_2020,ES256K_2019,ES256K_2018,ED25519_2018,BLS1281G1_2020,BLS1281G2_2020,GPG_2020,RSA_2018,X25519_2019,SS256K_2019,ES256K_R_2020", "return true", "if keyType == \"\"", "lit \"\"", "return false", "call log.Printf", "return true"]

/-- x/did/types.ValidateVerificationMethodID -/
def x_did_types_ValidateVerificationMethodID : List String := ["assign prefix := fmt.Sprintf(\"%v#\", did)", "call fmt.Sprintf", "lit \"%v#\"", "if !strings.HasPrefix(verificationMethodID, prefix)", "call strings.HasPrefix", "return false", "if len(verificationMethodID)-len(prefix) > MaxVerificationMethodIDLen", "op -", "call len", "call len", "return false", "assign suffix := verificationMethodID[len(prefix):]", "call len", "assign matched,_ := regexp.MatchString(`^\\S+$`, suffix)", "call regexp.MatchString", "lit `^\\S+$`", "return matched"]

/-- x/did/types.VerificationMethod.Valid -/
def x_did_types_VerificationMethod_Valid : List String := ["if !ValidateVerificationMethodID(pk.Id, did) || !ValidateKeyType(pk.Type)", "call ValidateVerificationMethodID", "call ValidateKeyType", "return false", "assign pattern := fmt.Sprintf(\"^[%s]+$\", Base58Charset)", "call fmt.Sprintf", "lit \"^[%s]+$\"", "assign matched,_ := regexp.MatchString(pattern, pk.PublicKeyBase58)", "call regexp.MatchString", "return matched"]

/-- x/did/types.VerificationRelationship.MarshalJSON -/
def x_did_types_VerificationRelationship_MarshalJSON : List String := ["if v.hasDedicatedMethod()", "call v.hasDedicatedMethod", "return _", "call json.Marshal", "call v.GetVerificationMethod", "return _", "call json.Marshal", "call v.GetVerificationMethodId"]

/-- x/did/types.VerificationRelationship.UnmarshalJSON -/
def x_did_types_VerificationRelationship_UnmarshalJSON : List String := ["assign err := json.Unmarshal(bz, &verificationMethodID)", "call json.Unmarshal", "if err == nil", "assign *v = NewVerificationRelationship(verificationMethodID)", "call NewVerificationRelationship", "return nil", "if err != nil", "assign err := jsonpb.Unmarshal(bytes.NewReader(bz), &verificationMethod)", "call jsonpb.Unmarshal", "call bytes.NewReader", "return err", "assign *v = NewVerificationRelationshipDedicated(verificationMethod)", "call NewVerificationRelationshipDedicated", "return nil"]

/-- x/did/types.VerificationRelationship.Valid -/
def x_did_types_VerificationRelationship_Valid : List String := ["if v.hasDedicatedMethod()", "call v.hasDedicatedMethod", "return _", "call _.Valid", "call v.GetVerificationMethod", "return _", "call ValidateVerificationMethodID", "call v.GetVerificationMethodId"]

/-- x/did/types.VerificationRelationship.hasDedicatedMethod -/
def x_did_types_VerificationRelationship_hasDedicatedMethod : List String := ["return _", "call v.GetVerificationMethod"]

/-- x/did/types.Verify -/
def x_did_types_Verify : List String := ["assign signBytes := mustGetSignBytesWithSeq(signableData, seq)", "call mustGetSignBytesWithSeq", "if !pubKey.VerifySignature(signBytes, signature)", "call pubKey.VerifySignature", "return 0,false", "lit 0", "return _,true", "call nextSequence"]

/-- x/did/types.WithAssertionMethods -/
def x_did_types_WithAssertionMethods : List String := ["return _", "assign opts.AssertionMethods = assertionMethods"]

/-- x/did/types.WithAuthentications -/
def x_did_types_WithAuthentications : List String := ["return _", "assign opts.Authentications = authentications"]

/-- x/did/types.WithCapabilityDelegations -/
def x_did_types_WithCapabilityDelegations : List String := ["return _", "assign opts.CapabilityDelegations = capabilityDelegations"]

/-- x/did/types.WithCapabilityInvocations -/
def x_did_types_WithCapabilityInvocations : List String := ["return _", "assign opts.CapabilityInvocations = capabilityInvocations"]

/-- x/did/types.WithController -/
def x_did_types_WithController : List String := ["return _", "assign opts.Controller = _"]

/-- x/did/types.WithKeyAgreements -/
def x_did_types_WithKeyAgreements : List String := ["return _", "assign opts.KeyAgreements = keyAgreements"]

/-- x/did/types.WithServices -/
def x_did_types_WithServices : List String := ["return _", "assign opts.Services = services"]

/-- x/did/types.WithVerificationMethods -/
def x_did_types_WithVerificationMethods : List String := ["return _", "assign opts.VerificationMethods = verificationMethods"]

/-- x/did/types.didRegex -/
def x_did_types_didRegex : List String := ["return _", "call fmt.Sprintf", "lit \"did:%s:[%s]{32,44}\""]

/-- x/did/types.mustGetSignBytesWithSeq -/
def x_did_types_mustGetSignBytesWithSeq : List String := ["assign dAtA,err := signableData.Marshal()", "call signableData.Marshal", "if err != nil", "call panic", "call fmt.Sprintf", "lit \"marshal failed: %s, signableData: %s\"", "call err.Error", "assign dataWithSeq := _", "kv Data=dAtA", "kv Sequence=seq", "assign dAtA,err = dataWithSeq.Marshal()", "call dataWithSeq.Marshal", "if err != nil", "call panic", "call fmt.Sprintf", "lit \"marshal failed: %s, dataWithSeq: %v\"", "call err.Error", "return dAtA"]

/-- x/did/types.nextSequence -/
def x_did_types_nextSequence : List String := ["return _", "op +", "lit 1"]

/-- x/pnft.AppModule.BeginBlock -/
def x_pnft_AppModule_BeginBlock : List String := []

/-- x/pnft.AppModule.ConsensusVersion -/
def x_pnft_AppModule_ConsensusVersion : List String := ["return 1", "lit 1"]

/-- x/pnft.AppModule.EndBlock -/
def x_pnft_AppModule_EndBlock : List String := ["return _"]

/-- x/pnft.AppModule.ExportGenesis -/
def x_pnft_AppModule_ExportGenesis : List String := ["assign genState := ExportGenesis(ctx, am.keeper)", "call ExportGenesis", "return _", "call cdc.MustMarshalJSON"]

/-- x/pnft.AppModule.InitGenesis -/
def x_pnft_AppModule_InitGenesis : List String := ["call cdc.MustUnmarshalJSON", "call InitGenesis", "return _"]

/-- x/pnft.AppModule.QuerierRoute -/
def x_pnft_AppModule_QuerierRoute : List String := ["return _"]

/-- x/pnft.AppModule.RegisterInvariants -/
def x_pnft_AppModule_RegisterInvariants : List String := []

/-- x/pnft.AppModule.RegisterServices -/
def x_pnft_AppModule_RegisterServices : List String := ["call types.RegisterQueryServer", "call cfg.QueryServer", "call types.RegisterMsgServer", "call cfg.MsgServer", "call keeper.NewMsgServerImpl"]

/-- x/pnft.AppModuleBasic.DefaultGenesis -/
def x_pnft_AppModuleBasic_DefaultGenesis : List String := ["return _", "call cdc.MustMarshalJSON", "call types.DefaultGenesis"]

/-- x/pnft.AppModuleBasic.GetQueryCmd -/
def x_pnft_AppModuleBasic_GetQueryCmd : List String := ["return _", "call cli.NewGetQueryCmd"]

/-- x/pnft.AppModuleBasic.GetTxCmd -/
def x_pnft_AppModuleBasic_GetTxCmd : List String := ["return _", "call cli.NewTxCmd"]

/-- x/pnft.AppModuleBasic.Name -/
def x_pnft_AppModuleBasic_Name : List String := ["return _"]

/-- x/pnft.AppModuleBasic.RegisterGRPCGatewayRoutes -/
def x_pnft_AppModuleBasic_RegisterGRPCGatewayRoutes : List String := ["if err != nil", "assign err := _", "call types.RegisterQueryHandlerClient", "call context.Background", "call types.NewQueryClient", "call panic"]

/-- x/pnft.AppModuleBasic.RegisterInterfaces -/
def x_pnft_AppModuleBasic_RegisterInterfaces : List String := ["call types.RegisterInterfaces"]

/-- x/pnft.AppModuleBasic.RegisterLegacyAminoCodec -/
def x_pnft_AppModuleBasic_RegisterLegacyAminoCodec : List String := ["call types.RegisterCodec"]

/-- x/pnft.AppModuleBasic.ValidateGenesis -/
def x_pnft_AppModuleBasic_ValidateGenesis : List String := ["if err != nil", "assign err := cdc.UnmarshalJSON(bz, &genState)", "call cdc.UnmarshalJSON", "return _", "call fmt.Errorf", "return _", "call genState.ValidateBasic"]

/-- x/pnft.ExportGenesis -/
def x_pnft_ExportGenesis : List String := ["assign genesis := types.DefaultGenesis()", "call types.DefaultGenesis", "assign denoms,err := k.GetAllDenoms(ctx)", "call k.GetAllDenoms", "if err != nil", "call panic", "range denoms", "assign pnftsByDenom,err := k.GetPNFTsByDenomId(ctx, denom.Id)", "call k.GetPNFTsByDenomId", "if err != nil", "call panic", "assign pnfts = append(pnfts, pnftsByDenom...)", "call append", "assign genesis.Denoms = denoms", "assign genesis.Pnfts = pnfts", "return genesis"]

/-- x/pnft.InitGenesis -/
def x_pnft_InitGenesis : List String := ["range genState.Denoms", "if err != nil", "assign err := k.SaveDenom(ctx, denom)", "call k.SaveDenom", "call panic", "range genState.Pnfts", "if err != nil", "assign err := k.ImportPNFT(ctx, pnft)", "call k.ImportPNFT", "call panic"]

/-- x/pnft.NewAppModule -/
def x_pnft_NewAppModule : List String := ["return _", "kv AppModuleBasic=NewAppModuleBasic(cdc)", "call NewAppModuleBasic", "kv keeper=keeper"]

/-- x/pnft.NewAppModuleBasic -/
def x_pnft_NewAppModuleBasic : List String := ["return _", "kv cdc=cdc"]

/-- x/pnft/keeper.Keeper.BurnPNFT -/
def x_pnft_keeper_Keeper_BurnPNFT : List String := ["assign pnft,err := k.GetPNFT(ctx, denomId, id)", "call k.GetPNFT", "if err != nil", "return err", "if burner != pnft.Owner", "return _", "call fmt.Errorf", "if err != nil", "assign err := k.nftKeeper.Burn(ctx, denomId, id)", "call _.Burn", "return err", "return _", "call _.EmitTypedEvent", "call ctx.EventManager", "kv DenomId=pnft.DenomId", "kv Id=pnft.Id", "kv Burner=burner"]

/-- x/pnft/keeper.Keeper.DeleteDenom -/
def x_pnft_keeper_Keeper_DeleteDenom : List String := ["assign denom,err := k.GetDenom(ctx, id)", "call k.GetDenom", "if err != nil", "return err", "if remover != denom.Owner", "return _", "call fmt.Errorf", "if supply > 0", "assign supply := k.nftKeeper.GetTotalSupply(ctx, id)", "call _.GetTotalSupply", "lit 0", "return _", "call fmt.Errorf", "assign store := ctx.KVStore(k.storeKey)", "call ctx.KVStore", "call store.Delete", "call classStoreKey", "return _", "call _.EmitTypedEvent", "call ctx.EventManager", "kv Id=denom.Id", "kv Remover=remover"]

/-- x/pnft/keeper.Keeper.Denom -/
def x_pnft_keeper_Keeper_Denom : List String := ["if request == nil", "return nil,_", "call status.Error", "assign ctx := sdk.UnwrapSDKContext(goCtx)", "call sdk.UnwrapSDKContext", "assign denom,err := k.GetDenom(ctx, request.Id)", "call k.GetDenom", "if err != nil", "return nil,err", "return _,nil", "kv Denom=denom"]

/-- x/pnft/keeper.Keeper.Denoms -/
def x_pnft_keeper_Keeper_Denoms : List String := ["if request == nil", "return nil,_", "call status.Error", "assign classRes,err := _", "call _.Classes", "kv Pagination=request.Pagination", "if err != nil", "return nil,err", "assign denoms,err := k.ParseDenoms(classRes.GetClasses())", "call k.ParseDenoms", "call classRes.GetClasses", "if err != nil", "return nil,err", "return _,nil", "kv Denoms=denoms", "kv Pagination=classRes.Pagination"]

/-- x/pnft/keeper.Keeper.DenomsByOwner -/
def x_pnft_keeper_Keeper_DenomsByOwner : List String := ["if request == nil", "return nil,_", "call status.Error", "assign allDenoms,err := k.GetAllDenoms(sdk.UnwrapSDKContext(goCtx))", "call k.GetAllDenoms", "call sdk.UnwrapSDKContext", "if err != nil", "return nil,err", "range allDenoms", "if denom.Owner == request.Owner", "assign denoms = append(denoms, denom)", "call append", "return _,nil", "kv Denoms=denoms"]

/-- x/pnft/keeper.Keeper.GetAllDenoms -/
def x_pnft_keeper_Keeper_GetAllDenoms : List String := ["assign classes := k.nftKeeper.GetClasses(ctx)", "call _.GetClasses", "range classes", "assign denom,err := types.NewDenomFromClass(k.cdc, class)", "call types.NewDenomFromClass", "if err != nil", "return nil,err", "assign denoms = append(denoms, denom)", "call append", "return denoms,nil"]

/-- x/pnft/keeper.Keeper.GetDenom -/
def x_pnft_keeper_Keeper_GetDenom : List String := ["assign class,found := k.nftKeeper.GetClass(ctx, id)", "call _.GetClass", "if !found", "return nil,_", "call fmt.Errorf", "return _", "call types.NewDenomFromClass"]

/-- x/pnft/keeper.Keeper.GetPNFT -/
def x_pnft_keeper_Keeper_GetPNFT : List String := ["assign nft,exist := k.nftKeeper.GetNFT(ctx, denomId, id)", "call _.GetNFT", "if !exist", "return nil,_", "call fmt.Errorf", "assign ownerAddr := k.nftKeeper.GetOwner(ctx, denomId, id)", "call _.GetOwner", "if err != nil", "assign err := k.cdc.Unmarshal(nft.Data.GetValue(), &meta)", "call _.Unmarshal", "call _.GetValue", "return nil,err", "return _,nil", "kv DenomId=nft.ClassId", "kv Id=nft.Id", "kv Name=meta.Name", "kv Description=meta.Description", "kv Uri=nft.Uri", "kv UriHash=nft.UriHash", "kv Data=meta.Data", "kv Creator=meta.Creator", "kv Owner=ownerAddr.String()", "call ownerAddr.String", "kv CreatedAt=meta.CreatedAt"]

/-- x/pnft/keeper.Keeper.GetPNFTsByDenomId -/
def x_pnft_keeper_Keeper_GetPNFTsByDenomId : List String := ["range k.nftKeeper.GetNFTsOfClass(ctx, denomId)", "call _.GetNFTsOfClass", "if err != nil", "assign err := k.cdc.Unmarshal(n.Data.GetValue(), &meta)", "call _.Unmarshal", "call _.GetValue", "return nil,err", "assign ownerAddr := k.nftKeeper.GetOwner(ctx, denomId, n.Id)", "call _.GetOwner", "assign pnfts = _", "call append", "kv DenomId=n.ClassId", "kv Id=n.Id", "kv Name=meta.Name", "kv Description=meta.Description", "kv Uri=n.Uri", "kv UriHash=n.UriHash", "kv Data=meta.Data", "kv Creator=meta.Creator", "kv Owner=ownerAddr.String()", "call ownerAddr.String", "kv CreatedAt=meta.CreatedAt", "return pnfts,nil"]

/-- x/pnft/keeper.Keeper.GetPNFTsByDenomIdAndOwner -/
def x_pnft_keeper_Keeper_GetPNFTsByDenomIdAndOwner : List String := ["assign ownerAddr,err := sdk.AccAddressFromBech32(owner)", "call sdk.AccAddressFromBech32", "if err != nil", "return nil,err", "range k.nftKeeper.GetNFTsOfClassByOwner(ctx, denomId, ownerAddr)", "call _.GetNFTsOfClassByOwner", "if err != nil", "assign err := k.cdc.Unmarshal(n.Data.GetValue(), &meta)", "call _.Unmarshal", "call _.GetValue", "return nil,err", "assign ownerAddr := k.nftKeeper.GetOwner(ctx, denomId, n.Id)", "call _.GetOwner", "assign pnfts = _", "call append", "kv DenomId=n.ClassId", "kv Id=n.Id", "kv Name=meta.Name", "kv Description=meta.Description", "kv Uri=n.Uri", "kv UriHash=n.UriHash", "kv Data=meta.Data", "kv Creator=meta.Creator", "kv Owner=ownerAddr.String()", "call ownerAddr.String", "kv CreatedAt=meta.CreatedAt", "return pnfts,nil"]

/-- x/pnft/keeper.Keeper.ImportPNFT -/
def x_pnft_keeper_Keeper_ImportPNFT : List String := ["assign meta,err := _", "call codectypes.NewAnyWithValue", "kv Name=pnft.Name", "kv Description=pnft.Description", "kv Creator=pnft.Creator", "kv CreatedAt=pnft.CreatedAt", "kv Data=pnft.Data", "if err != nil", "return err", "assign owner,err := sdk.AccAddressFromBech32(pnft.Owner)", "call sdk.AccAddressFromBech32", "if err != nil", "return err", "return _", "call _.Mint", "kv ClassId=pnft.DenomId", "kv Id=pnft.Id", "kv Uri=pnft.Uri", "kv UriHash=pnft.UriHash", "kv Data=meta"]

/-- x/pnft/keeper.Keeper.Logger -/
def x_pnft_keeper_Keeper_Logger : List String := ["return _", "call _.With", "call ctx.Logger", "lit \"module\"", "call fmt.Sprintf", "lit \"OmniFlix/%s\""]

/-- x/pnft/keeper.Keeper.MintPNFT -/
def x_pnft_keeper_Keeper_MintPNFT : List String := ["assign denom,err := k.GetDenom(ctx, pnft.DenomId)", "call k.GetDenom", "if err != nil", "return err", "if denom.Owner != pnft.Creator", "return _", "call fmt.Errorf", "assign meta,err := _", "call codectypes.NewAnyWithValue", "kv Name=pnft.Name", "kv Description=pnft.Description", "kv Creator=pnft.Creator", "kv CreatedAt=pnft.CreatedAt", "kv Data=pnft.Data", "if err != nil", "return err", "assign sdkNFT := _", "kv ClassId=denom.Id", "kv Id=pnft.Id", "kv Uri=pnft.Uri", "kv UriHash=pnft.UriHash", "kv Data=meta", "assign receiver,err := sdk.AccAddressFromBech32(pnft.Creator)", "call sdk.AccAddressFromBech32", "if err != nil", "return err", "if err != nil", "assign err := k.nftKeeper.Mint(ctx, sdkNFT, receiver)", "call _.Mint", "return err", "return _", "call _.EmitTypedEvent", "call ctx.EventManager", "kv DenomId=pnft.DenomId", "kv Id=pnft.Id", "kv Creator=pnft.Creator"]

/-- x/pnft/keeper.Keeper.PNFT -/
def x_pnft_keeper_Keeper_PNFT : List String := ["if request == nil", "return nil,_", "call status.Error", "assign ctx := sdk.UnwrapSDKContext(goCtx)", "call sdk.UnwrapSDKContext", "assign pnft,err := k.GetPNFT(ctx, request.DenomId, request.Id)", "call k.GetPNFT", "if err != nil", "return nil,err", "return _,nil", "kv Pnft=pnft"]

/-- x/pnft/keeper.Keeper.PNFTs -/
def x_pnft_keeper_Keeper_PNFTs : List String := ["if request == nil", "return nil,_", "call status.Error", "assign ctx := sdk.UnwrapSDKContext(goCtx)", "call sdk.UnwrapSDKContext", "assign pnfts,err := k.GetPNFTsByDenomId(ctx, request.DenomId)", "call k.GetPNFTsByDenomId", "if err != nil", "return nil,err", "return _,nil", "kv Pnfts=pnfts"]

/-- x/pnft/keeper.Keeper.PNFTsByDenomOwner -/
def x_pnft_keeper_Keeper_PNFTsByDenomOwner : List String := ["if request == nil", "return nil,_", "call status.Error", "assign ctx := sdk.UnwrapSDKContext(goCtx)", "call sdk.UnwrapSDKContext", "assign pnfts,err := k.GetPNFTsByDenomIdAndOwner(ctx, request.DenomId, request.Owner)", "call k.GetPNFTsByDenomIdAndOwner", "if err != nil", "return nil,err", "return _,nil", "kv Pnfts=pnfts"]

/-- x/pnft/keeper.Keeper.ParseDenoms -/
def x_pnft_keeper_Keeper_ParseDenoms : List String := ["range classes", "assign denom,err := types.NewDenomFromClass(k.cdc, class)", "call types.NewDenomFromClass", "if err != nil", "return nil,err", "assign denoms = append(denoms, denom)", "call append", "return denoms,nil"]

/-- x/pnft/keeper.Keeper.SaveDenom -/
def x_pnft_keeper_Keeper_SaveDenom : List String := ["assign class,err := types.NewClassFromDenom(k.cdc, denom)", "call types.NewClassFromDenom", "if err != nil", "return err", "if err != nil", "assign err := k.nftKeeper.SaveClass(ctx, *class)", "call _.SaveClass", "return err", "return _", "call _.EmitTypedEvent", "call ctx.EventManager", "kv Id=denom.Id", "kv Creator=denom.Owner"]

/-- x/pnft/keeper.Keeper.TransferDenomOwner -/
def x_pnft_keeper_Keeper_TransferDenomOwner : List String := ["assign denom,err := k.GetDenom(ctx, id)", "call k.GetDenom", "if err != nil", "return err", "if sender != denom.Owner", "return _", "call fmt.Errorf", "assign denom.Owner = receiver", "assign class,err := types.NewClassFromDenom(k.cdc, denom)", "call types.NewClassFromDenom", "if err != nil", "return err", "if err != nil", "assign err := k.nftKeeper.UpdateClass(ctx, *class)", "call _.UpdateClass", "return err", "return _", "call _.EmitTypedEvent", "call ctx.EventManager", "kv Id=denom.Id", "kv Sender=sender", "kv Receiver=receiver"]

/-- x/pnft/keeper.Keeper.TransferPNFT -/
def x_pnft_keeper_Keeper_TransferPNFT : List String := ["assign pnft,err := k.GetPNFT(ctx, denomId, id)", "call k.GetPNFT", "if err != nil", "return err", "if sender != pnft.Owner", "return _", "call fmt.Errorf", "assign receiverAddr,err := sdk.AccAddressFromBech32(receiver)", "call sdk.AccAddressFromBech32", "if err != nil", "return err", "if err != nil", "assign err := k.nftKeeper.Transfer(ctx, denomId, id, receiverAddr)", "call _.Transfer", "return err", "return _", "call _.EmitTypedEvent", "call ctx.EventManager", "kv DenomId=pnft.DenomId", "kv Id=pnft.Id", "kv Sender=sender", "kv Receiver=receiver"]

/-- x/pnft/keeper.Keeper.UpdateDenom -/
def x_pnft_keeper_Keeper_UpdateDenom : List String := ["assign denom,err := k.GetDenom(ctx, msg.GetId())", "call k.GetDenom", "call msg.GetId", "if err != nil", "return err", "assign updater := msg.Owner", "if updater != denom.Owner", "return _", "call fmt.Errorf", "if msg.Name != \"\"", "lit \"\"", "assign denom.Name = msg.Name", "if msg.Symbol != \"\"", "lit \"\"", "assign denom.Symbol = msg.Symbol", "if msg.Description != \"\"", "lit \"\"", "assign denom.Description = msg.Description", "if msg.Uri != \"\"", "lit \"\"", "assign denom.Uri = msg.Uri", "if msg.UriHash != \"\"", "lit \"\"", "assign denom.UriHash = msg.UriHash", "if msg.Data != \"\"", "lit \"\"", "assign denom.Data = msg.Data", "assign class,err := types.NewClassFromDenom(k.cdc, denom)", "call types.NewClassFromDenom", "if err != nil", "return err", "if err != nil", "assign err := k.nftKeeper.UpdateClass(ctx, *class)", "call _.UpdateClass", "return err", "return _", "call _.EmitTypedEvent", "call ctx.EventManager", "kv Id=denom.Id", "kv Updater=updater"]

/-- x/pnft/keeper.NewKeeper -/
def x_pnft_keeper_NewKeeper : List String := ["return _", "kv cdc=cdc", "kv storeKey=storeKey", "kv nftKeeper=nftkeeper.NewKeeper(storeKey, cdc, ak, bk)", "call nftkeeper.NewKeeper"]

/-- x/pnft/keeper.NewMsgServerImpl -/
def x_pnft_keeper_NewMsgServerImpl : List String := ["return _", "kv Keeper=keeper"]

/-- x/pnft/keeper.classStoreKey -/
def x_pnft_keeper_classStoreKey : List String := ["assign key := make([]byte, len(nftkeeper.ClassKey)+len(classID))", "call make", "op +", "call len", "call len", "call copy", "call copy", "call len", "return key"]

/-- x/pnft/keeper.msgServer.BurnPNFT -/
def x_pnft_keeper_msgServer_BurnPNFT : List String := ["assign ctx := sdk.UnwrapSDKContext(goCtx)", "call sdk.UnwrapSDKContext", "if err != nil", "assign err := request.ValidateBasic()", "call request.ValidateBasic", "return nil,_", "call errors.Wrap", "call err.Error", "if err != nil", "assign err := m.Keeper.BurnPNFT( ctx, request.DenomId, request.Id, request.Burner, )", "call _.BurnPNFT", "return nil,_", "call errors.Wrap", "call err.Error", "return _,nil"]

/-- x/pnft/keeper.msgServer.CreateDenom -/
def x_pnft_keeper_msgServer_CreateDenom : List String := ["assign ctx := sdk.UnwrapSDKContext(goCtx)", "call sdk.UnwrapSDKContext", "if err != nil", "assign err := request.ValidateBasic()", "call request.ValidateBasic", "return nil,_", "call errors.Wrap", "call err.Error", "assign err := _", "call _.SaveDenom", "kv Id=request.Id", "kv Name=request.Name", "kv Symbol=request.Symbol", "kv Description=request.Description", "kv Uri=request.Uri", "kv UriHash=request.UriHash", "kv Owner=request.Creator", "kv Data=request.Data", "if err != nil", "return nil,_", "call errors.Wrapf", "call err.Error", "return _,nil"]

/-- x/pnft/keeper.msgServer.DeleteDenom -/
def x_pnft_keeper_msgServer_DeleteDenom : List String := ["assign ctx := sdk.UnwrapSDKContext(goCtx)", "call sdk.UnwrapSDKContext", "if err != nil", "assign err := request.ValidateBasic()", "call request.ValidateBasic", "return nil,_", "call errors.Wrap", "call err.Error", "if err != nil", "assign err := m.Keeper.DeleteDenom(ctx, request.Id, request.Remover)", "call _.DeleteDenom", "return nil,_", "call errors.Wrapf", "call err.Error", "return _,nil"]

/-- x/pnft/keeper.msgServer.MintPNFT -/
def x_pnft_keeper_msgServer_MintPNFT : List String := ["assign ctx := sdk.UnwrapSDKContext(goCtx)", "call sdk.UnwrapSDKContext", "if err != nil", "assign err := request.ValidateBasic()", "call request.ValidateBasic", "return nil,_", "call errors.Wrap", "call err.Error", "assign msg := _", "kv DenomId=request.DenomId", "kv Id=request.Id", "kv Name=request.Name", "kv Description=request.Description", "kv Uri=request.Uri", "kv UriHash=request.UriHash", "kv Data=request.Data", "kv Creator=request.Creator", "kv CreatedAt=ctx.BlockTime()", "call ctx.BlockTime", "if err != nil", "assign err := m.Keeper.MintPNFT(ctx, msg)", "call _.MintPNFT", "return nil,_", "call errors.Wrap", "call err.Error", "return _,nil"]

/-- x/pnft/keeper.msgServer.TransferDenom -/
def x_pnft_keeper_msgServer_TransferDenom : List String := ["assign ctx := sdk.UnwrapSDKContext(goCtx)", "call sdk.UnwrapSDKContext", "if err != nil", "assign err := request.ValidateBasic()", "call request.ValidateBasic", "return nil,_", "call errors.Wrap", "call err.Error", "if err != nil", "assign err := m.Keeper.TransferDenomOwner(ctx, request.Id, request.Sender, request.Receiver)", "call _.TransferDenomOwner", "return nil,_", "call errors.Wrap", "call err.Error", "return _,nil"]

/-- x/pnft/keeper.msgServer.TransferPNFT -/
def x_pnft_keeper_msgServer_TransferPNFT : List String := ["assign ctx := sdk.UnwrapSDKContext(goCtx)", "call sdk.UnwrapSDKContext", "if err != nil", "assign err := request.ValidateBasic()", "call request.ValidateBasic", "return nil,_", "call errors.Wrap", "call err.Error", "if err != nil", "assign err := _", "call _.TransferPNFT", "return nil,_", "call errors.Wrap", "call err.Error", "return _,nil"]

/-- x/pnft/keeper.msgServer.UpdateDenom -/
def x_pnft_keeper_msgServer_UpdateDenom : List String := ["assign ctx := sdk.UnwrapSDKContext(goCtx)", "call sdk.UnwrapSDKContext", "if err != nil", "assign err := request.ValidateBasic()", "call request.ValidateBasic", "return nil,_", "call errors.Wrap", "call err.Error", "if err != nil", "assign err := _", "call _.UpdateDenom", "kv Id=request.Id", "kv Name=request.Name", "kv Symbol=request.Symbol", "kv Description=request.Description", "kv Uri=request.Uri", "kv UriHash=request.UriHash", "kv Owner=request.Updater", "kv Data=request.Data", "return nil,_", "call errors.Wrapf", "call err.Error", "return _,nil"]

/-- x/pnft/types.DefaultGenesis -/
def x_pnft_types_DefaultGenesis : List String := ["return _", "kv Denoms", "kv Pnfts"]

/-- x/pnft/types.Denom.ValidateBasic -/
def x_pnft_types_Denom_ValidateBasic : List String := ["if d.Id == \"\"", "lit \"\"", "return _", "call errors.New", "if d.Name == \"\"", "lit \"\"", "return _", "call errors.New", "if d.Symbol == \"\"", "lit \"\"", "return _", "call errors.New", "if d.Owner == \"\"", "lit \"\"", "return _", "call errors.New", "return nil"]

/-- x/pnft/types.GenesisState.ValidateBasic -/
def x_pnft_types_GenesisState_ValidateBasic : List String := ["range data.Denoms", "if err != nil", "assign err := denom.ValidateBasic()", "call denom.ValidateBasic", "return err", "range data.Pnfts", "if err != nil", "assign err := pnft.ValidateBasic()", "call pnft.ValidateBasic", "return err", "return nil"]

/-- x/pnft/types.MsgBurnPNFTRequest.GetSignBytes -/
def x_pnft_types_MsgBurnPNFTRequest_GetSignBytes : List String := ["assign bz := ModuleCdc.MustMarshalJSON(msg)", "call ModuleCdc.MustMarshalJSON", "return _", "call sdk.MustSortJSON"]

/-- x/pnft/types.MsgBurnPNFTRequest.GetSigners -/
def x_pnft_types_MsgBurnPNFTRequest_GetSigners : List String := ["assign from,err := sdk.AccAddressFromBech32(msg.Burner)", "call sdk.AccAddressFromBech32", "if err != nil", "call panic", "return _"]

/-- x/pnft/types.MsgBurnPNFTRequest.ValidateBasic -/
def x_pnft_types_MsgBurnPNFTRequest_ValidateBasic : List String := ["if msg.DenomId == \"\"", "lit \"\"", "return _", "call fmt.Errorf", "if msg.Id == \"\"", "lit \"\"", "return _", "call fmt.Errorf", "if msg.Burner == \"\"", "lit \"\"", "return _", "call fmt.Errorf", "if err != nil", "assign _,err := sdk.AccAddressFromBech32(msg.Burner)", "call sdk.AccAddressFromBech32", "return err", "return nil"]

/-- x/pnft/types.MsgCreateDenomRequest.GetSignBytes -/
def x_pnft_types_MsgCreateDenomRequest_GetSignBytes : List String := ["assign bz := ModuleCdc.MustMarshalJSON(msg)", "call ModuleCdc.MustMarshalJSON", "return _", "call sdk.MustSortJSON"]

/-- x/pnft/types.MsgCreateDenomRequest.GetSigners -/
def x_pnft_types_MsgCreateDenomRequest_GetSigners : List String := ["assign from,err := sdk.AccAddressFromBech32(msg.Creator)", "call sdk.AccAddressFromBech32", "if err != nil", "call panic", "return _"]

/-- x/pnft/types.MsgCreateDenomRequest.ValidateBasic -/
def x_pnft_types_MsgCreateDenomRequest_ValidateBasic : List String := ["if msg.Id == \"\"", "lit \"\"", "return _", "call errors.New", "if strings.IndexByte(msg.Id, 0) >= 0", "call strings.IndexByte", "lit 0", "lit 0", "return _", "call errors.New", "if msg.Name == \"\"", "lit \"\"", "return _", "call errors.New", "if msg.Symbol == \"\"", "lit \"\"", "return _", "call errors.New", "if msg.Creator == \"\"", "lit \"\"", "return _", "call errors.New", "if err != nil", "assign _,err := sdk.AccAddressFromBech32(msg.Creator)", "call sdk.AccAddressFromBech32", "return err", "return nil"]

/-- x/pnft/types.MsgDeleteDenomRequest.GetSignBytes -/
def x_pnft_types_MsgDeleteDenomRequest_GetSignBytes : List String := ["assign bz := ModuleCdc.MustMarshalJSON(msg)", "call ModuleCdc.MustMarshalJSON", "return _", "call sdk.MustSortJSON"]

/-- x/pnft/types.MsgDeleteDenomRequest.GetSigners -/
def x_pnft_types_MsgDeleteDenomRequest_GetSigners : List String := ["assign from,err := sdk.AccAddressFromBech32(msg.Remover)", "call sdk.AccAddressFromBech32", "if err != nil", "call panic", "return _"]

/-- x/pnft/types.MsgDeleteDenomRequest.ValidateBasic -/
def x_pnft_types_MsgDeleteDenomRequest_ValidateBasic : List String := ["if msg.Id == \"\"", "lit \"\"", "return _", "call errors.New", "if msg.Remover == \"\"", "lit \"\"", "return _", "call errors.New", "if err != nil", "assign _,err := sdk.AccAddressFromBech32(msg.Remover)", "call sdk.AccAddressFromBech32", "return err", "return nil"]

/-- x/pnft/types.MsgMintPNFTRequest.GetSignBytes -/
def x_pnft_types_MsgMintPNFTRequest_GetSignBytes : List String := ["assign bz := ModuleCdc.MustMarshalJSON(msg)", "call ModuleCdc.MustMarshalJSON", "return _", "call sdk.MustSortJSON"]

/-- x/pnft/types.MsgMintPNFTRequest.GetSigners -/
def x_pnft_types_MsgMintPNFTRequest_GetSigners : List String := ["assign from,err := sdk.AccAddressFromBech32(msg.Creator)", "call sdk.AccAddressFromBech32", "if err != nil", "call panic", "return _"]

/-- x/pnft/types.MsgMintPNFTRequest.ValidateBasic -/
def x_pnft_types_MsgMintPNFTRequest_ValidateBasic : List String := ["if msg.DenomId == \"\"", "lit \"\"", "return _", "call fmt.Errorf", "if msg.Id == \"\"", "lit \"\"", "return _", "call fmt.Errorf", "if msg.Name == \"\"", "lit \"\"", "return _", "call fmt.Errorf", "if strings.IndexByte(msg.DenomId, 0) >= 0 || strings.IndexByte(msg.Id, 0) >= 0", "call strings.IndexByte", "lit 0", "lit 0", "call strings.IndexByte", "lit 0", "lit 0", "return _", "call fmt.Errorf", "if msg.Creator == \"\"", "lit \"\"", "return _", "call fmt.Errorf", "if err != nil", "assign _,err := sdk.AccAddressFromBech32(msg.Creator)", "call sdk.AccAddressFromBech32", "return err", "return nil"]

/-- x/pnft/types.MsgTransferDenomRequest.GetSignBytes -/
def x_pnft_types_MsgTransferDenomRequest_GetSignBytes : List String := ["assign bz := ModuleCdc.MustMarshalJSON(msg)", "call ModuleCdc.MustMarshalJSON", "return _", "call sdk.MustSortJSON"]

/-- x/pnft/types.MsgTransferDenomRequest.GetSigners -/
def x_pnft_types_MsgTransferDenomRequest_GetSigners : List String := ["assign from,err := sdk.AccAddressFromBech32(msg.Sender)", "call sdk.AccAddressFromBech32", "if err != nil", "call panic", "return _"]

/-- x/pnft/types.MsgTransferDenomRequest.ValidateBasic -/
def x_pnft_types_MsgTransferDenomRequest_ValidateBasic : List String := ["if msg.Id == \"\"", "lit \"\"", "return _", "call errors.New", "if msg.Sender == \"\"", "lit \"\"", "return _", "call errors.New", "if err != nil", "assign _,err := sdk.AccAddressFromBech32(msg.Sender)", "call sdk.AccAddressFromBech32", "return err", "if msg.Receiver == \"\"", "lit \"\"", "return _", "call errors.New", "if err != nil", "assign _,err := sdk.AccAddressFromBech32(msg.Receiver)", "call sdk.AccAddressFromBech32", "return err", "return nil"]

/-- x/pnft/types.MsgTransferPNFTRequest.GetSignBytes -/
def x_pnft_types_MsgTransferPNFTRequest_GetSignBytes : List String := ["assign bz := ModuleCdc.MustMarshalJSON(msg)", "call ModuleCdc.MustMarshalJSON", "return _", "call sdk.MustSortJSON"]

/-- x/pnft/types.MsgTransferPNFTRequest.GetSigners -/
def x_pnft_types_MsgTransferPNFTRequest_GetSigners : List String := ["assign from,err := sdk.AccAddressFromBech32(msg.Sender)", "call sdk.AccAddressFromBech32", "if err != nil", "call panic", "return _"]

/-- x/pnft/types.MsgTransferPNFTRequest.ValidateBasic -/
def x_pnft_types_MsgTransferPNFTRequest_ValidateBasic : List String := ["if msg.DenomId == \"\"", "lit \"\"", "return _", "call fmt.Errorf", "if msg.Id == \"\"", "lit \"\"", "return _", "call fmt.Errorf", "if msg.Sender == \"\"", "lit \"\"", "return _", "call fmt.Errorf", "if err != nil", "assign _,err := sdk.AccAddressFromBech32(msg.Sender)", "call sdk.AccAddressFromBech32", "return err", "if msg.Receiver == \"\"", "lit \"\"", "return _", "call fmt.Errorf", "if err != nil", "assign _,err := sdk.AccAddressFromBech32(msg.Receiver)", "call sdk.AccAddressFromBech32", "return err", "return nil"]

/-- x/pnft/types.MsgUpdateDenomRequest.GetSignBytes -/
def x_pnft_types_MsgUpdateDenomRequest_GetSignBytes : List String := ["assign bz := ModuleCdc.MustMarshalJSON(msg)", "call ModuleCdc.MustMarshalJSON", "return _", "call sdk.MustSortJSON"]

/-- x/pnft/types.MsgUpdateDenomRequest.GetSigners -/
def x_pnft_types_MsgUpdateDenomRequest_GetSigners : List String := ["assign from,err := sdk.AccAddressFromBech32(msg.Updater)", "call sdk.AccAddressFromBech32", "if err != nil", "call panic", "return _"]

/-- x/pnft/types.MsgUpdateDenomRequest.ValidateBasic -/
def x_pnft_types_MsgUpdateDenomRequest_ValidateBasic : List String := ["if msg.Id == \"\"", "lit \"\"", "return _", "call errors.New", "if msg.Updater == \"\"", "lit \"\"", "return _", "call errors.New", "if err != nil", "assign _,err := sdk.AccAddressFromBech32(msg.Updater)", "call sdk.AccAddressFromBech32", "return err", "return nil"]

/-- x/pnft/types.NewClassFromDenom -/
def x_pnft_types_NewClassFromDenom : List String := ["assign meta,err := _", "call codectypes.NewAnyWithValue", "kv Owner=denom.Owner", "kv Data=denom.Data", "if err != nil", "return nil,err", "return _,nil", "kv Id=denom.Id", "kv Name=denom.Name", "kv Symbol=denom.Symbol", "kv Description=denom.Description", "kv Uri=denom.Uri", "kv UriHash=denom.UriHash", "kv Data=meta"]

/-- x/pnft/types.NewDenomFromClass -/
def x_pnft_types_NewDenomFromClass : List String := ["if err != nil", "assign err := cdc.Unmarshal(class.Data.GetValue(), &meta)", "call cdc.Unmarshal", "call _.GetValue", "return nil,err", "return _,nil", "kv Id=class.Id", "kv Name=class.Name", "kv Symbol=class.Symbol", "kv Description=class.Description", "kv Uri=class.Uri", "kv UriHash=class.UriHash", "kv Owner=meta.Owner", "kv Data=meta.Data"]

/-- x/pnft/types.NewMsgBurnPNFTRequest -/
def x_pnft_types_NewMsgBurnPNFTRequest : List String := ["return _", "kv DenomId=denomId", "kv Id=id", "kv Burner=bunner"]

/-- x/pnft/types.NewMsgCreateDenomRequest -/
def x_pnft_types_NewMsgCreateDenomRequest : List String := ["return _", "kv Id=id", "kv Name=name", "kv Symbol=symbol", "kv Description=description", "kv Uri=uri", "kv UriHash=uriHash", "kv Data=data", "kv Creator=creator"]

/-- x/pnft/types.NewMsgDeleteDenomRequest -/
def x_pnft_types_NewMsgDeleteDenomRequest : List String := ["return _", "kv Id=id", "kv Remover=remover"]

/-- x/pnft/types.NewMsgMintPNFTRequest -/
def x_pnft_types_NewMsgMintPNFTRequest : List String := ["return _", "kv DenomId=denomId", "kv Id=id", "kv Name=name", "kv Description=description", "kv Uri=uri", "kv UriHash=uriHash", "kv Data=data", "kv Creator=creator"]

/-- x/pnft/types.NewMsgTransferPNFTRequest -/
def x_pnft_types_NewMsgTransferPNFTRequest : List String := ["return _", "kv DenomId=denomId", "kv Id=id", "kv Sender=sender", "kv Receiver=receiver"]

/-- x/pnft/types.NewMsgTransferRequest -/
def x_pnft_types_NewMsgTransferRequest : List String := ["return _", "kv Id=id", "kv Sender=sender", "kv Receiver=receiver"]

/-- x/pnft/types.NewMsgUpdateDenomRequest -/
def x_pnft_types_NewMsgUpdateDenomRequest : List String := ["return _", "kv Id=id", "kv Name=name", "kv Symbol=symbol", "kv Description=description", "kv Uri=uri", "kv UriHash=uriHash", "kv Data=data", "kv Updater=update"]

/-- x/pnft/types.NewQueryDenomRequest -/
def x_pnft_types_NewQueryDenomRequest : List String := ["return _", "kv Id=id"]

/-- x/pnft/types.NewQueryDenomsByOwnerRequest -/
def x_pnft_types_NewQueryDenomsByOwnerRequest : List String := ["return _", "kv Owner=owner"]

/-- x/pnft/types.NewQueryDenomsRequest -/
def x_pnft_types_NewQueryDenomsRequest : List String := ["return _", "kv Pagination=pagination"]

/-- x/pnft/types.NewQueryPNFTRequest -/
def x_pnft_types_NewQueryPNFTRequest : List String := ["return _", "kv DenomId=denomId", "kv Id=id"]

/-- x/pnft/types.NewQueryPNFTsByOwnerRequest -/
def x_pnft_types_NewQueryPNFTsByOwnerRequest : List String := ["return _", "kv DenomId=denomId", "kv Owner=ownerId"]

/-- x/pnft/types.NewQueryPNFTsRequest -/
def x_pnft_types_NewQueryPNFTsRequest : List String := ["return _", "kv DenomId=denomId"]

/-- x/pnft/types.Pnft.ValidateBasic -/
def x_pnft_types_Pnft_ValidateBasic : List String := ["if m.DenomId == \"\"", "lit \"\"", "return _", "call fmt.Errorf", "if m.Id == \"\"", "lit \"\"", "return _", "call fmt.Errorf", "if m.Name == \"\"", "lit \"\"", "return _", "call fmt.Errorf", "if m.Creator == \"\"", "lit \"\"", "return _", "call fmt.Errorf", "if m.Owner == \"\"", "lit \"\"", "return _", "call fmt.Errorf", "if m.CreatedAt.IsZero()", "call _.IsZero", "return _", "call fmt.Errorf", "return nil"]

/-- x/pnft/types.QueryDenomRequest.ValidateBasic -/
def x_pnft_types_QueryDenomRequest_ValidateBasic : List String := ["if m.Id == \"\"", "lit \"\"", "return _", "call fmt.Errorf", "return nil"]

/-- x/pnft/types.QueryDenomsByOwnerRequest.ValidateBasic -/
def x_pnft_types_QueryDenomsByOwnerRequest_ValidateBasic : List String := ["if m.Owner == \"\"", "lit \"\"", "return _", "call fmt.Errorf", "if err != nil", "assign _,err := sdk.AccAddressFromBech32(m.Owner)", "call sdk.AccAddressFromBech32", "return err", "return nil"]

/-- x/pnft/types.QueryDenomsRequest.ValidateBasic -/
def x_pnft_types_QueryDenomsRequest_ValidateBasic : List String := ["return nil"]

/-- x/pnft/types.QueryPNFTRequest.ValidateBasic -/
def x_pnft_types_QueryPNFTRequest_ValidateBasic : List String := ["if m.DenomId == \"\"", "lit \"\"", "return _", "call fmt.Errorf", "if m.Id == \"\"", "lit \"\"", "return _", "call fmt.Errorf", "return nil"]

/-- x/pnft/types.QueryPNFTsByDenomOwnerRequest.ValidateBasic -/
def x_pnft_types_QueryPNFTsByDenomOwnerRequest_ValidateBasic : List String := ["if m.DenomId == \"\"", "lit \"\"", "return _", "call fmt.Errorf", "if m.Owner == \"\"", "lit \"\"", "return _", "call fmt.Errorf", "if err != nil", "assign _,err := sdk.AccAddressFromBech32(m.Owner)", "call sdk.AccAddressFromBech32", "return err", "return nil"]

/-- x/pnft/types.QueryPNFTsRequest.ValidateBasic -/
def x_pnft_types_QueryPNFTsRequest_ValidateBasic : List String := ["if m.DenomId == \"\"", "lit \"\"", "return _", "call fmt.Errorf", "return nil"]

/-- x/pnft/types.RegisterCodec -/
def x_pnft_types_RegisterCodec : List String := ["call cdc.RegisterConcrete", "lit \"pnft/CreateDenom\"", "call cdc.RegisterConcrete", "lit \"pnft/UpdateDenom\"", "call cdc.RegisterConcrete", "lit \"pnft/DeleteDenom\"", "call cdc.RegisterConcrete", "lit \"pnft/TransferDenom\"", "call cdc.RegisterConcrete", "lit \"pnft/MintPNFT\"", "call cdc.RegisterConcrete", "lit \"pnft/TransferPNFT\"", "call cdc.RegisterConcrete", "lit \"pnft/BurnPNFT\""]

/-- x/pnft/types.RegisterInterfaces -/
def x_pnft_types_RegisterInterfaces : List String := ["call registry.RegisterImplementations", "call ?", "call msgservice.RegisterMsgServiceDesc"]

end Panacea.Expected.Skel
