/-! EXPECTED values: a reviewed snapshot of what /verif/extract produced (bin/accept_expected).  One definition per function of the custom packages:
the branch conditions, calls, literals and returns of its body in source order (message texts dropped). -/
namespace Panacea.Expected.Skel

/-- app.App.setAnteHandler -/
def app_App_setAnteHandler : List String := ["call app.SetAnteHandler(_)", "call sdktypes.ChainAnteDecorators(ante.NewSetUpContextDecorator(), ante.NewExtensionOptionsDecorator(nil), ante.NewValidateBasicDecorator(), ante.NewTxTimeoutHeightDecorator(), ante.NewValidateMemoDecorator(app.AccountKeeper), ante.NewConsumeGasForTxSizeDecorator(app.AccountKeeper), _, ante.NewSetPubKeyDecorator(app.AccountKeeper), ante.NewValidateSigCountDecorator(app.AccountKeeper), _, _, ante.NewIncrementSequenceDecorator(app.AccountKeeper), ibcante.NewRedundantRelayDecorator(app.IBCKeeper))", "call ante.NewSetUpContextDecorator()", "call ante.NewExtensionOptionsDecorator(nil)", "call ante.NewValidateBasicDecorator()", "call ante.NewTxTimeoutHeightDecorator()", "call ante.NewValidateMemoDecorator(app.AccountKeeper)", "call ante.NewConsumeGasForTxSizeDecorator(app.AccountKeeper)", "call ante.NewDeductFeeDecorator(app.AccountKeeper, app.BankKeeper, app.FeeGrantKeeper, nil)", "call ante.NewSetPubKeyDecorator(app.AccountKeeper)", "call ante.NewValidateSigCountDecorator(app.AccountKeeper)", "call ante.NewSigGasConsumeDecorator(app.AccountKeeper, ante.DefaultSigVerificationGasConsumer)", "call ante.NewSigVerificationDecorator(app.AccountKeeper, txConfig.SignModeHandler())", "call txConfig.SignModeHandler()", "call ante.NewIncrementSequenceDecorator(app.AccountKeeper)", "call ibcante.NewRedundantRelayDecorator(app.IBCKeeper)"]

/-- types/compkey.Decode -/
def types_compkey_Decode : List String := ["assign values := make([][]byte, 0)", "call make([][]byte, 0)", "lit 0", "assign idx := 0", "lit 0", "for idx < len(bz)", "call len(bz)", "assign valueSize := int(bz[idx])", "call int(bz[idx])", "assign idx += 1", "lit 1", "assign exclusiveEnd := idx + valueSize", "op +", "if exclusiveEnd > len(bz)", "call len(bz)", "return _", "call fmt.Errorf(_)", "assign value := make([]byte, valueSize)", "call make([]byte, valueSize)", "assign idx += copy(value, bz[idx:exclusiveEnd])", "call copy(value, bz[idx:exclusiveEnd])", "assign values = append(values, value)", "call append(values, value)", "return _", "call out.FromByteSlices(values)"]

/-- types/compkey.DecodeFromString -/
def types_compkey_DecodeFromString : List String := ["assign values := strings.Split(encoded, separator)", "call strings.Split(encoded, separator)", "return _", "call out.FromStrings(values)"]

/-- types/compkey.Encode -/
def types_compkey_Encode : List String := ["return _", "call encode(key.ByteSlices())", "call key.ByteSlices()"]

/-- types/compkey.EncodeToString -/
def types_compkey_EncodeToString : List String := ["range key.Strings()", "call key.Strings()", "if i > 0", "lit 0", "call builder.WriteString(separator)", "call builder.WriteString(value)", "return _", "call builder.String()"]

/-- types/compkey.MustDecode -/
def types_compkey_MustDecode : List String := ["if err != nil", "assign err := Decode(bz, out)", "call Decode(bz, out)", "call panic(err)"]

/-- types/compkey.MustDecodeFromString -/
def types_compkey_MustDecodeFromString : List String := ["if err != nil", "assign err := DecodeFromString(encoded, separator, out)", "call DecodeFromString(encoded, separator, out)", "call panic(err)"]

/-- types/compkey.MustEncode -/
def types_compkey_MustEncode : List String := ["assign bz,err := Encode(key)", "call Encode(key)", "if err != nil", "call panic(err)", "return bz"]

/-- types/compkey.MustPartialEncode -/
def types_compkey_MustPartialEncode : List String := ["assign bz,err := PartialEncode(key, numValues)", "call PartialEncode(key, numValues)", "if err != nil", "call panic(err)", "return bz"]

/-- types/compkey.PartialEncode -/
def types_compkey_PartialEncode : List String := ["assign values := key.ByteSlices()", "call key.ByteSlices()", "if len(values) < numValues", "call len(values)", "return nil,_", "call fmt.Errorf(_, numValues)", "return _", "call encode(values[:numValues])"]

/-- types/compkey.encode -/
def types_compkey_encode : List String := ["assign size := 0", "lit 0", "range values", "assign size += sizeUint8 + len(value)", "op +", "call len(value)", "assign bz := make([]byte, size)", "call make([]byte, size)", "assign idx := 0", "lit 0", "range values", "if len(value) > maxUint8", "call len(value)", "return nil,_", "call fmt.Errorf(_)", "assign bz[idx] = uint8(len(value))", "call uint8(len(value))", "call len(value)", "assign idx += 1", "lit 1", "assign idx += copy(bz[idx:], value)", "call copy(bz[idx:], value)", "return bz,nil"]

/-- x/aol.AppModule.BeginBlock -/
def x_aol_AppModule_BeginBlock : List String := []

/-- x/aol.AppModule.ConsensusVersion -/
def x_aol_AppModule_ConsensusVersion : List String := ["return 1", "lit 1"]

/-- x/aol.AppModule.EndBlock -/
def x_aol_AppModule_EndBlock : List String := ["return _"]

/-- x/aol.AppModule.ExportGenesis -/
def x_aol_AppModule_ExportGenesis : List String := ["assign genState := ExportGenesis(ctx, am.keeper)", "call ExportGenesis(ctx, am.keeper)", "return _", "call cdc.MustMarshalJSON(genState)"]

/-- x/aol.AppModule.InitGenesis -/
def x_aol_AppModule_InitGenesis : List String := ["call cdc.MustUnmarshalJSON(gs, &genState)", "call InitGenesis(ctx, am.keeper, genState)", "return _"]

/-- x/aol.AppModule.Name -/
def x_aol_AppModule_Name : List String := ["return _", "call _.Name()"]

/-- x/aol.AppModule.QuerierRoute -/
def x_aol_AppModule_QuerierRoute : List String := ["return _"]

/-- x/aol.AppModule.RegisterInvariants -/
def x_aol_AppModule_RegisterInvariants : List String := []

/-- x/aol.AppModule.RegisterServices -/
def x_aol_AppModule_RegisterServices : List String := ["call types.RegisterQueryServer(cfg.QueryServer(), am.keeper)", "call cfg.QueryServer()", "call types.RegisterMsgServer(cfg.MsgServer(), keeper.NewMsgServerImpl(am.keeper))", "call cfg.MsgServer()", "call keeper.NewMsgServerImpl(am.keeper)"]

/-- x/aol.AppModuleBasic.DefaultGenesis -/
def x_aol_AppModuleBasic_DefaultGenesis : List String := ["return _", "call cdc.MustMarshalJSON(types.DefaultGenesis())", "call types.DefaultGenesis()"]

/-- x/aol.AppModuleBasic.GetQueryCmd -/
def x_aol_AppModuleBasic_GetQueryCmd : List String := ["return _", "call cli.GetQueryCmd(types.StoreKey)"]

/-- x/aol.AppModuleBasic.GetTxCmd -/
def x_aol_AppModuleBasic_GetTxCmd : List String := ["return _", "call cli.GetTxCmd()"]

/-- x/aol.AppModuleBasic.Name -/
def x_aol_AppModuleBasic_Name : List String := ["return _"]

/-- x/aol.AppModuleBasic.RegisterCodec -/
def x_aol_AppModuleBasic_RegisterCodec : List String := ["call types.RegisterCodec(cdc)"]

/-- x/aol.AppModuleBasic.RegisterGRPCGatewayRoutes -/
def x_aol_AppModuleBasic_RegisterGRPCGatewayRoutes : List String := ["if err != nil", "assign err := _", "call types.RegisterQueryHandlerClient(context.Background(), mux, types.NewQueryClient(clientCtx))", "call context.Background()", "call types.NewQueryClient(clientCtx)", "call panic(err)"]

/-- x/aol.AppModuleBasic.RegisterInterfaces -/
def x_aol_AppModuleBasic_RegisterInterfaces : List String := ["call types.RegisterInterfaces(reg)"]

/-- x/aol.AppModuleBasic.RegisterLegacyAminoCodec -/
def x_aol_AppModuleBasic_RegisterLegacyAminoCodec : List String := ["call types.RegisterCodec(cdc)"]

/-- x/aol.AppModuleBasic.ValidateGenesis -/
def x_aol_AppModuleBasic_ValidateGenesis : List String := ["if err != nil", "assign err := cdc.UnmarshalJSON(bz, &genState)", "call cdc.UnmarshalJSON(bz, &genState)", "return _", "call fmt.Errorf(_, types.ModuleName, err)", "return _", "call genState.Validate()"]

/-- x/aol.ExportGenesis -/
def x_aol_ExportGenesis : List String := ["assign genesis := types.DefaultGenesis()", "call types.DefaultGenesis()", "assign ownerKeys,owners := k.GetAllOwners(ctx)", "call k.GetAllOwners(ctx)", "range ownerKeys", "assign genesis.Owners[compkey.EncodeToString(&key, types.GenesisKeySeparator)] = &owners[i]", "call compkey.EncodeToString(&key, types.GenesisKeySeparator)", "assign topicKeys,topics := k.GetAllTopics(ctx)", "call k.GetAllTopics(ctx)", "range topicKeys", "assign genesis.Topics[compkey.EncodeToString(&key, types.GenesisKeySeparator)] = &topics[i]", "call compkey.EncodeToString(&key, types.GenesisKeySeparator)", "assign writerKeys,writers := k.GetAllWriters(ctx)", "call k.GetAllWriters(ctx)", "range writerKeys", "assign genesis.Writers[compkey.EncodeToString(&key, types.GenesisKeySeparator)] = &writers[i]", "call compkey.EncodeToString(&key, types.GenesisKeySeparator)", "assign recordKeys,records := k.GetAllRecords(ctx)", "call k.GetAllRecords(ctx)", "range recordKeys", "assign genesis.Records[compkey.EncodeToString(&key, types.GenesisKeySeparator)] = &records[i]", "call compkey.EncodeToString(&key, types.GenesisKeySeparator)", "return genesis"]

/-- x/aol.InitGenesis -/
def x_aol_InitGenesis : List String := ["range genState.Owners", "call compkey.MustDecodeFromString(keyStr, types.GenesisKeySeparator, &key)", "call k.SetOwner(ctx, key, *owner)", "range genState.Topics", "call compkey.MustDecodeFromString(keyStr, types.GenesisKeySeparator, &key)", "call k.SetTopic(ctx, key, *topic)", "range genState.Writers", "call compkey.MustDecodeFromString(keyStr, types.GenesisKeySeparator, &key)", "call k.SetWriter(ctx, key, *writer)", "range genState.Records", "call compkey.MustDecodeFromString(keyStr, types.GenesisKeySeparator, &key)", "call k.SetRecord(ctx, key, *record)"]

/-- x/aol.NewAppModule -/
def x_aol_NewAppModule : List String := ["return _", "kv AppModuleBasic=NewAppModuleBasic(cdc)", "call NewAppModuleBasic(cdc)", "kv keeper=keeper"]

/-- x/aol.NewAppModuleBasic -/
def x_aol_NewAppModuleBasic : List String := ["return _", "kv cdc=cdc"]

/-- x/aol/keeper.Keeper.GetAllOwners -/
def x_aol_keeper_Keeper_GetAllOwners : List String := ["assign store := prefix.NewStore(ctx.KVStore(k.storeKey), types.OwnerKeyPrefix)", "call prefix.NewStore(ctx.KVStore(k.storeKey), types.OwnerKeyPrefix)", "call ctx.KVStore(k.storeKey)", "assign iterator := _", "call sdk.KVStorePrefixIterator(store, _)", "defer", "call iterator.Close()", "assign keys := make([]types.OwnerCompositeKey, 0)", "call make([]types.OwnerCompositeKey, 0)", "lit 0", "assign values := make([]types.Owner, 0)", "call make([]types.Owner, 0)", "lit 0", "for iterator.Valid()", "call iterator.Valid()", "call iterator.Next()", "call compkey.MustDecode(iterator.Key(), &key)", "call iterator.Key()", "assign keys = append(keys, key)", "call append(keys, key)", "call _.MustUnmarshal(iterator.Value(), &value)", "call iterator.Value()", "assign values = append(values, value)", "call append(values, value)", "return keys,values"]

/-- x/aol/keeper.Keeper.GetAllRecords -/
def x_aol_keeper_Keeper_GetAllRecords : List String := ["assign store := prefix.NewStore(ctx.KVStore(k.storeKey), types.RecordKeyPrefix)", "call prefix.NewStore(ctx.KVStore(k.storeKey), types.RecordKeyPrefix)", "call ctx.KVStore(k.storeKey)", "assign iterator := _", "call sdk.KVStorePrefixIterator(store, _)", "defer", "call iterator.Close()", "assign keys := make([]types.RecordCompositeKey, 0)", "call make([]types.RecordCompositeKey, 0)", "lit 0", "assign values := make([]types.Record, 0)", "call make([]types.Record, 0)", "lit 0", "for iterator.Valid()", "call iterator.Valid()", "call iterator.Next()", "call compkey.MustDecode(iterator.Key(), &key)", "call iterator.Key()", "assign keys = append(keys, key)", "call append(keys, key)", "call _.MustUnmarshal(iterator.Value(), &value)", "call iterator.Value()", "assign values = append(values, value)", "call append(values, value)", "return keys,values"]

/-- x/aol/keeper.Keeper.GetAllTopics -/
def x_aol_keeper_Keeper_GetAllTopics : List String := ["assign store := prefix.NewStore(ctx.KVStore(k.storeKey), types.TopicKeyPrefix)", "call prefix.NewStore(ctx.KVStore(k.storeKey), types.TopicKeyPrefix)", "call ctx.KVStore(k.storeKey)", "assign iterator := _", "call sdk.KVStorePrefixIterator(store, _)", "defer", "call iterator.Close()", "assign keys := make([]types.TopicCompositeKey, 0)", "call make([]types.TopicCompositeKey, 0)", "lit 0", "assign values := make([]types.Topic, 0)", "call make([]types.Topic, 0)", "lit 0", "for iterator.Valid()", "call iterator.Valid()", "call iterator.Next()", "call compkey.MustDecode(iterator.Key(), &key)", "call iterator.Key()", "assign keys = append(keys, key)", "call append(keys, key)", "call _.MustUnmarshal(iterator.Value(), &value)", "call iterator.Value()", "assign values = append(values, value)", "call append(values, value)", "return keys,values"]

/-- x/aol/keeper.Keeper.GetAllWriters -/
def x_aol_keeper_Keeper_GetAllWriters : List String := ["assign store := prefix.NewStore(ctx.KVStore(k.storeKey), types.WriterKeyPrefix)", "call prefix.NewStore(ctx.KVStore(k.storeKey), types.WriterKeyPrefix)", "call ctx.KVStore(k.storeKey)", "assign iterator := _", "call sdk.KVStorePrefixIterator(store, _)", "defer", "call iterator.Close()", "assign keys := make([]types.WriterCompositeKey, 0)", "call make([]types.WriterCompositeKey, 0)", "lit 0", "assign values := make([]types.Writer, 0)", "call make([]types.Writer, 0)", "lit 0", "for iterator.Valid()", "call iterator.Valid()", "call iterator.Next()", "call compkey.MustDecode(iterator.Key(), &key)", "call iterator.Key()", "assign keys = append(keys, key)", "call append(keys, key)", "call _.MustUnmarshal(iterator.Value(), &value)", "call iterator.Value()", "assign values = append(values, value)", "call append(values, value)", "return keys,values"]

/-- x/aol/keeper.Keeper.GetOwner -/
def x_aol_keeper_Keeper_GetOwner : List String := ["assign store := prefix.NewStore(ctx.KVStore(k.storeKey), types.OwnerKeyPrefix)", "call prefix.NewStore(ctx.KVStore(k.storeKey), types.OwnerKeyPrefix)", "call ctx.KVStore(k.storeKey)", "call _.MustUnmarshal(store.Get(compkey.MustEncode(&key)), &owner)", "call store.Get(compkey.MustEncode(&key))", "call compkey.MustEncode(&key)", "return owner"]

/-- x/aol/keeper.Keeper.GetRecord -/
def x_aol_keeper_Keeper_GetRecord : List String := ["assign store := prefix.NewStore(ctx.KVStore(k.storeKey), types.RecordKeyPrefix)", "call prefix.NewStore(ctx.KVStore(k.storeKey), types.RecordKeyPrefix)", "call ctx.KVStore(k.storeKey)", "call _.MustUnmarshal(store.Get(compkey.MustEncode(&key)), &record)", "call store.Get(compkey.MustEncode(&key))", "call compkey.MustEncode(&key)", "return record"]

/-- x/aol/keeper.Keeper.GetTopic -/
def x_aol_keeper_Keeper_GetTopic : List String := ["assign store := prefix.NewStore(ctx.KVStore(k.storeKey), types.TopicKeyPrefix)", "call prefix.NewStore(ctx.KVStore(k.storeKey), types.TopicKeyPrefix)", "call ctx.KVStore(k.storeKey)", "call _.MustUnmarshal(store.Get(compkey.MustEncode(&key)), &topic)", "call store.Get(compkey.MustEncode(&key))", "call compkey.MustEncode(&key)", "return topic"]

/-- x/aol/keeper.Keeper.GetWriter -/
def x_aol_keeper_Keeper_GetWriter : List String := ["assign store := prefix.NewStore(ctx.KVStore(k.storeKey), types.WriterKeyPrefix)", "call prefix.NewStore(ctx.KVStore(k.storeKey), types.WriterKeyPrefix)", "call ctx.KVStore(k.storeKey)", "call _.MustUnmarshal(store.Get(compkey.MustEncode(&key)), &writer)", "call store.Get(compkey.MustEncode(&key))", "call compkey.MustEncode(&key)", "return writer"]

/-- x/aol/keeper.Keeper.HasOwner -/
def x_aol_keeper_Keeper_HasOwner : List String := ["assign store := prefix.NewStore(ctx.KVStore(k.storeKey), types.OwnerKeyPrefix)", "call prefix.NewStore(ctx.KVStore(k.storeKey), types.OwnerKeyPrefix)", "call ctx.KVStore(k.storeKey)", "return _", "call store.Has(compkey.MustEncode(&key))", "call compkey.MustEncode(&key)"]

/-- x/aol/keeper.Keeper.HasRecord -/
def x_aol_keeper_Keeper_HasRecord : List String := ["assign store := prefix.NewStore(ctx.KVStore(k.storeKey), types.RecordKeyPrefix)", "call prefix.NewStore(ctx.KVStore(k.storeKey), types.RecordKeyPrefix)", "call ctx.KVStore(k.storeKey)", "return _", "call store.Has(compkey.MustEncode(&key))", "call compkey.MustEncode(&key)"]

/-- x/aol/keeper.Keeper.HasTopic -/
def x_aol_keeper_Keeper_HasTopic : List String := ["assign store := prefix.NewStore(ctx.KVStore(k.storeKey), types.TopicKeyPrefix)", "call prefix.NewStore(ctx.KVStore(k.storeKey), types.TopicKeyPrefix)", "call ctx.KVStore(k.storeKey)", "return _", "call store.Has(compkey.MustEncode(&key))", "call compkey.MustEncode(&key)"]

/-- x/aol/keeper.Keeper.HasWriter -/
def x_aol_keeper_Keeper_HasWriter : List String := ["assign store := prefix.NewStore(ctx.KVStore(k.storeKey), types.WriterKeyPrefix)", "call prefix.NewStore(ctx.KVStore(k.storeKey), types.WriterKeyPrefix)", "call ctx.KVStore(k.storeKey)", "return _", "call store.Has(compkey.MustEncode(&key))", "call compkey.MustEncode(&key)"]

/-- x/aol/keeper.Keeper.Logger -/
def x_aol_keeper_Keeper_Logger : List String := ["return _", "call _.With(\"module\", fmt.Sprintf(\"x/%s\", types.ModuleName))", "call ctx.Logger()", "lit \"module\"", "call fmt.Sprintf(_, types.ModuleName)", "lit \"x/%s\""]

/-- x/aol/keeper.Keeper.Record -/
def x_aol_keeper_Keeper_Record : List String := ["if req == nil", "return nil,_", "call status.Error(codes.InvalidArgument, _)", "assign ctx := sdk.UnwrapSDKContext(c)", "call sdk.UnwrapSDKContext(c)", "assign ownerAddr,err := sdk.AccAddressFromBech32(req.OwnerAddress)", "call sdk.AccAddressFromBech32(req.OwnerAddress)", "if err != nil", "return nil,_", "call status.Error(codes.InvalidArgument, _)", "assign recordKey := _", "kv OwnerAddress=ownerAddr", "kv TopicName=req.TopicName", "kv Offset=req.Offset", "if err != nil", "assign _,err := compkey.Encode(&recordKey)", "call compkey.Encode(&recordKey)", "return nil,_", "call status.Error(codes.InvalidArgument, _)", "if !k.HasRecord(ctx, recordKey)", "call k.HasRecord(ctx, recordKey)", "return nil,_", "call status.Error(codes.NotFound, _)", "assign record := k.GetRecord(ctx, recordKey)", "call k.GetRecord(ctx, recordKey)", "return _,nil", "kv Record=&record"]

/-- x/aol/keeper.Keeper.RemoveWriter -/
def x_aol_keeper_Keeper_RemoveWriter : List String := ["assign store := prefix.NewStore(ctx.KVStore(k.storeKey), types.WriterKeyPrefix)", "call prefix.NewStore(ctx.KVStore(k.storeKey), types.WriterKeyPrefix)", "call ctx.KVStore(k.storeKey)", "call store.Delete(compkey.MustEncode(&key))", "call compkey.MustEncode(&key)"]

/-- x/aol/keeper.Keeper.SetOwner -/
def x_aol_keeper_Keeper_SetOwner : List String := ["assign store := prefix.NewStore(ctx.KVStore(k.storeKey), types.OwnerKeyPrefix)", "call prefix.NewStore(ctx.KVStore(k.storeKey), types.OwnerKeyPrefix)", "call ctx.KVStore(k.storeKey)", "assign b := k.cdc.MustMarshal(&owner)", "call _.MustMarshal(&owner)", "call store.Set(compkey.MustEncode(&key), b)", "call compkey.MustEncode(&key)"]

/-- x/aol/keeper.Keeper.SetRecord -/
def x_aol_keeper_Keeper_SetRecord : List String := ["assign store := prefix.NewStore(ctx.KVStore(k.storeKey), types.RecordKeyPrefix)", "call prefix.NewStore(ctx.KVStore(k.storeKey), types.RecordKeyPrefix)", "call ctx.KVStore(k.storeKey)", "assign b := k.cdc.MustMarshal(&record)", "call _.MustMarshal(&record)", "call store.Set(compkey.MustEncode(&key), b)", "call compkey.MustEncode(&key)"]

/-- x/aol/keeper.Keeper.SetTopic -/
def x_aol_keeper_Keeper_SetTopic : List String := ["assign store := prefix.NewStore(ctx.KVStore(k.storeKey), types.TopicKeyPrefix)", "call prefix.NewStore(ctx.KVStore(k.storeKey), types.TopicKeyPrefix)", "call ctx.KVStore(k.storeKey)", "assign b := k.cdc.MustMarshal(&topic)", "call _.MustMarshal(&topic)", "call store.Set(compkey.MustEncode(&key), b)", "call compkey.MustEncode(&key)"]

/-- x/aol/keeper.Keeper.SetWriter -/
def x_aol_keeper_Keeper_SetWriter : List String := ["assign store := prefix.NewStore(ctx.KVStore(k.storeKey), types.WriterKeyPrefix)", "call prefix.NewStore(ctx.KVStore(k.storeKey), types.WriterKeyPrefix)", "call ctx.KVStore(k.storeKey)", "assign b := k.cdc.MustMarshal(&writer)", "call _.MustMarshal(&writer)", "call store.Set(compkey.MustEncode(&key), b)", "call compkey.MustEncode(&key)"]

/-- x/aol/keeper.Keeper.Topic -/
def x_aol_keeper_Keeper_Topic : List String := ["if req == nil", "return nil,_", "call status.Error(codes.InvalidArgument, _)", "assign ctx := sdk.UnwrapSDKContext(c)", "call sdk.UnwrapSDKContext(c)", "assign ownerAddr,err := sdk.AccAddressFromBech32(req.OwnerAddress)", "call sdk.AccAddressFromBech32(req.OwnerAddress)", "if err != nil", "return nil,_", "call status.Error(codes.InvalidArgument, _)", "assign topicKey := _", "kv OwnerAddress=ownerAddr", "kv TopicName=req.TopicName", "if err != nil", "assign _,err := compkey.Encode(&topicKey)", "call compkey.Encode(&topicKey)", "return nil,_", "call status.Error(codes.InvalidArgument, _)", "if !k.HasTopic(ctx, topicKey)", "call k.HasTopic(ctx, topicKey)", "return nil,_", "call status.Error(codes.NotFound, _)", "assign topic := k.GetTopic(ctx, topicKey)", "call k.GetTopic(ctx, topicKey)", "return _,nil", "kv Topic=&topic"]

/-- x/aol/keeper.Keeper.Topics -/
def x_aol_keeper_Keeper_Topics : List String := ["if req == nil", "return nil,_", "call status.Error(codes.InvalidArgument, _)", "assign ctx := sdk.UnwrapSDKContext(c)", "call sdk.UnwrapSDKContext(c)", "assign ownerAddr,err := sdk.AccAddressFromBech32(req.OwnerAddress)", "call sdk.AccAddressFromBech32(req.OwnerAddress)", "if err != nil", "return nil,_", "call status.Error(codes.InvalidArgument, _)", "assign compKeyPrefix,err := _", "call compkey.PartialEncode(_, 1)", "kv OwnerAddress=ownerAddr", "kv TopicName=\"\"", "lit \"\"", "lit 1", "if err != nil", "return nil,_", "call status.Errorf(codes.Internal, _, err.Error())", "call err.Error()", "assign store := ctx.KVStore(k.storeKey)", "call ctx.KVStore(k.storeKey)", "assign topicStore := prefix.NewStore(store, append(types.TopicKeyPrefix, compKeyPrefix...))", "call prefix.NewStore(store, append(types.TopicKeyPrefix, compKeyPrefix...))", "call append(types.TopicKeyPrefix, compKeyPrefix)", "assign pageRes,err := _", "call query.Paginate(topicStore, req.Pagination, _)", "if err != nil", "assign err := compkey.Decode(append(compKeyPrefix, compKeyLast...), &compKey)", "call compkey.Decode(append(compKeyPrefix, compKeyLast...), &compKey)", "call append(compKeyPrefix, compKeyLast)", "return err", "assign topicNames = append(topicNames, compKey.TopicName)", "call append(topicNames, compKey.TopicName)", "return nil", "if err != nil", "return nil,_", "call status.Error(codes.Internal, err.Error())", "call err.Error()", "return _,nil", "kv TopicNames=topicNames", "kv Pagination=pageRes"]

/-- x/aol/keeper.Keeper.Writer -/
def x_aol_keeper_Keeper_Writer : List String := ["if req == nil", "return nil,_", "call status.Error(codes.InvalidArgument, _)", "assign ctx := sdk.UnwrapSDKContext(c)", "call sdk.UnwrapSDKContext(c)", "assign ownerAddr,err := sdk.AccAddressFromBech32(req.OwnerAddress)", "call sdk.AccAddressFromBech32(req.OwnerAddress)", "if err != nil", "return nil,_", "call status.Error(codes.InvalidArgument, _)", "assign writerAddr,err := sdk.AccAddressFromBech32(req.WriterAddress)", "call sdk.AccAddressFromBech32(req.WriterAddress)", "if err != nil", "return nil,_", "call status.Error(codes.InvalidArgument, _)", "assign writerKey := _", "kv OwnerAddress=ownerAddr", "kv TopicName=req.TopicName", "kv WriterAddress=writerAddr", "if err != nil", "assign _,err := compkey.Encode(&writerKey)", "call compkey.Encode(&writerKey)", "return nil,_", "call status.Error(codes.InvalidArgument, _)", "if !k.HasWriter(ctx, writerKey)", "call k.HasWriter(ctx, writerKey)", "return nil,_", "call status.Error(codes.NotFound, _)", "assign writer := k.GetWriter(ctx, writerKey)", "call k.GetWriter(ctx, writerKey)", "return _,nil", "kv Writer=&writer"]

/-- x/aol/keeper.Keeper.Writers -/
def x_aol_keeper_Keeper_Writers : List String := ["if req == nil", "return nil,_", "call status.Error(codes.InvalidArgument, _)", "assign ctx := sdk.UnwrapSDKContext(c)", "call sdk.UnwrapSDKContext(c)", "assign ownerAddr,err := sdk.AccAddressFromBech32(req.OwnerAddress)", "call sdk.AccAddressFromBech32(req.OwnerAddress)", "if err != nil", "return nil,_", "call status.Error(codes.InvalidArgument, _)", "assign compKeyPrefix,err := _", "call compkey.PartialEncode(_, 2)", "kv OwnerAddress=ownerAddr", "kv TopicName=req.TopicName", "kv WriterAddress=nil", "lit 2", "if err != nil", "return nil,_", "call status.Error(codes.Internal, _)", "assign store := ctx.KVStore(k.storeKey)", "call ctx.KVStore(k.storeKey)", "assign writerStore := prefix.NewStore(store, append(types.WriterKeyPrefix, compKeyPrefix...))", "call prefix.NewStore(store, append(types.WriterKeyPrefix, compKeyPrefix...))", "call append(types.WriterKeyPrefix, compKeyPrefix)", "assign pageRes,err := _", "call query.Paginate(writerStore, req.Pagination, _)", "if err != nil", "assign err := compkey.Decode(append(compKeyPrefix, compKeyLast...), &compKey)", "call compkey.Decode(append(compKeyPrefix, compKeyLast...), &compKey)", "call append(compKeyPrefix, compKeyLast)", "return err", "assign writerAddresses = append(writerAddresses, compKey.WriterAddress.String())", "call append(writerAddresses, compKey.WriterAddress.String())", "call _.String()", "return nil", "if err != nil", "return nil,_", "call status.Error(codes.Internal, err.Error())", "call err.Error()", "return _,nil", "kv WriterAddresses=writerAddresses", "kv Pagination=pageRes"]

/-- x/aol/keeper.NewKeeper -/
def x_aol_keeper_NewKeeper : List String := ["return _", "kv cdc=cdc", "kv storeKey=storeKey", "kv memKey=memKey"]

/-- x/aol/keeper.NewMsgServerImpl -/
def x_aol_keeper_NewMsgServerImpl : List String := ["return _", "kv Keeper=keeper"]

/-- x/aol/keeper.msgServer.AddRecord -/
def x_aol_keeper_msgServer_AddRecord : List String := ["assign ctx := sdk.UnwrapSDKContext(goCtx)", "call sdk.UnwrapSDKContext(goCtx)", "assign ownerAddr,err := sdk.AccAddressFromBech32(msg.OwnerAddress)", "call sdk.AccAddressFromBech32(msg.OwnerAddress)", "if err != nil", "return nil,_", "call errors.Wrapf(sdkerrors.ErrInvalidAddress, _, err)", "assign writerAddr,err := sdk.AccAddressFromBech32(msg.WriterAddress)", "call sdk.AccAddressFromBech32(msg.WriterAddress)", "if err != nil", "return nil,_", "call errors.Wrapf(sdkerrors.ErrInvalidAddress, _, err)", "assign topicKey := _", "kv OwnerAddress=ownerAddr", "kv TopicName=msg.TopicName", "if !k.HasTopic(ctx, topicKey)", "call k.HasTopic(ctx, topicKey)", "return nil,_", "call errors.Wrapf(types.ErrTopicNotFound, _, msg.OwnerAddress, msg.TopicName)", "assign writerKey := _", "kv OwnerAddress=ownerAddr", "kv TopicName=msg.TopicName", "kv WriterAddress=writerAddr", "if !k.HasWriter(ctx, writerKey)", "call k.HasWriter(ctx, writerKey)", "return nil,_", "call errors.Wrapf(types.ErrWriterNotAuthorized, _, msg.OwnerAddress, msg.TopicName, msg.WriterAddress)", "assign topic := k.GetTopic(ctx, topicKey)", "call k.GetTopic(ctx, topicKey)", "assign offset := topic.NextRecordOffset()", "call topic.NextRecordOffset()", "call k.SetTopic(ctx, topicKey, topic.IncreaseTotalRecords())", "call topic.IncreaseTotalRecords()", "assign recordKey := _", "kv OwnerAddress=ownerAddr", "kv TopicName=msg.TopicName", "kv Offset=offset", "assign record := _", "kv Key=msg.Key", "kv Value=msg.Value", "kv NanoTimestamp=ctx.BlockTime().UnixNano()", "call _.UnixNano()", "call ctx.BlockTime()", "kv WriterAddress=msg.WriterAddress", "call k.SetRecord(ctx, recordKey, record)", "return _,nil", "kv OwnerAddress=msg.OwnerAddress", "kv TopicName=msg.TopicName", "kv Offset=offset"]

/-- x/aol/keeper.msgServer.AddWriter -/
def x_aol_keeper_msgServer_AddWriter : List String := ["assign ctx := sdk.UnwrapSDKContext(goCtx)", "call sdk.UnwrapSDKContext(goCtx)", "assign ownerAddr,err := sdk.AccAddressFromBech32(msg.OwnerAddress)", "call sdk.AccAddressFromBech32(msg.OwnerAddress)", "if err != nil", "return nil,_", "call errors.Wrapf(sdkerrors.ErrInvalidAddress, _, err)", "assign writerAddr,err := sdk.AccAddressFromBech32(msg.WriterAddress)", "call sdk.AccAddressFromBech32(msg.WriterAddress)", "if err != nil", "return nil,_", "call errors.Wrapf(sdkerrors.ErrInvalidAddress, _, err)", "assign topicKey := _", "kv OwnerAddress=ownerAddr", "kv TopicName=msg.TopicName", "if !k.HasTopic(ctx, topicKey)", "call k.HasTopic(ctx, topicKey)", "return nil,_", "call errors.Wrapf(types.ErrTopicNotFound, _, msg.OwnerAddress, msg.TopicName)", "assign writerKey := _", "kv OwnerAddress=ownerAddr", "kv TopicName=msg.TopicName", "kv WriterAddress=writerAddr", "if k.HasWriter(ctx, writerKey)", "call k.HasWriter(ctx, writerKey)", "return nil,_", "call errors.Wrapf(types.ErrWriterExists, _, msg.OwnerAddress, msg.TopicName, msg.WriterAddress)", "assign topic := k.GetTopic(ctx, topicKey).IncreaseTotalWriters()", "call _.IncreaseTotalWriters()", "call k.GetTopic(ctx, topicKey)", "call k.SetTopic(ctx, topicKey, topic)", "assign writer := _", "kv Moniker=msg.Moniker", "kv Description=msg.Description", "kv NanoTimestamp=ctx.BlockTime().UnixNano()", "call _.UnixNano()", "call ctx.BlockTime()", "call k.SetWriter(ctx, writerKey, writer)", "return _,nil"]

/-- x/aol/keeper.msgServer.CreateTopic -/
def x_aol_keeper_msgServer_CreateTopic : List String := ["assign ctx := sdk.UnwrapSDKContext(goCtx)", "call sdk.UnwrapSDKContext(goCtx)", "assign ownerAddr,err := sdk.AccAddressFromBech32(msg.OwnerAddress)", "call sdk.AccAddressFromBech32(msg.OwnerAddress)", "if err != nil", "return nil,_", "call errors.Wrapf(sdkerrors.ErrInvalidAddress, _, err)", "assign topicKey := _", "kv OwnerAddress=ownerAddr", "kv TopicName=msg.TopicName", "if k.HasTopic(ctx, topicKey)", "call k.HasTopic(ctx, topicKey)", "return nil,_", "call errors.Wrapf(types.ErrTopicExists, _, msg.OwnerAddress, msg.TopicName)", "assign ownerKey := _", "kv OwnerAddress=ownerAddr", "assign owner := k.GetOwner(ctx, ownerKey).IncreaseTotalTopics()", "call _.IncreaseTotalTopics()", "call k.GetOwner(ctx, ownerKey)", "call k.SetOwner(ctx, ownerKey, owner)", "assign topic := _", "kv Description=msg.Description", "call k.SetTopic(ctx, topicKey, topic)", "return _,nil"]

/-- x/aol/keeper.msgServer.DeleteWriter -/
def x_aol_keeper_msgServer_DeleteWriter : List String := ["assign ctx := sdk.UnwrapSDKContext(goCtx)", "call sdk.UnwrapSDKContext(goCtx)", "assign ownerAddr,err := sdk.AccAddressFromBech32(msg.OwnerAddress)", "call sdk.AccAddressFromBech32(msg.OwnerAddress)", "if err != nil", "return nil,_", "call errors.Wrapf(sdkerrors.ErrInvalidAddress, _, err)", "assign writerAddr,err := sdk.AccAddressFromBech32(msg.WriterAddress)", "call sdk.AccAddressFromBech32(msg.WriterAddress)", "if err != nil", "return nil,_", "call errors.Wrapf(sdkerrors.ErrInvalidAddress, _, err)", "assign topicKey := _", "kv OwnerAddress=ownerAddr", "kv TopicName=msg.TopicName", "assign writerKey := _", "kv OwnerAddress=ownerAddr", "kv TopicName=msg.TopicName", "kv WriterAddress=writerAddr", "if !k.HasWriter(ctx, writerKey)", "call k.HasWriter(ctx, writerKey)", "return nil,_", "call errors.Wrapf(types.ErrWriterNotFound, _, msg.OwnerAddress, msg.TopicName, msg.WriterAddress)", "assign topic := k.GetTopic(ctx, topicKey).DecreaseTotalWriters()", "call _.DecreaseTotalWriters()", "call k.GetTopic(ctx, topicKey)", "call k.SetTopic(ctx, topicKey, topic)", "call k.RemoveWriter(ctx, writerKey)", "return _,nil"]

/-- x/aol/types.DefaultGenesis -/
def x_aol_types_DefaultGenesis : List String := ["return _", "kv Owners", "kv Topics", "kv Writers", "kv Records"]

/-- x/aol/types.GenesisState.Validate -/
def x_aol_types_GenesisState_Validate : List String := ["assign topicsOfOwner := _", "assign writersOfTopic := _", "assign recordsOfTopic := _", "assign topicKeyStr := _", "return _", "call compkey.EncodeToString(_, GenesisKeySeparator)", "kv OwnerAddress=owner", "kv TopicName=topicName", "range gs.Owners", "if err != nil", "assign err := compkey.DecodeFromString(keyStr, GenesisKeySeparator, &key)", "call compkey.DecodeFromString(keyStr, GenesisKeySeparator, &key)", "return err", "if err != nil", "assign err := validateCanonicalKey(keyStr, &key)", "call validateCanonicalKey(keyStr, &key)", "return err", "range gs.Topics", "if err != nil", "assign err := compkey.DecodeFromString(keyStr, GenesisKeySeparator, &key)", "call compkey.DecodeFromString(keyStr, GenesisKeySeparator, &key)", "return err", "if err != nil", "assign err := validateCanonicalKey(keyStr, &key)", "call validateCanonicalKey(keyStr, &key)", "return err", "if err != nil", "assign err := topic.Validate()", "call topic.Validate()", "return err", "call compkey.EncodeToString(_, GenesisKeySeparator)", "kv OwnerAddress=key.OwnerAddress", "range gs.Writers", "if err != nil", "assign err := compkey.DecodeFromString(keyStr, GenesisKeySeparator, &key)", "call compkey.DecodeFromString(keyStr, GenesisKeySeparator, &key)", "return err", "if err != nil", "assign err := validateCanonicalKey(keyStr, &key)", "call validateCanonicalKey(keyStr, &key)", "return err", "if err != nil", "assign err := writer.Validate()", "call writer.Validate()", "return err", "call topicKeyStr(key.OwnerAddress, key.TopicName)", "range gs.Records", "if err != nil", "assign err := compkey.DecodeFromString(keyStr, GenesisKeySeparator, &key)", "call compkey.DecodeFromString(keyStr, GenesisKeySeparator, &key)", "return err", "if err != nil", "assign err := validateCanonicalKey(keyStr, &key)", "call validateCanonicalKey(keyStr, &key)", "return err", "if err != nil", "assign err := record.Validate()", "call record.Validate()", "return err", "assign topicKey := topicKeyStr(key.OwnerAddress, key.TopicName)", "call topicKeyStr(key.OwnerAddress, key.TopicName)", "assign topic,ok := gs.Topics[topicKey]", "if !ok", "return _", "call fmt.Errorf(_, keyStr)", "if key.Offset >= topic.TotalRecords", "return _", "call fmt.Errorf(_, keyStr, topic.TotalRecords)", "range gs.Topics", "if topic.TotalRecords != recordsOfTopic[keyStr]", "return _", "call fmt.Errorf(_, keyStr, topic.TotalRecords, recordsOfTopic[keyStr])", "if topic.TotalWriters != writersOfTopic[keyStr]", "return _", "call fmt.Errorf(_, keyStr, topic.TotalWriters, writersOfTopic[keyStr])", "range writersOfTopic", "if !ok", "assign _,ok := gs.Topics[keyStr]", "return _", "call fmt.Errorf(_, keyStr)", "range topicsOfOwner", "assign owner,ok := gs.Owners[keyStr]", "if !ok || owner.TotalTopics != n", "return _", "call fmt.Errorf(_, keyStr, n)", "range gs.Owners", "if owner.TotalTopics != topicsOfOwner[keyStr]", "return _", "call fmt.Errorf(_, keyStr, owner.TotalTopics, topicsOfOwner[keyStr])", "return nil"]

/-- x/aol/types.MsgAddRecordRequest.GetSignBytes -/
def x_aol_types_MsgAddRecordRequest_GetSignBytes : List String := ["assign bz := ModuleCdc.MustMarshalJSON(msg)", "call ModuleCdc.MustMarshalJSON(msg)", "return _", "call sdk.MustSortJSON(bz)"]

/-- x/aol/types.MsgAddRecordRequest.GetSigners -/
def x_aol_types_MsgAddRecordRequest_GetSigners : List String := ["assign writerAddress,err := sdk.AccAddressFromBech32(msg.WriterAddress)", "call sdk.AccAddressFromBech32(msg.WriterAddress)", "if err != nil", "call panic(err)", "if msg.FeePayerAddress != \"\"", "lit \"\"", "assign feePayerAddress,err := sdk.AccAddressFromBech32(msg.FeePayerAddress)", "call sdk.AccAddressFromBech32(msg.FeePayerAddress)", "if err != nil", "call panic(err)", "return _", "return _"]

/-- x/aol/types.MsgAddRecordRequest.Route -/
def x_aol_types_MsgAddRecordRequest_Route : List String := ["return RouterKey"]

/-- x/aol/types.MsgAddRecordRequest.Type -/
def x_aol_types_MsgAddRecordRequest_Type : List String := ["return \"AddRecord\"", "lit \"AddRecord\""]

/-- x/aol/types.MsgAddRecordRequest.ValidateBasic -/
def x_aol_types_MsgAddRecordRequest_ValidateBasic : List String := ["if err != nil", "assign err := validateTopicName(msg.TopicName)", "call validateTopicName(msg.TopicName)", "return err", "if err != nil", "assign err := validateRecordKey(msg.Key)", "call validateRecordKey(msg.Key)", "return err", "if err != nil", "assign err := validateRecordValue(msg.Value)", "call validateRecordValue(msg.Value)", "return err", "if err != nil", "assign _,err := sdk.AccAddressFromBech32(msg.WriterAddress)", "call sdk.AccAddressFromBech32(msg.WriterAddress)", "return _", "call errors.Wrapf(sdkerrors.ErrInvalidAddress, _, err)", "if err != nil", "assign _,err := sdk.AccAddressFromBech32(msg.OwnerAddress)", "call sdk.AccAddressFromBech32(msg.OwnerAddress)", "return _", "call errors.Wrapf(sdkerrors.ErrInvalidAddress, _, err)", "if msg.FeePayerAddress != \"\"", "lit \"\"", "if err != nil", "assign _,err := sdk.AccAddressFromBech32(msg.FeePayerAddress)", "call sdk.AccAddressFromBech32(msg.FeePayerAddress)", "return _", "call errors.Wrapf(sdkerrors.ErrInvalidAddress, _, err)", "return nil"]

/-- x/aol/types.MsgAddWriterRequest.GetSignBytes -/
def x_aol_types_MsgAddWriterRequest_GetSignBytes : List String := ["assign bz := ModuleCdc.MustMarshalJSON(msg)", "call ModuleCdc.MustMarshalJSON(msg)", "return _", "call sdk.MustSortJSON(bz)"]

/-- x/aol/types.MsgAddWriterRequest.GetSigners -/
def x_aol_types_MsgAddWriterRequest_GetSigners : List String := ["assign ownerAddress,err := sdk.AccAddressFromBech32(msg.OwnerAddress)", "call sdk.AccAddressFromBech32(msg.OwnerAddress)", "if err != nil", "call panic(err)", "return _"]

/-- x/aol/types.MsgAddWriterRequest.Route -/
def x_aol_types_MsgAddWriterRequest_Route : List String := ["return RouterKey"]

/-- x/aol/types.MsgAddWriterRequest.Type -/
def x_aol_types_MsgAddWriterRequest_Type : List String := ["return \"AddWriter\"", "lit \"AddWriter\""]

/-- x/aol/types.MsgAddWriterRequest.ValidateBasic -/
def x_aol_types_MsgAddWriterRequest_ValidateBasic : List String := ["if err != nil", "assign err := validateTopicName(msg.TopicName)", "call validateTopicName(msg.TopicName)", "return err", "if err != nil", "assign err := validateMoniker(msg.Moniker)", "call validateMoniker(msg.Moniker)", "return err", "if err != nil", "assign err := validateDescription(msg.Description)", "call validateDescription(msg.Description)", "return err", "if err != nil", "assign _,err := sdk.AccAddressFromBech32(msg.WriterAddress)", "call sdk.AccAddressFromBech32(msg.WriterAddress)", "return _", "call errors.Wrapf(sdkerrors.ErrInvalidAddress, _, err)", "if err != nil", "assign _,err := sdk.AccAddressFromBech32(msg.OwnerAddress)", "call sdk.AccAddressFromBech32(msg.OwnerAddress)", "return _", "call errors.Wrapf(sdkerrors.ErrInvalidAddress, _, err)", "return nil"]

/-- x/aol/types.MsgCreateTopicRequest.GetSignBytes -/
def x_aol_types_MsgCreateTopicRequest_GetSignBytes : List String := ["assign bz := ModuleCdc.MustMarshalJSON(msg)", "call ModuleCdc.MustMarshalJSON(msg)", "return _", "call sdk.MustSortJSON(bz)"]

/-- x/aol/types.MsgCreateTopicRequest.GetSigners -/
def x_aol_types_MsgCreateTopicRequest_GetSigners : List String := ["assign ownerAddress,err := sdk.AccAddressFromBech32(msg.OwnerAddress)", "call sdk.AccAddressFromBech32(msg.OwnerAddress)", "if err != nil", "call panic(err)", "return _"]

/-- x/aol/types.MsgCreateTopicRequest.Route -/
def x_aol_types_MsgCreateTopicRequest_Route : List String := ["return RouterKey"]

/-- x/aol/types.MsgCreateTopicRequest.Type -/
def x_aol_types_MsgCreateTopicRequest_Type : List String := ["return \"CreateTopic\"", "lit \"CreateTopic\""]

/-- x/aol/types.MsgCreateTopicRequest.ValidateBasic -/
def x_aol_types_MsgCreateTopicRequest_ValidateBasic : List String := ["if err != nil", "assign err := validateTopicName(msg.TopicName)", "call validateTopicName(msg.TopicName)", "return err", "if err != nil", "assign err := validateDescription(msg.Description)", "call validateDescription(msg.Description)", "return err", "if err != nil", "assign _,err := sdk.AccAddressFromBech32(msg.OwnerAddress)", "call sdk.AccAddressFromBech32(msg.OwnerAddress)", "return _", "call errors.Wrapf(sdkerrors.ErrInvalidAddress, _, err)", "return nil"]

/-- x/aol/types.MsgDeleteWriterRequest.GetSignBytes -/
def x_aol_types_MsgDeleteWriterRequest_GetSignBytes : List String := ["assign bz := ModuleCdc.MustMarshalJSON(msg)", "call ModuleCdc.MustMarshalJSON(msg)", "return _", "call sdk.MustSortJSON(bz)"]

/-- x/aol/types.MsgDeleteWriterRequest.GetSigners -/
def x_aol_types_MsgDeleteWriterRequest_GetSigners : List String := ["assign ownerAddress,err := sdk.AccAddressFromBech32(msg.OwnerAddress)", "call sdk.AccAddressFromBech32(msg.OwnerAddress)", "if err != nil", "call panic(err)", "return _"]

/-- x/aol/types.MsgDeleteWriterRequest.Route -/
def x_aol_types_MsgDeleteWriterRequest_Route : List String := ["return RouterKey"]

/-- x/aol/types.MsgDeleteWriterRequest.Type -/
def x_aol_types_MsgDeleteWriterRequest_Type : List String := ["return \"DeleteWriter\"", "lit \"DeleteWriter\""]

/-- x/aol/types.MsgDeleteWriterRequest.ValidateBasic -/
def x_aol_types_MsgDeleteWriterRequest_ValidateBasic : List String := ["if err != nil", "assign err := validateTopicName(msg.TopicName)", "call validateTopicName(msg.TopicName)", "return err", "if err != nil", "assign _,err := sdk.AccAddressFromBech32(msg.WriterAddress)", "call sdk.AccAddressFromBech32(msg.WriterAddress)", "return _", "call errors.Wrapf(sdkerrors.ErrInvalidAddress, _, err)", "if err != nil", "assign _,err := sdk.AccAddressFromBech32(msg.OwnerAddress)", "call sdk.AccAddressFromBech32(msg.OwnerAddress)", "return _", "call errors.Wrapf(sdkerrors.ErrInvalidAddress, _, err)", "return nil"]

/-- x/aol/types.NewMsgAddRecordRequest -/
def x_aol_types_NewMsgAddRecordRequest : List String := ["return _", "kv TopicName=topicName", "kv Key=key", "kv Value=value", "kv WriterAddress=writerAddress", "kv OwnerAddress=ownerAddress", "kv FeePayerAddress=feePayerAddress"]

/-- x/aol/types.NewMsgAddWriter -/
def x_aol_types_NewMsgAddWriter : List String := ["return _", "kv TopicName=topicName", "kv Moniker=moniker", "kv Description=description", "kv WriterAddress=writerAddress", "kv OwnerAddress=ownerAddress"]

/-- x/aol/types.NewMsgCreateTopic -/
def x_aol_types_NewMsgCreateTopic : List String := ["return _", "kv TopicName=topicName", "kv Description=description", "kv OwnerAddress=ownerAddress"]

/-- x/aol/types.NewMsgDeleteWriter -/
def x_aol_types_NewMsgDeleteWriter : List String := ["return _", "kv TopicName=topicName", "kv WriterAddress=writerAddress", "kv OwnerAddress=ownerAddress"]

/-- x/aol/types.Owner.IncreaseTotalTopics -/
def x_aol_types_Owner_IncreaseTotalTopics : List String := ["return _", "kv TotalTopics=o.TotalTopics + 1", "op +", "lit 1"]

/-- x/aol/types.OwnerCompositeKey.ByteSlices -/
def x_aol_types_OwnerCompositeKey_ByteSlices : List String := ["return _", "call _.Bytes()"]

/-- x/aol/types.OwnerCompositeKey.FromByteSlices -/
def x_aol_types_OwnerCompositeKey_FromByteSlices : List String := ["if len(bzs) != 1", "call len(bzs)", "lit 1", "return _", "call fmt.Errorf(_)", "if err != nil", "assign err := sdk.VerifyAddressFormat(bzs[0])", "call sdk.VerifyAddressFormat(bzs[0])", "lit 0", "return _", "call fmt.Errorf(_, err)", "assign k.OwnerAddress = bzs[0]", "lit 0", "return nil"]

/-- x/aol/types.OwnerCompositeKey.FromStrings -/
def x_aol_types_OwnerCompositeKey_FromStrings : List String := ["if len(strings) != 1", "call len(strings)", "lit 1", "return _", "call fmt.Errorf(_)", "assign addr,err := sdk.AccAddressFromBech32(strings[0])", "call sdk.AccAddressFromBech32(strings[0])", "lit 0", "if err != nil", "return _", "call fmt.Errorf(_, err)", "assign k.OwnerAddress = addr", "return nil"]

/-- x/aol/types.OwnerCompositeKey.Strings -/
def x_aol_types_OwnerCompositeKey_Strings : List String := ["return _", "call _.String()"]

/-- x/aol/types.Record.Validate -/
def x_aol_types_Record_Validate : List String := ["if err != nil", "assign err := validateRecordKey(r.Key)", "call validateRecordKey(r.Key)", "return err", "if err != nil", "assign err := validateRecordValue(r.Key)", "call validateRecordValue(r.Key)", "return err", "if err != nil", "assign _,err := sdk.AccAddressFromBech32(r.WriterAddress)", "call sdk.AccAddressFromBech32(r.WriterAddress)", "return err", "return nil"]

/-- x/aol/types.RecordCompositeKey.ByteSlices -/
def x_aol_types_RecordCompositeKey_ByteSlices : List String := ["return _", "call _.Bytes()", "call ?(k.TopicName)", "call sdk.Uint64ToBigEndian(k.Offset)"]

/-- x/aol/types.RecordCompositeKey.FromByteSlices -/
def x_aol_types_RecordCompositeKey_FromByteSlices : List String := ["if len(bzs) != 3", "call len(bzs)", "lit 3", "return _", "call fmt.Errorf(_)", "if err != nil", "assign err := sdk.VerifyAddressFormat(bzs[0])", "call sdk.VerifyAddressFormat(bzs[0])", "lit 0", "return _", "call fmt.Errorf(_, err)", "if len(bzs[2]) != 8", "call len(bzs[2])", "lit 2", "lit 8", "return _", "call fmt.Errorf(_, len(bzs[2]))", "call len(bzs[2])", "lit 2", "assign k.OwnerAddress = bzs[0]", "lit 0", "assign k.TopicName = string(bzs[1])", "call string(bzs[1])", "lit 1", "assign k.Offset = sdk.BigEndianToUint64(bzs[2])", "call sdk.BigEndianToUint64(bzs[2])", "lit 2", "return nil"]

/-- x/aol/types.RecordCompositeKey.FromStrings -/
def x_aol_types_RecordCompositeKey_FromStrings : List String := ["if len(strings) != 3", "call len(strings)", "lit 3", "return _", "call fmt.Errorf(_)", "assign ownerAddr,err := sdk.AccAddressFromBech32(strings[0])", "call sdk.AccAddressFromBech32(strings[0])", "lit 0", "if err != nil", "return _", "call fmt.Errorf(_, err)", "assign offset,err := strconv.ParseUint(strings[2], 10, 64)", "call strconv.ParseUint(strings[2], 10, 64)", "lit 2", "lit 10", "lit 64", "if err != nil", "return _", "call fmt.Errorf(_, err)", "assign k.OwnerAddress = ownerAddr", "assign k.TopicName = strings[1]", "lit 1", "assign k.Offset = offset", "return nil"]

/-- x/aol/types.RecordCompositeKey.Strings -/
def x_aol_types_RecordCompositeKey_Strings : List String := ["return _", "call _.String()", "call strconv.FormatUint(k.Offset, 10)", "lit 10"]

/-- x/aol/types.RegisterCodec -/
def x_aol_types_RegisterCodec : List String := ["call cdc.RegisterConcrete(_, \"aol/CreateTopic\", nil)", "lit \"aol/CreateTopic\"", "call cdc.RegisterConcrete(_, \"aol/AddWriter\", nil)", "lit \"aol/AddWriter\"", "call cdc.RegisterConcrete(_, \"aol/DeleteWriter\", nil)", "lit \"aol/DeleteWriter\"", "call cdc.RegisterConcrete(_, \"aol/AddRecord\", nil)", "lit \"aol/AddRecord\""]

/-- x/aol/types.RegisterInterfaces -/
def x_aol_types_RegisterInterfaces : List String := ["call registry.RegisterImplementations((*sdk.Msg)(nil), _, _, _, _)", "call ?(nil)", "call msgservice.RegisterMsgServiceDesc(registry, &_Msg_serviceDesc)"]

/-- x/aol/types.Topic.DecreaseTotalWriters -/
def x_aol_types_Topic_DecreaseTotalWriters : List String := ["return _", "kv TotalRecords=t.TotalRecords", "kv TotalWriters=t.TotalWriters - 1", "op -", "lit 1", "kv Description=t.Description"]

/-- x/aol/types.Topic.IncreaseTotalRecords -/
def x_aol_types_Topic_IncreaseTotalRecords : List String := ["return _", "kv TotalRecords=t.TotalRecords + 1", "op +", "lit 1", "kv TotalWriters=t.TotalWriters", "kv Description=t.Description"]

/-- x/aol/types.Topic.IncreaseTotalWriters -/
def x_aol_types_Topic_IncreaseTotalWriters : List String := ["return _", "kv TotalRecords=t.TotalRecords", "kv TotalWriters=t.TotalWriters + 1", "op +", "lit 1", "kv Description=t.Description"]

/-- x/aol/types.Topic.NextRecordOffset -/
def x_aol_types_Topic_NextRecordOffset : List String := ["return _"]

/-- x/aol/types.Topic.Validate -/
def x_aol_types_Topic_Validate : List String := ["return _", "call validateDescription(t.Description)"]

/-- x/aol/types.TopicCompositeKey.ByteSlices -/
def x_aol_types_TopicCompositeKey_ByteSlices : List String := ["return _", "call _.Bytes()", "call ?(k.TopicName)"]

/-- x/aol/types.TopicCompositeKey.FromByteSlices -/
def x_aol_types_TopicCompositeKey_FromByteSlices : List String := ["if len(bzs) != 2", "call len(bzs)", "lit 2", "return _", "call fmt.Errorf(_)", "if err != nil", "assign err := sdk.VerifyAddressFormat(bzs[0])", "call sdk.VerifyAddressFormat(bzs[0])", "lit 0", "return _", "call fmt.Errorf(_, err)", "assign k.OwnerAddress = bzs[0]", "lit 0", "assign k.TopicName = string(bzs[1])", "call string(bzs[1])", "lit 1", "return nil"]

/-- x/aol/types.TopicCompositeKey.FromStrings -/
def x_aol_types_TopicCompositeKey_FromStrings : List String := ["if len(strings) != 2", "call len(strings)", "lit 2", "return _", "call fmt.Errorf(_)", "assign addr,err := sdk.AccAddressFromBech32(strings[0])", "call sdk.AccAddressFromBech32(strings[0])", "lit 0", "if err != nil", "return _", "call fmt.Errorf(_, err)", "assign k.OwnerAddress = addr", "assign k.TopicName = strings[1]", "lit 1", "return nil"]

/-- x/aol/types.TopicCompositeKey.Strings -/
def x_aol_types_TopicCompositeKey_Strings : List String := ["return _", "call _.String()"]

/-- x/aol/types.Writer.Validate -/
def x_aol_types_Writer_Validate : List String := ["if err != nil", "assign err := validateMoniker(w.Moniker)", "call validateMoniker(w.Moniker)", "return err", "if err != nil", "assign err := validateDescription(w.Description)", "call validateDescription(w.Description)", "return err", "return nil"]

/-- x/aol/types.WriterCompositeKey.ByteSlices -/
def x_aol_types_WriterCompositeKey_ByteSlices : List String := ["return _", "call _.Bytes()", "call ?(k.TopicName)", "call _.Bytes()"]

/-- x/aol/types.WriterCompositeKey.FromByteSlices -/
def x_aol_types_WriterCompositeKey_FromByteSlices : List String := ["if len(bzs) != 3", "call len(bzs)", "lit 3", "return _", "call fmt.Errorf(_)", "if err != nil", "assign err := sdk.VerifyAddressFormat(bzs[0])", "call sdk.VerifyAddressFormat(bzs[0])", "lit 0", "return _", "call fmt.Errorf(_, err)", "if err != nil", "assign err := sdk.VerifyAddressFormat(bzs[2])", "call sdk.VerifyAddressFormat(bzs[2])", "lit 2", "return _", "call fmt.Errorf(_, err)", "assign k.OwnerAddress = bzs[0]", "lit 0", "assign k.TopicName = string(bzs[1])", "call string(bzs[1])", "lit 1", "assign k.WriterAddress = bzs[2]", "lit 2", "return nil"]

/-- x/aol/types.WriterCompositeKey.FromStrings -/
def x_aol_types_WriterCompositeKey_FromStrings : List String := ["if len(strings) != 3", "call len(strings)", "lit 3", "return _", "call fmt.Errorf(_)", "assign ownerAddr,err := sdk.AccAddressFromBech32(strings[0])", "call sdk.AccAddressFromBech32(strings[0])", "lit 0", "if err != nil", "return _", "call fmt.Errorf(_, err)", "assign writerAddr,err := sdk.AccAddressFromBech32(strings[2])", "call sdk.AccAddressFromBech32(strings[2])", "lit 2", "if err != nil", "return _", "call fmt.Errorf(_, err)", "assign k.OwnerAddress = ownerAddr", "assign k.TopicName = strings[1]", "lit 1", "assign k.WriterAddress = writerAddr", "return nil"]

/-- x/aol/types.WriterCompositeKey.Strings -/
def x_aol_types_WriterCompositeKey_Strings : List String := ["return _", "call _.String()", "call _.String()"]

/-- x/aol/types.init -/
def x_aol_types_init : List String := ["call RegisterCodec(amino)", "call amino.Seal()", "call RegisterCodec(authzcodec.Amino)", "call RegisterCodec(govcodec.Amino)", "call RegisterCodec(groupcodec.Amino)"]

/-- x/aol/types.validateCanonicalKey -/
def x_aol_types_validateCanonicalKey : List String := ["if canonical != keyStr", "assign canonical := compkey.EncodeToString(key, GenesisKeySeparator)", "call compkey.EncodeToString(key, GenesisKeySeparator)", "return _", "call fmt.Errorf(_, keyStr, canonical)", "return nil"]

/-- x/aol/types.validateDescription -/
def x_aol_types_validateDescription : List String := ["if len(description) > maxDescriptionLength", "call len(description)", "return _", "call errors.Wrapf(ErrMessageTooLarge, _, len(description), maxDescriptionLength)", "call len(description)", "return nil"]

/-- x/aol/types.validateMoniker -/
def x_aol_types_validateMoniker : List String := ["if len(moniker) > maxMonikerLength", "call len(moniker)", "return _", "call errors.Wrapf(ErrMessageTooLarge, _, len(moniker), maxMonikerLength)", "call len(moniker)", "if !regexp.MustCompile(\"^[A-Za-z0-9._-]*$\").MatchString(moniker)", "call _.MatchString(moniker)", "call regexp.MustCompile(\"^[A-Za-z0-9._-]*$\")", "lit \"^[A-Za-z0-9._-]*$\"", "return _", "call errors.Wrapf(ErrInvalidMoniker, _, moniker)", "return nil"]

/-- x/aol/types.validateRecordKey -/
def x_aol_types_validateRecordKey : List String := ["if len(key) > maxRecordKeyLength", "call len(key)", "return _", "call errors.Wrapf(ErrMessageTooLarge, _, len(key), maxRecordKeyLength)", "call len(key)", "return nil"]

/-- x/aol/types.validateRecordValue -/
def x_aol_types_validateRecordValue : List String := ["if len(value) > maxRecordValueLength", "call len(value)", "return _", "call errors.Wrapf(ErrMessageTooLarge, _, len(value), maxRecordValueLength)", "call len(value)", "return nil"]

/-- x/aol/types.validateTopicName -/
def x_aol_types_validateTopicName : List String := ["if len(topicName) > maxTopicLength", "call len(topicName)", "return _", "call errors.Wrapf(ErrMessageTooLarge, _, len(topicName), maxTopicLength)", "call len(topicName)", "if !regexp.MustCompile(\"^[A-Za-z0-9._-]+$\").MatchString(topicName)", "call _.MatchString(topicName)", "call regexp.MustCompile(\"^[A-Za-z0-9._-]+$\")", "lit \"^[A-Za-z0-9._-]+$\"", "return _", "call errors.Wrapf(ErrInvalidTopic, _, topicName)", "return nil"]

/-- x/burn.AppModule.BeginBlock -/
def x_burn_AppModule_BeginBlock : List String := []

/-- x/burn.AppModule.ConsensusVersion -/
def x_burn_AppModule_ConsensusVersion : List String := ["return 1", "lit 1"]

/-- x/burn.AppModule.EndBlock -/
def x_burn_AppModule_EndBlock : List String := ["assign err := am.keeper.BurnCoins(ctx, types.BurnAddress)", "call _.BurnCoins(ctx, types.BurnAddress)", "if err != nil", "call _.Error(_, fmt.Sprintf(\"msg : %s\", err.Error()))", "call ctx.Logger()", "call fmt.Sprintf(_, err.Error())", "lit \"msg : %s\"", "call err.Error()", "return _"]

/-- x/burn.AppModule.ExportGenesis -/
def x_burn_AppModule_ExportGenesis : List String := ["assign genState := ExportGenesis(ctx, am.keeper)", "call ExportGenesis(ctx, am.keeper)", "return _", "call cdc.MustMarshalJSON(genState)"]

/-- x/burn.AppModule.InitGenesis -/
def x_burn_AppModule_InitGenesis : List String := ["call cdc.MustUnmarshalJSON(gs, &genState)", "call InitGenesis(ctx, am.keeper, genState)", "return _"]

/-- x/burn.AppModule.Name -/
def x_burn_AppModule_Name : List String := ["return _", "call _.Name()"]

/-- x/burn.AppModule.QuerierRoute -/
def x_burn_AppModule_QuerierRoute : List String := ["return _"]

/-- x/burn.AppModule.RegisterInvariants -/
def x_burn_AppModule_RegisterInvariants : List String := []

/-- x/burn.AppModule.RegisterServices -/
def x_burn_AppModule_RegisterServices : List String := []

/-- x/burn.AppModuleBasic.DefaultGenesis -/
def x_burn_AppModuleBasic_DefaultGenesis : List String := ["return _", "call cdc.MustMarshalJSON(types.DefaultGenesis())", "call types.DefaultGenesis()"]

/-- x/burn.AppModuleBasic.GetQueryCmd -/
def x_burn_AppModuleBasic_GetQueryCmd : List String := ["return nil"]

/-- x/burn.AppModuleBasic.GetTxCmd -/
def x_burn_AppModuleBasic_GetTxCmd : List String := ["return nil"]

/-- x/burn.AppModuleBasic.Name -/
def x_burn_AppModuleBasic_Name : List String := ["return _"]

/-- x/burn.AppModuleBasic.RegisterCodec -/
def x_burn_AppModuleBasic_RegisterCodec : List String := ["call types.RegisterCodec(cdc)"]

/-- x/burn.AppModuleBasic.RegisterGRPCGatewayRoutes -/
def x_burn_AppModuleBasic_RegisterGRPCGatewayRoutes : List String := []

/-- x/burn.AppModuleBasic.RegisterInterfaces -/
def x_burn_AppModuleBasic_RegisterInterfaces : List String := ["call types.RegisterInterfaces(reg)"]

/-- x/burn.AppModuleBasic.RegisterLegacyAminoCodec -/
def x_burn_AppModuleBasic_RegisterLegacyAminoCodec : List String := ["call types.RegisterCodec(cdc)"]

/-- x/burn.AppModuleBasic.ValidateGenesis -/
def x_burn_AppModuleBasic_ValidateGenesis : List String := ["if err != nil", "assign err := cdc.UnmarshalJSON(bz, &genState)", "call cdc.UnmarshalJSON(bz, &genState)", "return _", "call fmt.Errorf(_, types.ModuleName, err)", "return _", "call genState.Validate()"]

/-- x/burn.ExportGenesis -/
def x_burn_ExportGenesis : List String := ["return _", "call types.DefaultGenesis()"]

/-- x/burn.InitGenesis -/
def x_burn_InitGenesis : List String := []

/-- x/burn.NewAppModule -/
def x_burn_NewAppModule : List String := ["return _", "kv AppModuleBasic=NewAppModuleBasic(cdc)", "call NewAppModuleBasic(cdc)", "kv keeper=keeper"]

/-- x/burn.NewAppModuleBasic -/
def x_burn_NewAppModuleBasic : List String := ["return _", "kv cdc=cdc"]

/-- x/burn/keeper.Keeper.BurnCoins -/
def x_burn_keeper_Keeper_BurnCoins : List String := ["assign burnAcc,err := sdk.AccAddressFromBech32(acc)", "call sdk.AccAddressFromBech32(acc)", "if err != nil", "return err", "assign burnCoins := k.bankKeeper.SpendableCoins(ctx, burnAcc)", "call _.SpendableCoins(ctx, burnAcc)", "if burnCoins.Empty()", "call burnCoins.Empty()", "return nil", "call _.Info(_, fmt.Sprintf(\"address: %s, coins: %s\", acc, burnCoins))", "call ctx.Logger()", "call fmt.Sprintf(_, acc, burnCoins)", "lit \"address: %s, coins: %s\"", "assign err = k.bankKeeper.SendCoinsFromAccountToModule(ctx, burnAcc, types.ModuleName, burnCoins)", "call _.SendCoinsFromAccountToModule(ctx, burnAcc, types.ModuleName, burnCoins)", "if err != nil", "return err", "assign err = k.bankKeeper.BurnCoins(ctx, types.ModuleName, burnCoins)", "call _.BurnCoins(ctx, types.ModuleName, burnCoins)", "if err != nil", "return err", "call _.Info(_, fmt.Sprintf(\"address: %s, coins: %s\", acc, burnCoins))", "call ctx.Logger()", "call fmt.Sprintf(_, acc, burnCoins)", "lit \"address: %s, coins: %s\"", "call _.Info(_, _)", "call ctx.Logger()", "call fmt.Sprintf(_, k.bankKeeper.GetSupply(ctx, assets.MicroMedDenom))", "lit \"total: %s\"", "call _.GetSupply(ctx, assets.MicroMedDenom)", "return nil"]

/-- x/burn/keeper.Keeper.Logger -/
def x_burn_keeper_Keeper_Logger : List String := ["return _", "call _.With(\"burn\", fmt.Sprintf(\"x/%s\", types.ModuleName))", "call ctx.Logger()", "lit \"burn\"", "call fmt.Sprintf(_, types.ModuleName)", "lit \"x/%s\""]

/-- x/burn/keeper.NewKeeper -/
def x_burn_keeper_NewKeeper : List String := ["return _", "kv bankKeeper=bankKeeper"]

/-- x/burn/types.DefaultGenesis -/
def x_burn_types_DefaultGenesis : List String := ["return _"]

/-- x/burn/types.GenesisState.Validate -/
def x_burn_types_GenesisState_Validate : List String := ["return nil"]

/-- x/burn/types.RegisterCodec -/
def x_burn_types_RegisterCodec : List String := []

/-- x/burn/types.RegisterInterfaces -/
def x_burn_types_RegisterInterfaces : List String := []

/-- x/did.AppModule.BeginBlock -/
def x_did_AppModule_BeginBlock : List String := []

/-- x/did.AppModule.ConsensusVersion -/
def x_did_AppModule_ConsensusVersion : List String := ["return 1", "lit 1"]

/-- x/did.AppModule.EndBlock -/
def x_did_AppModule_EndBlock : List String := ["return _"]

/-- x/did.AppModule.ExportGenesis -/
def x_did_AppModule_ExportGenesis : List String := ["assign genState := ExportGenesis(ctx, am.keeper)", "call ExportGenesis(ctx, am.keeper)", "return _", "call cdc.MustMarshalJSON(genState)"]

/-- x/did.AppModule.InitGenesis -/
def x_did_AppModule_InitGenesis : List String := ["call cdc.MustUnmarshalJSON(gs, &genState)", "call InitGenesis(ctx, am.keeper, genState)", "return _"]

/-- x/did.AppModule.Name -/
def x_did_AppModule_Name : List String := ["return _", "call _.Name()"]

/-- x/did.AppModule.QuerierRoute -/
def x_did_AppModule_QuerierRoute : List String := ["return _"]

/-- x/did.AppModule.RegisterInvariants -/
def x_did_AppModule_RegisterInvariants : List String := []

/-- x/did.AppModule.RegisterServices -/
def x_did_AppModule_RegisterServices : List String := ["call types.RegisterQueryServer(cfg.QueryServer(), am.keeper)", "call cfg.QueryServer()", "call types.RegisterMsgServer(cfg.MsgServer(), keeper.NewMsgServerImpl(am.keeper))", "call cfg.MsgServer()", "call keeper.NewMsgServerImpl(am.keeper)"]

/-- x/did.AppModuleBasic.DefaultGenesis -/
def x_did_AppModuleBasic_DefaultGenesis : List String := ["return _", "call cdc.MustMarshalJSON(types.DefaultGenesis())", "call types.DefaultGenesis()"]

/-- x/did.AppModuleBasic.GetQueryCmd -/
def x_did_AppModuleBasic_GetQueryCmd : List String := ["return _", "call cli.GetQueryCmd(types.StoreKey)"]

/-- x/did.AppModuleBasic.GetTxCmd -/
def x_did_AppModuleBasic_GetTxCmd : List String := ["return _", "call cli.GetTxCmd()"]

/-- x/did.AppModuleBasic.Name -/
def x_did_AppModuleBasic_Name : List String := ["return _"]

/-- x/did.AppModuleBasic.RegisterCodec -/
def x_did_AppModuleBasic_RegisterCodec : List String := ["call types.RegisterCodec(cdc)"]

/-- x/did.AppModuleBasic.RegisterGRPCGatewayRoutes -/
def x_did_AppModuleBasic_RegisterGRPCGatewayRoutes : List String := ["assign err := _", "call types.RegisterQueryHandlerClient(context.Background(), mux, types.NewQueryClient(clientCtx))", "call context.Background()", "call types.NewQueryClient(clientCtx)", "if err != nil", "call panic(\"Error RegisterGRPCGatewayRoutes\")", "lit \"Error RegisterGRPCGatewayRoutes\""]

/-- x/did.AppModuleBasic.RegisterInterfaces -/
def x_did_AppModuleBasic_RegisterInterfaces : List String := ["call types.RegisterInterfaces(reg)"]

/-- x/did.AppModuleBasic.RegisterLegacyAminoCodec -/
def x_did_AppModuleBasic_RegisterLegacyAminoCodec : List String := ["call types.RegisterCodec(cdc)"]

/-- x/did.AppModuleBasic.ValidateGenesis -/
def x_did_AppModuleBasic_ValidateGenesis : List String := ["if err != nil", "assign err := cdc.UnmarshalJSON(bz, &genState)", "call cdc.UnmarshalJSON(bz, &genState)", "return _", "call fmt.Errorf(_, types.ModuleName, err)", "return _", "call genState.Validate()"]

/-- x/did.ExportGenesis -/
def x_did_ExportGenesis : List String := ["assign documentsMap := make(map[string]*types.DIDDocumentWithSeq)", "call make(map[string]*types.DIDDocumentWithSeq)", "range k.ListDIDs(ctx)", "call k.ListDIDs(ctx)", "assign key := _", "call _.Marshal()", "kv DID=did", "assign document := k.GetDIDDocument(ctx, did)", "call k.GetDIDDocument(ctx, did)", "assign documentsMap[key] = &document", "return _", "kv Documents=documentsMap"]

/-- x/did.InitGenesis -/
def x_did_InitGenesis : List String := ["range data.Documents", "call k.SetDIDDocument(ctx, did, *doc)"]

/-- x/did.NewAppModule -/
def x_did_NewAppModule : List String := ["return _", "kv AppModuleBasic=NewAppModuleBasic(cdc)", "call NewAppModuleBasic(cdc)", "kv keeper=keeper"]

/-- x/did.NewAppModuleBasic -/
def x_did_NewAppModuleBasic : List String := ["return _", "kv cdc=cdc"]

/-- x/did/client/crypto.GenSecp256k1PrivKey -/
def x_did_client_crypto_GenSecp256k1PrivKey : List String := ["if mnemonic == \"\"", "lit \"\"", "assign entropySeed,err := bip39.NewEntropy(mnemonicEntropySize)", "call bip39.NewEntropy(mnemonicEntropySize)", "if err != nil", "return _,err", "assign mnemonic,err = bip39.NewMnemonic(entropySeed[:])", "call bip39.NewMnemonic(entropySeed[:])", "if err != nil", "return _,err", "call fmt.Fprintf(os.Stderr, \"A random mnemonic was generated: %s\\n\", mnemonic)", "lit \"A random mnemonic was generated: %s\\n\"", "if !bip39.IsMnemonicValid(mnemonic)", "call bip39.IsMnemonicValid(mnemonic)", "return _,_", "call fmt.Errorf(_, mnemonic)", "assign seed,err := bip39.NewSeedWithErrorChecking(mnemonic, bip39Passphrase)", "call bip39.NewSeedWithErrorChecking(mnemonic, bip39Passphrase)", "if err != nil", "return _,err", "assign hdPath := _", "call _.String()", "call hd.NewFundraiserParams(defaultAccountForHD, sdk.GetConfig().GetCoinType(), defaultIndexForHD)", "call _.GetCoinType()", "call sdk.GetConfig()", "assign masterPriv,chainCode := hd.ComputeMastersFromSeed(seed)", "call hd.ComputeMastersFromSeed(seed)", "return _", "call hd.DerivePrivateKeyForPath(masterPriv, chainCode, hdPath)"]

/-- x/did/client/crypto.KeyStore.Load -/
def x_did_client_crypto_KeyStore_Load : List String := ["assign encryptedKey,err := ks.load(path)", "call ks.load(path)", "if err != nil", "return nil,err", "return _", "call decryptKey(encryptedKey, passwd)"]

/-- x/did/client/crypto.KeyStore.LoadByAddress -/
def x_did_client_crypto_KeyStore_LoadByAddress : List String := ["call _.RLock()", "assign path,err := ks.recentPath(address)", "call ks.recentPath(address)", "call _.RUnlock()", "if err != nil", "return nil,err", "return _", "call ks.Load(path, passwd)"]

/-- x/did/client/crypto.KeyStore.Save -/
def x_did_client_crypto_KeyStore_Save : List String := ["assign encryptedKey,err := encryptKey(address, key, passwd)", "call encryptKey(address, key, passwd)", "if err != nil", "return \"\",_", "lit \"\"", "call fmt.Errorf(_, err)", "return _", "call ks.save(address, encryptedKey)"]

/-- x/did/client/crypto.KeyStore.load -/
def x_did_client_crypto_KeyStore_load : List String := ["call _.RLock()", "defer", "call _.RUnlock()", "assign file,err := os.Open(path)", "call os.Open(path)", "if err != nil", "return key,err", "defer", "call file.Close()", "if err != nil", "assign err := json.NewDecoder(file).Decode(&key)", "call _.Decode(&key)", "call json.NewDecoder(file)", "return key,_", "call fmt.Errorf(_, err)", "return key,nil"]

/-- x/did/client/crypto.KeyStore.newPath -/
def x_did_client_crypto_KeyStore_newPath : List String := ["return _", "call filepath.Join(ks.baseDir, _)", "call fmt.Sprintf(_, time.Now().UTC().Format(\"2006-01-02T15-04-05.000000000Z\"), address)", "lit \"UTC--%s--%s.json\"", "call _.Format(\"2006-01-02T15-04-05.000000000Z\")", "call _.UTC()", "call time.Now()", "lit \"2006-01-02T15-04-05.000000000Z\""]

/-- x/did/client/crypto.KeyStore.recentPath -/
def x_did_client_crypto_KeyStore_recentPath : List String := ["assign matches,err := filepath.Glob(fmt.Sprintf(\"%s/UTC--*--%s.json\", ks.baseDir, address))", "call filepath.Glob(fmt.Sprintf(\"%s/UTC--*--%s.json\", ks.baseDir, address))", "call fmt.Sprintf(_, ks.baseDir, address)", "lit \"%s/UTC--*--%s.json\"", "if err != nil", "return \"\",err", "lit \"\"", "if len(matches) == 0", "call len(matches)", "lit 0", "return \"\",_", "lit \"\"", "call fmt.Errorf(_, address)", "assign recentPath := \"\"", "lit \"\"", "range matches", "if recentPath < match", "assign recentPath = match", "return recentPath,nil"]

/-- x/did/client/crypto.KeyStore.save -/
def x_did_client_crypto_KeyStore_save : List String := ["call _.Lock()", "defer", "call _.Unlock()", "assign path := ks.newPath(address)", "call ks.newPath(address)", "if fileExists(path)", "call fileExists(path)", "return \"\",_", "lit \"\"", "call fmt.Errorf(_, path)", "assign file,err := os.Create(path)", "call os.Create(path)", "if err != nil", "return \"\",err", "lit \"\"", "defer", "call file.Close()", "if err != nil", "assign err := json.NewEncoder(file).Encode(key)", "call _.Encode(key)", "call json.NewEncoder(file)", "return \"\",_", "lit \"\"", "call fmt.Errorf(_, err)", "return path,nil"]

/-- x/did/client/crypto.NewKeyStore -/
def x_did_client_crypto_NewKeyStore : List String := ["if err != nil", "assign err := os.MkdirAll(baseDir, os.ModePerm)", "call os.MkdirAll(baseDir, os.ModePerm)", "return nil,err", "return _,nil", "kv baseDir=baseDir"]

/-- x/did/client/crypto.aesCTRXOR -/
def x_did_client_crypto_aesCTRXOR : List String := ["assign block,err := aes.NewCipher(key)", "call aes.NewCipher(key)", "if err != nil", "return nil,_", "call fmt.Errorf(_, err)", "assign buf := make([]byte, len(data))", "call make([]byte, len(data))", "call len(data)", "call _.XORKeyStream(buf, data)", "call cipher.NewCTR(block, iv)", "return buf,nil"]

/-- x/did/client/crypto.decryptKey -/
def x_did_client_crypto_decryptKey : List String := ["if key.Version != version", "return nil,_", "call fmt.Errorf(_, key.Version)", "if key.Crypto.Cipher != cipherAlgorithm", "return nil,_", "call fmt.Errorf(_, key.Crypto.Cipher)", "if key.Crypto.KDF != kdf", "return nil,_", "call fmt.Errorf(_, key.Crypto.KDF)", "if key.Crypto.KDFParams.PRF != pbkdf2PRFStr", "return nil,_", "call fmt.Errorf(_, key.Crypto.KDFParams.PRF)", "assign mac,err := hex.DecodeString(key.Crypto.MAC)", "call hex.DecodeString(key.Crypto.MAC)", "if err != nil", "return nil,_", "call fmt.Errorf(_, err)", "assign iv,err := hex.DecodeString(key.Crypto.CipherParams.IV)", "call hex.DecodeString(key.Crypto.CipherParams.IV)", "if err != nil", "return nil,_", "call fmt.Errorf(_, err)", "assign cipherText,err := hex.DecodeString(key.Crypto.CipherText)", "call hex.DecodeString(key.Crypto.CipherText)", "if err != nil", "return nil,_", "call fmt.Errorf(_, err)", "assign salt,err := hex.DecodeString(key.Crypto.KDFParams.Salt)", "call hex.DecodeString(key.Crypto.KDFParams.Salt)", "if err != nil", "return nil,_", "call fmt.Errorf(_, err)", "assign dkLen := key.Crypto.KDFParams.DKLen", "if dkLen < macKeyOffset+macKeySize || dkLen > maxPBKDF2DKLen", "op +", "return nil,_", "call fmt.Errorf(_, dkLen)", "if key.Crypto.KDFParams.C > maxPBKDF2C", "return nil,_", "call fmt.Errorf(_, key.Crypto.KDFParams.C)", "if len(iv) != aes.BlockSize", "call len(iv)", "return nil,_", "call fmt.Errorf(_, len(iv))", "call len(iv)", "assign derivedKey := pbkdf2.Key([]byte(passwd), salt, key.Crypto.KDFParams.C, dkLen, pbkdf2PRF)", "call pbkdf2.Key([]byte(passwd), salt, key.Crypto.KDFParams.C, dkLen, pbkdf2PRF)", "call ?(passwd)", "assign expectedMac,err := newSHA3Keccak256(derivedKey[macKeyOffset:macKeyOffset+macKeySize], cipherText)", "call newSHA3Keccak256(derivedKey[macKeyOffset : macKeyOffset+macKeySize], cipherText)", "op +", "if err != nil", "return nil,_", "call fmt.Errorf(_, err)", "if !bytes.Equal(expectedMac, mac)", "call bytes.Equal(expectedMac, mac)", "return nil,_", "call fmt.Errorf(_)", "return _", "call aesCTRXOR(derivedKey[:cipherKeySize], iv, cipherText)"]

/-- x/did/client/crypto.encryptKey -/
def x_did_client_crypto_encryptKey : List String := ["assign salt := make([]byte, saltBytes)", "call make([]byte, saltBytes)", "if err != nil", "assign _,err := io.ReadFull(rand.Reader, salt)", "call io.ReadFull(rand.Reader, salt)", "return _,_", "call fmt.Errorf(_, err)", "assign derivedKey := pbkdf2.Key([]byte(passwd), salt, pbkdf2C, pbkdf2DKLen, pbkdf2PRF)", "call pbkdf2.Key([]byte(passwd), salt, pbkdf2C, pbkdf2DKLen, pbkdf2PRF)", "call ?(passwd)", "assign iv := make([]byte, aes.BlockSize)", "call make([]byte, aes.BlockSize)", "if err != nil", "assign _,err := io.ReadFull(rand.Reader, iv)", "call io.ReadFull(rand.Reader, iv)", "return _,_", "call fmt.Errorf(_, err)", "assign cipherText,err := aesCTRXOR(derivedKey[:cipherKeySize], iv, key[:])", "call aesCTRXOR(derivedKey[:cipherKeySize], iv, key[:])", "if err != nil", "return _,err", "assign mac,err := newSHA3Keccak256(derivedKey[macKeyOffset:macKeyOffset+macKeySize], cipherText)", "call newSHA3Keccak256(derivedKey[macKeyOffset : macKeyOffset+macKeySize], cipherText)", "op +", "if err != nil", "return _,err", "return _,nil", "kv Version=version", "kv ID=uuid.NewRandom().String()", "call _.String()", "call uuid.NewRandom()", "kv Address=address", "kv Crypto", "kv Cipher=cipherAlgorithm", "kv CipherText=hex.EncodeToString(cipherText)", "call hex.EncodeToString(cipherText)", "kv CipherParams", "kv IV=hex.EncodeToString(iv)", "call hex.EncodeToString(iv)", "kv KDF=kdf", "kv KDFParams", "kv C=pbkdf2C", "kv DKLen=pbkdf2DKLen", "kv PRF=pbkdf2PRFStr", "kv Salt=hex.EncodeToString(salt)", "call hex.EncodeToString(salt)", "kv MAC=hex.EncodeToString(mac)", "call hex.EncodeToString(mac)"]

/-- x/did/client/crypto.fileExists -/
def x_did_client_crypto_fileExists : List String := ["if os.IsNotExist(err)", "assign _,err := os.Stat(path)", "call os.Stat(path)", "call os.IsNotExist(err)", "return false", "return true"]

/-- x/did/client/crypto.newSHA3Keccak256 -/
def x_did_client_crypto_newSHA3Keccak256 : List String := ["assign hash := sha3.NewLegacyKeccak256()", "call sha3.NewLegacyKeccak256()", "range data", "if err != nil", "assign _,err := hash.Write(b)", "call hash.Write(b)", "return nil,err", "return _,nil", "call hash.Sum(nil)"]

/-- x/did/internal/secp256k1util.DerivePubKey -/
def x_did_internal_secp256k1util_DerivePubKey : List String := ["return _", "call privKey.PubKey()"]

/-- x/did/internal/secp256k1util.PrivKeyFromBytes -/
def x_did_internal_secp256k1util_PrivKeyFromBytes : List String := ["assign key := make([]byte, secp256k1.PrivKeySize)", "call make([]byte, secp256k1.PrivKeySize)", "if len(bz) != len(key)", "call len(bz)", "call len(key)", "return key,_", "call fmt.Errorf(_, len(bz), len(key))", "call len(bz)", "call len(key)", "call copy(key[:], bz)", "return key,nil"]

/-- x/did/internal/secp256k1util.PubKeyBytes -/
def x_did_internal_secp256k1util_PubKeyBytes : List String := ["return _"]

/-- x/did/internal/secp256k1util.PubKeyFromBase58 -/
def x_did_internal_secp256k1util_PubKeyFromBase58 : List String := ["assign key := make([]byte, secp256k1.PubKeySize)", "call make([]byte, secp256k1.PubKeySize)", "assign decoded := base58.Decode(b58)", "call base58.Decode(b58)", "if len(decoded) != len(key)", "call len(decoded)", "call len(key)", "return key,_", "call fmt.Errorf(_, len(decoded), len(key))", "call len(decoded)", "call len(key)", "call copy(key[:], decoded)", "return key,nil"]

/-- x/did/keeper.Keeper.DID -/
def x_did_keeper_Keeper_DID : List String := ["if req == nil", "return nil,_", "call status.Error(codes.InvalidArgument, _)", "assign ctx := sdk.UnwrapSDKContext(c)", "call sdk.UnwrapSDKContext(c)", "assign didBz,err := base64.StdEncoding.DecodeString(req.DidBase64)", "call _.DecodeString(req.DidBase64)", "if err != nil", "return nil,_", "call status.Error(codes.InvalidArgument, _)", "assign did := string(didBz)", "call string(didBz)", "assign docWithSeq := k.GetDIDDocument(ctx, did)", "call k.GetDIDDocument(ctx, did)", "if docWithSeq.Empty()", "call docWithSeq.Empty()", "return nil,_", "call status.Error(codes.NotFound, _)", "if docWithSeq.Deactivated()", "call docWithSeq.Deactivated()", "return nil,_", "call status.Error(codes.NotFound, _)", "return _,nil", "kv DidDocumentWithSeq=&docWithSeq"]

/-- x/did/keeper.Keeper.GetDIDDocument -/
def x_did_keeper_Keeper_GetDIDDocument : List String := ["assign store := prefix.NewStore(ctx.KVStore(k.storeKey), types.DIDKeyPrefix)", "call prefix.NewStore(ctx.KVStore(k.storeKey), types.DIDKeyPrefix)", "call ctx.KVStore(k.storeKey)", "assign key := []byte(did)", "call ?(did)", "assign bz := store.Get(key)", "call store.Get(key)", "if bz == nil", "return _", "call _.MustUnmarshalLengthPrefixed(bz, &doc)", "return doc"]

/-- x/did/keeper.Keeper.ListDIDs -/
def x_did_keeper_Keeper_ListDIDs : List String := ["assign store := prefix.NewStore(ctx.KVStore(k.storeKey), types.DIDKeyPrefix)", "call prefix.NewStore(ctx.KVStore(k.storeKey), types.DIDKeyPrefix)", "call ctx.KVStore(k.storeKey)", "assign dids := make([]string, 0)", "call make([]string, 0)", "lit 0", "assign iter := _", "call sdk.KVStorePrefixIterator(store, _)", "defer", "call iter.Close()", "for iter.Valid()", "call iter.Valid()", "call iter.Next()", "assign did := string(iter.Key())", "call string(iter.Key())", "call iter.Key()", "assign dids = append(dids, did)", "call append(dids, did)", "return dids"]

/-- x/did/keeper.Keeper.Logger -/
def x_did_keeper_Keeper_Logger : List String := ["return _", "call _.With(\"module\", fmt.Sprintf(\"x/%s\", types.ModuleName))", "call ctx.Logger()", "lit \"module\"", "call fmt.Sprintf(_, types.ModuleName)", "lit \"x/%s\""]

/-- x/did/keeper.Keeper.SetDIDDocument -/
def x_did_keeper_Keeper_SetDIDDocument : List String := ["assign store := prefix.NewStore(ctx.KVStore(k.storeKey), types.DIDKeyPrefix)", "call prefix.NewStore(ctx.KVStore(k.storeKey), types.DIDKeyPrefix)", "call ctx.KVStore(k.storeKey)", "assign key := []byte(did)", "call ?(did)", "assign bz := k.cdc.MustMarshalLengthPrefixed(&doc)", "call _.MustMarshalLengthPrefixed(&doc)", "call store.Set(key, bz)"]

/-- x/did/keeper.NewKeeper -/
def x_did_keeper_NewKeeper : List String := ["return _", "kv cdc=cdc", "kv storeKey=storeKey", "kv memKey=memKey"]

/-- x/did/keeper.NewMsgServerImpl -/
def x_did_keeper_NewMsgServerImpl : List String := ["return _", "kv Keeper=keeper"]

/-- x/did/keeper.VerifyDIDOwnership -/
def x_did_keeper_VerifyDIDOwnership : List String := ["assign verificationMethod,ok := doc.VerificationMethodFrom(doc.Authentications, verificationMethodID)", "call doc.VerificationMethodFrom(doc.Authentications, verificationMethodID)", "if !ok", "return 0,_", "lit 0", "call errors.Wrapf(types.ErrVerificationMethodIDNotFound, _, verificationMethodID)", "if verificationMethod.Type != types.ES256K_2019 && verificationMethod.Type != types.ES256K_2018", "return 0,_", "lit 0", "call errors.Wrapf(types.ErrVerificationMethodKeyTypeNotImplemented, _, verificationMethod.Type)", "assign pubKeySecp256k1,err := secp256k1util.PubKeyFromBase58(verificationMethod.PublicKeyBase58)", "call secp256k1util.PubKeyFromBase58(verificationMethod.PublicKeyBase58)", "if err != nil", "return 0,_", "lit 0", "call errors.Wrapf(types.ErrInvalidSecp256k1PublicKey, _, verificationMethod.PublicKeyBase58)", "assign newSeq,ok := types.Verify(sig, signData, seq, pubKeySecp256k1)", "call types.Verify(sig, signData, seq, pubKeySecp256k1)", "if !ok", "return 0,_", "lit 0", "if newSeq == types.InitialSequence", "return 0,_", "lit 0", "call errors.Wrapf(types.ErrInvalidDIDDocumentWithSeq, _, seq)", "return newSeq,nil"]

/-- x/did/keeper.msgServer.CreateDID -/
def x_did_keeper_msgServer_CreateDID : List String := ["assign keeper := m.Keeper", "assign ctx := sdk.UnwrapSDKContext(goCtx)", "call sdk.UnwrapSDKContext(goCtx)", "assign cur := keeper.GetDIDDocument(ctx, msg.Did)", "call keeper.GetDIDDocument(ctx, msg.Did)", "if !cur.Empty()", "call cur.Empty()", "if cur.Deactivated()", "call cur.Deactivated()", "return nil,_", "call errors.Wrapf(types.ErrDIDDeactivated, _, msg.Did)", "return nil,_", "call errors.Wrapf(types.ErrDIDExists, _, msg.Did)", "assign seq := types.InitialSequence", "assign _,err := _", "call VerifyDIDOwnership(msg.Document, seq, msg.Document, msg.VerificationMethodId, msg.Signature)", "if err != nil", "return nil,err", "assign docWithSeq := types.NewDIDDocumentWithSeq(msg.Document, uint64(seq))", "call types.NewDIDDocumentWithSeq(msg.Document, uint64(seq))", "call uint64(seq)", "call keeper.SetDIDDocument(ctx, msg.Did, docWithSeq)", "return _,nil"]

/-- x/did/keeper.msgServer.DeactivateDID -/
def x_did_keeper_msgServer_DeactivateDID : List String := ["assign keeper := m.Keeper", "assign ctx := sdk.UnwrapSDKContext(goCtx)", "call sdk.UnwrapSDKContext(goCtx)", "assign docWithSeq := keeper.GetDIDDocument(ctx, msg.Did)", "call keeper.GetDIDDocument(ctx, msg.Did)", "if docWithSeq.Empty()", "call docWithSeq.Empty()", "return nil,_", "call errors.Wrapf(types.ErrDIDNotFound, _, msg.Did)", "if docWithSeq.Deactivated()", "call docWithSeq.Deactivated()", "return nil,_", "call errors.Wrapf(types.ErrDIDDeactivated, _, msg.Did)", "assign doc := _", "kv Id=msg.Did", "assign newSeq,err := _", "call VerifyDIDOwnership(&doc, docWithSeq.Sequence, docWithSeq.Document, msg.VerificationMethodId, msg.Signature)", "if err != nil", "return nil,err", "call keeper.SetDIDDocument(ctx, msg.Did, docWithSeq.Deactivate(newSeq))", "call docWithSeq.Deactivate(newSeq)", "return _,nil"]

/-- x/did/keeper.msgServer.UpdateDID -/
def x_did_keeper_msgServer_UpdateDID : List String := ["assign keeper := m.Keeper", "assign ctx := sdk.UnwrapSDKContext(goCtx)", "call sdk.UnwrapSDKContext(goCtx)", "assign docWithSeq := keeper.GetDIDDocument(ctx, msg.Did)", "call keeper.GetDIDDocument(ctx, msg.Did)", "if docWithSeq.Empty()", "call docWithSeq.Empty()", "return nil,_", "call errors.Wrapf(types.ErrDIDNotFound, _, msg.Did)", "if docWithSeq.Deactivated()", "call docWithSeq.Deactivated()", "return nil,_", "call errors.Wrapf(types.ErrDIDDeactivated, _, msg.Did)", "assign newSeq,err := _", "call VerifyDIDOwnership(msg.Document, docWithSeq.Sequence, docWithSeq.Document, msg.VerificationMethodId, msg.Signature)", "if err != nil", "return nil,err", "assign newDocWithSeq := types.NewDIDDocumentWithSeq(msg.Document, newSeq)", "call types.NewDIDDocumentWithSeq(msg.Document, newSeq)", "call keeper.SetDIDDocument(ctx, msg.Did, newDocWithSeq)", "return _,nil"]

/-- x/did/types.DIDDocument.Empty -/
def x_did_types_DIDDocument_Empty : List String := ["return _", "call EmptyDID(doc.Id)"]

/-- x/did/types.DIDDocument.GetSignBytes -/
def x_did_types_DIDDocument_GetSignBytes : List String := ["return _", "call sdk.MustSortJSON(ModuleCdc.MustMarshalJSON(&doc))", "call ModuleCdc.MustMarshalJSON(&doc)"]

/-- x/did/types.DIDDocument.Valid -/
def x_did_types_DIDDocument_Valid : List String := ["if doc.Empty()", "call doc.Empty()", "return true", "if !ValidateDID(doc.Id) || doc.VerificationMethods == nil || doc.Authentications == nil", "call ValidateDID(doc.Id)", "return false", "if doc.Controller != nil && len(*doc.Controller) == 0", "call len(*doc.Controller)", "lit 0", "return false", "if doc.Controller != nil && !EmptyDIDs(*doc.Controller) && !ValidateDIDs(*doc.Controller)", "call EmptyDIDs(*doc.Controller)", "call ValidateDIDs(*doc.Controller)", "return false", "if doc.Contexts != nil && !ValidateContexts(*doc.Contexts)", "call ValidateContexts(*doc.Contexts)", "return false", "range doc.VerificationMethods", "if !verificationMethod.Valid(doc.Id)", "call verificationMethod.Valid(doc.Id)", "return false", "if !doc.validVerificationRelationships(doc.Authentications)", "call doc.validVerificationRelationships(doc.Authentications)", "return false", "if !doc.validVerificationRelationships(doc.AssertionMethods)", "call doc.validVerificationRelationships(doc.AssertionMethods)", "return false", "if !doc.validVerificationRelationships(doc.KeyAgreements)", "call doc.validVerificationRelationships(doc.KeyAgreements)", "return false", "if !doc.validVerificationRelationships(doc.CapabilityInvocations)", "call doc.validVerificationRelationships(doc.CapabilityInvocations)", "return false", "if !doc.validVerificationRelationships(doc.CapabilityDelegations)", "call doc.validVerificationRelationships(doc.CapabilityDelegations)", "return false", "range doc.Services", "if !service.Valid()", "call service.Valid()", "return false", "return true"]

/-- x/did/types.DIDDocument.VerificationMethodByID -/
def x_did_types_DIDDocument_VerificationMethodByID : List String := ["range doc.VerificationMethods", "if verificationMethod.Id == id", "return _,true", "return _,false"]

/-- x/did/types.DIDDocument.VerificationMethodFrom -/
def x_did_types_DIDDocument_VerificationMethodFrom : List String := ["range relationships", "if relationship.hasDedicatedMethod()", "call relationship.hasDedicatedMethod()", "assign veriMethod := relationship.GetVerificationMethod()", "call relationship.GetVerificationMethod()", "if veriMethod.Id == id", "return _,true", "assign veriMethodID := relationship.GetVerificationMethodId()", "call relationship.GetVerificationMethodId()", "if veriMethodID == id", "return _", "call doc.VerificationMethodByID(veriMethodID)", "return _,false"]

/-- x/did/types.DIDDocument.validVerificationRelationships -/
def x_did_types_DIDDocument_validVerificationRelationships : List String := ["range relationships", "if !relationship.Valid(doc.Id)", "call relationship.Valid(doc.Id)", "return false", "if !relationship.hasDedicatedMethod()", "call relationship.hasDedicatedMethod()", "if !ok", "assign _,ok := doc.VerificationMethodByID(relationship.GetVerificationMethodId())", "call doc.VerificationMethodByID(relationship.GetVerificationMethodId())", "call relationship.GetVerificationMethodId()", "return false", "return true"]

/-- x/did/types.DIDDocumentWithSeq.Deactivate -/
def x_did_types_DIDDocumentWithSeq_Deactivate : List String := ["return _", "call NewDIDDocumentWithSeq(_, newSeq)"]

/-- x/did/types.DIDDocumentWithSeq.Deactivated -/
def x_did_types_DIDDocumentWithSeq_Deactivated : List String := ["return _", "call _.Empty()"]

/-- x/did/types.DIDDocumentWithSeq.Empty -/
def x_did_types_DIDDocumentWithSeq_Empty : List String := ["return _", "call _.Empty()"]

/-- x/did/types.DIDDocumentWithSeq.Valid -/
def x_did_types_DIDDocumentWithSeq_Valid : List String := ["return _", "call _.Valid()"]

/-- x/did/types.DefaultGenesis -/
def x_did_types_DefaultGenesis : List String := ["return _"]

/-- x/did/types.EmptyDID -/
def x_did_types_EmptyDID : List String := ["return _", "lit \"\""]

/-- x/did/types.EmptyDIDs -/
def x_did_types_EmptyDIDs : List String := ["if len(strings) == 0", "call len(strings)", "lit 0", "return true", "range strings", "if !EmptyDID(did)", "call EmptyDID(did)", "return false", "return true"]

/-- x/did/types.GenesisDIDDocumentKey.Marshal -/
def x_did_types_GenesisDIDDocumentKey_Marshal : List String := ["return _"]

/-- x/did/types.GenesisDIDDocumentKey.Unmarshal -/
def x_did_types_GenesisDIDDocumentKey_Unmarshal : List String := ["assign did := key", "if !ValidateDID(did)", "call ValidateDID(did)", "return _", "call errors.Wrapf(ErrInvalidDID, _, key)", "assign k.DID = did", "return nil"]

/-- x/did/types.GenesisState.Validate -/
def x_did_types_GenesisState_Validate : List String := ["range data.Documents", "if err != nil", "assign err := key.Unmarshal(bz)", "call key.Unmarshal(bz)", "return err", "if !doc.Valid()", "call doc.Valid()", "return _", "call errors.Wrapf(ErrInvalidDIDDocumentWithSeq, _, doc)", "if !doc.Document.Empty() && doc.Document.Id != key.DID", "call _.Empty()", "return _", "call errors.Wrapf(ErrInvalidDIDDocumentWithSeq, _, doc.Document.Id, key.DID)", "return nil"]

/-- x/did/types.JSONStringOrStrings.Marshal -/
def x_did_types_JSONStringOrStrings_Marshal : List String := ["return _", "call proto.Marshal(strings.protoType())", "call strings.protoType()"]

/-- x/did/types.JSONStringOrStrings.MarshalJSON -/
def x_did_types_JSONStringOrStrings_MarshalJSON : List String := ["if len(strings) == 1", "call len(strings)", "lit 1", "return _", "call json.Marshal(strings[0])", "lit 0", "return _", "call json.Marshal([]string(strings))", "call ?(strings)"]

/-- x/did/types.JSONStringOrStrings.MarshalTo -/
def x_did_types_JSONStringOrStrings_MarshalTo : List String := ["return _", "call _.MarshalTo(data)", "call strings.protoType()"]

/-- x/did/types.JSONStringOrStrings.Size -/
def x_did_types_JSONStringOrStrings_Size : List String := ["return _", "call _.Size()", "call strings.protoType()"]

/-- x/did/types.JSONStringOrStrings.Unmarshal -/
def x_did_types_JSONStringOrStrings_Unmarshal : List String := ["assign protoType := _", "if err != nil", "assign err := proto.Unmarshal(data, protoType)", "call proto.Unmarshal(data, protoType)", "return err", "assign *strings = protoType.Values", "return nil"]

/-- x/did/types.JSONStringOrStrings.UnmarshalJSON -/
def x_did_types_JSONStringOrStrings_UnmarshalJSON : List String := ["assign err := json.Unmarshal(data, &single)", "call json.Unmarshal(data, &single)", "if err == nil", "assign *strings = _", "return nil", "if err != nil", "assign err := json.Unmarshal(data, &multiple)", "call json.Unmarshal(data, &multiple)", "return err", "assign *strings = multiple", "return nil"]

/-- x/did/types.JSONStringOrStrings.protoType -/
def x_did_types_JSONStringOrStrings_protoType : List String := ["assign values := make([]string, 0, len(strings))", "call make([]string, 0, len(strings))", "lit 0", "call len(strings)", "range strings", "assign values = append(values, s)", "call append(values, s)", "return _"]

/-- x/did/types.MsgCreateDIDRequest.GetSignBytes -/
def x_did_types_MsgCreateDIDRequest_GetSignBytes : List String := ["return _", "call sdk.MustSortJSON(ModuleCdc.MustMarshalJSON(msg))", "call ModuleCdc.MustMarshalJSON(msg)"]

/-- x/did/types.MsgCreateDIDRequest.GetSigners -/
def x_did_types_MsgCreateDIDRequest_GetSigners : List String := ["assign creator,err := sdk.AccAddressFromBech32(msg.FromAddress)", "call sdk.AccAddressFromBech32(msg.FromAddress)", "if err != nil", "call panic(err)", "return _"]

/-- x/did/types.MsgCreateDIDRequest.Route -/
def x_did_types_MsgCreateDIDRequest_Route : List String := ["return RouterKey"]

/-- x/did/types.MsgCreateDIDRequest.Type -/
def x_did_types_MsgCreateDIDRequest_Type : List String := ["return \"create_did\"", "lit \"create_did\""]

/-- x/did/types.MsgCreateDIDRequest.ValidateBasic -/
def x_did_types_MsgCreateDIDRequest_ValidateBasic : List String := ["if !ValidateDID(msg.Did)", "call ValidateDID(msg.Did)", "return _", "call errors.Wrapf(ErrInvalidDID, _, msg.Did)", "if msg.Document == nil || !msg.Document.Valid()", "call _.Valid()", "return _", "call errors.Wrapf(ErrInvalidDIDDocument, _, msg.Document)", "if msg.Document.Id != msg.Did", "return _", "call errors.Wrapf(ErrInvalidDIDDocument, _, msg.Document.Id, msg.Did)", "if msg.Signature == nil || len(msg.Signature) == 0", "call len(msg.Signature)", "lit 0", "return _", "call errors.Wrapf(ErrInvalidSignature, _, msg.Signature)", "assign addr,err := sdk.AccAddressFromBech32(msg.FromAddress)", "call sdk.AccAddressFromBech32(msg.FromAddress)", "if err != nil", "return err", "if addr.Empty()", "call addr.Empty()", "return _", "call errors.Wrapf(sdkerrors.ErrInvalidAddress, _, addr.String())", "call addr.String()", "return nil"]

/-- x/did/types.MsgDeactivateDIDRequest.GetSignBytes -/
def x_did_types_MsgDeactivateDIDRequest_GetSignBytes : List String := ["return _", "call sdk.MustSortJSON(ModuleCdc.MustMarshalJSON(msg))", "call ModuleCdc.MustMarshalJSON(msg)"]

/-- x/did/types.MsgDeactivateDIDRequest.GetSigners -/
def x_did_types_MsgDeactivateDIDRequest_GetSigners : List String := ["assign creator,err := sdk.AccAddressFromBech32(msg.FromAddress)", "call sdk.AccAddressFromBech32(msg.FromAddress)", "if err != nil", "call panic(err)", "return _"]

/-- x/did/types.MsgDeactivateDIDRequest.Route -/
def x_did_types_MsgDeactivateDIDRequest_Route : List String := ["return RouterKey"]

/-- x/did/types.MsgDeactivateDIDRequest.Type -/
def x_did_types_MsgDeactivateDIDRequest_Type : List String := ["return \"deactivate_did\"", "lit \"deactivate_did\""]

/-- x/did/types.MsgDeactivateDIDRequest.ValidateBasic -/
def x_did_types_MsgDeactivateDIDRequest_ValidateBasic : List String := ["if !ValidateDID(msg.Did)", "call ValidateDID(msg.Did)", "return _", "call errors.Wrapf(ErrInvalidDID, _, msg.Did)", "if msg.Signature == nil || len(msg.Signature) == 0", "call len(msg.Signature)", "lit 0", "return _", "call errors.Wrapf(ErrInvalidSignature, _, msg.Signature)", "assign addr,err := sdk.AccAddressFromBech32(msg.FromAddress)", "call sdk.AccAddressFromBech32(msg.FromAddress)", "if err != nil", "return err", "if addr.Empty()", "call addr.Empty()", "return _", "call errors.Wrapf(sdkerrors.ErrInvalidAddress, _, addr.String())", "call addr.String()", "return nil"]

/-- x/did/types.MsgUpdateDIDRequest.GetSignBytes -/
def x_did_types_MsgUpdateDIDRequest_GetSignBytes : List String := ["return _", "call sdk.MustSortJSON(ModuleCdc.MustMarshalJSON(msg))", "call ModuleCdc.MustMarshalJSON(msg)"]

/-- x/did/types.MsgUpdateDIDRequest.GetSigners -/
def x_did_types_MsgUpdateDIDRequest_GetSigners : List String := ["assign creator,err := sdk.AccAddressFromBech32(msg.FromAddress)", "call sdk.AccAddressFromBech32(msg.FromAddress)", "if err != nil", "call panic(err)", "return _"]

/-- x/did/types.MsgUpdateDIDRequest.Route -/
def x_did_types_MsgUpdateDIDRequest_Route : List String := ["return RouterKey"]

/-- x/did/types.MsgUpdateDIDRequest.Type -/
def x_did_types_MsgUpdateDIDRequest_Type : List String := ["return \"update_did\"", "lit \"update_did\""]

/-- x/did/types.MsgUpdateDIDRequest.ValidateBasic -/
def x_did_types_MsgUpdateDIDRequest_ValidateBasic : List String := ["if !ValidateDID(msg.Did)", "call ValidateDID(msg.Did)", "return _", "call errors.Wrapf(ErrInvalidDID, _, msg.Did)", "if msg.Document == nil || !msg.Document.Valid()", "call _.Valid()", "return _", "call errors.Wrapf(ErrInvalidDIDDocument, _, msg.Document)", "if msg.Document.Id != msg.Did", "return _", "call errors.Wrapf(ErrInvalidDIDDocument, _, msg.Document.Id, msg.Did)", "if msg.Signature == nil || len(msg.Signature) == 0", "call len(msg.Signature)", "lit 0", "return _", "call errors.Wrapf(ErrInvalidSignature, _, msg.Signature)", "assign addr,err := sdk.AccAddressFromBech32(msg.FromAddress)", "call sdk.AccAddressFromBech32(msg.FromAddress)", "if err != nil", "return err", "if addr.Empty()", "call addr.Empty()", "return _", "call errors.Wrapf(sdkerrors.ErrInvalidAddress, _, addr.String())", "call addr.String()", "return nil"]

/-- x/did/types.NewDID -/
def x_did_types_NewDID : List String := ["assign hash := sha256.New()", "call sha256.New()", "assign _,err := hash.Write(pubKey)", "call hash.Write(pubKey)", "if err != nil", "call panic(\"failed to calculate SHA256 for DID\")", "lit \"failed to calculate SHA256 for DID\"", "assign idStr := base58.Encode(hash.Sum(nil))", "call base58.Encode(hash.Sum(nil))", "call hash.Sum(nil)", "return _", "call fmt.Sprintf(_, DIDMethod, idStr)", "lit \"did:%s:%s\""]

/-- x/did/types.NewDIDDocument -/
def x_did_types_NewDIDDocument : List String := ["assign doc := _", "kv Contexts", "kv Id=id", "range opts", "call opt(&doc)", "return doc"]

/-- x/did/types.NewDIDDocumentWithSeq -/
def x_did_types_NewDIDDocumentWithSeq : List String := ["return _", "kv Document=doc", "kv Sequence=seq"]

/-- x/did/types.NewMsgCreateDIDResponse -/
def x_did_types_NewMsgCreateDIDResponse : List String := ["return _", "kv Did=did", "kv Document=&document", "kv VerificationMethodId=VerificationMethodID", "kv Signature=Signature", "kv FromAddress=FromAddress"]

/-- x/did/types.NewMsgDeactivateDIDRequest -/
def x_did_types_NewMsgDeactivateDIDRequest : List String := ["return _"]

/-- x/did/types.NewMsgUpdateDID -/
def x_did_types_NewMsgUpdateDID : List String := ["return _", "kv Did=did", "kv Document=&doc", "kv VerificationMethodId=verificationMethodID", "kv Signature=sig", "kv FromAddress=fromAddr"]

/-- x/did/types.NewService -/
def x_did_types_NewService : List String := ["return _", "kv Id=id", "kv Type=type_", "kv ServiceEndpoint=serviceEndpoint"]

/-- x/did/types.NewVerificationMethod -/
def x_did_types_NewVerificationMethod : List String := ["return _", "kv Id=id", "kv Type=keyType", "kv Controller=controller", "kv PublicKeyBase58=base58.Encode(pubKey)", "call base58.Encode(pubKey)"]

/-- x/did/types.NewVerificationMethodID -/
def x_did_types_NewVerificationMethodID : List String := ["return _", "call fmt.Sprintf(_, did, name)", "lit \"%v#%s\""]

/-- x/did/types.NewVerificationRelationship -/
def x_did_types_NewVerificationRelationship : List String := ["return _", "kv Content", "kv VerificationMethodId=verificationMethodID"]

/-- x/did/types.NewVerificationRelationshipDedicated -/
def x_did_types_NewVerificationRelationshipDedicated : List String := ["return _", "kv Content", "kv VerificationMethod=&verificationMethod"]

/-- x/did/types.ParseDID -/
def x_did_types_ParseDID : List String := ["assign did := str", "if !ValidateDID(did)", "call ValidateDID(did)", "return \"\",_", "lit \"\"", "call errors.Wrapf(ErrInvalidDID, _, str)", "return did,nil"]

/-- x/did/types.ParseVerificationMethodID -/
def x_did_types_ParseVerificationMethodID : List String := ["assign methodID := id", "if !ValidateVerificationMethodID(id, did)", "call ValidateVerificationMethodID(id, did)", "return \"\",_", "lit \"\"", "call errors.Wrapf(ErrInvalidVerificationMethodID, _, id, did)", "return methodID,nil"]

/-- x/did/types.RegisterCodec -/
def x_did_types_RegisterCodec : List String := ["call cdc.RegisterConcrete(_, \"did/CreateDID\", nil)", "lit \"did/CreateDID\"", "call cdc.RegisterConcrete(_, \"did/UpdateDID\", nil)", "lit \"did/UpdateDID\"", "call cdc.RegisterConcrete(_, \"did/DeactivateDID\", nil)", "lit \"did/DeactivateDID\""]

/-- x/did/types.RegisterInterfaces -/
def x_did_types_RegisterInterfaces : List String := ["call registry.RegisterImplementations((*sdk.Msg)(nil), _, _, _)", "call ?(nil)", "call msgservice.RegisterMsgServiceDesc(registry, &_Msg_serviceDesc)"]

/-- x/did/types.Service.Valid -/
def x_did_types_Service_Valid : List String := ["return _", "lit \"\"", "lit \"\"", "lit \"\""]

/-- x/did/types.Sign -/
def x_did_types_Sign : List String := ["return _", "call privKey.Sign(mustGetSignBytesWithSeq(signableData, seq))", "call mustGetSignBytesWithSeq(signableData, seq)"]

/-- x/did/types.ValidateContext -/
def x_did_types_ValidateContext : List String := ["return _", "lit \"\""]

/-- x/did/types.ValidateContexts -/
def x_did_types_ValidateContexts : List String := ["if len(contexts) == 0 || contexts[0] != ContextDIDV1", "call len(contexts)", "lit 0", "lit 0", "return false", "assign set := _", "call make(_, len(contexts))", "call len(contexts)", "range contexts", "assign _,dup := set[context]", "if dup || !ValidateContext(context)", "call ValidateContext(context)", "return false", "assign set[context] = _", "return true"]

/-- x/did/types.ValidateDID -/
def x_did_types_ValidateDID : List String := ["assign pattern := fmt.Sprintf(\"^%s$\", didRegex())", "call fmt.Sprintf(_, didRegex())", "lit \"^%s$\"", "call didRegex()", "assign matched,_ := regexp.MatchString(pattern, did)", "call regexp.MatchString(pattern, did)", "return matched"]

/-- x/did/types.ValidateDIDs -/
def x_did_types_ValidateDIDs : List String := ["if EmptyDIDs(strings)", "call EmptyDIDs(strings)", "return false", "range strings", "if !ValidateDID(did)", "call ValidateDID(did)", "return false", "return true"]

/-- x/did/types.ValidateKeyType -/
def x_did_types_ValidateKeyType : List String := ["switch keyType", "case JSONWEBKEY_2020,ES256K_2019,ES256K_2018,ED25519_2018,BLS1281G1_2020,BLS1281G2_2020,GPG_2020,RSA_2018,X25519_2019,SS256K_2019,ES256K_R_2020", "return true", "if keyType == \"\"", "lit \"\"", "return false", "call log.Printf(_, keyType)", "return true"]

/-- x/did/types.ValidateVerificationMethodID -/
def x_did_types_ValidateVerificationMethodID : List String := ["assign prefix := fmt.Sprintf(\"%v#\", did)", "call fmt.Sprintf(_, did)", "lit \"%v#\"", "if !strings.HasPrefix(verificationMethodID, prefix)", "call strings.HasPrefix(verificationMethodID, prefix)", "return false", "if len(verificationMethodID)-len(prefix) > MaxVerificationMethodIDLen", "op -", "call len(verificationMethodID)", "call len(prefix)", "return false", "assign suffix := verificationMethodID[len(prefix):]", "call len(prefix)", "assign matched,_ := regexp.MatchString(`^\\S+$`, suffix)", "call regexp.MatchString(`^\\S+$`, suffix)", "lit `^\\S+$`", "return matched"]

/-- x/did/types.VerificationMethod.Valid -/
def x_did_types_VerificationMethod_Valid : List String := ["if !ValidateVerificationMethodID(pk.Id, did) || !ValidateKeyType(pk.Type)", "call ValidateVerificationMethodID(pk.Id, did)", "call ValidateKeyType(pk.Type)", "return false", "assign pattern := fmt.Sprintf(\"^[%s]+$\", Base58Charset)", "call fmt.Sprintf(_, Base58Charset)", "lit \"^[%s]+$\"", "assign matched,_ := regexp.MatchString(pattern, pk.PublicKeyBase58)", "call regexp.MatchString(pattern, pk.PublicKeyBase58)", "return matched"]

/-- x/did/types.VerificationRelationship.MarshalJSON -/
def x_did_types_VerificationRelationship_MarshalJSON : List String := ["if v.hasDedicatedMethod()", "call v.hasDedicatedMethod()", "return _", "call json.Marshal(v.GetVerificationMethod())", "call v.GetVerificationMethod()", "return _", "call json.Marshal(v.GetVerificationMethodId())", "call v.GetVerificationMethodId()"]

/-- x/did/types.VerificationRelationship.UnmarshalJSON -/
def x_did_types_VerificationRelationship_UnmarshalJSON : List String := ["assign err := json.Unmarshal(bz, &verificationMethodID)", "call json.Unmarshal(bz, &verificationMethodID)", "if err == nil", "assign *v = NewVerificationRelationship(verificationMethodID)", "call NewVerificationRelationship(verificationMethodID)", "return nil", "if err != nil", "assign err := jsonpb.Unmarshal(bytes.NewReader(bz), &verificationMethod)", "call jsonpb.Unmarshal(bytes.NewReader(bz), &verificationMethod)", "call bytes.NewReader(bz)", "return err", "assign *v = NewVerificationRelationshipDedicated(verificationMethod)", "call NewVerificationRelationshipDedicated(verificationMethod)", "return nil"]

/-- x/did/types.VerificationRelationship.Valid -/
def x_did_types_VerificationRelationship_Valid : List String := ["if v.hasDedicatedMethod()", "call v.hasDedicatedMethod()", "return _", "call _.Valid(did)", "call v.GetVerificationMethod()", "return _", "call ValidateVerificationMethodID(v.GetVerificationMethodId(), did)", "call v.GetVerificationMethodId()"]

/-- x/did/types.VerificationRelationship.hasDedicatedMethod -/
def x_did_types_VerificationRelationship_hasDedicatedMethod : List String := ["return _", "call v.GetVerificationMethod()"]

/-- x/did/types.Verify -/
def x_did_types_Verify : List String := ["assign signBytes := mustGetSignBytesWithSeq(signableData, seq)", "call mustGetSignBytesWithSeq(signableData, seq)", "if !pubKey.VerifySignature(signBytes, signature)", "call pubKey.VerifySignature(signBytes, signature)", "return 0,false", "lit 0", "return _,true", "call nextSequence(seq)"]

/-- x/did/types.WithAssertionMethods -/
def x_did_types_WithAssertionMethods : List String := ["return _", "assign opts.AssertionMethods = assertionMethods"]

/-- x/did/types.WithAuthentications -/
def x_did_types_WithAuthentications : List String := ["return _", "assign opts.Authentications = authentications"]

/-- x/did/types.WithCapabilityDelegations -/
def x_did_types_WithCapabilityDelegations : List String := ["return _", "assign opts.CapabilityDelegations = capabilityDelegations"]

/-- x/did/types.WithCapabilityInvocations -/
def x_did_types_WithCapabilityInvocations : List String := ["return _", "assign opts.CapabilityInvocations = capabilityInvocations"]

/-- x/did/types.WithController -/
def x_did_types_WithController : List String := ["return _", "assign opts.Controller = _"]

/-- x/did/types.WithKeyAgreements -/
def x_did_types_WithKeyAgreements : List String := ["return _", "assign opts.KeyAgreements = keyAgreements"]

/-- x/did/types.WithServices -/
def x_did_types_WithServices : List String := ["return _", "assign opts.Services = services"]

/-- x/did/types.WithVerificationMethods -/
def x_did_types_WithVerificationMethods : List String := ["return _", "assign opts.VerificationMethods = verificationMethods"]

/-- x/did/types.didRegex -/
def x_did_types_didRegex : List String := ["return _", "call fmt.Sprintf(_, DIDMethod, Base58Charset)", "lit \"did:%s:[%s]{32,44}\""]

/-- x/did/types.init -/
def x_did_types_init : List String := ["call RegisterCodec(authzcodec.Amino)", "call RegisterCodec(govcodec.Amino)", "call RegisterCodec(groupcodec.Amino)"]

/-- x/did/types.mustGetSignBytesWithSeq -/
def x_did_types_mustGetSignBytesWithSeq : List String := ["assign dAtA,err := signableData.Marshal()", "call signableData.Marshal()", "if err != nil", "call panic(_)", "call fmt.Sprintf(_, err.Error(), signableData)", "lit \"marshal failed: %s, signableData: %s\"", "call err.Error()", "assign dataWithSeq := _", "kv Data=dAtA", "kv Sequence=seq", "assign dAtA,err = dataWithSeq.Marshal()", "call dataWithSeq.Marshal()", "if err != nil", "call panic(_)", "call fmt.Sprintf(_, err.Error(), dataWithSeq)", "lit \"marshal failed: %s, dataWithSeq: %v\"", "call err.Error()", "return dAtA"]

/-- x/did/types.nextSequence -/
def x_did_types_nextSequence : List String := ["return _", "op +", "lit 1"]

/-- x/pnft.AppModule.BeginBlock -/
def x_pnft_AppModule_BeginBlock : List String := []

/-- x/pnft.AppModule.ConsensusVersion -/
def x_pnft_AppModule_ConsensusVersion : List String := ["return 1", "lit 1"]

/-- x/pnft.AppModule.EndBlock -/
def x_pnft_AppModule_EndBlock : List String := ["return _"]

/-- x/pnft.AppModule.ExportGenesis -/
def x_pnft_AppModule_ExportGenesis : List String := ["assign genState := ExportGenesis(ctx, am.keeper)", "call ExportGenesis(ctx, am.keeper)", "return _", "call cdc.MustMarshalJSON(genState)"]

/-- x/pnft.AppModule.InitGenesis -/
def x_pnft_AppModule_InitGenesis : List String := ["call cdc.MustUnmarshalJSON(data, &genState)", "call InitGenesis(ctx, am.keeper, genState)", "return _"]

/-- x/pnft.AppModule.QuerierRoute -/
def x_pnft_AppModule_QuerierRoute : List String := ["return _"]

/-- x/pnft.AppModule.RegisterInvariants -/
def x_pnft_AppModule_RegisterInvariants : List String := []

/-- x/pnft.AppModule.RegisterServices -/
def x_pnft_AppModule_RegisterServices : List String := ["call types.RegisterQueryServer(cfg.QueryServer(), am.keeper)", "call cfg.QueryServer()", "call types.RegisterMsgServer(cfg.MsgServer(), keeper.NewMsgServerImpl(am.keeper))", "call cfg.MsgServer()", "call keeper.NewMsgServerImpl(am.keeper)"]

/-- x/pnft.AppModuleBasic.DefaultGenesis -/
def x_pnft_AppModuleBasic_DefaultGenesis : List String := ["return _", "call cdc.MustMarshalJSON(types.DefaultGenesis())", "call types.DefaultGenesis()"]

/-- x/pnft.AppModuleBasic.GetQueryCmd -/
def x_pnft_AppModuleBasic_GetQueryCmd : List String := ["return _", "call cli.NewGetQueryCmd()"]

/-- x/pnft.AppModuleBasic.GetTxCmd -/
def x_pnft_AppModuleBasic_GetTxCmd : List String := ["return _", "call cli.NewTxCmd()"]

/-- x/pnft.AppModuleBasic.Name -/
def x_pnft_AppModuleBasic_Name : List String := ["return _"]

/-- x/pnft.AppModuleBasic.RegisterGRPCGatewayRoutes -/
def x_pnft_AppModuleBasic_RegisterGRPCGatewayRoutes : List String := ["if err != nil", "assign err := _", "call types.RegisterQueryHandlerClient(context.Background(), mux, types.NewQueryClient(clientContext))", "call context.Background()", "call types.NewQueryClient(clientContext)", "call panic(err)"]

/-- x/pnft.AppModuleBasic.RegisterInterfaces -/
def x_pnft_AppModuleBasic_RegisterInterfaces : List String := ["call types.RegisterInterfaces(registry)"]

/-- x/pnft.AppModuleBasic.RegisterLegacyAminoCodec -/
def x_pnft_AppModuleBasic_RegisterLegacyAminoCodec : List String := ["call types.RegisterCodec(cdc)"]

/-- x/pnft.AppModuleBasic.ValidateGenesis -/
def x_pnft_AppModuleBasic_ValidateGenesis : List String := ["if err != nil", "assign err := cdc.UnmarshalJSON(bz, &genState)", "call cdc.UnmarshalJSON(bz, &genState)", "return _", "call fmt.Errorf(_, types.ModuleName, err)", "return _", "call genState.ValidateBasic()"]

/-- x/pnft.ExportGenesis -/
def x_pnft_ExportGenesis : List String := ["assign genesis := types.DefaultGenesis()", "call types.DefaultGenesis()", "assign denoms,err := k.GetAllDenoms(ctx)", "call k.GetAllDenoms(ctx)", "if err != nil", "call panic(err)", "range denoms", "assign pnftsByDenom,err := k.GetPNFTsByDenomId(ctx, denom.Id)", "call k.GetPNFTsByDenomId(ctx, denom.Id)", "if err != nil", "call panic(err)", "assign pnfts = append(pnfts, pnftsByDenom...)", "call append(pnfts, pnftsByDenom)", "assign genesis.Denoms = denoms", "assign genesis.Pnfts = pnfts", "return genesis"]

/-- x/pnft.InitGenesis -/
def x_pnft_InitGenesis : List String := ["range genState.Denoms", "if err != nil", "assign err := k.SaveDenom(ctx, denom)", "call k.SaveDenom(ctx, denom)", "call panic(err)", "range genState.Pnfts", "if err != nil", "assign err := k.ImportPNFT(ctx, pnft)", "call k.ImportPNFT(ctx, pnft)", "call panic(err)"]

/-- x/pnft.NewAppModule -/
def x_pnft_NewAppModule : List String := ["return _", "kv AppModuleBasic=NewAppModuleBasic(cdc)", "call NewAppModuleBasic(cdc)", "kv keeper=keeper"]

/-- x/pnft.NewAppModuleBasic -/
def x_pnft_NewAppModuleBasic : List String := ["return _", "kv cdc=cdc"]

/-- x/pnft/keeper.Keeper.BurnPNFT -/
def x_pnft_keeper_Keeper_BurnPNFT : List String := ["assign pnft,err := k.GetPNFT(ctx, denomId, id)", "call k.GetPNFT(ctx, denomId, id)", "if err != nil", "return err", "if burner != pnft.Owner", "return _", "call fmt.Errorf(_, burner)", "if err != nil", "assign err := k.nftKeeper.Burn(ctx, denomId, id)", "call _.Burn(ctx, denomId, id)", "return err", "return _", "call _.EmitTypedEvent(_)", "call ctx.EventManager()", "kv DenomId=pnft.DenomId", "kv Id=pnft.Id", "kv Burner=burner"]

/-- x/pnft/keeper.Keeper.DeleteDenom -/
def x_pnft_keeper_Keeper_DeleteDenom : List String := ["assign denom,err := k.GetDenom(ctx, id)", "call k.GetDenom(ctx, id)", "if err != nil", "return err", "if remover != denom.Owner", "return _", "call fmt.Errorf(_, remover)", "if supply > 0", "assign supply := k.nftKeeper.GetTotalSupply(ctx, id)", "call _.GetTotalSupply(ctx, id)", "lit 0", "return _", "call fmt.Errorf(_, id, supply)", "assign store := ctx.KVStore(k.storeKey)", "call ctx.KVStore(k.storeKey)", "call store.Delete(classStoreKey(id))", "call classStoreKey(id)", "return _", "call _.EmitTypedEvent(_)", "call ctx.EventManager()", "kv Id=denom.Id", "kv Remover=remover"]

/-- x/pnft/keeper.Keeper.Denom -/
def x_pnft_keeper_Keeper_Denom : List String := ["if request == nil", "return nil,_", "call status.Error(codes.InvalidArgument, _)", "assign ctx := sdk.UnwrapSDKContext(goCtx)", "call sdk.UnwrapSDKContext(goCtx)", "assign denom,err := k.GetDenom(ctx, request.Id)", "call k.GetDenom(ctx, request.Id)", "if err != nil", "return nil,err", "return _,nil", "kv Denom=denom"]

/-- x/pnft/keeper.Keeper.Denoms -/
def x_pnft_keeper_Keeper_Denoms : List String := ["if request == nil", "return nil,_", "call status.Error(codes.InvalidArgument, _)", "assign classRes,err := _", "call _.Classes(goCtx, _)", "kv Pagination=request.Pagination", "if err != nil", "return nil,err", "assign denoms,err := k.ParseDenoms(classRes.GetClasses())", "call k.ParseDenoms(classRes.GetClasses())", "call classRes.GetClasses()", "if err != nil", "return nil,err", "return _,nil", "kv Denoms=denoms", "kv Pagination=classRes.Pagination"]

/-- x/pnft/keeper.Keeper.DenomsByOwner -/
def x_pnft_keeper_Keeper_DenomsByOwner : List String := ["if request == nil", "return nil,_", "call status.Error(codes.InvalidArgument, _)", "assign allDenoms,err := k.GetAllDenoms(sdk.UnwrapSDKContext(goCtx))", "call k.GetAllDenoms(sdk.UnwrapSDKContext(goCtx))", "call sdk.UnwrapSDKContext(goCtx)", "if err != nil", "return nil,err", "range allDenoms", "if denom.Owner == request.Owner", "assign denoms = append(denoms, denom)", "call append(denoms, denom)", "return _,nil", "kv Denoms=denoms"]

/-- x/pnft/keeper.Keeper.GetAllDenoms -/
def x_pnft_keeper_Keeper_GetAllDenoms : List String := ["assign classes := k.nftKeeper.GetClasses(ctx)", "call _.GetClasses(ctx)", "range classes", "assign denom,err := types.NewDenomFromClass(k.cdc, class)", "call types.NewDenomFromClass(k.cdc, class)", "if err != nil", "return nil,err", "assign denoms = append(denoms, denom)", "call append(denoms, denom)", "return denoms,nil"]

/-- x/pnft/keeper.Keeper.GetDenom -/
def x_pnft_keeper_Keeper_GetDenom : List String := ["assign class,found := k.nftKeeper.GetClass(ctx, id)", "call _.GetClass(ctx, id)", "if !found", "return nil,_", "call fmt.Errorf(_)", "return _", "call types.NewDenomFromClass(k.cdc, &class)"]

/-- x/pnft/keeper.Keeper.GetPNFT -/
def x_pnft_keeper_Keeper_GetPNFT : List String := ["assign nft,exist := k.nftKeeper.GetNFT(ctx, denomId, id)", "call _.GetNFT(ctx, denomId, id)", "if !exist", "return nil,_", "call fmt.Errorf(_, denomId, id)", "assign ownerAddr := k.nftKeeper.GetOwner(ctx, denomId, id)", "call _.GetOwner(ctx, denomId, id)", "if err != nil", "assign err := k.cdc.Unmarshal(nft.Data.GetValue(), &meta)", "call _.Unmarshal(nft.Data.GetValue(), &meta)", "call _.GetValue()", "return nil,err", "return _,nil", "kv DenomId=nft.ClassId", "kv Id=nft.Id", "kv Name=meta.Name", "kv Description=meta.Description", "kv Uri=nft.Uri", "kv UriHash=nft.UriHash", "kv Data=meta.Data", "kv Creator=meta.Creator", "kv Owner=ownerAddr.String()", "call ownerAddr.String()", "kv CreatedAt=meta.CreatedAt"]

/-- x/pnft/keeper.Keeper.GetPNFTsByDenomId -/
def x_pnft_keeper_Keeper_GetPNFTsByDenomId : List String := ["range k.nftKeeper.GetNFTsOfClass(ctx, denomId)", "call _.GetNFTsOfClass(ctx, denomId)", "if err != nil", "assign err := k.cdc.Unmarshal(n.Data.GetValue(), &meta)", "call _.Unmarshal(n.Data.GetValue(), &meta)", "call _.GetValue()", "return nil,err", "assign ownerAddr := k.nftKeeper.GetOwner(ctx, denomId, n.Id)", "call _.GetOwner(ctx, denomId, n.Id)", "assign pnfts = _", "call append(pnfts, _)", "kv DenomId=n.ClassId", "kv Id=n.Id", "kv Name=meta.Name", "kv Description=meta.Description", "kv Uri=n.Uri", "kv UriHash=n.UriHash", "kv Data=meta.Data", "kv Creator=meta.Creator", "kv Owner=ownerAddr.String()", "call ownerAddr.String()", "kv CreatedAt=meta.CreatedAt", "return pnfts,nil"]

/-- x/pnft/keeper.Keeper.GetPNFTsByDenomIdAndOwner -/
def x_pnft_keeper_Keeper_GetPNFTsByDenomIdAndOwner : List String := ["assign ownerAddr,err := sdk.AccAddressFromBech32(owner)", "call sdk.AccAddressFromBech32(owner)", "if err != nil", "return nil,err", "range k.nftKeeper.GetNFTsOfClassByOwner(ctx, denomId, ownerAddr)", "call _.GetNFTsOfClassByOwner(ctx, denomId, ownerAddr)", "if err != nil", "assign err := k.cdc.Unmarshal(n.Data.GetValue(), &meta)", "call _.Unmarshal(n.Data.GetValue(), &meta)", "call _.GetValue()", "return nil,err", "assign ownerAddr := k.nftKeeper.GetOwner(ctx, denomId, n.Id)", "call _.GetOwner(ctx, denomId, n.Id)", "assign pnfts = _", "call append(pnfts, _)", "kv DenomId=n.ClassId", "kv Id=n.Id", "kv Name=meta.Name", "kv Description=meta.Description", "kv Uri=n.Uri", "kv UriHash=n.UriHash", "kv Data=meta.Data", "kv Creator=meta.Creator", "kv Owner=ownerAddr.String()", "call ownerAddr.String()", "kv CreatedAt=meta.CreatedAt", "return pnfts,nil"]

/-- x/pnft/keeper.Keeper.ImportPNFT -/
def x_pnft_keeper_Keeper_ImportPNFT : List String := ["assign meta,err := _", "call codectypes.NewAnyWithValue(_)", "kv Name=pnft.Name", "kv Description=pnft.Description", "kv Creator=pnft.Creator", "kv CreatedAt=pnft.CreatedAt", "kv Data=pnft.Data", "if err != nil", "return err", "assign owner,err := sdk.AccAddressFromBech32(pnft.Owner)", "call sdk.AccAddressFromBech32(pnft.Owner)", "if err != nil", "return err", "return _", "call _.Mint(ctx, _, owner)", "kv ClassId=pnft.DenomId", "kv Id=pnft.Id", "kv Uri=pnft.Uri", "kv UriHash=pnft.UriHash", "kv Data=meta"]

/-- x/pnft/keeper.Keeper.Logger -/
def x_pnft_keeper_Keeper_Logger : List String := ["return _", "call _.With(\"module\", fmt.Sprintf(\"OmniFlix/%s\", types.ModuleName))", "call ctx.Logger()", "lit \"module\"", "call fmt.Sprintf(_, types.ModuleName)", "lit \"OmniFlix/%s\""]

/-- x/pnft/keeper.Keeper.MintPNFT -/
def x_pnft_keeper_Keeper_MintPNFT : List String := ["assign denom,err := k.GetDenom(ctx, pnft.DenomId)", "call k.GetDenom(ctx, pnft.DenomId)", "if err != nil", "return err", "if denom.Owner != pnft.Creator", "return _", "call fmt.Errorf(_, pnft.Creator)", "assign meta,err := _", "call codectypes.NewAnyWithValue(_)", "kv Name=pnft.Name", "kv Description=pnft.Description", "kv Creator=pnft.Creator", "kv CreatedAt=pnft.CreatedAt", "kv Data=pnft.Data", "if err != nil", "return err", "assign sdkNFT := _", "kv ClassId=denom.Id", "kv Id=pnft.Id", "kv Uri=pnft.Uri", "kv UriHash=pnft.UriHash", "kv Data=meta", "assign receiver,err := sdk.AccAddressFromBech32(pnft.Creator)", "call sdk.AccAddressFromBech32(pnft.Creator)", "if err != nil", "return err", "if err != nil", "assign err := k.nftKeeper.Mint(ctx, sdkNFT, receiver)", "call _.Mint(ctx, sdkNFT, receiver)", "return err", "return _", "call _.EmitTypedEvent(_)", "call ctx.EventManager()", "kv DenomId=pnft.DenomId", "kv Id=pnft.Id", "kv Creator=pnft.Creator"]

/-- x/pnft/keeper.Keeper.PNFT -/
def x_pnft_keeper_Keeper_PNFT : List String := ["if request == nil", "return nil,_", "call status.Error(codes.InvalidArgument, _)", "assign ctx := sdk.UnwrapSDKContext(goCtx)", "call sdk.UnwrapSDKContext(goCtx)", "assign pnft,err := k.GetPNFT(ctx, request.DenomId, request.Id)", "call k.GetPNFT(ctx, request.DenomId, request.Id)", "if err != nil", "return nil,err", "return _,nil", "kv Pnft=pnft"]

/-- x/pnft/keeper.Keeper.PNFTs -/
def x_pnft_keeper_Keeper_PNFTs : List String := ["if request == nil", "return nil,_", "call status.Error(codes.InvalidArgument, _)", "assign ctx := sdk.UnwrapSDKContext(goCtx)", "call sdk.UnwrapSDKContext(goCtx)", "assign pnfts,err := k.GetPNFTsByDenomId(ctx, request.DenomId)", "call k.GetPNFTsByDenomId(ctx, request.DenomId)", "if err != nil", "return nil,err", "return _,nil", "kv Pnfts=pnfts"]

/-- x/pnft/keeper.Keeper.PNFTsByDenomOwner -/
def x_pnft_keeper_Keeper_PNFTsByDenomOwner : List String := ["if request == nil", "return nil,_", "call status.Error(codes.InvalidArgument, _)", "assign ctx := sdk.UnwrapSDKContext(goCtx)", "call sdk.UnwrapSDKContext(goCtx)", "assign pnfts,err := k.GetPNFTsByDenomIdAndOwner(ctx, request.DenomId, request.Owner)", "call k.GetPNFTsByDenomIdAndOwner(ctx, request.DenomId, request.Owner)", "if err != nil", "return nil,err", "return _,nil", "kv Pnfts=pnfts"]

/-- x/pnft/keeper.Keeper.ParseDenoms -/
def x_pnft_keeper_Keeper_ParseDenoms : List String := ["range classes", "assign denom,err := types.NewDenomFromClass(k.cdc, class)", "call types.NewDenomFromClass(k.cdc, class)", "if err != nil", "return nil,err", "assign denoms = append(denoms, denom)", "call append(denoms, denom)", "return denoms,nil"]

/-- x/pnft/keeper.Keeper.SaveDenom -/
def x_pnft_keeper_Keeper_SaveDenom : List String := ["assign class,err := types.NewClassFromDenom(k.cdc, denom)", "call types.NewClassFromDenom(k.cdc, denom)", "if err != nil", "return err", "if err != nil", "assign err := k.nftKeeper.SaveClass(ctx, *class)", "call _.SaveClass(ctx, *class)", "return err", "return _", "call _.EmitTypedEvent(_)", "call ctx.EventManager()", "kv Id=denom.Id", "kv Creator=denom.Owner"]

/-- x/pnft/keeper.Keeper.TransferDenomOwner -/
def x_pnft_keeper_Keeper_TransferDenomOwner : List String := ["assign denom,err := k.GetDenom(ctx, id)", "call k.GetDenom(ctx, id)", "if err != nil", "return err", "if sender != denom.Owner", "return _", "call fmt.Errorf(_, sender, receiver)", "assign denom.Owner = receiver", "assign class,err := types.NewClassFromDenom(k.cdc, denom)", "call types.NewClassFromDenom(k.cdc, denom)", "if err != nil", "return err", "if err != nil", "assign err := k.nftKeeper.UpdateClass(ctx, *class)", "call _.UpdateClass(ctx, *class)", "return err", "return _", "call _.EmitTypedEvent(_)", "call ctx.EventManager()", "kv Id=denom.Id", "kv Sender=sender", "kv Receiver=receiver"]

/-- x/pnft/keeper.Keeper.TransferPNFT -/
def x_pnft_keeper_Keeper_TransferPNFT : List String := ["assign pnft,err := k.GetPNFT(ctx, denomId, id)", "call k.GetPNFT(ctx, denomId, id)", "if err != nil", "return err", "if sender != pnft.Owner", "return _", "call fmt.Errorf(_, sender)", "assign receiverAddr,err := sdk.AccAddressFromBech32(receiver)", "call sdk.AccAddressFromBech32(receiver)", "if err != nil", "return err", "if err != nil", "assign err := k.nftKeeper.Transfer(ctx, denomId, id, receiverAddr)", "call _.Transfer(ctx, denomId, id, receiverAddr)", "return err", "return _", "call _.EmitTypedEvent(_)", "call ctx.EventManager()", "kv DenomId=pnft.DenomId", "kv Id=pnft.Id", "kv Sender=sender", "kv Receiver=receiver"]

/-- x/pnft/keeper.Keeper.UpdateDenom -/
def x_pnft_keeper_Keeper_UpdateDenom : List String := ["assign denom,err := k.GetDenom(ctx, msg.GetId())", "call k.GetDenom(ctx, msg.GetId())", "call msg.GetId()", "if err != nil", "return err", "assign updater := msg.Owner", "if updater != denom.Owner", "return _", "call fmt.Errorf(_, updater)", "if msg.Name != \"\"", "lit \"\"", "assign denom.Name = msg.Name", "if msg.Symbol != \"\"", "lit \"\"", "assign denom.Symbol = msg.Symbol", "if msg.Description != \"\"", "lit \"\"", "assign denom.Description = msg.Description", "if msg.Uri != \"\"", "lit \"\"", "assign denom.Uri = msg.Uri", "if msg.UriHash != \"\"", "lit \"\"", "assign denom.UriHash = msg.UriHash", "if msg.Data != \"\"", "lit \"\"", "assign denom.Data = msg.Data", "assign class,err := types.NewClassFromDenom(k.cdc, denom)", "call types.NewClassFromDenom(k.cdc, denom)", "if err != nil", "return err", "if err != nil", "assign err := k.nftKeeper.UpdateClass(ctx, *class)", "call _.UpdateClass(ctx, *class)", "return err", "return _", "call _.EmitTypedEvent(_)", "call ctx.EventManager()", "kv Id=denom.Id", "kv Updater=updater"]

/-- x/pnft/keeper.NewKeeper -/
def x_pnft_keeper_NewKeeper : List String := ["return _", "kv cdc=cdc", "kv storeKey=storeKey", "kv nftKeeper=nftkeeper.NewKeeper(storeKey, cdc, ak, bk)", "call nftkeeper.NewKeeper(storeKey, cdc, ak, bk)"]

/-- x/pnft/keeper.NewMsgServerImpl -/
def x_pnft_keeper_NewMsgServerImpl : List String := ["return _", "kv Keeper=keeper"]

/-- x/pnft/keeper.classStoreKey -/
def x_pnft_keeper_classStoreKey : List String := ["assign key := make([]byte, len(nftkeeper.ClassKey)+len(classID))", "call make([]byte, len(nftkeeper.ClassKey) + len(classID))", "op +", "call len(nftkeeper.ClassKey)", "call len(classID)", "call copy(key, nftkeeper.ClassKey)", "call copy(key[len(nftkeeper.ClassKey):], classID)", "call len(nftkeeper.ClassKey)", "return key"]

/-- x/pnft/keeper.msgServer.BurnPNFT -/
def x_pnft_keeper_msgServer_BurnPNFT : List String := ["assign ctx := sdk.UnwrapSDKContext(goCtx)", "call sdk.UnwrapSDKContext(goCtx)", "if err != nil", "assign err := request.ValidateBasic()", "call request.ValidateBasic()", "return nil,_", "call errors.Wrap(types.ErrBurnPNFT, err.Error())", "call err.Error()", "if err != nil", "assign err := m.Keeper.BurnPNFT( ctx, request.DenomId, request.Id, request.Burner, )", "call _.BurnPNFT(ctx, request.DenomId, request.Id, request.Burner)", "return nil,_", "call errors.Wrap(types.ErrBurnPNFT, err.Error())", "call err.Error()", "return _,nil"]

/-- x/pnft/keeper.msgServer.CreateDenom -/
def x_pnft_keeper_msgServer_CreateDenom : List String := ["assign ctx := sdk.UnwrapSDKContext(goCtx)", "call sdk.UnwrapSDKContext(goCtx)", "if err != nil", "assign err := request.ValidateBasic()", "call request.ValidateBasic()", "return nil,_", "call errors.Wrap(types.ErrCreateDenom, err.Error())", "call err.Error()", "assign err := _", "call _.SaveDenom(ctx, _)", "kv Id=request.Id", "kv Name=request.Name", "kv Symbol=request.Symbol", "kv Description=request.Description", "kv Uri=request.Uri", "kv UriHash=request.UriHash", "kv Owner=request.Creator", "kv Data=request.Data", "if err != nil", "return nil,_", "call errors.Wrapf(types.ErrCreateDenom, err.Error())", "call err.Error()", "return _,nil"]

/-- x/pnft/keeper.msgServer.DeleteDenom -/
def x_pnft_keeper_msgServer_DeleteDenom : List String := ["assign ctx := sdk.UnwrapSDKContext(goCtx)", "call sdk.UnwrapSDKContext(goCtx)", "if err != nil", "assign err := request.ValidateBasic()", "call request.ValidateBasic()", "return nil,_", "call errors.Wrap(types.ErrDeleteDenom, err.Error())", "call err.Error()", "if err != nil", "assign err := m.Keeper.DeleteDenom(ctx, request.Id, request.Remover)", "call _.DeleteDenom(ctx, request.Id, request.Remover)", "return nil,_", "call errors.Wrapf(types.ErrDeleteDenom, err.Error())", "call err.Error()", "return _,nil"]

/-- x/pnft/keeper.msgServer.MintPNFT -/
def x_pnft_keeper_msgServer_MintPNFT : List String := ["assign ctx := sdk.UnwrapSDKContext(goCtx)", "call sdk.UnwrapSDKContext(goCtx)", "if err != nil", "assign err := request.ValidateBasic()", "call request.ValidateBasic()", "return nil,_", "call errors.Wrap(types.ErrMintPNFT, err.Error())", "call err.Error()", "assign msg := _", "kv DenomId=request.DenomId", "kv Id=request.Id", "kv Name=request.Name", "kv Description=request.Description", "kv Uri=request.Uri", "kv UriHash=request.UriHash", "kv Data=request.Data", "kv Creator=request.Creator", "kv CreatedAt=ctx.BlockTime()", "call ctx.BlockTime()", "if err != nil", "assign err := m.Keeper.MintPNFT(ctx, msg)", "call _.MintPNFT(ctx, msg)", "return nil,_", "call errors.Wrap(types.ErrMintPNFT, err.Error())", "call err.Error()", "return _,nil"]

/-- x/pnft/keeper.msgServer.TransferDenom -/
def x_pnft_keeper_msgServer_TransferDenom : List String := ["assign ctx := sdk.UnwrapSDKContext(goCtx)", "call sdk.UnwrapSDKContext(goCtx)", "if err != nil", "assign err := request.ValidateBasic()", "call request.ValidateBasic()", "return nil,_", "call errors.Wrap(types.ErrTransferDenom, err.Error())", "call err.Error()", "if err != nil", "assign err := m.Keeper.TransferDenomOwner(ctx, request.Id, request.Sender, request.Receiver)", "call _.TransferDenomOwner(ctx, request.Id, request.Sender, request.Receiver)", "return nil,_", "call errors.Wrap(types.ErrTransferDenom, err.Error())", "call err.Error()", "return _,nil"]

/-- x/pnft/keeper.msgServer.TransferPNFT -/
def x_pnft_keeper_msgServer_TransferPNFT : List String := ["assign ctx := sdk.UnwrapSDKContext(goCtx)", "call sdk.UnwrapSDKContext(goCtx)", "if err != nil", "assign err := request.ValidateBasic()", "call request.ValidateBasic()", "return nil,_", "call errors.Wrap(types.ErrTransferPNFT, err.Error())", "call err.Error()", "if err != nil", "assign err := _", "call _.TransferPNFT(ctx, request.DenomId, request.Id, request.Sender, request.Receiver)", "return nil,_", "call errors.Wrap(types.ErrTransferPNFT, err.Error())", "call err.Error()", "return _,nil"]

/-- x/pnft/keeper.msgServer.UpdateDenom -/
def x_pnft_keeper_msgServer_UpdateDenom : List String := ["assign ctx := sdk.UnwrapSDKContext(goCtx)", "call sdk.UnwrapSDKContext(goCtx)", "if err != nil", "assign err := request.ValidateBasic()", "call request.ValidateBasic()", "return nil,_", "call errors.Wrap(types.ErrUpdateDenom, err.Error())", "call err.Error()", "if err != nil", "assign err := _", "call _.UpdateDenom(ctx, _)", "kv Id=request.Id", "kv Name=request.Name", "kv Symbol=request.Symbol", "kv Description=request.Description", "kv Uri=request.Uri", "kv UriHash=request.UriHash", "kv Owner=request.Updater", "kv Data=request.Data", "return nil,_", "call errors.Wrapf(types.ErrUpdateDenom, err.Error())", "call err.Error()", "return _,nil"]

/-- x/pnft/types.DefaultGenesis -/
def x_pnft_types_DefaultGenesis : List String := ["return _", "kv Denoms", "kv Pnfts"]

/-- x/pnft/types.Denom.ValidateBasic -/
def x_pnft_types_Denom_ValidateBasic : List String := ["if d.Id == \"\"", "lit \"\"", "return _", "call errors.New(_)", "if strings.IndexByte(d.Id, 0) >= 0", "call strings.IndexByte(d.Id, 0)", "lit 0", "lit 0", "return _", "call errors.New(_)", "if d.Name == \"\"", "lit \"\"", "return _", "call errors.New(_)", "if d.Symbol == \"\"", "lit \"\"", "return _", "call errors.New(_)", "if d.Owner == \"\"", "lit \"\"", "return _", "call errors.New(_)", "return nil"]

/-- x/pnft/types.GenesisState.ValidateBasic -/
def x_pnft_types_GenesisState_ValidateBasic : List String := ["range data.Denoms", "if err != nil", "assign err := denom.ValidateBasic()", "call denom.ValidateBasic()", "return err", "range data.Pnfts", "if err != nil", "assign err := pnft.ValidateBasic()", "call pnft.ValidateBasic()", "return err", "return nil"]

/-- x/pnft/types.MsgBurnPNFTRequest.GetSignBytes -/
def x_pnft_types_MsgBurnPNFTRequest_GetSignBytes : List String := ["assign bz := ModuleCdc.MustMarshalJSON(msg)", "call ModuleCdc.MustMarshalJSON(msg)", "return _", "call sdk.MustSortJSON(bz)"]

/-- x/pnft/types.MsgBurnPNFTRequest.GetSigners -/
def x_pnft_types_MsgBurnPNFTRequest_GetSigners : List String := ["assign from,err := sdk.AccAddressFromBech32(msg.Burner)", "call sdk.AccAddressFromBech32(msg.Burner)", "if err != nil", "call panic(err)", "return _"]

/-- x/pnft/types.MsgBurnPNFTRequest.ValidateBasic -/
def x_pnft_types_MsgBurnPNFTRequest_ValidateBasic : List String := ["if msg.DenomId == \"\"", "lit \"\"", "return _", "call fmt.Errorf(_)", "if msg.Id == \"\"", "lit \"\"", "return _", "call fmt.Errorf(_)", "if msg.Burner == \"\"", "lit \"\"", "return _", "call fmt.Errorf(_)", "if err != nil", "assign _,err := sdk.AccAddressFromBech32(msg.Burner)", "call sdk.AccAddressFromBech32(msg.Burner)", "return err", "return nil"]

/-- x/pnft/types.MsgCreateDenomRequest.GetSignBytes -/
def x_pnft_types_MsgCreateDenomRequest_GetSignBytes : List String := ["assign bz := ModuleCdc.MustMarshalJSON(msg)", "call ModuleCdc.MustMarshalJSON(msg)", "return _", "call sdk.MustSortJSON(bz)"]

/-- x/pnft/types.MsgCreateDenomRequest.GetSigners -/
def x_pnft_types_MsgCreateDenomRequest_GetSigners : List String := ["assign from,err := sdk.AccAddressFromBech32(msg.Creator)", "call sdk.AccAddressFromBech32(msg.Creator)", "if err != nil", "call panic(err)", "return _"]

/-- x/pnft/types.MsgCreateDenomRequest.ValidateBasic -/
def x_pnft_types_MsgCreateDenomRequest_ValidateBasic : List String := ["if msg.Id == \"\"", "lit \"\"", "return _", "call errors.New(_)", "if strings.IndexByte(msg.Id, 0) >= 0", "call strings.IndexByte(msg.Id, 0)", "lit 0", "lit 0", "return _", "call errors.New(_)", "if msg.Name == \"\"", "lit \"\"", "return _", "call errors.New(_)", "if msg.Symbol == \"\"", "lit \"\"", "return _", "call errors.New(_)", "if msg.Creator == \"\"", "lit \"\"", "return _", "call errors.New(_)", "if err != nil", "assign _,err := sdk.AccAddressFromBech32(msg.Creator)", "call sdk.AccAddressFromBech32(msg.Creator)", "return err", "return nil"]

/-- x/pnft/types.MsgDeleteDenomRequest.GetSignBytes -/
def x_pnft_types_MsgDeleteDenomRequest_GetSignBytes : List String := ["assign bz := ModuleCdc.MustMarshalJSON(msg)", "call ModuleCdc.MustMarshalJSON(msg)", "return _", "call sdk.MustSortJSON(bz)"]

/-- x/pnft/types.MsgDeleteDenomRequest.GetSigners -/
def x_pnft_types_MsgDeleteDenomRequest_GetSigners : List String := ["assign from,err := sdk.AccAddressFromBech32(msg.Remover)", "call sdk.AccAddressFromBech32(msg.Remover)", "if err != nil", "call panic(err)", "return _"]

/-- x/pnft/types.MsgDeleteDenomRequest.ValidateBasic -/
def x_pnft_types_MsgDeleteDenomRequest_ValidateBasic : List String := ["if msg.Id == \"\"", "lit \"\"", "return _", "call errors.New(_)", "if msg.Remover == \"\"", "lit \"\"", "return _", "call errors.New(_)", "if err != nil", "assign _,err := sdk.AccAddressFromBech32(msg.Remover)", "call sdk.AccAddressFromBech32(msg.Remover)", "return err", "return nil"]

/-- x/pnft/types.MsgMintPNFTRequest.GetSignBytes -/
def x_pnft_types_MsgMintPNFTRequest_GetSignBytes : List String := ["assign bz := ModuleCdc.MustMarshalJSON(msg)", "call ModuleCdc.MustMarshalJSON(msg)", "return _", "call sdk.MustSortJSON(bz)"]

/-- x/pnft/types.MsgMintPNFTRequest.GetSigners -/
def x_pnft_types_MsgMintPNFTRequest_GetSigners : List String := ["assign from,err := sdk.AccAddressFromBech32(msg.Creator)", "call sdk.AccAddressFromBech32(msg.Creator)", "if err != nil", "call panic(err)", "return _"]

/-- x/pnft/types.MsgMintPNFTRequest.ValidateBasic -/
def x_pnft_types_MsgMintPNFTRequest_ValidateBasic : List String := ["if msg.DenomId == \"\"", "lit \"\"", "return _", "call fmt.Errorf(_)", "if msg.Id == \"\"", "lit \"\"", "return _", "call fmt.Errorf(_)", "if msg.Name == \"\"", "lit \"\"", "return _", "call fmt.Errorf(_)", "if strings.IndexByte(msg.DenomId, 0) >= 0 || strings.IndexByte(msg.Id, 0) >= 0", "call strings.IndexByte(msg.DenomId, 0)", "lit 0", "lit 0", "call strings.IndexByte(msg.Id, 0)", "lit 0", "lit 0", "return _", "call fmt.Errorf(_)", "if msg.Creator == \"\"", "lit \"\"", "return _", "call fmt.Errorf(_)", "if err != nil", "assign _,err := sdk.AccAddressFromBech32(msg.Creator)", "call sdk.AccAddressFromBech32(msg.Creator)", "return err", "return nil"]

/-- x/pnft/types.MsgTransferDenomRequest.GetSignBytes -/
def x_pnft_types_MsgTransferDenomRequest_GetSignBytes : List String := ["assign bz := ModuleCdc.MustMarshalJSON(msg)", "call ModuleCdc.MustMarshalJSON(msg)", "return _", "call sdk.MustSortJSON(bz)"]

/-- x/pnft/types.MsgTransferDenomRequest.GetSigners -/
def x_pnft_types_MsgTransferDenomRequest_GetSigners : List String := ["assign from,err := sdk.AccAddressFromBech32(msg.Sender)", "call sdk.AccAddressFromBech32(msg.Sender)", "if err != nil", "call panic(err)", "return _"]

/-- x/pnft/types.MsgTransferDenomRequest.ValidateBasic -/
def x_pnft_types_MsgTransferDenomRequest_ValidateBasic : List String := ["if msg.Id == \"\"", "lit \"\"", "return _", "call errors.New(_)", "if msg.Sender == \"\"", "lit \"\"", "return _", "call errors.New(_)", "if err != nil", "assign _,err := sdk.AccAddressFromBech32(msg.Sender)", "call sdk.AccAddressFromBech32(msg.Sender)", "return err", "if msg.Receiver == \"\"", "lit \"\"", "return _", "call errors.New(_)", "if err != nil", "assign _,err := sdk.AccAddressFromBech32(msg.Receiver)", "call sdk.AccAddressFromBech32(msg.Receiver)", "return err", "return nil"]

/-- x/pnft/types.MsgTransferPNFTRequest.GetSignBytes -/
def x_pnft_types_MsgTransferPNFTRequest_GetSignBytes : List String := ["assign bz := ModuleCdc.MustMarshalJSON(msg)", "call ModuleCdc.MustMarshalJSON(msg)", "return _", "call sdk.MustSortJSON(bz)"]

/-- x/pnft/types.MsgTransferPNFTRequest.GetSigners -/
def x_pnft_types_MsgTransferPNFTRequest_GetSigners : List String := ["assign from,err := sdk.AccAddressFromBech32(msg.Sender)", "call sdk.AccAddressFromBech32(msg.Sender)", "if err != nil", "call panic(err)", "return _"]

/-- x/pnft/types.MsgTransferPNFTRequest.ValidateBasic -/
def x_pnft_types_MsgTransferPNFTRequest_ValidateBasic : List String := ["if msg.DenomId == \"\"", "lit \"\"", "return _", "call fmt.Errorf(_)", "if msg.Id == \"\"", "lit \"\"", "return _", "call fmt.Errorf(_)", "if msg.Sender == \"\"", "lit \"\"", "return _", "call fmt.Errorf(_)", "if err != nil", "assign _,err := sdk.AccAddressFromBech32(msg.Sender)", "call sdk.AccAddressFromBech32(msg.Sender)", "return err", "if msg.Receiver == \"\"", "lit \"\"", "return _", "call fmt.Errorf(_)", "if err != nil", "assign _,err := sdk.AccAddressFromBech32(msg.Receiver)", "call sdk.AccAddressFromBech32(msg.Receiver)", "return err", "return nil"]

/-- x/pnft/types.MsgUpdateDenomRequest.GetSignBytes -/
def x_pnft_types_MsgUpdateDenomRequest_GetSignBytes : List String := ["assign bz := ModuleCdc.MustMarshalJSON(msg)", "call ModuleCdc.MustMarshalJSON(msg)", "return _", "call sdk.MustSortJSON(bz)"]

/-- x/pnft/types.MsgUpdateDenomRequest.GetSigners -/
def x_pnft_types_MsgUpdateDenomRequest_GetSigners : List String := ["assign from,err := sdk.AccAddressFromBech32(msg.Updater)", "call sdk.AccAddressFromBech32(msg.Updater)", "if err != nil", "call panic(err)", "return _"]

/-- x/pnft/types.MsgUpdateDenomRequest.ValidateBasic -/
def x_pnft_types_MsgUpdateDenomRequest_ValidateBasic : List String := ["if msg.Id == \"\"", "lit \"\"", "return _", "call errors.New(_)", "if msg.Updater == \"\"", "lit \"\"", "return _", "call errors.New(_)", "if err != nil", "assign _,err := sdk.AccAddressFromBech32(msg.Updater)", "call sdk.AccAddressFromBech32(msg.Updater)", "return err", "return nil"]

/-- x/pnft/types.NewClassFromDenom -/
def x_pnft_types_NewClassFromDenom : List String := ["assign meta,err := _", "call codectypes.NewAnyWithValue(_)", "kv Owner=denom.Owner", "kv Data=denom.Data", "if err != nil", "return nil,err", "return _,nil", "kv Id=denom.Id", "kv Name=denom.Name", "kv Symbol=denom.Symbol", "kv Description=denom.Description", "kv Uri=denom.Uri", "kv UriHash=denom.UriHash", "kv Data=meta"]

/-- x/pnft/types.NewDenomFromClass -/
def x_pnft_types_NewDenomFromClass : List String := ["if err != nil", "assign err := cdc.Unmarshal(class.Data.GetValue(), &meta)", "call cdc.Unmarshal(class.Data.GetValue(), &meta)", "call _.GetValue()", "return nil,err", "return _,nil", "kv Id=class.Id", "kv Name=class.Name", "kv Symbol=class.Symbol", "kv Description=class.Description", "kv Uri=class.Uri", "kv UriHash=class.UriHash", "kv Owner=meta.Owner", "kv Data=meta.Data"]

/-- x/pnft/types.NewMsgBurnPNFTRequest -/
def x_pnft_types_NewMsgBurnPNFTRequest : List String := ["return _", "kv DenomId=denomId", "kv Id=id", "kv Burner=bunner"]

/-- x/pnft/types.NewMsgCreateDenomRequest -/
def x_pnft_types_NewMsgCreateDenomRequest : List String := ["return _", "kv Id=id", "kv Name=name", "kv Symbol=symbol", "kv Description=description", "kv Uri=uri", "kv UriHash=uriHash", "kv Data=data", "kv Creator=creator"]

/-- x/pnft/types.NewMsgDeleteDenomRequest -/
def x_pnft_types_NewMsgDeleteDenomRequest : List String := ["return _", "kv Id=id", "kv Remover=remover"]

/-- x/pnft/types.NewMsgMintPNFTRequest -/
def x_pnft_types_NewMsgMintPNFTRequest : List String := ["return _", "kv DenomId=denomId", "kv Id=id", "kv Name=name", "kv Description=description", "kv Uri=uri", "kv UriHash=uriHash", "kv Data=data", "kv Creator=creator"]

/-- x/pnft/types.NewMsgTransferPNFTRequest -/
def x_pnft_types_NewMsgTransferPNFTRequest : List String := ["return _", "kv DenomId=denomId", "kv Id=id", "kv Sender=sender", "kv Receiver=receiver"]

/-- x/pnft/types.NewMsgTransferRequest -/
def x_pnft_types_NewMsgTransferRequest : List String := ["return _", "kv Id=id", "kv Sender=sender", "kv Receiver=receiver"]

/-- x/pnft/types.NewMsgUpdateDenomRequest -/
def x_pnft_types_NewMsgUpdateDenomRequest : List String := ["return _", "kv Id=id", "kv Name=name", "kv Symbol=symbol", "kv Description=description", "kv Uri=uri", "kv UriHash=uriHash", "kv Data=data", "kv Updater=update"]

/-- x/pnft/types.NewQueryDenomRequest -/
def x_pnft_types_NewQueryDenomRequest : List String := ["return _", "kv Id=id"]

/-- x/pnft/types.NewQueryDenomsByOwnerRequest -/
def x_pnft_types_NewQueryDenomsByOwnerRequest : List String := ["return _", "kv Owner=owner"]

/-- x/pnft/types.NewQueryDenomsRequest -/
def x_pnft_types_NewQueryDenomsRequest : List String := ["return _", "kv Pagination=pagination"]

/-- x/pnft/types.NewQueryPNFTRequest -/
def x_pnft_types_NewQueryPNFTRequest : List String := ["return _", "kv DenomId=denomId", "kv Id=id"]

/-- x/pnft/types.NewQueryPNFTsByOwnerRequest -/
def x_pnft_types_NewQueryPNFTsByOwnerRequest : List String := ["return _", "kv DenomId=denomId", "kv Owner=ownerId"]

/-- x/pnft/types.NewQueryPNFTsRequest -/
def x_pnft_types_NewQueryPNFTsRequest : List String := ["return _", "kv DenomId=denomId"]

/-- x/pnft/types.Pnft.ValidateBasic -/
def x_pnft_types_Pnft_ValidateBasic : List String := ["if m.DenomId == \"\"", "lit \"\"", "return _", "call fmt.Errorf(_)", "if m.Id == \"\"", "lit \"\"", "return _", "call fmt.Errorf(_)", "if m.Name == \"\"", "lit \"\"", "return _", "call fmt.Errorf(_)", "if strings.IndexByte(m.DenomId, 0) >= 0 || strings.IndexByte(m.Id, 0) >= 0", "call strings.IndexByte(m.DenomId, 0)", "lit 0", "lit 0", "call strings.IndexByte(m.Id, 0)", "lit 0", "lit 0", "return _", "call fmt.Errorf(_)", "if m.Creator == \"\"", "lit \"\"", "return _", "call fmt.Errorf(_)", "if m.Owner == \"\"", "lit \"\"", "return _", "call fmt.Errorf(_)", "if m.CreatedAt.IsZero()", "call _.IsZero()", "return _", "call fmt.Errorf(_)", "return nil"]

/-- x/pnft/types.QueryDenomRequest.ValidateBasic -/
def x_pnft_types_QueryDenomRequest_ValidateBasic : List String := ["if m.Id == \"\"", "lit \"\"", "return _", "call fmt.Errorf(_)", "return nil"]

/-- x/pnft/types.QueryDenomsByOwnerRequest.ValidateBasic -/
def x_pnft_types_QueryDenomsByOwnerRequest_ValidateBasic : List String := ["if m.Owner == \"\"", "lit \"\"", "return _", "call fmt.Errorf(_)", "if err != nil", "assign _,err := sdk.AccAddressFromBech32(m.Owner)", "call sdk.AccAddressFromBech32(m.Owner)", "return err", "return nil"]

/-- x/pnft/types.QueryDenomsRequest.ValidateBasic -/
def x_pnft_types_QueryDenomsRequest_ValidateBasic : List String := ["return nil"]

/-- x/pnft/types.QueryPNFTRequest.ValidateBasic -/
def x_pnft_types_QueryPNFTRequest_ValidateBasic : List String := ["if m.DenomId == \"\"", "lit \"\"", "return _", "call fmt.Errorf(_)", "if m.Id == \"\"", "lit \"\"", "return _", "call fmt.Errorf(_)", "return nil"]

/-- x/pnft/types.QueryPNFTsByDenomOwnerRequest.ValidateBasic -/
def x_pnft_types_QueryPNFTsByDenomOwnerRequest_ValidateBasic : List String := ["if m.DenomId == \"\"", "lit \"\"", "return _", "call fmt.Errorf(_)", "if m.Owner == \"\"", "lit \"\"", "return _", "call fmt.Errorf(_)", "if err != nil", "assign _,err := sdk.AccAddressFromBech32(m.Owner)", "call sdk.AccAddressFromBech32(m.Owner)", "return err", "return nil"]

/-- x/pnft/types.QueryPNFTsRequest.ValidateBasic -/
def x_pnft_types_QueryPNFTsRequest_ValidateBasic : List String := ["if m.DenomId == \"\"", "lit \"\"", "return _", "call fmt.Errorf(_)", "return nil"]

/-- x/pnft/types.RegisterCodec -/
def x_pnft_types_RegisterCodec : List String := ["call cdc.RegisterConcrete(_, \"pnft/CreateDenom\", nil)", "lit \"pnft/CreateDenom\"", "call cdc.RegisterConcrete(_, \"pnft/UpdateDenom\", nil)", "lit \"pnft/UpdateDenom\"", "call cdc.RegisterConcrete(_, \"pnft/DeleteDenom\", nil)", "lit \"pnft/DeleteDenom\"", "call cdc.RegisterConcrete(_, \"pnft/TransferDenom\", nil)", "lit \"pnft/TransferDenom\"", "call cdc.RegisterConcrete(_, \"pnft/MintPNFT\", nil)", "lit \"pnft/MintPNFT\"", "call cdc.RegisterConcrete(_, \"pnft/TransferPNFT\", nil)", "lit \"pnft/TransferPNFT\"", "call cdc.RegisterConcrete(_, \"pnft/BurnPNFT\", nil)", "lit \"pnft/BurnPNFT\""]

/-- x/pnft/types.RegisterInterfaces -/
def x_pnft_types_RegisterInterfaces : List String := ["call registry.RegisterImplementations((*sdk.Msg)(nil), _, _, _, _, _, _, _)", "call ?(nil)", "call msgservice.RegisterMsgServiceDesc(registry, &_Msg_serviceDesc)"]

end Panacea.Expected.Skel
