/-! EXPECTED values: a reviewed snapshot of what /verif/extract produced (bin/accept_expected). -/
namespace Panacea.Expected

/-- package-level constants of the custom packages: name ↦ value -/
def consts : List (String × String) := [
  ("types/compkey.maxUint8", "255"),
  ("types/compkey.sizeUint8", "1"),
  ("x/aol/types.DefaultIndex", "1"),
  ("x/aol/types.GenesisKeySeparator", "/"),
  ("x/aol/types.MemStoreKey", "mem_capability"),
  ("x/aol/types.ModuleName", "aol"),
  ("x/aol/types.QuerierRoute", "aol"),
  ("x/aol/types.RouterKey", "aol"),
  ("x/aol/types.StoreKey", "aol"),
  ("x/aol/types.maxDescriptionLength", "5000"),
  ("x/aol/types.maxMonikerLength", "70"),
  ("x/aol/types.maxRecordKeyLength", "70"),
  ("x/aol/types.maxRecordValueLength", "5000"),
  ("x/aol/types.maxTopicLength", "70"),
  ("x/burn/types.BurnAddress", "panacea100000000000000000000000000000000nqmafp"),
  ("x/burn/types.DefaultIndex", "1"),
  ("x/burn/types.MemStoreKey", "mem_capability"),
  ("x/burn/types.ModuleName", "burn"),
  ("x/burn/types.QuerierRoute", "burn"),
  ("x/burn/types.RouterKey", "burn"),
  ("x/burn/types.StoreKey", "burn"),
  ("x/did/client/crypto.cipherAlgorithm", "aes-128-ctr"),
  ("x/did/client/crypto.cipherKeySize", "16"),
  ("x/did/client/crypto.defaultAccountForHD", "0"),
  ("x/did/client/crypto.defaultIndexForHD", "0"),
  ("x/did/client/crypto.kdf", "pbkdf2"),
  ("x/did/client/crypto.macKeyOffset", "16"),
  ("x/did/client/crypto.macKeySize", "16"),
  ("x/did/client/crypto.maxPBKDF2C", "10000000"),
  ("x/did/client/crypto.maxPBKDF2DKLen", "1024"),
  ("x/did/client/crypto.mnemonicEntropySize", "256"),
  ("x/did/client/crypto.pbkdf2C", "262144"),
  ("x/did/client/crypto.pbkdf2DKLen", "32"),
  ("x/did/client/crypto.pbkdf2PRFStr", "hmac-sha256"),
  ("x/did/client/crypto.saltBytes", "32"),
  ("x/did/client/crypto.version", "3"),
  ("x/did/types.BLS1281G1_2020", "Bls12381G1Key2020"),
  ("x/did/types.BLS1281G2_2020", "Bls12381G2Key2020"),
  ("x/did/types.Base58Charset", "123456789ABCDEFGHJKLMNPQRSTUVWXYZabcdefghijkmnopqrstuvwxyz"),
  ("x/did/types.ContextDIDV1", "https://www.w3.org/ns/did/v1"),
  ("x/did/types.DIDMethod", "panacea"),
  ("x/did/types.DefaultIndex", "1"),
  ("x/did/types.ED25519_2018", "Ed25519VerificationKey2018"),
  ("x/did/types.ES256K_2018", "Secp256k1VerificationKey2018"),
  ("x/did/types.ES256K_2019", "EcdsaSecp256k1VerificationKey2019"),
  ("x/did/types.ES256K_R_2020", "EcdsaSecp256k1RecoveryMethod2020"),
  ("x/did/types.GPG_2020", "GpgVerificationKey2020"),
  ("x/did/types.InitialSequence", "0"),
  ("x/did/types.JSONWEBKEY_2020", "JsonWebKey2020"),
  ("x/did/types.MaxVerificationMethodIDLen", "128"),
  ("x/did/types.MemStoreKey", "mem_capability"),
  ("x/did/types.ModuleName", "did"),
  ("x/did/types.QuerierRoute", "did"),
  ("x/did/types.RSA_2018", "RsaVerificationKey2018"),
  ("x/did/types.RouterKey", "did"),
  ("x/did/types.SS256K_2019", "SchnorrSecp256k1VerificationKey2019"),
  ("x/did/types.StoreKey", "did"),
  ("x/did/types.X25519_2019", "X25519KeyAgreementKey2019"),
  ("x/pnft/types.ModuleName", "pnft"),
  ("x/pnft/types.QuerierRoute", "pnft"),
  ("x/pnft/types.RouterKey", "pnft"),
  ("x/pnft/types.StoreKey", "pnft")
]

/-- package-level variables of the custom packages: name, type, initializer -/
def pkgVars : List (String × String × String) := [
  ("x/aol/types.ErrInvalidMoniker", "*errors.Error", "errors.Register(ModuleName, 4, \"invalid moniker\")"),
  ("x/aol/types.ErrInvalidTopic", "*errors.Error", "errors.Register(ModuleName, 3, \"invalid topic\")"),
  ("x/aol/types.ErrMessageTooLarge", "*errors.Error", "errors.Register(ModuleName, 2, \"message too large\")"),
  ("x/aol/types.ErrTopicExists", "*errors.Error", "errors.Register(ModuleName, 5, \"topic already exists\")"),
  ("x/aol/types.ErrTopicNotFound", "*errors.Error", "errors.Register(ModuleName, 7, \"topic not found\")"),
  ("x/aol/types.ErrWriterExists", "*errors.Error", "errors.Register(ModuleName, 6, \"writer already exists\")"),
  ("x/aol/types.ErrWriterNotAuthorized", "*errors.Error", "errors.Register(ModuleName, 9, \"writer not authorized\")"),
  ("x/aol/types.ErrWriterNotFound", "*errors.Error", "errors.Register(ModuleName, 8, \"writer not found\")"),
  ("x/aol/types.ModuleCdc", "*codec.AminoCodec", "codec.NewAminoCodec(amino)"),
  ("x/aol/types.OwnerKeyPrefix", "[]byte", "[]byte{0x00}"),
  ("x/aol/types.RecordKeyPrefix", "[]byte", "[]byte{0x03}"),
  ("x/aol/types.TopicKeyPrefix", "[]byte", "[]byte{0x01}"),
  ("x/aol/types.WriterKeyPrefix", "[]byte", "[]byte{0x02}"),
  ("x/aol/types.amino", "*codec.LegacyAmino", "codec.NewLegacyAmino()"),
  ("x/burn/types.ModuleCdc", "*codec.AminoCodec", "codec.NewAminoCodec(amino)"),
  ("x/burn/types.amino", "*codec.LegacyAmino", "codec.NewLegacyAmino()"),
  ("x/did/client/crypto.pbkdf2PRF", "func() hash.Hash", "sha256.New"),
  ("x/did/types.CodeInvalidKeyController", "*errors.Error", "errors.Register(ModuleName, 14, \"Invalid key controller\")"),
  ("x/did/types.DIDKeyPrefix", "[]byte", "[]byte{0x00}"),
  ("x/did/types.ErrDIDDeactivated", "*errors.Error", "errors.Register(ModuleName, 13, \"DID was already deactivated\")"),
  ("x/did/types.ErrDIDExists", "*errors.Error", "errors.Register(ModuleName, 2, \"DID already exists\")"),
  ("x/did/types.ErrDIDNotFound", "*errors.Error", "errors.Register(ModuleName, 5, \"DID not found\")"),
  ("x/did/types.ErrInvalidDID", "*errors.Error", "errors.Register(ModuleName, 3, \"Invalid DID\")"),
  ("x/did/types.ErrInvalidDIDDocument", "*errors.Error", "errors.Register(ModuleName, 4, \"Invalid DID Document\")"),
  ("x/did/types.ErrInvalidDIDDocumentWithSeq", "*errors.Error", "errors.Register(ModuleName, 12, \"Invalid DIDDocumentWithSeq\")"),
  ("x/did/types.ErrInvalidNetworkID", "*errors.Error", "errors.Register(ModuleName, 11, \"Invalid network ID\")"),
  ("x/did/types.ErrInvalidSecp256k1PublicKey", "*errors.Error", "errors.Register(ModuleName, 10, \"Invalid Secp256k1 public key\")"),
  ("x/did/types.ErrInvalidSignature", "*errors.Error", "errors.Register(ModuleName, 6, \"Invalid signature\")"),
  ("x/did/types.ErrInvalidVerificationMethodID", "*errors.Error", "errors.Register(ModuleName, 7, \"Invalid VerificationMethodID\")"),
  ("x/did/types.ErrSigVerificationFailed", "*errors.Error", "errors.Register(ModuleName, 9, \"DID signature verification was failed\")"),
  ("x/did/types.ErrVerificationMethodIDNotFound", "*errors.Error", "errors.Register(ModuleName, 8, \"VerificationMethodID not found\")"),
  ("x/did/types.ErrVerificationMethodKeyTypeNotImplemented", "*errors.Error", "errors.Register(ModuleName, 15, \"Verification not implemented with key type\")"),
  ("x/did/types.ModuleCdc", "*codec.AminoCodec", "codec.NewAminoCodec(amino)"),
  ("x/did/types.amino", "*codec.LegacyAmino", "codec.NewLegacyAmino()"),
  ("x/pnft/types.ErrBurnPNFT", "*errors.Error", "errors.Register(ModuleName, 8, \"failed to burn pnft\")"),
  ("x/pnft/types.ErrCreateDenom", "*errors.Error", "errors.Register(ModuleName, 1, \"failed to create denom\")"),
  ("x/pnft/types.ErrDeleteDenom", "*errors.Error", "errors.Register(ModuleName, 3, \"failed to delete denom\")"),
  ("x/pnft/types.ErrGetDenom", "*errors.Error", "errors.Register(ModuleName, 5, \"failed to get denom\")"),
  ("x/pnft/types.ErrGetPNFT", "*errors.Error", "errors.Register(ModuleName, 9, \"failed to get pnft\")"),
  ("x/pnft/types.ErrMintPNFT", "*errors.Error", "errors.Register(ModuleName, 6, \"failed to mint pnft\")"),
  ("x/pnft/types.ErrTransferDenom", "*errors.Error", "errors.Register(ModuleName, 4, \"failed to transfer denom\")"),
  ("x/pnft/types.ErrTransferPNFT", "*errors.Error", "errors.Register(ModuleName, 7, \"failed to transfer pnft\")"),
  ("x/pnft/types.ErrUpdateDenom", "*errors.Error", "errors.Register(ModuleName, 2, \"failed to update denom\")"),
  ("x/pnft/types.ModuleCdc", "*codec.AminoCodec", "codec.NewAminoCodec(amino)"),
  ("x/pnft/types.amino", "*codec.LegacyAmino", "codec.NewLegacyAmino()")
]

/-- app.Upgrades in order: name, StoreUpgrades.Added, StoreUpgrades.Deleted -/
def upgrades : List (String × List String × List String) := [
  ("v2.0.5", ["authz", "feegrant"], ["token"]),
  ("v2.0.6", [], ["wasm"]),
  ("v2.0.7", [], []),
  ("v2.2.0", ["consensus", "crisis", "group", "pnft"], []),
  ("v2.2.1", [], [])
]

/-- method calls on keepers, params subspaces or the module manager inside an upgrade handler's closure that are given no block context (upgrade package, call): in-memory effects of running the handler -/
def handlerMemoryCalls : List (String × String) := []

/-- arguments of sdk.NewKVStoreKeys in app/keepers/keys.go -/
def mountedStores : List String := ["acc", "bank", "staking", "crisis", "mint", "distribution", "slashing", "gov", "params", "consensus", "upgrade", "feegrant", "evidence", "capability", "authz", "group", "ibc", "transfer", "aol", "did", "burn", "pnft"]

/-- app.maccPerms -/
def maccPerms : List (String × List String) := [
  ("bonded_tokens_pool", ["burner", "staking"]),
  ("burn", ["burner"]),
  ("distribution", []),
  ("fee_collector", []),
  ("gov", ["burner"]),
  ("mint", ["minter"]),
  ("nft", []),
  ("not_bonded_tokens_pool", ["burner", "staking"]),
  ("transfer", ["minter", "burner"])
]

def beginBlockers : List String := ["upgrade", "capability", "mint", "distribution", "slashing", "evidence", "staking", "auth", "bank", "gov", "crisis", "genutil", "authz", "feegrant", "group", "params", "vesting", "consensus", "ibc", "transfer", "aol", "did", "burn", "pnft"]

def endBlockers : List String := ["crisis", "gov", "staking", "capability", "auth", "bank", "distribution", "slashing", "mint", "genutil", "evidence", "authz", "feegrant", "group", "params", "upgrade", "vesting", "consensus", "ibc", "transfer", "aol", "did", "burn", "pnft"]

def genesisOrder : List String := ["capability", "auth", "bank", "distribution", "staking", "slashing", "gov", "mint", "crisis", "genutil", "evidence", "authz", "feegrant", "group", "params", "upgrade", "vesting", "consensus", "ibc", "transfer", "aol", "did", "burn", "pnft"]

/-- ConsensusVersion() of the custom modules -/
def consensusVersions : List (String × String) := [("x/aol", "1"), ("x/burn", "1"), ("x/did", "1"), ("x/pnft", "1")]

/-- every use of a non-deterministic primitive in the non-client custom packages: function, kind, detail -/
def nondet : List (String × String × String) := [
  ("x/aol.InitGenesis", "range-over-map", "genState.Owners"),
  ("x/aol.InitGenesis", "range-over-map", "genState.Records"),
  ("x/aol.InitGenesis", "range-over-map", "genState.Topics"),
  ("x/aol.InitGenesis", "range-over-map", "genState.Writers"),
  ("x/aol/types.GenesisState.Validate", "range-over-map", "gs.Owners"),
  ("x/aol/types.GenesisState.Validate", "range-over-map", "gs.Owners"),
  ("x/aol/types.GenesisState.Validate", "range-over-map", "gs.Records"),
  ("x/aol/types.GenesisState.Validate", "range-over-map", "gs.Topics"),
  ("x/aol/types.GenesisState.Validate", "range-over-map", "gs.Topics"),
  ("x/aol/types.GenesisState.Validate", "range-over-map", "gs.Writers"),
  ("x/aol/types.GenesisState.Validate", "range-over-map", "topicsOfOwner"),
  ("x/aol/types.GenesisState.Validate", "range-over-map", "writersOfTopic"),
  ("x/did.InitGenesis", "range-over-map", "data.Documents"),
  ("x/did/types.GenesisState.Validate", "range-over-map", "data.Documents")
]

/-- mutex operations of the KeyStore methods, flattened through intra-type calls (deferred unlocks last) -/
def lockOps : List (String × List String) := [("Save", ["Lock", "Unlock"]), ("Load", ["RLock", "RUnlock"]), ("LoadByAddress", ["RLock", "RUnlock", "RLock", "RUnlock"])]

/-- per exported KeyStore method: the mutex operations on every control path (early returns, branches, loops 0/1 times, intra-type calls expanded), deferred unlocks last -/
def lockPaths : List (String × List (List String)) := [
  ("Load", [["RLock", "RUnlock"]]), 
  ("LoadByAddress", [["RLock", "RUnlock"], ["RLock", "RUnlock", "RLock", "RUnlock"]]), 
  ("Save", [[], ["Lock", "Unlock"]])]

/-- skeletons of the `init` functions per package (empty list: the package has none) -/
def initFuncs : List (String × List String) := [("x/aol/types", ["call RegisterCodec(amino)", "call amino.Seal()", "call RegisterCodec(authzcodec.Amino)"]), ("x/did/types", ["call RegisterCodec(authzcodec.Amino)"])]

/-- which of Route / Type / GetSignBytes / GetSigners / ValidateBasic each message type implements -/
def msgMethods : List (String × List String) := [
  ("x/aol/types.MsgAddRecordRequest", ["GetSignBytes", "GetSigners", "Route", "Type", "ValidateBasic"]),
  ("x/aol/types.MsgAddWriterRequest", ["GetSignBytes", "GetSigners", "Route", "Type", "ValidateBasic"]),
  ("x/aol/types.MsgCreateTopicRequest", ["GetSignBytes", "GetSigners", "Route", "Type", "ValidateBasic"]),
  ("x/aol/types.MsgDeleteWriterRequest", ["GetSignBytes", "GetSigners", "Route", "Type", "ValidateBasic"]),
  ("x/did/types.MsgCreateDIDRequest", ["GetSignBytes", "GetSigners", "Route", "Type", "ValidateBasic"]),
  ("x/did/types.MsgDeactivateDIDRequest", ["GetSignBytes", "GetSigners", "Route", "Type", "ValidateBasic"]),
  ("x/did/types.MsgUpdateDIDRequest", ["GetSignBytes", "GetSigners", "Route", "Type", "ValidateBasic"]),
  ("x/pnft/types.MsgBurnPNFTRequest", ["GetSignBytes", "GetSigners", "ValidateBasic"]),
  ("x/pnft/types.MsgCreateDenomRequest", ["GetSignBytes", "GetSigners", "ValidateBasic"]),
  ("x/pnft/types.MsgDeleteDenomRequest", ["GetSignBytes", "GetSigners", "ValidateBasic"]),
  ("x/pnft/types.MsgMintPNFTRequest", ["GetSignBytes", "GetSigners", "ValidateBasic"]),
  ("x/pnft/types.MsgTransferDenomRequest", ["GetSignBytes", "GetSigners", "ValidateBasic"]),
  ("x/pnft/types.MsgTransferPNFTRequest", ["GetSignBytes", "GetSigners", "ValidateBasic"]),
  ("x/pnft/types.MsgUpdateDenomRequest", ["GetSignBytes", "GetSigners", "ValidateBasic"])
]

/-- constants the validators use -/
def validationConsts : List (String × String) := [("x/aol/types.maxDescriptionLength", "5000"), ("x/aol/types.maxMonikerLength", "70"), ("x/aol/types.maxRecordKeyLength", "70"), ("x/aol/types.maxRecordValueLength", "5000"), ("x/aol/types.maxTopicLength", "70"), ("x/did/types.BLS1281G1_2020", "Bls12381G1Key2020"), ("x/did/types.BLS1281G2_2020", "Bls12381G2Key2020"), ("x/did/types.Base58Charset", "123456789ABCDEFGHJKLMNPQRSTUVWXYZabcdefghijkmnopqrstuvwxyz"), ("x/did/types.ContextDIDV1", "https://www.w3.org/ns/did/v1"), ("x/did/types.DIDMethod", "panacea"), ("x/did/types.DefaultIndex", "1"), ("x/did/types.ED25519_2018", "Ed25519VerificationKey2018"), ("x/did/types.ES256K_2018", "Secp256k1VerificationKey2018"), ("x/did/types.ES256K_2019", "EcdsaSecp256k1VerificationKey2019"), ("x/did/types.ES256K_R_2020", "EcdsaSecp256k1RecoveryMethod2020"), ("x/did/types.GPG_2020", "GpgVerificationKey2020"), ("x/did/types.InitialSequence", "0"), ("x/did/types.JSONWEBKEY_2020", "JsonWebKey2020"), ("x/did/types.MaxVerificationMethodIDLen", "128"), ("x/did/types.MemStoreKey", "mem_capability"), ("x/did/types.ModuleName", "did"), ("x/did/types.QuerierRoute", "did"), ("x/did/types.RSA_2018", "RsaVerificationKey2018"), ("x/did/types.RouterKey", "did"), ("x/did/types.SS256K_2019", "SchnorrSecp256k1VerificationKey2019"), ("x/did/types.StoreKey", "did"), ("x/did/types.X25519_2019", "X25519KeyAgreementKey2019")]

/-- constants of the composite-key encoding -/
def compkeyConsts : List (String × String) := [("types/compkey.maxUint8", "255"), ("types/compkey.sizeUint8", "1"), ("x/aol/types.GenesisKeySeparator", "/")]

/-- constants of the key store -/
def keystoreConsts : List (String × String) := [("x/did/client/crypto.cipherAlgorithm", "aes-128-ctr"), ("x/did/client/crypto.cipherKeySize", "16"), ("x/did/client/crypto.defaultAccountForHD", "0"), ("x/did/client/crypto.defaultIndexForHD", "0"), ("x/did/client/crypto.kdf", "pbkdf2"), ("x/did/client/crypto.macKeyOffset", "16"), ("x/did/client/crypto.macKeySize", "16"), ("x/did/client/crypto.maxPBKDF2C", "10000000"), ("x/did/client/crypto.maxPBKDF2DKLen", "1024"), ("x/did/client/crypto.mnemonicEntropySize", "256"), ("x/did/client/crypto.pbkdf2C", "262144"), ("x/did/client/crypto.pbkdf2DKLen", "32"), ("x/did/client/crypto.pbkdf2PRFStr", "hmac-sha256"), ("x/did/client/crypto.saltBytes", "32"), ("x/did/client/crypto.version", "3")]

/-- the module-local amino codecs -/
def aminoVars : List (String × String × String) := [("x/aol/types.ModuleCdc", "*codec.AminoCodec", "codec.NewAminoCodec(amino)"), ("x/aol/types.amino", "*codec.LegacyAmino", "codec.NewLegacyAmino()"), ("x/burn/types.ModuleCdc", "*codec.AminoCodec", "codec.NewAminoCodec(amino)"), ("x/burn/types.amino", "*codec.LegacyAmino", "codec.NewLegacyAmino()"), ("x/did/types.ModuleCdc", "*codec.AminoCodec", "codec.NewAminoCodec(amino)"), ("x/did/types.amino", "*codec.LegacyAmino", "codec.NewLegacyAmino()"), ("x/pnft/types.ModuleCdc", "*codec.AminoCodec", "codec.NewAminoCodec(amino)"), ("x/pnft/types.amino", "*codec.LegacyAmino", "codec.NewLegacyAmino()")]

end Panacea.Expected
