/-! EXPECTED values: a reviewed snapshot of what /verif/extract produced (bin/accept_expected). -/
namespace Panacea.Expected

/-- package-level constants of the custom packages: name ↦ value -/
def consts : List (String × String) := [
  ("types/compkey.maxUint8", "255"),
  ("types/compkey.sizeUint8", "1"),
  ("x/aol/types.DefaultIndex", "1"),
  ("x/aol/types.GenesisKeySeparator", "/"),
  ("x/aol/types.MemStoreKey", "mem_capability"),
  ("x/aol/types.ModuleName", "aol"),
  ("x/aol/types.QuerierRoute", "aol"),
  ("x/aol/types.RouterKey", "aol"),
  ("x/aol/types.StoreKey", "aol"),
  ("x/aol/types.maxDescriptionLength", "5000"),
  ("x/aol/types.maxMonikerLength", "70"),
  ("x/aol/types.maxRecordKeyLength", "70"),
  ("x/aol/types.maxRecordValueLength", "5000"),
  ("x/aol/types.maxTopicLength", "70"),
  ("x/burn/types.BurnAddress", "panacea100000000000000000000000000000000nqmafp"),
  ("x/burn/types.DefaultIndex", "1"),
  ("x/burn/types.MemStoreKey", "mem_capability"),
  ("x/burn/types.ModuleName", "burn"),
  ("x/burn/types.QuerierRoute", "burn"),
  ("x/burn/types.RouterKey", "burn"),
  ("x/burn/types.StoreKey", "burn"),
  ("x/did/client/crypto.cipherAlgorithm", "aes-128-ctr"),
  ("x/did/client/crypto.cipherKeySize", "16"),
  ("x/did/client/crypto.defaultAccountForHD", "0"),
  ("x/did/client/crypto.defaultIndexForHD", "0"),
  ("x/did/client/crypto.kdf", "pbkdf2"),
  ("x/did/client/crypto.macKeyOffset", "16"),
  ("x/did/client/crypto.macKeySize", "16"),
  ("x/did/client/crypto.maxPBKDF2C", "10000000"),
  ("x/did/client/crypto.maxPBKDF2DKLen", "1024"),
  ("x/did/client/crypto.mnemonicEntropySize", "256"),
  ("x/did/client/crypto.pbkdf2C", "262144"),
  ("x/did/client/crypto.pbkdf2DKLen", "32"),
  ("x/did/client/crypto.pbkdf2PRFStr", "hmac-sha256"),
  ("x/did/client/crypto.saltBytes", "32"),
  ("x/did/client/crypto.version", "3"),
  ("x/did/types.BLS1281G1_2020", "Bls12381G1Key2020"),
  ("x/did/types.BLS1281G2_2020", "Bls12381G2Key2020"),
  ("x/did/types.Base58Charset", "123456789ABCDEFGHJKLMNPQRSTUVWXYZabcdefghijkmnopqrstuvwxyz"),
  ("x/did/types.ContextDIDV1", "https://www.w3.org/ns/did/v1"),
  ("x/did/types.DIDMethod", "panacea"),
  ("x/did/types.DefaultIndex", "1"),
  ("x/did/types.ED25519_2018", "Ed25519VerificationKey2018"),
  ("x/did/types.ES256K_2018", "Secp256k1VerificationKey2018"),
  ("x/did/types.ES256K_2019", "EcdsaSecp256k1VerificationKey2019"),
  ("x/did/types.ES256K_R_2020", "EcdsaSecp256k1RecoveryMethod2020"),
  ("x/did/types.GPG_2020", "GpgVerificationKey2020"),
  ("x/did/types.InitialSequence", "0"),
  ("x/did/types.JSONWEBKEY_2020", "JsonWebKey2020"),
  ("x/did/types.MaxVerificationMethodIDLen", "128"),
  ("x/did/types.MemStoreKey", "mem_capability"),
  ("x/did/types.ModuleName", "did"),
  ("x/did/types.QuerierRoute", "did"),
  ("x/did/types.RSA_2018", "RsaVerificationKey2018"),
  ("x/did/types.RouterKey", "did"),
  ("x/did/types.SS256K_2019", "SchnorrSecp256k1VerificationKey2019"),
  ("x/did/types.StoreKey", "did"),
  ("x/did/types.X25519_2019", "X25519KeyAgreementKey2019"),
  ("x/pnft/types.ModuleName", "pnft"),
  ("x/pnft/types.QuerierRoute", "pnft"),
  ("x/pnft/types.RouterKey", "pnft"),
  ("x/pnft/types.StoreKey", "pnft")
]

/-- package-level variables of the custom packages: name, type, initializer -/
def pkgVars : List (String × String × String) := [
  ("x/aol/types.ErrInvalidMoniker", "*errors.Error", "errors.Register(ModuleName, 4, \"invalid moniker\")"),
  ("x/aol/types.ErrInvalidTopic", "*errors.Error", "errors.Register(ModuleName, 3, \"invalid topic\")"),
  ("x/aol/types.ErrMessageTooLarge", "*errors.Error", "errors.Register(ModuleName, 2, \"message too large\")"),
  ("x/aol/types.ErrTopicExists", "*errors.Error", "errors.Register(ModuleName, 5, \"topic already exists\")"),
  ("x/aol/types.ErrTopicNotFound", "*errors.Error", "errors.Register(ModuleName, 7, \"topic not found\")"),
  ("x/aol/types.ErrWriterExists", "*errors.Error", "errors.Register(ModuleName, 6, \"writer already exists\")"),
  ("x/aol/types.ErrWriterNotAuthorized", "*errors.Error", "errors.Register(ModuleName, 9, \"writer not authorized\")"),
  ("x/aol/types.ErrWriterNotFound", "*errors.Error", "errors.Register(ModuleName, 8, \"writer not found\")"),
  ("x/aol/types.ModuleCdc", "*codec.AminoCodec", "codec.NewAminoCodec(amino)"),
  ("x/aol/types.OwnerKeyPrefix", "[]byte", "[]byte{0x00}"),
  ("x/aol/types.RecordKeyPrefix", "[]byte", "[]byte{0x03}"),
  ("x/aol/types.TopicKeyPrefix", "[]byte", "[]byte{0x01}"),
  ("x/aol/types.WriterKeyPrefix", "[]byte", "[]byte{0x02}"),
  ("x/aol/types.amino", "*codec.LegacyAmino", "codec.NewLegacyAmino()"),
  ("x/burn/types.ModuleCdc", "*codec.AminoCodec", "codec.NewAminoCodec(amino)"),
  ("x/burn/types.amino", "*codec.LegacyAmino", "codec.NewLegacyAmino()"),
  ("x/did/client/crypto.pbkdf2PRF", "func() hash.Hash", "sha256.New"),
  ("x/did/types.CodeInvalidKeyController", "*errors.Error", "errors.Register(ModuleName, 14, \"Invalid key controller\")"),
  ("x/did/types.DIDKeyPrefix", "[]byte", "[]byte{0x00}"),
  ("x/did/types.ErrDIDDeactivated", "*errors.Error", "errors.Register(ModuleName, 13, \"DID was already deactivated\")"),
  ("x/did/types.ErrDIDExists", "*errors.Error", "errors.Register(ModuleName, 2, \"DID already exists\")"),
  ("x/did/types.ErrDIDNotFound", "*errors.Error", "errors.Register(ModuleName, 5, \"DID not found\")"),
  ("x/did/types.ErrInvalidDID", "*errors.Error", "errors.Register(ModuleName, 3, \"Invalid DID\")"),
  ("x/did/types.ErrInvalidDIDDocument", "*errors.Error", "errors.Register(ModuleName, 4, \"Invalid DID Document\")"),
  ("x/did/types.ErrInvalidDIDDocumentWithSeq", "*errors.Error", "errors.Register(ModuleName, 12, \"Invalid DIDDocumentWithSeq\")"),
  ("x/did/types.ErrInvalidNetworkID", "*errors.Error", "errors.Register(ModuleName, 11, \"Invalid network ID\")"),
  ("x/did/types.ErrInvalidSecp256k1PublicKey", "*errors.Error", "errors.Register(ModuleName, 10, \"Invalid Secp256k1 public key\")"),
  ("x/did/types.ErrInvalidSignature", "*errors.Error", "errors.Register(ModuleName, 6, \"Invalid signature\")"),
  ("x/did/types.ErrInvalidVerificationMethodID", "*errors.Error", "errors.Register(ModuleName, 7, \"Invalid VerificationMethodID\")"),
  ("x/did/types.ErrSigVerificationFailed", "*errors.Error", "errors.Register(ModuleName, 9, \"DID signature verification was failed\")"),
  ("x/did/types.ErrVerificationMethodIDNotFound", "*errors.Error", "errors.Register(ModuleName, 8, \"VerificationMethodID not found\")"),
  ("x/did/types.ErrVerificationMethodKeyTypeNotImplemented", "*errors.Error", "errors.Register(ModuleName, 15, \"Verification not implemented with key type\")"),
  ("x/did/types.ModuleCdc", "*codec.AminoCodec", "codec.NewAminoCodec(amino)"),
  ("x/did/types.amino", "*codec.LegacyAmino", "codec.NewLegacyAmino()"),
  ("x/pnft/types.ErrBurnPNFT", "*errors.Error", "errors.Register(ModuleName, 8, \"failed to burn pnft\")"),
  ("x/pnft/types.ErrCreateDenom", "*errors.Error", "errors.Register(ModuleName, 1, \"failed to create denom\")"),
  ("x/pnft/types.ErrDeleteDenom", "*errors.Error", "errors.Register(ModuleName, 3, \"failed to delete denom\")"),
  ("x/pnft/types.ErrGetDenom", "*errors.Error", "errors.Register(ModuleName, 5, \"failed to get denom\")"),
  ("x/pnft/types.ErrGetPNFT", "*errors.Error", "errors.Register(ModuleName, 9, \"failed to get pnft\")"),
  ("x/pnft/types.ErrMintPNFT", "*errors.Error", "errors.Register(ModuleName, 6, \"failed to mint pnft\")"),
  ("x/pnft/types.ErrTransferDenom", "*errors.Error", "errors.Register(ModuleName, 4, \"failed to transfer denom\")"),
  ("x/pnft/types.ErrTransferPNFT", "*errors.Error", "errors.Register(ModuleName, 7, \"failed to transfer pnft\")"),
  ("x/pnft/types.ErrUpdateDenom", "*errors.Error", "errors.Register(ModuleName, 2, \"failed to update denom\")"),
  ("x/pnft/types.ModuleCdc", "*codec.AminoCodec", "codec.NewAminoCodec(amino)"),
  ("x/pnft/types.amino", "*codec.LegacyAmino", "codec.NewLegacyAmino()")
]

/-- app.Upgrades in order: name, StoreUpgrades.Added, StoreUpgrades.Deleted -/
def upgrades : List (String × List String × List String) := [
  ("v2.0.5", ["authz", "feegrant"], ["token"]),
  ("v2.0.6", [], ["wasm"]),
  ("v2.0.7", [], []),
  ("v2.2.0", ["consensus", "crisis", "group", "pnft"], []),
  ("v2.2.1", [], [])
]

/-- method calls on keepers, params subspaces or the module manager inside an upgrade handler's closure that are given no block context (upgrade package, call): in-memory effects of running the handler -/
def handlerMemoryCalls : List (String × String) := []

/-- every function of the packages app, app/keepers and app/upgrades/*: name, skeleton (statements and calls in source order) -/
def appWiring : List (String × List String) := [
  ("app.App.AppCodec", ["return _"]),
  ("app.App.BeginBlocker", ["return _", "call _.BeginBlock(ctx, req)"]),
  ("app.App.Configurator", ["return _"]),
  ("app.App.DefaultGenesis", ["return _", "call ModuleBasics.DefaultGenesis(a.appCodec)"]),
  ("app.App.EndBlocker", ["return _", "call _.EndBlock(ctx, req)"]),
  ("app.App.ExportAppStateAndValidators", ["assign ctx := _", "call app.NewContext(true, _)", "kv Height=app.LastBlockHeight()", "call app.LastBlockHeight()", "assign height := app.LastBlockHeight() + 1", "op +", "call app.LastBlockHeight()", "lit 1", "if forZeroHeight", "assign height = 0", "lit 0", "call app.prepForZeroHeightGenesis(ctx, jailAllowedAddrs)", "assign genState := app.ModuleManager.ExportGenesis(ctx, app.appCodec)", "call _.ExportGenesis(ctx, app.appCodec)", "assign appState,err := json.MarshalIndent(genState, \"\", \" \")", "call json.MarshalIndent(genState, \"\", \" \")", "lit \"\"", "lit \"  \"", "if err != nil", "return _,err", "assign validators,err := staking.WriteValidators(ctx, app.StakingKeeper)", "call staking.WriteValidators(ctx, app.StakingKeeper)", "return _,err", "kv AppState=appState", "kv Validators=validators", "kv Height=height", "kv ConsensusParams=app.BaseApp.GetConsensusParams(ctx)", "call _.GetConsensusParams(ctx)"]),
  ("app.App.InitChainer", ["if err != nil", "assign err := json.Unmarshal(req.AppStateBytes, &genesisState)", "call json.Unmarshal(req.AppStateBytes, &genesisState)", "call panic(err)", "call _.SetModuleVersionMap(ctx, app.ModuleManager.GetVersionMap())", "call _.GetVersionMap()", "return _", "call _.InitGenesis(ctx, app.appCodec, genesisState)"]),
  ("app.App.InterfaceRegistry", ["return _"]),
  ("app.App.LegacyAmino", ["return _"]),
  ("app.App.LoadHeight", ["return _", "call app.LoadVersion(height)"]),
  ("app.App.Name", ["return _", "call _.Name()"]),
  ("app.App.RegisterAPIRoutes", ["assign clientCtx := apiSvr.ClientCtx", "call authtx.RegisterGRPCGatewayRoutes(clientCtx, apiSvr.GRPCGatewayRouter)", "call tmservice.RegisterGRPCGatewayRoutes(clientCtx, apiSvr.GRPCGatewayRouter)", "call nodeservice.RegisterGRPCGatewayRoutes(clientCtx, apiSvr.GRPCGatewayRouter)", "call ModuleBasics.RegisterGRPCGatewayRoutes(clientCtx, apiSvr.GRPCGatewayRouter)", "if err != nil", "assign err := server.RegisterSwaggerAPI(apiSvr.ClientCtx, apiSvr.Router, apiConfig.Swagger)", "call server.RegisterSwaggerAPI(apiSvr.ClientCtx, apiSvr.Router, apiConfig.Swagger)", "call panic(err)"]),
  ("app.App.RegisterNodeService", ["call nodeservice.RegisterNodeService(clientCtx, app.GRPCQueryRouter())", "call app.GRPCQueryRouter()"]),
  ("app.App.RegisterTendermintService", ["call tmservice.RegisterTendermintService(clientCtx, app.BaseApp.GRPCQueryRouter(), app.interfaceRegistry, app.Query)", "call _.GRPCQueryRouter()"]),
  ("app.App.RegisterTxService", ["call authtx.RegisterTxService(app.BaseApp.GRPCQueryRouter(), clientCtx, app.BaseApp.Simulate, app.interfaceRegistry)", "call _.GRPCQueryRouter()"]),
  ("app.App.SimulationManager", ["return _"]),
  ("app.App.TxConfig", ["return _"]),
  ("app.App.prepForZeroHeightGenesis", ["assign applyAllowedAddrs := false", "if len(jailAllowedAddrs) > 0", "call len(jailAllowedAddrs)", "lit 0", "assign applyAllowedAddrs = true", "assign allowedAddrsMap := make(map[string]bool)", "call make(map[string]bool)", "range jailAllowedAddrs", "assign _,err := sdk.ValAddressFromBech32(addr)", "call sdk.ValAddressFromBech32(addr)", "if err != nil", "call log.Fatal(err)", "assign allowedAddrsMap[addr] = true", "call _.AssertInvariants(ctx)", "call _.IterateValidators(ctx, _)", "assign _,_ = app.DistrKeeper.WithdrawValidatorCommission(ctx, val.GetOperator())", "call _.WithdrawValidatorCommission(ctx, val.GetOperator())", "call val.GetOperator()", "return false", "assign dels := app.StakingKeeper.GetAllDelegations(ctx)", "call _.GetAllDelegations(ctx)", "range dels", "assign valAddr,err := sdk.ValAddressFromBech32(delegation.ValidatorAddress)", "call sdk.ValAddressFromBech32(delegation.ValidatorAddress)", "if err != nil", "call panic(err)", "assign delAddr := sdk.MustAccAddressFromBech32(delegation.DelegatorAddress)", "call sdk.MustAccAddressFromBech32(delegation.DelegatorAddress)", "assign _,_ = app.DistrKeeper.WithdrawDelegationRewards(ctx, delAddr, valAddr)", "call _.WithdrawDelegationRewards(ctx, delAddr, valAddr)", "call _.DeleteAllValidatorSlashEvents(ctx)", "call _.DeleteAllValidatorHistoricalRewards(ctx)", "assign height := ctx.BlockHeight()", "call ctx.BlockHeight()", "assign ctx = ctx.WithBlockHeight(0)", "call ctx.WithBlockHeight(0)", "lit 0", "call _.IterateValidators(ctx, _)", "assign scraps := app.DistrKeeper.GetValidatorOutstandingRewardsCoins(ctx, val.GetOperator())", "call _.GetValidatorOutstandingRewardsCoins(ctx, val.GetOperator())", "call val.GetOperator()", "assign feePool := app.DistrKeeper.GetFeePool(ctx)", "call _.GetFeePool(ctx)", "assign feePool.CommunityPool = feePool.CommunityPool.Add(scraps...)", "call _.Add(scraps)", "call _.SetFeePool(ctx, feePool)", "if err != nil", "assign err := app.DistrKeeper.Hooks().AfterValidatorCreated(ctx, val.GetOperator())", "call _.AfterValidatorCreated(ctx, val.GetOperator())", "call _.Hooks()", "call val.GetOperator()", "call panic(err)", "return false", "range dels", "assign valAddr,err := sdk.ValAddressFromBech32(del.ValidatorAddress)", "call sdk.ValAddressFromBech32(del.ValidatorAddress)", "if err != nil", "call panic(err)", "assign delAddr := sdk.MustAccAddressFromBech32(del.DelegatorAddress)", "call sdk.MustAccAddressFromBech32(del.DelegatorAddress)", "if err != nil", "assign err := app.DistrKeeper.Hooks().BeforeDelegationCreated(ctx, delAddr, valAddr)", "call _.BeforeDelegationCreated(ctx, delAddr, valAddr)", "call _.Hooks()", "call panic(fmt.Errorf(\"error while incrementing period: %w\", err))", "call fmt.Errorf(_, err)", "if err != nil", "assign err := app.DistrKeeper.Hooks().AfterDelegationModified(ctx, delAddr, valAddr)", "call _.AfterDelegationModified(ctx, delAddr, valAddr)", "call _.Hooks()", "call panic(_)", "call fmt.Errorf(_, err)", "assign ctx = ctx.WithBlockHeight(height)", "call ctx.WithBlockHeight(height)", "call _.IterateRedelegations(ctx, _)", "range red.Entries", "assign red.Entries[i].CreationHeight = 0", "lit 0", "call _.SetRedelegation(ctx, red)", "return false", "call _.IterateUnbondingDelegations(ctx, _)", "range ubd.Entries", "assign ubd.Entries[i].CreationHeight = 0", "lit 0", "call _.SetUnbondingDelegation(ctx, ubd)", "return false", "assign store := ctx.KVStore(app.GetKey(stakingtypes.StoreKey))", "call ctx.KVStore(app.GetKey(stakingtypes.StoreKey))", "call app.GetKey(stakingtypes.StoreKey)", "assign iter := sdk.KVStoreReversePrefixIterator(store, stakingtypes.ValidatorsKey)", "call sdk.KVStoreReversePrefixIterator(store, stakingtypes.ValidatorsKey)", "assign counter := int16(0)", "call int16(0)", "lit 0", "for iter.Valid()", "call iter.Valid()", "call iter.Next()", "assign addr := sdk.ValAddress(stakingtypes.AddressFromValidatorsKey(iter.Key()))", "call sdk.ValAddress(stakingtypes.AddressFromValidatorsKey(iter.Key()))", "call stakingtypes.AddressFromValidatorsKey(iter.Key())", "call iter.Key()", "assign validator,found := app.StakingKeeper.GetValidator(ctx, addr)", "call _.GetValidator(ctx, addr)", "if !found", "call panic(\"expected validator, not found\")", "lit \"expected validator, not found\"", "assign validator.UnbondingHeight = 0", "lit 0", "if applyAllowedAddrs && !allowedAddrsMap[addr.String()]", "call addr.String()", "assign validator.Jailed = true", "call _.SetValidator(ctx, validator)", "if err != nil", "assign err := iter.Close()", "call iter.Close()", "call _.Error(_, err)", "call app.Logger()", "return ", "if err != nil", "assign _,err := app.StakingKeeper.ApplyAndReturnValidatorSetUpdates(ctx)", "call _.ApplyAndReturnValidatorSetUpdates(ctx)", "call log.Fatal(err)", "call _.IterateValidatorSigningInfos(ctx, _)", "assign info.StartHeight = 0", "lit 0", "call _.SetValidatorSigningInfo(ctx, addr, info)", "return false"]),
  ("app.App.setAnteHandler", ["call app.SetAnteHandler(_)", "call sdktypes.ChainAnteDecorators(ante.NewSetUpContextDecorator(), ante.NewExtensionOptionsDecorator(nil), ante.NewValidateBasicDecorator(), ante.NewTxTimeoutHeightDecorator(), ante.NewValidateMemoDecorator(app.AccountKeeper), ante.NewConsumeGasForTxSizeDecorator(app.AccountKeeper), _, ante.NewSetPubKeyDecorator(app.AccountKeeper), ante.NewValidateSigCountDecorator(app.AccountKeeper), _, _, ante.NewIncrementSequenceDecorator(app.AccountKeeper), ibcante.NewRedundantRelayDecorator(app.IBCKeeper))", "call ante.NewSetUpContextDecorator()", "call ante.NewExtensionOptionsDecorator(nil)", "call ante.NewValidateBasicDecorator()", "call ante.NewTxTimeoutHeightDecorator()", "call ante.NewValidateMemoDecorator(app.AccountKeeper)", "call ante.NewConsumeGasForTxSizeDecorator(app.AccountKeeper)", "call ante.NewDeductFeeDecorator(app.AccountKeeper, app.BankKeeper, app.FeeGrantKeeper, nil)", "call ante.NewSetPubKeyDecorator(app.AccountKeeper)", "call ante.NewValidateSigCountDecorator(app.AccountKeeper)", "call ante.NewSigGasConsumeDecorator(app.AccountKeeper, ante.DefaultSigVerificationGasConsumer)", "call ante.NewSigVerificationDecorator(app.AccountKeeper, txConfig.SignModeHandler())", "call txConfig.SignModeHandler()", "call ante.NewIncrementSequenceDecorator(app.AccountKeeper)", "call ibcante.NewRedundantRelayDecorator(app.IBCKeeper)"]),
  ("app.App.setPostHandler", ["assign postHandler,err := _", "call posthandler.NewPostHandler(_)", "if err != nil", "call panic(err)", "call app.SetPostHandler(postHandler)"]),
  ("app.App.setupUpgradeHandlers", ["range Upgrades", "call _.SetUpgradeHandler(u.UpgradeName, _)", "call u.CreateUpgradeHandler(app.ModuleManager, app.configurator, &app.AppKeepersWithKey)"]),
  ("app.App.setupUpgradeStoreLoaders", ["assign upgradeInfo,err := app.UpgradeKeeper.ReadUpgradeInfoFromDisk()", "call _.ReadUpgradeInfoFromDisk()", "if err != nil", "call panic(fmt.Sprintf(\"failed to read upgrade info from disk %s\", err))", "call fmt.Sprintf(_, err)", "lit \"failed to read upgrade info from disk %s\"", "if app.UpgradeKeeper.IsSkipHeight(upgradeInfo.Height)", "call _.IsSkipHeight(upgradeInfo.Height)", "return ", "range Upgrades", "if upgradeInfo.Name == u.UpgradeName", "call app.SetStoreLoader(_)", "call upgradetypes.UpgradeStoreLoader(upgradeInfo.Height, &(u.StoreUpgrades))"]),
  ("app.BlockedAddresses", ["assign modAccAddrs := make(map[string]bool)", "call make(map[string]bool)", "range GetMaccPerms()", "call GetMaccPerms()", "assign modAccAddrs[authtypes.NewModuleAddress(acc).String()] = true", "call _.String()", "call authtypes.NewModuleAddress(acc)", "call delete(modAccAddrs, authtypes.NewModuleAddress(govtypes.ModuleName).String())", "call _.String()", "call authtypes.NewModuleAddress(govtypes.ModuleName)", "return modAccAddrs"]),
  ("app.GetMaccPerms", ["assign dupMaccPerms := make(map[string][]string)", "call make(map[string][]string)", "range maccPerms", "assign dupMaccPerms[k] = v", "return dupMaccPerms"]),
  ("app.MakeEncodingConfig", ["assign encodingConfig := params.MakeEncodingConfig()", "call params.MakeEncodingConfig()", "call std.RegisterLegacyAminoCodec(encodingConfig.Amino)", "call std.RegisterInterfaces(encodingConfig.InterfaceRegistry)", "call ModuleBasics.RegisterLegacyAminoCodec(encodingConfig.Amino)", "call ModuleBasics.RegisterInterfaces(encodingConfig.InterfaceRegistry)", "return encodingConfig"]),
  ("app.New", ["assign encodingConfig := makeEncodingConfig()", "call makeEncodingConfig()", "assign appCodec := encodingConfig.Codec", "assign legacyAmino := encodingConfig.Amino", "assign interfaceRegistry := encodingConfig.InterfaceRegistry", "assign txConfig := encodingConfig.TxConfig", "assign bApp := baseapp.NewBaseApp(Name, logger, db, txConfig.TxDecoder(), baseAppOptions...)", "call baseapp.NewBaseApp(Name, logger, db, txConfig.TxDecoder(), baseAppOptions)", "call txConfig.TxDecoder()", "call bApp.SetCommitMultiStoreTracer(traceStore)", "call bApp.SetVersion(version.Version)", "call bApp.SetInterfaceRegistry(interfaceRegistry)", "call bApp.SetTxEncoder(txConfig.TxEncoder())", "call txConfig.TxEncoder()", "assign app := _", "kv BaseApp=bApp", "kv AppKeepersWithKey", "kv legacyAmino=legacyAmino", "kv appCodec=appCodec", "kv txConfig=txConfig", "kv interfaceRegistry=interfaceRegistry", "call app.InitKeyAndKeepers(encodingConfig, maccPerms, BlockedAddresses(), appOpts, bApp)", "call BlockedAddresses()", "if err != nil", "assign _,_,err := streaming.LoadStreamingServices(bApp, appOpts, appCodec, logger, app.GetKVStoreKey())", "call streaming.LoadStreamingServices(bApp, appOpts, appCodec, logger, app.GetKVStoreKey())", "call app.GetKVStoreKey()", "call logger.Error(_, _, err)", "call os.Exit(1)", "lit 1", "call bApp.SetParamStore(&app.ConsensusParamsKeeper)", "call app.SetupHooks()", "call _.Seal()", "assign skipGenesisInvariants := cast.ToBool(appOpts.Get(crisis.FlagSkipGenesisInvariants))", "call cast.ToBool(appOpts.Get(crisis.FlagSkipGenesisInvariants))", "call appOpts.Get(crisis.FlagSkipGenesisInvariants)", "assign app.ModuleManager = _", "call module.NewManager(_, _, vesting.NewAppModule(app.AccountKeeper, app.BankKeeper), _, _, _, _, _, _, _, _, _, upgrade.NewAppModule(app.UpgradeKeeper), evidence.NewAppModule(app.EvidenceKeeper), params.NewAppModule(app.ParamsKeeper), _, _, consensus.NewAppModule(appCodec, app.ConsensusParamsKeeper), ibc.NewAppModule(app.IBCKeeper), transfer.NewAppModule(app.TransferKeeper), aol.NewAppModule(appCodec, app.AolKeeper), did.NewAppModule(appCodec, app.DidKeeper), burn.NewAppModule(appCodec, app.BurnKeeper), pnft.NewAppModule(appCodec, &app.PnftKeeper))", "call genutil.NewAppModule(app.AccountKeeper, app.StakingKeeper, app.BaseApp.DeliverTx, encodingConfig.TxConfig)", "call auth.NewAppModule(appCodec, app.AccountKeeper, authsims.RandomGenesisAccounts, app.GetSubspace(authtypes.ModuleName))", "call app.GetSubspace(authtypes.ModuleName)", "call vesting.NewAppModule(app.AccountKeeper, app.BankKeeper)", "call bank.NewAppModule(appCodec, app.BankKeeper, app.AccountKeeper, app.GetSubspace(banktypes.ModuleName))", "call app.GetSubspace(banktypes.ModuleName)", "call capability.NewAppModule(appCodec, *app.CapabilityKeeper, false)", "call crisis.NewAppModule(app.CrisisKeeper, skipGenesisInvariants, app.GetSubspace(crisistypes.ModuleName))", "call app.GetSubspace(crisistypes.ModuleName)", "call feegrantmodule.NewAppModule(appCodec, app.AccountKeeper, app.BankKeeper, app.FeeGrantKeeper, app.interfaceRegistry)", "call gov.NewAppModule(appCodec, &app.GovKeeper, app.AccountKeeper, app.BankKeeper, app.GetSubspace(govtypes.ModuleName))", "call app.GetSubspace(govtypes.ModuleName)", "call mint.NewAppModule(appCodec, app.MintKeeper, app.AccountKeeper, nil, app.GetSubspace(minttypes.ModuleName))", "call app.GetSubspace(minttypes.ModuleName)", "call slashing.NewAppModule(appCodec, app.SlashingKeeper, app.AccountKeeper, app.BankKeeper, app.StakingKeeper, app.GetSubspace(slashingtypes.ModuleName))", "call app.GetSubspace(slashingtypes.ModuleName)", "call distr.NewAppModule(appCodec, app.DistrKeeper, app.AccountKeeper, app.BankKeeper, app.StakingKeeper, app.GetSubspace(distrtypes.ModuleName))", "call app.GetSubspace(distrtypes.ModuleName)", "call staking.NewAppModule(appCodec, app.StakingKeeper, app.AccountKeeper, app.BankKeeper, app.GetSubspace(stakingtypes.ModuleName))", "call app.GetSubspace(stakingtypes.ModuleName)", "call upgrade.NewAppModule(app.UpgradeKeeper)", "call evidence.NewAppModule(app.EvidenceKeeper)", "call params.NewAppModule(app.ParamsKeeper)", "call authzmodule.NewAppModule(appCodec, app.AuthzKeeper, app.AccountKeeper, app.BankKeeper, app.interfaceRegistry)", "call groupmodule.NewAppModule(appCodec, app.GroupKeeper, app.AccountKeeper, app.BankKeeper, app.interfaceRegistry)", "call consensus.NewAppModule(appCodec, app.ConsensusParamsKeeper)", "call ibc.NewAppModule(app.IBCKeeper)", "call transfer.NewAppModule(app.TransferKeeper)", "call aol.NewAppModule(appCodec, app.AolKeeper)", "call did.NewAppModule(appCodec, app.DidKeeper)", "call burn.NewAppModule(appCodec, app.BurnKeeper)", "call pnft.NewAppModule(appCodec, &app.PnftKeeper)", "call _.SetOrderBeginBlockers(upgradetypes.ModuleName, capabilitytypes.ModuleName, minttypes.ModuleName, distrtypes.ModuleName, slashingtypes.ModuleName, evidencetypes.ModuleName, stakingtypes.ModuleName, authtypes.ModuleName, banktypes.ModuleName, govtypes.ModuleName, crisistypes.ModuleName, genutiltypes.ModuleName, authz.ModuleName, feegrant.ModuleName, group.ModuleName, paramstypes.ModuleName, vestingtypes.ModuleName, consensusparamtypes.ModuleName, ibcexported.ModuleName, ibctransfertypes.ModuleName, aoltypes.ModuleName, didtypes.ModuleName, burntypes.ModuleName, pnfttypes.ModuleName)", "call _.SetOrderEndBlockers(crisistypes.ModuleName, govtypes.ModuleName, stakingtypes.ModuleName, capabilitytypes.ModuleName, authtypes.ModuleName, banktypes.ModuleName, distrtypes.ModuleName, slashingtypes.ModuleName, minttypes.ModuleName, genutiltypes.ModuleName, evidencetypes.ModuleName, authz.ModuleName, feegrant.ModuleName, group.ModuleName, paramstypes.ModuleName, upgradetypes.ModuleName, vestingtypes.ModuleName, consensusparamtypes.ModuleName, ibcexported.ModuleName, ibctransfertypes.ModuleName, aoltypes.ModuleName, didtypes.ModuleName, burntypes.ModuleName, pnfttypes.ModuleName)", "assign genesisModuleOrder := _", "call _.SetOrderInitGenesis(genesisModuleOrder)", "call _.SetOrderExportGenesis(genesisModuleOrder)", "call _.RegisterInvariants(app.CrisisKeeper)", "assign app.configurator = module.NewConfigurator(app.appCodec, app.MsgServiceRouter(), app.GRPCQueryRouter())", "call module.NewConfigurator(app.appCodec, app.MsgServiceRouter(), app.GRPCQueryRouter())", "call app.MsgServiceRouter()", "call app.GRPCQueryRouter()", "call _.RegisterServices(app.configurator)", "call app.setupUpgradeStoreLoaders()", "call app.setupUpgradeHandlers()", "call autocliv1.RegisterQueryServer(app.GRPCQueryRouter(), _)", "call app.GRPCQueryRouter()", "call runtimeservices.NewAutoCLIQueryService(app.ModuleManager.Modules)", "assign reflectionSvc,err := runtimeservices.NewReflectionService()", "call runtimeservices.NewReflectionService()", "if err != nil", "call panic(err)", "call reflectionv1.RegisterReflectionServiceServer(app.GRPCQueryRouter(), reflectionSvc)", "call app.GRPCQueryRouter()", "call testdata.RegisterQueryServer(app.GRPCQueryRouter(), _)", "call app.GRPCQueryRouter()", "assign overrideModules := _", "kv authtypes.ModuleName", "call auth.NewAppModule(app.appCodec, app.AccountKeeper, authsims.RandomGenesisAccounts, app.GetSubspace(authtypes.ModuleName))", "call app.GetSubspace(authtypes.ModuleName)", "assign app.sm = module.NewSimulationManagerFromAppModules( app.ModuleManager.Modules, overrideModules, )", "call module.NewSimulationManagerFromAppModules(app.ModuleManager.Modules, overrideModules)", "call _.RegisterStoreDecoders()", "call app.MountKVStores(app.GetKVStoreKey())", "call app.GetKVStoreKey()", "call app.MountTransientStores(app.GetTransientStoreKey())", "call app.GetTransientStoreKey()", "call app.MountMemoryStores(app.GetMemoryStoreKey())", "call app.GetMemoryStoreKey()", "call app.SetInitChainer(app.InitChainer)", "call app.SetBeginBlocker(app.BeginBlocker)", "call app.SetEndBlocker(app.EndBlocker)", "call app.setAnteHandler(encodingConfig.TxConfig)", "call app.setPostHandler()", "if loadLatest", "if err != nil", "assign err := app.LoadLatestVersion()", "call app.LoadLatestVersion()", "call logger.Error(_, _, err)", "call os.Exit(1)", "lit 1", "return app"]),
  ("app.SetConfig", ["assign config := sdk.GetConfig()", "call sdk.GetConfig()", "call config.SetPurpose(44)", "lit 44", "call config.SetCoinType(371)", "lit 371", "call config.SetBech32PrefixForAccount(AccountAddressPrefix, AccountPubKeyPrefix)", "call config.SetBech32PrefixForValidator(ValidatorAddressPrefix, ValidatorPubKeyPrefix)", "call config.SetBech32PrefixForConsensusNode(ConsNodeAddressPrefix, ConsNodePubKeyPrefix)", "call config.Seal()"]),
  ("app.init", ["assign userHomeDir,err := os.UserHomeDir()", "call os.UserHomeDir()", "if err != nil", "call panic(err)", "assign DefaultNodeHome = filepath.Join(userHomeDir, \".\"+Name)", "call filepath.Join(userHomeDir, \".\" + Name)", "op +", "lit \".\""]),
  ("app.makeEncodingConfig", ["assign encodingConfig := appparams.MakeEncodingConfig()", "call appparams.MakeEncodingConfig()", "call std.RegisterLegacyAminoCodec(encodingConfig.Amino)", "call std.RegisterInterfaces(encodingConfig.InterfaceRegistry)", "call ModuleBasics.RegisterLegacyAminoCodec(encodingConfig.Amino)", "call ModuleBasics.RegisterInterfaces(encodingConfig.InterfaceRegistry)", "return encodingConfig"]),
  ("app/keepers.AppKeepersWithKey.GenerateKeys", ["assign appKeepers.keys = _", "call sdk.NewKVStoreKeys(authtypes.StoreKey, banktypes.StoreKey, stakingtypes.StoreKey, crisistypes.StoreKey, minttypes.StoreKey, distrtypes.StoreKey, slashingtypes.StoreKey, govtypes.StoreKey, paramstypes.StoreKey, consensusparamtypes.StoreKey, upgradetypes.StoreKey, feegrant.StoreKey, evidencetypes.StoreKey, capabilitytypes.StoreKey, authzkeeper.StoreKey, group.StoreKey, ibcexported.StoreKey, ibctransfertypes.StoreKey, aoltypes.StoreKey, didtypes.StoreKey, burntypes.StoreKey, pnfttypes.StoreKey)", "assign appKeepers.tkeys = sdk.NewTransientStoreKeys(paramstypes.TStoreKey)", "call sdk.NewTransientStoreKeys(paramstypes.TStoreKey)", "assign appKeepers.memKeys = sdk.NewMemoryStoreKeys(capabilitytypes.MemStoreKey)", "call sdk.NewMemoryStoreKeys(capabilitytypes.MemStoreKey)"]),
  ("app/keepers.AppKeepersWithKey.GetKVStoreKey", ["return _"]),
  ("app/keepers.AppKeepersWithKey.GetKey", ["return _"]),
  ("app/keepers.AppKeepersWithKey.GetMemKey", ["return _"]),
  ("app/keepers.AppKeepersWithKey.GetMemoryStoreKey", ["return _"]),
  ("app/keepers.AppKeepersWithKey.GetSubspace", ["assign subspace,_ := appKeepers.ParamsKeeper.GetSubspace(moduleName)", "call _.GetSubspace(moduleName)", "return subspace"]),
  ("app/keepers.AppKeepersWithKey.GetTKey", ["return _"]),
  ("app/keepers.AppKeepersWithKey.GetTransientStoreKey", ["return _"]),
  ("app/keepers.AppKeepersWithKey.InitKeyAndKeepers", ["call appKeepers.GenerateKeys()", "assign appCodec := encodingConfig.Codec", "assign legacyAmino := encodingConfig.Amino", "assign appKeepers.ParamsKeeper = _", "call initParamsKeeper(appCodec, legacyAmino, appKeepers.keys[paramstypes.StoreKey], appKeepers.tkeys[paramstypes.TStoreKey])", "assign appKeepers.ConsensusParamsKeeper = _", "call consensusparamkeeper.NewKeeper(appCodec, appKeepers.keys[consensusparamtypes.StoreKey], authtypes.NewModuleAddress(govtypes.ModuleName).String())", "call _.String()", "call authtypes.NewModuleAddress(govtypes.ModuleName)", "assign appKeepers.CapabilityKeeper = _", "call capabilitykeeper.NewKeeper(appCodec, appKeepers.keys[capabilitytypes.StoreKey], appKeepers.memKeys[capabilitytypes.MemStoreKey])", "assign appKeepers.ScopedIBCKeeper = appKeepers.CapabilityKeeper.ScopeToModule(ibcexported.ModuleName)", "call _.ScopeToModule(ibcexported.ModuleName)", "assign appKeepers.ScopedTransferKeeper = appKeepers.CapabilityKeeper.ScopeToModule(ibctransfertypes.ModuleName)", "call _.ScopeToModule(ibctransfertypes.ModuleName)", "assign appKeepers.AccountKeeper = _", "call authkeeper.NewAccountKeeper(appCodec, appKeepers.keys[authtypes.StoreKey], authtypes.ProtoBaseAccount, maccPerms, sdk.Bech32MainPrefix, authtypes.NewModuleAddress(govtypes.ModuleName).String())", "call _.String()", "call authtypes.NewModuleAddress(govtypes.ModuleName)", "assign appKeepers.BankKeeper = _", "call bankkeeper.NewBaseKeeper(appCodec, appKeepers.keys[banktypes.StoreKey], appKeepers.AccountKeeper, blockedAddrs, authtypes.NewModuleAddress(govtypes.ModuleName).String())", "call _.String()", "call authtypes.NewModuleAddress(govtypes.ModuleName)", "assign appKeepers.StakingKeeper = _", "call stakingkeeper.NewKeeper(appCodec, appKeepers.keys[stakingtypes.StoreKey], appKeepers.AccountKeeper, appKeepers.BankKeeper, authtypes.NewModuleAddress(govtypes.ModuleName).String())", "call _.String()", "call authtypes.NewModuleAddress(govtypes.ModuleName)", "assign appKeepers.MintKeeper = _", "call mintkeeper.NewKeeper(appCodec, appKeepers.keys[minttypes.StoreKey], appKeepers.StakingKeeper, appKeepers.AccountKeeper, appKeepers.BankKeeper, authtypes.FeeCollectorName, authtypes.NewModuleAddress(govtypes.ModuleName).String())", "call _.String()", "call authtypes.NewModuleAddress(govtypes.ModuleName)", "assign appKeepers.DistrKeeper = _", "call distrkeeper.NewKeeper(appCodec, appKeepers.keys[distrtypes.StoreKey], appKeepers.AccountKeeper, appKeepers.BankKeeper, appKeepers.StakingKeeper, authtypes.FeeCollectorName, authtypes.NewModuleAddress(govtypes.ModuleName).String())", "call _.String()", "call authtypes.NewModuleAddress(govtypes.ModuleName)", "assign appKeepers.SlashingKeeper = _", "call slashingkeeper.NewKeeper(appCodec, legacyAmino, appKeepers.keys[slashingtypes.StoreKey], appKeepers.StakingKeeper, authtypes.NewModuleAddress(govtypes.ModuleName).String())", "call _.String()", "call authtypes.NewModuleAddress(govtypes.ModuleName)", "assign invCheckPeriod := cast.ToUint(appOpts.Get(server.FlagInvCheckPeriod))", "call cast.ToUint(appOpts.Get(server.FlagInvCheckPeriod))", "call appOpts.Get(server.FlagInvCheckPeriod)", "assign appKeepers.CrisisKeeper = _", "call crisiskeeper.NewKeeper(appCodec, appKeepers.keys[crisistypes.StoreKey], invCheckPeriod, appKeepers.BankKeeper, authtypes.FeeCollectorName, authtypes.NewModuleAddress(govtypes.ModuleName).String())", "call _.String()", "call authtypes.NewModuleAddress(govtypes.ModuleName)", "assign appKeepers.FeeGrantKeeper = _", "call feegrantkeeper.NewKeeper(appCodec, appKeepers.keys[feegrant.StoreKey], appKeepers.AccountKeeper)", "assign appKeepers.AuthzKeeper = _", "call authzkeeper.NewKeeper(appKeepers.keys[authzkeeper.StoreKey], appCodec, bApp.MsgServiceRouter(), appKeepers.AccountKeeper)", "call bApp.MsgServiceRouter()", "assign groupConfig := group.DefaultConfig()", "call group.DefaultConfig()", "assign appKeepers.GroupKeeper = _", "call groupkeeper.NewKeeper(appKeepers.keys[group.StoreKey], appCodec, bApp.MsgServiceRouter(), appKeepers.AccountKeeper, groupConfig)", "call bApp.MsgServiceRouter()", "assign skipUpgradeHeights := _", "range cast.ToIntSlice(appOpts.Get(server.FlagUnsafeSkipUpgrades))", "call cast.ToIntSlice(appOpts.Get(server.FlagUnsafeSkipUpgrades))", "call appOpts.Get(server.FlagUnsafeSkipUpgrades)", "assign skipUpgradeHeights[int64(h)] = true", "call int64(h)", "assign homePath := cast.ToString(appOpts.Get(flags.FlagHome))", "call cast.ToString(appOpts.Get(flags.FlagHome))", "call appOpts.Get(flags.FlagHome)", "assign appKeepers.UpgradeKeeper = _", "call upgradekeeper.NewKeeper(skipUpgradeHeights, appKeepers.keys[upgradetypes.StoreKey], appCodec, homePath, bApp, authtypes.NewModuleAddress(govtypes.ModuleName).String())", "call _.String()", "call authtypes.NewModuleAddress(govtypes.ModuleName)", "assign evidenceKeeper := _", "call evidencekeeper.NewKeeper(appCodec, appKeepers.keys[evidencetypes.StoreKey], appKeepers.StakingKeeper, appKeepers.SlashingKeeper)", "assign appKeepers.EvidenceKeeper = *evidenceKeeper", "assign appKeepers.IBCKeeper = _", "call ibckeeper.NewKeeper(appCodec, appKeepers.keys[ibcexported.StoreKey], appKeepers.GetSubspace(ibcexported.ModuleName), appKeepers.StakingKeeper, appKeepers.UpgradeKeeper, appKeepers.ScopedIBCKeeper)", "call appKeepers.GetSubspace(ibcexported.ModuleName)", "assign govConfig := govtypes.DefaultConfig()", "call govtypes.DefaultConfig()", "assign govConfig.MaxMetadataLen = 10200", "lit 10200", "assign appKeepers.GovKeeper = _", "call govkeeper.NewKeeper(appCodec, appKeepers.keys[govtypes.StoreKey], appKeepers.AccountKeeper, appKeepers.BankKeeper, appKeepers.StakingKeeper, bApp.MsgServiceRouter(), govConfig, authtypes.NewModuleAddress(govtypes.ModuleName).String())", "call bApp.MsgServiceRouter()", "call _.String()", "call authtypes.NewModuleAddress(govtypes.ModuleName)", "assign appKeepers.TransferKeeper = _", "call ibctransferkeeper.NewKeeper(appCodec, appKeepers.keys[ibctransfertypes.StoreKey], appKeepers.GetSubspace(ibctransfertypes.ModuleName), appKeepers.IBCKeeper.ChannelKeeper, appKeepers.IBCKeeper.ChannelKeeper, &appKeepers.IBCKeeper.PortKeeper, appKeepers.AccountKeeper, appKeepers.BankKeeper, appKeepers.ScopedTransferKeeper)", "call appKeepers.GetSubspace(ibctransfertypes.ModuleName)", "assign appKeepers.AolKeeper = _", "call aolkeeper.NewKeeper(appCodec, appKeepers.keys[aoltypes.StoreKey], appKeepers.keys[aoltypes.MemStoreKey])", "assign appKeepers.DidKeeper = _", "call didkeeper.NewKeeper(appCodec, appKeepers.keys[didtypes.StoreKey], appKeepers.keys[didtypes.MemStoreKey])", "assign appKeepers.BurnKeeper = *burnkeeper.NewKeeper( appKeepers.BankKeeper, )", "call burnkeeper.NewKeeper(appKeepers.BankKeeper)", "assign appKeepers.PnftKeeper = _", "call pnftkeeper.NewKeeper(appCodec, appKeepers.keys[pnfttypes.StoreKey], appKeepers.AccountKeeper, appKeepers.BankKeeper)", "assign govRouter := govv1beta1.NewRouter()", "call govv1beta1.NewRouter()", "call _.AddRoute(ibcclienttypes.RouterKey, _)", "call _.AddRoute(ibcexported.RouterKey, _)", "call _.AddRoute(upgradetypes.RouterKey, _)", "call _.AddRoute(paramproposal.RouterKey, _)", "call govRouter.AddRoute(govtypes.RouterKey, govv1beta1.ProposalHandler)", "call params.NewParamChangeProposalHandler(appKeepers.ParamsKeeper)", "call upgrade.NewSoftwareUpgradeProposalHandler(appKeepers.UpgradeKeeper)", "call ibcclient.NewClientProposalHandler(appKeepers.IBCKeeper.ClientKeeper)", "call ibcclient.NewClientProposalHandler(appKeepers.IBCKeeper.ClientKeeper)", "call _.SetLegacyRouter(govRouter)", "assign ibcRouter := porttypes.NewRouter()", "call porttypes.NewRouter()", "call ibcRouter.AddRoute(ibctransfertypes.ModuleName, transfer.NewIBCModule(appKeepers.TransferKeeper))", "call transfer.NewIBCModule(appKeepers.TransferKeeper)", "call _.SetRouter(ibcRouter)"]),
  ("app/keepers.AppKeepersWithKey.SetupHooks", ["call _.SetHooks(_)", "call stakingtypes.NewMultiStakingHooks(appKeepers.DistrKeeper.Hooks(), appKeepers.SlashingKeeper.Hooks())", "call _.Hooks()", "call _.Hooks()"]),
  ("app/keepers.initParamsKeeper", ["assign paramsKeeper := paramskeeper.NewKeeper(appCodec, legacyAmino, key, tkey)", "call paramskeeper.NewKeeper(appCodec, legacyAmino, key, tkey)", "call paramsKeeper.Subspace(authtypes.ModuleName)", "call paramsKeeper.Subspace(banktypes.ModuleName)", "call paramsKeeper.Subspace(stakingtypes.ModuleName)", "call paramsKeeper.Subspace(minttypes.ModuleName)", "call paramsKeeper.Subspace(distrtypes.ModuleName)", "call paramsKeeper.Subspace(slashingtypes.ModuleName)", "call paramsKeeper.Subspace(govtypes.ModuleName)", "call paramsKeeper.Subspace(crisistypes.ModuleName)", "call paramsKeeper.Subspace(ibctransfertypes.ModuleName)", "call paramsKeeper.Subspace(ibcexported.ModuleName)", "return paramsKeeper"]),
  ("app/upgrades/v2_0_5.CreateUpgradeHandle", ["return _", "assign fromVM := _", "kv \"auth\"=1", "lit \"auth\"", "lit 1", "kv \"bank\"=1", "lit \"bank\"", "lit 1", "kv \"capability\"=1", "lit \"capability\"", "lit 1", "kv \"crisis\"=1", "lit \"crisis\"", "lit 1", "kv \"distribution\"=1", "lit \"distribution\"", "lit 1", "kv \"evidence\"=1", "lit \"evidence\"", "lit 1", "kv \"gov\"=1", "lit \"gov\"", "lit 1", "kv \"mint\"=1", "lit \"mint\"", "lit 1", "kv \"params\"=1", "lit \"params\"", "lit 1", "kv \"slashing\"=1", "lit \"slashing\"", "lit 1", "kv \"staking\"=1", "lit \"staking\"", "lit 1", "kv \"upgrade\"=1", "lit \"upgrade\"", "lit 1", "kv \"vesting\"=1", "lit \"vesting\"", "lit 1", "kv \"ibc\"=1", "lit \"ibc\"", "lit 1", "kv \"genutil\"=1", "lit \"genutil\"", "lit 1", "kv \"transfer\"=1", "lit \"transfer\"", "lit 1", "kv \"aol\"=1", "lit \"aol\"", "lit 1", "kv \"did\"=1", "lit \"did\"", "lit 1", "kv \"burn\"=1", "lit \"burn\"", "lit 1", "kv \"wasm\"=1", "lit \"wasm\"", "lit 1", "call _.SetParams(ctx, ibcconnectiontypes.DefaultParams())", "call ibcconnectiontypes.DefaultParams()", "return _", "call mm.RunMigrations(ctx, configurator, fromVM)"]),
  ("app/upgrades/v2_0_6.CreateUpgradeHandle", ["return _", "return _", "call mm.RunMigrations(ctx, configurator, fromVM)"]),
  ("app/upgrades/v2_0_7.CreateUpgradeHandle", ["return _", "return _", "call mm.RunMigrations(ctx, configurator, fromVM)"]),
  ("app/upgrades/v2_2_0.CreateUpgradeHandle", ["assign subspaces := keepers.ParamsKeeper.GetSubspaces()", "call _.GetSubspaces()", "range subspaces", "assign subspace := subspace", "switch subspace.Name()", "call subspace.Name()", "case authtypes.ModuleName", "assign keyTable = authtypes.ParamKeyTable()", "call authtypes.ParamKeyTable()", "case banktypes.ModuleName", "assign keyTable = banktypes.ParamKeyTable()", "call banktypes.ParamKeyTable()", "case stakingtypes.ModuleName", "assign keyTable = stakingtypes.ParamKeyTable()", "call stakingtypes.ParamKeyTable()", "case minttypes.ModuleName", "assign keyTable = minttypes.ParamKeyTable()", "call minttypes.ParamKeyTable()", "case distrtypes.ModuleName", "assign keyTable = distrtypes.ParamKeyTable()", "call distrtypes.ParamKeyTable()", "case slashingtypes.ModuleName", "assign keyTable = slashingtypes.ParamKeyTable()", "call slashingtypes.ParamKeyTable()", "case govtypes.ModuleName", "assign keyTable = govv1.ParamKeyTable()", "call govv1.ParamKeyTable()", "case crisistypes.ModuleName", "assign keyTable = crisistypes.ParamKeyTable()", "call crisistypes.ParamKeyTable()", "if !subspace.HasKeyTable()", "call subspace.HasKeyTable()", "call subspace.WithKeyTable(keyTable)", "assign baseAppLegacySS := _", "call _.WithKeyTable(paramstypes.ConsensusParamsKeyTable())", "call _.Subspace(baseapp.Paramspace)", "call paramstypes.ConsensusParamsKeyTable()", "return _", "call baseapp.MigrateParams(ctx, baseAppLegacySS, &keepers.ConsensusParamsKeeper)", "assign toVM,err := mm.RunMigrations(ctx, configurator, fromVM)", "call mm.RunMigrations(ctx, configurator, fromVM)", "if err != nil", "return fromVM,err", "assign params := keepers.StakingKeeper.GetParams(ctx)", "call _.GetParams(ctx)", "assign params.MinCommissionRate = sdk.NewDecWithPrec(3, 2)", "call sdk.NewDecWithPrec(3, 2)", "lit 3", "lit 2", "if err != nil", "assign err := keepers.StakingKeeper.SetParams(ctx, params)", "call _.SetParams(ctx, params)", "return fromVM,err", "return toVM,nil"]),
  ("app/upgrades/v2_2_1.CreateUpgradeHandle", ["return _", "return _", "call mm.RunMigrations(ctx, configurator, fromVM)"])
]

/-- every function of the root packages x/<module> (module.go, genesis.go and whatever else is there): name, skeleton -/
def moduleWiring : List (String × List String) := [
  ("x/aol.AppModule.BeginBlock", []),
  ("x/aol.AppModule.ConsensusVersion", ["return 1", "lit 1"]),
  ("x/aol.AppModule.EndBlock", ["return _"]),
  ("x/aol.AppModule.ExportGenesis", ["assign genState := ExportGenesis(ctx, am.keeper)", "call ExportGenesis(ctx, am.keeper)", "return _", "call cdc.MustMarshalJSON(genState)"]),
  ("x/aol.AppModule.InitGenesis", ["call cdc.MustUnmarshalJSON(gs, &genState)", "call InitGenesis(ctx, am.keeper, genState)", "return _"]),
  ("x/aol.AppModule.Name", ["return _", "call _.Name()"]),
  ("x/aol.AppModule.QuerierRoute", ["return _"]),
  ("x/aol.AppModule.RegisterInvariants", []),
  ("x/aol.AppModule.RegisterServices", ["call types.RegisterQueryServer(cfg.QueryServer(), am.keeper)", "call cfg.QueryServer()", "call types.RegisterMsgServer(cfg.MsgServer(), keeper.NewMsgServerImpl(am.keeper))", "call cfg.MsgServer()", "call keeper.NewMsgServerImpl(am.keeper)"]),
  ("x/aol.AppModuleBasic.DefaultGenesis", ["return _", "call cdc.MustMarshalJSON(types.DefaultGenesis())", "call types.DefaultGenesis()"]),
  ("x/aol.AppModuleBasic.GetQueryCmd", ["return _", "call cli.GetQueryCmd(types.StoreKey)"]),
  ("x/aol.AppModuleBasic.GetTxCmd", ["return _", "call cli.GetTxCmd()"]),
  ("x/aol.AppModuleBasic.Name", ["return _"]),
  ("x/aol.AppModuleBasic.RegisterCodec", ["call types.RegisterCodec(cdc)"]),
  ("x/aol.AppModuleBasic.RegisterGRPCGatewayRoutes", ["if err != nil", "assign err := _", "call types.RegisterQueryHandlerClient(context.Background(), mux, types.NewQueryClient(clientCtx))", "call context.Background()", "call types.NewQueryClient(clientCtx)", "call panic(err)"]),
  ("x/aol.AppModuleBasic.RegisterInterfaces", ["call types.RegisterInterfaces(reg)"]),
  ("x/aol.AppModuleBasic.RegisterLegacyAminoCodec", ["call types.RegisterCodec(cdc)"]),
  ("x/aol.AppModuleBasic.ValidateGenesis", ["if err != nil", "assign err := cdc.UnmarshalJSON(bz, &genState)", "call cdc.UnmarshalJSON(bz, &genState)", "return _", "call fmt.Errorf(_, types.ModuleName, err)", "return _", "call genState.Validate()"]),
  ("x/aol.ExportGenesis", ["assign genesis := types.DefaultGenesis()", "call types.DefaultGenesis()", "assign ownerKeys,owners := k.GetAllOwners(ctx)", "call k.GetAllOwners(ctx)", "range ownerKeys", "assign genesis.Owners[compkey.EncodeToString(&key, types.GenesisKeySeparator)] = &owners[i]", "call compkey.EncodeToString(&key, types.GenesisKeySeparator)", "assign topicKeys,topics := k.GetAllTopics(ctx)", "call k.GetAllTopics(ctx)", "range topicKeys", "assign genesis.Topics[compkey.EncodeToString(&key, types.GenesisKeySeparator)] = &topics[i]", "call compkey.EncodeToString(&key, types.GenesisKeySeparator)", "assign writerKeys,writers := k.GetAllWriters(ctx)", "call k.GetAllWriters(ctx)", "range writerKeys", "assign genesis.Writers[compkey.EncodeToString(&key, types.GenesisKeySeparator)] = &writers[i]", "call compkey.EncodeToString(&key, types.GenesisKeySeparator)", "assign recordKeys,records := k.GetAllRecords(ctx)", "call k.GetAllRecords(ctx)", "range recordKeys", "assign genesis.Records[compkey.EncodeToString(&key, types.GenesisKeySeparator)] = &records[i]", "call compkey.EncodeToString(&key, types.GenesisKeySeparator)", "return genesis"]),
  ("x/aol.InitGenesis", ["range genState.Owners", "call compkey.MustDecodeFromString(keyStr, types.GenesisKeySeparator, &key)", "call k.SetOwner(ctx, key, *owner)", "range genState.Topics", "call compkey.MustDecodeFromString(keyStr, types.GenesisKeySeparator, &key)", "call k.SetTopic(ctx, key, *topic)", "range genState.Writers", "call compkey.MustDecodeFromString(keyStr, types.GenesisKeySeparator, &key)", "call k.SetWriter(ctx, key, *writer)", "range genState.Records", "call compkey.MustDecodeFromString(keyStr, types.GenesisKeySeparator, &key)", "call k.SetRecord(ctx, key, *record)"]),
  ("x/aol.NewAppModule", ["return _", "kv AppModuleBasic=NewAppModuleBasic(cdc)", "call NewAppModuleBasic(cdc)", "kv keeper=keeper"]),
  ("x/aol.NewAppModuleBasic", ["return _", "kv cdc=cdc"]),
  ("x/burn.AppModule.BeginBlock", []),
  ("x/burn.AppModule.ConsensusVersion", ["return 1", "lit 1"]),
  ("x/burn.AppModule.EndBlock", ["assign err := am.keeper.BurnCoins(ctx, types.BurnAddress)", "call _.BurnCoins(ctx, types.BurnAddress)", "if err != nil", "call _.Error(_, fmt.Sprintf(\"msg : %s\", err.Error()))", "call ctx.Logger()", "call fmt.Sprintf(_, err.Error())", "lit \"msg : %s\"", "call err.Error()", "return _"]),
  ("x/burn.AppModule.ExportGenesis", ["assign genState := ExportGenesis(ctx, am.keeper)", "call ExportGenesis(ctx, am.keeper)", "return _", "call cdc.MustMarshalJSON(genState)"]),
  ("x/burn.AppModule.InitGenesis", ["call cdc.MustUnmarshalJSON(gs, &genState)", "call InitGenesis(ctx, am.keeper, genState)", "return _"]),
  ("x/burn.AppModule.Name", ["return _", "call _.Name()"]),
  ("x/burn.AppModule.QuerierRoute", ["return _"]),
  ("x/burn.AppModule.RegisterInvariants", []),
  ("x/burn.AppModule.RegisterServices", []),
  ("x/burn.AppModuleBasic.DefaultGenesis", ["return _", "call cdc.MustMarshalJSON(types.DefaultGenesis())", "call types.DefaultGenesis()"]),
  ("x/burn.AppModuleBasic.GetQueryCmd", ["return nil"]),
  ("x/burn.AppModuleBasic.GetTxCmd", ["return nil"]),
  ("x/burn.AppModuleBasic.Name", ["return _"]),
  ("x/burn.AppModuleBasic.RegisterCodec", ["call types.RegisterCodec(cdc)"]),
  ("x/burn.AppModuleBasic.RegisterGRPCGatewayRoutes", []),
  ("x/burn.AppModuleBasic.RegisterInterfaces", ["call types.RegisterInterfaces(reg)"]),
  ("x/burn.AppModuleBasic.RegisterLegacyAminoCodec", ["call types.RegisterCodec(cdc)"]),
  ("x/burn.AppModuleBasic.ValidateGenesis", ["if err != nil", "assign err := cdc.UnmarshalJSON(bz, &genState)", "call cdc.UnmarshalJSON(bz, &genState)", "return _", "call fmt.Errorf(_, types.ModuleName, err)", "return _", "call genState.Validate()"]),
  ("x/burn.ExportGenesis", ["return _", "call types.DefaultGenesis()"]),
  ("x/burn.InitGenesis", []),
  ("x/burn.NewAppModule", ["return _", "kv AppModuleBasic=NewAppModuleBasic(cdc)", "call NewAppModuleBasic(cdc)", "kv keeper=keeper"]),
  ("x/burn.NewAppModuleBasic", ["return _", "kv cdc=cdc"]),
  ("x/did.AppModule.BeginBlock", []),
  ("x/did.AppModule.ConsensusVersion", ["return 1", "lit 1"]),
  ("x/did.AppModule.EndBlock", ["return _"]),
  ("x/did.AppModule.ExportGenesis", ["assign genState := ExportGenesis(ctx, am.keeper)", "call ExportGenesis(ctx, am.keeper)", "return _", "call cdc.MustMarshalJSON(genState)"]),
  ("x/did.AppModule.InitGenesis", ["call cdc.MustUnmarshalJSON(gs, &genState)", "call InitGenesis(ctx, am.keeper, genState)", "return _"]),
  ("x/did.AppModule.Name", ["return _", "call _.Name()"]),
  ("x/did.AppModule.QuerierRoute", ["return _"]),
  ("x/did.AppModule.RegisterInvariants", []),
  ("x/did.AppModule.RegisterServices", ["call types.RegisterQueryServer(cfg.QueryServer(), am.keeper)", "call cfg.QueryServer()", "call types.RegisterMsgServer(cfg.MsgServer(), keeper.NewMsgServerImpl(am.keeper))", "call cfg.MsgServer()", "call keeper.NewMsgServerImpl(am.keeper)"]),
  ("x/did.AppModuleBasic.DefaultGenesis", ["return _", "call cdc.MustMarshalJSON(types.DefaultGenesis())", "call types.DefaultGenesis()"]),
  ("x/did.AppModuleBasic.GetQueryCmd", ["return _", "call cli.GetQueryCmd(types.StoreKey)"]),
  ("x/did.AppModuleBasic.GetTxCmd", ["return _", "call cli.GetTxCmd()"]),
  ("x/did.AppModuleBasic.Name", ["return _"]),
  ("x/did.AppModuleBasic.RegisterCodec", ["call types.RegisterCodec(cdc)"]),
  ("x/did.AppModuleBasic.RegisterGRPCGatewayRoutes", ["assign err := _", "call types.RegisterQueryHandlerClient(context.Background(), mux, types.NewQueryClient(clientCtx))", "call context.Background()", "call types.NewQueryClient(clientCtx)", "if err != nil", "call panic(\"Error RegisterGRPCGatewayRoutes\")", "lit \"Error RegisterGRPCGatewayRoutes\""]),
  ("x/did.AppModuleBasic.RegisterInterfaces", ["call types.RegisterInterfaces(reg)"]),
  ("x/did.AppModuleBasic.RegisterLegacyAminoCodec", ["call types.RegisterCodec(cdc)"]),
  ("x/did.AppModuleBasic.ValidateGenesis", ["if err != nil", "assign err := cdc.UnmarshalJSON(bz, &genState)", "call cdc.UnmarshalJSON(bz, &genState)", "return _", "call fmt.Errorf(_, types.ModuleName, err)", "return _", "call genState.Validate()"]),
  ("x/did.ExportGenesis", ["assign documentsMap := make(map[string]*types.DIDDocumentWithSeq)", "call make(map[string]*types.DIDDocumentWithSeq)", "range k.ListDIDs(ctx)", "call k.ListDIDs(ctx)", "assign key := _", "call _.Marshal()", "kv DID=did", "assign document := k.GetDIDDocument(ctx, did)", "call k.GetDIDDocument(ctx, did)", "assign documentsMap[key] = &document", "return _", "kv Documents=documentsMap"]),
  ("x/did.InitGenesis", ["range data.Documents", "call k.SetDIDDocument(ctx, did, *doc)"]),
  ("x/did.NewAppModule", ["return _", "kv AppModuleBasic=NewAppModuleBasic(cdc)", "call NewAppModuleBasic(cdc)", "kv keeper=keeper"]),
  ("x/did.NewAppModuleBasic", ["return _", "kv cdc=cdc"]),
  ("x/pnft.AppModule.BeginBlock", []),
  ("x/pnft.AppModule.ConsensusVersion", ["return 1", "lit 1"]),
  ("x/pnft.AppModule.EndBlock", ["return _"]),
  ("x/pnft.AppModule.ExportGenesis", ["assign genState := ExportGenesis(ctx, am.keeper)", "call ExportGenesis(ctx, am.keeper)", "return _", "call cdc.MustMarshalJSON(genState)"]),
  ("x/pnft.AppModule.InitGenesis", ["call cdc.MustUnmarshalJSON(data, &genState)", "call InitGenesis(ctx, am.keeper, genState)", "return _"]),
  ("x/pnft.AppModule.QuerierRoute", ["return _"]),
  ("x/pnft.AppModule.RegisterInvariants", []),
  ("x/pnft.AppModule.RegisterServices", ["call types.RegisterQueryServer(cfg.QueryServer(), am.keeper)", "call cfg.QueryServer()", "call types.RegisterMsgServer(cfg.MsgServer(), keeper.NewMsgServerImpl(am.keeper))", "call cfg.MsgServer()", "call keeper.NewMsgServerImpl(am.keeper)"]),
  ("x/pnft.AppModuleBasic.DefaultGenesis", ["return _", "call cdc.MustMarshalJSON(types.DefaultGenesis())", "call types.DefaultGenesis()"]),
  ("x/pnft.AppModuleBasic.GetQueryCmd", ["return _", "call cli.NewGetQueryCmd()"]),
  ("x/pnft.AppModuleBasic.GetTxCmd", ["return _", "call cli.NewTxCmd()"]),
  ("x/pnft.AppModuleBasic.Name", ["return _"]),
  ("x/pnft.AppModuleBasic.RegisterGRPCGatewayRoutes", ["if err != nil", "assign err := _", "call types.RegisterQueryHandlerClient(context.Background(), mux, types.NewQueryClient(clientContext))", "call context.Background()", "call types.NewQueryClient(clientContext)", "call panic(err)"]),
  ("x/pnft.AppModuleBasic.RegisterInterfaces", ["call types.RegisterInterfaces(registry)"]),
  ("x/pnft.AppModuleBasic.RegisterLegacyAminoCodec", ["call types.RegisterCodec(cdc)"]),
  ("x/pnft.AppModuleBasic.ValidateGenesis", ["if err != nil", "assign err := cdc.UnmarshalJSON(bz, &genState)", "call cdc.UnmarshalJSON(bz, &genState)", "return _", "call fmt.Errorf(_, types.ModuleName, err)", "return _", "call genState.ValidateBasic()"]),
  ("x/pnft.ExportGenesis", ["assign genesis := types.DefaultGenesis()", "call types.DefaultGenesis()", "assign denoms,err := k.GetAllDenoms(ctx)", "call k.GetAllDenoms(ctx)", "if err != nil", "call panic(err)", "range denoms", "assign pnftsByDenom,err := k.GetPNFTsByDenomId(ctx, denom.Id)", "call k.GetPNFTsByDenomId(ctx, denom.Id)", "if err != nil", "call panic(err)", "assign pnfts = append(pnfts, pnftsByDenom...)", "call append(pnfts, pnftsByDenom)", "assign genesis.Denoms = denoms", "assign genesis.Pnfts = pnfts", "return genesis"]),
  ("x/pnft.InitGenesis", ["range genState.Denoms", "if err != nil", "assign err := k.SaveDenom(ctx, denom)", "call k.SaveDenom(ctx, denom)", "call panic(err)", "range genState.Pnfts", "if err != nil", "assign err := k.ImportPNFT(ctx, pnft)", "call k.ImportPNFT(ctx, pnft)", "call panic(err)"]),
  ("x/pnft.NewAppModule", ["return _", "kv AppModuleBasic=NewAppModuleBasic(cdc)", "call NewAppModuleBasic(cdc)", "kv keeper=keeper"]),
  ("x/pnft.NewAppModuleBasic", ["return _", "kv cdc=cdc"])
]

/-- arguments of sdk.NewKVStoreKeys in app/keepers/keys.go -/
def mountedStores : List String := ["acc", "bank", "staking", "crisis", "mint", "distribution", "slashing", "gov", "params", "consensus", "upgrade", "feegrant", "evidence", "capability", "authz", "group", "ibc", "transfer", "aol", "did", "burn", "pnft"]

/-- app.maccPerms -/
def maccPerms : List (String × List String) := [
  ("bonded_tokens_pool", ["burner", "staking"]),
  ("burn", ["burner"]),
  ("distribution", []),
  ("fee_collector", []),
  ("gov", ["burner"]),
  ("mint", ["minter"]),
  ("nft", []),
  ("not_bonded_tokens_pool", ["burner", "staking"]),
  ("transfer", ["minter", "burner"])
]

def beginBlockers : List String := ["upgrade", "capability", "mint", "distribution", "slashing", "evidence", "staking", "auth", "bank", "gov", "crisis", "genutil", "authz", "feegrant", "group", "params", "vesting", "consensus", "ibc", "transfer", "aol", "did", "burn", "pnft"]

def endBlockers : List String := ["crisis", "gov", "staking", "capability", "auth", "bank", "distribution", "slashing", "mint", "genutil", "evidence", "authz", "feegrant", "group", "params", "upgrade", "vesting", "consensus", "ibc", "transfer", "aol", "did", "burn", "pnft"]

def genesisOrder : List String := ["capability", "auth", "bank", "distribution", "staking", "slashing", "gov", "mint", "crisis", "genutil", "evidence", "authz", "feegrant", "group", "params", "upgrade", "vesting", "consensus", "ibc", "transfer", "aol", "did", "burn", "pnft"]

/-- ConsensusVersion() of the custom modules -/
def consensusVersions : List (String × String) := [("x/aol", "1"), ("x/burn", "1"), ("x/did", "1"), ("x/pnft", "1")]

/-- every use of a non-deterministic primitive in the non-client custom packages: function, kind, detail -/
def nondet : List (String × String × String) := [
  ("x/aol.InitGenesis", "range-over-map", "genState.Owners"),
  ("x/aol.InitGenesis", "range-over-map", "genState.Records"),
  ("x/aol.InitGenesis", "range-over-map", "genState.Topics"),
  ("x/aol.InitGenesis", "range-over-map", "genState.Writers"),
  ("x/aol/types.GenesisState.Validate", "range-over-map", "gs.Owners"),
  ("x/aol/types.GenesisState.Validate", "range-over-map", "gs.Owners"),
  ("x/aol/types.GenesisState.Validate", "range-over-map", "gs.Records"),
  ("x/aol/types.GenesisState.Validate", "range-over-map", "gs.Topics"),
  ("x/aol/types.GenesisState.Validate", "range-over-map", "gs.Topics"),
  ("x/aol/types.GenesisState.Validate", "range-over-map", "gs.Writers"),
  ("x/aol/types.GenesisState.Validate", "range-over-map", "topicsOfOwner"),
  ("x/aol/types.GenesisState.Validate", "range-over-map", "writersOfTopic"),
  ("x/did.InitGenesis", "range-over-map", "data.Documents"),
  ("x/did/types.GenesisState.Validate", "range-over-map", "data.Documents")
]

/-- mutex operations of the KeyStore methods, flattened through intra-type calls (deferred unlocks last) -/
def lockOps : List (String × List String) := [("Save", ["Lock", "Unlock"]), ("Load", ["RLock", "RUnlock"]), ("LoadByAddress", ["RLock", "RUnlock", "RLock", "RUnlock"])]

/-- per exported KeyStore method: the mutex operations on every control path (early returns, branches, loops 0/1 times, intra-type calls expanded), deferred unlocks last -/
def lockPaths : List (String × List (List String)) := [
  ("Load", [["RLock", "RUnlock"]]), 
  ("LoadByAddress", [["RLock", "RUnlock"], ["RLock", "RUnlock", "RLock", "RUnlock"]]), 
  ("Save", [[], ["Lock", "Unlock"]])]

/-- skeletons of the `init` functions per package (empty list: the package has none) -/
def initFuncs : List (String × List String) := [("x/aol/types", ["call RegisterCodec(amino)", "call amino.Seal()", "call RegisterCodec(authzcodec.Amino)", "call RegisterCodec(govcodec.Amino)", "call RegisterCodec(groupcodec.Amino)"]), ("x/did/types", ["call RegisterCodec(authzcodec.Amino)", "call RegisterCodec(govcodec.Amino)", "call RegisterCodec(groupcodec.Amino)"])]

/-- which of Route / Type / GetSignBytes / GetSigners / ValidateBasic each message type implements -/
def msgMethods : List (String × List String) := [
  ("x/aol/types.MsgAddRecordRequest", ["GetSignBytes", "GetSigners", "Route", "Type", "ValidateBasic"]),
  ("x/aol/types.MsgAddWriterRequest", ["GetSignBytes", "GetSigners", "Route", "Type", "ValidateBasic"]),
  ("x/aol/types.MsgCreateTopicRequest", ["GetSignBytes", "GetSigners", "Route", "Type", "ValidateBasic"]),
  ("x/aol/types.MsgDeleteWriterRequest", ["GetSignBytes", "GetSigners", "Route", "Type", "ValidateBasic"]),
  ("x/did/types.MsgCreateDIDRequest", ["GetSignBytes", "GetSigners", "Route", "Type", "ValidateBasic"]),
  ("x/did/types.MsgDeactivateDIDRequest", ["GetSignBytes", "GetSigners", "Route", "Type", "ValidateBasic"]),
  ("x/did/types.MsgUpdateDIDRequest", ["GetSignBytes", "GetSigners", "Route", "Type", "ValidateBasic"]),
  ("x/pnft/types.MsgBurnPNFTRequest", ["GetSignBytes", "GetSigners", "ValidateBasic"]),
  ("x/pnft/types.MsgCreateDenomRequest", ["GetSignBytes", "GetSigners", "ValidateBasic"]),
  ("x/pnft/types.MsgDeleteDenomRequest", ["GetSignBytes", "GetSigners", "ValidateBasic"]),
  ("x/pnft/types.MsgMintPNFTRequest", ["GetSignBytes", "GetSigners", "ValidateBasic"]),
  ("x/pnft/types.MsgTransferDenomRequest", ["GetSignBytes", "GetSigners", "ValidateBasic"]),
  ("x/pnft/types.MsgTransferPNFTRequest", ["GetSignBytes", "GetSigners", "ValidateBasic"]),
  ("x/pnft/types.MsgUpdateDenomRequest", ["GetSignBytes", "GetSigners", "ValidateBasic"])
]

/-- constants the validators use -/
def validationConsts : List (String × String) := [("x/aol/types.maxDescriptionLength", "5000"), ("x/aol/types.maxMonikerLength", "70"), ("x/aol/types.maxRecordKeyLength", "70"), ("x/aol/types.maxRecordValueLength", "5000"), ("x/aol/types.maxTopicLength", "70"), ("x/did/types.BLS1281G1_2020", "Bls12381G1Key2020"), ("x/did/types.BLS1281G2_2020", "Bls12381G2Key2020"), ("x/did/types.Base58Charset", "123456789ABCDEFGHJKLMNPQRSTUVWXYZabcdefghijkmnopqrstuvwxyz"), ("x/did/types.ContextDIDV1", "https://www.w3.org/ns/did/v1"), ("x/did/types.DIDMethod", "panacea"), ("x/did/types.DefaultIndex", "1"), ("x/did/types.ED25519_2018", "Ed25519VerificationKey2018"), ("x/did/types.ES256K_2018", "Secp256k1VerificationKey2018"), ("x/did/types.ES256K_2019", "EcdsaSecp256k1VerificationKey2019"), ("x/did/types.ES256K_R_2020", "EcdsaSecp256k1RecoveryMethod2020"), ("x/did/types.GPG_2020", "GpgVerificationKey2020"), ("x/did/types.InitialSequence", "0"), ("x/did/types.JSONWEBKEY_2020", "JsonWebKey2020"), ("x/did/types.MaxVerificationMethodIDLen", "128"), ("x/did/types.MemStoreKey", "mem_capability"), ("x/did/types.ModuleName", "did"), ("x/did/types.QuerierRoute", "did"), ("x/did/types.RSA_2018", "RsaVerificationKey2018"), ("x/did/types.RouterKey", "did"), ("x/did/types.SS256K_2019", "SchnorrSecp256k1VerificationKey2019"), ("x/did/types.StoreKey", "did"), ("x/did/types.X25519_2019", "X25519KeyAgreementKey2019")]

/-- constants of the composite-key encoding -/
def compkeyConsts : List (String × String) := [("types/compkey.maxUint8", "255"), ("types/compkey.sizeUint8", "1"), ("x/aol/types.GenesisKeySeparator", "/")]

/-- constants of the key store -/
def keystoreConsts : List (String × String) := [("x/did/client/crypto.cipherAlgorithm", "aes-128-ctr"), ("x/did/client/crypto.cipherKeySize", "16"), ("x/did/client/crypto.defaultAccountForHD", "0"), ("x/did/client/crypto.defaultIndexForHD", "0"), ("x/did/client/crypto.kdf", "pbkdf2"), ("x/did/client/crypto.macKeyOffset", "16"), ("x/did/client/crypto.macKeySize", "16"), ("x/did/client/crypto.maxPBKDF2C", "10000000"), ("x/did/client/crypto.maxPBKDF2DKLen", "1024"), ("x/did/client/crypto.mnemonicEntropySize", "256"), ("x/did/client/crypto.pbkdf2C", "262144"), ("x/did/client/crypto.pbkdf2DKLen", "32"), ("x/did/client/crypto.pbkdf2PRFStr", "hmac-sha256"), ("x/did/client/crypto.saltBytes", "32"), ("x/did/client/crypto.version", "3")]

/-- the module-local amino codecs -/
def aminoVars : List (String × String × String) := [("x/aol/types.ModuleCdc", "*codec.AminoCodec", "codec.NewAminoCodec(amino)"), ("x/aol/types.amino", "*codec.LegacyAmino", "codec.NewLegacyAmino()"), ("x/burn/types.ModuleCdc", "*codec.AminoCodec", "codec.NewAminoCodec(amino)"), ("x/burn/types.amino", "*codec.LegacyAmino", "codec.NewLegacyAmino()"), ("x/did/types.ModuleCdc", "*codec.AminoCodec", "codec.NewAminoCodec(amino)"), ("x/did/types.amino", "*codec.LegacyAmino", "codec.NewLegacyAmino()"), ("x/pnft/types.ModuleCdc", "*codec.AminoCodec", "codec.NewAminoCodec(amino)"), ("x/pnft/types.amino", "*codec.LegacyAmino", "codec.NewLegacyAmino()")]

end Panacea.Expected
