/-! EXPECTED values: a reviewed snapshot of what /verif/extract produced (bin/accept_expected). -/
namespace Panacea.Expected

/-- hand-written struct types of the custom packages: field, Go type, json tag -/
def structs : List (String × List (String × String × String)) := [
  ("x/aol.AppModule", [("<embedded>", "AppModuleBasic", ""), ("keeper", "keeper.Keeper", "")]),
  ("x/aol.AppModuleBasic", [("cdc", "codec.Codec", "")]),
  ("x/aol/keeper.Keeper", [("cdc", "codec.Codec", ""), ("storeKey", "storetypes.StoreKey", ""), ("memKey", "storetypes.StoreKey", "")]),
  ("x/aol/keeper.msgServer", [("<embedded>", "Keeper", "")]),
  ("x/aol/types.MsgAddRecordRequest", [("TopicName", "string", "topic_name,omitempty"), ("Key", "[]byte", "key,omitempty"), ("Value", "[]byte", "value,omitempty"), ("WriterAddress", "string", "writer_address,omitempty"), ("OwnerAddress", "string", "owner_address,omitempty"), ("FeePayerAddress", "string", "fee_payer_address,omitempty")]),
  ("x/aol/types.MsgAddWriterRequest", [("TopicName", "string", "topic_name,omitempty"), ("Moniker", "string", "moniker,omitempty"), ("Description", "string", "description,omitempty"), ("WriterAddress", "string", "writer_address,omitempty"), ("OwnerAddress", "string", "owner_address,omitempty")]),
  ("x/aol/types.MsgCreateTopicRequest", [("TopicName", "string", "topic_name,omitempty"), ("Description", "string", "description,omitempty"), ("OwnerAddress", "string", "owner_address,omitempty")]),
  ("x/aol/types.MsgDeleteWriterRequest", [("TopicName", "string", "topic_name,omitempty"), ("WriterAddress", "string", "writer_address,omitempty"), ("OwnerAddress", "string", "owner_address,omitempty")]),
  ("x/aol/types.OwnerCompositeKey", [("OwnerAddress", "sdk.AccAddress", "")]),
  ("x/aol/types.RecordCompositeKey", [("OwnerAddress", "sdk.AccAddress", ""), ("TopicName", "string", ""), ("Offset", "uint64", "")]),
  ("x/aol/types.TopicCompositeKey", [("OwnerAddress", "sdk.AccAddress", ""), ("TopicName", "string", "")]),
  ("x/aol/types.WriterCompositeKey", [("OwnerAddress", "sdk.AccAddress", ""), ("TopicName", "string", ""), ("WriterAddress", "sdk.AccAddress", "")]),
  ("x/burn.AppModule", [("<embedded>", "AppModuleBasic", ""), ("keeper", "keeper.Keeper", "")]),
  ("x/burn.AppModuleBasic", [("cdc", "codec.Codec", "")]),
  ("x/burn/keeper.Keeper", [("bankKeeper", "types.BankKeeperI", "")]),
  ("x/did.AppModule", [("<embedded>", "AppModuleBasic", ""), ("keeper", "keeper.Keeper", "")]),
  ("x/did.AppModuleBasic", [("cdc", "codec.Codec", "")]),
  ("x/did/client/crypto.KeyStore", [("mtx", "sync.RWMutex", ""), ("baseDir", "string", "")]),
  ("x/did/client/crypto.cipherParams", [("IV", "string", "iv")]),
  ("x/did/client/crypto.cryptoParams", [("Cipher", "string", "cipher"), ("CipherText", "string", "ciphertext"), ("CipherParams", "cipherParams", "cipherparams"), ("KDF", "string", "kdf"), ("KDFParams", "kdfParams", "kdfparams"), ("MAC", "string", "mac")]),
  ("x/did/client/crypto.encryptedKey", [("Version", "int", "version"), ("ID", "string", "id"), ("Address", "string", "address"), ("Crypto", "cryptoParams", "crypto")]),
  ("x/did/client/crypto.kdfParams", [("C", "int", "c"), ("DKLen", "int", "dklen"), ("PRF", "string", "prf"), ("Salt", "string", "salt")]),
  ("x/did/keeper.Keeper", [("cdc", "codec.Codec", ""), ("storeKey", "storetypes.StoreKey", ""), ("memKey", "storetypes.StoreKey", "")]),
  ("x/did/keeper.msgServer", [("<embedded>", "Keeper", "")]),
  ("x/did/types.GenesisDIDDocumentKey", [("DID", "string", "did")]),
  ("x/did/types.MsgCreateDIDRequest", [("Did", "string", "did,omitempty"), ("Document", "*DIDDocument", "document,omitempty"), ("VerificationMethodId", "string", "verification_method_id,omitempty"), ("Signature", "[]byte", "signature,omitempty"), ("FromAddress", "string", "from_address,omitempty")]),
  ("x/did/types.MsgDeactivateDIDRequest", [("Did", "string", "did,omitempty"), ("VerificationMethodId", "string", "verification_method_id,omitempty"), ("Signature", "[]byte", "signature,omitempty"), ("FromAddress", "string", "from_address,omitempty")]),
  ("x/did/types.MsgUpdateDIDRequest", [("Did", "string", "did,omitempty"), ("Document", "*DIDDocument", "document,omitempty"), ("VerificationMethodId", "string", "verification_method_id,omitempty"), ("Signature", "[]byte", "signature,omitempty"), ("FromAddress", "string", "from_address,omitempty")]),
  ("x/pnft.AppModule", [("<embedded>", "AppModuleBasic", ""), ("keeper", "*keeper.Keeper", "")]),
  ("x/pnft.AppModuleBasic", [("cdc", "codec.Codec", "")]),
  ("x/pnft/keeper.Keeper", [("cdc", "codec.BinaryCodec", ""), ("storeKey", "storetypes.StoreKey", ""), ("nftKeeper", "nftkeeper.Keeper", "")]),
  ("x/pnft/keeper.msgServer", [("<embedded>", "*Keeper", "")]),
  ("x/pnft/types.MsgBurnPNFTRequest", [("DenomId", "string", "denom_id,omitempty"), ("Id", "string", "id,omitempty"), ("Burner", "string", "burner,omitempty")]),
  ("x/pnft/types.MsgCreateDenomRequest", [("Id", "string", "id,omitempty"), ("Name", "string", "name,omitempty"), ("Symbol", "string", "symbol,omitempty"), ("Description", "string", "description,omitempty"), ("Uri", "string", "uri,omitempty"), ("UriHash", "string", "uri_hash,omitempty"), ("Data", "string", "data,omitempty"), ("Creator", "string", "creator,omitempty")]),
  ("x/pnft/types.MsgDeleteDenomRequest", [("Id", "string", "id,omitempty"), ("Remover", "string", "remover,omitempty")]),
  ("x/pnft/types.MsgMintPNFTRequest", [("DenomId", "string", "denom_id,omitempty"), ("Id", "string", "id,omitempty"), ("Name", "string", "name,omitempty"), ("Description", "string", "description,omitempty"), ("Uri", "string", "uri,omitempty"), ("UriHash", "string", "uri_hash,omitempty"), ("Data", "string", "data,omitempty"), ("Creator", "string", "creator,omitempty")]),
  ("x/pnft/types.MsgTransferDenomRequest", [("Id", "string", "id,omitempty"), ("Sender", "string", "sender,omitempty"), ("Receiver", "string", "receiver,omitempty")]),
  ("x/pnft/types.MsgTransferPNFTRequest", [("DenomId", "string", "denom_id,omitempty"), ("Id", "string", "id,omitempty"), ("Sender", "string", "sender,omitempty"), ("Receiver", "string", "receiver,omitempty")]),
  ("x/pnft/types.MsgUpdateDenomRequest", [("Id", "string", "id,omitempty"), ("Name", "string", "name,omitempty"), ("Symbol", "string", "symbol,omitempty"), ("Description", "string", "description,omitempty"), ("Uri", "string", "uri,omitempty"), ("UriHash", "string", "uri_hash,omitempty"), ("Data", "string", "data,omitempty"), ("Updater", "string", "updater,omitempty")])
]

/-- the 14 message structs (generated protobuf code): field, Go type, json tag -/
def msgStructs : List (String × List (String × String × String)) := [
  ("x/aol/types.MsgAddRecordRequest", [("TopicName", "string", "topic_name,omitempty"), ("Key", "[]byte", "key,omitempty"), ("Value", "[]byte", "value,omitempty"), ("WriterAddress", "string", "writer_address,omitempty"), ("OwnerAddress", "string", "owner_address,omitempty"), ("FeePayerAddress", "string", "fee_payer_address,omitempty")]),
  ("x/aol/types.MsgAddWriterRequest", [("TopicName", "string", "topic_name,omitempty"), ("Moniker", "string", "moniker,omitempty"), ("Description", "string", "description,omitempty"), ("WriterAddress", "string", "writer_address,omitempty"), ("OwnerAddress", "string", "owner_address,omitempty")]),
  ("x/aol/types.MsgCreateTopicRequest", [("TopicName", "string", "topic_name,omitempty"), ("Description", "string", "description,omitempty"), ("OwnerAddress", "string", "owner_address,omitempty")]),
  ("x/aol/types.MsgDeleteWriterRequest", [("TopicName", "string", "topic_name,omitempty"), ("WriterAddress", "string", "writer_address,omitempty"), ("OwnerAddress", "string", "owner_address,omitempty")]),
  ("x/did/types.MsgCreateDIDRequest", [("Did", "string", "did,omitempty"), ("Document", "*DIDDocument", "document,omitempty"), ("VerificationMethodId", "string", "verification_method_id,omitempty"), ("Signature", "[]byte", "signature,omitempty"), ("FromAddress", "string", "from_address,omitempty")]),
  ("x/did/types.MsgDeactivateDIDRequest", [("Did", "string", "did,omitempty"), ("VerificationMethodId", "string", "verification_method_id,omitempty"), ("Signature", "[]byte", "signature,omitempty"), ("FromAddress", "string", "from_address,omitempty")]),
  ("x/did/types.MsgUpdateDIDRequest", [("Did", "string", "did,omitempty"), ("Document", "*DIDDocument", "document,omitempty"), ("VerificationMethodId", "string", "verification_method_id,omitempty"), ("Signature", "[]byte", "signature,omitempty"), ("FromAddress", "string", "from_address,omitempty")]),
  ("x/pnft/types.MsgBurnPNFTRequest", [("DenomId", "string", "denom_id,omitempty"), ("Id", "string", "id,omitempty"), ("Burner", "string", "burner,omitempty")]),
  ("x/pnft/types.MsgCreateDenomRequest", [("Id", "string", "id,omitempty"), ("Name", "string", "name,omitempty"), ("Symbol", "string", "symbol,omitempty"), ("Description", "string", "description,omitempty"), ("Uri", "string", "uri,omitempty"), ("UriHash", "string", "uri_hash,omitempty"), ("Data", "string", "data,omitempty"), ("Creator", "string", "creator,omitempty")]),
  ("x/pnft/types.MsgDeleteDenomRequest", [("Id", "string", "id,omitempty"), ("Remover", "string", "remover,omitempty")]),
  ("x/pnft/types.MsgMintPNFTRequest", [("DenomId", "string", "denom_id,omitempty"), ("Id", "string", "id,omitempty"), ("Name", "string", "name,omitempty"), ("Description", "string", "description,omitempty"), ("Uri", "string", "uri,omitempty"), ("UriHash", "string", "uri_hash,omitempty"), ("Data", "string", "data,omitempty"), ("Creator", "string", "creator,omitempty")]),
  ("x/pnft/types.MsgTransferDenomRequest", [("Id", "string", "id,omitempty"), ("Sender", "string", "sender,omitempty"), ("Receiver", "string", "receiver,omitempty")]),
  ("x/pnft/types.MsgTransferPNFTRequest", [("DenomId", "string", "denom_id,omitempty"), ("Id", "string", "id,omitempty"), ("Sender", "string", "sender,omitempty"), ("Receiver", "string", "receiver,omitempty")]),
  ("x/pnft/types.MsgUpdateDenomRequest", [("Id", "string", "id,omitempty"), ("Name", "string", "name,omitempty"), ("Symbol", "string", "symbol,omitempty"), ("Description", "string", "description,omitempty"), ("Uri", "string", "uri,omitempty"), ("UriHash", "string", "uri_hash,omitempty"), ("Data", "string", "data,omitempty"), ("Updater", "string", "updater,omitempty")])
]

/-- keeper and msg-server structs of the custom modules -/
def keeperStructs : List (String × List (String × String × String)) := [
  ("x/aol/keeper.Keeper", [("cdc", "codec.Codec", ""), ("storeKey", "storetypes.StoreKey", ""), ("memKey", "storetypes.StoreKey", "")]),
  ("x/aol/keeper.msgServer", [("<embedded>", "Keeper", "")]),
  ("x/burn/keeper.Keeper", [("bankKeeper", "types.BankKeeperI", "")]),
  ("x/did/keeper.Keeper", [("cdc", "codec.Codec", ""), ("storeKey", "storetypes.StoreKey", ""), ("memKey", "storetypes.StoreKey", "")]),
  ("x/did/keeper.msgServer", [("<embedded>", "Keeper", "")]),
  ("x/pnft/keeper.Keeper", [("cdc", "codec.BinaryCodec", ""), ("storeKey", "storetypes.StoreKey", ""), ("nftKeeper", "nftkeeper.Keeper", "")]),
  ("x/pnft/keeper.msgServer", [("<embedded>", "*Keeper", "")])
]

end Panacea.Expected
