import Panacea.Generated.Code
import Panacea.Model.Validate
/-!
# Refinement: the translated stateless validators and signer extraction of `x/aol/types`

`ValidateBasic` and `GetSigners` of the four AOL messages, as regenerated from the source (regular
expressions parsed by Go's own `regexp/syntax` and emitted as byte classes), return exactly what
`Validate.aolValidateBasic` / `Validate.aolSigners` return, for every message.
-/
namespace Panacea.Refine.AolTypes
open Panacea Panacea.Gen Panacea.Go

/-- the registered error a model validation outcome stands for -/
def verr : Outcome Unit → Go.Err
  | .ok _ => none
  | .err "aol/2:too-large" => some "aol/2"
  | .err "aol/3:invalid-topic" => some "aol/3"
  | .err "aol/4:invalid-moniker" => some "aol/4"
  | .err "sdk/7:invalid-address" => some "sdk/7"
  | _ => some "?"

theorem class_eq (b : UInt8) :
    Go.inRanges [(45, 46), (48, 57), (65, 90), (95, 95), (97, 122)] b = Validate.nameChar b := by
  unfold Go.inRanges Validate.nameChar
  simp only [List.any_cons, List.any_nil, Bool.or_false]
  have h := b.toNat_lt
  rw [Bool.eq_iff_iff]
  simp only [Bool.or_eq_true, Bool.and_eq_true, decide_eq_true_eq, UInt8.le_iff_toNat_le, beq_iff_eq]
  have e1 : (b = 0x2e) ↔ b.toNat = 46 := by
    constructor
    · intro h; subst h; rfl
    · intro h; apply UInt8.toNat_inj.mp; simpa using h
  have e2 : (b = 0x5f) ↔ b.toNat = 95 := by
    constructor
    · intro h; subst h; rfl
    · intro h; apply UInt8.toNat_inj.mp; simpa using h
  have e3 : (b = 0x2d) ↔ b.toNat = 45 := by
    constructor
    · intro h; subst h; rfl
    · intro h; apply UInt8.toNat_inj.mp; simpa using h
  rw [e1, e2, e3]
  simp only [UInt8.toNat_ofNat, UInt8.reduceToNat]
  omega

theorem all_class (s : Bytes) :
    s.all (Go.inRanges [(45, 46), (48, 57), (65, 90), (95, 95), (97, 122)]) = s.all Validate.nameChar := by
  induction s with
  | nil => rfl
  | cons b s ih => simp only [List.all_cons, class_eq, ih]

theorem validateTopicName_refines (t : Bytes) :
    aoltypes.validateTopicName t = P.ok (verr (Validate.validateTopicName t)) := by
  unfold aoltypes.validateTopicName Validate.validateTopicName Validate.maxTopicLength
  by_cases h : t.length > 70
  · have : decide (Go.len t > 70) = true := by simp [Go.len]; omega
    simp only [this, if_true, h]; rfl
  · have : ¬ (decide (Go.len t > 70) = true) := by simp [Go.len]; omega
    simp only [this, if_false, h, id, Go.reMatch, Go.Re.fullMatch, Go.Re.atom, Option.map_some, P.ok_bind, all_class]
    cases t with
    | nil => rfl
    | cons b s =>
      simp only [List.isEmpty_cons, Bool.not_false, Bool.true_and, ne_eq, reduceCtorEq, not_false_eq_true,
        decide_true]
      cases (b :: s).all Validate.nameChar <;> rfl

theorem validateMoniker_refines (t : Bytes) :
    aoltypes.validateMoniker t = P.ok (verr (Validate.validateMoniker t)) := by
  unfold aoltypes.validateMoniker Validate.validateMoniker Validate.maxMonikerLength
  by_cases h : t.length > 70
  · have : decide (Go.len t > 70) = true := by simp [Go.len]; omega
    simp only [this, if_true, h]; rfl
  · have : ¬ (decide (Go.len t > 70) = true) := by simp [Go.len]; omega
    simp only [this, if_false, h, id, Go.reMatch, Go.Re.fullMatch, Go.Re.atom, Option.map_some, P.ok_bind, all_class]
    cases t.all Validate.nameChar <;> rfl

theorem validateDescription_refines (t : Bytes) :
    aoltypes.validateDescription t = P.ok (verr (Validate.validateDescription t)) := by
  unfold aoltypes.validateDescription Validate.validateDescription Validate.maxDescriptionLength
  by_cases h : t.length > 5000
  · have : decide (Go.len t > 5000) = true := by simp [Go.len]; omega
    simp only [this, if_true, h]; rfl
  · have : ¬ (decide (Go.len t > 5000) = true) := by simp [Go.len]; omega
    simp only [this, if_false, h]; rfl

theorem validateRecordKey_refines (t : Bytes) :
    aoltypes.validateRecordKey t = P.ok (verr (Validate.validateRecordKey t)) := by
  unfold aoltypes.validateRecordKey Validate.validateRecordKey Validate.maxRecordKeyLength
  by_cases h : t.length > 70
  · have : decide (Go.len t > 70) = true := by simp [Go.len]; omega
    simp only [this, if_true, h]; rfl
  · have : ¬ (decide (Go.len t > 70) = true) := by simp [Go.len]; omega
    simp only [this, if_false, h]; rfl

theorem validateRecordValue_refines (t : Bytes) :
    aoltypes.validateRecordValue t = P.ok (verr (Validate.validateRecordValue t)) := by
  unfold aoltypes.validateRecordValue Validate.validateRecordValue Validate.maxRecordValueLength
  by_cases h : t.length > 5000
  · have : decide (Go.len t > 5000) = true := by simp [Go.len]; omega
    simp only [this, if_true, h]; rfl
  · have : ¬ (decide (Go.len t > 5000) = true) := by simp [Go.len]; omega
    simp only [this, if_false, h]; rfl


/-! ## `ValidateBasic` of the four messages -/

theorem verr_ok : verr (.ok ()) = none := rfl

theorem acc_snd (bech : Go.Bech32) (a : Bytes) :
    (Go.accAddressFromBech32 bech a).2 = verr (Validate.validAddr bech.dec a) ∨
    ((Go.accAddressFromBech32 bech a).2 = some "bech32" ∧ bech.dec a = none) := by
  unfold Go.accAddressFromBech32 Validate.validAddr
  cases bech.dec a with
  | none => right; exact ⟨rfl, rfl⟩
  | some x => left; rfl

theorem acc_isNone (bech : Go.Bech32) (a : Bytes) :
    ((Go.accAddressFromBech32 bech a).2).isNone = (bech.dec a).isSome := by
  unfold Go.accAddressFromBech32
  cases bech.dec a <;> rfl

/-- a step of the validators: run `v`, stop with its error if any -/
theorem step_ok {x : Outcome Unit} (h : verr x = none) : x = .ok () := by
  cases x with
  | ok u => rfl
  | err c => unfold verr at h; split at h <;> simp_all
  | panic s => unfold verr at h; simp at h

theorem bind_of_err {x : Outcome Unit} {k : Outcome Unit} (h : verr x ≠ none) (hp : ∀ s, x ≠ .panic s) :
    verr (x >>= fun _ => k) = verr x := by
  cases x with
  | ok u => exact absurd rfl h
  | err c => rfl
  | panic s => exact absurd rfl (hp s)

def toModelCreate (m : aoltypes.MsgCreateTopicRequest) : Aol.Msg := .createTopic m.TopicName m.Description m.OwnerAddress
def toModelAddWriter (m : aoltypes.MsgAddWriterRequest) : Aol.Msg :=
  .addWriter m.TopicName m.Moniker m.Description m.WriterAddress m.OwnerAddress
def toModelDeleteWriter (m : aoltypes.MsgDeleteWriterRequest) : Aol.Msg := .deleteWriter m.TopicName m.WriterAddress m.OwnerAddress
def toModelAddRecord (m : aoltypes.MsgAddRecordRequest) : Aol.Msg :=
  .addRecord m.TopicName m.Key m.Value m.WriterAddress m.OwnerAddress m.FeePayerAddress

/-- validation outcomes of the single-field validators never panic and are `ok` or one of the listed errors -/
theorem vtopic_cases (t : Bytes) : Validate.validateTopicName t = .ok () ∨
    (∃ c, Validate.validateTopicName t = .err c ∧ verr (.err c) ≠ none) := by
  unfold Validate.validateTopicName; split
  · right; exact ⟨_, rfl, by decide⟩
  · split
    · right; exact ⟨_, rfl, by decide⟩
    · left; rfl
theorem vmoniker_cases (t : Bytes) : Validate.validateMoniker t = .ok () ∨
    (∃ c, Validate.validateMoniker t = .err c ∧ verr (.err c) ≠ none) := by
  unfold Validate.validateMoniker; split
  · right; exact ⟨_, rfl, by decide⟩
  · split
    · right; exact ⟨_, rfl, by decide⟩
    · left; rfl
theorem vdesc_cases (t : Bytes) : Validate.validateDescription t = .ok () ∨
    (∃ c, Validate.validateDescription t = .err c ∧ verr (.err c) ≠ none) := by
  unfold Validate.validateDescription; split
  · right; exact ⟨_, rfl, by decide⟩
  · left; rfl
theorem vkey_cases (t : Bytes) : Validate.validateRecordKey t = .ok () ∨
    (∃ c, Validate.validateRecordKey t = .err c ∧ verr (.err c) ≠ none) := by
  unfold Validate.validateRecordKey; split
  · right; exact ⟨_, rfl, by decide⟩
  · left; rfl
theorem vvalue_cases (t : Bytes) : Validate.validateRecordValue t = .ok () ∨
    (∃ c, Validate.validateRecordValue t = .err c ∧ verr (.err c) ≠ none) := by
  unfold Validate.validateRecordValue; split
  · right; exact ⟨_, rfl, by decide⟩
  · left; rfl

theorem createTopic_validateBasic_refines (bech : Go.Bech32) (m : aoltypes.MsgCreateTopicRequest) :
    aoltypes.MsgCreateTopicRequest.ValidateBasic bech (some m) =
      P.ok (verr (Validate.aolValidateBasic bech.dec (toModelCreate m))) := by
  unfold aoltypes.MsgCreateTopicRequest.ValidateBasic Validate.aolValidateBasic toModelCreate
  simp only [Go.deref, id, P.ok_bind, validateTopicName_refines, validateDescription_refines, acc_isNone]
  rcases vtopic_cases m.TopicName with h1 | ⟨c1, h1, n1⟩
  · rw [h1]; simp only [verr_ok, Option.isNone_none, Bool.not_true, Bool.false_eq_true, if_false, Outcome.ok_bind]
    rcases vdesc_cases m.Description with h2 | ⟨c2, h2, n2⟩
    · rw [h2]; simp only [verr_ok, Option.isNone_none, Bool.not_true, Bool.false_eq_true, if_false, Outcome.ok_bind]
      unfold Validate.validAddr
      cases bech.dec m.OwnerAddress <;> rfl
    · rw [h2]; simp only [Outcome.err_bind]
      cases hv : verr (.err c2) with
      | none => exact absurd hv n2
      | some e => rfl
  · rw [h1]; simp only [Outcome.err_bind]
    cases hv : verr (.err c1) with
    | none => exact absurd hv n1
    | some e => rfl


theorem opt_cases' {α} (x : Option α) : x = none ∨ ∃ a, x = some a := by cases x <;> simp

/-- one field validator: on an error both sides stop with it; otherwise continue -/
macro "vstep " h:term : tactic => `(tactic|
  (have hh := $h
   rcases hh with h1 | ⟨c1, h1, n1⟩
   case' inr => rw [h1]; simp only [Outcome.err_bind]
   case' inr => cases hv : verr (.err c1) with
     | none => exact absurd hv n1
     | some e => rfl
   rw [h1]
   simp only [verr_ok, Option.isNone_none, Bool.not_true, Bool.false_eq_true, if_false, Outcome.ok_bind]))

theorem validAddr_none {dec : Bytes → Option Bytes} {a : Bytes} (h : dec a = none) :
    Validate.validAddr dec a = .err "sdk/7:invalid-address" := by unfold Validate.validAddr; rw [h]; rfl
theorem validAddr_some {dec : Bytes → Option Bytes} {a x : Bytes} (h : dec a = some x) :
    Validate.validAddr dec a = .ok () := by unfold Validate.validAddr; rw [h]; rfl

/-- one address check -/
macro "astep " bech:term ", " a:term : tactic => `(tactic|
  (have hh := Panacea.Refine.AolTypes.opt_cases' (Go.Bech32.dec $bech $a)
   rcases hh with hd | ⟨x, hd⟩
   case' inl => simp only [hd, validAddr_none hd, Option.isSome_none, Bool.not_false, if_true, Outcome.err_bind]
   case' inl => rfl
   simp only [hd, validAddr_some hd, Option.isSome_some, Bool.not_true, Bool.false_eq_true, if_false, Outcome.ok_bind]))

theorem addWriter_validateBasic_refines (bech : Go.Bech32) (m : aoltypes.MsgAddWriterRequest) :
    aoltypes.MsgAddWriterRequest.ValidateBasic bech (some m) =
      P.ok (verr (Validate.aolValidateBasic bech.dec (toModelAddWriter m))) := by
  unfold aoltypes.MsgAddWriterRequest.ValidateBasic Validate.aolValidateBasic toModelAddWriter
  simp only [Go.deref, id, P.ok_bind, validateTopicName_refines, validateMoniker_refines, validateDescription_refines,
    acc_isNone]
  vstep (vtopic_cases m.TopicName)
  vstep (vmoniker_cases m.Moniker)
  vstep (vdesc_cases m.Description)
  astep bech, m.WriterAddress
  astep bech, m.OwnerAddress
  rfl

theorem deleteWriter_validateBasic_refines (bech : Go.Bech32) (m : aoltypes.MsgDeleteWriterRequest) :
    aoltypes.MsgDeleteWriterRequest.ValidateBasic bech (some m) =
      P.ok (verr (Validate.aolValidateBasic bech.dec (toModelDeleteWriter m))) := by
  unfold aoltypes.MsgDeleteWriterRequest.ValidateBasic Validate.aolValidateBasic toModelDeleteWriter
  simp only [Go.deref, id, P.ok_bind, validateTopicName_refines, acc_isNone]
  vstep (vtopic_cases m.TopicName)
  astep bech, m.WriterAddress
  astep bech, m.OwnerAddress
  rfl

theorem addRecord_validateBasic_refines (bech : Go.Bech32) (m : aoltypes.MsgAddRecordRequest) :
    aoltypes.MsgAddRecordRequest.ValidateBasic bech (some m) =
      P.ok (verr (Validate.aolValidateBasic bech.dec (toModelAddRecord m))) := by
  unfold aoltypes.MsgAddRecordRequest.ValidateBasic Validate.aolValidateBasic toModelAddRecord
  simp only [Go.deref, id, P.ok_bind, validateTopicName_refines, validateRecordKey_refines,
    validateRecordValue_refines, acc_isNone]
  vstep (vtopic_cases m.TopicName)
  vstep (vkey_cases m.Key)
  vstep (vvalue_cases m.Value)
  astep bech, m.WriterAddress
  astep bech, m.OwnerAddress
  by_cases hf : m.FeePayerAddress = []
  · simp [hf]; rfl
  · simp only [ne_eq, hf, not_false_eq_true, decide_true, if_true]
    astep bech, m.FeePayerAddress
    rfl

/-! ## `GetSigners` -/

/-- what a model signer extraction stands for -/
def sres : Outcome (List Bytes) → P (List Bytes)
  | .ok l => .ok l
  | .err _ => .panic "err"
  | .panic _ => .panic "err"

theorem acc_fst (bech : Go.Bech32) (a x : Bytes) (h : bech.dec a = some x) : (Go.accAddressFromBech32 bech a).1 = x := by
  unfold Go.accAddressFromBech32; rw [h]

macro "sstep " bech:term ", " a:term : tactic => `(tactic|
  (have hh := Panacea.Refine.AolTypes.opt_cases' (Go.Bech32.dec $bech $a)
   rcases hh with hd | ⟨x, hd⟩
   case' inl => simp only [hd, Option.isSome_none, Bool.not_false, if_true, P.panic_bind]
   case' inl => rfl
   simp only [hd, acc_fst _ _ _ hd, Option.isSome_some, Bool.not_true, Bool.false_eq_true, if_false]))

theorem createTopic_getSigners_refines (bech : Go.Bech32) (m : aoltypes.MsgCreateTopicRequest) :
    aoltypes.MsgCreateTopicRequest.GetSigners bech (some m) = sres (Validate.aolSigners bech.dec (toModelCreate m)) := by
  unfold aoltypes.MsgCreateTopicRequest.GetSigners Validate.aolSigners toModelCreate
  simp only [Go.deref, id, P.ok_bind, acc_isNone]
  sstep bech, m.OwnerAddress
  rfl

theorem addWriter_getSigners_refines (bech : Go.Bech32) (m : aoltypes.MsgAddWriterRequest) :
    aoltypes.MsgAddWriterRequest.GetSigners bech (some m) = sres (Validate.aolSigners bech.dec (toModelAddWriter m)) := by
  unfold aoltypes.MsgAddWriterRequest.GetSigners Validate.aolSigners toModelAddWriter
  simp only [Go.deref, id, P.ok_bind, acc_isNone]
  sstep bech, m.OwnerAddress
  rfl

theorem deleteWriter_getSigners_refines (bech : Go.Bech32) (m : aoltypes.MsgDeleteWriterRequest) :
    aoltypes.MsgDeleteWriterRequest.GetSigners bech (some m) = sres (Validate.aolSigners bech.dec (toModelDeleteWriter m)) := by
  unfold aoltypes.MsgDeleteWriterRequest.GetSigners Validate.aolSigners toModelDeleteWriter
  simp only [Go.deref, id, P.ok_bind, acc_isNone]
  sstep bech, m.OwnerAddress
  rfl

/-- the add-record signers: `[fee payer, writer]` when a fee payer is named, `[writer]` otherwise (C15, C02) -/
theorem addRecord_getSigners_refines (bech : Go.Bech32) (m : aoltypes.MsgAddRecordRequest) :
    aoltypes.MsgAddRecordRequest.GetSigners bech (some m) = sres (Validate.aolSigners bech.dec (toModelAddRecord m)) := by
  unfold aoltypes.MsgAddRecordRequest.GetSigners Validate.aolSigners toModelAddRecord
  simp only [Go.deref, id, P.ok_bind, acc_isNone]
  sstep bech, m.WriterAddress
  by_cases hf : m.FeePayerAddress = []
  · simp [hf]; rfl
  · simp only [ne_eq, hf, not_false_eq_true, decide_true, if_true]
    sstep bech, m.FeePayerAddress
    rfl

end Panacea.Refine.AolTypes
