import Panacea.Refine.DidReach
/-!
# The imported chain's own export is identical (x/did)

C08 also says that the chain started from an export exports the same genesis again.  For x/did on the translated code:
the world `InitGenesis` builds from `ExportGenesis w` has the same identifiers in its store, each holding the re-encoded
entry, so its `ExportGenesis` returns exactly the genesis state it was started from.
-/
namespace Panacea.Refine.DidKeeper
open Panacea Panacea.Gen Panacea.Go Panacea.Refine.DidTypes
open Panacea.Refine.Aol (store_setStore)

section
variable [Go.Proto didtypes.DIDDocument]
variable [Go.Proto didtypes.DIDDocumentWithSeq] [Go.LawfulProto didtypes.DIDDocumentWithSeq]
set_option linter.unusedSectionVars false

theorem store_foldl_putD (l : List (Bytes × didtypes.DIDDocumentWithSeq)) : ∀ w : World,
    (l.foldl putD w).store "did" =
      (l.map fun e => (([0] : Bytes) ++ e.1, (Go.Proto.marshal e.2 : Bytes))).foldl (fun (m : Map Bytes) e => m.set e.1 e.2) (w.store "did") := by
  induction l with
  | nil => intro w; rfl
  | cons e l ih =>
    intro w
    simp only [List.foldl_cons, List.map_cons]
    rw [ih (putD w e)]
    unfold putD
    rw [store_setStore]

theorem prefixView_prefixed {V : Type} (p : Bytes) (l : List (Bytes × V)) :
    Map.prefixView (l.map fun e => (p ++ e.1, e.2)) p = l := by
  unfold Map.prefixView
  induction l with
  | nil => rfl
  | cons e l ih =>
    have hp : p.isPrefixOf (p ++ e.1) = true := (Map.isPrefixOf_iff' _ _).mpr (List.prefix_append _ _)
    simp only [List.map_cons, List.filter_cons, hp, if_true, List.drop_left']
    rw [ih]

theorem sorted_prefixed {V : Type} (p : Bytes) (l : List (Bytes × V)) (hs : Map.Sorted l) :
    Map.Sorted (l.map fun e => (p ++ e.1, e.2)) := by
  unfold Map.Sorted Map.keys at *
  rw [List.map_map, List.pairwise_map]
  have h1 : l.Pairwise (fun a b => Bytes.lt a.1 b.1 = true) := List.pairwise_map.mp hs
  exact h1.imp (fun {a b} h => by simpa [Map.lt_append_left] using h)

/-- a world whose `did` store is exactly the re-encoded entries `l` exports `l` -/
theorem exportEntries_of_store (w' : World) (l : List (Bytes × didtypes.DIDDocumentWithSeq))
    (hst : w'.store "did" = l.map fun e => (([0] : Bytes) ++ e.1, (Go.Proto.marshal e.2 : Bytes)))
    (hs : Map.Sorted (w'.store "did")) : exportEntries w' = l := by
  have hpv : (w'.store "did").prefixView [0] = l.map fun e => (e.1, (Go.Proto.marshal e.2 : Bytes)) := by
    rw [hst]
    have := prefixView_prefixed ([0] : Bytes) (l.map fun e => (e.1, (Go.Proto.marshal e.2 : Bytes)))
    simpa [List.map_map, Function.comp_def] using this
  unfold exportEntries
  rw [hpv, List.map_map]
  conv => rhs; rw [← List.map_id l]
  apply List.map_congr_left
  intro e he
  simp only [Function.comp_apply, id]
  have hm : (([0] : Bytes) ++ e.1, (Go.Proto.marshal e.2 : Bytes)) ∈ w'.store "did" := by
    rw [hst]; exact List.mem_map.mpr ⟨e, he, rfl⟩
  have hg := Map.get_of_mem_sorted hs hm
  unfold readD
  rw [hg]
  simp only [Go.LawfulProto.unmarshal_marshal, Option.getD_some]

theorem sorted_reencoded (w : World) (hwf : WFD w) :
    Map.Sorted ((exportEntries w).map fun e => (([0] : Bytes) ++ e.1, (Go.Proto.marshal e.2 : Bytes))) := by
  have h0 : Map.Sorted ((exportEntries w).map fun e => (e.1, (Go.Proto.marshal e.2 : Bytes))) := by
    have := prefixView_sorted (w.store "did") hwf.sorted [0]
    unfold exportEntries Map.Sorted Map.keys at *
    simpa [List.map_map, Function.comp_def] using this
  have := sorted_prefixed ([0] : Bytes) _ h0
  simpa [List.map_map, Function.comp_def] using this

/-- the raw store of the world imported from the export of `w`: the same identifiers, each with its entry re-encoded -/
theorem imported_store (w : World) (hwf : WFD w) :
    ((exportEntries w).foldl putD ({} : World)).store "did" =
      (exportEntries w).map fun e => (([0] : Bytes) ++ e.1, (Go.Proto.marshal e.2 : Bytes)) := by
  rw [store_foldl_putD]
  have h0 : ({} : World).store "did" = [] := rfl
  rw [h0]
  exact Panacea.C08.rebuild_sorted _ ([] : Map Bytes) (by simpa using sorted_reencoded w hwf)

/-- **the second export**: what the imported world exports is what it was imported from -/
theorem exportEntries_imported (w : World) (hwf : WFD w) :
    exportEntries ((exportEntries w).foldl putD ({} : World)) = exportEntries w :=
  exportEntries_of_store _ _ (imported_store w hwf) (by rw [imported_store w hwf]; exact sorted_reencoded w hwf)

theorem wfd_foldl_putD (cf : CodecFacts) (l : List (Bytes × didtypes.DIDDocumentWithSeq))
    (hl : ∀ e ∈ l, ∀ d, e.2.Document = some d → NoNil d) : ∀ w : World, WFD w → WFD (l.foldl putD w) := by
  induction l with
  | nil => intro w h; exact h
  | cons e l ih =>
    intro w h
    simp only [List.foldl_cons]
    exact ih (fun e' he' => hl e' (List.mem_cons_of_mem _ he')) _ (wfd_set w h cf e.1 e.2 (hl e (by simp)))

/-- **C08 for x/did, complete**: export, import into an empty store, and the imported world's own export — identical to
the first.  (`cf`: the three facts about the protobuf encoding of documents that the handler theorems use too.) -/
theorem genesis_roundtrip_reexport (cf : CodecFacts) (w : World) (hwf : WFD w) :
    ∃ g w', did.ExportGenesis w = P.ok (some g, w) ∧ did.InitGenesis g ({} : World) = P.ok w' ∧ absD w' = absD w ∧
      did.ExportGenesis w' = P.ok (some g, w') := by
  refine ⟨{ Documents := entriesOf (exportEntries w) }, (exportEntries w).foldl putD ({} : World),
    exportGenesis_run w hwf, initGenesis_run _ _, ?_, ?_⟩
  · obtain ⟨g, w', he, hi, ha⟩ := genesis_roundtrip w hwf
    rw [exportGenesis_run w hwf] at he
    cases he
    rw [initGenesis_run] at hi
    cases hi
    exact ha
  · have hwf' : WFD ((exportEntries w).foldl putD ({} : World)) := by
      apply wfd_foldl_putD cf _ _ _ wfd_empty
      intro e he d hd
      unfold exportEntries at he
      obtain ⟨e0, _, rfl⟩ := List.mem_map.mp he
      exact read_noNil w e0.1 hwf d hd
    rw [exportGenesis_run _ hwf', exportEntries_imported w hwf]

/-- … and for every world reachable by well-formed DID messages -/
theorem reachable_genesis_roundtrip_reexport (crypto : Go.SigScheme) (cf : CodecFacts) (ops : List DMsg)
    (hops : ∀ op ∈ ops, op.WellFormed) :
    ∃ g w', did.ExportGenesis (dRun crypto ({} : World) ops) = P.ok (some g, dRun crypto ({} : World) ops) ∧
      did.InitGenesis g ({} : World) = P.ok w' ∧ absD w' = absD (dRun crypto ({} : World) ops) ∧
      did.ExportGenesis w' = P.ok (some g, w') :=
  genesis_roundtrip_reexport cf _ (dRun_wfd crypto cf ops hops _ wfd_empty)

end
end Panacea.Refine.DidKeeper
