import Panacea.Refine.DidKeeper
import Panacea.Properties.C08
import Panacea.Properties.C09
/-!
# Genesis import and export of the translated `x/did` module

`did.InitGenesis` ranges over a Go map.  The translator renders `map[string]*T` as the list of its entries in *some*
order (`Go.GoMap`), so the theorem about the import is stated for every list: the registry the resulting world stands
for is the model's `didImport` of the entries (a fold of `set`), and `Properties/C08.import_get` /
`C09.genesis_import_order_independent` say that fold does not depend on the order when the keys are distinct — which
they are in a Go map.  `InitGenesis` dereferences every entry (a `null` entry is a nil dereference: the panic is in
the translation, `Go.deref`), so the entries are taken non-nil here.
-/
namespace Panacea.Refine.DidKeeper
open Panacea Panacea.Gen Panacea.Go Panacea.Refine.DidTypes
open Panacea.Refine.Aol (table table_get table_set_same store_setStore)
section
variable [Go.Proto didtypes.DIDDocument]
variable [Go.Proto didtypes.DIDDocumentWithSeq] [Go.LawfulProto didtypes.DIDDocumentWithSeq]
set_option linter.unusedSectionVars false

/-- the entries of a genesis map, none of them nil -/
def entriesOf (l : List (Bytes × didtypes.DIDDocumentWithSeq)) : Go.GoMap (Option didtypes.DIDDocumentWithSeq) :=
  l.map fun e => (e.1, some e.2)

/-- one entry written by `SetDIDDocument` -/
def putD (w : World) (e : Bytes × didtypes.DIDDocumentWithSeq) : World :=
  w.setStore "did" ((w.store "did").set ([0] ++ e.1) (Go.Proto.marshal e.2))

theorem initGenesis_run (l : List (Bytes × didtypes.DIDDocumentWithSeq)) :
    ∀ w : World, did.InitGenesis { Documents := entriesOf l } w = P.ok (l.foldl putD w) := by
  unfold did.InitGenesis entriesOf
  induction l with
  | nil => intro w; rfl
  | cons e l ih =>
    intro w
    have := ih (putD w e)
    simp only [List.map_cons, List.forIn_cons, deref_some, P.ok_bind, setDoc_run, List.foldl_cons] at this ⊢
    exact this

theorem sorted_putD (w : World) (e : Bytes × didtypes.DIDDocumentWithSeq) (hs : (w.store "did").Sorted) :
    ((putD w e).store "did").Sorted := by
  unfold putD; rw [store_setStore]; exact Map.sorted_set _ _ _ hs

theorem abs_putD (w : World) (e : Bytes × didtypes.DIDDocumentWithSeq) (hs : (w.store "did").Sorted) :
    absD (putD w e) = (absD w).set e.1 (toDWS e.2) := by
  unfold absD putD
  rw [store_setStore, table_set_same _ _ hs, getD_marshal']

/-- **import**: the registry after `InitGenesis` is the model's fold of `set` over the entries, in the order the map
happened to be visited -/
theorem initGenesis_abs (l : List (Bytes × didtypes.DIDDocumentWithSeq)) :
    ∀ w : World, (w.store "did").Sorted →
      absD (l.foldl putD w) = l.foldl (fun s e => s.set e.1 (toDWS e.2)) (absD w) ∧ ((l.foldl putD w).store "did").Sorted := by
  induction l with
  | nil => intro w hs; exact ⟨rfl, hs⟩
  | cons e l ih =>
    intro w hs
    obtain ⟨h1, h2⟩ := ih (putD w e) (sorted_putD w e hs)
    simp only [List.foldl_cons]
    rw [h1, abs_putD w e hs]
    exact ⟨rfl, h2⟩

/-- from the empty store: exactly `Genesis.didImport` of the (converted) entries -/
theorem initGenesis_empty (l : List (Bytes × didtypes.DIDDocumentWithSeq)) :
    ∃ w', did.InitGenesis { Documents := entriesOf l } ({} : World) = P.ok w' ∧
      absD w' = Genesis.didImport (l.map fun e => (e.1, toDWS e.2)) := by
  refine ⟨_, initGenesis_run l {}, ?_⟩
  have hs : ((({} : World)).store "did").Sorted := by
    show Map.Sorted ([] : Map Bytes); simp [Map.Sorted, Map.keys]
  rw [(initGenesis_abs l {} hs).1]
  unfold Genesis.didImport
  rw [List.foldl_map]
  rfl

/-! ## export -/

theorem prefixView_sorted {V : Type} (m : Map V) (hs : m.Sorted) (p : Bytes) : Map.Sorted (m.prefixView p) := by
  unfold Map.Sorted Map.keys Map.prefixView at *
  rw [List.map_map, List.pairwise_map]
  have h1 : m.Pairwise (fun a b => Bytes.lt a.1 b.1 = true) := List.pairwise_map.mp hs
  have h2 := h1.filter (fun e => p.isPrefixOf e.1)
  refine List.Pairwise.imp_of_mem ?_ h2
  intro a b ha hb hlt
  have pa : p.isPrefixOf a.1 = true := (List.mem_filter.mp ha).2
  have pb : p.isPrefixOf b.1 = true := (List.mem_filter.mp hb).2
  obtain ⟨ra, hra⟩ := (Map.isPrefixOf_iff' _ _).mp pa
  obtain ⟨rb, hrb⟩ := (Map.isPrefixOf_iff' _ _).mp pb
  simp only [Function.comp_apply]
  rw [← hra, ← hrb] at hlt ⊢
  simp only [List.drop_left']
  rw [Map.lt_append_left] at hlt
  simpa using hlt

theorem sorted_nodup {V : Type} (m : Map V) (hs : m.Sorted) : m.keys.Nodup := by
  unfold Map.Sorted at hs
  exact hs.imp (fun h => Bytes.lt_ne _ _ h)

/-- `for x in l { acc = append(acc, f(x)) }` -/
theorem forIn_append {α β : Type} (l : List α) (f : α → β) (body : α → List β → P (ForInStep (List β)))
    (hb : ∀ x ∈ l, ∀ acc, body x acc = P.ok (.yield (acc ++ [f x]))) :
    ∀ acc, forIn l acc body = P.ok (acc ++ l.map f) := by
  induction l with
  | nil => intro acc; simp only [List.forIn_nil, List.map_nil, List.append_nil]; rfl
  | cons x l ih =>
    intro acc
    simp only [List.forIn_cons]
    rw [hb x (by simp) acc]
    simp only [P.ok_bind]
    rw [ih (fun y hy => hb y (List.mem_cons_of_mem _ hy))]
    simp

theorem listDIDs_run (w : World) :
    didkeeper.Keeper.ListDIDs w = P.ok (((w.store "did").prefixView [0]).map (·.1), w) := by
  unfold didkeeper.Keeper.ListDIDs
  have hm : (Go.make (0 : Int) : P (List Bytes)) = P.ok [] := rfl
  simp only [hm, P.ok_bind]
  rw [forIn_append _ (fun kv : Bytes × Bytes => kv.1) _ ?_ []]
  · simp only [P.ok_bind, P.pure_eq, List.nil_append, Go.Store.iterate, Go.prefixStore, Go.kvStore, didtypes.DIDKeyPrefix,
      List.nil_append, List.append_nil, List.map_map, Function.comp_def]
  · intro x _ acc; rfl

theorem mapSet_fresh {α : Type} (m : Go.GoMap α) (k : Bytes) (v : α) (h : k ∉ m.map (·.1)) :
    Go.mapSet m k v = m ++ [(k, v)] := by
  unfold Go.mapSet
  have : m.any (fun e => e.1 == k) = false := by
    rw [List.any_eq_false]
    intro e he hek
    exact h (List.mem_map.mpr ⟨e, he, by simpa using hek⟩)
  rw [this]; rfl

theorem forIn_fold_inv' {α σ : Type} (l : List α) (f : σ → α → σ) (I : σ → Prop) (body : α → σ → P (ForInStep σ))
    (hb : ∀ x ∈ l, ∀ s, I s → body x s = P.ok (.yield (f s x)) ∧ I (f s x)) :
    ∀ s, I s → forIn l s body = P.ok (l.foldl f s) := by
  induction l with
  | nil => intro s _; rfl
  | cons x l ih =>
    intro s hs
    simp only [List.forIn_cons, List.foldl_cons]
    obtain ⟨h1, h2⟩ := hb x (by simp) s hs
    rw [h1]
    simp only [P.ok_bind]
    exact ih (fun y hy => hb y (List.mem_cons_of_mem _ hy)) _ h2

/-- the entries `ExportGenesis` writes into the genesis map: every stored DID with what `GetDIDDocument` returns -/
def exportEntries (w : World) : List (Bytes × didtypes.DIDDocumentWithSeq) :=
  ((w.store "did").prefixView [0]).map fun e => (e.1, readD w e.1)

theorem fold_mapSet (w : World) (dids : List Bytes) (hd : dids.Nodup) :
    ∀ acc : Go.GoMap (Option didtypes.DIDDocumentWithSeq), (∀ k ∈ dids, k ∉ acc.map (·.1)) →
      dids.foldl (fun (s : World × Go.GoMap (Option didtypes.DIDDocumentWithSeq)) did =>
        (s.1, Go.mapSet s.2 did (some (readD w did)))) (w, acc) =
      (w, acc ++ dids.map (fun did => (did, some (readD w did)))) := by
  induction dids with
  | nil => intro acc _; simp
  | cons d ds ih =>
    intro acc hacc
    simp only [List.foldl_cons, List.map_cons]
    rw [mapSet_fresh acc d _ (hacc d (by simp))]
    have hd' := List.nodup_cons.mp hd
    rw [ih hd'.2 (acc ++ [(d, some (readD w d))]) ?_]
    · simp [List.append_assoc]
    · intro k hk hmem
      simp only [List.map_append, List.map_cons, List.map_nil, List.mem_append, List.mem_singleton] at hmem
      rcases hmem with h | h
      · exact hacc k (List.mem_cons_of_mem _ hk) h
      · subst h; exact hd'.1 hk

/-- **export**: the genesis map holds, in store order, every DID with its stored document and sequence -/
theorem exportGenesis_run (w : World) (hwf : WFD w) :
    did.ExportGenesis w = P.ok (some { Documents := entriesOf (exportEntries w) }, w) := by
  unfold did.ExportGenesis
  simp only [listDIDs_run, P.ok_bind]
  have hnd : (((w.store "did").prefixView [0]).map (·.1)).Nodup :=
    sorted_nodup _ (prefixView_sorted _ hwf.sorted [0])
  rw [forIn_fold_inv' (((w.store "did").prefixView [0]).map (·.1))
    (fun (s : World × Go.GoMap (Option didtypes.DIDDocumentWithSeq)) did => (s.1, Go.mapSet s.2 did (some (readD w did))))
    (fun s => s.1 = w) _ ?_ (w, []) rfl]
  · rw [fold_mapSet w _ hnd [] (by intro k _ h; cases h)]
    simp only [P.ok_bind, P.pure_eq, List.nil_append]
    unfold entriesOf exportEntries
    simp only [List.map_map, Function.comp_def]
  · intro did _ s hs
    obtain ⟨sw, sm⟩ := s
    have : sw = w := hs
    subst this
    simp only [didtypes.GenesisDIDDocumentKey.Marshal, P.pure_eq, P.ok_bind, getDoc_run sw did hwf]
    constructor <;> first | rfl | trivial

theorem exportEntries_abs (w : World) (hwf : WFD w) :
    (exportEntries w).map (fun e => (e.1, toDWS e.2)) = absD w := by
  unfold exportEntries absD table Map.mapVals
  rw [List.map_map]
  apply List.map_congr_left
  intro e he
  have hm : ([0] ++ e.1, e.2) ∈ w.store "did" := Map.mem_prefixView.mp he
  have hg := Map.get_of_mem_sorted hwf.sorted hm
  simp only [Function.comp_apply]
  unfold readD
  rw [hg]

theorem absD_sorted (w : World) (hwf : WFD w) : Map.Sorted (absD w) := by
  have := prefixView_sorted (w.store "did") hwf.sorted [0]
  unfold absD table Map.mapVals Map.Sorted Map.keys at *
  simpa [List.map_map, Function.comp_def] using this

/-- **C08 for x/did on the translated code**: importing what `ExportGenesis` wrote, into an empty store, gives a world
that stands for the same registry — every document, every sequence, every tombstone — whatever order the genesis
map is visited in (`Properties/C08.import_get`, `C09.genesis_import_order_independent` for the other orders). -/
theorem genesis_roundtrip (w : World) (hwf : WFD w) :
    ∃ g w', did.ExportGenesis w = P.ok (some g, w) ∧ did.InitGenesis g ({} : World) = P.ok w' ∧ absD w' = absD w := by
  obtain ⟨w', hrun, habs⟩ := initGenesis_empty (exportEntries w)
  refine ⟨_, w', exportGenesis_run w hwf, hrun, ?_⟩
  rw [habs, exportEntries_abs w hwf]
  exact Panacea.C08.did_import_export (absD w) (absD_sorted w hwf)

/-- **C09 for x/did's genesis import on the translated code**: `InitGenesis` ranges over a Go map, so the order of
visits is whatever the runtime picks; for entries with distinct keys (what `GenesisState.Validate` enforces) every
order `l'` of the same entries leaves every identifier reading the entry it was given. -/
theorem initGenesis_order_independent (l l' : List (Bytes × didtypes.DIDDocumentWithSeq))
    (hd : (l.map (·.1)).Nodup) (hp : l'.Perm l) :
    ∃ w', did.InitGenesis { Documents := entriesOf l' } ({} : World) = P.ok w' ∧
      ∀ k d, (k, d) ∈ l → Map.get (absD w') k = some (toDWS d) := by
  obtain ⟨w', hrun, habs⟩ := initGenesis_empty l'
  refine ⟨w', hrun, ?_⟩
  intro k d hm
  rw [habs]
  unfold Genesis.didImport
  apply Panacea.C09.genesis_import_order_independent (l.map fun e => (e.1, toDWS e.2))
  · simpa [List.map_map, Function.comp_def] using hd
  · exact List.mem_map.mpr ⟨(k, d), hm, rfl⟩
  · exact hp.map _

end
end Panacea.Refine.DidKeeper
