import Panacea.Generated.Code
import Panacea.Model.Bank
/-!
# Refinement: the translated `x/burn` keeper is the model's end-blocker

`Gen.burnkeeper.Keeper.BurnCoins` is regenerated from `/repo/x/burn/keeper/burn.go` on every run; x/bank is the
hand-written model `Bank` (tie D).  The theorem says that, for the burn address the chain is configured with,
the translated function leaves the bank in exactly the state `Bank.burnEndBlock` describes — the function the
theorems of C07 are about — whatever it returns (the end-blocker only logs the error).
-/
namespace Panacea.Refine.Burn
open Panacea Panacea.Gen Panacea.Go

def burnName : Bytes := [98, 117, 114, 110]   -- "burn"

theorem burnCoins_refines (bech : Go.Bech32) (acc burnAddr : Bytes) (w : BankWorld)
    (hdec : bech.dec acc = some burnAddr) :
    ∃ e, burnkeeper.Keeper.BurnCoins bech acc w =
      P.ok (e, { w with st := Bank.burnEndBlock w.st burnAddr (w.moduleAddr burnName) }) := by
  unfold burnkeeper.Keeper.BurnCoins Bank.burnEndBlock
  simp only [Go.accAddressFromBech32, hdec, Option.isNone_none, Bool.not_true, Bool.false_eq_true, if_false,
    Go.bankSpendableCoins]
  cases hc : Bank.spendableCoins w.st burnAddr with
  | nil => exact ⟨_, rfl⟩
  | cons c cs =>
    simp only [List.isEmpty_cons, Bool.false_eq_true, if_false, Go.bankSendToModule, Go.bankBurnCoins]
    have hne : ¬ (c :: cs = []) := by simp
    rw [if_neg hne]
    obtain ⟨s1, ok, hs⟩ : ∃ s1 ok, Bank.sendCoins w.st burnAddr (w.moduleAddr burnName) (c :: cs) = (s1, ok) :=
      ⟨_, _, rfl⟩
    have hs' : Bank.sendCoins w.st burnAddr (w.moduleAddr [98, 117, 114, 110]) (c :: cs) = (s1, ok) := hs
    simp only [hs', hs]
    cases ok with
    | true => refine ⟨none, ?_⟩; rfl
    | false => refine ⟨some "sdk/5", ?_⟩; rfl

/-- an address that does not decode: nothing happens (the end-blocker logs the error) -/
theorem burnCoins_bad_address (bech : Go.Bech32) (acc : Bytes) (w : BankWorld) (hdec : bech.dec acc = none) :
    ∃ e, burnkeeper.Keeper.BurnCoins bech acc w = P.ok (e, w) := by
  unfold burnkeeper.Keeper.BurnCoins
  simp only [Go.accAddressFromBech32, hdec]
  exact ⟨_, rfl⟩

end Panacea.Refine.Burn
