import Panacea.Refine.AolExport
import Panacea.Lemmas.AolKeys
/-!
# The genesis round trip for every reachable world

`Refine/AolExport.genesis_roundtrip` has two premises about the world: it is well-formed, and its store keys are
encodings of admitted tuples.  Both are invariants of the translated message server run from the empty store
(`Refine/Aol.genRun_abs`, `Lemmas/AolKeys.keysInv_run`), for histories whose topic names contain no `/` — which
stateless validation guarantees (`C16.admitted_topic_has_no_slash`).  So the round trip holds, without premises about the
state, for every world the chain can reach.
-/
namespace Panacea.Refine.AolExport
open Panacea Panacea.Gen Panacea.Go Panacea.Refine.Aol Panacea.Refine.AolGenesis

section
variable [Go.Proto aoltypes.Owner] [Go.Proto aoltypes.Topic] [Go.Proto aoltypes.Writer] [Go.Proto aoltypes.Record]
variable [Go.LawfulProto aoltypes.Owner] [Go.LawfulProto aoltypes.Topic] [Go.LawfulProto aoltypes.Writer]
variable [Go.LawfulProto aoltypes.Record]
variable (bech : Go.Bech32)
set_option linter.unusedSectionVars false

theorem admittedAt_of_keys {G V : Type} [Inhabited G] [Go.Proto G] (conv : G → V) (kind : CompKey.Kind) (pfx : UInt8) (w : World)
    (h : C08.KeysAdmitted kind (table conv (w.store "aol") [pfx])) : AdmittedAt kind pfx w := by
  intro e he
  apply h e.1
  rw [table_eq]
  unfold Map.keys
  simp only [List.map_map, List.mem_map, Function.comp_apply]
  exact ⟨e, he, rfl⟩

/-- **C08 for x/aol, for every reachable world.**  Run the translated message server from the empty store over any list
of (block time, message) pairs whose topic names contain no `/`; on the world it reaches, `ExportGenesis` succeeds, and
`InitGenesis` of the result on the empty store — maps visited in any order — succeeds and stands for the same state. -/
theorem reachable_genesis_roundtrip (hc : (toCodec bech).Lawful) (ops : List (Int × GMsg))
    (ht : ∀ op ∈ ops, CompKey.slash ∉ op.2.toModel.topic) :
    ∃ g w', aol.ExportGenesis bech (genRun bech ({} : World) ops) = P.ok (some g, genRun bech ({} : World) ops) ∧
      aol.InitGenesis bech g ({} : World) = P.ok w' ∧ WF w' ∧ abs w' = abs (genRun bech ({} : World) ops) := by
  obtain ⟨habs, hwf⟩ := genRun_abs bech ops ({} : World) AolGenesis.wf_empty
  have hinv : Aol.KeysInv (abs (genRun bech ({} : World) ops)) := by
    rw [habs, AolGenesis.abs_empty]
    apply Aol.keysInv_run (toCodec bech) hc
    · intro op hop
      obtain ⟨op0, h0, rfl⟩ := List.mem_map.mp hop
      exact ht op0 h0
    · exact Aol.keysInv_empty
  exact genesis_roundtrip bech hc _ hwf
    (admittedAt_of_keys toOwner .owner 0 _ hinv.owners) (admittedAt_of_keys toTopic .topic 1 _ hinv.topics)
    (admittedAt_of_keys toWriter .writer 2 _ hinv.writers) (admittedAt_of_keys toRecord .record 3 _ hinv.records)

/-! ## the imported chain's own export is identical -/

theorem map_inj_of_injective {α β : Type} (g : α → β) (hg : ∀ a b, g a = g b → a = b) :
    ∀ (l1 l2 : List α), l1.map g = l2.map g → l1 = l2
  | [], [], _ => rfl
  | [], _ :: _, h => by simp at h
  | _ :: _, [], h => by simp at h
  | a :: l1, b :: l2, h => by
    simp only [List.map_cons, List.cons.injEq] at h
    rw [hg a b h.1, map_inj_of_injective g hg l1 l2 h.2]

/-- two worlds whose tables under a prefix stand for the same model table (through an injective conversion) export the
same entries of that table -/
theorem expList_congr {G V : Type} [Inhabited G] [Go.Proto G] (conv : G → V) (hc : ∀ a b, conv a = conv b → a = b)
    (kind : CompKey.Kind) (pfx : UInt8) (w w' : World)
    (h : table conv (w'.store "aol") [pfx] = table conv (w.store "aol") [pfx]) :
    expList bech G kind pfx w' = expList bech G kind pfx w := by
  rw [table_eq, table_eq] at h
  have hl : ((w'.store "aol").prefixView [pfx]).map (fun e => (e.1, ((Go.Proto.unmarshal e.2 : Option G).getD default))) =
      ((w.store "aol").prefixView [pfx]).map (fun e => (e.1, ((Go.Proto.unmarshal e.2 : Option G).getD default))) := by
    apply map_inj_of_injective (fun (p : Bytes × G) => (p.1, conv p.2))
    · intro a b hab
      obtain ⟨h1, h2⟩ := Prod.mk.inj hab
      exact Prod.ext h1 (hc _ _ h2)
    · simpa [List.map_map, Function.comp_def] using h
  unfold expList
  have := congrArg (List.map (fun (p : Bytes × G) => (CompKey.encodeToString (toCodec bech) kind (compsOf kind p.1), p.2))) hl
  simpa [List.map_map, Function.comp_def] using this

theorem toOwner_inj : ∀ a b : aoltypes.Owner, toOwner a = toOwner b → a = b := by
  intro a b h; cases a; cases b; simp only [toOwner, Aol.Owner.mk.injEq] at h; simp [h]
theorem toTopic_inj : ∀ a b : aoltypes.Topic, toTopic a = toTopic b → a = b := by
  intro a b h; cases a; cases b; simp only [toTopic, Aol.Topic.mk.injEq] at h; simp [h]
theorem toWriter_inj : ∀ a b : aoltypes.Writer, toWriter a = toWriter b → a = b := by
  intro a b h; cases a; cases b; simp only [toWriter, Aol.Writer.mk.injEq] at h; simp [h]
theorem toRecord_inj : ∀ a b : aoltypes.Record, toRecord a = toRecord b → a = b := by
  intro a b h; cases a; cases b; simp only [toRecord, Aol.Record.mk.injEq] at h; simp [h]

/-- the genesis state `ExportGenesis` returns on `w` -/
def genOf (w : World) : aoltypes.GenesisState :=
  { Owners := ent (expList bech aoltypes.Owner .owner 0 w), Topics := ent (expList bech aoltypes.Topic .topic 1 w),
    Writers := ent (expList bech aoltypes.Writer .writer 2 w), Records := ent (expList bech aoltypes.Record .record 3 w) }

/-- **C08 for x/aol, complete**: export, import into an empty store (maps in any order), the same state — and the imported
world's own export is the genesis state it was started from. -/
theorem genesis_roundtrip_reexport (hc : (toCodec bech).Lawful) (w : World) (hwf : WF w)
    (a0 : AdmittedAt .owner 0 w) (a1 : AdmittedAt .topic 1 w) (a2 : AdmittedAt .writer 2 w) (a3 : AdmittedAt .record 3 w) :
    ∃ g w', aol.ExportGenesis bech w = P.ok (some g, w) ∧ aol.InitGenesis bech g ({} : World) = P.ok w' ∧
      WF w' ∧ abs w' = abs w ∧ aol.ExportGenesis bech w' = P.ok (some g, w') := by
  obtain ⟨g, w', he, hi, hwf', habs⟩ := genesis_roundtrip bech hc w hwf a0 a1 a2 a3
  refine ⟨g, w', he, hi, hwf', habs, ?_⟩
  rw [exportGenesis_ent bech hc w hwf a0 a1 a2 a3] at he
  have hg : g = genOf bech w := by
    cases he; rfl
  have ho : table toOwner (w'.store "aol") [0] = table toOwner (w.store "aol") [0] := congrArg Aol.State.owners habs
  have ht : table toTopic (w'.store "aol") [1] = table toTopic (w.store "aol") [1] := congrArg Aol.State.topics habs
  have hw : table toWriter (w'.store "aol") [2] = table toWriter (w.store "aol") [2] := congrArg Aol.State.writers habs
  have hr : table toRecord (w'.store "aol") [3] = table toRecord (w.store "aol") [3] := congrArg Aol.State.records habs
  have k0 := admittedAt_of_keys toOwner .owner 0 w' (by rw [ho]; exact keysAdmitted_abs toOwner .owner 0 w a0)
  have k1 := admittedAt_of_keys toTopic .topic 1 w' (by rw [ht]; exact keysAdmitted_abs toTopic .topic 1 w a1)
  have k2 := admittedAt_of_keys toWriter .writer 2 w' (by rw [hw]; exact keysAdmitted_abs toWriter .writer 2 w a2)
  have k3 := admittedAt_of_keys toRecord .record 3 w' (by rw [hr]; exact keysAdmitted_abs toRecord .record 3 w a3)
  rw [exportGenesis_ent bech hc w' hwf' k0 k1 k2 k3, hg]
  unfold genOf
  rw [expList_congr bech toOwner toOwner_inj .owner 0 w w' ho, expList_congr bech toTopic toTopic_inj .topic 1 w w' ht,
    expList_congr bech toWriter toWriter_inj .writer 2 w w' hw, expList_congr bech toRecord toRecord_inj .record 3 w w' hr]

/-- … and for every world reachable from the empty store by messages with `/`-free topic names -/
theorem reachable_genesis_roundtrip_reexport (hc : (toCodec bech).Lawful) (ops : List (Int × GMsg))
    (ht : ∀ op ∈ ops, CompKey.slash ∉ op.2.toModel.topic) :
    ∃ g w', aol.ExportGenesis bech (genRun bech ({} : World) ops) = P.ok (some g, genRun bech ({} : World) ops) ∧
      aol.InitGenesis bech g ({} : World) = P.ok w' ∧ WF w' ∧ abs w' = abs (genRun bech ({} : World) ops) ∧
      aol.ExportGenesis bech w' = P.ok (some g, w') := by
  obtain ⟨habs, hwf⟩ := genRun_abs bech ops ({} : World) AolGenesis.wf_empty
  have hinv : Aol.KeysInv (abs (genRun bech ({} : World) ops)) := by
    rw [habs, AolGenesis.abs_empty]
    apply Aol.keysInv_run (toCodec bech) hc
    · intro op hop
      obtain ⟨op0, h0, rfl⟩ := List.mem_map.mp hop
      exact ht op0 h0
    · exact Aol.keysInv_empty
  exact genesis_roundtrip_reexport bech hc _ hwf
    (admittedAt_of_keys toOwner .owner 0 _ hinv.owners) (admittedAt_of_keys toTopic .topic 1 _ hinv.topics)
    (admittedAt_of_keys toWriter .writer 2 _ hinv.writers) (admittedAt_of_keys toRecord .record 3 _ hinv.records)

end
end Panacea.Refine.AolExport
