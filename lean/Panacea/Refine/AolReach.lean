import Panacea.Refine.AolExport
import Panacea.Lemmas.AolKeys
/-!
# The genesis round trip for every reachable world

`Refine/AolExport.genesis_roundtrip` has two premises about the world: it is well-formed, and its store keys are
encodings of admitted tuples.  Both are invariants of the translated message server run from the empty store
(`Refine/Aol.genRun_abs`, `Lemmas/AolKeys.keysInv_run`), for histories whose topic names contain no `/` — which
stateless validation guarantees (`C16.admitted_topic_has_no_slash`).  So the round trip holds, without premises about the
state, for every world the chain can reach.
-/
namespace Panacea.Refine.AolExport
open Panacea Panacea.Gen Panacea.Go Panacea.Refine.Aol Panacea.Refine.AolGenesis

section
variable [Go.Proto aoltypes.Owner] [Go.Proto aoltypes.Topic] [Go.Proto aoltypes.Writer] [Go.Proto aoltypes.Record]
variable [Go.LawfulProto aoltypes.Owner] [Go.LawfulProto aoltypes.Topic] [Go.LawfulProto aoltypes.Writer]
variable [Go.LawfulProto aoltypes.Record]
variable (bech : Go.Bech32)
set_option linter.unusedSectionVars false

theorem admittedAt_of_keys {G V : Type} [Inhabited G] [Go.Proto G] (conv : G → V) (kind : CompKey.Kind) (pfx : UInt8) (w : World)
    (h : C08.KeysAdmitted kind (table conv (w.store "aol") [pfx])) : AdmittedAt kind pfx w := by
  intro e he
  apply h e.1
  rw [table_eq]
  unfold Map.keys
  simp only [List.map_map, List.mem_map, Function.comp_apply]
  exact ⟨e, he, rfl⟩

/-- **C08 for x/aol, for every reachable world.**  Run the translated message server from the empty store over any list
of (block time, message) pairs whose topic names contain no `/`; on the world it reaches, `ExportGenesis` succeeds, and
`InitGenesis` of the result on the empty store — maps visited in any order — succeeds and stands for the same state. -/
theorem reachable_genesis_roundtrip (hc : (toCodec bech).Lawful) (ops : List (Int × GMsg))
    (ht : ∀ op ∈ ops, CompKey.slash ∉ op.2.toModel.topic) :
    ∃ g w', aol.ExportGenesis bech (genRun bech ({} : World) ops) = P.ok (some g, genRun bech ({} : World) ops) ∧
      aol.InitGenesis bech g ({} : World) = P.ok w' ∧ WF w' ∧ abs w' = abs (genRun bech ({} : World) ops) := by
  obtain ⟨habs, hwf⟩ := genRun_abs bech ops ({} : World) AolGenesis.wf_empty
  have hinv : Aol.KeysInv (abs (genRun bech ({} : World) ops)) := by
    rw [habs, AolGenesis.abs_empty]
    apply Aol.keysInv_run (toCodec bech) hc
    · intro op hop
      obtain ⟨op0, h0, rfl⟩ := List.mem_map.mp hop
      exact ht op0 h0
    · exact Aol.keysInv_empty
  exact genesis_roundtrip bech hc _ hwf
    (admittedAt_of_keys toOwner .owner 0 _ hinv.owners) (admittedAt_of_keys toTopic .topic 1 _ hinv.topics)
    (admittedAt_of_keys toWriter .writer 2 _ hinv.writers) (admittedAt_of_keys toRecord .record 3 _ hinv.records)

end
end Panacea.Refine.AolExport
