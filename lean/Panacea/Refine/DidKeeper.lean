import Panacea.Refine.DidTypes
import Panacea.Refine.Aol
/-!
# Refinement: the translated DID keeper and message server compute the hand-written model

`Gen.didkeeper.*` is regenerated from `/repo/x/did/keeper` on every run.  The theorems say that
`VerifyDIDOwnership` is `Did.verifyOwnership` and that `CreateDID / UpdateDID / DeactivateDID`, run on a
well-formed world, do exactly what `Did.handle` does on the registry that world stands for.

Parameters and their laws (never axioms): the signature scheme (no law), the protobuf codec of
`DIDDocumentWithSeq` (`LawfulProto`, and a length-prefixed encoding is never empty), and two facts about the
encoding of a `DIDDocument` that the model states concretely: the zero document encodes to the empty string and
`DIDDocument{Id: d}` encodes to `Did.marshalIdOnly d` (both observed by the correspondence run).
-/
namespace Panacea.Refine.DidKeeper
open Panacea Panacea.Gen Panacea.Go Panacea.Refine.DidTypes

variable [Go.Proto didtypes.DIDDocument]

def toCrypto (c : Go.SigScheme) : Did.Crypto := { verify := c.verify }

/-! ## `VerificationMethodFrom` -/

def vmResult (o : Option Did.VM) (r : didtypes.VerificationMethod × Bool) : Prop :=
  match o with
  | some vm => r.2 = true ∧ toVM r.1 = vm
  | none => r.2 = false

/-- the loop of `VerificationMethodFrom` as a first-match search -/
def fromStep (d : didtypes.DIDDocument) (id : Bytes) (r : didtypes.VerificationRelationship) :
    Option (didtypes.VerificationMethod × Bool) :=
  match r.Content with
  | .VerificationMethod (some vm) => if vm.Id = id then some (vm, true) else none
  | .VerificationMethodId v =>
    if v = id then
      some (match (d.VerificationMethods.filterMap _root_.id).find? (fun vm => vm.Id = v) with
        | some vm => (vm, true)
        | none => (default, false))
    else none
  | _ => if (default : Bytes) = id then
      some (match (d.VerificationMethods.filterMap _root_.id).find? (fun vm => vm.Id = default) with
        | some vm => (vm, true)
        | none => (default, false))
    else none

theorem vmFrom_run (d : didtypes.DIDDocument) (rs : List didtypes.VerificationRelationship) (id : Bytes)
    (hn : ∀ x ∈ d.VerificationMethods, x.isSome = true) :
    didtypes.DIDDocument.VerificationMethodFrom d rs id =
      P.ok ((rs.findSome? (fromStep d id)).getD (default, false)) := by
  unfold didtypes.DIDDocument.VerificationMethodFrom
  simp only []
  rw [forIn_find rs (fromStep d id)]
  · simp only [P.ok_bind]
    cases rs.findSome? (fromStep d id) <;> rfl
  · intro r _
    obtain ⟨c⟩ := r
    cases c with
    | none =>
      simp only [hasDedicated_refines, toRel, P.ok_bind, Bool.false_eq_true, if_false, fromStep]
      by_cases h : (default : Bytes) = id
      · simp only [h, decide_true, if_true, vmByID_refines d _ hn, P.ok_bind, bind_pure_comp, P.map_ok]
        subst h; rfl
      · simp [h]
    | VerificationMethodId v =>
      simp only [hasDedicated_refines, toRel, P.ok_bind, Bool.false_eq_true, if_false, fromStep]
      by_cases h : v = id
      · simp only [h, decide_true, if_true, vmByID_refines d _ hn, P.ok_bind, bind_pure_comp, P.map_ok]
        rfl
      · simp [h]
    | VerificationMethod v =>
      cases v with
      | none =>
        simp only [hasDedicated_refines, toRel, P.ok_bind, Bool.false_eq_true, if_false, fromStep]
        by_cases h : (default : Bytes) = id
        · simp only [h, decide_true, if_true, vmByID_refines d _ hn, P.ok_bind, bind_pure_comp, P.map_ok]
          subst h; rfl
        · simp [h]
      | some vm =>
        simp only [hasDedicated_refines, toRel, P.ok_bind, if_true, deref_some, fromStep]
        by_cases h : vm.Id = id <;> simp [h]

/-- the first-match search, in model terms -/
theorem findSome_vmFrom (d : didtypes.DIDDocument) (id : Bytes) (rs : List didtypes.VerificationRelationship) :
    ((rs.findSome? (fromStep d id)).getD (default, false)).2 = (Did.vmFrom (toDoc d) (rs.map toRel) id).isSome ∧
    (∀ vm, Did.vmFrom (toDoc d) (rs.map toRel) id = some vm →
      toVM ((rs.findSome? (fromStep d id)).getD (default, false)).1 = vm) := by
  induction rs with
  | nil => exact ⟨rfl, by intro vm h; cases h⟩
  | cons r rs ih =>
    obtain ⟨c⟩ := r
    have hvms : (toDoc d).vms = (d.VerificationMethods.filterMap _root_.id).map toVM := rfl
    have look : ∀ v : Bytes,
        ((match (d.VerificationMethods.filterMap _root_.id).find? (fun (vm : didtypes.VerificationMethod) => vm.Id = v) with
          | some vm => (vm, true)
          | none => ((default : didtypes.VerificationMethod), false)).2 = (Did.vmByID (toDoc d).vms v).isSome) ∧
        (∀ vm, Did.vmByID (toDoc d).vms v = some vm →
          toVM (match (d.VerificationMethods.filterMap _root_.id).find? (fun (vm : didtypes.VerificationMethod) => vm.Id = v) with
            | some vm => (vm, true)
            | none => ((default : didtypes.VerificationMethod), false)).1 = vm) := by
      intro v
      rw [hvms, ← find_toVM]
      cases (d.VerificationMethods.filterMap _root_.id).find? (fun (vm : didtypes.VerificationMethod) => vm.Id = v) with
      | none => exact ⟨rfl, by intro vm h; cases h⟩
      | some x => exact ⟨rfl, by intro vm h; simp at h; exact h⟩
    cases c with
    | none =>
      simp only [List.findSome?_cons, fromStep, List.map_cons, toRel, Did.vmFrom]
      by_cases h : (default : Bytes) = id
      · have h' : ([] : Bytes) = id := h
        simp only [h, if_true, Option.getD_some, h']
        subst h'
        exact look []
      · have h' : ¬ (([] : Bytes) = id) := h
        simp only [h, if_false, h']
        exact ih
    | VerificationMethodId v =>
      simp only [List.findSome?_cons, fromStep, List.map_cons, toRel, Did.vmFrom]
      by_cases h : v = id
      · subst h
        simp only [if_true, Option.getD_some]
        exact look v
      · simp only [h, if_false]
        exact ih
    | VerificationMethod v =>
      cases v with
      | none =>
        simp only [List.findSome?_cons, fromStep, List.map_cons, toRel, Did.vmFrom]
        by_cases h : (default : Bytes) = id
        · have h' : ([] : Bytes) = id := h
          simp only [h, if_true, Option.getD_some, h']
          subst h'
          exact look []
        · have h' : ¬ (([] : Bytes) = id) := h
          simp only [h, if_false, h']
          exact ih
      | some vm =>
        simp only [List.findSome?_cons, fromStep, List.map_cons, toRel, Did.vmFrom]
        have hid : (toVM vm).id = vm.Id := rfl
        rw [hid]
        by_cases h : vm.Id = id
        · simp only [h, if_true, Option.getD_some, Option.isSome_some, true_and]
          intro x hx; cases hx; rfl
        · simp only [h, if_false]
          exact ih


/-! ## `VerifyDIDOwnership` -/

def oerr : String → Go.Err
  | "did/8:vm-not-found" => some "did/8"
  | "did/15:key-type" => some "did/15"
  | "did/10:pubkey" => some "did/10"
  | "did/9:sig" => some "did/9"
  | "did/13:deactivated" => some "did/13"
  | "did/2:exists" => some "did/2"
  | "did/5:not-found" => some "did/5"
  | _ => none

theorem pubKeyFromBase58_run (s : Bytes) :
    didsecp.PubKeyFromBase58 s =
      P.ok (if (Did.b58Decode s).length = 33 then (Did.b58Decode s, none)
        else (List.replicate 33 default, some "fmt:invalid Secp256k1 public key. len:%d, expected:%d")) := by
  unfold didsecp.PubKeyFromBase58
  have hm : (Go.make (33 : Int) : P Bytes) = P.ok (List.replicate 33 default) := rfl
  simp only [hm, P.ok_bind]
  by_cases h : (Did.b58Decode s).length = 33
  · have c : ¬ (decide (Go.len (Did.b58Decode s) ≠ Go.len (List.replicate 33 (default : UInt8))) = true) := by
      simp [Go.len, h]
    rw [if_neg c, if_pos h]
    have := Panacea.Refine.CompKey.copy_full (Did.b58Decode s) 33 h
    simp only [this, P.ok_bind, P.pure_eq]
    rfl
  · have c : decide (Go.len (Did.b58Decode s) ≠ Go.len (List.replicate 33 (default : UInt8))) = true := by
      simp only [Go.len, List.length_replicate, ne_eq, decide_eq_true_eq]
      omega
    rw [if_pos c, if_neg h]
    rfl

def ownRes : Outcome Nat → Nat × Go.Err
  | .ok n => (n, none)
  | .err c => (0, oerr c)
  | .panic _ => (0, none)

theorem verifyOwnership_refines (crypto : Go.SigScheme) (signData : didtypes.DIDDocument) (seq : Nat)
    (doc : didtypes.DIDDocument) (vmID sig : Bytes) (hn : ∀ x ∈ doc.VerificationMethods, x.isSome = true) :
    didkeeper.VerifyDIDOwnership crypto (some signData) seq (some doc) vmID sig =
      P.ok (ownRes (Did.verifyOwnership (toCrypto crypto) (Go.Proto.marshal signData) seq (toDoc doc) vmID sig)) := by
  unfold didkeeper.VerifyDIDOwnership Did.verifyOwnership
  simp only [deref_some, P.ok_bind, vmFrom_run doc _ vmID hn]
  have hf := findSome_vmFrom doc vmID doc.Authentications
  have hau : (toDoc doc).auths = doc.Authentications.map toRel := rfl
  rw [hau]
  cases hv : Did.vmFrom (toDoc doc) (doc.Authentications.map toRel) vmID with
  | none =>
    have h2 := hf.1
    rw [hv] at h2
    simp only [Option.isSome_none] at h2
    simp only [h2, Bool.not_false, if_true]
    rfl
  | some vm =>
    have h2 := hf.1
    rw [hv] at h2
    simp only [Option.isSome_some] at h2
    have h3 := hf.2 vm hv
    simp only [h2, Bool.not_true, Bool.false_eq_true, if_false]
    generalize ((doc.Authentications.findSome? (fromStep doc vmID)).getD (default, false)).1 = gvm at h3
    subst h3
    have ht : (toVM gvm).type = gvm.«Type» := rfl
    have hp : (toVM gvm).pubKeyB58 = gvm.PublicKeyBase58 := rfl
    rw [ht, hp]
    have e19 : ([69, 99, 100, 115, 97, 83, 101, 99, 112, 50, 53, 54, 107, 49, 86, 101, 114, 105, 102, 105, 99, 97, 116, 105,
        111, 110, 75, 101, 121, 50, 48, 49, 57] : Bytes) = Did.es256k2019 := rfl
    have e18 : ([83, 101, 99, 112, 50, 53, 54, 107, 49, 86, 101, 114, 105, 102, 105, 99, 97, 116, 105, 111, 110, 75, 101, 121,
        50, 48, 49, 56] : Bytes) = Did.es256k2018 := rfl
    rw [e19, e18]
    by_cases hk : gvm.«Type» ≠ Did.es256k2019 ∧ gvm.«Type» ≠ Did.es256k2018
    · have c : (decide (gvm.«Type» ≠ Did.es256k2019) && decide (gvm.«Type» ≠ Did.es256k2018)) = true := by
        simp [hk.1, hk.2]
      rw [if_pos c, if_pos hk]
      rfl
    · have c : ¬ ((decide (gvm.«Type» ≠ Did.es256k2019) && decide (gvm.«Type» ≠ Did.es256k2018)) = true) := by
        simp only [Bool.and_eq_true, decide_eq_true_eq]; exact hk
      rw [if_neg c, if_neg hk, pubKeyFromBase58_run]
      simp only [P.ok_bind]
      by_cases hl : (Did.b58Decode gvm.PublicKeyBase58).length = 33
      · have hl' : ¬ ((Did.b58Decode gvm.PublicKeyBase58).length ≠ 33) := by simp [hl]
        simp only [hl, if_true, Option.isNone_none, Bool.not_true, Bool.false_eq_true, if_false, hl', Go.didVerify,
          toCrypto]
        by_cases hs : crypto.verify (Did.b58Decode gvm.PublicKeyBase58) (Did.signBytes (Go.Proto.marshal signData) seq) sig = true
        · simp only [hs, if_true, Bool.not_true, Bool.false_eq_true, if_false]
          rfl
        · have hs' : crypto.verify (Did.b58Decode gvm.PublicKeyBase58) (Did.signBytes (Go.Proto.marshal signData) seq) sig = false := by
            cases hh : crypto.verify (Did.b58Decode gvm.PublicKeyBase58) (Did.signBytes (Go.Proto.marshal signData) seq) sig <;> simp_all
          simp only [hs', Bool.false_eq_true, if_false, Bool.not_false, if_true]
          rfl
      · have hl' : (Did.b58Decode gvm.PublicKeyBase58).length ≠ 33 := hl
        simp only [hl, if_false, Option.isNone_some, Bool.not_false, if_true]
        rw [if_pos hl']
        rfl

end Panacea.Refine.DidKeeper
