import Panacea.Refine.DidTypes
import Panacea.Refine.Aol
/-!
# Refinement: the translated DID keeper and message server compute the hand-written model

`Gen.didkeeper.*` is regenerated from `/repo/x/did/keeper` on every run.  The theorems say that
`VerifyDIDOwnership` is `Did.verifyOwnership` and that `CreateDID / UpdateDID / DeactivateDID`, run on a
well-formed world, do exactly what `Did.handle` does on the registry that world stands for.

Parameters and their laws (never axioms): the signature scheme (no law), the protobuf codec of
`DIDDocumentWithSeq` (`LawfulProto`, and a length-prefixed encoding is never empty), and two facts about the
encoding of a `DIDDocument` that the model states concretely: the zero document encodes to the empty string and
`DIDDocument{Id: d}` encodes to `Did.marshalIdOnly d` (both observed by the correspondence run).
-/
namespace Panacea.Refine.DidKeeper
open Panacea Panacea.Gen Panacea.Go Panacea.Refine.DidTypes

variable [Go.Proto didtypes.DIDDocument]

def toCrypto (c : Go.SigScheme) : Did.Crypto := { verify := c.verify }

/-! ## `VerificationMethodFrom` -/

def vmResult (o : Option Did.VM) (r : didtypes.VerificationMethod × Bool) : Prop :=
  match o with
  | some vm => r.2 = true ∧ toVM r.1 = vm
  | none => r.2 = false

/-- the loop of `VerificationMethodFrom` as a first-match search -/
def fromStep (d : didtypes.DIDDocument) (id : Bytes) (r : didtypes.VerificationRelationship) :
    Option (didtypes.VerificationMethod × Bool) :=
  match r.Content with
  | .VerificationMethod (some vm) => if vm.Id = id then some (vm, true) else none
  | .VerificationMethodId v =>
    if v = id then
      some (match (d.VerificationMethods.filterMap _root_.id).find? (fun vm => vm.Id = v) with
        | some vm => (vm, true)
        | none => (default, false))
    else none
  | _ => if (default : Bytes) = id then
      some (match (d.VerificationMethods.filterMap _root_.id).find? (fun vm => vm.Id = default) with
        | some vm => (vm, true)
        | none => (default, false))
    else none

theorem vmFrom_run (d : didtypes.DIDDocument) (rs : List didtypes.VerificationRelationship) (id : Bytes)
    (hn : ∀ x ∈ d.VerificationMethods, x.isSome = true) :
    didtypes.DIDDocument.VerificationMethodFrom d rs id =
      P.ok ((rs.findSome? (fromStep d id)).getD (default, false)) := by
  unfold didtypes.DIDDocument.VerificationMethodFrom
  simp only []
  rw [forIn_find rs (fromStep d id)]
  · simp only [P.ok_bind]
    cases rs.findSome? (fromStep d id) <;> rfl
  · intro r _
    obtain ⟨c⟩ := r
    cases c with
    | none =>
      simp only [hasDedicated_refines, toRel, P.ok_bind, Bool.false_eq_true, if_false, fromStep]
      by_cases h : (default : Bytes) = id
      · simp only [h, decide_true, if_true, vmByID_refines d _ hn, P.ok_bind, bind_pure_comp, P.map_ok]
        subst h; rfl
      · simp [h]
    | VerificationMethodId v =>
      simp only [hasDedicated_refines, toRel, P.ok_bind, Bool.false_eq_true, if_false, fromStep]
      by_cases h : v = id
      · simp only [h, decide_true, if_true, vmByID_refines d _ hn, P.ok_bind, bind_pure_comp, P.map_ok]
        rfl
      · simp [h]
    | VerificationMethod v =>
      cases v with
      | none =>
        simp only [hasDedicated_refines, toRel, P.ok_bind, Bool.false_eq_true, if_false, fromStep]
        by_cases h : (default : Bytes) = id
        · simp only [h, decide_true, if_true, vmByID_refines d _ hn, P.ok_bind, bind_pure_comp, P.map_ok]
          subst h; rfl
        · simp [h]
      | some vm =>
        simp only [hasDedicated_refines, toRel, P.ok_bind, if_true, deref_some, fromStep]
        by_cases h : vm.Id = id <;> simp [h]

/-- the first-match search, in model terms -/
theorem findSome_vmFrom (d : didtypes.DIDDocument) (id : Bytes) (rs : List didtypes.VerificationRelationship) :
    ((rs.findSome? (fromStep d id)).getD (default, false)).2 = (Did.vmFrom (toDoc d) (rs.map toRel) id).isSome ∧
    (∀ vm, Did.vmFrom (toDoc d) (rs.map toRel) id = some vm →
      toVM ((rs.findSome? (fromStep d id)).getD (default, false)).1 = vm) := by
  induction rs with
  | nil => exact ⟨rfl, by intro vm h; cases h⟩
  | cons r rs ih =>
    obtain ⟨c⟩ := r
    have hvms : (toDoc d).vms = (d.VerificationMethods.filterMap _root_.id).map toVM := rfl
    have look : ∀ v : Bytes,
        ((match (d.VerificationMethods.filterMap _root_.id).find? (fun (vm : didtypes.VerificationMethod) => vm.Id = v) with
          | some vm => (vm, true)
          | none => ((default : didtypes.VerificationMethod), false)).2 = (Did.vmByID (toDoc d).vms v).isSome) ∧
        (∀ vm, Did.vmByID (toDoc d).vms v = some vm →
          toVM (match (d.VerificationMethods.filterMap _root_.id).find? (fun (vm : didtypes.VerificationMethod) => vm.Id = v) with
            | some vm => (vm, true)
            | none => ((default : didtypes.VerificationMethod), false)).1 = vm) := by
      intro v
      rw [hvms, ← find_toVM]
      cases (d.VerificationMethods.filterMap _root_.id).find? (fun (vm : didtypes.VerificationMethod) => vm.Id = v) with
      | none => exact ⟨rfl, by intro vm h; cases h⟩
      | some x => exact ⟨rfl, by intro vm h; simp at h; exact h⟩
    cases c with
    | none =>
      simp only [List.findSome?_cons, fromStep, List.map_cons, toRel, Did.vmFrom]
      by_cases h : (default : Bytes) = id
      · have h' : ([] : Bytes) = id := h
        simp only [h, if_true, Option.getD_some, h']
        subst h'
        exact look []
      · have h' : ¬ (([] : Bytes) = id) := h
        simp only [h, if_false, h']
        exact ih
    | VerificationMethodId v =>
      simp only [List.findSome?_cons, fromStep, List.map_cons, toRel, Did.vmFrom]
      by_cases h : v = id
      · subst h
        simp only [if_true, Option.getD_some]
        exact look v
      · simp only [h, if_false]
        exact ih
    | VerificationMethod v =>
      cases v with
      | none =>
        simp only [List.findSome?_cons, fromStep, List.map_cons, toRel, Did.vmFrom]
        by_cases h : (default : Bytes) = id
        · have h' : ([] : Bytes) = id := h
          simp only [h, if_true, Option.getD_some, h']
          subst h'
          exact look []
        · have h' : ¬ (([] : Bytes) = id) := h
          simp only [h, if_false, h']
          exact ih
      | some vm =>
        simp only [List.findSome?_cons, fromStep, List.map_cons, toRel, Did.vmFrom]
        have hid : (toVM vm).id = vm.Id := rfl
        rw [hid]
        by_cases h : vm.Id = id
        · simp only [h, if_true, Option.getD_some, Option.isSome_some, true_and]
          intro x hx; cases hx; rfl
        · simp only [h, if_false]
          exact ih


/-! ## `VerifyDIDOwnership` -/

def oerr : String → Go.Err
  | "did/8:vm-not-found" => some "did/8"
  | "did/15:key-type" => some "did/15"
  | "did/10:pubkey" => some "did/10"
  | "did/9:sig" => some "did/9"
  | "did/12:seq-exhausted" => some "did/12"
  | "did/13:deactivated" => some "did/13"
  | "did/2:exists" => some "did/2"
  | "did/5:not-found" => some "did/5"
  | _ => none

theorem pubKeyFromBase58_run (s : Bytes) :
    didsecp.PubKeyFromBase58 s =
      P.ok (if (Did.b58Decode s).length = 33 then (Did.b58Decode s, none)
        else (List.replicate 33 default, some "fmt:invalid Secp256k1 public key. len:%d, expected:%d")) := by
  unfold didsecp.PubKeyFromBase58
  have hm : (Go.make (33 : Int) : P Bytes) = P.ok (List.replicate 33 default) := rfl
  simp only [hm, P.ok_bind]
  by_cases h : (Did.b58Decode s).length = 33
  · have c : ¬ (decide (Go.len (Did.b58Decode s) ≠ Go.len (List.replicate 33 (default : UInt8))) = true) := by
      simp [Go.len, h]
    rw [if_neg c, if_pos h]
    have := Panacea.Refine.CompKey.copy_full (Did.b58Decode s) 33 h
    simp only [this, P.ok_bind, P.pure_eq]
    rfl
  · have c : decide (Go.len (Did.b58Decode s) ≠ Go.len (List.replicate 33 (default : UInt8))) = true := by
      simp only [Go.len, List.length_replicate, ne_eq, decide_eq_true_eq]
      omega
    rw [if_pos c, if_neg h]
    rfl

def ownRes : Outcome Nat → Nat × Go.Err
  | .ok n => (n, none)
  | .err c => (0, oerr c)
  | .panic _ => (0, none)

theorem verifyOwnership_refines (crypto : Go.SigScheme) (signData : didtypes.DIDDocument) (seq : Nat)
    (doc : didtypes.DIDDocument) (vmID sig : Bytes) (hn : ∀ x ∈ doc.VerificationMethods, x.isSome = true) :
    didkeeper.VerifyDIDOwnership crypto (some signData) seq (some doc) vmID sig =
      P.ok (ownRes (Did.verifyOwnership (toCrypto crypto) (Go.Proto.marshal signData) seq (toDoc doc) vmID sig)) := by
  unfold didkeeper.VerifyDIDOwnership Did.verifyOwnership
  simp only [deref_some, P.ok_bind, vmFrom_run doc _ vmID hn]
  have hf := findSome_vmFrom doc vmID doc.Authentications
  have hau : (toDoc doc).auths = doc.Authentications.map toRel := rfl
  rw [hau]
  cases hv : Did.vmFrom (toDoc doc) (doc.Authentications.map toRel) vmID with
  | none =>
    have h2 := hf.1
    rw [hv] at h2
    simp only [Option.isSome_none] at h2
    simp only [h2, Bool.not_false, if_true]
    rfl
  | some vm =>
    have h2 := hf.1
    rw [hv] at h2
    simp only [Option.isSome_some] at h2
    have h3 := hf.2 vm hv
    simp only [h2, Bool.not_true, Bool.false_eq_true, if_false]
    generalize ((doc.Authentications.findSome? (fromStep doc vmID)).getD (default, false)).1 = gvm at h3
    subst h3
    have ht : (toVM gvm).type = gvm.«Type» := rfl
    have hp : (toVM gvm).pubKeyB58 = gvm.PublicKeyBase58 := rfl
    rw [ht, hp]
    have e19 : ([69, 99, 100, 115, 97, 83, 101, 99, 112, 50, 53, 54, 107, 49, 86, 101, 114, 105, 102, 105, 99, 97, 116, 105,
        111, 110, 75, 101, 121, 50, 48, 49, 57] : Bytes) = Did.es256k2019 := rfl
    have e18 : ([83, 101, 99, 112, 50, 53, 54, 107, 49, 86, 101, 114, 105, 102, 105, 99, 97, 116, 105, 111, 110, 75, 101, 121,
        50, 48, 49, 56] : Bytes) = Did.es256k2018 := rfl
    rw [e19, e18]
    by_cases hk : gvm.«Type» ≠ Did.es256k2019 ∧ gvm.«Type» ≠ Did.es256k2018
    · have c : (decide (gvm.«Type» ≠ Did.es256k2019) && decide (gvm.«Type» ≠ Did.es256k2018)) = true := by
        simp [hk.1, hk.2]
      rw [if_pos c, if_pos hk]
      rfl
    · have c : ¬ ((decide (gvm.«Type» ≠ Did.es256k2019) && decide (gvm.«Type» ≠ Did.es256k2018)) = true) := by
        simp only [Bool.and_eq_true, decide_eq_true_eq]; exact hk
      rw [if_neg c, if_neg hk, pubKeyFromBase58_run]
      simp only [P.ok_bind]
      by_cases hl : (Did.b58Decode gvm.PublicKeyBase58).length = 33
      · have hl' : ¬ ((Did.b58Decode gvm.PublicKeyBase58).length ≠ 33) := by simp [hl]
        simp only [hl, if_true, Option.isNone_none, Bool.not_true, Bool.false_eq_true, if_false, hl', Go.didVerify,
          toCrypto]
        by_cases hs : crypto.verify (Did.b58Decode gvm.PublicKeyBase58) (Did.signBytes (Go.Proto.marshal signData) seq) sig = true
        · simp only [hs, if_true, Bool.not_true, Bool.false_eq_true, if_false]
          have hu : Go.u64add seq 1 = Did.nextSeq seq := rfl
          rw [hu]
          by_cases hz : Did.nextSeq seq = 0
          · simp only [hz, decide_true, if_true]; rfl
          · simp only [hz, decide_false, Bool.false_eq_true, if_false]; rfl
        · have hs' : crypto.verify (Did.b58Decode gvm.PublicKeyBase58) (Did.signBytes (Go.Proto.marshal signData) seq) sig = false := by
            cases hh : crypto.verify (Did.b58Decode gvm.PublicKeyBase58) (Did.signBytes (Go.Proto.marshal signData) seq) sig <;> simp_all
          simp only [hs', Bool.false_eq_true, if_false, Bool.not_false, if_true]
          rfl
      · have hl' : (Did.b58Decode gvm.PublicKeyBase58).length ≠ 33 := hl
        simp only [hl, if_false, Option.isNone_some, Bool.not_false, if_true]
        rw [if_pos hl']
        rfl


theorem verifyOwnership_cases (cr : Did.Crypto) (data : Bytes) (seq : Nat) (doc : Did.Doc) (vmID sig : Bytes) :
    (∃ n, Did.verifyOwnership cr data seq doc vmID sig = .ok n) ∨
    (∃ c, Did.verifyOwnership cr data seq doc vmID sig = .err c ∧
      (c = "did/8:vm-not-found" ∨ c = "did/15:key-type" ∨ c = "did/10:pubkey" ∨ c = "did/9:sig" ∨
        c = "did/12:seq-exhausted")) := by
  unfold Did.verifyOwnership
  cases Did.vmFrom doc doc.auths vmID with
  | none => exact Or.inr ⟨_, rfl, Or.inl rfl⟩
  | some vm =>
    simp only []
    by_cases h1 : vm.type ≠ Did.es256k2019 ∧ vm.type ≠ Did.es256k2018
    · rw [if_pos h1]; exact Or.inr ⟨_, rfl, Or.inr (Or.inl rfl)⟩
    · rw [if_neg h1]
      by_cases h2 : (Did.b58Decode vm.pubKeyB58).length ≠ 33
      · rw [if_pos h2]; exact Or.inr ⟨_, rfl, Or.inr (Or.inr (Or.inl rfl))⟩
      · rw [if_neg h2]
        by_cases h3 : cr.verify (Did.b58Decode vm.pubKeyB58) (Did.signBytes data seq) sig = true
        · rw [if_pos h3]
          by_cases h4 : Did.nextSeq seq = 0
          · rw [if_pos h4]; exact Or.inr ⟨_, rfl, Or.inr (Or.inr (Or.inr (Or.inr rfl)))⟩
          · rw [if_neg h4]; exact Or.inl ⟨_, rfl⟩
        · rw [if_neg h3]; exact Or.inr ⟨_, rfl, Or.inr (Or.inr (Or.inr (Or.inl rfl)))⟩

/-! ## the registry: raw store and abstraction -/

section registry
variable [Go.Proto didtypes.DIDDocumentWithSeq] [Go.LawfulProto didtypes.DIDDocumentWithSeq]
open Panacea.Refine.Aol (table table_get table_set_same Decodes decodes_set_same store_setStore)

def toDWS (x : didtypes.DIDDocumentWithSeq) : Did.DocWithSeq :=
  { doc := x.Document.map toDoc, seq := x.Sequence,
    docBytes := match x.Document with | some d => Go.Proto.marshal d | none => [] }

/-- the registry a world stands for -/
def absD (w : World) : Did.State := table toDWS (w.store "did") [0]

/-- facts about the real protobuf encoding the model states concretely -/
structure CodecFacts : Prop where
  nonEmpty : ∀ x : didtypes.DIDDocumentWithSeq, (Go.Proto.marshal x : Bytes) ≠ []      -- length-prefixed
  zeroDoc : (Go.Proto.marshal (default : didtypes.DIDDocument) : Bytes) = []
  idOnly : ∀ did : Bytes, (Go.Proto.marshal ({ Id := did } : didtypes.DIDDocument) : Bytes) = Did.marshalIdOnly did

structure WFD (w : World) : Prop where
  sorted : (w.store "did").Sorted
  decodes : Decodes didtypes.DIDDocumentWithSeq (w.store "did") [0]
  nonEmpty : ∀ k v, (w.store "did").get ([0] ++ k) = some v → v ≠ []
  noNil : ∀ k v x d, (w.store "did").get ([0] ++ k) = some v →
    (Go.Proto.unmarshal v : Option didtypes.DIDDocumentWithSeq) = some x → x.Document = some d → NoNil d

theorem set_run' (s : Store) (k v : Bytes) (w : World) (h : s.pfx ++ k ≠ []) :
    s.set k v w = P.ok (w.setStore s.name ((w.store s.name).set (s.pfx ++ k) v)) := by
  unfold Store.set; rw [if_neg h]

theorem getD_marshal' {G : Type} [Inhabited G] [Go.Proto G] [Go.LawfulProto G] (x : G) :
    ((Go.Proto.unmarshal (Go.Proto.marshal x) : Option G).getD default) = x := by
  rw [Go.LawfulProto.unmarshal_marshal]; rfl

theorem optc {α} (x : Option α) : x = none ∨ ∃ a, x = some a := by cases x <;> simp

/-- what `GetDIDDocument` returns -/
def readD (w : World) (did : Bytes) : didtypes.DIDDocumentWithSeq :=
  match (w.store "did").get ([0] ++ did) with
  | some v => ((Go.Proto.unmarshal v : Option didtypes.DIDDocumentWithSeq).getD default)
  | none => default

theorem getDoc_run (w : World) (did : Bytes) (hwf : WFD w) :
    didkeeper.Keeper.GetDIDDocument did w = P.ok (readD w did, w) := by
  unfold didkeeper.Keeper.GetDIDDocument readD
  simp only [Go.Store.get, Go.prefixStore, Go.kvStore, didtypes.DIDKeyPrefix, List.nil_append]
  rcases optc ((w.store "did").get ([0] ++ did)) with hg | ⟨v, hg⟩
  · simp only [hg]; rfl
  · simp only [hg]
    have hne := hwf.nonEmpty did v hg
    have hdec := hwf.decodes did v hg
    simp only [Option.getD_some]
    have : v.isEmpty = false := by cases v with | nil => exact absurd rfl hne | cons a t => rfl
    simp only [this, Bool.false_eq_true, if_false, Go.mustUnmarshal]
    rcases optc (Go.Proto.unmarshal v : Option didtypes.DIDDocumentWithSeq) with hu | ⟨x, hu⟩
    · rw [hu] at hdec; cases hdec
    · simp only [hu]; rfl

theorem read_abs (w : World) (did : Bytes) : toDWS (readD w did) = Did.getDoc (absD w) did := by
  unfold readD Did.getDoc absD
  rw [table_get]
  cases (w.store "did").get ([0] ++ did) <;> rfl

theorem read_noNil (w : World) (did : Bytes) (hwf : WFD w) (d : didtypes.DIDDocument)
    (h : (readD w did).Document = some d) : NoNil d := by
  unfold readD at h
  cases hg : (w.store "did").get ([0] ++ did) with
  | none => rw [hg] at h; cases h
  | some v =>
    rw [hg] at h
    have hdec := hwf.decodes did v hg
    cases hu : (Go.Proto.unmarshal v : Option didtypes.DIDDocumentWithSeq) with
    | none => rw [hu] at hdec; cases hdec
    | some x =>
      simp only [hu, Option.getD_some] at h
      exact hwf.noNil did v x d hg hu h

theorem setDoc_run (w : World) (did : Bytes) (x : didtypes.DIDDocumentWithSeq) :
    didkeeper.Keeper.SetDIDDocument did x w =
      P.ok (w.setStore "did" ((w.store "did").set ([0] ++ did) (Go.Proto.marshal x))) := by
  unfold didkeeper.Keeper.SetDIDDocument
  simp only []
  rw [set_run' _ _ _ _ (by simp [Go.prefixStore, Go.kvStore, didtypes.DIDKeyPrefix])]
  rfl

theorem abs_set (w : World) (hwf : WFD w) (did : Bytes) (x : didtypes.DIDDocumentWithSeq) :
    absD (w.setStore "did" ((w.store "did").set ([0] ++ did) (Go.Proto.marshal x))) = (absD w).set did (toDWS x) := by
  unfold absD
  rw [store_setStore, table_set_same _ _ hwf.sorted, getD_marshal']

theorem wfd_set (w : World) (hwf : WFD w) (cf : CodecFacts) (did : Bytes) (x : didtypes.DIDDocumentWithSeq)
    (hx : ∀ d, x.Document = some d → NoNil d) :
    WFD (w.setStore "did" ((w.store "did").set ([0] ++ did) (Go.Proto.marshal x))) := by
  refine ⟨?_, ?_, ?_, ?_⟩
  · rw [store_setStore]; exact Map.sorted_set _ _ _ hwf.sorted
  · rw [store_setStore]; exact decodes_set_same _ _ _ _ _ hwf.decodes
  · intro k v hv
    rw [store_setStore] at hv
    by_cases hk : ([0] : Bytes) ++ k = [0] ++ did
    · rw [hk, Map.get_set_eq] at hv; cases hv; exact cf.nonEmpty x
    · rw [Map.get_set_ne _ _ _ _ hk] at hv; exact hwf.nonEmpty k v hv
  · intro k v y d hv hu hd
    rw [store_setStore] at hv
    by_cases hk : ([0] : Bytes) ++ k = [0] ++ did
    · rw [hk, Map.get_set_eq] at hv; cases hv
      rw [Go.LawfulProto.unmarshal_marshal] at hu; cases hu
      exact hx d hd
    · rw [Map.get_set_ne _ _ _ _ hk] at hv; exact hwf.noNil k v y d hv hu hd

/-! ## the message server -/

/-- **Simulation** (as for x/aol): accepted ↔ accepted and the new world stands for the model's new registry and is
well-formed again; rejected ↔ rejected with the same registered error, world unchanged; panic ↔ panic. -/
def SimD {ρ : Type} (w : World) (g : P (Option ρ × Go.Err × World)) (m : Outcome Did.State) : Prop :=
  match m with
  | .ok s' => ∃ v w', g = P.ok (some v, none, w') ∧ absD w' = s' ∧ WFD w'
  | .err c => g = P.ok (none, oerr c, w)
  | .panic _ => ∃ s, g = P.panic s

theorem emptyWS_run (x : didtypes.DIDDocumentWithSeq) :
    didtypes.DIDDocumentWithSeq.Empty x = P.ok (toDWS x).isEmpty := by
  unfold didtypes.DIDDocumentWithSeq.Empty Did.DocWithSeq.isEmpty toDWS
  obtain ⟨doc, seq⟩ := x
  cases doc with
  | none => rfl
  | some d =>
    simp only [Option.isNone_some, Bool.not_false, if_true, deref_some, P.ok_bind, didtypes.DIDDocument.Empty,
      didtypes.EmptyDID, bind_pure_comp, P.map_ok, P.pure_eq, Option.map_some]
    rfl

theorem deactivatedWS_run (x : didtypes.DIDDocumentWithSeq) (d : didtypes.DIDDocument) (h : x.Document = some d) :
    didtypes.DIDDocumentWithSeq.Deactivated x = P.ok ((toDoc d).empty && decide (x.Sequence ≠ 0)) := by
  unfold didtypes.DIDDocumentWithSeq.Deactivated
  obtain ⟨doc, seq⟩ := x
  simp only at h
  subst h
  simp only [deref_some, P.ok_bind, didtypes.DIDDocument.Empty, didtypes.EmptyDID, bind_pure_comp, P.map_ok, P.pure_eq]
  rfl

theorem isEmpty_some_doc {x : didtypes.DIDDocumentWithSeq} (h : (toDWS x).isEmpty = false) :
    ∃ d, x.Document = some d := by
  obtain ⟨doc, seq⟩ := x
  cases doc with
  | none => simp [toDWS, Did.DocWithSeq.isEmpty] at h
  | some d => exact ⟨d, rfl⟩

theorem createDID_refines (crypto : Go.SigScheme) (cf : CodecFacts) (w : World) (hwf : WFD w)
    (m : didtypes.MsgCreateDIDRequest) (d : didtypes.DIDDocument) (hdoc : m.Document = some d) (hn : NoNil d) :
    SimD w (didkeeper.msgServer.CreateDID crypto (some m) w)
      (Did.handle (toCrypto crypto) (absD w) (toCreate m (Go.Proto.marshal d))) := by
  unfold didkeeper.msgServer.CreateDID Did.handle toCreate
  simp only [deref_some, P.ok_bind, getDoc_run w _ hwf, emptyWS_run, read_abs, hdoc, Option.map_some]
  rcases Bool.eq_false_or_eq_true ((Did.getDoc (absD w) m.Did).isEmpty) with he | he
  · -- nothing stored: verify the proof against the submitted document, store it with sequence 0
    simp only [he, Bool.not_true, Bool.false_eq_true, if_false, verifyOwnership_refines crypto d 0 d _ _ hn.1, P.ok_bind,
      Outcome.ok_bind]
    rcases verifyOwnership_cases (toCrypto crypto) (Go.Proto.marshal d) 0 (toDoc d) m.VerificationMethodId m.Signature
      with ⟨n, hv⟩ | ⟨c, hv, hc⟩
    · simp only [hv, ownRes, Option.isNone_none, Bool.not_true, Bool.false_eq_true, if_false, didtypes.NewDIDDocumentWithSeq,
        P.pure_eq, P.ok_bind, setDoc_run, Outcome.ok_bind, SimD]
      refine ⟨default, _, rfl, ?_, ?_⟩
      · rw [abs_set w hwf]; rfl
      · exact wfd_set w hwf cf _ _ (by intro d' hd'; simp only at hd'; cases hd'; exact hn)
    · simp only [hv, ownRes, Outcome.err_bind, SimD]
      rcases hc with rfl | rfl | rfl | rfl | rfl <;> rfl
  · -- something is stored under the DID: a live document or a tombstone
    obtain ⟨sd, hsd⟩ := isEmpty_some_doc (x := readD w m.Did) (by rw [read_abs]; exact he)
    have hdead := deactivatedWS_run (readD w m.Did) sd hsd
    have hm : (Did.getDoc (absD w) m.Did).deactivated = .ok ((toDoc sd).empty && decide ((readD w m.Did).Sequence ≠ 0)) := by
      rw [← read_abs]; unfold Did.DocWithSeq.deactivated toDWS; simp only [hsd, Option.map_some]
    simp only [he, Bool.not_false, if_true, hdead, P.ok_bind, hm, Outcome.ok_bind]
    rcases Bool.eq_false_or_eq_true ((toDoc sd).empty && decide ((readD w m.Did).Sequence ≠ 0)) with hb | hb <;>
      simp only [hb, if_true, Bool.false_eq_true, if_false, SimD] <;> rfl

theorem updateDID_refines (crypto : Go.SigScheme) (cf : CodecFacts) (w : World) (hwf : WFD w)
    (m : didtypes.MsgUpdateDIDRequest) (d : didtypes.DIDDocument) (hdoc : m.Document = some d) (hn : NoNil d) :
    SimD w (didkeeper.msgServer.UpdateDID crypto (some m) w)
      (Did.handle (toCrypto crypto) (absD w) (toUpdate m (Go.Proto.marshal d))) := by
  unfold didkeeper.msgServer.UpdateDID Did.handle toUpdate
  simp only [deref_some, P.ok_bind, getDoc_run w _ hwf, emptyWS_run, read_abs, hdoc, Option.map_some]
  rcases Bool.eq_false_or_eq_true ((Did.getDoc (absD w) m.Did).isEmpty) with he | he
  · simp only [he, if_true, SimD]; rfl
  · obtain ⟨sd, hsd⟩ := isEmpty_some_doc (x := readD w m.Did) (by rw [read_abs]; exact he)
    have hdead := deactivatedWS_run (readD w m.Did) sd hsd
    have hm : (Did.getDoc (absD w) m.Did).deactivated = .ok ((toDoc sd).empty && decide ((readD w m.Did).Sequence ≠ 0)) := by
      rw [← read_abs]; unfold Did.DocWithSeq.deactivated toDWS; simp only [hsd, Option.map_some]
    have hstored : (Did.getDoc (absD w) m.Did).doc = some (toDoc sd) := by
      rw [← read_abs]; unfold toDWS; simp only [hsd, Option.map_some]
    have hseq : (Did.getDoc (absD w) m.Did).seq = (readD w m.Did).Sequence := by rw [← read_abs]; rfl
    simp only [he, Bool.false_eq_true, if_false, hdead, P.ok_bind, hm, Outcome.ok_bind]
    rcases Bool.eq_false_or_eq_true ((toDoc sd).empty && decide ((readD w m.Did).Sequence ≠ 0)) with hb | hb
    · simp only [hb, if_true, SimD]; rfl
    · simp only [hb, Bool.false_eq_true, if_false, hstored, hseq, hsd,
        verifyOwnership_refines crypto d _ sd _ _ (read_noNil w m.Did hwf sd hsd).1, P.ok_bind]
      rcases verifyOwnership_cases (toCrypto crypto) (Go.Proto.marshal d) (readD w m.Did).Sequence (toDoc sd)
        m.VerificationMethodId m.Signature with ⟨n, hv⟩ | ⟨c, hv, hc⟩
      · simp only [hv, ownRes, Option.isNone_none, Bool.not_true, Bool.false_eq_true, if_false,
          didtypes.NewDIDDocumentWithSeq, P.pure_eq, P.ok_bind, setDoc_run, Outcome.ok_bind, SimD]
        refine ⟨default, _, rfl, ?_, ?_⟩
        · rw [abs_set w hwf]; rfl
        · exact wfd_set w hwf cf _ _ (by intro d' hd'; simp only at hd'; cases hd'; exact hn)
      · simp only [hv, ownRes, Outcome.err_bind, SimD]
        rcases hc with rfl | rfl | rfl | rfl | rfl <;> rfl

theorem toDoc_default : toDoc (default : didtypes.DIDDocument) = Did.emptyDoc := rfl

theorem noNil_default : NoNil (default : didtypes.DIDDocument) := by
  constructor
  · intro x hx; exact absurd hx (List.not_mem_nil)
  · intro x hx; exact absurd hx (List.not_mem_nil)

theorem deactivateDID_refines (crypto : Go.SigScheme) (cf : CodecFacts) (w : World) (hwf : WFD w)
    (m : didtypes.MsgDeactivateDIDRequest) :
    SimD w (didkeeper.msgServer.DeactivateDID crypto (some m) w)
      (Did.handle (toCrypto crypto) (absD w) (toDeactivate m)) := by
  unfold didkeeper.msgServer.DeactivateDID Did.handle toDeactivate
  simp only [deref_some, P.ok_bind, getDoc_run w _ hwf, emptyWS_run, read_abs]
  rcases Bool.eq_false_or_eq_true ((Did.getDoc (absD w) m.Did).isEmpty) with he | he
  · simp only [he, if_true, SimD]; rfl
  · obtain ⟨sd, hsd⟩ := isEmpty_some_doc (x := readD w m.Did) (by rw [read_abs]; exact he)
    have hdead := deactivatedWS_run (readD w m.Did) sd hsd
    have hm : (Did.getDoc (absD w) m.Did).deactivated = .ok ((toDoc sd).empty && decide ((readD w m.Did).Sequence ≠ 0)) := by
      rw [← read_abs]; unfold Did.DocWithSeq.deactivated toDWS; simp only [hsd, Option.map_some]
    have hstored : (Did.getDoc (absD w) m.Did).doc = some (toDoc sd) := by
      rw [← read_abs]; unfold toDWS; simp only [hsd, Option.map_some]
    have hseq : (Did.getDoc (absD w) m.Did).seq = (readD w m.Did).Sequence := by rw [← read_abs]; rfl
    simp only [he, Bool.false_eq_true, if_false, hdead, P.ok_bind, hm, Outcome.ok_bind]
    rcases Bool.eq_false_or_eq_true ((toDoc sd).empty && decide ((readD w m.Did).Sequence ≠ 0)) with hb | hb
    · simp only [hb, if_true, SimD]; rfl
    · simp only [hb, Bool.false_eq_true, if_false, hstored, hseq, hsd,
        verifyOwnership_refines crypto _ _ sd _ _ (read_noNil w m.Did hwf sd hsd).1, P.ok_bind, cf.idOnly]
      rcases verifyOwnership_cases (toCrypto crypto) (Did.marshalIdOnly m.Did) (readD w m.Did).Sequence (toDoc sd)
        m.VerificationMethodId m.Signature with ⟨n, hv⟩ | ⟨c, hv, hc⟩
      · simp only [hv, ownRes, Option.isNone_none, Bool.not_true, Bool.false_eq_true, if_false,
          didtypes.DIDDocumentWithSeq.Deactivate, didtypes.NewDIDDocumentWithSeq, P.pure_eq, P.ok_bind, setDoc_run,
          Outcome.ok_bind, SimD]
        refine ⟨default, _, rfl, ?_, ?_⟩
        · rw [abs_set w hwf]
          unfold toDWS
          simp only [Option.map_some, toDoc_default, cf.zeroDoc]
        · exact wfd_set w hwf cf _ _ (by intro d' hd'; simp only at hd'; cases hd'; exact noNil_default)
      · simp only [hv, ownRes, Outcome.err_bind, SimD]
        rcases hc with rfl | rfl | rfl | rfl | rfl <;> rfl

end registry

end Panacea.Refine.DidKeeper
