import Panacea.Refine.PnftProps
/-!
# The listing functions of the translated `x/pnft` keeper

`GetPNFTsByDenomId`, `GetPNFTsByDenomIdAndOwner` and `GetAllDenoms` are loops over what the `x/nft` keeper returns,
with an early return when an `Any` payload does not decode.  On a well-formed world they return every item, and
what they return is — item for item, in order — what the model's `queryPNFTs` / `queryPNFTsByDenomOwner` return on
`abs` of the world.  The C12 listing-exactness theorems are about those model functions.
-/
namespace Panacea.Refine.Pnft
open Panacea Panacea.Gen Panacea.Go Panacea.Validate
section
variable [Go.Proto pnfttypes.DenomMeta] [Go.Proto pnfttypes.PNFTMeta]
variable [Go.LawfulProto pnfttypes.DenomMeta] [Go.LawfulProto pnfttypes.PNFTMeta]
set_option linter.unusedSectionVars false

/-- `for x in l { if !ok(x) { return … }; acc = append(acc, f(x)) }` when every element is fine -/
theorem forIn_collect {α β ρ : Type} (l : List α) (f : α → β)
    (body : α → (Option ρ × List β) → P (ForInStep (Option ρ × List β)))
    (hb : ∀ x ∈ l, ∀ acc, body x (none, acc) = P.ok (.yield (none, acc ++ [f x]))) :
    ∀ acc, forIn l ((none : Option ρ), acc) body = P.ok (none, acc ++ l.map f) := by
  induction l with
  | nil => intro acc; simp only [List.forIn_nil, List.map_nil, List.append_nil]; rfl
  | cons x l ih =>
    intro acc
    simp only [List.forIn_cons]
    rw [hb x (by simp) acc]
    simp only [P.ok_bind]
    rw [ih (fun y hy => hb y (List.mem_cons_of_mem _ hy))]
    simp

theorem filterMap_congr' {α β : Type} {l : List α} {f g : α → Option β} (h : ∀ x ∈ l, f x = g x) :
    l.filterMap f = l.filterMap g := by
  induction l with
  | nil => rfl
  | cons x l ih =>
    simp only [List.filterMap_cons, h x (by simp)]
    rw [ih (fun y hy => h y (List.mem_cons_of_mem _ hy))]

theorem keys_mapVals {V W : Type} (f : V → W) (m : Map V) : (Map.mapVals f m).keys = m.keys := by
  unfold Map.mapVals Map.keys
  simp [List.map_map, Function.comp_def]

theorem prefixView_mapVals {V W : Type} (f : V → W) (m : Map V) (p : Bytes) :
    Map.prefixView (Map.mapVals f m) p = (Map.prefixView m p).map fun e => (e.1, f e.2) := by
  unfold Map.prefixView Map.mapVals
  induction m with
  | nil => rfl
  | cons e m ih =>
    simp only [List.map_cons, List.filter_cons]
    rcases Bool.eq_false_or_eq_true (p.isPrefixOf e.1) with h | h
    · simp only [h, if_true, List.map_cons, ih]
    · simp only [h, Bool.false_eq_true, if_false, ih]

/-- the model's view of a `types.Pnft` -/
def toP (p : pnfttypes.Pnft) : Pnft.Pnft :=
  { denomId := p.DenomId, id := p.Id, name := p.Name, description := p.Description, uri := p.Uri, uriHash := p.UriHash,
    data := p.Data, creator := p.Creator, owner := p.Owner, createdAt := p.CreatedAt.nanos }

theorem toP_pnftOf (bech : Go.Bech32) (he : EncNil bech) (w : Nft.World) (d i : Bytes) (n : Nft.NFT) :
    toP (pnftOf bech w d i n) = Pnft.toPnft (codec bech) (abs w) d i (toNft n) := by
  unfold toP pnftOf Pnft.toPnft toNft
  simp only [ownerText_eq bech he]
  rfl

theorem sorted_nfts (w : Nft.World) (hp : Pnft.PInv (abs w)) : w.nfts.Sorted := by
  have := hp.sortedN
  unfold Map.Sorted at this ⊢
  rw [show (abs w).nfts = Map.mapVals toNft w.nfts from rfl, keys_mapVals] at this
  exact this

theorem sorted_classes (w : Nft.World) (hp : Pnft.PInv (abs w)) : w.classes.Sorted := by
  have := hp.sortedC
  unfold Map.Sorted at this ⊢
  rw [show (abs w).classes = Map.mapVals toClass w.classes from rfl, keys_mapVals] at this
  exact this

theorem getPNFTsByDenomId_run (bech : Go.Bech32) (w : Nft.World) (hwf : WF w) (hp : Pnft.PInv (abs w)) (d : Bytes) :
    pnftkeeper.Keeper.GetPNFTsByDenomId bech d w =
      P.ok ((Nft.getNFTsOfClass w d).map (fun n => some (pnftOf bech w d n.Id n)), none, w) := by
  unfold pnftkeeper.Keeper.GetPNFTsByDenomId
  have hdec : ∀ n ∈ Nft.getNFTsOfClass w d,
      (Go.unmarshalE (Go.anyValue n.Data) : pnfttypes.PNFTMeta × Go.Err).2 = none := by
    intro n hn
    unfold Nft.getNFTsOfClass at hn
    obtain ⟨e, he, rfl⟩ := List.mem_map.mp hn
    have hm : (d ++ [0x00] ++ e.1, e.2) ∈ w.nfts := Map.mem_prefixView.mp he
    exact hwf.nftDec _ _ (Map.get_of_mem_sorted (sorted_nfts w hp) hm)
  simp only []
  rw [forIn_collect (Nft.getNFTsOfClass w d) (fun n => some (pnftOf bech w d n.Id n)) _ ?_ default]
  · simp only [P.ok_bind, P.pure_eq]; rfl
  · intro n hn acc
    simp only [hdec n hn, Option.isNone_none, Bool.not_true, Bool.false_eq_true, if_false, P.pure_eq]
    rfl

/-- **`Query/PNFTs`**: the items of the translated listing are, in order, the items of the model's `queryPNFTs` -/
theorem getPNFTsByDenomId_refines (bech : Go.Bech32) (he : EncNil bech) (w : Nft.World) (hwf : WF w)
    (hp : Pnft.PInv (abs w)) (d : Bytes) :
    ∃ l : List pnfttypes.Pnft, pnftkeeper.Keeper.GetPNFTsByDenomId bech d w = P.ok (l.map some, none, w) ∧
      l.map toP = Pnft.queryPNFTs (codec bech) (abs w) d := by
  refine ⟨(Nft.getNFTsOfClass w d).map (fun n => pnftOf bech w d n.Id n), ?_, ?_⟩
  · rw [getPNFTsByDenomId_run bech w hwf hp d]; simp [List.map_map, Function.comp_def]
  · unfold Pnft.queryPNFTs Nft.getNFTsOfClass
    rw [show (abs w).nfts = Map.mapVals toNft w.nfts from rfl, prefixView_mapVals]
    simp only [List.map_map, Function.comp_def, toP_pnftOf bech he]
    rfl

theorem getPNFTsByDenomIdAndOwner_bad (bech : Go.Bech32) (w : Nft.World) (d owner : Bytes) (h : bech.dec owner = none) :
    ∃ e, pnftkeeper.Keeper.GetPNFTsByDenomIdAndOwner bech d owner w = P.ok ([], some e, w) := by
  unfold pnftkeeper.Keeper.GetPNFTsByDenomIdAndOwner Go.accAddressFromBech32
  simp only [h, Option.isNone_some, Bool.not_false, if_true, P.pure_eq]
  exact ⟨_, rfl⟩

theorem getPNFTsByDenomIdAndOwner_run (bech : Go.Bech32) (w : Nft.World) (hwf : WF w)
    (d owner o : Bytes) (h : bech.dec owner = some o) :
    pnftkeeper.Keeper.GetPNFTsByDenomIdAndOwner bech d owner w =
      P.ok ((Nft.getNFTsOfClassByOwner w d o).map (fun n => some (pnftOf bech w d n.Id n)), none, w) := by
  unfold pnftkeeper.Keeper.GetPNFTsByDenomIdAndOwner Go.accAddressFromBech32
  have hdec : ∀ n ∈ Nft.getNFTsOfClassByOwner w d o,
      (Go.unmarshalE (Go.anyValue n.Data) : pnfttypes.PNFTMeta × Go.Err).2 = none := by
    intro n hn
    unfold Nft.getNFTsOfClassByOwner at hn
    obtain ⟨e, _, he⟩ := List.mem_filterMap.mp hn
    exact hwf.nftDec _ _ he
  simp only [h, Option.isNone_none, Bool.not_true, Bool.false_eq_true, if_false]
  rw [forIn_collect (Nft.getNFTsOfClassByOwner w d o) (fun n => some (pnftOf bech w d n.Id n)) _ ?_ default]
  · simp only [P.ok_bind, P.pure_eq]; rfl
  · intro n hn acc
    simp only [hdec n hn, Option.isNone_none, Bool.not_true, Bool.false_eq_true, if_false, P.pure_eq]
    rfl

/-- **`Query/PNFTsByDenomOwner`**: on a reachable world (the counting invariant holds) and a NUL-free denom id,
the translated listing returns, in order, the items of the model's `queryPNFTsByDenomOwner` -/
theorem getPNFTsByDenomIdAndOwner_refines (bech : Go.Bech32) (he : EncNil bech) (w : Nft.World) (hwf : WF w)
    (hp : Pnft.PInv (abs w)) (d owner o : Bytes) (hd : Pnft.NoNul d) (h : bech.dec owner = some o) :
    ∃ l : List pnfttypes.Pnft, pnftkeeper.Keeper.GetPNFTsByDenomIdAndOwner bech d owner w = P.ok (l.map some, none, w) ∧
      Pnft.queryPNFTsByDenomOwner (codec bech) (abs w) d owner = .ok (l.map toP) := by
  refine ⟨(Nft.getNFTsOfClassByOwner w d o).map (fun n => pnftOf bech w d n.Id n), ?_, ?_⟩
  · rw [getPNFTsByDenomIdAndOwner_run bech w hwf d owner o h]; simp [List.map_map, Function.comp_def]
  · unfold Pnft.queryPNFTsByDenomOwner
    have hc : (codec bech).dec owner = some o := h
    simp only [hc]
    congr 1
    unfold Nft.getNFTsOfClassByOwner
    rw [List.map_map, List.map_filterMap]
    show List.filterMap _ (w.ownerIdx.prefixView _) = _
    apply filterMap_congr'
    intro e _
    rw [getPNFT_abs bech he]
    cases hn : w.nfts.get (Pnft.nftKey d e.1) with
    | none => rfl
    | some n =>
      simp only [Option.map_some, Function.comp_apply]
      have hk := hp.tokenKey (Pnft.nftKey d e.1) (toNft n) (by rw [getNft_abs, hn]; rfl)
      obtain ⟨_, hid⟩ := C12.pairs_do_not_alias d (toNft n).classId e.1 (toNft n).id hd hk.2.1 hk.1
      have hid' : n.Id = e.1 := hid.symm
      rw [hid', toP_pnftOf bech he]

theorem getAllDenoms_run (w : Nft.World) (hwf : WF w) (hp : Pnft.PInv (abs w)) :
    pnftkeeper.Keeper.GetAllDenoms w = P.ok (w.classes.map (fun e => some (denomOf e.2)), none, w) := by
  unfold pnftkeeper.Keeper.GetAllDenoms Nft.getClasses
  have hdec : ∀ c ∈ w.classes.map (fun e => some e.2), ∃ x, c = some x ∧
      (Go.unmarshalE (Go.anyValue x.Data) : pnfttypes.DenomMeta × Go.Err).2 = none := by
    intro c hc
    obtain ⟨e, he, rfl⟩ := List.mem_map.mp hc
    exact ⟨e.2, rfl, hwf.classDec _ _ (Map.get_of_mem_sorted (sorted_classes w hp) he)⟩
  simp only []
  rw [forIn_collect (w.classes.map (fun e => some e.2)) (fun c => c.map denomOf) _ ?_ default]
  · simp only [P.ok_bind, P.pure_eq, List.map_map, Function.comp_def, Option.map_some]; rfl
  · intro c hc acc
    obtain ⟨x, rfl, hx⟩ := hdec c hc
    simp only [newDenomFromClass_run x hx, P.ok_bind, Option.isNone_none, Bool.not_true, Bool.false_eq_true, if_false,
      P.pure_eq]
    rfl

/-! ## the gRPC query server -/

/-- `for x in l { if p(x) { acc = append(acc, x) } }` over a list of non-nil pointers -/
theorem forIn_filterSome {α : Type} (l : List α) (p : α → Bool)
    (body : Option α → List (Option α) → P (ForInStep (List (Option α))))
    (hb : ∀ x ∈ l, ∀ acc, body (some x) acc = P.ok (.yield (if p x then acc ++ [some x] else acc))) :
    ∀ acc, forIn (l.map some) acc body = P.ok (acc ++ (l.filter p).map some) := by
  induction l with
  | nil => intro acc; simp only [List.map_nil, List.forIn_nil, List.filter_nil, List.append_nil]; rfl
  | cons x l ih =>
    intro acc
    simp only [List.map_cons, List.forIn_cons]
    rw [hb x (by simp) acc]
    simp only [P.ok_bind]
    rw [ih (fun y hy => hb y (List.mem_cons_of_mem _ hy))]
    rcases Bool.eq_false_or_eq_true (p x) with h | h
    · simp [h, List.filter_cons]
    · simp [h, List.filter_cons]

/-- the model's view of a `types.Denom` -/
def toD (d : pnfttypes.Denom) : Pnft.Class :=
  Pnft.newClass d.Id d.Name d.Symbol d.Description d.Uri d.UriHash d.Data d.Owner

theorem toD_denomOf (c : Nft.Class) : toD (denomOf c) = toClass c := rfl

theorem filter_mapVals {V W : Type} (f : V → W) (q : W → Bool) (m : Map V) :
    (Map.mapVals f m).filter (fun e => q e.2) = Map.mapVals f (m.filter fun e => q (f e.2)) := by
  unfold Map.mapVals
  induction m with
  | nil => rfl
  | cons e m ih =>
    simp only [List.map_cons, List.filter_cons]
    rcases Bool.eq_false_or_eq_true (q (f e.2)) with h | h
    · simp only [h, if_true, List.map_cons, ih]
    · simp only [h, Bool.false_eq_true, if_false, ih]

/-- **`Query/DenomsByOwner`** (the repaired F7): the translated handler returns, in store order, exactly the denoms
whose recorded owner string is the requested one — the model's `queryDenomsByOwner` -/
theorem denomsByOwner_refines (w : Nft.World) (hwf : WF w) (hp : Pnft.PInv (abs w))
    (req : pnfttypes.QueryDenomsByOwnerRequest) :
    ∃ l : List pnfttypes.Denom,
      pnftkeeper.Keeper.DenomsByOwner (some req) w = P.ok (some { Denoms := l.map some }, none, w) ∧
      l.map toD = Pnft.queryDenomsByOwner (abs w) req.Owner := by
  refine ⟨((w.classes.map fun e => denomOf e.2).filter fun d => decide (d.Owner = req.Owner)), ?_, ?_⟩
  · unfold pnftkeeper.Keeper.DenomsByOwner
    simp only [Option.isNone_some, Bool.false_eq_true, if_false, getAllDenoms_run w hwf hp, P.ok_bind, Option.isNone_none,
      Bool.not_true]
    have hm : (w.classes.map fun e => some (denomOf e.2)) = (w.classes.map fun e => denomOf e.2).map some := by
      simp [List.map_map, Function.comp_def]
    rw [hm, forIn_filterSome (w.classes.map fun e => denomOf e.2) (fun d => decide (d.Owner = req.Owner)) _ ?_ default]
    · simp only [P.ok_bind, P.pure_eq]; rfl
    · intro x _ acc
      simp only [deref_some, P.ok_bind]
      by_cases h : x.Owner = req.Owner
      · simp only [h, decide_true, if_true]; rfl
      · simp only [h, decide_false, Bool.false_eq_true, if_false]; rfl
  · unfold Pnft.queryDenomsByOwner
    rw [show (abs w).classes = Map.mapVals toClass w.classes from rfl]
    rw [filter_mapVals toClass (fun c => decide (c.owner = req.Owner)) w.classes]
    unfold Map.mapVals
    simp only [List.map_map, Function.comp_def, List.filter_map]
    rfl

/-- the single-item and listing endpoints are thin wrappers: a nil request is an `InvalidArgument`, anything else is
the keeper function's answer -/
theorem pnftQuery_refines (bech : Go.Bech32) (w : Nft.World) (req : pnfttypes.QueryPNFTRequest) :
    pnftkeeper.Keeper.PNFT bech (some req) w =
      (pnftkeeper.Keeper.GetPNFT bech req.DenomId req.Id w).bind fun t =>
        if (!t.2.1.isNone) = true then P.ok (none, t.2.1, t.2.2) else P.ok (some { Pnft := t.1 }, none, t.2.2) := by
  unfold pnftkeeper.Keeper.PNFT
  simp only [Option.isNone_some, Bool.false_eq_true, if_false, deref_some, P.ok_bind]
  rfl

end
end Panacea.Refine.Pnft
