import Panacea.Refine.PnftQuery
/-!
# Genesis export and import of the translated `x/pnft` module

`pnft.ExportGenesis` and `pnft.InitGenesis` are regenerated from `/repo/x/pnft/genesis.go`.  Their loops (with the
panics of `InitGenesis` on a refused entry) are characterised as pure functions of the raw `x/nft` world:

* `exportGenesis_run`: on a well-formed reachable world the export is the list of classes in store order, each
  rendered by `denomOf`, and `exportP` — for every class in turn its tokens in store order, each with the owner text
  and the recorded creation time;
* `initGenesis_run`: the import is the fold of `importD` (a class, unless the id is taken: then the chain does not
  start) over the denoms, then of `importP` (mint to the decoded owner with the recorded metadata — the repair of
  F10 — or no start) over the tokens.

That importing an export gives back the same state (C08) is *not* proved here for PNFT: it needs "the export lists
every token exactly once", i.e. the listing-exactness of C12 lifted to all classes at once; the `genesis` stream
checks it on the real application.
-/
namespace Panacea.Refine.Pnft
open Panacea Panacea.Gen Panacea.Go Panacea.Validate
section
variable [Go.Proto pnfttypes.DenomMeta] [Go.Proto pnfttypes.PNFTMeta]
variable [Go.LawfulProto pnfttypes.DenomMeta] [Go.LawfulProto pnfttypes.PNFTMeta]
set_option linter.unusedSectionVars false

theorem forIn_fold_inv {α σ : Type} (l : List α) (f : σ → α → σ) (I : σ → Prop) (body : α → σ → P (ForInStep σ))
    (hb : ∀ x ∈ l, ∀ s, I s → body x s = P.ok (.yield (f s x)) ∧ I (f s x)) :
    ∀ s, I s → forIn l s body = P.ok (l.foldl f s) := by
  induction l with
  | nil => intro s _; rfl
  | cons x l ih =>
    intro s hs
    simp only [List.forIn_cons, List.foldl_cons]
    obtain ⟨h1, h2⟩ := hb x (by simp) s hs
    rw [h1]
    simp only [P.ok_bind]
    exact ih (fun y hy => hb y (List.mem_cons_of_mem _ hy)) _ h2

/-- what the export lists as tokens: per class, in class order, the tokens of the class in store order -/
def exportP (bech : Go.Bech32) (w : Nft.World) : List pnfttypes.Pnft :=
  w.classes.flatMap fun e => (Nft.getNFTsOfClass w (denomOf e.2).Id).map fun n => pnftOf bech w (denomOf e.2).Id n.Id n

theorem fold_export (bech : Go.Bech32) (w : Nft.World) (l : List pnfttypes.Denom) :
    ∀ acc : List (Option pnfttypes.Pnft),
      List.foldl (fun (s : Nft.World × List (Option pnfttypes.Pnft)) (d : Option pnfttypes.Denom) =>
        (s.1, s.2 ++ (match d with
          | some d => (Nft.getNFTsOfClass w d.Id).map (fun n => some (pnftOf bech w d.Id n.Id n))
          | none => []))) (w, acc) (l.map some) =
      (w, acc ++ (l.flatMap fun d => (Nft.getNFTsOfClass w d.Id).map fun n => pnftOf bech w d.Id n.Id n).map some) := by
  induction l with
  | nil => intro acc; simp
  | cons d l ih =>
    intro acc
    simp only [List.map_cons, List.foldl_cons, List.flatMap_cons, List.map_append, List.map_map, Function.comp_def]
    rw [ih]
    simp [List.append_assoc, List.map_map, Function.comp_def]

/-- **`ExportGenesis`** of the translated module: the denoms are the classes in store order, the tokens are the tokens
of each class in turn -/
theorem exportGenesis_run (bech : Go.Bech32) (w : Nft.World) (hwf : WF w) (hp : Pnft.PInv (abs w)) :
    pnft.ExportGenesis bech w =
      P.ok (some { Denoms := w.classes.map (fun e => some (denomOf e.2)), Pnfts := (exportP bech w).map some }, w) := by
  unfold pnft.ExportGenesis pnfttypes.DefaultGenesis
  simp only [P.pure_eq, P.ok_bind, getAllDenoms_run w hwf hp, Option.isNone_none, Bool.not_true, Bool.false_eq_true, if_false]
  have hm : (w.classes.map fun e => some (denomOf e.2)) = (w.classes.map fun e => denomOf e.2).map some := by
    simp [List.map_map, Function.comp_def]
  rw [hm, forIn_fold_inv ((w.classes.map fun e => denomOf e.2).map some)
    (fun (s : Nft.World × List (Option pnfttypes.Pnft)) (d : Option pnfttypes.Denom) =>
      (s.1, s.2 ++ (match d with
        | some d => (Nft.getNFTsOfClass w d.Id).map (fun n => some (pnftOf bech w d.Id n.Id n))
        | none => [])))
    (fun s => s.1 = w) _ ?_ (w, default) rfl]
  · rw [fold_export]
    simp only [P.ok_bind, deref_some, List.nil_append]
    unfold exportP
    simp only [List.flatMap_map]
    rfl
  · intro x hx s hs
    obtain ⟨d, _, rfl⟩ := List.mem_map.mp hx
    obtain ⟨sw, sacc⟩ := s
    have hs' : sw = w := hs
    subst hs'
    simp only [deref_some, P.ok_bind, getPNFTsByDenomId_run bech sw hwf hp d.Id, Option.isNone_none, Bool.not_true,
      Bool.false_eq_true, if_false]
    constructor <;> first | rfl | trivial
/-- a loop whose body is a step that may panic -/
theorem forIn_foldlM {α σ : Type} (l : List α) (step : σ → α → P σ) (body : α → σ → P (ForInStep σ))
    (hb : ∀ x ∈ l, ∀ s, body x s = (step s x) >>= fun s' => P.ok (.yield s')) :
    ∀ s, forIn l s body = l.foldlM step s := by
  induction l with
  | nil => intro s; rfl
  | cons x l ih =>
    intro s
    simp only [List.forIn_cons, List.foldlM_cons]
    rw [hb x (by simp) s]
    cases hstep : step s x with
    | panic e => rfl
    | ok s' =>
      simp only [P.ok_bind]
      exact ih (fun y hy => hb y (List.mem_cons_of_mem _ hy)) s'

/-- `InitGenesis`, one denom: saved as a class unless the id is taken — then the chain does not start -/
def importD (w : Nft.World) (d : pnfttypes.Denom) : P Nft.World :=
  if Nft.hasClass w d.Id then P.panic "err" else P.ok { w with classes := w.classes.set d.Id (classOf d) }

/-- `InitGenesis`, one token: minted to the account its owner text decodes to, with its recorded creation time -/
def importP (bech : Go.Bech32) (w : Nft.World) (p : pnfttypes.Pnft) : P Nft.World :=
  match bech.dec p.Owner with
  | none => P.panic "err"
  | some o => if (Nft.mint w (sdkOf p p.DenomId) o).2.isNone then P.ok (Nft.mint w (sdkOf p p.DenomId) o).1 else P.panic "err"

theorem importPNFT_run (bech : Go.Bech32) (w : Nft.World) (p : pnfttypes.Pnft) :
    pnftkeeper.Keeper.ImportPNFT bech (some p) w =
      P.ok (match bech.dec p.Owner with
        | none => (some "bech32", w)
        | some o => ((Nft.mint w (sdkOf p p.DenomId) o).2, (Nft.mint w (sdkOf p p.DenomId) o).1)) := by
  unfold pnftkeeper.Keeper.ImportPNFT Go.accAddressFromBech32
  simp only [deref_some, P.ok_bind, Option.isNone_none, Bool.not_true, Bool.false_eq_true, if_false]
  cases bech.dec p.Owner with
  | none => rfl
  | some o => rfl

/-- a step on a non-nil pointer (a nil element would be a nil dereference) -/
def optStep {α σ : Type} (step : σ → α → P σ) (w : σ) : Option α → P σ
  | some a => step w a
  | none => P.panic "nil"

theorem foldlM_map_some {α σ : Type} (l : List α) (step : σ → α → P σ) (s : σ) :
    (l.map some).foldlM (optStep step) s = l.foldlM step s := by
  induction l generalizing s with
  | nil => rfl
  | cons x l ih =>
    simp only [List.map_cons, List.foldlM_cons, optStep]
    cases step s x with
    | panic e => rfl
    | ok s' => simp only [P.ok_bind]; exact ih s'

/-- **`InitGenesis`** of the translated module is the fold of the two import steps over the file's lists -/
theorem initGenesis_run (bech : Go.Bech32) (ds : List pnfttypes.Denom) (ps : List pnfttypes.Pnft) (w0 : Nft.World) :
    pnft.InitGenesis bech { Denoms := ds.map some, Pnfts := ps.map some } w0 =
      (ds.foldlM importD w0) >>= fun w1 => ps.foldlM (importP bech) w1 := by
  unfold pnft.InitGenesis
  simp only []
  rw [forIn_foldlM (ds.map some) (optStep importD) _ ?_ w0]
  · rw [foldlM_map_some]
    cases h1 : ds.foldlM importD w0 with
    | panic e => rfl
    | ok w1 =>
      simp only [P.ok_bind]
      rw [forIn_foldlM (ps.map some) (optStep (importP bech)) _ ?_ w1]
      · rw [foldlM_map_some]
        cases ps.foldlM (importP bech) w1 <;> rfl
      · intro x hx s
        obtain ⟨p, _, rfl⟩ := List.mem_map.mp hx
        simp only [importPNFT_run, P.ok_bind, importP, optStep]
        cases bech.dec p.Owner with
        | none => rfl
        | some o =>
          simp only []
          rcases Bool.eq_false_or_eq_true ((Nft.mint s (sdkOf p p.DenomId) o).2.isNone) with h | h
          · simp only [h, Bool.not_true, Bool.false_eq_true, if_false, if_true]; rfl
          · simp only [h, Bool.not_false, if_true, Bool.false_eq_true, if_false]; rfl
  · intro x hx s
    obtain ⟨d, _, rfl⟩ := List.mem_map.mp hx
    simp only [saveDenom_run, P.ok_bind, importD, optStep]
    rcases Bool.eq_false_or_eq_true (Nft.hasClass s d.Id) with h | h
    · simp only [h, if_true, Option.isNone_some, Bool.not_false]; rfl
    · simp only [h, Bool.false_eq_true, if_false, Option.isNone_none, Bool.not_true]; rfl
end
end Panacea.Refine.Pnft
