import Panacea.Refine.AolGenesis
import Panacea.Properties.C09
/-!
# The translated AOL genesis import does not depend on Go's map iteration order

`aol.InitGenesis` ranges over four Go maps; the translator renders each as the list of its entries in *some* order.
For entries that land on distinct store keys, every order of every map leaves a world that stands for the same state.
-/
namespace Panacea.Refine.AolGenesis
open Panacea Panacea.Gen Panacea.Go Panacea.Refine.Aol

section
variable [Go.Proto aoltypes.Owner] [Go.Proto aoltypes.Topic] [Go.Proto aoltypes.Writer] [Go.Proto aoltypes.Record]
variable [Go.LawfulProto aoltypes.Owner] [Go.LawfulProto aoltypes.Topic] [Go.LawfulProto aoltypes.Writer]
variable [Go.LawfulProto aoltypes.Record]
variable (bech : Go.Bech32)
set_option linter.unusedSectionVars false

/-- **C09 on the translated `x/aol` `InitGenesis`.**  If the import of the four maps visited in one order yields state `s`
and the entries of each map land on distinct store keys, then visited in any other order (`lo'`, `lt'`, `lw'`, `lr'`
permutations) `InitGenesis` on the empty store succeeds and the world stands for the same `s`. -/
theorem initGenesis_order_independent
    (lo lo' : List (Bytes × aoltypes.Owner)) (lt lt' : List (Bytes × aoltypes.Topic))
    (lw lw' : List (Bytes × aoltypes.Writer)) (lr lr' : List (Bytes × aoltypes.Record)) (s : Aol.State)
    (po : lo'.Perm lo) (pt : lt'.Perm lt) (pw : lw'.Perm lw) (pr : lr'.Perm lr)
    (no : (lo.map fun e => C09.storeKeyOf (toCodec bech) .owner e.1).Nodup)
    (nt : (lt.map fun e => C09.storeKeyOf (toCodec bech) .topic e.1).Nodup)
    (nw : (lw.map fun e => C09.storeKeyOf (toCodec bech) .writer e.1).Nodup)
    (nr : (lr.map fun e => C09.storeKeyOf (toCodec bech) .record e.1).Nodup)
    (h : Genesis.aolImport (toCodec bech) (toG lo lt lw lr) = .ok s) :
    ∃ w', aol.InitGenesis bech { Owners := ent lo', Topics := ent lt', Writers := ent lw', Records := ent lr' } ({} : World) = P.ok w' ∧
      WF w' ∧ abs w' = s := by
  apply initGenesis_refines
  apply C09.aolImport_perm (toCodec bech) (toG lo lt lw lr) (toG lo' lt' lw' lr') s _ _ _ _ _ _ _ _ h
  · exact po.map _
  · exact pt.map _
  · exact pw.map _
  · exact pr.map _
  · simpa [toG, List.map_map, Function.comp_def] using no
  · simpa [toG, List.map_map, Function.comp_def] using nt
  · simpa [toG, List.map_map, Function.comp_def] using nw
  · simpa [toG, List.map_map, Function.comp_def] using nr

end
end Panacea.Refine.AolGenesis
