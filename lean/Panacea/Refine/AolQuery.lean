import Panacea.Refine.Aol
/-!
# The single-item queries of the translated `x/aol` query server

`Keeper.Topic`, `Keeper.Writer`, `Keeper.Record` (regenerated from `/repo/x/aol/keeper/grpc_query_*.go`) answer what the
model's `queryTopic`, `queryWriter`, `queryRecord` answer on `abs` of the world: the item stored under the composite
key of the request, `NotFound` when there is none, `InvalidArgument` for an address that does not decode or a
component too long to encode — and never a panic (F3 was a panic here).  The paginated listings (`Topics`,
`Writers`) call the SDK's `query.Paginate` and stay on ties T and D.
-/
namespace Panacea.Refine.Aol
open Panacea Panacea.Gen Panacea.Go Panacea.CompKey Panacea.Refine.CompKey

variable [Go.Proto aoltypes.Owner] [Go.Proto aoltypes.Topic] [Go.Proto aoltypes.Writer] [Go.Proto aoltypes.Record]
variable [Go.LawfulProto aoltypes.Owner] [Go.LawfulProto aoltypes.Topic] [Go.LawfulProto aoltypes.Writer]
  [Go.LawfulProto aoltypes.Record]
variable (bech : Go.Bech32) (w : World)
set_option linter.unusedSectionVars false

/-- `compkey.Encode` (the error-returning one) of any key whose `ByteSlices` are `vs` -/
theorem encodeE_eq {κ : Type} (I : compkey.CompositeKey κ) (key : κ) (vs : List Bytes)
    (h : I.ByteSlices key = P.ok vs) : compkey.Encode I key = P.ok (encodeSpec vs) := by
  unfold compkey.Encode
  simp only [h, P.ok_bind, encode_refines]
  rfl

/-- a query answers like the model: the item (converted), or some error with the world untouched, or a panic -/
def QSim {ρ V : Type} (item : ρ → Option V) (g : P (Option ρ × Go.Err × World)) (m : Outcome V) : Prop :=
  match m with
  | .ok v => ∃ r, g = P.ok (some r, none, w) ∧ item r = some v
  | .err _ => ∃ e, g = P.ok (none, some e, w)
  | .panic _ => ∃ s, g = P.panic s

theorem topicQuery_refines (req : aoltypes.QueryTopicRequest) (hwf : WF w) :
    QSim w (fun r : aoltypes.QueryTopicResponse => r.Topic.map toTopic) (aolkeeper.Keeper.Topic bech (some req) w)
      (Aol.queryTopic (toCodec bech) (abs w) req.OwnerAddress req.TopicName) := by
  unfold aolkeeper.Keeper.Topic Aol.queryTopic Aol.decAddr Go.accAddressFromBech32
  simp only [Option.isNone_some, Bool.false_eq_true, if_false, P.ok_bind, Go.deref]
  have hd : (toCodec bech).dec req.OwnerAddress = bech.dec req.OwnerAddress := rfl
  rw [hd]
  cases ho : bech.dec req.OwnerAddress with
  | none => exact ⟨_, rfl⟩
  | some o =>
    simp only [Option.isNone_none, Bool.not_true, Bool.false_eq_true, if_false, Outcome.ok_bind]
    rw [encodeE_eq _ _ [o, req.TopicName] rfl]
    unfold encodeSpec Aol.encodeQ
    cases he : CompKey.encode [o, req.TopicName] with
    | none => exact ⟨_, rfl⟩
    | some tk =>
      simp only [P.ok_bind, Option.isNone_none, Bool.not_true, Bool.false_eq_true, if_false, Outcome.ok_bind,
        hasTopic_run, getTopic_run bech w o req.TopicName hwf, he]
      have hget : (abs w).topics.get tk = ((w.store "aol").get ([1] ++ tk)).map fun _ => toTopic (readG aoltypes.Topic (w.store "aol") [1] tk) := by
        show Map.get (table toTopic (w.store "aol") [1]) tk = _
        rw [table_get]
        cases hg : (w.store "aol").get ([1] ++ tk) with
        | none => rfl
        | some v => simp only [Option.map_some]; unfold readG; rw [hg]; rfl
      rw [hget]
      unfold Map.has
      cases hg : (w.store "aol").get ([1] ++ tk) with
      | none => exact ⟨_, rfl⟩
      | some v => exact ⟨_, rfl, rfl⟩

theorem getWriter_run (o t x : Bytes) (hwf : WF w) :
    aolkeeper.Keeper.GetWriter bech { OwnerAddress := o, TopicName := t, WriterAddress := x } w =
      match CompKey.encode [o, t, x] with
      | some k => P.ok (readG aoltypes.Writer (w.store "aol") [2] k, w)
      | none => P.panic "err" := by
  unfold aolkeeper.Keeper.GetWriter
  simp only [writerKey_eq]
  cases h : CompKey.encode [o, t, x] with
  | none => rfl
  | some k =>
    have := read_ok aoltypes.Writer (w.store "aol") [2] k hwf.writers
    simp only [P.ok_bind, id, Go.Store.get, Go.prefixStore, Go.kvStore, aoltypes.WriterKeyPrefix, List.nil_append] at this ⊢
    rw [this]; rfl

theorem hasRecord_run (o t : Bytes) (n : Nat) :
    aolkeeper.Keeper.HasRecord bech { OwnerAddress := o, TopicName := t, Offset := n } w =
      match CompKey.encode [o, t, be64 n] with
      | some k => P.ok ((w.store "aol").has ([3] ++ k), w)
      | none => P.panic "err" := by
  unfold aolkeeper.Keeper.HasRecord
  simp only [recordKey_eq]
  cases h : CompKey.encode [o, t, be64 n] <;> rfl

theorem getRecord_run (o t : Bytes) (n : Nat) (hwf : WF w) :
    aolkeeper.Keeper.GetRecord bech { OwnerAddress := o, TopicName := t, Offset := n } w =
      match CompKey.encode [o, t, be64 n] with
      | some k => P.ok (readG aoltypes.Record (w.store "aol") [3] k, w)
      | none => P.panic "err" := by
  unfold aolkeeper.Keeper.GetRecord
  simp only [recordKey_eq]
  cases h : CompKey.encode [o, t, be64 n] with
  | none => rfl
  | some k =>
    have := read_ok aoltypes.Record (w.store "aol") [3] k hwf.records
    simp only [P.ok_bind, id, Go.Store.get, Go.prefixStore, Go.kvStore, aoltypes.RecordKeyPrefix, List.nil_append] at this ⊢
    rw [this]; rfl

theorem writerQuery_refines (req : aoltypes.QueryWriterRequest) (hwf : WF w) :
    QSim w (fun r : aoltypes.QueryWriterResponse => r.Writer.map toWriter) (aolkeeper.Keeper.Writer bech (some req) w)
      (Aol.queryWriter (toCodec bech) (abs w) req.OwnerAddress req.TopicName req.WriterAddress) := by
  unfold aolkeeper.Keeper.Writer Aol.queryWriter Aol.decAddr Go.accAddressFromBech32
  simp only [Option.isNone_some, Bool.false_eq_true, if_false, P.ok_bind, Go.deref]
  have hd : ∀ a, (toCodec bech).dec a = bech.dec a := fun _ => rfl
  rw [hd, hd]
  cases ho : bech.dec req.OwnerAddress with
  | none => exact ⟨_, rfl⟩
  | some o =>
    simp only [Option.isNone_none, Bool.not_true, Bool.false_eq_true, if_false, Outcome.ok_bind]
    cases hx : bech.dec req.WriterAddress with
    | none => exact ⟨_, rfl⟩
    | some x =>
      simp only [Option.isNone_none, Bool.not_true, Bool.false_eq_true, if_false, Outcome.ok_bind]
      rw [encodeE_eq _ _ [o, req.TopicName, x] rfl]
      unfold encodeSpec Aol.encodeQ
      cases he : CompKey.encode [o, req.TopicName, x] with
      | none => exact ⟨_, rfl⟩
      | some k =>
        simp only [P.ok_bind, Option.isNone_none, Bool.not_true, Bool.false_eq_true, if_false, Outcome.ok_bind,
          hasWriter_run, getWriter_run bech w o req.TopicName x hwf, he]
        have hget : (abs w).writers.get k = ((w.store "aol").get ([2] ++ k)).map fun _ => toWriter (readG aoltypes.Writer (w.store "aol") [2] k) := by
          show Map.get (table toWriter (w.store "aol") [2]) k = _
          rw [table_get]
          cases hg : (w.store "aol").get ([2] ++ k) with
          | none => rfl
          | some v => simp only [Option.map_some]; unfold readG; rw [hg]; rfl
        rw [hget]
        unfold Map.has
        cases hg : (w.store "aol").get ([2] ++ k) with
        | none => exact ⟨_, rfl⟩
        | some v => exact ⟨_, rfl, rfl⟩

theorem recordQuery_refines (req : aoltypes.QueryRecordRequest) (hwf : WF w) :
    QSim w (fun r : aoltypes.QueryRecordResponse => r.Record.map toRecord) (aolkeeper.Keeper.Record bech (some req) w)
      (Aol.queryRecord (toCodec bech) (abs w) req.OwnerAddress req.TopicName req.Offset) := by
  unfold aolkeeper.Keeper.Record Aol.queryRecord Aol.decAddr Go.accAddressFromBech32
  simp only [Option.isNone_some, Bool.false_eq_true, if_false, P.ok_bind, Go.deref]
  have hd : (toCodec bech).dec req.OwnerAddress = bech.dec req.OwnerAddress := rfl
  rw [hd]
  cases ho : bech.dec req.OwnerAddress with
  | none => exact ⟨_, rfl⟩
  | some o =>
    simp only [Option.isNone_none, Bool.not_true, Bool.false_eq_true, if_false, Outcome.ok_bind]
    rw [encodeE_eq _ _ [o, req.TopicName, be64 req.Offset] rfl]
    unfold encodeSpec Aol.encodeQ
    cases he : CompKey.encode [o, req.TopicName, be64 req.Offset] with
    | none => exact ⟨_, rfl⟩
    | some k =>
      simp only [P.ok_bind, Option.isNone_none, Bool.not_true, Bool.false_eq_true, if_false, Outcome.ok_bind,
        hasRecord_run, getRecord_run bech w o req.TopicName req.Offset hwf, he]
      have hget : (abs w).records.get k = ((w.store "aol").get ([3] ++ k)).map fun _ => toRecord (readG aoltypes.Record (w.store "aol") [3] k) := by
        show Map.get (table toRecord (w.store "aol") [3]) k = _
        rw [table_get]
        cases hg : (w.store "aol").get ([3] ++ k) with
        | none => rfl
        | some v => simp only [Option.map_some]; unfold readG; rw [hg]; rfl
      rw [hget]
      unfold Map.has
      cases hg : (w.store "aol").get ([3] ++ k) with
      | none => exact ⟨_, rfl⟩
      | some v => exact ⟨_, rfl, rfl⟩

/-- a nil request is an `InvalidArgument`, never a panic -/
theorem itemQueries_nil :
    aolkeeper.Keeper.Topic bech none w = P.ok (none, some "grpc/codes.InvalidArgument", w) ∧
    aolkeeper.Keeper.Writer bech none w = P.ok (none, some "grpc/codes.InvalidArgument", w) ∧
    aolkeeper.Keeper.Record bech none w = P.ok (none, some "grpc/codes.InvalidArgument", w) :=
  ⟨rfl, rfl, rfl⟩

end Panacea.Refine.Aol
