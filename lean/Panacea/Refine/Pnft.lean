import Panacea.Generated.Code
import Panacea.Model.Pnft
import Panacea.Lemmas.RawStore
import Panacea.Refine.CompKey
/-!
# Refinement: the translated `x/pnft` types, keeper and message server compute the hand-written model

`Gen.pnfttypes.*` / `Gen.pnftkeeper.*` are regenerated from `/repo/x/pnft` on every run.  The SDK's `x/nft`
keeper they call is the hand-written `Go.Nft` (tie D); classes and NFTs are stored with their `data` as a
protobuf `Any` of `DenomMeta` / `PNFTMeta`.  `abs` decodes them into the typed state of `Model/Pnft.lean`; the
theorems say that stateless validation accepts exactly what `pnftValidateBasic` accepts, that each of the seven
message handlers, run on a well-formed world, does what `Pnft.handle` does on `abs` of that world (`SimP`), and
that this lifts to every history of timed requests (`goRun_abs`).  Parameters, not axioms: the bech32 codec
(`EncNil`: the empty address renders as the empty string) and the protobuf codec of the two `Any` payloads
(`LawfulProto`: decoding inverts encoding).
-/
namespace Panacea.Refine.Pnft
open Panacea Panacea.Gen Panacea.Go Panacea.Validate

/-! ## stateless validation: the translated validators accept exactly what the model accepts -/

theorem indexByte_nul (s : Bytes) : decide (Go.indexByte s (0 : UInt8) ≥ 0) = s.contains 0x00 := by
  unfold Go.indexByte
  cases h : s.idxOf? (0 : UInt8) with
  | none =>
    have : ¬ ((0 : UInt8) ∈ s) := by
      intro hm
      have := List.idxOf?_eq_none_iff.mp h
      exact this hm
    have hc : s.contains 0x00 = false := by
      cases hh : s.contains (0x00 : UInt8) with
      | false => rfl
      | true => exact absurd (List.contains_iff_mem.mp hh) this
    rw [hc]; decide
  | some i =>
    have hm : (0 : UInt8) ∈ s := by
      apply Classical.byContradiction
      intro hn
      have := List.idxOf?_eq_none_iff.mpr hn
      rw [this] at h; cases h
    have hc : s.contains 0x00 = true := List.contains_iff_mem.mpr hm
    rw [hc]
    simp only [ge_iff_le, decide_eq_true_eq]
    omega


theorem acc_ok (bech : Go.Bech32) (a : Bytes) :
    ((Go.accAddressFromBech32 bech a).2).isNone = (bech.dec a).isSome := by
  unfold Go.accAddressFromBech32; cases bech.dec a <;> rfl

def toCreateDenom (m : pnfttypes.MsgCreateDenomRequest) : PnftMsg :=
  .createDenom m.Id m.Name m.Symbol m.Description m.Uri m.UriHash m.Data m.Creator
def toUpdateDenom (m : pnfttypes.MsgUpdateDenomRequest) : PnftMsg :=
  .updateDenom m.Id m.Name m.Symbol m.Description m.Uri m.UriHash m.Data m.Updater
def toDeleteDenom (m : pnfttypes.MsgDeleteDenomRequest) : PnftMsg := .deleteDenom m.Id m.Remover
def toTransferDenom (m : pnfttypes.MsgTransferDenomRequest) : PnftMsg := .transferDenom m.Id m.Sender m.Receiver
def toMint (m : pnfttypes.MsgMintPNFTRequest) : PnftMsg :=
  .mintPNFT m.DenomId m.Id m.Name m.Description m.Uri m.UriHash m.Data m.Creator
def toTransfer (m : pnfttypes.MsgTransferPNFTRequest) : PnftMsg := .transferPNFT m.DenomId m.Id m.Sender m.Receiver
def toBurn (m : pnfttypes.MsgBurnPNFTRequest) : PnftMsg := .burnPNFT m.DenomId m.Id m.Burner

theorem deref_some {α : Type} (site : String) (a : α) : Go.deref site (some a) = P.ok a := rfl


/-- the address codec of the model that the ambient bech32 parameter stands for -/
def codec (bech : Go.Bech32) : CompKey.AddrCodec := { enc := bech.enc, dec := bech.dec }

/-- outcome of a translated validator: `some true` = nil error, `some false` = an error, `none` = panic -/
def res : P Go.Err → Option Bool
  | .ok e => some e.isNone
  | .panic _ => none

/-- the same view of the model's validator -/
def okOrErr : Outcome Unit → Option Bool
  | .ok _ => some true
  | .err _ => some false
  | .panic _ => none

theorem res_ok (e : Go.Err) : res (P.ok e) = some e.isNone := rfl

/-- rewriting set for one validator step: both sides reduce under the case hypotheses in context -/
macro "vs" : tactic => `(tactic|
  (simp only [*, decide_true, decide_false, Bool.false_eq_true, if_true, if_false, Validate.nonEmpty, Validate.noNul,
    Validate.pnftAddr, res_ok, acc_ok, okOrErr, Option.isNone_none, Option.isNone_some,
    Outcome.ok_bind, Outcome.err_bind, Bool.not_true, Bool.not_false, Bool.true_or, Bool.or_true, Bool.false_or,
    Bool.or_false, Bool.true_eq_false] <;> try rfl))

theorem createDenom_vb (bech : Go.Bech32) (m : pnfttypes.MsgCreateDenomRequest) :
    res (pnfttypes.MsgCreateDenomRequest.ValidateBasic bech (some m)) =
      okOrErr (Pnft.validateBasic (codec bech) (toCreateDenom m)) := by
  show _ = okOrErr (pnftValidateBasic bech.dec (toCreateDenom m))
  unfold pnfttypes.MsgCreateDenomRequest.ValidateBasic pnftValidateBasic toCreateDenom
  simp only [deref_some, P.ok_bind, indexByte_nul, P.pure_eq, acc_ok]
  by_cases h1 : m.Id = []
  · vs
  cases h2 : m.Id.contains 0x00
  case true => vs
  by_cases h3 : m.Name = []
  · vs
  by_cases h4 : m.Symbol = []
  · vs
  by_cases h5 : m.Creator = []
  · vs
  cases h6 : (bech.dec m.Creator).isSome <;> vs

theorem updateDenom_vb (bech : Go.Bech32) (m : pnfttypes.MsgUpdateDenomRequest) :
    res (pnfttypes.MsgUpdateDenomRequest.ValidateBasic bech (some m)) =
      okOrErr (Pnft.validateBasic (codec bech) (toUpdateDenom m)) := by
  show _ = okOrErr (pnftValidateBasic bech.dec (toUpdateDenom m))
  unfold pnfttypes.MsgUpdateDenomRequest.ValidateBasic pnftValidateBasic toUpdateDenom
  simp only [deref_some, P.ok_bind, P.pure_eq, acc_ok]
  by_cases h1 : m.Id = []
  · vs
  by_cases h2 : m.Updater = []
  · vs
  cases h3 : (bech.dec m.Updater).isSome <;> vs

theorem deleteDenom_vb (bech : Go.Bech32) (m : pnfttypes.MsgDeleteDenomRequest) :
    res (pnfttypes.MsgDeleteDenomRequest.ValidateBasic bech (some m)) =
      okOrErr (Pnft.validateBasic (codec bech) (toDeleteDenom m)) := by
  show _ = okOrErr (pnftValidateBasic bech.dec (toDeleteDenom m))
  unfold pnfttypes.MsgDeleteDenomRequest.ValidateBasic pnftValidateBasic toDeleteDenom
  simp only [deref_some, P.ok_bind, P.pure_eq, acc_ok]
  by_cases h1 : m.Id = []
  · vs
  by_cases h2 : m.Remover = []
  · vs
  cases h3 : (bech.dec m.Remover).isSome <;> vs

theorem transferDenom_vb (bech : Go.Bech32) (m : pnfttypes.MsgTransferDenomRequest) :
    res (pnfttypes.MsgTransferDenomRequest.ValidateBasic bech (some m)) =
      okOrErr (Pnft.validateBasic (codec bech) (toTransferDenom m)) := by
  show _ = okOrErr (pnftValidateBasic bech.dec (toTransferDenom m))
  unfold pnfttypes.MsgTransferDenomRequest.ValidateBasic pnftValidateBasic toTransferDenom
  simp only [deref_some, P.ok_bind, P.pure_eq, acc_ok]
  by_cases h1 : m.Id = []
  · vs
  by_cases h2 : m.Sender = []
  · vs
  cases h3 : (bech.dec m.Sender).isSome
  · vs
  by_cases h4 : m.Receiver = []
  · vs
  cases h5 : (bech.dec m.Receiver).isSome <;> vs

theorem mint_vb (bech : Go.Bech32) (m : pnfttypes.MsgMintPNFTRequest) :
    res (pnfttypes.MsgMintPNFTRequest.ValidateBasic bech (some m)) =
      okOrErr (Pnft.validateBasic (codec bech) (toMint m)) := by
  show _ = okOrErr (pnftValidateBasic bech.dec (toMint m))
  unfold pnfttypes.MsgMintPNFTRequest.ValidateBasic pnftValidateBasic toMint
  simp only [deref_some, P.ok_bind, indexByte_nul, P.pure_eq, acc_ok]
  by_cases h1 : m.DenomId = []
  · vs
  by_cases h2 : m.Id = []
  · vs
  by_cases h3 : m.Name = []
  · vs
  cases h4 : m.DenomId.contains 0x00
  case true => vs
  cases h5 : m.Id.contains 0x00
  case true => vs
  by_cases h6 : m.Creator = []
  · vs
  cases h7 : (bech.dec m.Creator).isSome <;> vs

theorem transfer_vb (bech : Go.Bech32) (m : pnfttypes.MsgTransferPNFTRequest) :
    res (pnfttypes.MsgTransferPNFTRequest.ValidateBasic bech (some m)) =
      okOrErr (Pnft.validateBasic (codec bech) (toTransfer m)) := by
  show _ = okOrErr (pnftValidateBasic bech.dec (toTransfer m))
  unfold pnfttypes.MsgTransferPNFTRequest.ValidateBasic pnftValidateBasic toTransfer
  simp only [deref_some, P.ok_bind, P.pure_eq, acc_ok]
  by_cases h1 : m.DenomId = []
  · vs
  by_cases h2 : m.Id = []
  · vs
  by_cases h3 : m.Sender = []
  · vs
  cases h4 : (bech.dec m.Sender).isSome
  · vs
  by_cases h5 : m.Receiver = []
  · vs
  cases h6 : (bech.dec m.Receiver).isSome <;> vs

theorem burn_vb (bech : Go.Bech32) (m : pnfttypes.MsgBurnPNFTRequest) :
    res (pnfttypes.MsgBurnPNFTRequest.ValidateBasic bech (some m)) =
      okOrErr (Pnft.validateBasic (codec bech) (toBurn m)) := by
  show _ = okOrErr (pnftValidateBasic bech.dec (toBurn m))
  unfold pnfttypes.MsgBurnPNFTRequest.ValidateBasic pnftValidateBasic toBurn
  simp only [deref_some, P.ok_bind, P.pure_eq, acc_ok]
  by_cases h1 : m.DenomId = []
  · vs
  by_cases h2 : m.Id = []
  · vs
  by_cases h3 : m.Burner = []
  · vs
  cases h4 : (bech.dec m.Burner).isSome <;> vs

theorem vb_split {g : P Go.Err} {o : Outcome Unit} (h : res g = okOrErr o) :
    (o = .ok () ∧ g = P.ok none) ∨ (∃ c e, o = .err c ∧ g = P.ok (some e)) ∨ (∃ s t, o = .panic s ∧ g = P.panic t) := by
  cases g with
  | panic s =>
    cases o with
    | panic t => exact Or.inr (Or.inr ⟨t, s, rfl, rfl⟩)
    | ok u => cases h
    | err c => cases h
  | ok e =>
    cases o with
    | panic s => cases h
    | ok u => cases e with
      | none => exact Or.inl ⟨rfl, rfl⟩
      | some x => cases h
    | err c => cases e with
      | none => cases h
      | some x => exact Or.inr (Or.inl ⟨c, x, rfl, rfl⟩)

section keeper
variable [Go.Proto pnfttypes.DenomMeta] [Go.Proto pnfttypes.PNFTMeta]
set_option linter.unusedSectionVars false

def metaD (c : Nft.Class) : pnfttypes.DenomMeta :=
  (Go.unmarshalE (Go.anyValue c.Data) : pnfttypes.DenomMeta × Go.Err).1
def metaN (n : Nft.NFT) : pnfttypes.PNFTMeta :=
  (Go.unmarshalE (Go.anyValue n.Data) : pnfttypes.PNFTMeta × Go.Err).1

def toClass (c : Nft.Class) : Pnft.Class :=
  { id := c.Id, name := c.Name, symbol := c.Symbol, description := c.Description, uri := c.Uri, uriHash := c.UriHash,
    owner := (metaD c).Owner, data := (metaD c).Data }
def toNft (n : Nft.NFT) : Pnft.Nft :=
  { classId := n.ClassId, id := n.Id, uri := n.Uri, uriHash := n.UriHash, name := (metaN n).Name,
    description := (metaN n).Description, creator := (metaN n).Creator, createdAt := (metaN n).CreatedAt.nanos,
    data := (metaN n).Data }

/-- the typed PNFT state a raw `x/nft` world stands for -/
def abs (w : Nft.World) : Pnft.State :=
  { classes := Map.mapVals toClass w.classes, nfts := Map.mapVals toNft w.nfts, ownerIdx := w.ownerIdx, owners := w.owners,
    supply := w.supply }

/-- what the PNFT keeper maintains of the raw world: a class is stored under its own id, and the `Any` payload of
every class and token decodes -/
structure WF (w : Nft.World) : Prop where
  classKey : ∀ k c, w.classes.get k = some c → c.Id = k
  classDec : ∀ k c, w.classes.get k = some c →
    (Go.unmarshalE (Go.anyValue c.Data) : pnfttypes.DenomMeta × Go.Err).2 = none
  nftDec : ∀ k n, w.nfts.get k = some n →
    (Go.unmarshalE (Go.anyValue n.Data) : pnfttypes.PNFTMeta × Go.Err).2 = none

def denomOf (c : Nft.Class) : pnfttypes.Denom :=
  { Id := c.Id, Name := c.Name, Symbol := c.Symbol, Description := c.Description, Uri := c.Uri, UriHash := c.UriHash,
    Owner := (metaD c).Owner, Data := (metaD c).Data }

def denomTypeUrl : Bytes := [112, 110, 102, 116, 116, 121, 112, 101, 115, 46, 68, 101, 110, 111, 109, 77, 101, 116, 97]

def classOf (d : pnfttypes.Denom) : Nft.Class :=
  { Id := d.Id, Name := d.Name, Symbol := d.Symbol, Description := d.Description, Uri := d.Uri, UriHash := d.UriHash,
    Data := some { TypeUrl := denomTypeUrl, Value := Go.Proto.marshal ({ Owner := d.Owner, Data := d.Data } : pnfttypes.DenomMeta) } }

theorem newDenomFromClass_run (c : Nft.Class)
    (h : (Go.unmarshalE (Go.anyValue c.Data) : pnfttypes.DenomMeta × Go.Err).2 = none) :
    pnfttypes.NewDenomFromClass (some c) = P.ok (some (denomOf c), none) := by
  unfold pnfttypes.NewDenomFromClass
  simp only [deref_some, P.ok_bind, h, Option.isNone_none, Bool.not_true, Bool.false_eq_true, if_false, P.pure_eq]
  rfl

theorem newClassFromDenom_run (d : pnfttypes.Denom) :
    pnfttypes.NewClassFromDenom (some d) = P.ok (some (classOf d), none) := by
  unfold pnfttypes.NewClassFromDenom
  simp only [deref_some, P.ok_bind, Option.isNone_none, Bool.not_true, Bool.false_eq_true, if_false, P.pure_eq]
  rfl

theorem getDenom_none (w : Nft.World) (id : Bytes) (h : w.classes.get id = none) :
    pnftkeeper.Keeper.GetDenom id w = P.ok (none, some "fmt:not found class", w) := by
  unfold pnftkeeper.Keeper.GetDenom Nft.getClass
  simp only [h, Bool.not_false, if_true, P.pure_eq]
  rfl

theorem getDenom_some (w : Nft.World) (hwf : WF w) (id : Bytes) (c : Nft.Class) (h : w.classes.get id = some c) :
    pnftkeeper.Keeper.GetDenom id w = P.ok (some (denomOf c), none, w) := by
  unfold pnftkeeper.Keeper.GetDenom Nft.getClass
  simp only [h, Bool.not_true, Bool.false_eq_true, if_false, newDenomFromClass_run c (hwf.classDec id c h), P.ok_bind,
    P.pure_eq]

variable [Go.LawfulProto pnfttypes.DenomMeta] [Go.LawfulProto pnfttypes.PNFTMeta]

/-- **Simulation**: accepted ↔ accepted, and the new raw world stands for the model's new state and is well-formed
again; rejected ↔ rejected with the message's registered error `code`, the world unchanged; panic ↔ panic. -/
def SimP {ρ : Type} (code : Go.Err) (w : Nft.World) (g : P (Option ρ × Go.Err × Nft.World)) (m : Outcome Pnft.State) : Prop :=
  match m with
  | .ok s' => ∃ v w', g = P.ok (some v, none, w') ∧ abs w' = s' ∧ WF w'
  | .err _ => g = P.ok (none, Go.wrap code, w)
  | .panic _ => ∃ s, g = P.panic s

theorem metaD_classOf (d : pnfttypes.Denom) : metaD (classOf d) = { Owner := d.Owner, Data := d.Data } := by
  unfold metaD classOf Go.unmarshalE Go.anyValue
  simp only [Go.LawfulProto.unmarshal_marshal]

theorem dec_classOf (d : pnfttypes.Denom) :
    (Go.unmarshalE (Go.anyValue (classOf d).Data) : pnfttypes.DenomMeta × Go.Err).2 = none := by
  unfold classOf Go.unmarshalE Go.anyValue
  simp only [Go.LawfulProto.unmarshal_marshal]

theorem hasClass_abs (w : Nft.World) (id : Bytes) : Pnft.hasClass (abs w) id = Nft.hasClass w id := by
  unfold Pnft.hasClass Nft.hasClass abs Map.has
  simp only [Map.get_mapVals, Option.isSome_map]

theorem getClass_abs (w : Nft.World) (id : Bytes) : (abs w).classes.get id = (w.classes.get id).map toClass := by
  unfold abs; simp only [Map.get_mapVals]

/-- storing a class built from a denom under the denom's id keeps the world well-formed -/
theorem wf_setClass (w : Nft.World) (hwf : WF w) (d : pnfttypes.Denom) :
    WF { w with classes := w.classes.set d.Id (classOf d) } := by
  constructor
  · intro k c h
    by_cases hk : k = d.Id
    · subst hk; rw [Map.get_set_eq] at h; cases h; rfl
    · rw [Map.get_set_ne _ _ _ _ hk] at h; exact hwf.classKey k c h
  · intro k c h
    by_cases hk : k = d.Id
    · subst hk; rw [Map.get_set_eq] at h; cases h; exact dec_classOf d
    · rw [Map.get_set_ne _ _ _ _ hk] at h; exact hwf.classDec k c h
  · exact hwf.nftDec

theorem abs_setClass (w : Nft.World) (d : pnfttypes.Denom) :
    abs { w with classes := w.classes.set d.Id (classOf d) } =
      { abs w with classes := (abs w).classes.set d.Id (Pnft.newClass d.Id d.Name d.Symbol d.Description d.Uri d.UriHash d.Data d.Owner) } := by
  unfold abs
  simp only [Map.set_mapVals]
  congr 2
  unfold toClass
  rw [metaD_classOf]
  rfl

theorem abs_setClass' (w : Nft.World) (k : Bytes) (d : pnfttypes.Denom) :
    abs { w with classes := w.classes.set k (classOf d) } =
      { abs w with classes := (abs w).classes.set k (Pnft.newClass d.Id d.Name d.Symbol d.Description d.Uri d.UriHash d.Data d.Owner) } := by
  unfold abs
  simp only [Map.set_mapVals]
  congr 2
  unfold toClass
  rw [metaD_classOf]
  rfl

theorem wf_setClass' (w : Nft.World) (hwf : WF w) (k : Bytes) (d : pnfttypes.Denom) (hk : d.Id = k) :
    WF { w with classes := w.classes.set k (classOf d) } := by
  subst hk; exact wf_setClass w hwf d

theorem saveDenom_run (w : Nft.World) (d : pnfttypes.Denom) :
    pnftkeeper.Keeper.SaveDenom (some d) w =
      P.ok (if Nft.hasClass w d.Id then (some "nft/3", w)
            else (none, { w with classes := w.classes.set d.Id (classOf d) })) := by
  unfold pnftkeeper.Keeper.SaveDenom Nft.saveClass
  simp only [newClassFromDenom_run, P.ok_bind, Option.isNone_none, Bool.not_true, Bool.false_eq_true, if_false, deref_some,
    P.pure_eq]
  rcases Bool.eq_false_or_eq_true (Nft.hasClass w (classOf d).Id) with h | h
  · have h' : Nft.hasClass w d.Id = true := h
    simp only [h, h', if_true]; rfl
  · have h' : Nft.hasClass w d.Id = false := h
    simp only [h, h', Bool.false_eq_true, if_false]; rfl

def createD (m : pnfttypes.MsgCreateDenomRequest) : pnfttypes.Denom :=
  { Id := m.Id, Name := m.Name, Symbol := m.Symbol, Description := m.Description, Uri := m.Uri, UriHash := m.UriHash,
    Owner := m.Creator, Data := m.Data }

theorem createDenom_refines (bech : Go.Bech32) (now : Int) (w : Nft.World) (hwf : WF w)
    (m : pnfttypes.MsgCreateDenomRequest) :
    SimP pnfttypes.ErrCreateDenom w (pnftkeeper.msgServer.CreateDenom bech (some m) w)
      (Pnft.handle (codec bech) now (abs w) (toCreateDenom m)) := by
  unfold pnftkeeper.msgServer.CreateDenom Pnft.handle
  rcases vb_split (createDenom_vb bech m) with ⟨ho, hg⟩ | ⟨c, e, ho, hg⟩ | ⟨s, t, ho, hg⟩
  · simp only [ho, hg, P.ok_bind, Option.isNone_none, Bool.not_true, Bool.false_eq_true, if_false, deref_some,
      saveDenom_run, Outcome.ok_bind, Outcome.pure_eq]
    simp only [toCreateDenom, hasClass_abs]
    rcases Bool.eq_false_or_eq_true (Nft.hasClass w m.Id) with h | h
    · simp only [h, if_true, Option.isNone_some, Bool.not_false, SimP, P.pure_eq]; rfl
    · simp only [h, Bool.false_eq_true, if_false, Option.isNone_none, Bool.not_true, SimP, P.pure_eq]
      refine ⟨default, _, rfl, ?_, ?_⟩
      · exact abs_setClass w (createD m)
      · exact wf_setClass w hwf (createD m)
  · simp only [ho, hg, P.ok_bind, Option.isNone_some, Bool.not_false, if_true, Outcome.err_bind, SimP, P.pure_eq]; rfl
  · simp only [ho, hg, P.panic_bind, Outcome.panic_bind, SimP]; exact ⟨_, rfl⟩

def updD (msg d : pnfttypes.Denom) : pnfttypes.Denom :=
  let d := if msg.Name ≠ [] then { d with Name := msg.Name } else d
  let d := if msg.Symbol ≠ [] then { d with Symbol := msg.Symbol } else d
  let d := if msg.Description ≠ [] then { d with Description := msg.Description } else d
  let d := if msg.Uri ≠ [] then { d with Uri := msg.Uri } else d
  let d := if msg.UriHash ≠ [] then { d with UriHash := msg.UriHash } else d
  if msg.Data ≠ [] then { d with Data := msg.Data } else d

theorem updD_id (msg d : pnfttypes.Denom) : (updD msg d).Id = d.Id := by
  unfold updD
  by_cases h1 : msg.Name = [] <;> by_cases h2 : msg.Symbol = [] <;> by_cases h3 : msg.Description = [] <;>
  by_cases h4 : msg.Uri = [] <;> by_cases h5 : msg.UriHash = [] <;> by_cases h6 : msg.Data = [] <;>
  simp only [ne_eq, h1, h2, h3, h4, h5, h6, if_true, if_false, not_false_eq_true, not_true_eq_false]

theorem updD_class (msg d : pnfttypes.Denom) :
    Pnft.newClass (updD msg d).Id (updD msg d).Name (updD msg d).Symbol (updD msg d).Description (updD msg d).Uri
        (updD msg d).UriHash (updD msg d).Data (updD msg d).Owner =
      ({ id := d.Id, name := if msg.Name ≠ [] then msg.Name else d.Name,
         symbol := if msg.Symbol ≠ [] then msg.Symbol else d.Symbol,
         description := if msg.Description ≠ [] then msg.Description else d.Description,
         uri := if msg.Uri ≠ [] then msg.Uri else d.Uri,
         uriHash := if msg.UriHash ≠ [] then msg.UriHash else d.UriHash, owner := d.Owner,
         data := if msg.Data ≠ [] then msg.Data else d.Data } : Pnft.Class) := by
  unfold updD Pnft.newClass
  by_cases h1 : msg.Name = [] <;> by_cases h2 : msg.Symbol = [] <;> by_cases h3 : msg.Description = [] <;>
  by_cases h4 : msg.Uri = [] <;> by_cases h5 : msg.UriHash = [] <;> by_cases h6 : msg.Data = [] <;>
  simp only [ne_eq, h1, h2, h3, h4, h5, h6, if_true, if_false, not_false_eq_true, not_true_eq_false]

theorem updateDenom_run (w : Nft.World) (hwf : WF w) (msg : pnfttypes.Denom) (c : Nft.Class)
    (h : w.classes.get msg.Id = some c) (hown : msg.Owner = (metaD c).Owner) :
    pnftkeeper.Keeper.UpdateDenom (some msg) w =
      P.ok (none, { w with classes := w.classes.set msg.Id (classOf (updD msg (denomOf c))) }) := by
  unfold pnftkeeper.Keeper.UpdateDenom
  have hcid : c.Id = msg.Id := hwf.classKey _ _ h
  have hhas : Nft.hasClass w msg.Id = true := by unfold Nft.hasClass Map.has; rw [h]; rfl
  have hown' : ¬ (msg.Owner ≠ (denomOf c).Owner) := fun hne => hne hown
  have tail : ∀ d : pnfttypes.Denom, d.Id = msg.Id →
      (do let t_1 ← pnfttypes.NewClassFromDenom (some d)
          if (!Option.isNone t_1.snd) = true then pure (t_1.snd, w)
          else do
            let d_20 ← Go.deref "class" t_1.fst
            if (!Option.isNone (Nft.updateClass w d_20).snd) = true then
              pure ((Nft.updateClass w d_20).snd, (Nft.updateClass w d_20).fst)
            else pure (none, (Nft.updateClass w d_20).fst) : P (Go.Err × Nft.World)) =
        P.ok (none, { w with classes := w.classes.set msg.Id (classOf d) }) := by
    intro d hd
    have hh : Nft.hasClass w (classOf d).Id = true := by show Nft.hasClass w d.Id = true; rw [hd]; exact hhas
    simp only [newClassFromDenom_run, P.ok_bind, Option.isNone_none, Bool.not_true, Bool.false_eq_true, if_false,
      deref_some, Nft.updateClass, hh, P.pure_eq]
    show P.ok (none, { w with classes := w.classes.set d.Id (classOf d) }) = _
    rw [hd]
  simp only [getDenom_some w hwf msg.Id c h, P.ok_bind, Option.isNone_none, Bool.not_true, Bool.false_eq_true, if_false,
    deref_some, hown', decide_false]
  by_cases h1 : msg.Name = [] <;> by_cases h2 : msg.Symbol = [] <;> by_cases h3 : msg.Description = [] <;>
  by_cases h4 : msg.Uri = [] <;> by_cases h5 : msg.UriHash = [] <;> by_cases h6 : msg.Data = [] <;>
  simp only [ne_eq, h1, h2, h3, h4, h5, h6, decide_true, decide_false, if_true, if_false, Bool.false_eq_true, updD,
    not_false_eq_true, not_true_eq_false] <;>
  (refine (tail _ ?_).trans ?_ <;> first | exact hcid | rfl)

theorem updateDenom_none (w : Nft.World) (msg : pnfttypes.Denom) (h : w.classes.get msg.Id = none) :
    ∃ e, pnftkeeper.Keeper.UpdateDenom (some msg) w = P.ok (some e, w) := by
  unfold pnftkeeper.Keeper.UpdateDenom
  simp only [getDenom_none w msg.Id h, P.ok_bind, Option.isNone_some, Bool.not_false, if_true, P.pure_eq]
  exact ⟨_, rfl⟩

theorem updateDenom_perm (w : Nft.World) (hwf : WF w) (msg : pnfttypes.Denom) (c : Nft.Class)
    (h : w.classes.get msg.Id = some c) (hown : msg.Owner ≠ (metaD c).Owner) :
    ∃ e, pnftkeeper.Keeper.UpdateDenom (some msg) w = P.ok (some e, w) := by
  unfold pnftkeeper.Keeper.UpdateDenom
  have hown' : msg.Owner ≠ (denomOf c).Owner := hown
  simp only [getDenom_some w hwf msg.Id c h, P.ok_bind, Option.isNone_none, Bool.not_true, Bool.false_eq_true, if_false,
    deref_some, hown', decide_true, if_true, P.pure_eq, ne_eq, not_false_eq_true]
  exact ⟨_, rfl⟩

def updateD (m : pnfttypes.MsgUpdateDenomRequest) : pnfttypes.Denom :=
  { Id := m.Id, Name := m.Name, Symbol := m.Symbol, Description := m.Description, Uri := m.Uri, UriHash := m.UriHash,
    Owner := m.Updater, Data := m.Data }

theorem updateDenom_refines (bech : Go.Bech32) (now : Int) (w : Nft.World) (hwf : WF w)
    (m : pnfttypes.MsgUpdateDenomRequest) :
    SimP pnfttypes.ErrUpdateDenom w (pnftkeeper.msgServer.UpdateDenom bech (some m) w)
      (Pnft.handle (codec bech) now (abs w) (toUpdateDenom m)) := by
  unfold pnftkeeper.msgServer.UpdateDenom Pnft.handle
  rcases vb_split (updateDenom_vb bech m) with ⟨ho, hg⟩ | ⟨c, e, ho, hg⟩ | ⟨s, t, ho, hg⟩
  · simp only [ho, hg, P.ok_bind, Option.isNone_none, Bool.not_true, Bool.false_eq_true, if_false, deref_some,
      Outcome.ok_bind, Outcome.pure_eq]
    simp only [toUpdateDenom, getClass_abs]
    change SimP _ w (do let t_1 ← pnftkeeper.Keeper.UpdateDenom (some (updateD m)) w; _) _
    cases hc : w.classes.get m.Id with
    | none =>
      obtain ⟨e, he⟩ := updateDenom_none w (updateD m) hc
      simp only [he, P.ok_bind, Option.isNone_some, Bool.not_false, if_true, Option.map_none, SimP, P.pure_eq]; rfl
    | some c =>
      simp only [Option.map_some]
      by_cases hown : m.Updater = (metaD c).Owner
      · have hown' : ¬ (m.Updater ≠ (toClass c).owner) := fun hne => hne hown
        rw [if_neg hown']
        simp only [updateDenom_run w hwf (updateD m) c hc hown, P.ok_bind, Option.isNone_none, Bool.not_true,
          Bool.false_eq_true, if_false, SimP, P.pure_eq]
        refine ⟨default, _, rfl, ?_, ?_⟩
        · refine (abs_setClass' w m.Id _).trans ?_
          rw [updD_class]; rfl
        · exact wf_setClass' w hwf m.Id _ (updD_id _ _ |>.trans (hwf.classKey _ _ hc))
      · obtain ⟨e, he⟩ := updateDenom_perm w hwf (updateD m) c hc hown
        have hown' : m.Updater ≠ (toClass c).owner := hown
        rw [if_pos hown']
        simp only [he, P.ok_bind, Option.isNone_some, Bool.not_false, if_true, SimP, P.pure_eq]; rfl
  · simp only [ho, hg, P.ok_bind, Option.isNone_some, Bool.not_false, if_true, Outcome.err_bind, SimP, P.pure_eq]; rfl
  · simp only [ho, hg, P.panic_bind, Outcome.panic_bind, SimP]; exact ⟨_, rfl⟩

theorem hasClass_of_get (w : Nft.World) (id : Bytes) (c : Nft.Class) (h : w.classes.get id = some c) :
    Nft.hasClass w id = true := by unfold Nft.hasClass Map.has; rw [h]; rfl

theorem transferDenomOwner_none (w : Nft.World) (id s r : Bytes) (h : w.classes.get id = none) :
    ∃ e, pnftkeeper.Keeper.TransferDenomOwner id s r w = P.ok (some e, w) := by
  unfold pnftkeeper.Keeper.TransferDenomOwner
  simp only [getDenom_none w id h, P.ok_bind, Option.isNone_some, Bool.not_false, if_true, P.pure_eq]
  exact ⟨_, rfl⟩

theorem transferDenomOwner_perm (w : Nft.World) (hwf : WF w) (id s r : Bytes) (c : Nft.Class)
    (h : w.classes.get id = some c) (hown : s ≠ (metaD c).Owner) :
    ∃ e, pnftkeeper.Keeper.TransferDenomOwner id s r w = P.ok (some e, w) := by
  unfold pnftkeeper.Keeper.TransferDenomOwner
  have hown' : s ≠ (denomOf c).Owner := hown
  simp only [getDenom_some w hwf id c h, P.ok_bind, Option.isNone_none, Bool.not_true, Bool.false_eq_true, if_false,
    deref_some, hown', decide_true, if_true, P.pure_eq, ne_eq, not_false_eq_true]
  exact ⟨_, rfl⟩

theorem transferDenomOwner_run (w : Nft.World) (hwf : WF w) (id s r : Bytes) (c : Nft.Class)
    (h : w.classes.get id = some c) (hown : s = (metaD c).Owner) :
    pnftkeeper.Keeper.TransferDenomOwner id s r w =
      P.ok (none, { w with classes := w.classes.set id (classOf { denomOf c with Owner := r }) }) := by
  unfold pnftkeeper.Keeper.TransferDenomOwner
  have hown' : ¬ (s ≠ (denomOf c).Owner) := fun hne => hne hown
  have hh : Nft.hasClass w (classOf { denomOf c with Owner := r }).Id = true := by
    show Nft.hasClass w c.Id = true
    rw [hwf.classKey _ _ h]; exact hasClass_of_get w id c h
  simp only [getDenom_some w hwf id c h, P.ok_bind, Option.isNone_none, Bool.not_true, Bool.false_eq_true, if_false,
    deref_some, hown', decide_false, newClassFromDenom_run, Nft.updateClass, hh, P.pure_eq]
  show P.ok (none, { w with classes := w.classes.set c.Id _ }) = _
  rw [hwf.classKey _ _ h]

theorem transferDenom_refines (bech : Go.Bech32) (now : Int) (w : Nft.World) (hwf : WF w)
    (m : pnfttypes.MsgTransferDenomRequest) :
    SimP pnfttypes.ErrTransferDenom w (pnftkeeper.msgServer.TransferDenom bech (some m) w)
      (Pnft.handle (codec bech) now (abs w) (toTransferDenom m)) := by
  unfold pnftkeeper.msgServer.TransferDenom Pnft.handle
  rcases vb_split (transferDenom_vb bech m) with ⟨ho, hg⟩ | ⟨c, e, ho, hg⟩ | ⟨s, t, ho, hg⟩
  · simp only [ho, hg, P.ok_bind, Option.isNone_none, Bool.not_true, Bool.false_eq_true, if_false, deref_some,
      Outcome.ok_bind, Outcome.pure_eq]
    simp only [toTransferDenom, getClass_abs]
    cases hc : w.classes.get m.Id with
    | none =>
      obtain ⟨e, he⟩ := transferDenomOwner_none w m.Id m.Sender m.Receiver hc
      simp only [he, P.ok_bind, Option.isNone_some, Bool.not_false, if_true, Option.map_none, SimP, P.pure_eq]; rfl
    | some c =>
      simp only [Option.map_some]
      by_cases hown : m.Sender = (metaD c).Owner
      · have hown' : ¬ (m.Sender ≠ (toClass c).owner) := fun hne => hne hown
        rw [if_neg hown']
        simp only [transferDenomOwner_run w hwf m.Id m.Sender m.Receiver c hc hown, P.ok_bind, Option.isNone_none,
          Bool.not_true, Bool.false_eq_true, if_false, SimP, P.pure_eq]
        refine ⟨default, _, rfl, ?_, ?_⟩
        · exact (abs_setClass' w m.Id _).trans rfl
        · exact wf_setClass' w hwf m.Id _ (hwf.classKey _ _ hc)
      · obtain ⟨e, he⟩ := transferDenomOwner_perm w hwf m.Id m.Sender m.Receiver c hc hown
        have hown' : m.Sender ≠ (toClass c).owner := hown
        rw [if_pos hown']
        simp only [he, P.ok_bind, Option.isNone_some, Bool.not_false, if_true, SimP, P.pure_eq]; rfl
  · simp only [ho, hg, P.ok_bind, Option.isNone_some, Bool.not_false, if_true, Outcome.err_bind, SimP, P.pure_eq]; rfl
  · simp only [ho, hg, P.panic_bind, Outcome.panic_bind, SimP]; exact ⟨_, rfl⟩

theorem classStoreKey_run (id : Bytes) : pnftkeeper.classStoreKey id = P.ok (0x01 :: id) := by
  unfold pnftkeeper.classStoreKey
  have hl : Go.len Go.Nft.classKey + Go.len id = ((1 + id.length : Nat) : Int) := by
    unfold Go.len Go.Nft.classKey; simp
  have h1 : Go.len Go.Nft.classKey = (([] : Bytes).length + 1 : Nat) := rfl
  rw [hl, Panacea.Refine.CompKey.make_ok]
  simp only [P.ok_bind]
  have hr : List.replicate (1 + id.length) (default : UInt8) = [] ++ List.replicate (1 + id.length) default := rfl
  have c1 := Panacea.Refine.CompKey.copyAt_append [] (List.replicate (1 + id.length) (default : UInt8)) Go.Nft.classKey
    (by simp [Go.Nft.classKey])
  simp only [List.nil_append, List.length_nil, Int.cast_ofNat_Int] at c1
  rw [c1]
  simp only [P.ok_bind]
  have hd : (List.replicate (1 + id.length) (default : UInt8)).drop Go.Nft.classKey.length = List.replicate id.length default := by
    simp [Go.Nft.classKey]
  rw [hd]
  have c2 := Panacea.Refine.CompKey.copyAt_append Go.Nft.classKey (List.replicate id.length (default : UInt8)) id (by simp)
  have hk : (Go.Nft.classKey.length : Int) = Go.len Go.Nft.classKey := rfl
  rw [hk] at c2
  rw [c2]
  simp [Go.Nft.classKey]

theorem deleteDenom_none (w : Nft.World) (id r : Bytes) (h : w.classes.get id = none) :
    ∃ e, pnftkeeper.Keeper.DeleteDenom id r w = P.ok (some e, w) := by
  unfold pnftkeeper.Keeper.DeleteDenom
  simp only [getDenom_none w id h, P.ok_bind, Option.isNone_some, Bool.not_false, if_true, P.pure_eq]
  exact ⟨_, rfl⟩

theorem deleteDenom_perm (w : Nft.World) (hwf : WF w) (id r : Bytes) (c : Nft.Class)
    (h : w.classes.get id = some c) (hown : r ≠ (metaD c).Owner) :
    ∃ e, pnftkeeper.Keeper.DeleteDenom id r w = P.ok (some e, w) := by
  unfold pnftkeeper.Keeper.DeleteDenom
  have hown' : r ≠ (denomOf c).Owner := hown
  simp only [getDenom_some w hwf id c h, P.ok_bind, Option.isNone_none, Bool.not_true, Bool.false_eq_true, if_false,
    deref_some, hown', decide_true, if_true, P.pure_eq, ne_eq, not_false_eq_true]
  exact ⟨_, rfl⟩

theorem deleteDenom_supply (w : Nft.World) (hwf : WF w) (id r : Bytes) (c : Nft.Class)
    (h : w.classes.get id = some c) (hown : r = (metaD c).Owner) (hs : Nft.getTotalSupply w id ≠ 0) :
    ∃ e, pnftkeeper.Keeper.DeleteDenom id r w = P.ok (some e, w) := by
  unfold pnftkeeper.Keeper.DeleteDenom
  have hown' : ¬ (r ≠ (denomOf c).Owner) := fun hne => hne hown
  have hs' : Nft.getTotalSupply w id > 0 := by omega
  simp only [getDenom_some w hwf id c h, P.ok_bind, Option.isNone_none, Bool.not_true, Bool.false_eq_true, if_false,
    deref_some, hown', decide_false, hs', decide_true, if_true, P.pure_eq]
  exact ⟨_, rfl⟩

theorem deleteDenom_run (w : Nft.World) (hwf : WF w) (id r : Bytes) (c : Nft.Class)
    (h : w.classes.get id = some c) (hown : r = (metaD c).Owner) (hs : Nft.getTotalSupply w id = 0) :
    pnftkeeper.Keeper.DeleteDenom id r w = P.ok (none, { w with classes := w.classes.del id }) := by
  unfold pnftkeeper.Keeper.DeleteDenom
  have hown' : ¬ (r ≠ (denomOf c).Owner) := fun hne => hne hown
  have hs' : ¬ (Nft.getTotalSupply w id > 0) := by omega
  simp only [getDenom_some w hwf id c h, P.ok_bind, Option.isNone_none, Bool.not_true, Bool.false_eq_true, if_false,
    deref_some, hown', decide_false, hs', classStoreKey_run, Nft.rawDelete, P.pure_eq]

theorem wf_delClass (w : Nft.World) (hwf : WF w) (id : Bytes) : WF { w with classes := w.classes.del id } := by
  constructor
  · intro k c h
    by_cases hk : k = id
    · subst hk; rw [Map.get_del_eq] at h; cases h
    · rw [Map.get_del_ne _ _ _ hk] at h; exact hwf.classKey k c h
  · intro k c h
    by_cases hk : k = id
    · subst hk; rw [Map.get_del_eq] at h; cases h
    · rw [Map.get_del_ne _ _ _ hk] at h; exact hwf.classDec k c h
  · exact hwf.nftDec

theorem abs_delClass (w : Nft.World) (id : Bytes) :
    abs { w with classes := w.classes.del id } = { abs w with classes := (abs w).classes.del id } := by
  unfold abs
  simp only [Map.del_mapVals]

theorem deleteDenom_refines (bech : Go.Bech32) (now : Int) (w : Nft.World) (hwf : WF w)
    (m : pnfttypes.MsgDeleteDenomRequest) :
    SimP pnfttypes.ErrDeleteDenom w (pnftkeeper.msgServer.DeleteDenom bech (some m) w)
      (Pnft.handle (codec bech) now (abs w) (toDeleteDenom m)) := by
  unfold pnftkeeper.msgServer.DeleteDenom Pnft.handle
  rcases vb_split (deleteDenom_vb bech m) with ⟨ho, hg⟩ | ⟨c, e, ho, hg⟩ | ⟨s, t, ho, hg⟩
  · simp only [ho, hg, P.ok_bind, Option.isNone_none, Bool.not_true, Bool.false_eq_true, if_false, deref_some,
      Outcome.ok_bind, Outcome.pure_eq]
    simp only [toDeleteDenom, getClass_abs]
    cases hc : w.classes.get m.Id with
    | none =>
      obtain ⟨e, he⟩ := deleteDenom_none w m.Id m.Remover hc
      simp only [he, P.ok_bind, Option.isNone_some, Bool.not_false, if_true, Option.map_none, SimP, P.pure_eq]; rfl
    | some c =>
      simp only [Option.map_some]
      by_cases hown : m.Remover = (metaD c).Owner
      · have hown' : ¬ (m.Remover ≠ (toClass c).owner) := fun hne => hne hown
        rw [if_neg hown']
        have hsup : Pnft.getSupply (abs w) m.Id = Nft.getTotalSupply w m.Id := rfl
        by_cases hs : Nft.getTotalSupply w m.Id = 0
        · have hs' : ¬ (Pnft.getSupply (abs w) m.Id ≠ 0) := by rw [hsup]; exact fun hne => hne hs
          rw [if_neg hs']
          simp only [deleteDenom_run w hwf m.Id m.Remover c hc hown hs, P.ok_bind, Option.isNone_none,
            Bool.not_true, Bool.false_eq_true, if_false, SimP, P.pure_eq]
          exact ⟨default, _, rfl, abs_delClass w m.Id, wf_delClass w hwf m.Id⟩
        · have hs' : Pnft.getSupply (abs w) m.Id ≠ 0 := by rw [hsup]; exact hs
          rw [if_pos hs']
          obtain ⟨e, he⟩ := deleteDenom_supply w hwf m.Id m.Remover c hc hown hs
          simp only [he, P.ok_bind, Option.isNone_some, Bool.not_false, if_true, SimP, P.pure_eq]; rfl
      · obtain ⟨e, he⟩ := deleteDenom_perm w hwf m.Id m.Remover c hc hown
        have hown' : m.Remover ≠ (toClass c).owner := hown
        rw [if_pos hown']
        simp only [he, P.ok_bind, Option.isNone_some, Bool.not_false, if_true, SimP, P.pure_eq]; rfl
  · simp only [ho, hg, P.ok_bind, Option.isNone_some, Bool.not_false, if_true, Outcome.err_bind, SimP, P.pure_eq]; rfl
  · simp only [ho, hg, P.panic_bind, Outcome.panic_bind, SimP]; exact ⟨_, rfl⟩

/-! ## tokens -/

def pnftOf (bech : Go.Bech32) (w : Nft.World) (denomId id : Bytes) (n : Nft.NFT) : pnfttypes.Pnft :=
  { DenomId := n.ClassId, Id := n.Id, Name := (metaN n).Name, Description := (metaN n).Description, Uri := n.Uri,
    UriHash := n.UriHash, Data := (metaN n).Data, Creator := (metaN n).Creator,
    Owner := bech.enc (Nft.getOwner w denomId id), CreatedAt := (metaN n).CreatedAt }

theorem getPNFT_none (bech : Go.Bech32) (w : Nft.World) (d i : Bytes) (h : w.nfts.get (Pnft.nftKey d i) = none) :
    ∃ e, pnftkeeper.Keeper.GetPNFT bech d i w = P.ok (none, some e, w) := by
  unfold pnftkeeper.Keeper.GetPNFT Nft.getNFT
  simp only [h, Bool.not_false, if_true, P.pure_eq]
  exact ⟨_, rfl⟩

theorem getPNFT_some (bech : Go.Bech32) (w : Nft.World) (hwf : WF w) (d i : Bytes) (n : Nft.NFT)
    (h : w.nfts.get (Pnft.nftKey d i) = some n) :
    pnftkeeper.Keeper.GetPNFT bech d i w = P.ok (some (pnftOf bech w d i n), none, w) := by
  unfold pnftkeeper.Keeper.GetPNFT Nft.getNFT
  simp only [h, Bool.not_true, Bool.false_eq_true, if_false, hwf.nftDec _ n h, Option.isNone_none, P.pure_eq]
  rfl

theorem getNft_abs (w : Nft.World) (k : Bytes) : (abs w).nfts.get k = (w.nfts.get k).map toNft := by
  unfold abs; simp only [Map.get_mapVals]

/-- `AccAddress.String()` of the empty address is the empty string -/
def EncNil (bech : Go.Bech32) : Prop := bech.enc [] = []

theorem ownerText_eq (bech : Go.Bech32) (he : EncNil bech) (o : Bytes) : Pnft.ownerText (codec bech) o = bech.enc o := by
  unfold Pnft.ownerText
  by_cases h : o = []
  · rw [if_pos h, h]; exact he.symm
  · rw [if_neg h]; rfl

theorem getPNFT_abs (bech : Go.Bech32) (he : EncNil bech) (w : Nft.World) (d i : Bytes) :
    Pnft.getPNFT (codec bech) (abs w) d i =
      (w.nfts.get (Pnft.nftKey d i)).map fun n => Pnft.toPnft (codec bech) (abs w) d i (toNft n) := by
  unfold Pnft.getPNFT
  rw [getNft_abs]
  cases w.nfts.get (Pnft.nftKey d i) <;> rfl

theorem owner_abs (bech : Go.Bech32) (he : EncNil bech) (w : Nft.World) (d i : Bytes) (n : Nft.NFT) :
    (Pnft.toPnft (codec bech) (abs w) d i (toNft n)).owner = (pnftOf bech w d i n).Owner := by
  unfold Pnft.toPnft pnftOf
  exact ownerText_eq bech he _

theorem hasNFT_of_get (w : Nft.World) (d i : Bytes) (n : Nft.NFT) (h : w.nfts.get (Pnft.nftKey d i) = some n) :
    Nft.hasNFT w d i = true := by unfold Nft.hasNFT Map.has; rw [h]; rfl

theorem burnPNFT_none (bech : Go.Bech32) (w : Nft.World) (d i b : Bytes) (h : w.nfts.get (Pnft.nftKey d i) = none) :
    ∃ e, pnftkeeper.Keeper.BurnPNFT bech d i b w = P.ok (some e, w) := by
  unfold pnftkeeper.Keeper.BurnPNFT
  obtain ⟨e, he⟩ := getPNFT_none bech w d i h
  simp only [he, P.ok_bind, Option.isNone_some, Bool.not_false, if_true, P.pure_eq]
  exact ⟨_, rfl⟩

theorem burnPNFT_perm (bech : Go.Bech32) (w : Nft.World) (hwf : WF w) (d i b : Bytes) (n : Nft.NFT)
    (h : w.nfts.get (Pnft.nftKey d i) = some n) (hown : b ≠ (pnftOf bech w d i n).Owner) :
    ∃ e, pnftkeeper.Keeper.BurnPNFT bech d i b w = P.ok (some e, w) := by
  unfold pnftkeeper.Keeper.BurnPNFT
  simp only [getPNFT_some bech w hwf d i n h, P.ok_bind, Option.isNone_none, Bool.not_true, Bool.false_eq_true, if_false,
    deref_some, hown, decide_true, if_true, P.pure_eq, ne_eq, not_false_eq_true]
  exact ⟨_, rfl⟩

theorem burnPNFT_run (bech : Go.Bech32) (w : Nft.World) (hwf : WF w) (d i b : Bytes) (n : Nft.NFT)
    (h : w.nfts.get (Pnft.nftKey d i) = some n) (hown : b = (pnftOf bech w d i n).Owner) :
    pnftkeeper.Keeper.BurnPNFT bech d i b w =
      P.ok (if Nft.hasClass w d then (none, (Nft.burn w d i).1) else (some "nft/4", w)) := by
  unfold pnftkeeper.Keeper.BurnPNFT
  have hown' : ¬ (b ≠ (pnftOf bech w d i n).Owner) := fun hne => hne hown
  simp only [getPNFT_some bech w hwf d i n h, P.ok_bind, Option.isNone_none, Bool.not_true, Bool.false_eq_true, if_false,
    deref_some, hown', decide_false, P.pure_eq]
  unfold Nft.burn
  rcases Bool.eq_false_or_eq_true (Nft.hasClass w d) with hc | hc
  · simp only [hc, hasNFT_of_get w d i n h, Bool.not_true, Bool.false_eq_true, if_false, if_true, Option.isNone_none]
  · simp only [hc, Bool.not_false, if_true, Option.isNone_some, Bool.false_eq_true, if_false]

theorem wf_nfts (w : Nft.World) (hwf : WF w) (nfts' : Map Nft.NFT) (oi : Map Unit) (ow : Map Bytes) (su : Map Nat)
    (hn : ∀ k n, nfts'.get k = some n → (Go.unmarshalE (Go.anyValue n.Data) : pnfttypes.PNFTMeta × Go.Err).2 = none) :
    WF { w with nfts := nfts', ownerIdx := oi, owners := ow, supply := su } :=
  ⟨hwf.classKey, hwf.classDec, hn⟩

theorem burn_refines (bech : Go.Bech32) (he : EncNil bech) (now : Int) (w : Nft.World) (hwf : WF w)
    (m : pnfttypes.MsgBurnPNFTRequest) :
    SimP pnfttypes.ErrBurnPNFT w (pnftkeeper.msgServer.BurnPNFT bech (some m) w)
      (Pnft.handle (codec bech) now (abs w) (toBurn m)) := by
  unfold pnftkeeper.msgServer.BurnPNFT Pnft.handle
  rcases vb_split (burn_vb bech m) with ⟨ho, hg⟩ | ⟨c, e, ho, hg⟩ | ⟨s, t, ho, hg⟩
  · simp only [ho, hg, P.ok_bind, Option.isNone_none, Bool.not_true, Bool.false_eq_true, if_false, deref_some,
      Outcome.ok_bind, Outcome.pure_eq]
    simp only [toBurn, getPNFT_abs bech he]
    cases hc : w.nfts.get (Pnft.nftKey m.DenomId m.Id) with
    | none =>
      obtain ⟨e, he'⟩ := burnPNFT_none bech w m.DenomId m.Id m.Burner hc
      simp only [he', P.ok_bind, Option.isNone_some, Bool.not_false, if_true, Option.map_none, SimP, P.pure_eq]; rfl
    | some n =>
      simp only [Option.map_some, owner_abs bech he]
      by_cases hown : m.Burner = (pnftOf bech w m.DenomId m.Id n).Owner
      · have hown' : ¬ (m.Burner ≠ (pnftOf bech w m.DenomId m.Id n).Owner) := fun hne => hne hown
        rw [if_neg hown']
        simp only [burnPNFT_run bech w hwf m.DenomId m.Id m.Burner n hc hown, P.ok_bind, hasClass_abs]
        rcases Bool.eq_false_or_eq_true (Nft.hasClass w m.DenomId) with hcl | hcl
        · simp only [hcl, Bool.not_true, Bool.false_eq_true, if_false, if_true, Option.isNone_none, SimP, P.pure_eq]
          refine ⟨default, _, rfl, ?_, ?_⟩
          · unfold Nft.burn
            simp only [hcl, hasNFT_of_get w _ _ n hc, Bool.not_true, Bool.false_eq_true, if_false]
            unfold abs
            simp only [Nft.deleteOwner, Pnft.deleteOwner, Map.del_mapVals]
            rfl
          · unfold Nft.burn
            simp only [hcl, hasNFT_of_get w _ _ n hc, Bool.not_true, Bool.false_eq_true, if_false]
            refine wf_nfts w hwf _ _ _ _ ?_
            intro k n' hk0
            have hk : (w.nfts.del (Pnft.nftKey m.DenomId m.Id)).get k = some n' := hk0
            clear hk0
            by_cases hkk : k = Pnft.nftKey m.DenomId m.Id
            · subst hkk; rw [Map.get_del_eq] at hk; cases hk
            · rw [Map.get_del_ne _ _ _ hkk] at hk; exact hwf.nftDec k n' hk
        · simp only [hcl, Bool.not_false, if_true, Bool.false_eq_true, if_false, Option.isNone_some, SimP, P.pure_eq]; rfl
      · obtain ⟨e, he'⟩ := burnPNFT_perm bech w hwf m.DenomId m.Id m.Burner n hc hown
        rw [if_pos hown]
        simp only [he', P.ok_bind, Option.isNone_some, Bool.not_false, if_true, SimP, P.pure_eq]; rfl
  · simp only [ho, hg, P.ok_bind, Option.isNone_some, Bool.not_false, if_true, Outcome.err_bind, SimP, P.pure_eq]; rfl
  · simp only [ho, hg, P.panic_bind, Outcome.panic_bind, SimP]; exact ⟨_, rfl⟩

theorem transferPNFT_none (bech : Go.Bech32) (w : Nft.World) (d i s r : Bytes)
    (h : w.nfts.get (Pnft.nftKey d i) = none) :
    ∃ e, pnftkeeper.Keeper.TransferPNFT bech d i s r w = P.ok (some e, w) := by
  unfold pnftkeeper.Keeper.TransferPNFT
  obtain ⟨e, he⟩ := getPNFT_none bech w d i h
  simp only [he, P.ok_bind, Option.isNone_some, Bool.not_false, if_true, P.pure_eq]
  exact ⟨_, rfl⟩

theorem transferPNFT_perm (bech : Go.Bech32) (w : Nft.World) (hwf : WF w) (d i s r : Bytes) (n : Nft.NFT)
    (h : w.nfts.get (Pnft.nftKey d i) = some n) (hown : s ≠ (pnftOf bech w d i n).Owner) :
    ∃ e, pnftkeeper.Keeper.TransferPNFT bech d i s r w = P.ok (some e, w) := by
  unfold pnftkeeper.Keeper.TransferPNFT
  simp only [getPNFT_some bech w hwf d i n h, P.ok_bind, Option.isNone_none, Bool.not_true, Bool.false_eq_true, if_false,
    deref_some, hown, decide_true, if_true, P.pure_eq, ne_eq, not_false_eq_true]
  exact ⟨_, rfl⟩

theorem transferPNFT_addr (bech : Go.Bech32) (w : Nft.World) (hwf : WF w) (d i s r : Bytes) (n : Nft.NFT)
    (h : w.nfts.get (Pnft.nftKey d i) = some n) (hown : s = (pnftOf bech w d i n).Owner) (hr : bech.dec r = none) :
    ∃ e, pnftkeeper.Keeper.TransferPNFT bech d i s r w = P.ok (some e, w) := by
  unfold pnftkeeper.Keeper.TransferPNFT Go.accAddressFromBech32
  have hown' : ¬ (s ≠ (pnftOf bech w d i n).Owner) := fun hne => hne hown
  simp only [getPNFT_some bech w hwf d i n h, P.ok_bind, Option.isNone_none, Bool.not_true, Bool.false_eq_true, if_false,
    deref_some, hown', decide_false, hr, Option.isNone_some, Bool.not_false, if_true, P.pure_eq]
  exact ⟨_, rfl⟩

theorem transferPNFT_run (bech : Go.Bech32) (w : Nft.World) (hwf : WF w) (d i s r ra : Bytes) (n : Nft.NFT)
    (h : w.nfts.get (Pnft.nftKey d i) = some n) (hown : s = (pnftOf bech w d i n).Owner) (hr : bech.dec r = some ra) :
    pnftkeeper.Keeper.TransferPNFT bech d i s r w =
      P.ok (if Nft.hasClass w d then (none, Nft.setOwner (Nft.deleteOwner w d i (Nft.getOwner w d i)) d i ra)
            else (some "nft/4", w)) := by
  unfold pnftkeeper.Keeper.TransferPNFT Go.accAddressFromBech32
  have hown' : ¬ (s ≠ (pnftOf bech w d i n).Owner) := fun hne => hne hown
  simp only [getPNFT_some bech w hwf d i n h, P.ok_bind, Option.isNone_none, Bool.not_true, Bool.false_eq_true, if_false,
    deref_some, hown', decide_false, hr, P.pure_eq]
  unfold Nft.transfer
  rcases Bool.eq_false_or_eq_true (Nft.hasClass w d) with hc | hc
  · simp only [hc, hasNFT_of_get w d i n h, Bool.not_true, Bool.false_eq_true, if_false, if_true, Option.isNone_none]
  · simp only [hc, Bool.not_false, if_true, Option.isNone_some, Bool.false_eq_true, if_false]

theorem transfer_refines (bech : Go.Bech32) (he : EncNil bech) (now : Int) (w : Nft.World) (hwf : WF w)
    (m : pnfttypes.MsgTransferPNFTRequest) :
    SimP pnfttypes.ErrTransferPNFT w (pnftkeeper.msgServer.TransferPNFT bech (some m) w)
      (Pnft.handle (codec bech) now (abs w) (toTransfer m)) := by
  unfold pnftkeeper.msgServer.TransferPNFT Pnft.handle
  rcases vb_split (transfer_vb bech m) with ⟨ho, hg⟩ | ⟨c, e, ho, hg⟩ | ⟨s, t, ho, hg⟩
  · simp only [ho, hg, P.ok_bind, Option.isNone_none, Bool.not_true, Bool.false_eq_true, if_false, deref_some,
      Outcome.ok_bind, Outcome.pure_eq]
    simp only [toTransfer, getPNFT_abs bech he]
    cases hc : w.nfts.get (Pnft.nftKey m.DenomId m.Id) with
    | none =>
      obtain ⟨e, he'⟩ := transferPNFT_none bech w m.DenomId m.Id m.Sender m.Receiver hc
      simp only [he', P.ok_bind, Option.isNone_some, Bool.not_false, if_true, Option.map_none, SimP, P.pure_eq]; rfl
    | some n =>
      simp only [Option.map_some, owner_abs bech he]
      by_cases hown : m.Sender = (pnftOf bech w m.DenomId m.Id n).Owner
      · have hown' : ¬ (m.Sender ≠ (pnftOf bech w m.DenomId m.Id n).Owner) := fun hne => hne hown
        rw [if_neg hown']
        have hdec : (codec bech).dec m.Receiver = bech.dec m.Receiver := rfl
        rw [hdec]
        cases hr : bech.dec m.Receiver with
        | none =>
          obtain ⟨e, he'⟩ := transferPNFT_addr bech w hwf m.DenomId m.Id m.Sender m.Receiver n hc hown hr
          simp only [he', P.ok_bind, Option.isNone_some, Bool.not_false, if_true, SimP, P.pure_eq]; rfl
        | some ra =>
          simp only [transferPNFT_run bech w hwf m.DenomId m.Id m.Sender m.Receiver ra n hc hown hr, P.ok_bind,
            hasClass_abs]
          rcases Bool.eq_false_or_eq_true (Nft.hasClass w m.DenomId) with hcl | hcl
          · simp only [hcl, Bool.not_true, Bool.false_eq_true, if_false, if_true, Option.isNone_none, SimP, P.pure_eq]
            refine ⟨default, _, rfl, rfl, ?_⟩
            exact wf_nfts w hwf _ _ _ _ hwf.nftDec
          · simp only [hcl, Bool.not_false, if_true, Bool.false_eq_true, if_false, Option.isNone_some, SimP, P.pure_eq]; rfl
      · obtain ⟨e, he'⟩ := transferPNFT_perm bech w hwf m.DenomId m.Id m.Sender m.Receiver n hc hown
        rw [if_pos hown]
        simp only [he', P.ok_bind, Option.isNone_some, Bool.not_false, if_true, SimP, P.pure_eq]; rfl
  · simp only [ho, hg, P.ok_bind, Option.isNone_some, Bool.not_false, if_true, Outcome.err_bind, SimP, P.pure_eq]; rfl
  · simp only [ho, hg, P.panic_bind, Outcome.panic_bind, SimP]; exact ⟨_, rfl⟩

def pnftTypeUrl : Bytes := [112, 110, 102, 116, 116, 121, 112, 101, 115, 46, 80, 78, 70, 84, 77, 101, 116, 97]

def metaOf (p : pnfttypes.Pnft) : pnfttypes.PNFTMeta :=
  { Name := p.Name, Description := p.Description, Creator := p.Creator, CreatedAt := p.CreatedAt, Data := p.Data }

def sdkOf (p : pnfttypes.Pnft) (classId : Bytes) : Nft.NFT :=
  { ClassId := classId, Id := p.Id, Uri := p.Uri, UriHash := p.UriHash,
    Data := some { TypeUrl := pnftTypeUrl, Value := Go.Proto.marshal (metaOf p) } }

theorem metaN_sdkOf (p : pnfttypes.Pnft) (cid : Bytes) : metaN (sdkOf p cid) = metaOf p := by
  unfold metaN sdkOf Go.unmarshalE Go.anyValue
  simp only [Go.LawfulProto.unmarshal_marshal]

theorem dec_sdkOf (p : pnfttypes.Pnft) (cid : Bytes) :
    (Go.unmarshalE (Go.anyValue (sdkOf p cid).Data) : pnfttypes.PNFTMeta × Go.Err).2 = none := by
  unfold sdkOf Go.unmarshalE Go.anyValue
  simp only [Go.LawfulProto.unmarshal_marshal]

theorem mintPNFT_none (bech : Go.Bech32) (w : Nft.World) (p : pnfttypes.Pnft) (h : w.classes.get p.DenomId = none) :
    ∃ e, pnftkeeper.Keeper.MintPNFT bech (some p) w = P.ok (some e, w) := by
  unfold pnftkeeper.Keeper.MintPNFT
  simp only [deref_some, P.ok_bind, getDenom_none w p.DenomId h, Option.isNone_some, Bool.not_false, if_true, P.pure_eq]
  exact ⟨_, rfl⟩

theorem mintPNFT_perm (bech : Go.Bech32) (w : Nft.World) (hwf : WF w) (p : pnfttypes.Pnft) (c : Nft.Class)
    (h : w.classes.get p.DenomId = some c) (hown : (metaD c).Owner ≠ p.Creator) :
    ∃ e, pnftkeeper.Keeper.MintPNFT bech (some p) w = P.ok (some e, w) := by
  unfold pnftkeeper.Keeper.MintPNFT
  have hown' : (denomOf c).Owner ≠ p.Creator := hown
  simp only [deref_some, P.ok_bind, getDenom_some w hwf p.DenomId c h, Option.isNone_none, Bool.not_true,
    Bool.false_eq_true, if_false, hown', decide_true, if_true, P.pure_eq, ne_eq, not_false_eq_true]
  exact ⟨_, rfl⟩

theorem mintPNFT_addr (bech : Go.Bech32) (w : Nft.World) (hwf : WF w) (p : pnfttypes.Pnft) (c : Nft.Class)
    (h : w.classes.get p.DenomId = some c) (hown : (metaD c).Owner = p.Creator) (hr : bech.dec p.Creator = none) :
    ∃ e, pnftkeeper.Keeper.MintPNFT bech (some p) w = P.ok (some e, w) := by
  unfold pnftkeeper.Keeper.MintPNFT Go.accAddressFromBech32
  have hown' : ¬ ((denomOf c).Owner ≠ p.Creator) := fun hne => hne hown
  simp only [deref_some, P.ok_bind, getDenom_some w hwf p.DenomId c h, Option.isNone_none, Bool.not_true,
    Bool.false_eq_true, if_false, hown', decide_false, hr, Option.isNone_some, Bool.not_false, if_true, P.pure_eq]
  exact ⟨_, rfl⟩

theorem mintPNFT_run (bech : Go.Bech32) (w : Nft.World) (hwf : WF w) (p : pnfttypes.Pnft) (c : Nft.Class) (ra : Bytes)
    (h : w.classes.get p.DenomId = some c) (hown : (metaD c).Owner = p.Creator) (hr : bech.dec p.Creator = some ra) :
    pnftkeeper.Keeper.MintPNFT bech (some p) w =
      P.ok (if Nft.hasNFT w c.Id p.Id then (some "nft/5", w) else (none, (Nft.mint w (sdkOf p c.Id) ra).1)) := by
  unfold pnftkeeper.Keeper.MintPNFT Go.accAddressFromBech32
  have hown' : ¬ ((denomOf c).Owner ≠ p.Creator) := fun hne => hne hown
  have hh : Nft.hasClass w c.Id = true := by rw [hwf.classKey _ _ h]; exact hasClass_of_get w _ c h
  simp only [deref_some, P.ok_bind, getDenom_some w hwf p.DenomId c h, Option.isNone_none, Bool.not_true,
    Bool.false_eq_true, if_false, hown', decide_false, hr, P.pure_eq]
  change (if (!Option.isNone (Nft.mint w (sdkOf p c.Id) ra).2) = true then P.ok ((Nft.mint w (sdkOf p c.Id) ra).2, (Nft.mint w (sdkOf p c.Id) ra).1)
    else P.ok (none, (Nft.mint w (sdkOf p c.Id) ra).1)) = _
  unfold Nft.mint
  have hcid : (sdkOf p c.Id).ClassId = c.Id := rfl
  have hid : (sdkOf p c.Id).Id = p.Id := rfl
  rw [hcid, hid]
  rcases Bool.eq_false_or_eq_true (Nft.hasNFT w c.Id p.Id) with hn | hn
  · simp only [hh, hn, Bool.not_true, Bool.false_eq_true, if_false, if_true, Option.isNone_some, Bool.not_false]
  · simp only [hh, hn, Bool.not_true, Bool.false_eq_true, if_false, Option.isNone_none]

def mintP (m : pnfttypes.MsgMintPNFTRequest) (w : Nft.World) : pnfttypes.Pnft :=
  { DenomId := m.DenomId, Id := m.Id, Name := m.Name, Description := m.Description, Uri := m.Uri, UriHash := m.UriHash,
    Data := m.Data, Creator := m.Creator, CreatedAt := Nft.blockTime w }

theorem hasNFT_abs (w : Nft.World) (d i : Bytes) : Pnft.hasNFT (abs w) d i = Nft.hasNFT w d i := by
  unfold Pnft.hasNFT Nft.hasNFT Map.has
  rw [getNft_abs]; simp only [Option.isSome_map]

/-- `now` of the model is the header time of the world the handler runs in -/
theorem mint_refines (bech : Go.Bech32) (w : Nft.World) (hwf : WF w) (m : pnfttypes.MsgMintPNFTRequest) :
    SimP pnfttypes.ErrMintPNFT w (pnftkeeper.msgServer.MintPNFT bech (some m) w)
      (Pnft.handle (codec bech) w.blockTimeNano (abs w) (toMint m)) := by
  unfold pnftkeeper.msgServer.MintPNFT Pnft.handle
  rcases vb_split (mint_vb bech m) with ⟨ho, hg⟩ | ⟨c, e, ho, hg⟩ | ⟨s, t, ho, hg⟩
  · simp only [ho, hg, P.ok_bind, Option.isNone_none, Bool.not_true, Bool.false_eq_true, if_false, deref_some,
      Outcome.ok_bind, Outcome.pure_eq]
    simp only [toMint, getClass_abs]
    change SimP _ w (do let t_1 ← pnftkeeper.Keeper.MintPNFT bech (some (mintP m w)) w; _) _
    cases hc : w.classes.get m.DenomId with
    | none =>
      obtain ⟨e, he'⟩ := mintPNFT_none bech w (mintP m w) hc
      simp only [he', P.ok_bind, Option.isNone_some, Bool.not_false, if_true, Option.map_none, SimP, P.pure_eq]; rfl
    | some c =>
      simp only [Option.map_some]
      by_cases hown : (metaD c).Owner = m.Creator
      · have hown' : ¬ ((toClass c).owner ≠ m.Creator) := fun hne => hne hown
        rw [if_neg hown']
        have hdec : (codec bech).dec m.Creator = bech.dec m.Creator := rfl
        rw [hdec]
        cases hr : bech.dec m.Creator with
        | none =>
          obtain ⟨e, he'⟩ := mintPNFT_addr bech w hwf (mintP m w) c hc hown hr
          simp only [he', P.ok_bind, Option.isNone_some, Bool.not_false, if_true, SimP, P.pure_eq]; rfl
        | some ra =>
          simp only [mintPNFT_run bech w hwf (mintP m w) c ra hc hown hr, P.ok_bind, hasNFT_abs]
          have hid : (toClass c).id = c.Id := rfl
          have hpid : (mintP m w).Id = m.Id := rfl
          rw [hid, hpid]
          rcases Bool.eq_false_or_eq_true (Nft.hasNFT w c.Id m.Id) with hn | hn
          · simp only [hn, if_true, Option.isNone_some, Bool.not_false, SimP, P.pure_eq]; rfl
          · simp only [hn, Bool.false_eq_true, if_false, Option.isNone_none, Bool.not_true, SimP, P.pure_eq]
            have hh : Nft.hasClass w c.Id = true := by rw [hwf.classKey _ _ hc]; exact hasClass_of_get w _ c hc
            have hm : (Nft.mint w (sdkOf (mintP m w) c.Id) ra).1 =
                (let w1 := { w with nfts := w.nfts.set (Pnft.nftKey c.Id m.Id) (sdkOf (mintP m w) c.Id) }
                 let w2 := Nft.setOwner w1 c.Id m.Id ra
                 { w2 with supply := w2.supply.set c.Id (wrap64 (Nft.getTotalSupply w2 c.Id + 1)) }) := by
              unfold Nft.mint
              have hcid : (sdkOf (mintP m w) c.Id).ClassId = c.Id := rfl
              have hid2 : (sdkOf (mintP m w) c.Id).Id = m.Id := rfl
              rw [hcid, hid2]
              simp only [hh, hn, Bool.not_true, Bool.false_eq_true, if_false]
            rw [hm]
            refine ⟨default, _, rfl, ?_, ?_⟩
            · unfold abs
              simp only [Nft.setOwner, Pnft.setOwner, Map.set_mapVals]
              have hn' : toNft (sdkOf (mintP m w) c.Id) =
                  Pnft.newNft c.Id m.Id m.Name m.Description m.Uri m.UriHash m.Data m.Creator w.blockTimeNano := by
                unfold toNft; rw [metaN_sdkOf]; rfl
              rw [hn']
              rfl
            · refine wf_nfts w hwf _ _ _ _ ?_
              intro k n' hk0
              have hk : (w.nfts.set (Pnft.nftKey c.Id m.Id) (sdkOf (mintP m w) c.Id)).get k = some n' := hk0
              clear hk0
              by_cases hkk : k = Pnft.nftKey c.Id m.Id
              · subst hkk; rw [Map.get_set_eq] at hk; cases hk; exact dec_sdkOf _ _
              · rw [Map.get_set_ne _ _ _ _ hkk] at hk; exact hwf.nftDec k n' hk
      · obtain ⟨e, he'⟩ := mintPNFT_perm bech w hwf (mintP m w) c hc hown
        have hown' : (toClass c).owner ≠ m.Creator := hown
        rw [if_pos hown']
        simp only [he', P.ok_bind, Option.isNone_some, Bool.not_false, if_true, SimP, P.pure_eq]; rfl
  · simp only [ho, hg, P.ok_bind, Option.isNone_some, Bool.not_false, if_true, Outcome.err_bind, SimP, P.pure_eq]; rfl
  · simp only [ho, hg, P.panic_bind, Outcome.panic_bind, SimP]; exact ⟨_, rfl⟩

/-! ## whole histories -/

inductive Req where
  | createDenom (m : pnfttypes.MsgCreateDenomRequest)
  | updateDenom (m : pnfttypes.MsgUpdateDenomRequest)
  | deleteDenom (m : pnfttypes.MsgDeleteDenomRequest)
  | transferDenom (m : pnfttypes.MsgTransferDenomRequest)
  | mint (m : pnfttypes.MsgMintPNFTRequest)
  | transfer (m : pnfttypes.MsgTransferPNFTRequest)
  | burn (m : pnfttypes.MsgBurnPNFTRequest)

def Req.toMsg : Req → PnftMsg
  | .createDenom m => toCreateDenom m
  | .updateDenom m => toUpdateDenom m
  | .deleteDenom m => toDeleteDenom m
  | .transferDenom m => toTransferDenom m
  | .mint m => toMint m
  | .transfer m => toTransfer m
  | .burn m => toBurn m

/-- what the SDK keeps of a handler's result: the branch's writes if it returned a nil error, the world before
otherwise (also when the handler panics) -/
def commit {ρ : Type} (w : Nft.World) (g : P (Option ρ × Go.Err × Nft.World)) : Nft.World :=
  match g with
  | .ok (_, none, w') => w'
  | _ => w

/-- one delivered transaction at block time `op.1`, run through the translated message server -/
def goStep (bech : Go.Bech32) (w : Nft.World) (op : Int × Req) : Nft.World :=
  let w0 := { w with blockTimeNano := op.1 }
  match op.2 with
  | .createDenom m => commit w0 (pnftkeeper.msgServer.CreateDenom bech (some m) w0)
  | .updateDenom m => commit w0 (pnftkeeper.msgServer.UpdateDenom bech (some m) w0)
  | .deleteDenom m => commit w0 (pnftkeeper.msgServer.DeleteDenom bech (some m) w0)
  | .transferDenom m => commit w0 (pnftkeeper.msgServer.TransferDenom bech (some m) w0)
  | .mint m => commit w0 (pnftkeeper.msgServer.MintPNFT bech (some m) w0)
  | .transfer m => commit w0 (pnftkeeper.msgServer.TransferPNFT bech (some m) w0)
  | .burn m => commit w0 (pnftkeeper.msgServer.BurnPNFT bech (some m) w0)

/-- what `Pnft.step` keeps of the model handler's outcome -/
def keep (s : Pnft.State) : Outcome Pnft.State → Pnft.State
  | .ok s' => s'
  | _ => s

theorem step_keep (c : CompKey.AddrCodec) (s : Pnft.State) (op : Int × PnftMsg) :
    Pnft.step c s op = keep s (Pnft.handle c op.1 s op.2) := by
  unfold Pnft.step keep
  cases Pnft.handle c op.1 s op.2 <;> rfl

theorem simP_step {ρ : Type} (code : Go.Err) (hcode : code ≠ none) (w : Nft.World) (hwf : WF w)
    (g : P (Option ρ × Go.Err × Nft.World)) (o : Outcome Pnft.State) (h : SimP code w g o) :
    abs (commit w g) = keep (abs w) o ∧ WF (commit w g) := by
  obtain ⟨ce, rfl⟩ : ∃ e, code = some e := by
    cases code with
    | none => exact absurd rfl hcode
    | some e => exact ⟨e, rfl⟩
  cases o with
  | ok s' =>
    obtain ⟨v, w', hg, ha, hw⟩ := h
    subst hg
    exact ⟨ha, hw⟩
  | err c =>
    have hg : g = P.ok (none, Go.wrap (some ce), w) := h
    subst hg
    exact ⟨rfl, hwf⟩
  | panic p =>
    obtain ⟨s, hg⟩ := h
    subst hg
    exact ⟨rfl, hwf⟩

theorem abs_time (w : Nft.World) (t : Int) : abs { w with blockTimeNano := t } = abs w := rfl
theorem wf_time (w : Nft.World) (hwf : WF w) (t : Int) : WF { w with blockTimeNano := t } :=
  ⟨hwf.classKey, hwf.classDec, hwf.nftDec⟩

/-- one transaction: the translated server and the model move to the same state -/
theorem goStep_abs (bech : Go.Bech32) (he : EncNil bech) (w : Nft.World) (hwf : WF w) (op : Int × Req) :
    abs (goStep bech w op) = Pnft.step (codec bech) (abs w) (op.1, op.2.toMsg) ∧ WF (goStep bech w op) := by
  obtain ⟨t, r⟩ := op
  have hwf0 := wf_time w hwf t
  rw [step_keep]
  unfold goStep
  simp only
  rw [← abs_time w t]
  cases r with
  | createDenom m =>
    exact simP_step _ (by decide) _ hwf0 _ _ (createDenom_refines bech t _ hwf0 m)
  | updateDenom m =>
    exact simP_step _ (by decide) _ hwf0 _ _ (updateDenom_refines bech t _ hwf0 m)
  | deleteDenom m =>
    exact simP_step _ (by decide) _ hwf0 _ _ (deleteDenom_refines bech t _ hwf0 m)
  | transferDenom m =>
    exact simP_step _ (by decide) _ hwf0 _ _ (transferDenom_refines bech t _ hwf0 m)
  | mint m =>
    exact simP_step _ (by decide) _ hwf0 _ _ (mint_refines bech _ hwf0 m)
  | transfer m =>
    exact simP_step _ (by decide) _ hwf0 _ _ (transfer_refines bech he t _ hwf0 m)
  | burn m =>
    exact simP_step _ (by decide) _ hwf0 _ _ (burn_refines bech he t _ hwf0 m)

/-- **every history**: folding the translated message server over any list of timed requests, from any well-formed
world, ends in a world that stands for `Pnft.run` of the model on the same history -/
theorem goRun_abs (bech : Go.Bech32) (he : EncNil bech) (ops : List (Int × Req)) :
    ∀ (w : Nft.World), WF w →
      abs (ops.foldl (goStep bech) w) = Pnft.run (codec bech) (abs w) (ops.map fun o => (o.1, o.2.toMsg)) ∧
      WF (ops.foldl (goStep bech) w) := by
  induction ops with
  | nil => intro w hwf; exact ⟨rfl, hwf⟩
  | cons op ops ih =>
    intro w hwf
    obtain ⟨ha, hw⟩ := goStep_abs bech he w hwf op
    have := ih (goStep bech w op) hw
    simp only [List.foldl_cons, List.map_cons, Pnft.run]
    rw [ha] at this
    exact this

theorem wf_empty : WF ({} : Nft.World) := by
  constructor <;> intro k x h <;> cases h

end keeper
end Panacea.Refine.Pnft
