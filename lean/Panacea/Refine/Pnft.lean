import Panacea.Generated.Code
import Panacea.Model.Pnft
import Panacea.Lemmas.RawStore
/-!
# Refinement: the translated `x/pnft` types, keeper and message server compute the hand-written model

`Gen.pnfttypes.*` / `Gen.pnftkeeper.*` are regenerated from `/repo/x/pnft` on every run.  The SDK's `x/nft`
keeper they call is the hand-written `Go.Nft` (tie D); classes and NFTs are stored with their `data` as a
protobuf `Any` of `DenomMeta` / `PNFTMeta`.  `abs` decodes them into the typed state of `Model/Pnft.lean`; the
theorems say that stateless validation accepts exactly what `pnftValidateBasic` accepts and that each message
handler, run on a well-formed world, does what `Pnft.handle` does on `abs` of that world.
-/
namespace Panacea.Refine.Pnft
open Panacea Panacea.Gen Panacea.Go Panacea.Validate

/-! ## stateless validation: the translated validators accept exactly what the model accepts -/

theorem indexByte_nul (s : Bytes) : decide (Go.indexByte s (0 : UInt8) ≥ 0) = s.contains 0x00 := by
  unfold Go.indexByte
  cases h : s.idxOf? (0 : UInt8) with
  | none =>
    have : ¬ ((0 : UInt8) ∈ s) := by
      intro hm
      have := List.idxOf?_eq_none_iff.mp h
      exact this hm
    have hc : s.contains 0x00 = false := by
      cases hh : s.contains (0x00 : UInt8) with
      | false => rfl
      | true => exact absurd (List.contains_iff_mem.mp hh) this
    rw [hc]; decide
  | some i =>
    have hm : (0 : UInt8) ∈ s := by
      apply Classical.byContradiction
      intro hn
      have := List.idxOf?_eq_none_iff.mpr hn
      rw [this] at h; cases h
    have hc : s.contains 0x00 = true := List.contains_iff_mem.mpr hm
    rw [hc]
    simp only [ge_iff_le, decide_eq_true_eq]
    omega


theorem acc_ok (bech : Go.Bech32) (a : Bytes) :
    ((Go.accAddressFromBech32 bech a).2).isNone = (bech.dec a).isSome := by
  unfold Go.accAddressFromBech32; cases bech.dec a <;> rfl

def toCreateDenom (m : pnfttypes.MsgCreateDenomRequest) : PnftMsg :=
  .createDenom m.Id m.Name m.Symbol m.Description m.Uri m.UriHash m.Data m.Creator
def toUpdateDenom (m : pnfttypes.MsgUpdateDenomRequest) : PnftMsg :=
  .updateDenom m.Id m.Name m.Symbol m.Description m.Uri m.UriHash m.Data m.Updater
def toDeleteDenom (m : pnfttypes.MsgDeleteDenomRequest) : PnftMsg := .deleteDenom m.Id m.Remover
def toTransferDenom (m : pnfttypes.MsgTransferDenomRequest) : PnftMsg := .transferDenom m.Id m.Sender m.Receiver
def toMint (m : pnfttypes.MsgMintPNFTRequest) : PnftMsg :=
  .mintPNFT m.DenomId m.Id m.Name m.Description m.Uri m.UriHash m.Data m.Creator
def toTransfer (m : pnfttypes.MsgTransferPNFTRequest) : PnftMsg := .transferPNFT m.DenomId m.Id m.Sender m.Receiver
def toBurn (m : pnfttypes.MsgBurnPNFTRequest) : PnftMsg := .burnPNFT m.DenomId m.Id m.Burner

theorem deref_some {α : Type} (site : String) (a : α) : Go.deref site (some a) = P.ok a := rfl


/-- the address codec of the model that the ambient bech32 parameter stands for -/
def codec (bech : Go.Bech32) : CompKey.AddrCodec := { enc := bech.enc, dec := bech.dec }

/-- outcome of a translated validator: `some true` = nil error, `some false` = an error, `none` = panic -/
def res : P Go.Err → Option Bool
  | .ok e => some e.isNone
  | .panic _ => none

/-- the same view of the model's validator -/
def okOrErr : Outcome Unit → Option Bool
  | .ok _ => some true
  | .err _ => some false
  | .panic _ => none

theorem res_ok (e : Go.Err) : res (P.ok e) = some e.isNone := rfl

/-- rewriting set for one validator step: both sides reduce under the case hypotheses in context -/
macro "vs" : tactic => `(tactic|
  (simp only [*, decide_true, decide_false, Bool.false_eq_true, if_true, if_false, Validate.nonEmpty, Validate.noNul,
    Validate.pnftAddr, res_ok, acc_ok, okOrErr, Option.isNone_none, Option.isNone_some,
    Outcome.ok_bind, Outcome.err_bind, Bool.not_true, Bool.not_false, Bool.true_or, Bool.or_true, Bool.false_or,
    Bool.or_false, Bool.true_eq_false] <;> try rfl))

theorem createDenom_vb (bech : Go.Bech32) (m : pnfttypes.MsgCreateDenomRequest) :
    res (pnfttypes.MsgCreateDenomRequest.ValidateBasic bech (some m)) =
      okOrErr (Pnft.validateBasic (codec bech) (toCreateDenom m)) := by
  show _ = okOrErr (pnftValidateBasic bech.dec (toCreateDenom m))
  unfold pnfttypes.MsgCreateDenomRequest.ValidateBasic pnftValidateBasic toCreateDenom
  simp only [deref_some, P.ok_bind, indexByte_nul, P.pure_eq, acc_ok]
  by_cases h1 : m.Id = []
  · vs
  cases h2 : m.Id.contains 0x00
  case true => vs
  by_cases h3 : m.Name = []
  · vs
  by_cases h4 : m.Symbol = []
  · vs
  by_cases h5 : m.Creator = []
  · vs
  cases h6 : (bech.dec m.Creator).isSome <;> vs

theorem updateDenom_vb (bech : Go.Bech32) (m : pnfttypes.MsgUpdateDenomRequest) :
    res (pnfttypes.MsgUpdateDenomRequest.ValidateBasic bech (some m)) =
      okOrErr (Pnft.validateBasic (codec bech) (toUpdateDenom m)) := by
  show _ = okOrErr (pnftValidateBasic bech.dec (toUpdateDenom m))
  unfold pnfttypes.MsgUpdateDenomRequest.ValidateBasic pnftValidateBasic toUpdateDenom
  simp only [deref_some, P.ok_bind, P.pure_eq, acc_ok]
  by_cases h1 : m.Id = []
  · vs
  by_cases h2 : m.Updater = []
  · vs
  cases h3 : (bech.dec m.Updater).isSome <;> vs

theorem deleteDenom_vb (bech : Go.Bech32) (m : pnfttypes.MsgDeleteDenomRequest) :
    res (pnfttypes.MsgDeleteDenomRequest.ValidateBasic bech (some m)) =
      okOrErr (Pnft.validateBasic (codec bech) (toDeleteDenom m)) := by
  show _ = okOrErr (pnftValidateBasic bech.dec (toDeleteDenom m))
  unfold pnfttypes.MsgDeleteDenomRequest.ValidateBasic pnftValidateBasic toDeleteDenom
  simp only [deref_some, P.ok_bind, P.pure_eq, acc_ok]
  by_cases h1 : m.Id = []
  · vs
  by_cases h2 : m.Remover = []
  · vs
  cases h3 : (bech.dec m.Remover).isSome <;> vs

theorem transferDenom_vb (bech : Go.Bech32) (m : pnfttypes.MsgTransferDenomRequest) :
    res (pnfttypes.MsgTransferDenomRequest.ValidateBasic bech (some m)) =
      okOrErr (Pnft.validateBasic (codec bech) (toTransferDenom m)) := by
  show _ = okOrErr (pnftValidateBasic bech.dec (toTransferDenom m))
  unfold pnfttypes.MsgTransferDenomRequest.ValidateBasic pnftValidateBasic toTransferDenom
  simp only [deref_some, P.ok_bind, P.pure_eq, acc_ok]
  by_cases h1 : m.Id = []
  · vs
  by_cases h2 : m.Sender = []
  · vs
  cases h3 : (bech.dec m.Sender).isSome
  · vs
  by_cases h4 : m.Receiver = []
  · vs
  cases h5 : (bech.dec m.Receiver).isSome <;> vs

theorem mint_vb (bech : Go.Bech32) (m : pnfttypes.MsgMintPNFTRequest) :
    res (pnfttypes.MsgMintPNFTRequest.ValidateBasic bech (some m)) =
      okOrErr (Pnft.validateBasic (codec bech) (toMint m)) := by
  show _ = okOrErr (pnftValidateBasic bech.dec (toMint m))
  unfold pnfttypes.MsgMintPNFTRequest.ValidateBasic pnftValidateBasic toMint
  simp only [deref_some, P.ok_bind, indexByte_nul, P.pure_eq, acc_ok]
  by_cases h1 : m.DenomId = []
  · vs
  by_cases h2 : m.Id = []
  · vs
  by_cases h3 : m.Name = []
  · vs
  cases h4 : m.DenomId.contains 0x00
  case true => vs
  cases h5 : m.Id.contains 0x00
  case true => vs
  by_cases h6 : m.Creator = []
  · vs
  cases h7 : (bech.dec m.Creator).isSome <;> vs

theorem transfer_vb (bech : Go.Bech32) (m : pnfttypes.MsgTransferPNFTRequest) :
    res (pnfttypes.MsgTransferPNFTRequest.ValidateBasic bech (some m)) =
      okOrErr (Pnft.validateBasic (codec bech) (toTransfer m)) := by
  show _ = okOrErr (pnftValidateBasic bech.dec (toTransfer m))
  unfold pnfttypes.MsgTransferPNFTRequest.ValidateBasic pnftValidateBasic toTransfer
  simp only [deref_some, P.ok_bind, P.pure_eq, acc_ok]
  by_cases h1 : m.DenomId = []
  · vs
  by_cases h2 : m.Id = []
  · vs
  by_cases h3 : m.Sender = []
  · vs
  cases h4 : (bech.dec m.Sender).isSome
  · vs
  by_cases h5 : m.Receiver = []
  · vs
  cases h6 : (bech.dec m.Receiver).isSome <;> vs

theorem burn_vb (bech : Go.Bech32) (m : pnfttypes.MsgBurnPNFTRequest) :
    res (pnfttypes.MsgBurnPNFTRequest.ValidateBasic bech (some m)) =
      okOrErr (Pnft.validateBasic (codec bech) (toBurn m)) := by
  show _ = okOrErr (pnftValidateBasic bech.dec (toBurn m))
  unfold pnfttypes.MsgBurnPNFTRequest.ValidateBasic pnftValidateBasic toBurn
  simp only [deref_some, P.ok_bind, P.pure_eq, acc_ok]
  by_cases h1 : m.DenomId = []
  · vs
  by_cases h2 : m.Id = []
  · vs
  by_cases h3 : m.Burner = []
  · vs
  cases h4 : (bech.dec m.Burner).isSome <;> vs

theorem vb_split {g : P Go.Err} {o : Outcome Unit} (h : res g = okOrErr o) :
    (o = .ok () ∧ g = P.ok none) ∨ (∃ c e, o = .err c ∧ g = P.ok (some e)) ∨ (∃ s t, o = .panic s ∧ g = P.panic t) := by
  cases g with
  | panic s =>
    cases o with
    | panic t => exact Or.inr (Or.inr ⟨t, s, rfl, rfl⟩)
    | ok u => cases h
    | err c => cases h
  | ok e =>
    cases o with
    | panic s => cases h
    | ok u => cases e with
      | none => exact Or.inl ⟨rfl, rfl⟩
      | some x => cases h
    | err c => cases e with
      | none => cases h
      | some x => exact Or.inr (Or.inl ⟨c, x, rfl, rfl⟩)

section keeper
variable [Go.Proto pnfttypes.DenomMeta] [Go.Proto pnfttypes.PNFTMeta]
set_option linter.unusedSectionVars false

def metaD (c : Nft.Class) : pnfttypes.DenomMeta :=
  (Go.unmarshalE (Go.anyValue c.Data) : pnfttypes.DenomMeta × Go.Err).1
def metaN (n : Nft.NFT) : pnfttypes.PNFTMeta :=
  (Go.unmarshalE (Go.anyValue n.Data) : pnfttypes.PNFTMeta × Go.Err).1

def toClass (c : Nft.Class) : Pnft.Class :=
  { id := c.Id, name := c.Name, symbol := c.Symbol, description := c.Description, uri := c.Uri, uriHash := c.UriHash,
    owner := (metaD c).Owner, data := (metaD c).Data }
def toNft (n : Nft.NFT) : Pnft.Nft :=
  { classId := n.ClassId, id := n.Id, uri := n.Uri, uriHash := n.UriHash, name := (metaN n).Name,
    description := (metaN n).Description, creator := (metaN n).Creator, createdAt := (metaN n).CreatedAt.nanos,
    data := (metaN n).Data }

/-- the typed PNFT state a raw `x/nft` world stands for -/
def abs (w : Nft.World) : Pnft.State :=
  { classes := Map.mapVals toClass w.classes, nfts := Map.mapVals toNft w.nfts, ownerIdx := w.ownerIdx, owners := w.owners,
    supply := w.supply }

/-- what the PNFT keeper maintains of the raw world: a class is stored under its own id, and the `Any` payload of
every class and token decodes -/
structure WF (w : Nft.World) : Prop where
  classKey : ∀ k c, w.classes.get k = some c → c.Id = k
  classDec : ∀ k c, w.classes.get k = some c →
    (Go.unmarshalE (Go.anyValue c.Data) : pnfttypes.DenomMeta × Go.Err).2 = none
  nftDec : ∀ k n, w.nfts.get k = some n →
    (Go.unmarshalE (Go.anyValue n.Data) : pnfttypes.PNFTMeta × Go.Err).2 = none

def denomOf (c : Nft.Class) : pnfttypes.Denom :=
  { Id := c.Id, Name := c.Name, Symbol := c.Symbol, Description := c.Description, Uri := c.Uri, UriHash := c.UriHash,
    Owner := (metaD c).Owner, Data := (metaD c).Data }

def denomTypeUrl : Bytes := [112, 110, 102, 116, 116, 121, 112, 101, 115, 46, 68, 101, 110, 111, 109, 77, 101, 116, 97]

def classOf (d : pnfttypes.Denom) : Nft.Class :=
  { Id := d.Id, Name := d.Name, Symbol := d.Symbol, Description := d.Description, Uri := d.Uri, UriHash := d.UriHash,
    Data := some { TypeUrl := denomTypeUrl, Value := Go.Proto.marshal ({ Owner := d.Owner, Data := d.Data } : pnfttypes.DenomMeta) } }

theorem newDenomFromClass_run (c : Nft.Class)
    (h : (Go.unmarshalE (Go.anyValue c.Data) : pnfttypes.DenomMeta × Go.Err).2 = none) :
    pnfttypes.NewDenomFromClass (some c) = P.ok (some (denomOf c), none) := by
  unfold pnfttypes.NewDenomFromClass
  simp only [deref_some, P.ok_bind, h, Option.isNone_none, Bool.not_true, Bool.false_eq_true, if_false, P.pure_eq]
  rfl

theorem newClassFromDenom_run (d : pnfttypes.Denom) :
    pnfttypes.NewClassFromDenom (some d) = P.ok (some (classOf d), none) := by
  unfold pnfttypes.NewClassFromDenom
  simp only [deref_some, P.ok_bind, Option.isNone_none, Bool.not_true, Bool.false_eq_true, if_false, P.pure_eq]
  rfl

theorem getDenom_none (w : Nft.World) (id : Bytes) (h : w.classes.get id = none) :
    pnftkeeper.Keeper.GetDenom id w = P.ok (none, some "fmt:not found class", w) := by
  unfold pnftkeeper.Keeper.GetDenom Nft.getClass
  simp only [h, Bool.not_false, if_true, P.pure_eq]
  rfl

theorem getDenom_some (w : Nft.World) (hwf : WF w) (id : Bytes) (c : Nft.Class) (h : w.classes.get id = some c) :
    pnftkeeper.Keeper.GetDenom id w = P.ok (some (denomOf c), none, w) := by
  unfold pnftkeeper.Keeper.GetDenom Nft.getClass
  simp only [h, Bool.not_true, Bool.false_eq_true, if_false, newDenomFromClass_run c (hwf.classDec id c h), P.ok_bind,
    P.pure_eq]

variable [Go.LawfulProto pnfttypes.DenomMeta] [Go.LawfulProto pnfttypes.PNFTMeta]

/-- **Simulation**: accepted ↔ accepted, and the new raw world stands for the model's new state and is well-formed
again; rejected ↔ rejected with the message's registered error `code`, the world unchanged; panic ↔ panic. -/
def SimP {ρ : Type} (code : Go.Err) (w : Nft.World) (g : P (Option ρ × Go.Err × Nft.World)) (m : Outcome Pnft.State) : Prop :=
  match m with
  | .ok s' => ∃ v w', g = P.ok (some v, none, w') ∧ abs w' = s' ∧ WF w'
  | .err _ => g = P.ok (none, Go.wrap code, w)
  | .panic _ => ∃ s, g = P.panic s

theorem metaD_classOf (d : pnfttypes.Denom) : metaD (classOf d) = { Owner := d.Owner, Data := d.Data } := by
  unfold metaD classOf Go.unmarshalE Go.anyValue
  simp only [Go.LawfulProto.unmarshal_marshal]

theorem dec_classOf (d : pnfttypes.Denom) :
    (Go.unmarshalE (Go.anyValue (classOf d).Data) : pnfttypes.DenomMeta × Go.Err).2 = none := by
  unfold classOf Go.unmarshalE Go.anyValue
  simp only [Go.LawfulProto.unmarshal_marshal]

theorem hasClass_abs (w : Nft.World) (id : Bytes) : Pnft.hasClass (abs w) id = Nft.hasClass w id := by
  unfold Pnft.hasClass Nft.hasClass abs Map.has
  simp only [Map.get_mapVals, Option.isSome_map]

theorem getClass_abs (w : Nft.World) (id : Bytes) : (abs w).classes.get id = (w.classes.get id).map toClass := by
  unfold abs; simp only [Map.get_mapVals]

/-- storing a class built from a denom under the denom's id keeps the world well-formed -/
theorem wf_setClass (w : Nft.World) (hwf : WF w) (d : pnfttypes.Denom) :
    WF { w with classes := w.classes.set d.Id (classOf d) } := by
  constructor
  · intro k c h
    by_cases hk : k = d.Id
    · subst hk; rw [Map.get_set_eq] at h; cases h; rfl
    · rw [Map.get_set_ne _ _ _ _ hk] at h; exact hwf.classKey k c h
  · intro k c h
    by_cases hk : k = d.Id
    · subst hk; rw [Map.get_set_eq] at h; cases h; exact dec_classOf d
    · rw [Map.get_set_ne _ _ _ _ hk] at h; exact hwf.classDec k c h
  · exact hwf.nftDec

theorem abs_setClass (w : Nft.World) (d : pnfttypes.Denom) :
    abs { w with classes := w.classes.set d.Id (classOf d) } =
      { abs w with classes := (abs w).classes.set d.Id (Pnft.newClass d.Id d.Name d.Symbol d.Description d.Uri d.UriHash d.Data d.Owner) } := by
  unfold abs
  simp only [Map.set_mapVals]
  congr 2
  unfold toClass
  rw [metaD_classOf]
  rfl

theorem abs_setClass' (w : Nft.World) (k : Bytes) (d : pnfttypes.Denom) :
    abs { w with classes := w.classes.set k (classOf d) } =
      { abs w with classes := (abs w).classes.set k (Pnft.newClass d.Id d.Name d.Symbol d.Description d.Uri d.UriHash d.Data d.Owner) } := by
  unfold abs
  simp only [Map.set_mapVals]
  congr 2
  unfold toClass
  rw [metaD_classOf]
  rfl

theorem wf_setClass' (w : Nft.World) (hwf : WF w) (k : Bytes) (d : pnfttypes.Denom) (hk : d.Id = k) :
    WF { w with classes := w.classes.set k (classOf d) } := by
  subst hk; exact wf_setClass w hwf d

theorem saveDenom_run (w : Nft.World) (d : pnfttypes.Denom) :
    pnftkeeper.Keeper.SaveDenom (some d) w =
      P.ok (if Nft.hasClass w d.Id then (some "nft/3", w)
            else (none, { w with classes := w.classes.set d.Id (classOf d) })) := by
  unfold pnftkeeper.Keeper.SaveDenom Nft.saveClass
  simp only [newClassFromDenom_run, P.ok_bind, Option.isNone_none, Bool.not_true, Bool.false_eq_true, if_false, deref_some,
    P.pure_eq]
  rcases Bool.eq_false_or_eq_true (Nft.hasClass w (classOf d).Id) with h | h
  · have h' : Nft.hasClass w d.Id = true := h
    simp only [h, h', if_true]; rfl
  · have h' : Nft.hasClass w d.Id = false := h
    simp only [h, h', Bool.false_eq_true, if_false]; rfl

def createD (m : pnfttypes.MsgCreateDenomRequest) : pnfttypes.Denom :=
  { Id := m.Id, Name := m.Name, Symbol := m.Symbol, Description := m.Description, Uri := m.Uri, UriHash := m.UriHash,
    Owner := m.Creator, Data := m.Data }

theorem createDenom_refines (bech : Go.Bech32) (now : Int) (w : Nft.World) (hwf : WF w)
    (m : pnfttypes.MsgCreateDenomRequest) :
    SimP pnfttypes.ErrCreateDenom w (pnftkeeper.msgServer.CreateDenom bech (some m) w)
      (Pnft.handle (codec bech) now (abs w) (toCreateDenom m)) := by
  unfold pnftkeeper.msgServer.CreateDenom Pnft.handle
  rcases vb_split (createDenom_vb bech m) with ⟨ho, hg⟩ | ⟨c, e, ho, hg⟩ | ⟨s, t, ho, hg⟩
  · simp only [ho, hg, P.ok_bind, Option.isNone_none, Bool.not_true, Bool.false_eq_true, if_false, deref_some,
      saveDenom_run, Outcome.ok_bind, Outcome.pure_eq]
    simp only [toCreateDenom, hasClass_abs]
    rcases Bool.eq_false_or_eq_true (Nft.hasClass w m.Id) with h | h
    · simp only [h, if_true, Option.isNone_some, Bool.not_false, SimP, P.pure_eq]; rfl
    · simp only [h, Bool.false_eq_true, if_false, Option.isNone_none, Bool.not_true, SimP, P.pure_eq]
      refine ⟨default, _, rfl, ?_, ?_⟩
      · exact abs_setClass w (createD m)
      · exact wf_setClass w hwf (createD m)
  · simp only [ho, hg, P.ok_bind, Option.isNone_some, Bool.not_false, if_true, Outcome.err_bind, SimP, P.pure_eq]; rfl
  · simp only [ho, hg, P.panic_bind, Outcome.panic_bind, SimP]; exact ⟨_, rfl⟩

def updD (msg d : pnfttypes.Denom) : pnfttypes.Denom :=
  let d := if msg.Name ≠ [] then { d with Name := msg.Name } else d
  let d := if msg.Symbol ≠ [] then { d with Symbol := msg.Symbol } else d
  let d := if msg.Description ≠ [] then { d with Description := msg.Description } else d
  let d := if msg.Uri ≠ [] then { d with Uri := msg.Uri } else d
  let d := if msg.UriHash ≠ [] then { d with UriHash := msg.UriHash } else d
  if msg.Data ≠ [] then { d with Data := msg.Data } else d

theorem updD_id (msg d : pnfttypes.Denom) : (updD msg d).Id = d.Id := by
  unfold updD
  by_cases h1 : msg.Name = [] <;> by_cases h2 : msg.Symbol = [] <;> by_cases h3 : msg.Description = [] <;>
  by_cases h4 : msg.Uri = [] <;> by_cases h5 : msg.UriHash = [] <;> by_cases h6 : msg.Data = [] <;>
  simp only [ne_eq, h1, h2, h3, h4, h5, h6, if_true, if_false, not_false_eq_true, not_true_eq_false]

theorem updD_class (msg d : pnfttypes.Denom) :
    Pnft.newClass (updD msg d).Id (updD msg d).Name (updD msg d).Symbol (updD msg d).Description (updD msg d).Uri
        (updD msg d).UriHash (updD msg d).Data (updD msg d).Owner =
      ({ id := d.Id, name := if msg.Name ≠ [] then msg.Name else d.Name,
         symbol := if msg.Symbol ≠ [] then msg.Symbol else d.Symbol,
         description := if msg.Description ≠ [] then msg.Description else d.Description,
         uri := if msg.Uri ≠ [] then msg.Uri else d.Uri,
         uriHash := if msg.UriHash ≠ [] then msg.UriHash else d.UriHash, owner := d.Owner,
         data := if msg.Data ≠ [] then msg.Data else d.Data } : Pnft.Class) := by
  unfold updD Pnft.newClass
  by_cases h1 : msg.Name = [] <;> by_cases h2 : msg.Symbol = [] <;> by_cases h3 : msg.Description = [] <;>
  by_cases h4 : msg.Uri = [] <;> by_cases h5 : msg.UriHash = [] <;> by_cases h6 : msg.Data = [] <;>
  simp only [ne_eq, h1, h2, h3, h4, h5, h6, if_true, if_false, not_false_eq_true, not_true_eq_false]

theorem updateDenom_run (w : Nft.World) (hwf : WF w) (msg : pnfttypes.Denom) (c : Nft.Class)
    (h : w.classes.get msg.Id = some c) (hown : msg.Owner = (metaD c).Owner) :
    pnftkeeper.Keeper.UpdateDenom (some msg) w =
      P.ok (none, { w with classes := w.classes.set msg.Id (classOf (updD msg (denomOf c))) }) := by
  unfold pnftkeeper.Keeper.UpdateDenom
  have hcid : c.Id = msg.Id := hwf.classKey _ _ h
  have hhas : Nft.hasClass w msg.Id = true := by unfold Nft.hasClass Map.has; rw [h]; rfl
  have hown' : ¬ (msg.Owner ≠ (denomOf c).Owner) := fun hne => hne hown
  have tail : ∀ d : pnfttypes.Denom, d.Id = msg.Id →
      (do let t_1 ← pnfttypes.NewClassFromDenom (some d)
          if (!Option.isNone t_1.snd) = true then pure (t_1.snd, w)
          else do
            let d_20 ← Go.deref "class" t_1.fst
            if (!Option.isNone (Nft.updateClass w d_20).snd) = true then
              pure ((Nft.updateClass w d_20).snd, (Nft.updateClass w d_20).fst)
            else pure (none, (Nft.updateClass w d_20).fst) : P (Go.Err × Nft.World)) =
        P.ok (none, { w with classes := w.classes.set msg.Id (classOf d) }) := by
    intro d hd
    have hh : Nft.hasClass w (classOf d).Id = true := by show Nft.hasClass w d.Id = true; rw [hd]; exact hhas
    simp only [newClassFromDenom_run, P.ok_bind, Option.isNone_none, Bool.not_true, Bool.false_eq_true, if_false,
      deref_some, Nft.updateClass, hh, P.pure_eq]
    show P.ok (none, { w with classes := w.classes.set d.Id (classOf d) }) = _
    rw [hd]
  simp only [getDenom_some w hwf msg.Id c h, P.ok_bind, Option.isNone_none, Bool.not_true, Bool.false_eq_true, if_false,
    deref_some, hown', decide_false]
  by_cases h1 : msg.Name = [] <;> by_cases h2 : msg.Symbol = [] <;> by_cases h3 : msg.Description = [] <;>
  by_cases h4 : msg.Uri = [] <;> by_cases h5 : msg.UriHash = [] <;> by_cases h6 : msg.Data = [] <;>
  simp only [ne_eq, h1, h2, h3, h4, h5, h6, decide_true, decide_false, if_true, if_false, Bool.false_eq_true, updD,
    not_false_eq_true, not_true_eq_false] <;>
  (refine (tail _ ?_).trans ?_ <;> first | exact hcid | rfl)

theorem updateDenom_none (w : Nft.World) (msg : pnfttypes.Denom) (h : w.classes.get msg.Id = none) :
    ∃ e, pnftkeeper.Keeper.UpdateDenom (some msg) w = P.ok (some e, w) := by
  unfold pnftkeeper.Keeper.UpdateDenom
  simp only [getDenom_none w msg.Id h, P.ok_bind, Option.isNone_some, Bool.not_false, if_true, P.pure_eq]
  exact ⟨_, rfl⟩

theorem updateDenom_perm (w : Nft.World) (hwf : WF w) (msg : pnfttypes.Denom) (c : Nft.Class)
    (h : w.classes.get msg.Id = some c) (hown : msg.Owner ≠ (metaD c).Owner) :
    ∃ e, pnftkeeper.Keeper.UpdateDenom (some msg) w = P.ok (some e, w) := by
  unfold pnftkeeper.Keeper.UpdateDenom
  have hown' : msg.Owner ≠ (denomOf c).Owner := hown
  simp only [getDenom_some w hwf msg.Id c h, P.ok_bind, Option.isNone_none, Bool.not_true, Bool.false_eq_true, if_false,
    deref_some, hown', decide_true, if_true, P.pure_eq, ne_eq, not_false_eq_true]
  exact ⟨_, rfl⟩

def updateD (m : pnfttypes.MsgUpdateDenomRequest) : pnfttypes.Denom :=
  { Id := m.Id, Name := m.Name, Symbol := m.Symbol, Description := m.Description, Uri := m.Uri, UriHash := m.UriHash,
    Owner := m.Updater, Data := m.Data }

theorem updateDenom_refines (bech : Go.Bech32) (now : Int) (w : Nft.World) (hwf : WF w)
    (m : pnfttypes.MsgUpdateDenomRequest) :
    SimP pnfttypes.ErrUpdateDenom w (pnftkeeper.msgServer.UpdateDenom bech (some m) w)
      (Pnft.handle (codec bech) now (abs w) (toUpdateDenom m)) := by
  unfold pnftkeeper.msgServer.UpdateDenom Pnft.handle
  rcases vb_split (updateDenom_vb bech m) with ⟨ho, hg⟩ | ⟨c, e, ho, hg⟩ | ⟨s, t, ho, hg⟩
  · simp only [ho, hg, P.ok_bind, Option.isNone_none, Bool.not_true, Bool.false_eq_true, if_false, deref_some,
      Outcome.ok_bind, Outcome.pure_eq]
    simp only [toUpdateDenom, getClass_abs]
    change SimP _ w (do let t_1 ← pnftkeeper.Keeper.UpdateDenom (some (updateD m)) w; _) _
    cases hc : w.classes.get m.Id with
    | none =>
      obtain ⟨e, he⟩ := updateDenom_none w (updateD m) hc
      simp only [he, P.ok_bind, Option.isNone_some, Bool.not_false, if_true, Option.map_none, SimP, P.pure_eq]; rfl
    | some c =>
      simp only [Option.map_some]
      by_cases hown : m.Updater = (metaD c).Owner
      · have hown' : ¬ (m.Updater ≠ (toClass c).owner) := fun hne => hne hown
        rw [if_neg hown']
        simp only [updateDenom_run w hwf (updateD m) c hc hown, P.ok_bind, Option.isNone_none, Bool.not_true,
          Bool.false_eq_true, if_false, SimP, P.pure_eq]
        refine ⟨default, _, rfl, ?_, ?_⟩
        · refine (abs_setClass' w m.Id _).trans ?_
          rw [updD_class]; rfl
        · exact wf_setClass' w hwf m.Id _ (updD_id _ _ |>.trans (hwf.classKey _ _ hc))
      · obtain ⟨e, he⟩ := updateDenom_perm w hwf (updateD m) c hc hown
        have hown' : m.Updater ≠ (toClass c).owner := hown
        rw [if_pos hown']
        simp only [he, P.ok_bind, Option.isNone_some, Bool.not_false, if_true, SimP, P.pure_eq]; rfl
  · simp only [ho, hg, P.ok_bind, Option.isNone_some, Bool.not_false, if_true, Outcome.err_bind, SimP, P.pure_eq]; rfl
  · simp only [ho, hg, P.panic_bind, Outcome.panic_bind, SimP]; exact ⟨_, rfl⟩

end keeper
end Panacea.Refine.Pnft
