import Panacea.Generated.Code
import Panacea.Model.Did
/-!
# Refinement: the translated document validation of `x/did/types`

`Gen.didtypes.*` is regenerated from `/repo/x/did/types/did.go` and `messages_did.go` on every run (regular
expressions parsed by Go's own `regexp/syntax`, `fmt.Sprintf` over constants folded, the protobuf `oneof` of a
verification relationship as an inductive type).  The theorems say that the translated validators compute the
hand-written `Did.validateDID`, `validateVMID`, `VM.valid`, `Rel.valid`, `vmByID`, `validRels`, `Doc.valid`,
`vmFrom` — the functions the theorems of C03, C04, C05, C11 and C16 are about — for every document whose repeated
message fields hold no nil element (what protobuf decoding produces).
-/
namespace Panacea.Refine.DidTypes
open Panacea Panacea.Gen Panacea.Go

/-! ## loops that return at the first failing element -/

/-- `for x in l { if !ok(x) { return false } }` -/
theorem forIn_all {α : Type} (l : List α) (p : α → Bool)
    (body : α → (Option Bool × Unit) → P (ForInStep (Option Bool × Unit)))
    (hb : ∀ x ∈ l, body x (none, ()) = P.ok (if p x then .yield (none, ()) else .done (some false, ()))) :
    forIn l ((none : Option Bool), ()) body = P.ok (if l.all p then (none, ()) else (some false, ())) := by
  induction l with
  | nil => rfl
  | cons x l ih =>
    simp only [List.forIn_cons]
    rw [hb x (by simp)]
    by_cases hp : p x = true
    · simp only [hp, if_true, P.ok_bind, List.all_cons, Bool.true_and]
      exact ih (fun y hy => hb y (List.mem_cons_of_mem _ hy))
    · have : p x = false := by cases h : p x <;> simp_all
      simp [this]

/-! ## character classes -/

def b58Ranges : List (Nat × Nat) := [(49, 57), (65, 72), (74, 78), (80, 90), (97, 107), (109, 122)]

theorem b58_class_nat : ∀ n, n < 256 → Go.inRanges b58Ranges (UInt8.ofNat n) = Did.isB58 (UInt8.ofNat n) := by
  decide +kernel

theorem b58_class (b : UInt8) : Go.inRanges b58Ranges b = Did.isB58 b := by
  have := b58_class_nat b.toNat b.toNat_lt
  simpa using this

theorem all_b58 (s : Bytes) : s.all (Go.inRanges b58Ranges) = s.all Did.isB58 := by
  induction s with
  | nil => rfl
  | cons b s ih => simp only [List.all_cons, b58_class, ih]

def spaceRanges : List (Nat × Nat) := [(9, 10), (12, 13), (32, 32)]

theorem space_class_nat : ∀ n, n < 256 → Go.inRanges spaceRanges (UInt8.ofNat n) = Did.isSpace (UInt8.ofNat n) := by
  decide +kernel

theorem space_class (b : UInt8) : Go.inRanges spaceRanges b = Did.isSpace b := by
  have := space_class_nat b.toNat b.toNat_lt
  simpa using this

theorem all_nonspace (s : Bytes) :
    s.all (fun b => !Go.inRanges spaceRanges b) = s.all (fun c => !Did.isSpace c) := by
  induction s with
  | nil => rfl
  | cons b s ih => simp only [List.all_cons, space_class, ih]


/-! ## conversions from the generated structures to the model's -/

def toVM (x : didtypes.VerificationMethod) : Did.VM :=
  { id := x.Id, type := x.«Type», controller := x.Controller, pubKeyB58 := x.PublicKeyBase58 }

/-- an unset `oneof`, or a wrapper holding a nil pointer, behaves as a reference to the empty id (the generated
getters return `""` / `nil`) -/
def toRel (r : didtypes.VerificationRelationship) : Did.Rel :=
  match r.Content with
  | .VerificationMethodId v => .ref v
  | .VerificationMethod (some vm) => .dedicated (toVM vm)
  | .VerificationMethod none => .ref []
  | .none => .ref []

def toService (x : didtypes.Service) : Did.Service := { id := x.Id, type := x.«Type», endpoint := x.ServiceEndpoint }

def toDoc (d : didtypes.DIDDocument) : Did.Doc :=
  { contexts := d.Contexts, id := d.Id, controller := d.Controller,
    vms := (d.VerificationMethods.filterMap id).map toVM,
    auths := d.Authentications.map toRel, asserts := d.AssertionMethods.map toRel,
    keyAgrs := d.KeyAgreements.map toRel, capInvs := d.CapabilityInvocations.map toRel,
    capDels := d.CapabilityDelegations.map toRel,
    services := (d.Services.filterMap id).map toService }

/-- what protobuf decoding guarantees: repeated message fields hold no nil element -/
def NoNil (d : didtypes.DIDDocument) : Prop :=
  (∀ x ∈ d.VerificationMethods, x.isSome = true) ∧ (∀ x ∈ d.Services, x.isSome = true)

/-! ## identifiers -/

theorem validateDID_refines (s : Bytes) : didtypes.ValidateDID s = P.ok (Did.validateDID s) := by
  unfold didtypes.ValidateDID Did.validateDID
  simp only [Go.reMatch, Go.Re.fullMatch, Go.Re.atom, Option.map_some, P.ok_bind, bind_pure_comp, P.map_ok,
    P.pure_eq]
  have hp : ([100, 105, 100, 58, 112, 97, 110, 97, 99, 101, 97, 58] : Bytes) = Did.didPrefix := rfl
  rw [hp]
  have hl : Did.didPrefix.length = 12 := rfl
  have hcls := all_b58 (s.drop Did.didPrefix.length)
  unfold b58Ranges at hcls
  rw [hcls]
  congr 1
  simp only [List.length_drop, hl, Bool.and_assoc]

theorem slice_suffix (pfx suffix : Bytes) :
    Go.slice (pfx ++ suffix) (Go.len pfx) none = P.ok suffix := by
  unfold Go.slice Go.len
  simp only [Option.getD_none]
  have : ¬ (((pfx.length : Nat) : Int) < 0 ∨
      (((pfx ++ suffix).length : Nat) : Int) < ((pfx.length : Nat) : Int) ∨
      (((pfx ++ suffix).length : Nat) : Int) > (((pfx ++ suffix).length : Nat) : Int)) := by
    simp only [List.length_append]; omega
  rw [if_neg this]
  have e : (((pfx ++ suffix).length : Nat) : Int).toNat = (pfx ++ suffix).length := by omega
  have e2 : (((pfx.length : Nat) : Int)).toNat = pfx.length := by omega
  rw [e, e2, List.take_length, List.drop_left]

theorem validateVMID_refines (id did : Bytes) :
    didtypes.ValidateVerificationMethodID id did = P.ok (Did.validateVMID id did) := by
  unfold didtypes.ValidateVerificationMethodID Did.validateVMID Did.maxVMIDLen
  simp only []
  generalize (did ++ ([35] : Bytes)) = pfx
  by_cases h1 : pfx.isPrefixOf id = true
  · obtain ⟨suffix, hs⟩ := List.isPrefixOf_iff_prefix.mp h1
    subst hs
    simp only [h1, Bool.not_true, Bool.false_eq_true, if_false, List.drop_left, Bool.true_and]
    by_cases h2 : suffix.length > 128
    · have c : decide (Go.len (pfx ++ suffix) - Go.len pfx > 128) = true := by
        simp only [Go.len, List.length_append, decide_eq_true_eq]; omega
      rw [if_pos c]
      have : ¬ (suffix.length ≤ 128) := by omega
      simp [this]
    · have c : ¬ (decide (Go.len (pfx ++ suffix) - Go.len pfx > 128) = true) := by
        simp only [Go.len, List.length_append, decide_eq_true_eq]; omega
      rw [if_neg c, slice_suffix]
      simp only [P.ok_bind, Go.reMatch, Go.Re.fullMatch, Go.Re.atom, Option.map_some, bind_pure_comp, P.map_ok,
        P.pure_eq]
      have hcls := all_nonspace suffix
      unfold spaceRanges at hcls
      rw [hcls]
      have : suffix.length ≤ 128 := by omega
      cases suffix with
      | nil => simp
      | cons a t =>
        have h3 : t.length ≤ 127 := by simp at this; omega
        simp [h3]
  · have h1' : pfx.isPrefixOf id = false := by cases h : pfx.isPrefixOf id <;> simp_all
    simp [h1']

theorem validateKeyType_refines (t : Bytes) : didtypes.ValidateKeyType t = P.ok (decide (t ≠ [])) := by
  unfold didtypes.ValidateKeyType
  by_cases h : t = []
  · subst h; rfl
  · simp only [h, decide_false, if_false]
    split <;> simp [h]

theorem vmValid_refines (x : didtypes.VerificationMethod) (did : Bytes) :
    didtypes.VerificationMethod.Valid x did = P.ok ((toVM x).valid did) := by
  unfold didtypes.VerificationMethod.Valid Did.VM.valid toVM
  simp only [validateVMID_refines, validateKeyType_refines, P.ok_bind]
  by_cases h1 : Did.validateVMID x.Id did = true
  · simp only [h1, Bool.not_true, Bool.true_and]
    by_cases h2 : x.«Type» = []
    · simp [h2]
    · simp only [Bool.false_eq_true, if_false, Bool.not_false, if_true, P.ok_bind, ne_eq, h2, not_false_eq_true,
        decide_true, Bool.not_true, Go.reMatch, Go.Re.fullMatch, Go.Re.atom, Option.map_some, bind_pure_comp, P.map_ok,
        Bool.true_and]
      have hcls := all_b58 x.PublicKeyBase58
      unfold b58Ranges at hcls
      rw [hcls]
      cases x.PublicKeyBase58 with
      | nil => simp
      | cons a t => simp
  · have h1' : Did.validateVMID x.Id did = false := by cases h : Did.validateVMID x.Id did <;> simp_all
    simp [h1']


/-! ## lists of identifiers and contexts -/

/-- `for x in l { if found(x) { return r } }` -/
theorem forIn_find {α ρ : Type} (l : List α) (g : α → Option ρ)
    (body : α → (Option ρ × Unit) → P (ForInStep (Option ρ × Unit)))
    (hb : ∀ x ∈ l, body x (none, ()) = P.ok (match g x with
      | some r => .done (some r, ())
      | none => .yield (none, ()))) :
    forIn l ((none : Option ρ), ()) body = P.ok (l.findSome? g, ()) := by
  induction l with
  | nil => rfl
  | cons x l ih =>
    simp only [List.forIn_cons]
    rw [hb x (by simp)]
    cases hg : g x with
    | some r => simp [List.findSome?_cons, hg]
    | none =>
      simp only [P.ok_bind, List.findSome?_cons, hg]
      exact ih (fun y hy => hb y (List.mem_cons_of_mem _ hy))

theorem emptyDIDs_refines (l : List Bytes) : didtypes.EmptyDIDs l = P.ok (Did.emptyDIDs l) := by
  unfold didtypes.EmptyDIDs Did.emptyDIDs
  by_cases h : l = []
  · subst h; rfl
  · have c : ¬ (decide (Go.len l = 0) = true) := by
      cases l with
      | nil => exact absurd rfl h
      | cons a t =>
        show ¬ (decide ((((a :: t).length : Nat) : Int) = 0) = true)
        simp only [List.length_cons, decide_eq_true_eq]; omega
    rw [if_neg c]
    rw [forIn_all l (fun x => decide (x = []))]
    · cases hall : l.all (fun x => decide (x = [])) <;> rfl
    · intro x _
      unfold didtypes.EmptyDID
      by_cases hx : x = [] <;> simp [hx]

theorem validateDIDs_refines (l : List Bytes) : didtypes.ValidateDIDs l = P.ok (Did.validateDIDs l) := by
  unfold didtypes.ValidateDIDs Did.validateDIDs
  simp only [emptyDIDs_refines, P.ok_bind]
  by_cases h : Did.emptyDIDs l = true
  · simp [h]
  · have h' : Did.emptyDIDs l = false := by cases hh : Did.emptyDIDs l <;> simp_all
    simp only [h', Bool.false_eq_true, if_false, Bool.not_false, Bool.true_and]
    rw [forIn_all l Did.validateDID]
    · cases hall : l.all Did.validateDID <;> rfl
    · intro x _
      rw [validateDID_refines]
      cases Did.validateDID x <;> rfl

/-- the loop of `ValidateContexts`, from a set of contexts already seen -/
def ctxLoop : List Bytes → List Bytes → Option Bool × List Bytes
  | [], seen => (none, seen)
  | c :: cs, seen => if seen.contains c || decide (c = []) then (some false, seen) else ctxLoop cs (c :: seen)

theorem ctx_forIn (cs : List Bytes) : ∀ seen : List Bytes,
    (forIn cs ((none : Option Bool), seen) fun context __s =>
      if (!__s.snd.contains context) = true then do
        let t ← didtypes.ValidateContext context
        if (!t) = true then (pure (ForInStep.done (some false, __s.snd)) : P _)
          else pure (ForInStep.yield (none, context :: __s.snd))
      else
        if __s.snd.contains context = true then pure (ForInStep.done (some false, __s.snd))
        else pure (ForInStep.yield (none, context :: __s.snd))) = P.ok (ctxLoop cs seen) := by
  induction cs with
  | nil => intro seen; rfl
  | cons c cs ih =>
    intro seen
    simp only [List.forIn_cons]
    by_cases h1 : seen.contains c = true
    · have e1 : ¬ ((!seen.contains c) = true) := by rw [h1]; decide
      rw [if_neg e1, if_pos h1]
      simp only [pure_bind, ctxLoop, h1, Bool.true_or, if_true]
      rfl
    · have h1' : seen.contains c = false := by cases hh : seen.contains c <;> simp_all
      have e1 : (!seen.contains c) = true := by rw [h1']; rfl
      rw [if_pos e1]
      unfold didtypes.ValidateContext
      by_cases h2 : c = []
      · subst h2
        simp only [ne_eq, not_true_eq_false, decide_false, pure_bind, Bool.not_false, if_true, ctxLoop, h1',
          decide_true, Bool.or_true]
        rfl
      · have e2 : ¬ ((!decide (c ≠ ([] : Bytes))) = true) := by simp [h2]
        simp only [pure_bind]
        rw [if_neg e2]
        simp only [pure_bind, ctxLoop, h1', h2, decide_false, Bool.or_false, Bool.false_eq_true, if_false]
        exact ih (c :: seen)

theorem ctxLoop_fst (cs : List Bytes) : ∀ seen : List Bytes,
    (ctxLoop cs seen).1 = none ↔
      (Did.nodup cs = true ∧ (cs.all (· ≠ [])) = true ∧ ∀ c ∈ cs, seen.contains c = false) := by
  induction cs with
  | nil => intro seen; simp [ctxLoop, Did.nodup]
  | cons c cs ih =>
    intro seen
    unfold ctxLoop
    by_cases h : (seen.contains c || decide (c = [])) = true
    · simp only [h, if_true]
      constructor
      · intro hh; cases hh
      · intro ⟨_, h2, h3⟩
        simp only [Bool.or_eq_true, decide_eq_true_eq] at h
        rcases h with h | h
        · have := h3 c (by simp); rw [this] at h; cases h
        · simp [h] at h2
    · simp only [h, Bool.false_eq_true, if_false]
      rw [ih (c :: seen)]
      simp only [Bool.or_eq_true, decide_eq_true_eq, not_or] at h
      have hc1 : seen.contains c = false := by cases hh : seen.contains c <;> simp_all
      constructor
      · intro ⟨h1, h2, h3⟩
        refine ⟨?_, ?_, ?_⟩
        · simp only [Did.nodup, Bool.and_eq_true, Bool.not_eq_true']
          refine ⟨?_, h1⟩
          cases hcc : cs.contains c with
          | false => rfl
          | true =>
            have := h3 c (List.contains_iff_mem.mp hcc)
            simp at this
        · simp only [List.all_cons, Bool.and_eq_true, decide_eq_true_eq]
          exact ⟨h.2, h2⟩
        · intro x hx
          rcases List.mem_cons.mp hx with rfl | hx
          · exact hc1
          · have := h3 x hx
            simp only [List.contains_cons, Bool.or_eq_false_iff] at this
            exact this.2
      · intro ⟨h1, h2, h3⟩
        simp only [Did.nodup, Bool.and_eq_true, Bool.not_eq_true'] at h1
        simp only [List.all_cons, Bool.and_eq_true, decide_eq_true_eq] at h2
        refine ⟨h1.2, h2.2, ?_⟩
        intro x hx
        simp only [List.contains_cons, Bool.or_eq_false_iff]
        refine ⟨?_, h3 x (List.mem_cons_of_mem _ hx)⟩
        cases hxc : (x == c) with
        | false => rfl
        | true =>
          have : x = c := by simpa using hxc
          subst this
          have := List.contains_iff_mem.mpr hx
          rw [h1.1] at this; cases this

theorem validateContexts_refines (cs : List Bytes) :
    didtypes.ValidateContexts cs = P.ok (Did.validateContexts cs) := by
  unfold didtypes.ValidateContexts Did.validateContexts
  cases cs with
  | nil => rfl
  | cons c0 rest =>
    have hne : ¬ (decide (Go.len (c0 :: rest) = 0) = true) := by
      show ¬ (decide ((((c0 :: rest).length : Nat) : Int) = 0) = true)
      simp only [List.length_cons, decide_eq_true_eq]; omega
    have hidx : Go.idx (c0 :: rest) 0 = P.ok c0 := rfl
    simp only [hne, Bool.not_false, if_true, Bool.false_eq_true, if_false, hidx, P.ok_bind]
    have hctx : ([104, 116, 116, 112, 115, 58, 47, 47, 119, 119, 119, 46, 119, 51, 46, 111, 114, 103, 47, 110, 115, 47,
        100, 105, 100, 47, 118, 49] : Bytes) = Did.contextDIDV1 := rfl
    rw [hctx]
    by_cases h0 : c0 = Did.contextDIDV1
    · simp only [h0, ne_eq, not_true_eq_false, decide_false, Bool.false_eq_true, if_false, decide_true, Bool.true_and]
      have hl := ctx_forIn (Did.contextDIDV1 :: rest) []
      rw [hl]
      simp only [P.ok_bind]
      have hf := ctxLoop_fst (Did.contextDIDV1 :: rest) []
      cases hfst : (ctxLoop (Did.contextDIDV1 :: rest) []).1 with
      | none =>
        have := hf.mp hfst
        simp only [this.1, this.2.1, Bool.and_self]
        rfl
      | some r =>
        have hr : r = false := by
          -- the loop only ever returns `false`
          have : ∀ (cs seen : List Bytes) (r : Bool), (ctxLoop cs seen).1 = some r → r = false := by
            intro cs
            induction cs with
            | nil => intro seen r h; simp [ctxLoop] at h
            | cons c cs ih =>
              intro seen r h
              unfold ctxLoop at h
              split at h
              · simp at h; exact h
              · exact ih _ _ h
          exact this _ _ _ hfst
        subst hr
        have hnot : ¬ (Did.nodup (Did.contextDIDV1 :: rest) = true ∧ ((Did.contextDIDV1 :: rest).all (· ≠ [])) = true) := by
          intro ⟨a, b⟩
          have := hf.mpr ⟨a, b, by intro c _; rfl⟩
          rw [hfst] at this; cases this
        cases hn : Did.nodup (Did.contextDIDV1 :: rest) with
        | false => rfl
        | true =>
          cases ha : (Did.contextDIDV1 :: rest).all (· ≠ []) with
          | false => rfl
          | true => exact absurd ⟨hn, ha⟩ hnot
    · simp [h0]

end Panacea.Refine.DidTypes
