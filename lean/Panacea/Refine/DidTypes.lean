import Panacea.Generated.Code
import Panacea.Model.Did
/-!
# Refinement: the translated document validation of `x/did/types`

`Gen.didtypes.*` is regenerated from `/repo/x/did/types/did.go` and `messages_did.go` on every run (regular
expressions parsed by Go's own `regexp/syntax`, `fmt.Sprintf` over constants folded, the protobuf `oneof` of a
verification relationship as an inductive type).  The theorems say that the translated validators compute the
hand-written `Did.validateDID`, `validateVMID`, `VM.valid`, `Rel.valid`, `vmByID`, `validRels`, `Doc.valid`,
`vmFrom` — the functions the theorems of C03, C04, C05, C11 and C16 are about — for every document whose repeated
message fields hold no nil element (what protobuf decoding produces).
-/
namespace Panacea.Refine.DidTypes
open Panacea Panacea.Gen Panacea.Go

/-! ## loops that return at the first failing element -/

/-- `for x in l { if !ok(x) { return false } }` -/
theorem forIn_all {α : Type} (l : List α) (p : α → Bool)
    (body : α → (Option Bool × Unit) → P (ForInStep (Option Bool × Unit)))
    (hb : ∀ x ∈ l, body x (none, ()) = P.ok (if p x then .yield (none, ()) else .done (some false, ()))) :
    forIn l ((none : Option Bool), ()) body = P.ok (if l.all p then (none, ()) else (some false, ())) := by
  induction l with
  | nil => rfl
  | cons x l ih =>
    simp only [List.forIn_cons]
    rw [hb x (by simp)]
    by_cases hp : p x = true
    · simp only [hp, if_true, P.ok_bind, List.all_cons, Bool.true_and]
      exact ih (fun y hy => hb y (List.mem_cons_of_mem _ hy))
    · have : p x = false := by cases h : p x <;> simp_all
      simp [this]

/-! ## character classes -/

def b58Ranges : List (Nat × Nat) := [(49, 57), (65, 72), (74, 78), (80, 90), (97, 107), (109, 122)]

theorem b58_class_nat : ∀ n, n < 256 → Go.inRanges b58Ranges (UInt8.ofNat n) = Did.isB58 (UInt8.ofNat n) := by
  decide +kernel

theorem b58_class (b : UInt8) : Go.inRanges b58Ranges b = Did.isB58 b := by
  have := b58_class_nat b.toNat b.toNat_lt
  simpa using this

theorem all_b58 (s : Bytes) : s.all (Go.inRanges b58Ranges) = s.all Did.isB58 := by
  induction s with
  | nil => rfl
  | cons b s ih => simp only [List.all_cons, b58_class, ih]

def spaceRanges : List (Nat × Nat) := [(9, 10), (12, 13), (32, 32)]

theorem space_class_nat : ∀ n, n < 256 → Go.inRanges spaceRanges (UInt8.ofNat n) = Did.isSpace (UInt8.ofNat n) := by
  decide +kernel

theorem space_class (b : UInt8) : Go.inRanges spaceRanges b = Did.isSpace b := by
  have := space_class_nat b.toNat b.toNat_lt
  simpa using this

theorem all_nonspace (s : Bytes) :
    s.all (fun b => !Go.inRanges spaceRanges b) = s.all (fun c => !Did.isSpace c) := by
  induction s with
  | nil => rfl
  | cons b s ih => simp only [List.all_cons, space_class, ih]


/-! ## conversions from the generated structures to the model's -/

def toVM (x : didtypes.VerificationMethod) : Did.VM :=
  { id := x.Id, type := x.«Type», controller := x.Controller, pubKeyB58 := x.PublicKeyBase58 }

/-- an unset `oneof`, or a wrapper holding a nil pointer, behaves as a reference to the empty id (the generated
getters return `""` / `nil`) -/
def toRel (r : didtypes.VerificationRelationship) : Did.Rel :=
  match r.Content with
  | .VerificationMethodId v => .ref v
  | .VerificationMethod (some vm) => .dedicated (toVM vm)
  | .VerificationMethod none => .ref []
  | .none => .ref []

def toService (x : didtypes.Service) : Did.Service := { id := x.Id, type := x.«Type», endpoint := x.ServiceEndpoint }

def toDoc (d : didtypes.DIDDocument) : Did.Doc :=
  { contexts := d.Contexts, id := d.Id, controller := d.Controller,
    vms := (d.VerificationMethods.filterMap id).map toVM,
    auths := d.Authentications.map toRel, asserts := d.AssertionMethods.map toRel,
    keyAgrs := d.KeyAgreements.map toRel, capInvs := d.CapabilityInvocations.map toRel,
    capDels := d.CapabilityDelegations.map toRel,
    services := (d.Services.filterMap id).map toService }

/-- what protobuf decoding guarantees: repeated message fields hold no nil element -/
def NoNil (d : didtypes.DIDDocument) : Prop :=
  (∀ x ∈ d.VerificationMethods, x.isSome = true) ∧ (∀ x ∈ d.Services, x.isSome = true)

/-! ## identifiers -/

theorem validateDID_refines (s : Bytes) : didtypes.ValidateDID s = P.ok (Did.validateDID s) := by
  unfold didtypes.ValidateDID Did.validateDID
  simp only [Go.reMatch, Go.Re.fullMatch, Go.Re.atom, Option.map_some, P.ok_bind, bind_pure_comp, P.map_ok,
    P.pure_eq]
  have hp : ([100, 105, 100, 58, 112, 97, 110, 97, 99, 101, 97, 58] : Bytes) = Did.didPrefix := rfl
  rw [hp]
  have hl : Did.didPrefix.length = 12 := rfl
  have hcls := all_b58 (s.drop Did.didPrefix.length)
  unfold b58Ranges at hcls
  rw [hcls]
  congr 1
  simp only [List.length_drop, hl, Bool.and_assoc]

theorem slice_suffix (pfx suffix : Bytes) :
    Go.slice (pfx ++ suffix) (Go.len pfx) none = P.ok suffix := by
  unfold Go.slice Go.len
  simp only [Option.getD_none]
  have : ¬ (((pfx.length : Nat) : Int) < 0 ∨
      (((pfx ++ suffix).length : Nat) : Int) < ((pfx.length : Nat) : Int) ∨
      (((pfx ++ suffix).length : Nat) : Int) > (((pfx ++ suffix).length : Nat) : Int)) := by
    simp only [List.length_append]; omega
  rw [if_neg this]
  have e : (((pfx ++ suffix).length : Nat) : Int).toNat = (pfx ++ suffix).length := by omega
  have e2 : (((pfx.length : Nat) : Int)).toNat = pfx.length := by omega
  rw [e, e2, List.take_length, List.drop_left]

theorem validateVMID_refines (id did : Bytes) :
    didtypes.ValidateVerificationMethodID id did = P.ok (Did.validateVMID id did) := by
  unfold didtypes.ValidateVerificationMethodID Did.validateVMID Did.maxVMIDLen
  simp only []
  generalize (did ++ ([35] : Bytes)) = pfx
  by_cases h1 : pfx.isPrefixOf id = true
  · obtain ⟨suffix, hs⟩ := List.isPrefixOf_iff_prefix.mp h1
    subst hs
    simp only [h1, Bool.not_true, Bool.false_eq_true, if_false, List.drop_left, Bool.true_and]
    by_cases h2 : suffix.length > 128
    · have c : decide (Go.len (pfx ++ suffix) - Go.len pfx > 128) = true := by
        simp only [Go.len, List.length_append, decide_eq_true_eq]; omega
      rw [if_pos c]
      have : ¬ (suffix.length ≤ 128) := by omega
      simp [this]
    · have c : ¬ (decide (Go.len (pfx ++ suffix) - Go.len pfx > 128) = true) := by
        simp only [Go.len, List.length_append, decide_eq_true_eq]; omega
      rw [if_neg c, slice_suffix]
      simp only [P.ok_bind, Go.reMatch, Go.Re.fullMatch, Go.Re.atom, Option.map_some, bind_pure_comp, P.map_ok,
        P.pure_eq]
      have hcls := all_nonspace suffix
      unfold spaceRanges at hcls
      rw [hcls]
      have : suffix.length ≤ 128 := by omega
      cases suffix with
      | nil => simp
      | cons a t =>
        have h3 : t.length ≤ 127 := by simp at this; omega
        simp [h3]
  · have h1' : pfx.isPrefixOf id = false := by cases h : pfx.isPrefixOf id <;> simp_all
    simp [h1']

theorem validateKeyType_refines (t : Bytes) : didtypes.ValidateKeyType t = P.ok (decide (t ≠ [])) := by
  unfold didtypes.ValidateKeyType
  by_cases h : t = []
  · subst h; rfl
  · simp only [h, decide_false, if_false]
    split <;> simp [h]

theorem vmValid_refines (x : didtypes.VerificationMethod) (did : Bytes) :
    didtypes.VerificationMethod.Valid x did = P.ok ((toVM x).valid did) := by
  unfold didtypes.VerificationMethod.Valid Did.VM.valid toVM
  simp only [validateVMID_refines, validateKeyType_refines, P.ok_bind]
  by_cases h1 : Did.validateVMID x.Id did = true
  · simp only [h1, Bool.not_true, Bool.true_and]
    by_cases h2 : x.«Type» = []
    · simp [h2]
    · simp only [Bool.false_eq_true, if_false, Bool.not_false, if_true, P.ok_bind, ne_eq, h2, not_false_eq_true,
        decide_true, Bool.not_true, Go.reMatch, Go.Re.fullMatch, Go.Re.atom, Option.map_some, bind_pure_comp, P.map_ok,
        Bool.true_and]
      have hcls := all_b58 x.PublicKeyBase58
      unfold b58Ranges at hcls
      rw [hcls]
      cases x.PublicKeyBase58 with
      | nil => simp
      | cons a t => simp
  · have h1' : Did.validateVMID x.Id did = false := by cases h : Did.validateVMID x.Id did <;> simp_all
    simp [h1']


/-! ## lists of identifiers and contexts -/

/-- `for x in l { if found(x) { return r } }` -/
theorem forIn_find {α ρ : Type} (l : List α) (g : α → Option ρ)
    (body : α → (Option ρ × Unit) → P (ForInStep (Option ρ × Unit)))
    (hb : ∀ x ∈ l, body x (none, ()) = P.ok (match g x with
      | some r => .done (some r, ())
      | none => .yield (none, ()))) :
    forIn l ((none : Option ρ), ()) body = P.ok (l.findSome? g, ()) := by
  induction l with
  | nil => rfl
  | cons x l ih =>
    simp only [List.forIn_cons]
    rw [hb x (by simp)]
    cases hg : g x with
    | some r => simp [List.findSome?_cons, hg]
    | none =>
      simp only [P.ok_bind, List.findSome?_cons, hg]
      exact ih (fun y hy => hb y (List.mem_cons_of_mem _ hy))

theorem emptyDIDs_refines (l : List Bytes) : didtypes.EmptyDIDs l = P.ok (Did.emptyDIDs l) := by
  unfold didtypes.EmptyDIDs Did.emptyDIDs
  by_cases h : l = []
  · subst h; rfl
  · have c : ¬ (decide (Go.len l = 0) = true) := by
      cases l with
      | nil => exact absurd rfl h
      | cons a t =>
        show ¬ (decide ((((a :: t).length : Nat) : Int) = 0) = true)
        simp only [List.length_cons, decide_eq_true_eq]; omega
    rw [if_neg c]
    rw [forIn_all l (fun x => decide (x = []))]
    · cases hall : l.all (fun x => decide (x = [])) <;> rfl
    · intro x _
      unfold didtypes.EmptyDID
      by_cases hx : x = [] <;> simp [hx]

theorem validateDIDs_refines (l : List Bytes) : didtypes.ValidateDIDs l = P.ok (Did.validateDIDs l) := by
  unfold didtypes.ValidateDIDs Did.validateDIDs
  simp only [emptyDIDs_refines, P.ok_bind]
  by_cases h : Did.emptyDIDs l = true
  · simp [h]
  · have h' : Did.emptyDIDs l = false := by cases hh : Did.emptyDIDs l <;> simp_all
    simp only [h', Bool.false_eq_true, if_false, Bool.not_false, Bool.true_and]
    rw [forIn_all l Did.validateDID]
    · cases hall : l.all Did.validateDID <;> rfl
    · intro x _
      rw [validateDID_refines]
      cases Did.validateDID x <;> rfl

/-- the loop of `ValidateContexts`, from a set of contexts already seen -/
def ctxLoop : List Bytes → List Bytes → Option Bool × List Bytes
  | [], seen => (none, seen)
  | c :: cs, seen => if seen.contains c || decide (c = []) then (some false, seen) else ctxLoop cs (c :: seen)

theorem ctx_forIn (cs : List Bytes) : ∀ seen : List Bytes,
    (forIn cs ((none : Option Bool), seen) fun context __s =>
      if (!__s.snd.contains context) = true then do
        let t ← didtypes.ValidateContext context
        if (!t) = true then (pure (ForInStep.done (some false, __s.snd)) : P _)
          else pure (ForInStep.yield (none, context :: __s.snd))
      else
        if __s.snd.contains context = true then pure (ForInStep.done (some false, __s.snd))
        else pure (ForInStep.yield (none, context :: __s.snd))) = P.ok (ctxLoop cs seen) := by
  induction cs with
  | nil => intro seen; rfl
  | cons c cs ih =>
    intro seen
    simp only [List.forIn_cons]
    by_cases h1 : seen.contains c = true
    · have e1 : ¬ ((!seen.contains c) = true) := by rw [h1]; decide
      rw [if_neg e1, if_pos h1]
      simp only [pure_bind, ctxLoop, h1, Bool.true_or, if_true]
      rfl
    · have h1' : seen.contains c = false := by cases hh : seen.contains c <;> simp_all
      have e1 : (!seen.contains c) = true := by rw [h1']; rfl
      rw [if_pos e1]
      unfold didtypes.ValidateContext
      by_cases h2 : c = []
      · subst h2
        simp only [ne_eq, not_true_eq_false, decide_false, pure_bind, Bool.not_false, if_true, ctxLoop, h1',
          decide_true, Bool.or_true]
        rfl
      · have e2 : ¬ ((!decide (c ≠ ([] : Bytes))) = true) := by simp [h2]
        simp only [pure_bind]
        rw [if_neg e2]
        simp only [pure_bind, ctxLoop, h1', h2, decide_false, Bool.or_false, Bool.false_eq_true, if_false]
        exact ih (c :: seen)

theorem ctxLoop_fst (cs : List Bytes) : ∀ seen : List Bytes,
    (ctxLoop cs seen).1 = none ↔
      (Did.nodup cs = true ∧ (cs.all (· ≠ [])) = true ∧ ∀ c ∈ cs, seen.contains c = false) := by
  induction cs with
  | nil => intro seen; simp [ctxLoop, Did.nodup]
  | cons c cs ih =>
    intro seen
    unfold ctxLoop
    by_cases h : (seen.contains c || decide (c = [])) = true
    · simp only [h, if_true]
      constructor
      · intro hh; cases hh
      · intro ⟨_, h2, h3⟩
        simp only [Bool.or_eq_true, decide_eq_true_eq] at h
        rcases h with h | h
        · have := h3 c (by simp); rw [this] at h; cases h
        · simp [h] at h2
    · simp only [h, Bool.false_eq_true, if_false]
      rw [ih (c :: seen)]
      simp only [Bool.or_eq_true, decide_eq_true_eq, not_or] at h
      have hc1 : seen.contains c = false := by cases hh : seen.contains c <;> simp_all
      constructor
      · intro ⟨h1, h2, h3⟩
        refine ⟨?_, ?_, ?_⟩
        · simp only [Did.nodup, Bool.and_eq_true, Bool.not_eq_true']
          refine ⟨?_, h1⟩
          cases hcc : cs.contains c with
          | false => rfl
          | true =>
            have := h3 c (List.contains_iff_mem.mp hcc)
            simp at this
        · simp only [List.all_cons, Bool.and_eq_true, decide_eq_true_eq]
          exact ⟨h.2, h2⟩
        · intro x hx
          rcases List.mem_cons.mp hx with rfl | hx
          · exact hc1
          · have := h3 x hx
            simp only [List.contains_cons, Bool.or_eq_false_iff] at this
            exact this.2
      · intro ⟨h1, h2, h3⟩
        simp only [Did.nodup, Bool.and_eq_true, Bool.not_eq_true'] at h1
        simp only [List.all_cons, Bool.and_eq_true, decide_eq_true_eq] at h2
        refine ⟨h1.2, h2.2, ?_⟩
        intro x hx
        simp only [List.contains_cons, Bool.or_eq_false_iff]
        refine ⟨?_, h3 x (List.mem_cons_of_mem _ hx)⟩
        cases hxc : (x == c) with
        | false => rfl
        | true =>
          have : x = c := by simpa using hxc
          subst this
          have := List.contains_iff_mem.mpr hx
          rw [h1.1] at this; cases this

theorem validateContexts_refines (cs : List Bytes) :
    didtypes.ValidateContexts cs = P.ok (Did.validateContexts cs) := by
  unfold didtypes.ValidateContexts Did.validateContexts
  cases cs with
  | nil => rfl
  | cons c0 rest =>
    have hne : ¬ (decide (Go.len (c0 :: rest) = 0) = true) := by
      show ¬ (decide ((((c0 :: rest).length : Nat) : Int) = 0) = true)
      simp only [List.length_cons, decide_eq_true_eq]; omega
    have hidx : Go.idx (c0 :: rest) 0 = P.ok c0 := rfl
    simp only [hne, Bool.not_false, if_true, Bool.false_eq_true, if_false, hidx, P.ok_bind]
    have hctx : ([104, 116, 116, 112, 115, 58, 47, 47, 119, 119, 119, 46, 119, 51, 46, 111, 114, 103, 47, 110, 115, 47,
        100, 105, 100, 47, 118, 49] : Bytes) = Did.contextDIDV1 := rfl
    rw [hctx]
    by_cases h0 : c0 = Did.contextDIDV1
    · simp only [h0, ne_eq, not_true_eq_false, decide_false, Bool.false_eq_true, if_false, decide_true, Bool.true_and]
      have hl := ctx_forIn (Did.contextDIDV1 :: rest) []
      rw [hl]
      simp only [P.ok_bind]
      have hf := ctxLoop_fst (Did.contextDIDV1 :: rest) []
      cases hfst : (ctxLoop (Did.contextDIDV1 :: rest) []).1 with
      | none =>
        have := hf.mp hfst
        simp only [this.1, this.2.1, Bool.and_self]
        rfl
      | some r =>
        have hr : r = false := by
          -- the loop only ever returns `false`
          have : ∀ (cs seen : List Bytes) (r : Bool), (ctxLoop cs seen).1 = some r → r = false := by
            intro cs
            induction cs with
            | nil => intro seen r h; simp [ctxLoop] at h
            | cons c cs ih =>
              intro seen r h
              unfold ctxLoop at h
              split at h
              · simp at h; exact h
              · exact ih _ _ h
          exact this _ _ _ hfst
        subst hr
        have hnot : ¬ (Did.nodup (Did.contextDIDV1 :: rest) = true ∧ ((Did.contextDIDV1 :: rest).all (· ≠ [])) = true) := by
          intro ⟨a, b⟩
          have := hf.mpr ⟨a, b, by intro c _; rfl⟩
          rw [hfst] at this; cases this
        cases hn : Did.nodup (Did.contextDIDV1 :: rest) with
        | false => rfl
        | true =>
          cases ha : (Did.contextDIDV1 :: rest).all (· ≠ []) with
          | false => rfl
          | true => exact absurd ⟨hn, ha⟩ hnot
    · simp [h0]


/-! ## verification relationships -/

theorem hasDedicated_refines (r : didtypes.VerificationRelationship) :
    didtypes.VerificationRelationship.hasDedicatedMethod r =
      P.ok (match toRel r with | .dedicated _ => true | .ref _ => false) := by
  unfold didtypes.VerificationRelationship.hasDedicatedMethod toRel
  obtain ⟨c⟩ := r
  cases c with
  | none => rfl
  | VerificationMethodId v => rfl
  | VerificationMethod v => cases v <;> rfl

theorem relValid_refines (r : didtypes.VerificationRelationship) (did : Bytes) :
    didtypes.VerificationRelationship.Valid r did = P.ok ((toRel r).valid did) := by
  unfold didtypes.VerificationRelationship.Valid
  simp only [hasDedicated_refines, P.ok_bind, bind_pure_comp]
  unfold toRel Did.Rel.valid
  obtain ⟨c⟩ := r
  cases c with
  | none => simp [validateVMID_refines]; rfl
  | VerificationMethodId v => simp [validateVMID_refines]
  | VerificationMethod v =>
    cases v with
    | none => simp [validateVMID_refines]; rfl
    | some vm => simp [Go.deref, vmValid_refines]

/-- the identifier a non-dedicated relationship refers to -/
def refId (r : didtypes.VerificationRelationship) : Bytes :=
  match r.Content with | .VerificationMethodId v => v | _ => default

theorem vmByID_refines (d : didtypes.DIDDocument) (id : Bytes) (hn : ∀ x ∈ d.VerificationMethods, x.isSome = true) :
    didtypes.DIDDocument.VerificationMethodByID d id =
      P.ok (match (d.VerificationMethods.filterMap _root_.id).find? (fun vm => vm.Id = id) with
        | some vm => (vm, true)
        | none => (default, false)) := by
  unfold didtypes.DIDDocument.VerificationMethodByID
  rw [forIn_find d.VerificationMethods (fun x => match x with
    | some vm => if vm.Id = id then some (vm, true) else none
    | none => none)]
  · simp only [P.ok_bind]
    have : ∀ l : List (Option didtypes.VerificationMethod), (∀ x ∈ l, x.isSome = true) →
        l.findSome? (fun x => match x with
          | some vm => if vm.Id = id then some (vm, true) else none
          | none => none) =
        ((l.filterMap _root_.id).find? (fun vm => vm.Id = id)).map (fun vm => (vm, true)) := by
      intro l
      induction l with
      | nil => intro _; rfl
      | cons x l ih =>
        intro hl
        cases x with
        | none => have := hl none (by simp); cases this
        | some vm =>
          simp only [List.findSome?_cons, List.filterMap_cons, _root_.id, List.find?_cons]
          by_cases hv : vm.Id = id
          · simp [hv]
          · simp only [hv, if_false, decide_false]
            exact ih (fun y hy => hl y (List.mem_cons_of_mem _ hy))
    rw [this _ hn]
    cases (d.VerificationMethods.filterMap _root_.id).find? (fun vm => vm.Id = id) <;> rfl
  · intro x hx
    cases x with
    | none => have := hn none hx; cases this
    | some vm =>
      simp only [Go.deref, P.ok_bind]
      by_cases hv : vm.Id = id
      · simp [hv]
      · simp [hv]

theorem find_toVM (l : List didtypes.VerificationMethod) (id : Bytes) :
    ((l.find? (fun vm => vm.Id = id)).map toVM) = Did.vmByID (l.map toVM) id := by
  unfold Did.vmByID
  induction l with
  | nil => rfl
  | cons x l ih =>
    simp only [List.find?_cons, List.map_cons]
    have : (toVM x).id = x.Id := rfl
    rw [this]
    by_cases h : x.Id = id
    · simp [h]
    · simp only [h, decide_false]; exact ih

theorem validRels_refines (d : didtypes.DIDDocument) (rs : List didtypes.VerificationRelationship)
    (hn : ∀ x ∈ d.VerificationMethods, x.isSome = true) :
    didtypes.DIDDocument.validVerificationRelationships d rs = P.ok (Did.validRels (toDoc d) (rs.map toRel)) := by
  unfold didtypes.DIDDocument.validVerificationRelationships Did.validRels
  simp only [List.all_map]
  rw [forIn_all rs (fun r => ((fun r => r.valid (toDoc d).id && (match r with
      | .dedicated _ => true
      | .ref id => (Did.vmByID (toDoc d).vms id).isSome)) ∘ toRel) r)]
  · cases rs.all _ <;> rfl
  · intro r _
    simp only [relValid_refines, hasDedicated_refines, P.ok_bind, Function.comp]
    have hid : (toDoc d).id = d.Id := rfl
    rw [hid]
    have hvms : (toDoc d).vms = (d.VerificationMethods.filterMap _root_.id).map toVM := rfl
    -- the lookup of a referenced id, in model terms
    have hlook : ∀ rid : Bytes, didtypes.DIDDocument.VerificationMethodByID d rid =
        P.ok (match (d.VerificationMethods.filterMap _root_.id).find? (fun vm => vm.Id = rid) with
          | some vm => (vm, true)
          | none => (default, false)) := fun rid => vmByID_refines d rid hn
    have step : ∀ rid : Bytes,
        (do let t_2 ← didtypes.DIDDocument.VerificationMethodByID d rid
            if (!t_2.snd) = true then (pure (ForInStep.done (some false, ())) : P (ForInStep (Option Bool × Unit)))
              else pure (ForInStep.yield (none, ()))) =
        P.ok (if (Did.vmByID (toDoc d).vms rid).isSome = true then ForInStep.yield (none, ())
          else ForInStep.done (some false, ())) := by
      intro rid
      rw [hlook rid, hvms, ← find_toVM]
      cases (d.VerificationMethods.filterMap _root_.id).find? (fun (vm : didtypes.VerificationMethod) => vm.Id = rid) <;> rfl
    have fin : ∀ (rid : Bytes) (b : Bool),
        (if (!b) = true then (pure (ForInStep.done (some false, ())) : P (ForInStep (Option Bool × Unit)))
          else do
            let t_2 ← didtypes.DIDDocument.VerificationMethodByID d rid
            if (!t_2.snd) = true then pure (ForInStep.done (some false, ())) else pure (ForInStep.yield (none, ()))) =
        P.ok (if (b && (Did.vmByID (toDoc d).vms rid).isSome) = true then ForInStep.yield (none, ())
          else ForInStep.done (some false, ())) := by
      intro rid b
      cases b with
      | false => rfl
      | true =>
        simp only [Bool.not_true, Bool.false_eq_true, if_false, Bool.true_and]
        exact step rid
    obtain ⟨c⟩ := r
    cases c with
    | none =>
      simp only [toRel, Bool.not_false, if_true]
      exact fin _ _
    | VerificationMethodId v =>
      simp only [toRel, Bool.not_false, if_true]
      exact fin _ _
    | VerificationMethod v =>
      cases v with
      | none =>
        simp only [toRel, Bool.not_false, if_true]
        exact fin _ _
      | some vm =>
        simp only [toRel, Bool.not_true, Bool.false_eq_true, if_false, Bool.and_true]
        cases (Did.Rel.dedicated (toVM vm)).valid d.Id <;> rfl


/-! ## the document -/

theorem serviceValid_refines (x : didtypes.Service) :
    didtypes.Service.Valid x = P.ok (decide ((toService x).id ≠ []) && decide ((toService x).type ≠ []) &&
      decide ((toService x).endpoint ≠ [])) := rfl

/-- a predicate on the element a pointer points to; a nil pointer does not satisfy it -/
def optP {α : Type} (p : α → Bool) : Option α → Bool
  | some a => p a
  | none => false

theorem all_filterMap_some {α : Type} (l : List (Option α)) (p : α → Bool) (hn : ∀ x ∈ l, x.isSome = true) :
    l.all (optP p) = (l.filterMap id).all p := by
  induction l with
  | nil => rfl
  | cons x l ih =>
    cases x with
    | none => have := hn none (by simp); cases this
    | some a =>
      simp only [List.all_cons, List.filterMap_cons, id, optP]
      rw [ih (fun y hy => hn y (List.mem_cons_of_mem _ hy))]

theorem isEmpty_filterMap_some {α : Type} (l : List (Option α)) (hn : ∀ x ∈ l, x.isSome = true) :
    (l.filterMap id).isEmpty = l.isEmpty := by
  cases l with
  | nil => rfl
  | cons x l =>
    cases x with
    | none => have := hn none (by simp); cases this
    | some a => rfl

theorem deref_some {α : Type} (site : String) (a : α) : Go.deref site (some a) = P.ok a := rfl

/-- split on a Boolean without generalising it (it occurs inside `Decidable` instances) -/
macro "bsplit " e:term : tactic => `(tactic|
  (rcases Bool.eq_false_or_eq_true $e with hb | hb <;>
    simp only [hb, Bool.not_true, Bool.not_false, Bool.false_eq_true, if_true, if_false, Bool.true_and, Bool.false_and,
      Bool.and_true, Bool.and_false, P.ok_bind]))

def svcOk (sv : didtypes.Service) : Bool :=
  decide ((toService sv).id ≠ []) && decide ((toService sv).type ≠ []) && decide ((toService sv).endpoint ≠ [])

theorem vms_loop (d : didtypes.DIDDocument) (hn : NoNil d) :
    (forIn d.VerificationMethods ((none : Option Bool), ()) fun verificationMethod __s => do
        let d_3 ← Go.deref "verificationMethod" verificationMethod
        let t_5 ← didtypes.VerificationMethod.Valid d_3 d.Id
        if (!t_5) = true then (P.ok (ForInStep.done (some false, ())) : P _) else P.ok (ForInStep.yield (none, ()))) =
    P.ok (if (toDoc d).vms.all (fun v => v.valid d.Id) then (none, ()) else (some false, ())) := by
  rw [forIn_all d.VerificationMethods (optP (fun vm => (toVM vm).valid d.Id))]
  · rw [all_filterMap_some _ _ hn.1]
    have : (toDoc d).vms.all (fun v => v.valid d.Id) =
        (d.VerificationMethods.filterMap id).all (fun vm => (toVM vm).valid d.Id) := by
      simp only [toDoc, List.all_map]; rfl
    rw [this]
  · intro x hx
    cases x with
    | none => have := hn.1 none hx; cases this
    | some vm =>
      simp only [deref_some, P.ok_bind, vmValid_refines, optP]
      rcases Bool.eq_false_or_eq_true ((toVM vm).valid d.Id) with h | h <;> simp [h]

theorem services_loop (d : didtypes.DIDDocument) (hn : NoNil d) :
    (forIn d.Services ((none : Option Bool), ()) fun service __s => do
        let d_4 ← Go.deref "service" service
        let t_5 ← didtypes.Service.Valid d_4
        if (!t_5) = true then (P.ok (ForInStep.done (some false, ())) : P _) else P.ok (ForInStep.yield (none, ()))) =
    P.ok (if (toDoc d).services.all (fun s => decide (s.id ≠ []) && decide (s.type ≠ []) && decide (s.endpoint ≠ []))
      then (none, ()) else (some false, ())) := by
  rw [forIn_all d.Services (optP svcOk)]
  · rw [all_filterMap_some _ _ hn.2]
    have : (toDoc d).services.all (fun s => decide (s.id ≠ []) && decide (s.type ≠ []) && decide (s.endpoint ≠ [])) =
        (d.Services.filterMap id).all svcOk := by
      simp only [toDoc, List.all_map]; rfl
    rw [this]
  · intro x hx
    cases x with
    | none => have := hn.2 none hx; cases this
    | some sv =>
      have key : didtypes.Service.Valid sv = P.ok (svcOk sv) := rfl
      simp only [deref_some, P.ok_bind, key, optP]
      rcases Bool.eq_false_or_eq_true (svcOk sv) with h | h <;> simp [h]

/-- the part of `Valid` after the header checks: verification methods, the five relationship lists, services -/
macro "doc_tail " d:term ", " hn:term : tactic => `(tactic|
  (rw [vms_loop $d $hn]
   simp only [P.ok_bind, validRels_refines $d _ ($hn).1, services_loop $d $hn]
   bsplit (List.all (Did.Doc.vms (toDoc $d)) (fun v => v.valid (didtypes.DIDDocument.Id $d)))
   bsplit (Did.validRels (toDoc $d) ((didtypes.DIDDocument.Authentications $d).map toRel))
   bsplit (Did.validRels (toDoc $d) ((didtypes.DIDDocument.AssertionMethods $d).map toRel))
   bsplit (Did.validRels (toDoc $d) ((didtypes.DIDDocument.KeyAgreements $d).map toRel))
   bsplit (Did.validRels (toDoc $d) ((didtypes.DIDDocument.CapabilityInvocations $d).map toRel))
   bsplit (Did.validRels (toDoc $d) ((didtypes.DIDDocument.CapabilityDelegations $d).map toRel))
   bsplit (List.all (Did.Doc.services (toDoc $d)) (fun s => decide (s.id ≠ []) && decide (s.type ≠ []) && decide (s.endpoint ≠ [])))))

/-- **`DIDDocument.Valid()` refines `Doc.valid`**, for every document without nil elements in its repeated
message fields. -/
theorem docValid_refines (d : didtypes.DIDDocument) (hn : NoNil d) :
    didtypes.DIDDocument.Valid d = P.ok ((toDoc d).valid) := by
  unfold didtypes.DIDDocument.Valid Did.Doc.valid Did.Doc.empty
  simp only [didtypes.DIDDocument.Empty, didtypes.EmptyDID, validateDID_refines, emptyDIDs_refines, validateDIDs_refines,
    validateContexts_refines, P.ok_bind, P.pure_eq, bind_pure_comp, pure_bind]
  have hid : (toDoc d).id = d.Id := rfl
  have hvme : (toDoc d).vms.isEmpty = d.VerificationMethods.isEmpty := by
    simp only [toDoc, List.isEmpty_map]; exact isEmpty_filterMap_some _ hn.1
  have haue : (toDoc d).auths.isEmpty = d.Authentications.isEmpty := by simp only [toDoc, List.isEmpty_map]
  have hctl : (toDoc d).controller = d.Controller := rfl
  have hctx : (toDoc d).contexts = d.Contexts := rfl
  have hau : (toDoc d).auths = d.Authentications.map toRel := rfl
  have has : (toDoc d).asserts = d.AssertionMethods.map toRel := rfl
  have hka : (toDoc d).keyAgrs = d.KeyAgreements.map toRel := rfl
  have hci : (toDoc d).capInvs = d.CapabilityInvocations.map toRel := rfl
  have hcd : (toDoc d).capDels = d.CapabilityDelegations.map toRel := rfl
  rw [hvme, haue, hctl, hctx, hau, has, hka, hci, hcd]
  by_cases he : d.Id = []
  · simp [he, hid]
  · simp only [hid, he, decide_false, Bool.false_eq_true, if_false]
    by_cases hh : (!Did.validateDID d.Id || d.VerificationMethods.isEmpty || d.Authentications.isEmpty) = true
    · simp [hh]
    · simp only [hh, if_false]
      cases hC : d.Controller with
      | none =>
        simp only [Option.isNone_none, Bool.not_true, Bool.false_eq_true, if_false]
        cases hX : d.Contexts with
        | none =>
          simp only [Option.isNone_none, Bool.not_true, Bool.false_eq_true, if_false]
          doc_tail d, hn
        | some cs =>
          simp only [Option.isNone_some, Bool.not_false, if_true, deref_some, P.ok_bind]
          bsplit (Did.validateContexts cs)
          doc_tail d, hn
      | some c =>
        simp only [Option.isNone_some, Bool.not_false, if_true, deref_some, P.ok_bind]
        cases c with
        | nil => simp [Go.len]
        | cons c0 cr =>
        have hlen : decide (Go.len (c0 :: cr) = 0) = false := by
          simp only [Go.len, List.length_cons]
          apply decide_eq_false
          omega
        simp only [hlen, List.isEmpty_cons, Bool.false_eq_true, if_false]
        generalize (c0 :: cr) = c
        bsplit (Did.emptyDIDs c)
        · -- every controller entry is empty: nothing more to check about it
          cases hX : d.Contexts with
          | none =>
            simp only [Option.isNone_none, Bool.not_true, Bool.false_eq_true, if_false]
            doc_tail d, hn
          | some cs =>
            simp only [Option.isNone_some, Bool.not_false, if_true, deref_some, P.ok_bind]
            bsplit (Did.validateContexts cs)
            doc_tail d, hn
        · bsplit (Did.validateDIDs c)
          cases hX : d.Contexts with
          | none =>
            simp only [Option.isNone_none, Bool.not_true, Bool.false_eq_true, if_false]
            doc_tail d, hn
          | some cs =>
            simp only [Option.isNone_some, Bool.not_false, if_true, deref_some, P.ok_bind]
            bsplit (Did.validateContexts cs)
            doc_tail d, hn


/-! ## `ValidateBasic` of the three messages -/

/-- the registered error a model validation outcome stands for (`bech32` is the SDK's own decoding error, returned
unwrapped) -/
def verr : Outcome Unit → Go.Err
  | .ok _ => none
  | .err "did/3:invalid-did" => some "did/3"
  | .err "did/4:invalid-doc" => some "did/4"
  | .err "did/6:invalid-sig" => some "did/6"
  | .err "sdk:invalid-address" => some "bech32"
  | _ => some "?"

/-- what the real bech32 decoder guarantees and the validators rely on: a decoded address is never empty -/
def NonEmptyDec (bech : Go.Bech32) : Prop := ∀ s a, bech.dec s = some a → a ≠ []

def toCreate (m : didtypes.MsgCreateDIDRequest) (docBytes : Bytes) : Did.Msg :=
  .create m.Did (m.Document.map toDoc) docBytes m.VerificationMethodId m.Signature m.FromAddress
def toUpdate (m : didtypes.MsgUpdateDIDRequest) (docBytes : Bytes) : Did.Msg :=
  .update m.Did (m.Document.map toDoc) docBytes m.VerificationMethodId m.Signature m.FromAddress
def toDeactivate (m : didtypes.MsgDeactivateDIDRequest) : Did.Msg :=
  .deactivate m.Did m.VerificationMethodId m.Signature m.FromAddress

theorem isEmpty_len (b : Bytes) : (b.isEmpty || decide (Go.len b = 0)) = decide (b = []) := by
  cases b with
  | nil => rfl
  | cons a t =>
    have : ¬ (Go.len (a :: t) = 0) := by
      show ¬ ((((a :: t).length : Nat) : Int) = 0)
      simp only [List.length_cons]; omega
    simp [this]

/-- the tail shared by the three validators: signature present, sender address decodes -/
theorem addr_tail (bech : Go.Bech32) (hne : NonEmptyDec bech) (from_ : Bytes) :
    (if (!((Go.accAddressFromBech32 bech from_).2).isNone) = true then (P.ok (Go.accAddressFromBech32 bech from_).2 : P Go.Err)
      else if ((Go.accAddressFromBech32 bech from_).1).isEmpty = true then P.ok (Go.wrap (some "sdk/7"))
      else P.ok default) =
    P.ok (verr (if (bech.dec from_).isNone then .err "sdk:invalid-address" else .ok ())) := by
  unfold Go.accAddressFromBech32
  cases hd : bech.dec from_ with
  | none => rfl
  | some a =>
    have := hne _ _ hd
    cases a with
    | nil => exact absurd rfl this
    | cons x t => rfl

theorem deactivate_validateBasic_refines (bech : Go.Bech32) (hne : NonEmptyDec bech) (m : didtypes.MsgDeactivateDIDRequest) :
    didtypes.MsgDeactivateDIDRequest.ValidateBasic bech (some m) =
      P.ok (verr (Did.validateBasic bech.dec (toDeactivate m))) := by
  unfold didtypes.MsgDeactivateDIDRequest.ValidateBasic Did.validateBasic toDeactivate
  simp only [deref_some, P.ok_bind, validateDID_refines, bind_pure_comp, P.pure_eq]
  bsplit (Did.validateDID m.Did)
  · rcases Bool.eq_false_or_eq_true (m.Signature.isEmpty) with h | h
    · have : m.Signature = [] := by cases hs : m.Signature <;> simp_all
      simp [h, this]; rfl
    · have hs : m.Signature ≠ [] := by intro hc; rw [hc] at h; cases h
      have hl : ¬ (Go.len m.Signature = 0) := by
        cases hsig : m.Signature with
        | nil => exact absurd hsig hs
        | cons a t => show ¬ ((((a :: t).length : Nat) : Int) = 0); simp only [List.length_cons]; omega
      simp only [h, Bool.not_false, if_true, hl, decide_false, Bool.false_eq_true, if_false, hs]
      exact addr_tail bech hne m.FromAddress
  · rfl

theorem create_validateBasic_refines (bech : Go.Bech32) (hne : NonEmptyDec bech) (m : didtypes.MsgCreateDIDRequest)
    (docBytes : Bytes) (hn : ∀ d, m.Document = some d → NoNil d) :
    didtypes.MsgCreateDIDRequest.ValidateBasic bech (some m) =
      P.ok (verr (Did.validateBasic bech.dec (toCreate m docBytes))) := by
  unfold didtypes.MsgCreateDIDRequest.ValidateBasic Did.validateBasic toCreate
  simp only [deref_some, P.ok_bind, validateDID_refines, bind_pure_comp, P.pure_eq]
  bsplit (Did.validateDID m.Did)
  · cases hdoc : m.Document with
    | none => simp [hdoc]; rfl
    | some d =>
      simp only [Option.isNone_some, Bool.not_false, if_true, deref_some, P.ok_bind, docValid_refines d (hn d hdoc),
        Option.map_some]
      bsplit ((toDoc d).valid)
      · have hid : (toDoc d).id = d.Id := rfl
        rw [hid]
        by_cases hi : d.Id = m.Did
        · simp only [hi, ne_eq, not_true_eq_false, decide_false, Bool.false_eq_true, if_false]
          rcases Bool.eq_false_or_eq_true (m.Signature.isEmpty) with h | h
          · have : m.Signature = [] := by cases hs : m.Signature <;> simp_all
            simp [h, this]; rfl
          · have hs : m.Signature ≠ [] := by intro hc; rw [hc] at h; cases h
            have hl : ¬ (Go.len m.Signature = 0) := by
              cases hsig : m.Signature with
              | nil => exact absurd hsig hs
              | cons a t => show ¬ ((((a :: t).length : Nat) : Int) = 0); simp only [List.length_cons]; omega
            simp only [h, Bool.not_false, if_true, hl, decide_false, Bool.false_eq_true, if_false, hs]
            exact addr_tail bech hne m.FromAddress
        · simp [hi]; rfl
      · rfl
  · rfl

theorem update_validateBasic_refines (bech : Go.Bech32) (hne : NonEmptyDec bech) (m : didtypes.MsgUpdateDIDRequest)
    (docBytes : Bytes) (hn : ∀ d, m.Document = some d → NoNil d) :
    didtypes.MsgUpdateDIDRequest.ValidateBasic bech (some m) =
      P.ok (verr (Did.validateBasic bech.dec (toUpdate m docBytes))) := by
  unfold didtypes.MsgUpdateDIDRequest.ValidateBasic Did.validateBasic toUpdate
  simp only [deref_some, P.ok_bind, validateDID_refines, bind_pure_comp, P.pure_eq]
  bsplit (Did.validateDID m.Did)
  · cases hdoc : m.Document with
    | none => simp [hdoc]; rfl
    | some d =>
      simp only [Option.isNone_some, Bool.not_false, if_true, deref_some, P.ok_bind, docValid_refines d (hn d hdoc),
        Option.map_some]
      bsplit ((toDoc d).valid)
      · have hid : (toDoc d).id = d.Id := rfl
        rw [hid]
        by_cases hi : d.Id = m.Did
        · simp only [hi, ne_eq, not_true_eq_false, decide_false, Bool.false_eq_true, if_false]
          rcases Bool.eq_false_or_eq_true (m.Signature.isEmpty) with h | h
          · have : m.Signature = [] := by cases hs : m.Signature <;> simp_all
            simp [h, this]; rfl
          · have hs : m.Signature ≠ [] := by intro hc; rw [hc] at h; cases h
            have hl : ¬ (Go.len m.Signature = 0) := by
              cases hsig : m.Signature with
              | nil => exact absurd hsig hs
              | cons a t => show ¬ ((((a :: t).length : Nat) : Int) = 0); simp only [List.length_cons]; omega
            simp only [h, Bool.not_false, if_true, hl, decide_false, Bool.false_eq_true, if_false, hs]
            exact addr_tail bech hne m.FromAddress
        · simp [hi]; rfl
      · rfl
  · rfl

end Panacea.Refine.DidTypes
