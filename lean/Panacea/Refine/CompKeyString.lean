import Panacea.Refine.CompKey
import Panacea.Refine.Aol
import Panacea.Properties.C18
/-!
# Refinement: the string form of composite keys (genesis files) on the translated code

`compkey.EncodeToString` / `DecodeFromString` and the `Strings` / `FromStrings` methods of the four AOL key types are
regenerated from `/repo` on every run.  Here: the builder loop of `EncodeToString` is the model's `joinSlash`, the
`strings.Split` of `DecodeFromString` is the model's `splitSlash`, the four `Strings` methods list what
`CompKey.strings` lists, the four `FromStrings` methods accept exactly what `CompKey.fromStrings` accepts, with the same
components — so the C18 theorem about the string form (`string_roundtrip_admitted`) is a statement about the translated
functions: `roundtrip_*`.
-/
namespace Panacea.Refine.CompKeyString
open Panacea Panacea.Gen Panacea.Go Panacea.Refine.Aol

/-! ## the two generic functions -/

def tailJoin (xs : List Bytes) : Bytes := (xs.map fun x => CompKey.slash :: x).flatten

theorem joinSlash_cons (x : Bytes) (xs : List Bytes) : CompKey.joinSlash (x :: xs) = x ++ tailJoin xs := by
  induction xs generalizing x with
  | nil => simp [CompKey.joinSlash, tailJoin]
  | cons y ys ih =>
    rw [CompKey.joinSlash, ih y]
    simp [tailJoin]
    all_goals simp

def enumFrom (s : Nat) : List Bytes → List (Int × Bytes)
  | [] => []
  | x :: xs => ((s : Int), x) :: enumFrom (s + 1) xs

theorem enum_eq (xs : List Bytes) : Go.enum xs = enumFrom 0 xs := by
  have h : ∀ (xs : List Bytes) (s : Nat),
      ((List.range' s xs.length).zip xs).map (fun p => ((p.1 : Int), p.2)) = enumFrom s xs := by
    intro xs
    induction xs with
    | nil => intro s; simp [enumFrom]
    | cons x xs ih => intro s; simp [enumFrom, List.range'_succ, ih (s + 1)]
  unfold Go.enum
  rw [List.range_eq_range']
  exact h xs 0

theorem join_loop (sep : Bytes) (body : Int × Bytes → Bytes → P (ForInStep Bytes))
    (hb : ∀ (i : Int) (v r : Bytes), body (i, v) r = P.ok (.yield ((if i > 0 then r ++ sep else r) ++ v)))
    (xs : List Bytes) : ∀ (s : Nat) (b : Bytes),
    forIn (m := P) (enumFrom s xs) b body =
    P.ok (b ++ (if s = 0 then (match xs with | [] => [] | x :: rest => x ++ (rest.map fun y => sep ++ y).flatten)
                else (xs.map fun y => sep ++ y).flatten)) := by
  induction xs with
  | nil => intro s b; simp [enumFrom]
  | cons x xs ih =>
    intro s b
    simp only [enumFrom, List.forIn_cons, hb, P.ok_bind]
    by_cases hs : s = 0
    · subst hs
      rw [ih 1 _]
      simp
    · have : 0 < s := by omega
      rw [ih (s + 1) _]
      simp [hs, this]

/-- `compkey.EncodeToString`: the strings of the key, joined by the separator `/` -/
theorem encodeToString_run {κ : Type} (I : compkey.CompositeKey κ) (key : κ) (ss : List Bytes)
    (h : I.Strings key = P.ok ss) :
    compkey.EncodeToString I key [47] = P.ok (CompKey.joinSlash ss) := by
  unfold compkey.EncodeToString
  simp only [h, P.ok_bind, enum_eq]
  rw [join_loop [47] _ ?_ ss 0 []]
  · cases ss with
    | nil => simp [CompKey.joinSlash]
    | cons x xs =>
      rw [joinSlash_cons]
      simp [tailJoin, CompKey.slash]
  · intro i v r
    by_cases hi : i > 0 <;> simp [hi]

theorem splitByte_eq (s : Bytes) : Go.splitByte s 47 = CompKey.splitSlash s := by
  have h : ∀ (s acc : Bytes), Go.splitByteAux 47 acc s = CompKey.splitSlashAux acc s := by
    intro s
    induction s with
    | nil => intro acc; rfl
    | cons c cs ih =>
      intro acc
      simp only [Go.splitByteAux, CompKey.splitSlashAux, CompKey.slash, ih]
      rfl
  exact h s []

/-- `compkey.DecodeFromString`: `FromStrings` of the `/`-separated parts -/
theorem decodeFromString_run {κ : Type} (I : compkey.CompositeKey κ) (s : Bytes) (out : κ) :
    compkey.DecodeFromString I s [47] out = I.FromStrings out (CompKey.splitSlash s) := by
  unfold compkey.DecodeFromString
  simp only [Go.splitSep, P.ok_bind, splitByte_eq]
  cases I.FromStrings out (CompKey.splitSlash s) <;> rfl

/-! ## the four key types -/
section kinds
variable (bech : Go.Bech32)

theorem idx0 {α} (a : α) (l : List α) : Go.idx (a :: l) (0 : Int) = P.ok a := rfl
theorem idx1 {α} (a b : α) (l : List α) : Go.idx (a :: b :: l) (1 : Int) = P.ok b := rfl
theorem idx2 {α} (a b c : α) (l : List α) : Go.idx (a :: b :: c :: l) (2 : Int) = P.ok c := rfl

/-! ### owner keys -/
def ownerOf : List Bytes → aoltypes.OwnerCompositeKey
  | [a] => { OwnerAddress := a }
  | _ => default

theorem owner_strings (k : aoltypes.OwnerCompositeKey) :
    (aoltypes.OwnerCompositeKey.asCompositeKey bech).Strings (some k) =
      P.ok (CompKey.strings (toCodec bech) .owner [k.OwnerAddress]) := by
  simp [aoltypes.OwnerCompositeKey.asCompositeKey, Go.deref, aoltypes.OwnerCompositeKey.Strings, CompKey.strings, toCodec]

theorem owner_fromStrings_some (k0 : aoltypes.OwnerCompositeKey) (ss comps : List Bytes)
    (h : CompKey.fromStrings (toCodec bech) .owner ss = some comps) :
    (aoltypes.OwnerCompositeKey.asCompositeKey bech).FromStrings (some k0) ss = P.ok (none, some (ownerOf comps)) := by
  match ss, h with
  | [o], h =>
    simp only [CompKey.fromStrings, toCodec, Option.map_eq_some_iff] at h
    obtain ⟨a, ha, rfl⟩ := h
    simp [aoltypes.OwnerCompositeKey.asCompositeKey, aoltypes.OwnerCompositeKey.FromStrings, Go.len, idx0,
      Go.accAddressFromBech32, ha, Go.deref, ownerOf]
    rfl

theorem owner_fromStrings_none (k0 : aoltypes.OwnerCompositeKey) (ss : List Bytes)
    (h : CompKey.fromStrings (toCodec bech) .owner ss = none) :
    ∃ e, (aoltypes.OwnerCompositeKey.asCompositeKey bech).FromStrings (some k0) ss = P.ok (some e, some k0) := by
  match ss, h with
  | [], _ => exact ⟨_, rfl⟩
  | [o], h =>
    simp only [CompKey.fromStrings, toCodec, Option.map_eq_none_iff] at h
    refine ⟨"fmt:invalid account address string: %w", ?_⟩
    simp [aoltypes.OwnerCompositeKey.asCompositeKey, aoltypes.OwnerCompositeKey.FromStrings, Go.len, idx0,
      Go.accAddressFromBech32, h]
  | _ :: _ :: l, _ =>
    refine ⟨"fmt:invalid input length", ?_⟩
    simp [aoltypes.OwnerCompositeKey.asCompositeKey, aoltypes.OwnerCompositeKey.FromStrings, Go.len]
    intro hh; exfalso; have := of_decide_eq_false hh; omega

/-! ### topic keys -/
def topicOf : List Bytes → aoltypes.TopicCompositeKey
  | [a, t] => { OwnerAddress := a, TopicName := t }
  | _ => default

theorem topic_strings (k : aoltypes.TopicCompositeKey) :
    (aoltypes.TopicCompositeKey.asCompositeKey bech).Strings (some k) =
      P.ok (CompKey.strings (toCodec bech) .topic [k.OwnerAddress, k.TopicName]) := by
  simp [aoltypes.TopicCompositeKey.asCompositeKey, Go.deref, aoltypes.TopicCompositeKey.Strings, CompKey.strings, toCodec]

theorem topic_fromStrings_some (k0 : aoltypes.TopicCompositeKey) (ss comps : List Bytes)
    (h : CompKey.fromStrings (toCodec bech) .topic ss = some comps) :
    (aoltypes.TopicCompositeKey.asCompositeKey bech).FromStrings (some k0) ss = P.ok (none, some (topicOf comps)) := by
  match ss, h with
  | [o, t], h =>
    simp only [CompKey.fromStrings, toCodec, Option.map_eq_some_iff] at h
    obtain ⟨a, ha, rfl⟩ := h
    simp [aoltypes.TopicCompositeKey.asCompositeKey, aoltypes.TopicCompositeKey.FromStrings, Go.len, idx0, idx1,
      Go.accAddressFromBech32, ha, Go.deref, topicOf]
    rfl

theorem topic_fromStrings_none (k0 : aoltypes.TopicCompositeKey) (ss : List Bytes)
    (h : CompKey.fromStrings (toCodec bech) .topic ss = none) :
    ∃ e, (aoltypes.TopicCompositeKey.asCompositeKey bech).FromStrings (some k0) ss = P.ok (some e, some k0) := by
  match ss, h with
  | [], _ => exact ⟨_, rfl⟩
  | [_], _ => exact ⟨_, rfl⟩
  | [o, t], h =>
    simp only [CompKey.fromStrings, toCodec, Option.map_eq_none_iff] at h
    refine ⟨"fmt:invalid account address string: %w", ?_⟩
    simp [aoltypes.TopicCompositeKey.asCompositeKey, aoltypes.TopicCompositeKey.FromStrings, Go.len, idx0,
      Go.accAddressFromBech32, h]
  | _ :: _ :: _ :: l, _ =>
    refine ⟨"fmt:invalid input length", ?_⟩
    simp [aoltypes.TopicCompositeKey.asCompositeKey, aoltypes.TopicCompositeKey.FromStrings, Go.len]
    intro hh; exfalso; have := of_decide_eq_false hh; omega

/-! ### writer keys -/
def writerOf : List Bytes → aoltypes.WriterCompositeKey
  | [a, t, w] => { OwnerAddress := a, TopicName := t, WriterAddress := w }
  | _ => default

theorem writer_strings (k : aoltypes.WriterCompositeKey) :
    (aoltypes.WriterCompositeKey.asCompositeKey bech).Strings (some k) =
      P.ok (CompKey.strings (toCodec bech) .writer [k.OwnerAddress, k.TopicName, k.WriterAddress]) := by
  simp [aoltypes.WriterCompositeKey.asCompositeKey, Go.deref, aoltypes.WriterCompositeKey.Strings, CompKey.strings, toCodec]

theorem writer_fromStrings_some (k0 : aoltypes.WriterCompositeKey) (ss comps : List Bytes)
    (h : CompKey.fromStrings (toCodec bech) .writer ss = some comps) :
    (aoltypes.WriterCompositeKey.asCompositeKey bech).FromStrings (some k0) ss = P.ok (none, some (writerOf comps)) := by
  match ss, h with
  | [o, t, w], h =>
    simp only [CompKey.fromStrings, toCodec] at h
    cases ho : bech.dec o with
    | none => simp [ho] at h
    | some a =>
      cases hw : bech.dec w with
      | none => simp [ho, hw] at h
      | some b =>
        simp only [ho, hw, Option.some.injEq] at h
        subst h
        simp [aoltypes.WriterCompositeKey.asCompositeKey, aoltypes.WriterCompositeKey.FromStrings, Go.len, idx0, idx1, idx2,
          Go.accAddressFromBech32, ho, hw, Go.deref, writerOf]
        rfl

theorem writer_fromStrings_none (k0 : aoltypes.WriterCompositeKey) (ss : List Bytes)
    (h : CompKey.fromStrings (toCodec bech) .writer ss = none) :
    ∃ e, (aoltypes.WriterCompositeKey.asCompositeKey bech).FromStrings (some k0) ss = P.ok (some e, some k0) := by
  match ss, h with
  | [], _ => exact ⟨_, rfl⟩
  | [_], _ => exact ⟨_, rfl⟩
  | [_, _], _ => exact ⟨_, rfl⟩
  | [o, t, w], h =>
    simp only [CompKey.fromStrings, toCodec] at h
    refine ⟨"fmt:invalid account address string: %w", ?_⟩
    cases ho : bech.dec o with
    | none =>
      simp [aoltypes.WriterCompositeKey.asCompositeKey, aoltypes.WriterCompositeKey.FromStrings, Go.len, idx0,
        Go.accAddressFromBech32, ho]
    | some a =>
      cases hw : bech.dec w with
      | none =>
        simp [aoltypes.WriterCompositeKey.asCompositeKey, aoltypes.WriterCompositeKey.FromStrings, Go.len, idx0, idx2,
          Go.accAddressFromBech32, ho, hw]
      | some b => simp [ho, hw] at h
  | _ :: _ :: _ :: _ :: l, _ =>
    refine ⟨"fmt:invalid input length", ?_⟩
    simp [aoltypes.WriterCompositeKey.asCompositeKey, aoltypes.WriterCompositeKey.FromStrings, Go.len]
    intro hh; exfalso; have := of_decide_eq_false hh; omega

/-! ### record keys -/
def recordOf : List Bytes → aoltypes.RecordCompositeKey
  | [a, t, n] => { OwnerAddress := a, TopicName := t, Offset := (fromBe64 n).getD 0 }
  | _ => default

theorem record_strings (k : aoltypes.RecordCompositeKey) (hk : k.Offset < 2 ^ 64) :
    (aoltypes.RecordCompositeKey.asCompositeKey bech).Strings (some k) =
      P.ok (CompKey.strings (toCodec bech) .record [k.OwnerAddress, k.TopicName, be64 k.Offset]) := by
  simp [aoltypes.RecordCompositeKey.asCompositeKey, Go.deref, aoltypes.RecordCompositeKey.Strings, CompKey.strings, toCodec,
    Panacea.fromBe64_be64 k.Offset (by have := hk; omega)]

theorem parseUint64_lt (s : Bytes) (n : Nat) (h : CompKey.parseUint64 s = some n) : n < 2 ^ 64 := by
  unfold CompKey.parseUint64 at h
  split at h
  · simp at h
  · split at h
    · split at h
      · simp only [Option.some.injEq] at h; omega
      · simp at h
    · simp at h

theorem record_fromStrings_some (k0 : aoltypes.RecordCompositeKey) (ss comps : List Bytes)
    (h : CompKey.fromStrings (toCodec bech) .record ss = some comps) :
    (aoltypes.RecordCompositeKey.asCompositeKey bech).FromStrings (some k0) ss = P.ok (none, some (recordOf comps)) := by
  match ss, h with
  | [o, t, n], h =>
    simp only [CompKey.fromStrings, toCodec] at h
    cases ho : bech.dec o with
    | none => simp [ho] at h
    | some a =>
      cases hn : CompKey.parseUint64 n with
      | none => simp [ho, hn] at h
      | some off =>
        simp only [ho, hn, Option.some.injEq] at h
        subst h
        have hlt := parseUint64_lt n off hn
        simp [aoltypes.RecordCompositeKey.asCompositeKey, aoltypes.RecordCompositeKey.FromStrings, Go.len, idx0, idx1, idx2,
          Go.accAddressFromBech32, Go.parseUint64, ho, hn, Go.deref, recordOf,
          Panacea.fromBe64_be64 off (by have := hlt; omega)]
        rfl

theorem record_fromStrings_none (k0 : aoltypes.RecordCompositeKey) (ss : List Bytes)
    (h : CompKey.fromStrings (toCodec bech) .record ss = none) :
    ∃ e, (aoltypes.RecordCompositeKey.asCompositeKey bech).FromStrings (some k0) ss = P.ok (some e, some k0) := by
  match ss, h with
  | [], _ => exact ⟨_, rfl⟩
  | [_], _ => exact ⟨_, rfl⟩
  | [_, _], _ => exact ⟨_, rfl⟩
  | [o, t, n], h =>
    simp only [CompKey.fromStrings, toCodec] at h
    cases ho : bech.dec o with
    | none =>
      refine ⟨"fmt:invalid account address string: %w", ?_⟩
      simp [aoltypes.RecordCompositeKey.asCompositeKey, aoltypes.RecordCompositeKey.FromStrings, Go.len, idx0,
        Go.accAddressFromBech32, ho]
    | some a =>
      cases hn : CompKey.parseUint64 n with
      | none =>
        refine ⟨"fmt:invalid offset string: %w", ?_⟩
        simp [aoltypes.RecordCompositeKey.asCompositeKey, aoltypes.RecordCompositeKey.FromStrings, Go.len, idx0, idx2,
          Go.accAddressFromBech32, Go.parseUint64, ho, hn]
      | some off => simp [ho, hn] at h
  | _ :: _ :: _ :: _ :: l, _ =>
    refine ⟨"fmt:invalid input length", ?_⟩
    simp [aoltypes.RecordCompositeKey.asCompositeKey, aoltypes.RecordCompositeKey.FromStrings, Go.len]
    intro hh; exfalso; have := of_decide_eq_false hh; omega

/-! ### shapes of decoded component lists -/
theorem owner_shape (ss comps : List Bytes) (h : CompKey.fromStrings (toCodec bech) .owner ss = some comps) :
    ∃ a, comps = [a] := by
  match ss, h with
  | [o], h =>
    simp only [CompKey.fromStrings, Option.map_eq_some_iff] at h
    obtain ⟨a, _, rfl⟩ := h; exact ⟨a, rfl⟩

theorem topic_shape (ss comps : List Bytes) (h : CompKey.fromStrings (toCodec bech) .topic ss = some comps) :
    ∃ a t, comps = [a, t] := by
  match ss, h with
  | [o, t], h =>
    simp only [CompKey.fromStrings, Option.map_eq_some_iff] at h
    obtain ⟨a, _, rfl⟩ := h; exact ⟨a, t, rfl⟩

theorem writer_shape (ss comps : List Bytes) (h : CompKey.fromStrings (toCodec bech) .writer ss = some comps) :
    ∃ a t x, comps = [a, t, x] := by
  match ss, h with
  | [o, t, w], h =>
    simp only [CompKey.fromStrings, toCodec] at h
    cases ho : bech.dec o with
    | none => simp [ho] at h
    | some a =>
      cases hw : bech.dec w with
      | none => simp [ho, hw] at h
      | some b => simp only [ho, hw, Option.some.injEq] at h; exact ⟨a, t, b, h.symm⟩

theorem record_shape (ss comps : List Bytes) (h : CompKey.fromStrings (toCodec bech) .record ss = some comps) :
    ∃ a t n, n < 2 ^ 64 ∧ comps = [a, t, be64 n] := by
  match ss, h with
  | [o, t, n], h =>
    simp only [CompKey.fromStrings, toCodec] at h
    cases ho : bech.dec o with
    | none => simp [ho] at h
    | some a =>
      cases hn : CompKey.parseUint64 n with
      | none => simp [ho, hn] at h
      | some off => simp only [ho, hn, Option.some.injEq] at h; exact ⟨a, t, off, parseUint64_lt n off hn, h.symm⟩

/-! ## the round trip of C18, on the translated functions -/

theorem roundtrip_generic {κ : Type} (I : compkey.CompositeKey κ) (key out res : κ) (c : CompKey.AddrCodec)
    (hc : c.Lawful) (kind : CompKey.Kind) (comps : List Bytes) (hadm : C18.Admitted kind comps)
    (hS : I.Strings key = P.ok (CompKey.strings c kind comps))
    (hF : ∀ ss, CompKey.fromStrings c kind ss = some comps → I.FromStrings out ss = P.ok (none, res)) :
    ∃ s, compkey.EncodeToString I key [47] = P.ok s ∧ compkey.DecodeFromString I s [47] out = P.ok (none, res) := by
  refine ⟨CompKey.encodeToString c kind comps, encodeToString_run I key _ hS, ?_⟩
  rw [decodeFromString_run]
  exact hF _ (C18.string_roundtrip_admitted c hc kind comps hadm)

/-- **C18, string form, owner keys**: what `EncodeToString` writes for an admitted key, `DecodeFromString` reads back
as that key (whatever the receiving struct held before), on the code as translated from `/repo`. -/
theorem roundtrip_owner (hc : (toCodec bech).Lawful) (k k0 : aoltypes.OwnerCompositeKey)
    (hadm : C18.Admitted .owner [k.OwnerAddress]) :
    ∃ s, compkey.EncodeToString (aoltypes.OwnerCompositeKey.asCompositeKey bech) (some k) [47] = P.ok s ∧
      compkey.DecodeFromString (aoltypes.OwnerCompositeKey.asCompositeKey bech) s [47] (some k0) = P.ok (none, some k) :=
  roundtrip_generic _ _ _ _ _ hc .owner _ hadm (owner_strings bech k)
    (fun ss h => owner_fromStrings_some bech k0 ss _ h)

theorem roundtrip_topic (hc : (toCodec bech).Lawful) (k k0 : aoltypes.TopicCompositeKey)
    (hadm : C18.Admitted .topic [k.OwnerAddress, k.TopicName]) :
    ∃ s, compkey.EncodeToString (aoltypes.TopicCompositeKey.asCompositeKey bech) (some k) [47] = P.ok s ∧
      compkey.DecodeFromString (aoltypes.TopicCompositeKey.asCompositeKey bech) s [47] (some k0) = P.ok (none, some k) :=
  roundtrip_generic _ _ _ _ _ hc .topic _ hadm (topic_strings bech k)
    (fun ss h => topic_fromStrings_some bech k0 ss _ h)

theorem roundtrip_writer (hc : (toCodec bech).Lawful) (k k0 : aoltypes.WriterCompositeKey)
    (hadm : C18.Admitted .writer [k.OwnerAddress, k.TopicName, k.WriterAddress]) :
    ∃ s, compkey.EncodeToString (aoltypes.WriterCompositeKey.asCompositeKey bech) (some k) [47] = P.ok s ∧
      compkey.DecodeFromString (aoltypes.WriterCompositeKey.asCompositeKey bech) s [47] (some k0) = P.ok (none, some k) :=
  roundtrip_generic _ _ _ _ _ hc .writer _ hadm (writer_strings bech k)
    (fun ss h => writer_fromStrings_some bech k0 ss _ h)

theorem roundtrip_record (hc : (toCodec bech).Lawful) (k k0 : aoltypes.RecordCompositeKey) (hk : k.Offset < 2 ^ 64)
    (hadm : C18.Admitted .record [k.OwnerAddress, k.TopicName, be64 k.Offset]) :
    ∃ s, compkey.EncodeToString (aoltypes.RecordCompositeKey.asCompositeKey bech) (some k) [47] = P.ok s ∧
      compkey.DecodeFromString (aoltypes.RecordCompositeKey.asCompositeKey bech) s [47] (some k0) = P.ok (none, some k) := by
  have hr : recordOf [k.OwnerAddress, k.TopicName, be64 k.Offset] = k := by
    simp [recordOf, Panacea.fromBe64_be64 k.Offset (by have := hk; omega)]
  have := roundtrip_generic (aoltypes.RecordCompositeKey.asCompositeKey bech) (some k) (some k0)
    (some (recordOf [k.OwnerAddress, k.TopicName, be64 k.Offset])) _ hc .record _ hadm (record_strings bech k hk)
    (fun ss h => record_fromStrings_some bech k0 ss _ h)
  rwa [hr] at this

/-- the premises are satisfiable: a 20-byte owner, a topic name without `/`, offset 7 -/
example : C18.Admitted .record [List.replicate 20 1, [116], be64 7] := by
  refine ⟨by decide, by decide, 7, by decide, rfl⟩

end kinds
end Panacea.Refine.CompKeyString
