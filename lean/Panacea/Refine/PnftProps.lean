import Panacea.Refine.Pnft
import Panacea.Properties.C06
import Panacea.Properties.C12
/-!
# C06 and C12 for the translated `x/pnft` code

The property theorems of `Properties/C06.lean` and `Properties/C12.lean` are about the hand-written model.  Composed
with the simulation of `Refine/Pnft.lean` they become statements about `Gen.pnftkeeper.msgServer.*`, the functions
regenerated from `/repo/x/pnft` on every run, over the raw `x/nft` world.
-/
namespace Panacea.Refine.Pnft
open Panacea Panacea.Gen Panacea.Go Panacea.Validate
section
variable [Go.Proto pnfttypes.DenomMeta] [Go.Proto pnfttypes.PNFTMeta]
variable [Go.LawfulProto pnfttypes.DenomMeta] [Go.LawfulProto pnfttypes.PNFTMeta]
set_option linter.unusedSectionVars false

/-- an accepted request of the translated server is an accepted request of the model, to the same state -/
theorem simP_accept {ρ : Type} {code : Go.Err} {w w' : Nft.World} {v : ρ}
    {g : P (Option ρ × Go.Err × Nft.World)} {o : Outcome Pnft.State} (h : SimP code w g o)
    (hg : g = P.ok (some v, none, w')) : o = .ok (abs w') ∧ WF w' := by
  subst hg
  cases o with
  | ok s' =>
    obtain ⟨v2, w2, he, ha, hw⟩ := h
    cases he
    exact ⟨by rw [ha], hw⟩
  | err c =>
    have he : P.ok (some v, none, w') = P.ok (none, Go.wrap code, w) := h
    cases he
  | panic p =>
    obtain ⟨s, he⟩ := h
    cases he

/-- **C06 on the translated code, denoms**: `UpdateDenom`, `DeleteDenom`, `TransferDenom` and `MintPNFT` of the
translated message server return a nil error only when the signer named in the message is the owner recorded
in the stored class at that moment. -/
theorem translated_denom_ops_require_current_owner (bech : Go.Bech32) (w w' : Nft.World) (hwf : WF w) :
    (∀ (m : pnfttypes.MsgUpdateDenomRequest) v,
      pnftkeeper.msgServer.UpdateDenom bech (some m) w = P.ok (some v, none, w') →
      ∃ c, w.classes.get m.Id = some c ∧ m.Updater = (metaD c).Owner) ∧
    (∀ (m : pnfttypes.MsgDeleteDenomRequest) v,
      pnftkeeper.msgServer.DeleteDenom bech (some m) w = P.ok (some v, none, w') →
      ∃ c, w.classes.get m.Id = some c ∧ m.Remover = (metaD c).Owner) ∧
    (∀ (m : pnfttypes.MsgTransferDenomRequest) v,
      pnftkeeper.msgServer.TransferDenom bech (some m) w = P.ok (some v, none, w') →
      ∃ c, w.classes.get m.Id = some c ∧ m.Sender = (metaD c).Owner) ∧
    (∀ (m : pnfttypes.MsgMintPNFTRequest) v,
      pnftkeeper.msgServer.MintPNFT bech (some m) w = P.ok (some v, none, w') →
      ∃ c, w.classes.get m.DenomId = some c ∧ m.Creator = (metaD c).Owner) := by
  have lift : ∀ (id who : Bytes) (d : Pnft.Class), (abs w).classes.get id = some d → who = d.owner →
      ∃ c, w.classes.get id = some c ∧ who = (metaD c).Owner := by
    intro id who d hd hw
    rw [getClass_abs] at hd
    cases hc : w.classes.get id with
    | none => rw [hc] at hd; cases hd
    | some c => rw [hc] at hd; cases hd; exact ⟨c, rfl, hw⟩
  refine ⟨?_, ?_, ?_, ?_⟩
  · intro m v hg
    obtain ⟨ho, _⟩ := simP_accept (updateDenom_refines bech 0 w hwf m) hg
    obtain ⟨d, hd, hw⟩ := (C06.denom_ops_require_current_owner (codec bech) 0 (abs w) (abs w')).1 _ _ _ _ _ _ _ _ ho
    exact lift _ _ d hd hw
  · intro m v hg
    obtain ⟨ho, _⟩ := simP_accept (deleteDenom_refines bech 0 w hwf m) hg
    obtain ⟨d, hd, hw⟩ := (C06.denom_ops_require_current_owner (codec bech) 0 (abs w) (abs w')).2.1 _ _ ho
    exact lift _ _ d hd hw
  · intro m v hg
    obtain ⟨ho, _⟩ := simP_accept (transferDenom_refines bech 0 w hwf m) hg
    obtain ⟨d, hd, hw⟩ := (C06.denom_ops_require_current_owner (codec bech) 0 (abs w) (abs w')).2.2.1 _ _ _ ho
    exact lift _ _ d hd hw
  · intro m v hg
    obtain ⟨ho, _⟩ := simP_accept (mint_refines bech w hwf m) hg
    obtain ⟨d, hd, hw⟩ :=
      (C06.denom_ops_require_current_owner (codec bech) w.blockTimeNano (abs w) (abs w')).2.2.2 _ _ _ _ _ _ _ _ ho
    exact lift _ _ d hd hw

/-- **C06 on the translated code, tokens**: `TransferPNFT` and `BurnPNFT` return a nil error only for an existing
token whose owner entry, rendered as text, is the signer named in the message. -/
theorem translated_token_ops_require_current_owner (bech : Go.Bech32) (he : EncNil bech) (w w' : Nft.World)
    (hwf : WF w) :
    (∀ (m : pnfttypes.MsgTransferPNFTRequest) v,
      pnftkeeper.msgServer.TransferPNFT bech (some m) w = P.ok (some v, none, w') →
      (w.nfts.get (Pnft.nftKey m.DenomId m.Id)).isSome = true ∧ m.Sender = bech.enc (Nft.getOwner w m.DenomId m.Id)) ∧
    (∀ (m : pnfttypes.MsgBurnPNFTRequest) v,
      pnftkeeper.msgServer.BurnPNFT bech (some m) w = P.ok (some v, none, w') →
      (w.nfts.get (Pnft.nftKey m.DenomId m.Id)).isSome = true ∧ m.Burner = bech.enc (Nft.getOwner w m.DenomId m.Id)) := by
  have lift : ∀ (d i who : Bytes), ((abs w).nfts.get (Pnft.nftKey d i)).isSome = true →
      who = Pnft.ownerText (codec bech) (Pnft.getOwner (abs w) d i) →
      (w.nfts.get (Pnft.nftKey d i)).isSome = true ∧ who = bech.enc (Nft.getOwner w d i) := by
    intro d i who h1 h2
    rw [getNft_abs, Option.isSome_map] at h1
    rw [ownerText_eq bech he] at h2
    exact ⟨h1, h2⟩
  refine ⟨?_, ?_⟩
  · intro m v hg
    obtain ⟨ho, _⟩ := simP_accept (transfer_refines bech he 0 w hwf m) hg
    obtain ⟨h1, h2⟩ := (C06.token_ops_require_current_owner (codec bech) 0 (abs w) (abs w')).1 _ _ _ _ ho
    exact lift _ _ _ h1 h2
  · intro m v hg
    obtain ⟨ho, _⟩ := simP_accept (burn_refines bech he 0 w hwf m) hg
    obtain ⟨h1, h2⟩ := (C06.token_ops_require_current_owner (codec bech) 0 (abs w) (abs w')).2 _ _ _ ho
    exact lift _ _ _ h1 h2

/-- **C12 on the translated code**: after any history (shorter than 2⁶⁴) of the translated message server from the
empty store, the state the raw world stands for satisfies the counting invariant (every token under its own
key, in an existing denom, supply = number of tokens of the denom) and the owner-index invariant (one owner
entry and one index entry per token). -/
theorem translated_history_invariants (bech : Go.Bech32) (he : EncNil bech) (hd : Pnft.DecShort (codec bech))
    (ops : List (Int × Req)) (hlen : ops.length < 2 ^ 64) :
    Pnft.PInv (abs (ops.foldl (goStep bech) {})) ∧ Pnft.OInv (abs (ops.foldl (goStep bech) {})) ∧
      WF (ops.foldl (goStep bech) {}) := by
  obtain ⟨ha, hw⟩ := goRun_abs bech he ops {} wf_empty
  rw [ha]
  have hb : Pnft.Below (abs ({} : Nft.World)) 0 := by
    show (abs ({} : Nft.World)).nfts.length ≤ 0
    exact Nat.le_refl 0
  have := C12.invariants_reachable (codec bech) hd (abs {}) 0 (ops.map fun o => (o.1, o.2.toMsg))
    C12.pinv_genesis C12.oinv_genesis hb (by simpa using hlen)
  exact ⟨this.1, this.2, hw⟩

end
end Panacea.Refine.Pnft
