import Panacea.Refine.DidGenesis
/-!
# The DID genesis round trip for every reachable world

`Refine/DidGenesis.genesis_roundtrip` asks for a well-formed world (`WFD`).  Well-formedness is an invariant of the
translated message server (`createDID_refines`, `updateDID_refines`, `deactivateDID_refines`), so the round trip holds for
every world reached from the empty store by any list of DID messages that carry a document without nil entries (what
protobuf decoding produces; stateless validation refuses the others).
-/
namespace Panacea.Refine.DidKeeper
open Panacea Panacea.Gen Panacea.Go Panacea.Refine.DidTypes
open Panacea.Refine.Aol (accepted)

section
variable [Go.Proto didtypes.DIDDocument]
variable [Go.Proto didtypes.DIDDocumentWithSeq] [Go.LawfulProto didtypes.DIDDocumentWithSeq]
set_option linter.unusedSectionVars false

/-- a DID message for the translated server -/
inductive DMsg where
  | create (m : didtypes.MsgCreateDIDRequest)
  | update (m : didtypes.MsgUpdateDIDRequest)
  | deactivate (m : didtypes.MsgDeactivateDIDRequest)

/-- the message carries a document, none of whose repeated fields holds a nil entry -/
def DMsg.WellFormed : DMsg → Prop
  | .create m => ∃ d, m.Document = some d ∧ NoNil d
  | .update m => ∃ d, m.Document = some d ∧ NoNil d
  | .deactivate _ => True

/-- one message delivered by baseapp: the handler's writes are kept only when it returns a response and no error -/
def dStep (crypto : Go.SigScheme) (w : World) (op : DMsg) : World :=
  (match op with
    | .create m => accepted (didkeeper.msgServer.CreateDID crypto (some m) w)
    | .update m => accepted (didkeeper.msgServer.UpdateDID crypto (some m) w)
    | .deactivate m => accepted (didkeeper.msgServer.DeactivateDID crypto (some m) w)).getD w

def dRun (crypto : Go.SigScheme) (w : World) (ops : List DMsg) : World := ops.foldl (dStep crypto) w

theorem simD_wfd {ρ : Type} (w : World) (g : P (Option ρ × Go.Err × World)) (m : Outcome Did.State) (hwf : WFD w)
    (h : SimD w g m) : WFD ((accepted g).getD w) := by
  unfold SimD at h
  cases m with
  | ok s' =>
    obtain ⟨v, w', hg, _, hw⟩ := h
    subst hg; exact hw
  | err c => simp only at h; subst h; exact hwf
  | panic s => obtain ⟨s', hg⟩ := h; subst hg; exact hwf

theorem dStep_wfd (crypto : Go.SigScheme) (cf : CodecFacts) (w : World) (hwf : WFD w) (op : DMsg) (hop : op.WellFormed) :
    WFD (dStep crypto w op) := by
  unfold dStep
  cases op with
  | create m =>
    obtain ⟨d, hd, hn⟩ := hop
    exact simD_wfd _ _ _ hwf (createDID_refines crypto cf w hwf m d hd hn)
  | update m =>
    obtain ⟨d, hd, hn⟩ := hop
    exact simD_wfd _ _ _ hwf (updateDID_refines crypto cf w hwf m d hd hn)
  | deactivate m => exact simD_wfd _ _ _ hwf (deactivateDID_refines crypto cf w hwf m)

theorem dRun_wfd (crypto : Go.SigScheme) (cf : CodecFacts) (ops : List DMsg) (hops : ∀ op ∈ ops, op.WellFormed) :
    ∀ w, WFD w → WFD (dRun crypto w ops) := by
  induction ops with
  | nil => intro w h; exact h
  | cons op ops ih =>
    intro w h
    unfold dRun
    simp only [List.foldl_cons]
    exact ih (fun o ho => hops o (List.mem_cons_of_mem _ ho)) _ (dStep_wfd crypto cf w h op (hops op (by simp)))

theorem get_empty (k : Bytes) : (({} : World).store "did").get k = none := rfl

theorem wfd_empty : WFD ({} : World) := by
  refine ⟨?_, ?_, ?_, ?_⟩
  · show Map.Sorted ([] : Map Bytes); simp [Map.Sorted, Map.keys]
  · intro k v h; rw [get_empty] at h; cases h
  · intro k v h; rw [get_empty] at h; cases h
  · intro k v x d h; rw [get_empty] at h; cases h

/-- **C08 for x/did, for every reachable world**: the registry reached from the empty store by any list of well-formed
DID messages is exported, and the import of that export into an empty store stands for the same registry — every
document, sequence and tombstone. -/
theorem reachable_genesis_roundtrip (crypto : Go.SigScheme) (cf : CodecFacts) (ops : List DMsg)
    (hops : ∀ op ∈ ops, op.WellFormed) :
    ∃ g w', did.ExportGenesis (dRun crypto ({} : World) ops) = P.ok (some g, dRun crypto ({} : World) ops) ∧
      did.InitGenesis g ({} : World) = P.ok w' ∧ absD w' = absD (dRun crypto ({} : World) ops) :=
  genesis_roundtrip _ (dRun_wfd crypto cf ops hops _ wfd_empty)

end
end Panacea.Refine.DidKeeper
