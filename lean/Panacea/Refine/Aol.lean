import Panacea.Refine.CompKey
import Panacea.Model.Aol
import Panacea.Lemmas.RawStore
/-!
# Refinement: the translated `x/aol` keeper and message server compute the hand-written model

`Gen.aolkeeper.*` / `Gen.aoltypes.*` are regenerated from `/repo/x/aol` on every run.  They work on the
module's single raw KV store (`World.store "aol"`, keys `prefix ++ compkey`, values protobuf bytes).  The
hand-written model `Panacea.Aol` keeps four typed tables.  `abs` reads a raw store as those tables; the
theorems say that every message handler of the translated code, run on a well-formed world `w`, does
exactly what `Aol.handle` does on `abs w` — same acceptance, same error, same response, same new state,
and it panics exactly where the model panics.  The protobuf codec is a parameter with two laws
(`LawfulProto`); bech32 is a parameter without laws.
-/
namespace Panacea.Refine.Aol
open Panacea Panacea.Gen Panacea.Go Panacea.Refine.CompKey


def toOwner (o : aoltypes.Owner) : Aol.Owner := { totalTopics := o.TotalTopics }
def toTopic (t : aoltypes.Topic) : Aol.Topic :=
  { description := t.Description, totalRecords := t.TotalRecords, totalWriters := t.TotalWriters }
def toWriter (x : aoltypes.Writer) : Aol.Writer :=
  { moniker := x.Moniker, description := x.Description, nanoTimestamp := x.NanoTimestamp }
def toRecord (r : aoltypes.Record) : Aol.Record :=
  { key := r.Key, value := r.Value, nanoTimestamp := r.NanoTimestamp, writerAddress := r.WriterAddress }

def toCodec (bech : Go.Bech32) : CompKey.AddrCodec := { enc := bech.enc, dec := bech.dec }

/-- a typed table: the entries under prefix `p`, values decoded -/
def table {G V : Type} [Inhabited G] [Go.Proto G] (conv : G → V) (m : Map Bytes) (p : Bytes) : Map V :=
  Map.mapVals (fun v => conv ((Go.Proto.unmarshal v : Option G).getD default)) (m.prefixView p)

/-- every value stored under `p` is a protobuf encoding of a `G` -/
def Decodes (G : Type) [Go.Proto G] (m : Map Bytes) (p : Bytes) : Prop :=
  ∀ k v, m.get (p ++ k) = some v → (Go.Proto.unmarshal v : Option G).isSome = true

/-! ## the world -/

theorem find_replaced (n : String) (m : Map Bytes) : ∀ (l : List (String × Map Bytes)),
    l.any (fun e => decide (e.1 = n)) = true →
    (l.map fun e => if e.1 = n then (n, m) else e).find? (fun e => decide (e.1 = n)) = some (n, m)
  | [], h => by simp at h
  | e :: l, h => by
    by_cases he : e.1 = n
    · simp [he]
    · simp only [List.any_cons, he, decide_false, Bool.false_or] at h
      simp only [List.map_cons, he, if_false, List.find?_cons, decide_false]
      exact find_replaced n m l h

theorem find_appended (n : String) (m : Map Bytes) : ∀ (l : List (String × Map Bytes)),
    l.any (fun e => decide (e.1 = n)) = false →
    (l ++ [(n, m)]).find? (fun e => decide (e.1 = n)) = some (n, m)
  | [], _ => by simp
  | e :: l, h => by
    simp only [List.any_cons, Bool.or_eq_false_iff] at h
    simp only [List.cons_append, List.find?_cons, h.1]
    exact find_appended n m l h.2

@[simp] theorem store_setStore (w : World) (n : String) (m : Map Bytes) : (w.setStore n m).store n = m := by
  unfold World.setStore World.store
  by_cases h : w.stores.any (fun e => decide (e.1 = n)) = true
  · rw [if_pos h]
    simp only
    rw [find_replaced n m _ h]
  · rw [if_neg h]
    simp only
    rw [find_appended n m _ (by cases hh : w.stores.any (fun e => decide (e.1 = n)) <;> simp_all)]

@[simp] theorem time_setStore (w : World) (n : String) (m : Map Bytes) :
    (w.setStore n m).blockTimeNano = w.blockTimeNano := by
  unfold World.setStore; split <;> rfl

/-! ## tables under `set` / `del` of the raw store -/

section tables
variable {G V : Type} [Inhabited G] [Go.Proto G] (conv : G → V)

theorem table_get (m : Map Bytes) (p k : Bytes) :
    Map.get (table conv m p) k = (m.get (p ++ k)).map fun v => conv ((Go.Proto.unmarshal v : Option G).getD default) := by
  unfold table
  rw [Map.get_mapVals, Map.get_prefixView]

theorem table_has (m : Map Bytes) (p k : Bytes) : Map.has (table conv m p) k = m.has (p ++ k) := by
  unfold Map.has
  rw [table_get]
  cases m.get (p ++ k) <;> rfl

theorem table_set_same (m : Map Bytes) (hs : m.Sorted) (p k v : Bytes) :
    table conv (m.set (p ++ k) v) p = Map.set (table conv m p) k (conv ((Go.Proto.unmarshal v : Option G).getD default)) := by
  unfold table
  rw [Map.prefixView_set_same m hs, Map.set_mapVals]

theorem table_set_other (m : Map Bytes) (p q k v : Bytes) (h : p.isPrefixOf (q ++ k) = false) :
    table conv (m.set (q ++ k) v) p = table conv m p := by
  unfold table
  rw [Map.prefixView_set_other m p _ v h]

theorem table_del_same (m : Map Bytes) (p k : Bytes) :
    table conv (m.del (p ++ k)) p = Map.del (table conv m p) k := by
  unfold table
  rw [Map.prefixView_del_same, Map.del_mapVals]

theorem table_del_other (m : Map Bytes) (p q k : Bytes) (h : p.isPrefixOf (q ++ k) = false) :
    table conv (m.del (q ++ k)) p = table conv m p := by
  unfold table
  rw [Map.prefixView_del_other m p _ h]
end tables

theorem pfx_ne (a b : UInt8) (k : Bytes) (h : a ≠ b) : List.isPrefixOf [a] ([b] ++ k) = false := by
  simp [List.isPrefixOf, h]

theorem decodes_set_same (G : Type) [Inhabited G] [Go.Proto G] [Go.LawfulProto G] (m : Map Bytes) (p k : Bytes) (x : G)
    (h : Decodes G m p) : Decodes G (m.set (p ++ k) (Go.Proto.marshal x)) p := by
  intro k' v hv
  by_cases hk : p ++ k' = p ++ k
  · rw [hk, Map.get_set_eq] at hv
    cases hv
    rw [Go.LawfulProto.unmarshal_marshal]; rfl
  · rw [Map.get_set_ne _ _ _ _ hk] at hv
    exact h k' v hv

theorem decodes_set_other (G : Type) [Go.Proto G] (m : Map Bytes) (a b : UInt8) (k v : Bytes) (hab : a ≠ b)
    (h : Decodes G m [a]) : Decodes G (m.set ([b] ++ k) v) [a] := by
  intro k' v' hv
  have : [a] ++ k' ≠ [b] ++ k := by simp [hab]
  rw [Map.get_set_ne _ _ _ _ this] at hv
  exact h k' v' hv

theorem decodes_del (G : Type) [Go.Proto G] (m : Map Bytes) (p key : Bytes)
    (h : Decodes G m p) : Decodes G (m.del key) p := by
  intro k' v' hv
  by_cases hk : p ++ k' = key
  · rw [hk, Map.get_del_eq] at hv; cases hv
  · rw [Map.get_del_ne _ _ _ hk] at hv
    exact h k' v' hv


/-! ## keys -/

/-- `compkey.MustEncode` of any key whose `ByteSlices` are `vs` -/
theorem mustEncode_eq {κ : Type} (I : compkey.CompositeKey κ) (key : κ) (vs : List Bytes)
    (h : I.ByteSlices key = P.ok vs) :
    compkey.MustEncode I key = match CompKey.encode vs with
      | some b => P.ok b
      | none => P.panic "err" := by
  unfold compkey.MustEncode compkey.Encode
  simp only [bind_pure_comp, id, h, P.ok_bind, encode_refines, P.map_ok]
  unfold encodeSpec
  cases CompKey.encode vs <;> rfl

theorem ownerKey_eq (bech : Go.Bech32) (o : Bytes) :
    compkey.MustEncode (aoltypes.OwnerCompositeKey.asCompositeKey bech) (some { OwnerAddress := o }) =
      match CompKey.encode [o] with | some b => P.ok b | none => P.panic "err" :=
  mustEncode_eq _ _ _ rfl

theorem topicKey_eq (bech : Go.Bech32) (o t : Bytes) :
    compkey.MustEncode (aoltypes.TopicCompositeKey.asCompositeKey bech) (some { OwnerAddress := o, TopicName := t }) =
      match CompKey.encode [o, t] with | some b => P.ok b | none => P.panic "err" :=
  mustEncode_eq _ _ _ rfl

theorem writerKey_eq (bech : Go.Bech32) (o t x : Bytes) :
    compkey.MustEncode (aoltypes.WriterCompositeKey.asCompositeKey bech)
        (some { OwnerAddress := o, TopicName := t, WriterAddress := x }) =
      match CompKey.encode [o, t, x] with | some b => P.ok b | none => P.panic "err" :=
  mustEncode_eq _ _ _ rfl

theorem recordKey_eq (bech : Go.Bech32) (o t : Bytes) (n : Nat) :
    compkey.MustEncode (aoltypes.RecordCompositeKey.asCompositeKey bech)
        (some { OwnerAddress := o, TopicName := t, Offset := n }) =
      match CompKey.encode [o, t, be64 n] with | some b => P.ok b | none => P.panic "err" :=
  mustEncode_eq _ _ _ rfl

/-! ## keeper primitives

Each keeper method, run on a world `w`, in terms of the raw store `w.store "aol"`. -/

/-! ## the abstraction -/

variable [Go.Proto aoltypes.Owner] [Go.Proto aoltypes.Topic] [Go.Proto aoltypes.Writer] [Go.Proto aoltypes.Record]

def absMap (m : Map Bytes) : Aol.State :=
  { owners := table toOwner m [0], topics := table toTopic m [1],
    writers := table toWriter m [2], records := table toRecord m [3] }

/-- the AOL state a world stands for -/
def abs (w : World) : Aol.State := absMap (w.store "aol")

structure WFMap (m : Map Bytes) : Prop where
  sorted : m.Sorted
  owners : Decodes aoltypes.Owner m [0]
  topics : Decodes aoltypes.Topic m [1]
  writers : Decodes aoltypes.Writer m [2]
  records : Decodes aoltypes.Record m [3]

def WF (w : World) : Prop := WFMap (w.store "aol")



/-! ## store operations of the translated code -/

theorem set_run (s : Store) (k v : Bytes) (w : World) (h : s.pfx ++ k ≠ []) :
    s.set k v w = P.ok (w.setStore s.name ((w.store s.name).set (s.pfx ++ k) v)) := by
  unfold Store.set; rw [if_neg h]
theorem delete_run (s : Store) (k : Bytes) (w : World) (h : s.pfx ++ k ≠ []) :
    s.delete k w = P.ok (w.setStore s.name ((w.store s.name).del (s.pfx ++ k))) := by
  unfold Store.delete; rw [if_neg h]

/-- what `Get…` returns for key `k` under prefix `p` -/
def readG (G : Type) [Inhabited G] [Go.Proto G] (m : Map Bytes) (p k : Bytes) : G :=
  ((Go.Proto.unmarshal ((m.get (p ++ k)).getD []) : Option G).getD default)

theorem read_ok (G : Type) [Inhabited G] [Go.Proto G] [Go.LawfulProto G] (m : Map Bytes) (p k : Bytes)
    (h : Decodes G m p) :
    (Go.mustUnmarshal ((m.get (p ++ k)).getD []) : P G) = P.ok (readG G m p k) := by
  unfold Go.mustUnmarshal readG
  cases hg : m.get (p ++ k) with
  | none => simp [Go.LawfulProto.unmarshal_nil]
  | some v =>
    have := h k v hg
    simp only [Option.getD_some]
    cases hu : (Go.Proto.unmarshal v : Option G) with
    | none => rw [hu] at this; cases this
    | some x => rfl

theorem conv_read {G V : Type} [Inhabited G] [Go.Proto G] [Go.LawfulProto G] (conv : G → V) (m : Map Bytes) (p k : Bytes) :
    conv (readG G m p k) = (Map.get (table conv m p) k).getD (conv default) := by
  rw [table_get]
  unfold readG
  cases hg : m.get (p ++ k) with
  | none => simp [Go.LawfulProto.unmarshal_nil]
  | some v => simp

section keeper
variable [Go.LawfulProto aoltypes.Owner] [Go.LawfulProto aoltypes.Topic] [Go.LawfulProto aoltypes.Writer]
  [Go.LawfulProto aoltypes.Record]
variable (bech : Go.Bech32) (w : World)

theorem hasTopic_run (o t : Bytes) :
    aolkeeper.Keeper.HasTopic bech { OwnerAddress := o, TopicName := t } w =
      match CompKey.encode [o, t] with
      | some tk => P.ok ((w.store "aol").has ([1] ++ tk), w)
      | none => P.panic "err" := by
  unfold aolkeeper.Keeper.HasTopic
  simp only [topicKey_eq]
  cases h : CompKey.encode [o, t] <;> rfl

theorem hasWriter_run (o t x : Bytes) :
    aolkeeper.Keeper.HasWriter bech { OwnerAddress := o, TopicName := t, WriterAddress := x } w =
      match CompKey.encode [o, t, x] with
      | some k => P.ok ((w.store "aol").has ([2] ++ k), w)
      | none => P.panic "err" := by
  unfold aolkeeper.Keeper.HasWriter
  simp only [writerKey_eq]
  cases h : CompKey.encode [o, t, x] <;> rfl

theorem getTopic_run (o t : Bytes) (hwf : WF w) :
    aolkeeper.Keeper.GetTopic bech { OwnerAddress := o, TopicName := t } w =
      match CompKey.encode [o, t] with
      | some tk => P.ok (readG aoltypes.Topic (w.store "aol") [1] tk, w)
      | none => P.panic "err" := by
  unfold aolkeeper.Keeper.GetTopic
  simp only [topicKey_eq]
  cases h : CompKey.encode [o, t] with
  | none => rfl
  | some tk =>
    have := read_ok aoltypes.Topic (w.store "aol") [1] tk hwf.topics
    simp only [P.ok_bind, id, Go.Store.get, Go.prefixStore, Go.kvStore, aoltypes.TopicKeyPrefix, List.nil_append] at this ⊢
    rw [this]; rfl

theorem getOwner_run (o : Bytes) (hwf : WF w) :
    aolkeeper.Keeper.GetOwner bech { OwnerAddress := o } w =
      match CompKey.encode [o] with
      | some k => P.ok (readG aoltypes.Owner (w.store "aol") [0] k, w)
      | none => P.panic "err" := by
  unfold aolkeeper.Keeper.GetOwner
  simp only [ownerKey_eq]
  cases h : CompKey.encode [o] with
  | none => rfl
  | some tk =>
    have := read_ok aoltypes.Owner (w.store "aol") [0] tk hwf.owners
    simp only [P.ok_bind, id, Go.Store.get, Go.prefixStore, Go.kvStore, aoltypes.OwnerKeyPrefix, List.nil_append] at this ⊢
    rw [this]; rfl

theorem setTopic_run (o t : Bytes) (x : aoltypes.Topic) :
    aolkeeper.Keeper.SetTopic bech { OwnerAddress := o, TopicName := t } x w =
      match CompKey.encode [o, t] with
      | some tk => P.ok (w.setStore "aol" ((w.store "aol").set ([1] ++ tk) (Go.Proto.marshal x)))
      | none => P.panic "err" := by
  unfold aolkeeper.Keeper.SetTopic
  simp only [topicKey_eq]
  cases h : CompKey.encode [o, t] with
  | none => rfl
  | some tk =>
    simp only [P.ok_bind]
    rw [set_run _ _ _ _ (by simp [Go.prefixStore, Go.kvStore, aoltypes.TopicKeyPrefix])]
    rfl

theorem setOwner_run (o : Bytes) (x : aoltypes.Owner) :
    aolkeeper.Keeper.SetOwner bech { OwnerAddress := o } x w =
      match CompKey.encode [o] with
      | some k => P.ok (w.setStore "aol" ((w.store "aol").set ([0] ++ k) (Go.Proto.marshal x)))
      | none => P.panic "err" := by
  unfold aolkeeper.Keeper.SetOwner
  simp only [ownerKey_eq]
  cases h : CompKey.encode [o] with
  | none => rfl
  | some tk =>
    simp only [P.ok_bind]
    rw [set_run _ _ _ _ (by simp [Go.prefixStore, Go.kvStore, aoltypes.OwnerKeyPrefix])]
    rfl

theorem setWriter_run (o t a : Bytes) (x : aoltypes.Writer) :
    aolkeeper.Keeper.SetWriter bech { OwnerAddress := o, TopicName := t, WriterAddress := a } x w =
      match CompKey.encode [o, t, a] with
      | some k => P.ok (w.setStore "aol" ((w.store "aol").set ([2] ++ k) (Go.Proto.marshal x)))
      | none => P.panic "err" := by
  unfold aolkeeper.Keeper.SetWriter
  simp only [writerKey_eq]
  cases h : CompKey.encode [o, t, a] with
  | none => rfl
  | some tk =>
    simp only [P.ok_bind]
    rw [set_run _ _ _ _ (by simp [Go.prefixStore, Go.kvStore, aoltypes.WriterKeyPrefix])]
    rfl

theorem removeWriter_run (o t a : Bytes) :
    aolkeeper.Keeper.RemoveWriter bech { OwnerAddress := o, TopicName := t, WriterAddress := a } w =
      match CompKey.encode [o, t, a] with
      | some k => P.ok (w.setStore "aol" ((w.store "aol").del ([2] ++ k)))
      | none => P.panic "err" := by
  unfold aolkeeper.Keeper.RemoveWriter
  simp only [writerKey_eq]
  cases h : CompKey.encode [o, t, a] with
  | none => rfl
  | some tk =>
    simp only [P.ok_bind]
    rw [delete_run _ _ _ (by simp [Go.prefixStore, Go.kvStore, aoltypes.WriterKeyPrefix])]
    rfl

theorem setRecord_run (o t : Bytes) (n : Nat) (x : aoltypes.Record) :
    aolkeeper.Keeper.SetRecord bech { OwnerAddress := o, TopicName := t, Offset := n } x w =
      match CompKey.encode [o, t, be64 n] with
      | some k => P.ok (w.setStore "aol" ((w.store "aol").set ([3] ++ k) (Go.Proto.marshal x)))
      | none => P.panic "err" := by
  unfold aolkeeper.Keeper.SetRecord
  simp only [recordKey_eq]
  cases h : CompKey.encode [o, t, be64 n] with
  | none => rfl
  | some tk =>
    simp only [P.ok_bind]
    rw [set_run _ _ _ _ (by simp [Go.prefixStore, Go.kvStore, aoltypes.RecordKeyPrefix])]
    rfl

end keeper


/-! ## the abstraction commutes with the writes -/

section absLemmas
variable [Go.LawfulProto aoltypes.Owner] [Go.LawfulProto aoltypes.Topic] [Go.LawfulProto aoltypes.Writer]
  [Go.LawfulProto aoltypes.Record]

theorem getD_marshal {G : Type} [Inhabited G] [Go.Proto G] [Go.LawfulProto G] (x : G) :
    ((Go.Proto.unmarshal (Go.Proto.marshal x) : Option G).getD default) = x := by
  rw [Go.LawfulProto.unmarshal_marshal]; rfl

theorem absMap_set_owner (m : Map Bytes) (hs : m.Sorted) (k : Bytes) (x : aoltypes.Owner) :
    absMap (m.set ([0] ++ k) (Go.Proto.marshal x)) = { absMap m with owners := (absMap m).owners.set k (toOwner x) } := by
  unfold absMap
  rw [table_set_same _ m hs, getD_marshal,
    table_set_other toTopic m [1] [0] k _ (pfx_ne _ _ _ (by decide)),
    table_set_other toWriter m [2] [0] k _ (pfx_ne _ _ _ (by decide)),
    table_set_other toRecord m [3] [0] k _ (pfx_ne _ _ _ (by decide))]

theorem absMap_set_topic (m : Map Bytes) (hs : m.Sorted) (k : Bytes) (x : aoltypes.Topic) :
    absMap (m.set ([1] ++ k) (Go.Proto.marshal x)) = { absMap m with topics := (absMap m).topics.set k (toTopic x) } := by
  unfold absMap
  rw [table_set_same _ m hs, getD_marshal,
    table_set_other toOwner m [0] [1] k _ (pfx_ne _ _ _ (by decide)),
    table_set_other toWriter m [2] [1] k _ (pfx_ne _ _ _ (by decide)),
    table_set_other toRecord m [3] [1] k _ (pfx_ne _ _ _ (by decide))]

theorem absMap_set_writer (m : Map Bytes) (hs : m.Sorted) (k : Bytes) (x : aoltypes.Writer) :
    absMap (m.set ([2] ++ k) (Go.Proto.marshal x)) = { absMap m with writers := (absMap m).writers.set k (toWriter x) } := by
  unfold absMap
  rw [table_set_same _ m hs, getD_marshal,
    table_set_other toOwner m [0] [2] k _ (pfx_ne _ _ _ (by decide)),
    table_set_other toTopic m [1] [2] k _ (pfx_ne _ _ _ (by decide)),
    table_set_other toRecord m [3] [2] k _ (pfx_ne _ _ _ (by decide))]

theorem absMap_set_record (m : Map Bytes) (hs : m.Sorted) (k : Bytes) (x : aoltypes.Record) :
    absMap (m.set ([3] ++ k) (Go.Proto.marshal x)) = { absMap m with records := (absMap m).records.set k (toRecord x) } := by
  unfold absMap
  rw [table_set_same _ m hs, getD_marshal,
    table_set_other toOwner m [0] [3] k _ (pfx_ne _ _ _ (by decide)),
    table_set_other toTopic m [1] [3] k _ (pfx_ne _ _ _ (by decide)),
    table_set_other toWriter m [2] [3] k _ (pfx_ne _ _ _ (by decide))]

theorem absMap_del_writer (m : Map Bytes) (k : Bytes) :
    absMap (m.del ([2] ++ k)) = { absMap m with writers := (absMap m).writers.del k } := by
  unfold absMap
  rw [table_del_same,
    table_del_other toOwner m [0] [2] k (pfx_ne _ _ _ (by decide)),
    table_del_other toTopic m [1] [2] k (pfx_ne _ _ _ (by decide)),
    table_del_other toRecord m [3] [2] k (pfx_ne _ _ _ (by decide))]

theorem wf_set_owner (m : Map Bytes) (h : WFMap m) (k : Bytes) (x : aoltypes.Owner) :
    WFMap (m.set ([0] ++ k) (Go.Proto.marshal x)) :=
  { sorted := Map.sorted_set _ _ _ h.sorted
    owners := decodes_set_same _ _ _ _ _ h.owners
    topics := decodes_set_other _ _ _ _ _ _ (by decide) h.topics
    writers := decodes_set_other _ _ _ _ _ _ (by decide) h.writers
    records := decodes_set_other _ _ _ _ _ _ (by decide) h.records }

theorem wf_set_topic (m : Map Bytes) (h : WFMap m) (k : Bytes) (x : aoltypes.Topic) :
    WFMap (m.set ([1] ++ k) (Go.Proto.marshal x)) :=
  { sorted := Map.sorted_set _ _ _ h.sorted
    owners := decodes_set_other _ _ _ _ _ _ (by decide) h.owners
    topics := decodes_set_same _ _ _ _ _ h.topics
    writers := decodes_set_other _ _ _ _ _ _ (by decide) h.writers
    records := decodes_set_other _ _ _ _ _ _ (by decide) h.records }

theorem wf_set_writer (m : Map Bytes) (h : WFMap m) (k : Bytes) (x : aoltypes.Writer) :
    WFMap (m.set ([2] ++ k) (Go.Proto.marshal x)) :=
  { sorted := Map.sorted_set _ _ _ h.sorted
    owners := decodes_set_other _ _ _ _ _ _ (by decide) h.owners
    topics := decodes_set_other _ _ _ _ _ _ (by decide) h.topics
    writers := decodes_set_same _ _ _ _ _ h.writers
    records := decodes_set_other _ _ _ _ _ _ (by decide) h.records }

theorem wf_set_record (m : Map Bytes) (h : WFMap m) (k : Bytes) (x : aoltypes.Record) :
    WFMap (m.set ([3] ++ k) (Go.Proto.marshal x)) :=
  { sorted := Map.sorted_set _ _ _ h.sorted
    owners := decodes_set_other _ _ _ _ _ _ (by decide) h.owners
    topics := decodes_set_other _ _ _ _ _ _ (by decide) h.topics
    writers := decodes_set_other _ _ _ _ _ _ (by decide) h.writers
    records := decodes_set_same _ _ _ _ _ h.records }

theorem wf_del (m : Map Bytes) (h : WFMap m) (key : Bytes) : WFMap (m.del key) :=
  { sorted := Map.sorted_del _ _ h.sorted
    owners := decodes_del _ _ _ _ h.owners
    topics := decodes_del _ _ _ _ h.topics
    writers := decodes_del _ _ _ _ h.writers
    records := decodes_del _ _ _ _ h.records }

end absLemmas


/-! ## the message server -/

/-- the Go error (registered code) the model's error names stand for -/
def errOf : String → Go.Err
  | "invalid-address:owner" => some "sdk/7"
  | "invalid-address:writer" => some "sdk/7"
  | "aol/5:topic-exists" => some "aol/5"
  | "aol/6:writer-exists" => some "aol/6"
  | "aol/7:topic-not-found" => some "aol/7"
  | "aol/8:writer-not-found" => some "aol/8"
  | "aol/9:writer-not-authorized" => some "aol/9"
  | _ => none

/-- **Simulation.**  `g` is what the translated handler returns on world `w`; `m` is what the model returns on
`abs w`.  Accepted ↔ accepted with corresponding response and `abs` of the new world equal to the model's
new state (and the new world again well-formed, header time untouched); rejected ↔ rejected with the same
registered error and the world unchanged; panic ↔ panic. -/
def Sim {ρ : Type} (w : World) (g : P (Option ρ × Go.Err × World)) (m : Outcome (Aol.State × Aol.Resp))
    (respOk : ρ → Aol.Resp → Prop) : Prop :=
  match m with
  | .ok (s', r) => ∃ v w', g = P.ok (some v, none, w') ∧ abs w' = s' ∧ WF w' ∧ respOk v r ∧
      w'.blockTimeNano = w.blockTimeNano
  | .err c => g = P.ok (none, errOf c, w)
  | .panic _ => ∃ s, g = P.panic s

section handlers
variable [Go.LawfulProto aoltypes.Owner] [Go.LawfulProto aoltypes.Topic] [Go.LawfulProto aoltypes.Writer]
  [Go.LawfulProto aoltypes.Record]
variable (bech : Go.Bech32) (w : World)

theorem opt_cases {α} (x : Option α) : x = none ∨ ∃ a, x = some a := by
  cases x <;> simp

theorem acc_eq (s : Bytes) : Go.accAddressFromBech32 bech s =
    match (toCodec bech).dec s with | some a => (a, none) | none => ([], some "bech32") := rfl

theorem createTopic_refines (msg : aoltypes.MsgCreateTopicRequest) (hwf : WF w) :
    Sim w (aolkeeper.msgServer.CreateTopic bech (some msg) w)
      (Aol.handle (toCodec bech) w.blockTimeNano (abs w)
        (.createTopic msg.TopicName msg.Description msg.OwnerAddress))
      (fun _ r => r = .empty) := by
  unfold aolkeeper.msgServer.CreateTopic Aol.handle
  simp only [Go.deref, id, P.ok_bind, acc_eq, Aol.decAddr]
  rcases opt_cases ((toCodec bech).dec msg.OwnerAddress) with hd | ⟨o, hd⟩
  · simp only [hd, Outcome.err_bind, Sim]
    rfl
  · simp only [hd, Outcome.ok_bind, Option.isNone_none, Bool.not_true, Bool.false_eq_true, if_false, hasTopic_run,
      Aol.topicKey, Aol.mustEncode]
    rcases opt_cases (CompKey.encode [o, msg.TopicName]) with htk | ⟨tk, htk⟩
    · simp only [htk, Outcome.panic_bind, P.panic_bind, Sim]; exact ⟨_, rfl⟩
    · simp only [htk, P.ok_bind, Outcome.ok_bind]
      have hhas : (abs w).topics.has tk = (w.store "aol").has ([1] ++ tk) := table_has _ _ _ _
      by_cases hh : (w.store "aol").has ([1] ++ tk) = true
      · simp only [hhas, hh, if_true, Sim]
        rfl
      · have hh' : (w.store "aol").has ([1] ++ tk) = false := by
          cases h : (w.store "aol").has ([1] ++ tk) <;> simp_all
        simp only [hhas, hh', Bool.false_eq_true, if_false, getOwner_run bech w _ hwf,
          Aol.ownerKey, Aol.mustEncode]
        rcases opt_cases (CompKey.encode [o]) with hok | ⟨ok, hok⟩
        · simp only [hok, Outcome.panic_bind, P.panic_bind, Sim]; exact ⟨_, rfl⟩
        · simp only [hok, P.ok_bind, Outcome.ok_bind, aoltypes.Owner.IncreaseTotalTopics, P.pure_eq, Outcome.pure_eq,
            setOwner_run, setTopic_run, htk, Sim]
          refine ⟨default, _, rfl, ?_, ?_, trivial, ?_⟩
          · unfold abs
            simp only [store_setStore]
            rw [absMap_set_topic _ (Map.sorted_set _ _ _ hwf.sorted), absMap_set_owner _ hwf.sorted]
            have hread : (readG aoltypes.Owner (w.store "aol") [0] ok).TotalTopics =
                (((absMap (w.store "aol")).owners.get ok).getD {}).totalTopics :=
              congrArg Aol.Owner.totalTopics (conv_read toOwner (w.store "aol") [0] ok)
            simp only [toOwner, hread]
            rfl
          · unfold WF
            simp only [store_setStore]
            exact wf_set_topic _ (wf_set_owner _ hwf _ _) _ _
          · simp

theorem u64sub_one (a : Nat) : Go.u64sub a 1 = decU64 a := by
  unfold Go.u64sub decU64 Go.two64; omega

theorem u64add_one (a : Nat) : Go.u64add a 1 = wrap64 (a + 1) := by
  unfold Go.u64add wrap64 Go.two64; rfl

theorem bool_false_of_not {b : Bool} (h : ¬ b = true) : b = false := by cases b <;> simp_all

theorem readTopic_eq (tk : Bytes) :
    toTopic (readG aoltypes.Topic (w.store "aol") [1] tk) = ((abs w).topics.get tk).getD {} :=
  conv_read toTopic (w.store "aol") [1] tk

theorem addWriter_refines (msg : aoltypes.MsgAddWriterRequest) (hwf : WF w) :
    Sim w (aolkeeper.msgServer.AddWriter bech (some msg) w)
      (Aol.handle (toCodec bech) w.blockTimeNano (abs w)
        (.addWriter msg.TopicName msg.Moniker msg.Description msg.WriterAddress msg.OwnerAddress))
      (fun _ r => r = .empty) := by
  unfold aolkeeper.msgServer.AddWriter Aol.handle
  simp only [Go.deref, id, P.ok_bind, acc_eq, Aol.decAddr]
  rcases opt_cases ((toCodec bech).dec msg.OwnerAddress) with hd | ⟨o, hd⟩
  · simp only [hd, Outcome.err_bind, Sim]; rfl
  · simp only [hd, Outcome.ok_bind, Option.isNone_none, Bool.not_true, Bool.false_eq_true, if_false]
    rcases opt_cases ((toCodec bech).dec msg.WriterAddress) with hdw | ⟨a, hdw⟩
    · simp only [hdw, Outcome.err_bind, Sim]; rfl
    · simp only [hdw, Outcome.ok_bind, Option.isNone_none, Bool.not_true, Bool.false_eq_true, if_false, hasTopic_run,
        Aol.topicKey, Aol.mustEncode]
      rcases opt_cases (CompKey.encode [o, msg.TopicName]) with htk | ⟨tk, htk⟩
      · simp only [htk, Outcome.panic_bind, P.panic_bind, Sim]; exact ⟨_, rfl⟩
      · simp only [htk, P.ok_bind, Outcome.ok_bind]
        have hhas : (abs w).topics.has tk = (w.store "aol").has ([1] ++ tk) := table_has _ _ _ _
        by_cases hh : (w.store "aol").has ([1] ++ tk) = true
        · simp only [hhas, hh, Bool.not_true, Bool.false_eq_true, if_false, hasWriter_run, Aol.writerKey, Aol.mustEncode]
          rcases opt_cases (CompKey.encode [o, msg.TopicName, a]) with hwk | ⟨wk, hwk⟩
          · simp only [hwk, Outcome.panic_bind, P.panic_bind, Sim]; exact ⟨_, rfl⟩
          · simp only [hwk, P.ok_bind, Outcome.ok_bind]
            have hhasw : (abs w).writers.has wk = (w.store "aol").has ([2] ++ wk) := table_has _ _ _ _
            by_cases hw : (w.store "aol").has ([2] ++ wk) = true
            · simp only [hhasw, hw, if_true, Sim]; rfl
            · have hw' := bool_false_of_not hw
              simp only [hhasw, hw', Bool.false_eq_true, if_false, getTopic_run bech w _ _ hwf, htk, P.ok_bind,
                aoltypes.Topic.IncreaseTotalWriters, P.pure_eq, Outcome.pure_eq, setTopic_run, setWriter_run, hwk, Sim]
              refine ⟨default, _, rfl, ?_, ?_, trivial, ?_⟩
              · unfold abs
                simp only [store_setStore, time_setStore, Go.blockTimeUnixNano]
                rw [absMap_set_writer _ (Map.sorted_set _ _ _ hwf.sorted), absMap_set_topic _ hwf.sorted]
                have hread := readTopic_eq w tk
                simp only [abs] at hread
                simp only [toTopic, toWriter] at hread ⊢
                rw [← hread]
                rfl
              · unfold WF
                simp only [store_setStore]
                exact wf_set_writer _ (wf_set_topic _ hwf _ _) _ _
              · simp
        · have hh' := bool_false_of_not hh
          simp only [hhas, hh', Bool.not_false, if_true, Sim]; rfl

theorem deleteWriter_refines (msg : aoltypes.MsgDeleteWriterRequest) (hwf : WF w) :
    Sim w (aolkeeper.msgServer.DeleteWriter bech (some msg) w)
      (Aol.handle (toCodec bech) w.blockTimeNano (abs w)
        (.deleteWriter msg.TopicName msg.WriterAddress msg.OwnerAddress))
      (fun _ r => r = .empty) := by
  unfold aolkeeper.msgServer.DeleteWriter Aol.handle
  simp only [Go.deref, id, P.ok_bind, acc_eq, Aol.decAddr]
  rcases opt_cases ((toCodec bech).dec msg.OwnerAddress) with hd | ⟨o, hd⟩
  · simp only [hd, Outcome.err_bind, Sim]; rfl
  · simp only [hd, Outcome.ok_bind, Option.isNone_none, Bool.not_true, Bool.false_eq_true, if_false]
    rcases opt_cases ((toCodec bech).dec msg.WriterAddress) with hdw | ⟨a, hdw⟩
    · simp only [hdw, Outcome.err_bind, Sim]; rfl
    · simp only [hdw, Outcome.ok_bind, Option.isNone_none, Bool.not_true, Bool.false_eq_true, if_false, hasWriter_run,
        Aol.writerKey, Aol.mustEncode]
      rcases opt_cases (CompKey.encode [o, msg.TopicName, a]) with hwk | ⟨wk, hwk⟩
      · simp only [hwk, Outcome.panic_bind, P.panic_bind, Sim]; exact ⟨_, rfl⟩
      · simp only [hwk, P.ok_bind, Outcome.ok_bind]
        have hhasw : (abs w).writers.has wk = (w.store "aol").has ([2] ++ wk) := table_has _ _ _ _
        by_cases hw : (w.store "aol").has ([2] ++ wk) = true
        · simp only [hhasw, hw, Bool.not_true, Bool.false_eq_true, if_false, getTopic_run bech w _ _ hwf,
            Aol.topicKey, Aol.mustEncode]
          rcases opt_cases (CompKey.encode [o, msg.TopicName]) with htk | ⟨tk, htk⟩
          · simp only [htk, Outcome.panic_bind, P.panic_bind, Sim]; exact ⟨_, rfl⟩
          · simp only [htk, P.ok_bind, Outcome.ok_bind, aoltypes.Topic.DecreaseTotalWriters, P.pure_eq,
              Outcome.pure_eq, setTopic_run, removeWriter_run, hwk, Sim]
            refine ⟨default, _, rfl, ?_, ?_, trivial, ?_⟩
            · unfold abs
              simp only [store_setStore]
              rw [absMap_del_writer, absMap_set_topic _ hwf.sorted]
              have hread := readTopic_eq w tk
              simp only [abs] at hread
              simp only [toTopic, u64sub_one] at hread ⊢
              rw [← hread]
            · unfold WF
              simp only [store_setStore]
              exact wf_del _ (wf_set_topic _ hwf _ _) _
            · simp
        · have hw' := bool_false_of_not hw
          simp only [hhasw, hw', Bool.not_false, if_true, Sim]; rfl

theorem addRecord_refines (msg : aoltypes.MsgAddRecordRequest) (hwf : WF w) :
    Sim w (aolkeeper.msgServer.AddRecord bech (some msg) w)
      (Aol.handle (toCodec bech) w.blockTimeNano (abs w)
        (.addRecord msg.TopicName msg.Key msg.Value msg.WriterAddress msg.OwnerAddress msg.FeePayerAddress))
      (fun v r => r = .addRecord v.OwnerAddress v.TopicName v.Offset) := by
  unfold aolkeeper.msgServer.AddRecord Aol.handle
  simp only [Go.deref, id, P.ok_bind, acc_eq, Aol.decAddr]
  rcases opt_cases ((toCodec bech).dec msg.OwnerAddress) with hd | ⟨o, hd⟩
  · simp only [hd, Outcome.err_bind, Sim]; rfl
  · simp only [hd, Outcome.ok_bind, Option.isNone_none, Bool.not_true, Bool.false_eq_true, if_false]
    rcases opt_cases ((toCodec bech).dec msg.WriterAddress) with hdw | ⟨a, hdw⟩
    · simp only [hdw, Outcome.err_bind, Sim]; rfl
    · simp only [hdw, Outcome.ok_bind, Option.isNone_none, Bool.not_true, Bool.false_eq_true, if_false, hasTopic_run,
        Aol.topicKey, Aol.mustEncode]
      rcases opt_cases (CompKey.encode [o, msg.TopicName]) with htk | ⟨tk, htk⟩
      · simp only [htk, Outcome.panic_bind, P.panic_bind, Sim]; exact ⟨_, rfl⟩
      · simp only [htk, P.ok_bind, Outcome.ok_bind]
        have hhas : (abs w).topics.has tk = (w.store "aol").has ([1] ++ tk) := table_has _ _ _ _
        by_cases hh : (w.store "aol").has ([1] ++ tk) = true
        · simp only [hhas, hh, Bool.not_true, Bool.false_eq_true, if_false, hasWriter_run, Aol.writerKey, Aol.mustEncode]
          rcases opt_cases (CompKey.encode [o, msg.TopicName, a]) with hwk | ⟨wk, hwk⟩
          · simp only [hwk, Outcome.panic_bind, P.panic_bind, Sim]; exact ⟨_, rfl⟩
          · simp only [hwk, P.ok_bind, Outcome.ok_bind]
            have hhasw : (abs w).writers.has wk = (w.store "aol").has ([2] ++ wk) := table_has _ _ _ _
            by_cases hw : (w.store "aol").has ([2] ++ wk) = true
            · have hread := readTopic_eq w tk
              have hoff : (readG aoltypes.Topic (w.store "aol") [1] tk).TotalRecords =
                  (((abs w).topics.get tk).getD {}).totalRecords := congrArg Aol.Topic.totalRecords hread
              simp only [hhasw, hw, Bool.not_true, Bool.false_eq_true, if_false, getTopic_run bech w _ _ hwf, htk,
                P.ok_bind, aoltypes.Topic.NextRecordOffset, aoltypes.Topic.IncreaseTotalRecords, P.pure_eq,
                Outcome.pure_eq, setTopic_run, setRecord_run, Aol.recordKey, Aol.mustEncode, hoff]
              rcases opt_cases (CompKey.encode [o, msg.TopicName, be64 (((abs w).topics.get tk).getD {}).totalRecords])
                with hrk | ⟨rk, hrk⟩
              · simp only [hrk, Outcome.panic_bind, P.panic_bind, Sim]; exact ⟨_, rfl⟩
              · simp only [hrk, P.ok_bind, Outcome.ok_bind, Sim]
                refine ⟨_, _, rfl, ?_, ?_, rfl, ?_⟩
                · unfold abs
                  simp only [store_setStore, time_setStore, Go.blockTimeUnixNano]
                  rw [absMap_set_record _ (Map.sorted_set _ _ _ hwf.sorted), absMap_set_topic _ hwf.sorted]
                  simp only [abs] at hread hoff
                  simp only [toTopic, toRecord] at hread ⊢
                  rw [← hread]
                  rfl
                · unfold WF
                  simp only [store_setStore]
                  exact wf_set_record _ (wf_set_topic _ hwf _ _) _ _
                · simp
            · have hw' := bool_false_of_not hw
              simp only [hhasw, hw', Bool.not_false, if_true, Sim]; rfl
        · have hh' := bool_false_of_not hh
          simp only [hhas, hh', Bool.not_false, if_true, Sim]; rfl

/-! ## histories: the translated message server, run as baseapp runs it -/

/-- a message for the translated server -/
inductive GMsg where
  | createTopic (m : aoltypes.MsgCreateTopicRequest)
  | addWriter (m : aoltypes.MsgAddWriterRequest)
  | deleteWriter (m : aoltypes.MsgDeleteWriterRequest)
  | addRecord (m : aoltypes.MsgAddRecordRequest)

def GMsg.toModel : GMsg → Aol.Msg
  | .createTopic m => .createTopic m.TopicName m.Description m.OwnerAddress
  | .addWriter m => .addWriter m.TopicName m.Moniker m.Description m.WriterAddress m.OwnerAddress
  | .deleteWriter m => .deleteWriter m.TopicName m.WriterAddress m.OwnerAddress
  | .addRecord m => .addRecord m.TopicName m.Key m.Value m.WriterAddress m.OwnerAddress m.FeePayerAddress

/-- did the handler accept, and with which world -/
def accepted {ρ : Type} (g : P (Option ρ × Go.Err × World)) : Option World :=
  match g with
  | .ok (some _, none, w') => some w'
  | _ => none

/-- One message delivered by baseapp: the handler runs on a branch of the state with the block time of the
header; the branch is written back only when the handler returns a response and no error (a returned
error or a panic discards it). -/
def genStep (w : World) (op : Int × GMsg) : World :=
  let w1 : World := { w with blockTimeNano := op.1 }
  let r := match op.2 with
    | .createTopic m => accepted (aolkeeper.msgServer.CreateTopic bech (some m) w1)
    | .addWriter m => accepted (aolkeeper.msgServer.AddWriter bech (some m) w1)
    | .deleteWriter m => accepted (aolkeeper.msgServer.DeleteWriter bech (some m) w1)
    | .addRecord m => accepted (aolkeeper.msgServer.AddRecord bech (some m) w1)
  r.getD w1

def genRun (w : World) (ops : List (Int × GMsg)) : World := ops.foldl (genStep bech) w

def stateOf (m : Outcome (Aol.State × Aol.Resp)) (d : Aol.State) : Aol.State :=
  match m with
  | .ok (s', _) => s'
  | _ => d

theorem step_stateOf (c : CompKey.AddrCodec) (s : Aol.State) (now : Int) (msg : Aol.Msg) :
    Aol.step c s (now, msg) = stateOf (Aol.handle c now s msg) s := by
  unfold Aol.step stateOf
  generalize Aol.handle c now s msg = r
  cases r <;> rfl

theorem sim_accepted {ρ : Type} (w1 : World) (g : P (Option ρ × Go.Err × World)) (m : Outcome (Aol.State × Aol.Resp))
    (R : ρ → Aol.Resp → Prop) (hwf : WF w1) (h : Sim w1 g m R) :
    abs ((accepted g).getD w1) = stateOf m (abs w1) ∧ WF ((accepted g).getD w1) := by
  unfold Sim at h
  cases m with
  | ok p =>
    obtain ⟨s', r⟩ := p
    obtain ⟨v, w', hg, ha, hw, _, _⟩ := h
    subst hg
    exact ⟨ha, hw⟩
  | err c =>
    simp only at h; subst h
    exact ⟨rfl, hwf⟩
  | panic s =>
    obtain ⟨s', hg⟩ := h
    subst hg
    exact ⟨rfl, hwf⟩

/-- **One delivered message**: `abs` commutes with the step, and well-formedness is kept. -/
theorem genStep_abs (op : Int × GMsg) (hwf : WF w) :
    abs (genStep bech w op) = Aol.step (toCodec bech) (abs w) (op.1, op.2.toModel) ∧ WF (genStep bech w op) := by
  obtain ⟨now, g⟩ := op
  have hwf1 : WF ({ w with blockTimeNano := now } : World) := hwf
  have habs1 : abs ({ w with blockTimeNano := now } : World) = abs w := rfl
  rw [step_stateOf]
  unfold genStep
  cases g with
  | createTopic m =>
    have := sim_accepted _ _ _ _ hwf1 (createTopic_refines bech { w with blockTimeNano := now } m hwf1)
    rw [habs1] at this
    exact this
  | addWriter m =>
    have := sim_accepted _ _ _ _ hwf1 (addWriter_refines bech { w with blockTimeNano := now } m hwf1)
    rw [habs1] at this
    exact this
  | deleteWriter m =>
    have := sim_accepted _ _ _ _ hwf1 (deleteWriter_refines bech { w with blockTimeNano := now } m hwf1)
    rw [habs1] at this
    exact this
  | addRecord m =>
    have := sim_accepted _ _ _ _ hwf1 (addRecord_refines bech { w with blockTimeNano := now } m hwf1)
    rw [habs1] at this
    exact this

/-- **Every history**: running the translated message server over any list of messages, from any
well-formed world, gives a world that stands for exactly the state the model reaches — so every theorem
about `Aol.run` (C01, C02, C13) is a theorem about the code as translated. -/
theorem genRun_abs (ops : List (Int × GMsg)) : ∀ (w : World), WF w →
    abs (genRun bech w ops) = Aol.run (toCodec bech) (abs w) (ops.map fun op => (op.1, op.2.toModel)) ∧
    WF (genRun bech w ops) := by
  induction ops with
  | nil => intro w h; exact ⟨rfl, h⟩
  | cons op ops ih =>
    intro w h
    have hs := genStep_abs bech w op h
    have := ih (genStep bech w op) hs.2
    unfold genRun Aol.run at this ⊢
    simp only [List.foldl_cons, List.map_cons]
    rw [← hs.1]
    exact this

/-- the empty store is well-formed and stands for the empty state -/
theorem wf_empty : WF ({} : World) :=
  { sorted := by unfold World.store; simp [Map.Sorted, Map.keys]
    owners := by intro k v h; simp [World.store, Map.get] at h
    topics := by intro k v h; simp [World.store, Map.get] at h
    writers := by intro k v h; simp [World.store, Map.get] at h
    records := by intro k v h; simp [World.store, Map.get] at h }

theorem abs_empty : abs ({} : World) = {} := rfl

end handlers

end Panacea.Refine.Aol
