import Panacea.Generated.Code
import Panacea.Model.CompKey
import Panacea.Lemmas.CompKey
/-!
# Refinement: the translated `types/compkey` functions compute the hand-written model

`Gen.compkey.*` is regenerated from `/repo/types/compkey/compkey.go` on every run.  The theorems here say
that, for every input, the translated Go code — with its size pre-computation, `make`, index writes and
`copy` — returns exactly what `Panacea.CompKey.encode / decode / partialEncode` return, and never panics.
The property theorems (C18, C01, C13 …) are about the latter.
-/
namespace Panacea.Refine.CompKey
open Panacea Panacea.Gen Panacea.Go

def szOf : List Bytes → Nat
  | [] => 0
  | v :: vs => 1 + v.length + szOf vs

theorem encode_length : ∀ (vs : List Bytes) (r : Bytes), CompKey.encode vs = some r → r.length = szOf vs
  | [], r, h => by simp [CompKey.encode] at h; subst h; rfl
  | v :: vs, r, h => by
    unfold CompKey.encode at h
    split at h
    · cases h
    · split at h
      · cases h
      · rename_i r' hr'
        cases h
        have := encode_length vs r' hr'
        simp [szOf, this]; omega

/-- first loop of `encode`: the total size -/
theorem size_loop (vs : List Bytes) (s : Int) :
    (forIn vs s fun value __s => (pure (ForInStep.yield (__s + (1 + Go.len value))) : P _)) = P.ok (s + szOf vs) := by
  induction vs generalizing s with
  | nil => simp [szOf]
  | cons v vs ih =>
    simp only [List.forIn_cons, pure_bind]
    rw [ih]; simp [szOf, Go.len]; omega

theorem setIdx_append (pre pad : Bytes) (x : UInt8) (h : pad ≠ []) :
    Go.setIdx (pre ++ pad) (pre.length : Int) x = P.ok (pre ++ x :: pad.tail) := by
  cases pad with
  | nil => exact absurd rfl h
  | cons p ps =>
    unfold Go.setIdx
    have : ¬ ((pre.length : Int) < 0 ∨ (pre.length : Int) ≥ ((pre ++ p :: ps).length : Nat)) := by
      simp; omega
    rw [if_neg this]
    simp

theorem copyAt_append (pre pad v : Bytes) (h : v.length ≤ pad.length) :
    Go.copyAt (pre ++ pad) (pre.length : Int) v = P.ok (pre ++ v ++ pad.drop v.length, (v.length : Int)) := by
  unfold Go.copyAt
  have : ¬ ((pre.length : Int) < 0 ∨ (pre.length : Int) > ((pre ++ pad).length : Nat)) := by
    simp; omega
  rw [if_neg this]
  simp only [Int.toNat_natCast, List.length_append, Nat.add_sub_cancel_left]
  have hm : min pad.length v.length = v.length := by omega
  rw [hm]
  simp [List.drop_append]

theorem toU8_len (v : Bytes) : Go.toU8 (Go.len v) = UInt8.ofNat v.length := by
  unfold Go.toU8 Go.len
  apply UInt8.toNat_inj.mp
  simp only [UInt8.toNat_ofNat']
  omega


theorem encode_cons (v : Bytes) (vs : List Bytes) (hv : ¬ v.length > 255) :
    CompKey.encode (v :: vs) = (CompKey.encode vs).map (fun r => UInt8.ofNat v.length :: (v ++ r)) := by
  rw [CompKey.encode]
  simp only [hv, if_false]
  cases CompKey.encode vs <;> rfl

def tooLong : Go.Err := some "fmt:the size of value must be in uint8"

/-- what `compkey.encode` returns, in terms of the model -/
def encodeSpec (vs : List Bytes) : Bytes × Go.Err :=
  match CompKey.encode vs with
  | some r => (r, none)
  | none => ([], tooLong)

/-- the state in which the second loop of `encode` ends -/
def fillState : List Bytes → Bytes → Bytes → Option (Bytes × Go.Err) × Bytes × Int
  | [], pre, pad => (none, pre ++ pad, (pre.length : Int))
  | v :: vs, pre, pad =>
    if v.length > 255 then (some (default, tooLong), pre ++ pad, (pre.length : Int))
    else fillState vs (pre ++ [UInt8.ofNat v.length] ++ v) (pad.tail.drop v.length)

/-- second loop of `encode`, from any state reached by the loop -/
theorem fill_loop (vs : List Bytes) : ∀ (pre pad : Bytes), szOf vs ≤ pad.length →
    (forIn vs ((none : Option (Bytes × Go.Err)), pre ++ pad, (pre.length : Int)) fun value_1 __s =>
        if decide (Go.len value_1 > 255) = true then
          (pure (ForInStep.done
            (some (default, some "fmt:the size of value must be in uint8"), __s.snd.fst, __s.snd.snd)) : P _)
        else do
          let bz ← Go.setIdx __s.snd.fst __s.snd.snd (Go.toU8 (Go.len value_1))
          (fun a => ForInStep.yield (none, a.fst, __s.snd.snd + 1 + a.snd)) <$>
              Go.copyAt bz (__s.snd.snd + 1) value_1) =
    P.ok (fillState vs pre pad) := by
  induction vs with
  | nil => intro pre pad _; simp [fillState]
  | cons v vs ih =>
    intro pre pad hsz
    simp only [List.forIn_cons]
    by_cases hv : v.length > 255
    · have : decide (Go.len v > 255) = true := by simp [Go.len]; omega
      rw [if_pos this]
      simp only [pure_bind]
      simp [fillState, hv, tooLong]
    · have : ¬ (decide (Go.len v > 255) = true) := by simp [Go.len]; omega
      rw [if_neg this]
      have hpad : pad ≠ [] := by
        intro h; subst h; simp [szOf] at hsz
      rw [setIdx_append pre pad _ hpad, toU8_len]
      simp only [P.ok_bind]
      have hlen : (pre ++ UInt8.ofNat v.length :: pad.tail) = (pre ++ [UInt8.ofNat v.length]) ++ pad.tail := by simp
      have hidx : ((pre.length : Int) + 1) = ((pre ++ [UInt8.ofNat v.length]).length : Int) := by simp
      have hvt : v.length ≤ pad.tail.length := by
        cases pad with
        | nil => exact absurd rfl hpad
        | cons p ps => simp [szOf] at hsz ⊢; omega
      rw [hlen, hidx, copyAt_append _ _ _ hvt]
      simp only [P.map_ok, P.ok_bind]
      have hst : ((pre ++ [UInt8.ofNat v.length]).length : Int) + (v.length : Int)
          = ((pre ++ [UInt8.ofNat v.length] ++ v).length : Int) := by simp; omega
      rw [hst]
      have hsz' : szOf vs ≤ (pad.tail.drop v.length).length := by
        cases pad with
        | nil => exact absurd rfl hpad
        | cons p ps => simp [szOf] at hsz ⊢; omega
      rw [ih (pre ++ [UInt8.ofNat v.length] ++ v) (pad.tail.drop v.length) hsz']
      simp [fillState, hv]

theorem fillState_spec (vs : List Bytes) : ∀ (pre pad : Bytes), szOf vs ≤ pad.length →
    fillState vs pre pad =
      match CompKey.encode vs with
      | some r => (none, pre ++ r ++ pad.drop r.length, ((pre.length + r.length : Nat) : Int))
      | none => (some (default, tooLong), (fillState vs pre pad).2) := by
  induction vs with
  | nil => intro pre pad _; simp [fillState, CompKey.encode]
  | cons v vs ih =>
    intro pre pad hsz
    by_cases hv : v.length > 255
    · simp [fillState, hv, CompKey.encode]
    · have hpad : pad ≠ [] := by
        intro h; subst h; simp [szOf] at hsz
      have hsz' : szOf vs ≤ (pad.tail.drop v.length).length := by
        cases pad with
        | nil => exact absurd rfl hpad
        | cons p ps => simp [szOf] at hsz ⊢; omega
      rw [encode_cons v vs hv]
      have h1 : fillState (v :: vs) pre pad = fillState vs (pre ++ [UInt8.ofNat v.length] ++ v) (pad.tail.drop v.length) := by
        simp [fillState, hv]
      rw [h1, ih _ _ hsz']
      cases henc : CompKey.encode vs with
      | none => simp
      | some r =>
        simp only [Option.map_some]
        cases pad with
        | nil => exact absurd rfl hpad
        | cons p ps =>
          simp [List.drop_drop]
          omega

/-- **`compkey.encode` refines the model**: never panics; returns the model's bytes, or the error exactly
when the model rejects (a component longer than 255 bytes). -/
theorem encode_refines (vs : List Bytes) : compkey.encode vs = P.ok (encodeSpec vs) := by
  unfold compkey.encode
  simp only [bind_pure_comp, id]
  rw [size_loop]
  simp only [P.ok_bind]
  have hmk : (Go.make ((0 : Int) + (szOf vs : Int)) : P Bytes) = P.ok (List.replicate (szOf vs) default) := by
    unfold Go.make
    have : ¬ ((0 : Int) + (szOf vs : Int) < 0) := by omega
    rw [if_neg this]; simp
  rw [hmk]
  simp only [P.ok_bind]
  have hl := fill_loop vs [] (List.replicate (szOf vs) default) (by simp)
  simp only [List.nil_append, List.length_nil, Int.cast_ofNat_Int] at hl
  rw [hl]
  simp only [P.ok_bind]
  rw [fillState_spec vs [] _ (by simp)]
  unfold encodeSpec
  cases h : CompKey.encode vs with
  | none => rfl
  | some r =>
    have hlr := encode_length vs r h
    simp [hlr]
    rfl

end Panacea.Refine.CompKey

namespace Panacea.Refine.CompKey
open Panacea Panacea.Gen Panacea.Go

/-! ## `Decode` -/

def failed : Go.Err := some "fmt:failed to decode composite key"

def byteAt (bz : Bytes) (i : Nat) : UInt8 := (bz[i]?).getD 0

/-- the state in which the loop of `Decode` ends when given `n` iterations of fuel -/
def decState {κ : Type} (bz : Bytes) (out : κ) :
    Nat → List Bytes → Nat → Option (Go.Err × κ) × List Bytes × Int × Bool
  | 0, values, i => (none, values, (i : Int), false)
  | n+1, values, i =>
    if ¬ (i < bz.length) then (none, values, (i : Int), true)
    else
      let x := byteAt bz i
      if i + 1 + x.toNat > bz.length then (some (failed, out), values, ((i + 1 : Nat) : Int), false)
      else decState bz out n (values ++ [(bz.take (i + 1 + x.toNat)).drop (i + 1)]) (i + 1 + x.toNat)

theorem idx_ok (bz : Bytes) (i : Nat) (h : i < bz.length) : Go.idx bz (i : Int) = P.ok (byteAt bz i) := by
  unfold Go.idx byteAt
  have : ¬ ((i : Int) < 0) := by omega
  rw [if_neg this]
  simp [List.getElem?_eq_getElem h]

theorem slice_ok (bz : Bytes) (lo hi : Nat) (h1 : lo ≤ hi) (h2 : hi ≤ bz.length) :
    Go.slice bz (lo : Int) (some (hi : Int)) = P.ok ((bz.take hi).drop lo) := by
  unfold Go.slice
  simp only [Option.getD_some]
  have : ¬ ((lo : Int) < 0 ∨ (hi : Int) < (lo : Int) ∨ (hi : Int) > ((bz.length : Nat) : Int)) := by omega
  rw [if_neg this]
  simp

theorem make_ok (n : Nat) : (Go.make (n : Int) : P Bytes) = P.ok (List.replicate n default) := by
  unfold Go.make
  have : ¬ ((n : Int) < 0) := by omega
  rw [if_neg this]; simp

theorem copy_full (s : Bytes) (n : Nat) (h : s.length = n) :
    Go.copyAt (List.replicate n (default : UInt8)) 0 s = P.ok (s, (n : Int)) := by
  have := copyAt_append [] (List.replicate n (default : UInt8)) s (by simp [h])
  simp only [List.nil_append, List.length_nil, Int.cast_ofNat_Int] at this
  rw [this]
  simp [h]

theorem decode_loop {κ : Type} (bz : Bytes) (out : κ) (l : List Nat) :
    ∀ (values : List Bytes) (i : Nat),
    (forIn l ((none : Option (Go.Err × κ)), values, (i : Int), false) fun x __s =>
        if (!decide (__s.snd.snd.fst < Go.len bz)) = true then
          (pure (ForInStep.done (none, __s.snd.fst, __s.snd.snd.fst, true)) : P _)
        else do
          let x ← Go.idx bz __s.snd.snd.fst
          if decide (__s.snd.snd.fst + 1 + ↑x.toNat > Go.len bz) = true then
              pure
                (ForInStep.done
                  (some (some "fmt:failed to decode composite key", out), __s.snd.fst, __s.snd.snd.fst + 1,
                    __s.snd.snd.snd))
            else do
              let t_1 ← Go.make ↑x.toNat
              let s ← Go.slice bz (__s.snd.snd.fst + 1) (some (__s.snd.snd.fst + 1 + ↑x.toNat))
              (fun a =>
                    ForInStep.yield
                      (none, __s.snd.fst ++ [a.fst], __s.snd.snd.fst + 1 + a.snd, __s.snd.snd.snd)) <$>
                  Go.copyAt t_1 0 s) =
    P.ok (decState bz out l.length values i) := by
  induction l with
  | nil => intro values i; simp [decState]
  | cons a l ih =>
    intro values i
    simp only [List.forIn_cons, List.length_cons]
    by_cases hi : i < bz.length
    · have c1 : ¬ ((!decide ((i : Int) < Go.len bz)) = true) := by simp [Go.len]; omega
      rw [if_neg c1, idx_ok bz i hi]
      simp only [P.ok_bind]
      by_cases hx : i + 1 + (byteAt bz i).toNat > bz.length
      · have c2 : decide ((i : Int) + 1 + (((byteAt bz i).toNat : Nat) : Int) > Go.len bz) = true := by
          simp [Go.len]; omega
        rw [if_pos c2]
        simp only [pure_bind]
        simp [decState, hi, hx, failed]
      · have c2 : ¬ (decide ((i : Int) + 1 + (((byteAt bz i).toNat : Nat) : Int) > Go.len bz) = true) := by
          simp [Go.len]; omega
        rw [if_neg c2, make_ok]
        simp only [P.ok_bind]
        have e1 : ((i : Int) + 1) = ((i + 1 : Nat) : Int) := by omega
        have e2 : ((i : Int) + 1 + (((byteAt bz i).toNat : Nat) : Int)) = ((i + 1 + (byteAt bz i).toNat : Nat) : Int) := by omega
        rw [e2, e1, slice_ok bz _ _ (by omega) (by omega)]
        simp only [P.ok_bind]
        rw [copy_full _ _ (by simp; omega)]
        simp only [P.map_ok, P.ok_bind]
        have e3 : (((i + 1 : Nat) : Int) + (((byteAt bz i).toNat : Nat) : Int)) = ((i + 1 + (byteAt bz i).toNat : Nat) : Int) := by omega
        rw [e3, ih]
        simp [decState, hi, hx]
    · have c1 : (!decide ((i : Int) < Go.len bz)) = true := by simp [Go.len]; omega
      rw [if_pos c1]
      simp only [pure_bind]
      simp [decState, hi]

/-- with enough fuel the loop state is the model's `decodeAux` -/
theorem decState_spec {κ : Type} (bz : Bytes) (out : κ) : ∀ (n : Nat) (values : List Bytes) (i : Nat),
    i ≤ bz.length → bz.length - i + 1 ≤ n →
    (match CompKey.decodeAux n (bz.drop i) with
     | some vs => decState bz out n values i = (none, values ++ vs, (bz.length : Int), true)
     | none => (decState bz out n values i).1 = some (failed, out)) := by
  intro n
  induction n with
  | zero => intro values i _ h; omega
  | succ n ih =>
    intro values i hi hn
    by_cases hlt : i < bz.length
    · have hdrop : bz.drop i = (byteAt bz i) :: bz.drop (i + 1) := by
        rw [List.drop_eq_getElem_cons hlt]; simp [byteAt, List.getElem?_eq_getElem hlt]
      rw [hdrop, CompKey.decodeAux]
      by_cases hx : i + 1 + (byteAt bz i).toNat > bz.length
      · have : (byteAt bz i).toNat > (bz.drop (i + 1)).length := by simp; omega
        simp only [this, if_true]
        simp [decState, hlt, hx]
      · have : ¬ ((byteAt bz i).toNat > (bz.drop (i + 1)).length) := by simp; omega
        simp only [this, if_false]
        have hstep : decState bz out (n + 1) values i =
            decState bz out n (values ++ [(bz.take (i + 1 + (byteAt bz i).toNat)).drop (i + 1)]) (i + 1 + (byteAt bz i).toNat) := by
          simp [decState, hlt, hx]
        rw [hstep, List.drop_drop]
        have key := ih (values ++ [(bz.take (i + 1 + (byteAt bz i).toNat)).drop (i + 1)]) (i + 1 + (byteAt bz i).toNat) (by omega) (by omega)
        cases hd : CompKey.decodeAux n (bz.drop (i + 1 + (byteAt bz i).toNat)) with
        | none => rw [hd] at key; simpa using key
        | some vs =>
          rw [hd] at key
          simp only at key ⊢
          rw [key]
          have : (bz.drop (i + 1)).take (byteAt bz i).toNat = (bz.take (i + 1 + (byteAt bz i).toNat)).drop (i + 1) := by
            rw [List.drop_take]; congr 1; omega
          simp [this]
    · have : bz.drop i = [] := by apply List.drop_eq_nil_of_le; omega
      rw [this]
      have hi' : i = bz.length := by omega
      simp [CompKey.decodeAux, decState, hlt, hi']

/-- what `compkey.Decode` computes, in terms of the model and the typed key's `FromByteSlices` -/
def decodeSpec {κ : Type} (I : compkey.CompositeKey κ) (bz : Bytes) (out : κ) : P (Go.Err × κ) :=
  match CompKey.decode bz with
  | none => P.ok (failed, out)
  | some vs => I.FromByteSlices out vs

/-- **`compkey.Decode` refines the model**: the fuel suffices, no index or slice bound is violated, and the
result is the model's component list handed to `FromByteSlices`, or the decoding error exactly when the
model rejects. -/
theorem decode_refines {κ : Type} (I : compkey.CompositeKey κ) (bz : Bytes) (out : κ) :
    compkey.Decode I bz out = decodeSpec I bz out := by
  unfold compkey.Decode
  simp only [bind_pure_comp, id]
  have hm : (Go.make (0 : Int) : P (List Bytes)) = P.ok [] := by
    unfold Go.make; simp
  rw [hm]
  simp only [P.ok_bind]
  have hl := decode_loop bz out (List.range (bz.length + 1)) [] 0
  simp only [Int.cast_ofNat_Int, List.length_range] at hl
  rw [hl]
  simp only [P.ok_bind]
  have hs := decState_spec bz out (bz.length + 1) [] 0 (by omega) (by omega)
  unfold decodeSpec CompKey.decode
  simp only [List.drop_zero] at hs
  cases hd : CompKey.decodeAux (bz.length + 1) bz with
  | none =>
    rw [hd] at hs
    simp only at hs
    rw [hs]; rfl
  | some vs =>
    rw [hd] at hs
    simp only [List.nil_append] at hs
    rw [hs]
    simp only [Bool.not_true, Bool.false_eq_true, if_false]
    cases I.FromByteSlices out vs <;> rfl

end Panacea.Refine.CompKey
