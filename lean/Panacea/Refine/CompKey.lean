import Panacea.Generated.Code
import Panacea.Model.CompKey
import Panacea.Lemmas.CompKey
/-!
# Refinement: the translated `types/compkey` functions compute the hand-written model

`Gen.compkey.*` is regenerated from `/repo/types/compkey/compkey.go` on every run.  The theorems here say
that, for every input, the translated Go code — with its size pre-computation, `make`, index writes and
`copy` — returns exactly what `Panacea.CompKey.encode / decode / partialEncode` return, and never panics.
The property theorems (C18, C01, C13 …) are about the latter.
-/
namespace Panacea.Refine.CompKey
open Panacea Panacea.Gen Panacea.Go

def szOf : List Bytes → Nat
  | [] => 0
  | v :: vs => 1 + v.length + szOf vs

theorem encode_length : ∀ (vs : List Bytes) (r : Bytes), CompKey.encode vs = some r → r.length = szOf vs
  | [], r, h => by simp [CompKey.encode] at h; subst h; rfl
  | v :: vs, r, h => by
    unfold CompKey.encode at h
    split at h
    · cases h
    · split at h
      · cases h
      · rename_i r' hr'
        cases h
        have := encode_length vs r' hr'
        simp [szOf, this]; omega

/-- first loop of `encode`: the total size -/
theorem size_loop (vs : List Bytes) (s : Int) :
    (forIn vs s fun value __s => (pure (ForInStep.yield (__s + (1 + Go.len value))) : P _)) = P.ok (s + szOf vs) := by
  induction vs generalizing s with
  | nil => simp [szOf]
  | cons v vs ih =>
    simp only [List.forIn_cons, pure_bind]
    rw [ih]; simp [szOf, Go.len]; omega

theorem setIdx_append (pre pad : Bytes) (x : UInt8) (h : pad ≠ []) :
    Go.setIdx (pre ++ pad) (pre.length : Int) x = P.ok (pre ++ x :: pad.tail) := by
  cases pad with
  | nil => exact absurd rfl h
  | cons p ps =>
    unfold Go.setIdx
    have : ¬ ((pre.length : Int) < 0 ∨ (pre.length : Int) ≥ ((pre ++ p :: ps).length : Nat)) := by
      simp; omega
    rw [if_neg this]
    simp

theorem copyAt_append (pre pad v : Bytes) (h : v.length ≤ pad.length) :
    Go.copyAt (pre ++ pad) (pre.length : Int) v = P.ok (pre ++ v ++ pad.drop v.length, (v.length : Int)) := by
  unfold Go.copyAt
  have : ¬ ((pre.length : Int) < 0 ∨ (pre.length : Int) > ((pre ++ pad).length : Nat)) := by
    simp; omega
  rw [if_neg this]
  simp only [Int.toNat_natCast, List.length_append, Nat.add_sub_cancel_left]
  have hm : min pad.length v.length = v.length := by omega
  rw [hm]
  simp [List.drop_append]

theorem toU8_len (v : Bytes) : Go.toU8 (Go.len v) = UInt8.ofNat v.length := by
  unfold Go.toU8 Go.len
  apply UInt8.toNat_inj.mp
  simp only [UInt8.toNat_ofNat']
  omega


theorem encode_cons (v : Bytes) (vs : List Bytes) (hv : ¬ v.length > 255) :
    CompKey.encode (v :: vs) = (CompKey.encode vs).map (fun r => UInt8.ofNat v.length :: (v ++ r)) := by
  rw [CompKey.encode]
  simp only [hv, if_false]
  cases CompKey.encode vs <;> rfl

def tooLong : Go.Err := some "fmt:the size of value must be in uint8"

/-- what `compkey.encode` returns, in terms of the model -/
def encodeSpec (vs : List Bytes) : Bytes × Go.Err :=
  match CompKey.encode vs with
  | some r => (r, none)
  | none => ([], tooLong)

/-- the state in which the second loop of `encode` ends -/
def fillState : List Bytes → Bytes → Bytes → Option (Bytes × Go.Err) × Bytes × Int
  | [], pre, pad => (none, pre ++ pad, (pre.length : Int))
  | v :: vs, pre, pad =>
    if v.length > 255 then (some (default, tooLong), pre ++ pad, (pre.length : Int))
    else fillState vs (pre ++ [UInt8.ofNat v.length] ++ v) (pad.tail.drop v.length)

/-- second loop of `encode`, from any state reached by the loop -/
theorem fill_loop (vs : List Bytes) : ∀ (pre pad : Bytes), szOf vs ≤ pad.length →
    (forIn vs ((none : Option (Bytes × Go.Err)), pre ++ pad, (pre.length : Int)) fun value_1 __s =>
        if decide (Go.len value_1 > 255) = true then
          (pure (ForInStep.done
            (some (default, some "fmt:the size of value must be in uint8"), __s.snd.fst, __s.snd.snd)) : P _)
        else do
          let bz ← Go.setIdx __s.snd.fst __s.snd.snd (Go.toU8 (Go.len value_1))
          (fun a => ForInStep.yield (none, a.fst, __s.snd.snd + 1 + a.snd)) <$>
              Go.copyAt bz (__s.snd.snd + 1) value_1) =
    P.ok (fillState vs pre pad) := by
  induction vs with
  | nil => intro pre pad _; simp [fillState]
  | cons v vs ih =>
    intro pre pad hsz
    simp only [List.forIn_cons]
    by_cases hv : v.length > 255
    · have : decide (Go.len v > 255) = true := by simp [Go.len]; omega
      rw [if_pos this]
      simp only [pure_bind]
      simp [fillState, hv, tooLong]
    · have : ¬ (decide (Go.len v > 255) = true) := by simp [Go.len]; omega
      rw [if_neg this]
      have hpad : pad ≠ [] := by
        intro h; subst h; simp [szOf] at hsz
      rw [setIdx_append pre pad _ hpad, toU8_len]
      simp only [P.ok_bind]
      have hlen : (pre ++ UInt8.ofNat v.length :: pad.tail) = (pre ++ [UInt8.ofNat v.length]) ++ pad.tail := by simp
      have hidx : ((pre.length : Int) + 1) = ((pre ++ [UInt8.ofNat v.length]).length : Int) := by simp
      have hvt : v.length ≤ pad.tail.length := by
        cases pad with
        | nil => exact absurd rfl hpad
        | cons p ps => simp [szOf] at hsz ⊢; omega
      rw [hlen, hidx, copyAt_append _ _ _ hvt]
      simp only [P.map_ok, P.ok_bind]
      have hst : ((pre ++ [UInt8.ofNat v.length]).length : Int) + (v.length : Int)
          = ((pre ++ [UInt8.ofNat v.length] ++ v).length : Int) := by simp; omega
      rw [hst]
      have hsz' : szOf vs ≤ (pad.tail.drop v.length).length := by
        cases pad with
        | nil => exact absurd rfl hpad
        | cons p ps => simp [szOf] at hsz ⊢; omega
      rw [ih (pre ++ [UInt8.ofNat v.length] ++ v) (pad.tail.drop v.length) hsz']
      simp [fillState, hv]

theorem fillState_spec (vs : List Bytes) : ∀ (pre pad : Bytes), szOf vs ≤ pad.length →
    fillState vs pre pad =
      match CompKey.encode vs with
      | some r => (none, pre ++ r ++ pad.drop r.length, ((pre.length + r.length : Nat) : Int))
      | none => (some (default, tooLong), (fillState vs pre pad).2) := by
  induction vs with
  | nil => intro pre pad _; simp [fillState, CompKey.encode]
  | cons v vs ih =>
    intro pre pad hsz
    by_cases hv : v.length > 255
    · simp [fillState, hv, CompKey.encode]
    · have hpad : pad ≠ [] := by
        intro h; subst h; simp [szOf] at hsz
      have hsz' : szOf vs ≤ (pad.tail.drop v.length).length := by
        cases pad with
        | nil => exact absurd rfl hpad
        | cons p ps => simp [szOf] at hsz ⊢; omega
      rw [encode_cons v vs hv]
      have h1 : fillState (v :: vs) pre pad = fillState vs (pre ++ [UInt8.ofNat v.length] ++ v) (pad.tail.drop v.length) := by
        simp [fillState, hv]
      rw [h1, ih _ _ hsz']
      cases henc : CompKey.encode vs with
      | none => simp
      | some r =>
        simp only [Option.map_some]
        cases pad with
        | nil => exact absurd rfl hpad
        | cons p ps =>
          simp [List.drop_drop]
          omega

/-- **`compkey.encode` refines the model**: never panics; returns the model's bytes, or the error exactly
when the model rejects (a component longer than 255 bytes). -/
theorem encode_refines (vs : List Bytes) : compkey.encode vs = P.ok (encodeSpec vs) := by
  unfold compkey.encode
  simp only [bind_pure_comp, id]
  rw [size_loop]
  simp only [P.ok_bind]
  have hmk : (Go.make ((0 : Int) + (szOf vs : Int)) : P Bytes) = P.ok (List.replicate (szOf vs) default) := by
    unfold Go.make
    have : ¬ ((0 : Int) + (szOf vs : Int) < 0) := by omega
    rw [if_neg this]; simp
  rw [hmk]
  simp only [P.ok_bind]
  have hl := fill_loop vs [] (List.replicate (szOf vs) default) (by simp)
  simp only [List.nil_append, List.length_nil, Int.cast_ofNat_Int] at hl
  rw [hl]
  simp only [P.ok_bind]
  rw [fillState_spec vs [] _ (by simp)]
  unfold encodeSpec
  cases h : CompKey.encode vs with
  | none => rfl
  | some r =>
    have hlr := encode_length vs r h
    simp [hlr]
    rfl

end Panacea.Refine.CompKey
