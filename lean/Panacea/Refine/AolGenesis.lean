import Panacea.Refine.CompKeyString
import Panacea.Refine.PnftGenesis
import Panacea.Properties.C08
/-!
# Genesis import of the translated `x/aol` module

`aol.InitGenesis` ranges over the four genesis maps (lists of entries in *some* order, `Go.GoMap`), decodes each key
string (`MustDecodeFromString`), and writes the entry with the ordinary setter.  Here: each loop body is the pure step
`putRaw` (decode the string, encode the key, one raw store write — or the panic of `MustDecodeFromString` /
`MustEncode`), the loops are `foldlM`s of it, and the state the resulting world stands for is the model's
`Genesis.aolImport` of the entries: `initGenesis_refines`.
-/
namespace Panacea.Refine.AolGenesis
open Panacea Panacea.Gen Panacea.Go Panacea.Refine.Aol Panacea.Refine.CompKeyString

section
variable [Go.Proto aoltypes.Owner] [Go.Proto aoltypes.Topic] [Go.Proto aoltypes.Writer] [Go.Proto aoltypes.Record]
variable [Go.LawfulProto aoltypes.Owner] [Go.LawfulProto aoltypes.Topic] [Go.LawfulProto aoltypes.Writer]
variable [Go.LawfulProto aoltypes.Record]
variable (bech : Go.Bech32)
set_option linter.unusedSectionVars false

theorem deref_some {α : Type} (site : String) (a : α) : Go.deref site (some a) = P.ok a := rfl

/-- the entries of a genesis map, none of them nil -/
def ent {G : Type} (l : List (Bytes × G)) : Go.GoMap (Option G) := l.map fun e => (e.1, some e.2)

/-- one imported entry: key string → components → store key → one raw write under the table's prefix -/
def putRaw (pfx : UInt8) (kind : CompKey.Kind) (w : World) (keyStr val : Bytes) : P World :=
  match CompKey.decodeFromString (toCodec bech) kind keyStr with
  | none => P.panic "err"
  | some comps =>
    match CompKey.encode comps with
    | none => P.panic "err"
    | some k => P.ok (w.setStore "aol" ((w.store "aol").set ([pfx] ++ k) val))

theorem mustDecode_some {κ : Type} (I : compkey.CompositeKey κ) (s : Bytes) (out res : κ)
    (h : I.FromStrings out (CompKey.splitSlash s) = P.ok (none, res)) :
    compkey.MustDecodeFromString I s [47] out = P.ok res := by
  unfold compkey.MustDecodeFromString
  simp only [decodeFromString_run, h, P.ok_bind]
  rfl

theorem mustDecode_none {κ : Type} (I : compkey.CompositeKey κ) (s : Bytes) (out res : κ) (e : String)
    (h : I.FromStrings out (CompKey.splitSlash s) = P.ok (some e, res)) :
    compkey.MustDecodeFromString I s [47] out = P.panic "err" := by
  unfold compkey.MustDecodeFromString
  simp only [decodeFromString_run, h, P.ok_bind]
  rfl

theorem owner_step (keyStr : Bytes) (x : aoltypes.Owner) (w : World) :
    (do let t ← compkey.MustDecodeFromString (aoltypes.OwnerCompositeKey.asCompositeKey bech) keyStr [47] (some default)
        let key ← Go.deref "written-back pointer" t
        aolkeeper.Keeper.SetOwner bech key x w) = putRaw bech 0 .owner w keyStr (Go.Proto.marshal x) := by
  unfold putRaw CompKey.decodeFromString
  cases h : CompKey.fromStrings (toCodec bech) .owner (CompKey.splitSlash keyStr) with
  | none =>
    obtain ⟨e, he⟩ := owner_fromStrings_none bech default _ h
    rw [mustDecode_none _ _ _ _ e he]; rfl
  | some comps =>
    obtain ⟨a, rfl⟩ := owner_shape bech _ _ h
    rw [mustDecode_some _ _ _ _ (owner_fromStrings_some bech default _ _ h)]
    simp only [P.ok_bind, deref_some, ownerOf, setOwner_run]
    cases CompKey.encode [a] <;> rfl

theorem topic_step (keyStr : Bytes) (x : aoltypes.Topic) (w : World) :
    (do let t ← compkey.MustDecodeFromString (aoltypes.TopicCompositeKey.asCompositeKey bech) keyStr [47] (some default)
        let key ← Go.deref "written-back pointer" t
        aolkeeper.Keeper.SetTopic bech key x w) = putRaw bech 1 .topic w keyStr (Go.Proto.marshal x) := by
  unfold putRaw CompKey.decodeFromString
  cases h : CompKey.fromStrings (toCodec bech) .topic (CompKey.splitSlash keyStr) with
  | none =>
    obtain ⟨e, he⟩ := topic_fromStrings_none bech default _ h
    rw [mustDecode_none _ _ _ _ e he]; rfl
  | some comps =>
    obtain ⟨a, t, rfl⟩ := topic_shape bech _ _ h
    rw [mustDecode_some _ _ _ _ (topic_fromStrings_some bech default _ _ h)]
    simp only [P.ok_bind, deref_some, topicOf, setTopic_run]
    cases CompKey.encode [a, t] <;> rfl

theorem writer_step (keyStr : Bytes) (x : aoltypes.Writer) (w : World) :
    (do let t ← compkey.MustDecodeFromString (aoltypes.WriterCompositeKey.asCompositeKey bech) keyStr [47] (some default)
        let key ← Go.deref "written-back pointer" t
        aolkeeper.Keeper.SetWriter bech key x w) = putRaw bech 2 .writer w keyStr (Go.Proto.marshal x) := by
  unfold putRaw CompKey.decodeFromString
  cases h : CompKey.fromStrings (toCodec bech) .writer (CompKey.splitSlash keyStr) with
  | none =>
    obtain ⟨e, he⟩ := writer_fromStrings_none bech default _ h
    rw [mustDecode_none _ _ _ _ e he]; rfl
  | some comps =>
    obtain ⟨a, t, b, rfl⟩ := writer_shape bech _ _ h
    rw [mustDecode_some _ _ _ _ (writer_fromStrings_some bech default _ _ h)]
    simp only [P.ok_bind, deref_some, writerOf, setWriter_run]
    cases CompKey.encode [a, t, b] <;> rfl

theorem record_step (keyStr : Bytes) (x : aoltypes.Record) (w : World) :
    (do let t ← compkey.MustDecodeFromString (aoltypes.RecordCompositeKey.asCompositeKey bech) keyStr [47] (some default)
        let key ← Go.deref "written-back pointer" t
        aolkeeper.Keeper.SetRecord bech key x w) = putRaw bech 3 .record w keyStr (Go.Proto.marshal x) := by
  unfold putRaw CompKey.decodeFromString
  cases h : CompKey.fromStrings (toCodec bech) .record (CompKey.splitSlash keyStr) with
  | none =>
    obtain ⟨e, he⟩ := record_fromStrings_none bech default _ h
    rw [mustDecode_none _ _ _ _ e he]; rfl
  | some comps =>
    obtain ⟨a, t, n, hn, rfl⟩ := record_shape bech _ _ h
    rw [mustDecode_some _ _ _ _ (record_fromStrings_some bech default _ _ h)]
    simp only [P.ok_bind, deref_some, recordOf, Panacea.fromBe64_be64 n (by have := hn; omega), Option.getD_some, setRecord_run]
    cases CompKey.encode [a, t, be64 n] <;> rfl

/-- the four loops, each a `foldlM` of `putRaw` over the entries in the order the map was visited -/
def importRaw (lo : List (Bytes × aoltypes.Owner)) (lt : List (Bytes × aoltypes.Topic))
    (lw : List (Bytes × aoltypes.Writer)) (lr : List (Bytes × aoltypes.Record)) (w : World) : P World := do
  let w1 ← lo.foldlM (fun w e => putRaw bech 0 .owner w e.1 (Go.Proto.marshal e.2)) w
  let w2 ← lt.foldlM (fun w e => putRaw bech 1 .topic w e.1 (Go.Proto.marshal e.2)) w1
  let w3 ← lw.foldlM (fun w e => putRaw bech 2 .writer w e.1 (Go.Proto.marshal e.2)) w2
  lr.foldlM (fun w e => putRaw bech 3 .record w e.1 (Go.Proto.marshal e.2)) w3

theorem loop_eq {G : Type} (l : List (Bytes × G)) (body : Bytes × Option G → World → P (ForInStep World))
    (step : World → Bytes × G → P World)
    (hb : ∀ k x w, body (k, some x) w = step w (k, x) >>= fun w' => P.ok (.yield w')) :
    ∀ w, forIn (ent l) w body = l.foldlM step w := by
  unfold ent
  induction l with
  | nil => intro w; rfl
  | cons e l ih =>
    intro w
    simp only [List.map_cons, List.forIn_cons, List.foldlM_cons]
    rw [hb e.1 e.2 w]
    cases step w (e.1, e.2) with
    | panic s => rfl
    | ok w' => simp only [P.ok_bind]; exact ih w'

theorem initGenesis_run (lo : List (Bytes × aoltypes.Owner)) (lt : List (Bytes × aoltypes.Topic))
    (lw : List (Bytes × aoltypes.Writer)) (lr : List (Bytes × aoltypes.Record)) (w : World) :
    aol.InitGenesis bech { Owners := ent lo, Topics := ent lt, Writers := ent lw, Records := ent lr } w =
      importRaw bech lo lt lw lr w := by
  unfold aol.InitGenesis importRaw
  simp only []
  rw [loop_eq lo _ (fun w e => putRaw bech 0 .owner w e.1 (Go.Proto.marshal e.2)) ?_ w]
  · cases List.foldlM (fun w e => putRaw bech 0 .owner w e.1 (Go.Proto.marshal e.2)) w lo with
    | panic s => rfl
    | ok w1 =>
      simp only [P.ok_bind]
      rw [loop_eq lt _ (fun w e => putRaw bech 1 .topic w e.1 (Go.Proto.marshal e.2)) ?_ w1]
      · cases List.foldlM (fun w e => putRaw bech 1 .topic w e.1 (Go.Proto.marshal e.2)) w1 lt with
        | panic s => rfl
        | ok w2 =>
          simp only [P.ok_bind]
          rw [loop_eq lw _ (fun w e => putRaw bech 2 .writer w e.1 (Go.Proto.marshal e.2)) ?_ w2]
          · cases List.foldlM (fun w e => putRaw bech 2 .writer w e.1 (Go.Proto.marshal e.2)) w2 lw with
            | panic s => rfl
            | ok w3 =>
              simp only [P.ok_bind]
              rw [loop_eq lr _ (fun w e => putRaw bech 3 .record w e.1 (Go.Proto.marshal e.2)) ?_ w3]
              · cases List.foldlM (fun w e => putRaw bech 3 .record w e.1 (Go.Proto.marshal e.2)) w3 lr <;> rfl
              · intro k x w
                simp only [deref_some, P.ok_bind, ← record_step, bind_assoc, P.pure_eq]
          · intro k x w
            simp only [deref_some, P.ok_bind, ← writer_step, bind_assoc, P.pure_eq]
      · intro k x w
        simp only [deref_some, P.ok_bind, ← topic_step, bind_assoc, P.pure_eq]
  · intro k x w
    simp only [deref_some, P.ok_bind, ← owner_step, bind_assoc, P.pure_eq]

/-! ## what the imported world stands for -/

theorem importStep_panic {V} (c : CompKey.AddrCodec) (k : CompKey.Kind) (p : String) (l : List (Bytes × V)) :
    l.foldl (Genesis.importStep c k) (.panic p) = .panic p := by
  induction l with
  | nil => rfl
  | cons e l ih => simpa [List.foldl_cons, Genesis.importStep] using ih

theorem importStep_err {V} (c : CompKey.AddrCodec) (k : CompKey.Kind) (x : String) (l : List (Bytes × V)) :
    l.foldl (Genesis.importStep c k) (.err x) = .err x := by
  induction l with
  | nil => rfl
  | cons e l ih => simpa [List.foldl_cons, Genesis.importStep] using ih

theorem importStep_ok {V} (c : CompKey.AddrCodec) (k : CompKey.Kind) (m : Map V) (e : Bytes × V) :
    Genesis.importStep c k (.ok m) e =
      match CompKey.decodeFromString c k e.1 with
      | some comps => (match CompKey.encode comps with
        | some key => .ok (m.set key e.2)
        | none => .panic "MustEncode")
      | none => .panic "MustDecodeFromString" := rfl

/-- one table: if the model's import of the (converted) entries into the table succeeds with `m'`, the raw loop
succeeds on every well-formed world, the new world is well-formed and stands for the old state with that table
replaced by `m'`.  (`getT`/`setT`: the table inside `Aol.State`.) -/
theorem fold_table {G V : Type} [Go.Proto G] (conv : G → V) (pfx : UInt8) (kind : CompKey.Kind)
    (getT : Aol.State → Map V) (setT : Aol.State → Map V → Aol.State)
    (h1 : ∀ s, setT s (getT s) = s) (h2 : ∀ s t, getT (setT s t) = t) (h3 : ∀ s t t', setT (setT s t) t' = setT s t')
    (habs : ∀ (m : Map Bytes), m.Sorted → ∀ (k : Bytes) (x : G),
      absMap (m.set ([pfx] ++ k) (Go.Proto.marshal x)) = setT (absMap m) ((getT (absMap m)).set k (conv x)))
    (hwf : ∀ (m : Map Bytes), WFMap m → ∀ (k : Bytes) (x : G), WFMap (m.set ([pfx] ++ k) (Go.Proto.marshal x)))
    (l : List (Bytes × G)) : ∀ (w : World), WF w → ∀ m',
      (l.map fun e => (e.1, conv e.2)).foldl (Genesis.importStep (toCodec bech) kind) (.ok (getT (abs w))) = .ok m' →
      ∃ w', l.foldlM (fun w e => putRaw bech pfx kind w e.1 (Go.Proto.marshal e.2)) w = P.ok w' ∧ WF w' ∧
        abs w' = setT (abs w) m' := by
  induction l with
  | nil =>
    intro w hwf0 m' h
    simp only [List.map_nil, List.foldl_nil, Outcome.ok.injEq] at h
    subst h
    exact ⟨w, rfl, hwf0, (h1 _).symm⟩
  | cons e l ih =>
    intro w hwf0 m' h
    simp only [List.map_cons, List.foldl_cons] at h
    simp only [List.foldlM_cons]
    unfold putRaw
    rw [importStep_ok] at h
    cases hd : CompKey.decodeFromString (toCodec bech) kind e.1 with
    | none => simp only [hd] at h; rw [importStep_panic] at h; cases h
    | some comps =>
      simp only [hd] at h ⊢
      cases he : CompKey.encode comps with
      | none => simp only [he] at h; rw [importStep_panic] at h; cases h
      | some key =>
        simp only [he] at h ⊢
        simp only [P.ok_bind]
        let w1 := w.setStore "aol" ((w.store "aol").set ([pfx] ++ key) (Go.Proto.marshal e.2))
        have hwf1 : WF w1 := by
          show WFMap (w1.store "aol")
          rw [store_setStore]; exact hwf _ hwf0 _ _
        have habs1 : abs w1 = setT (abs w) ((getT (abs w)).set key (conv e.2)) := by
          show absMap (w1.store "aol") = _
          rw [store_setStore]; exact habs _ hwf0.sorted _ _
        have hget : getT (abs w1) = (getT (abs w)).set key (conv e.2) := by rw [habs1, h2]
        rw [← hget] at h
        obtain ⟨w', hr, hwf', habs'⟩ := ih w1 hwf1 m' h
        refine ⟨w', hr, hwf', ?_⟩
        rw [habs', habs1, h3]

/-- ... and if the model's import of the table panics (an undecodable key string, a component too long for a store
key), so does the raw loop -/
theorem fold_table_panic {G V : Type} [Go.Proto G] (conv : G → V) (pfx : UInt8) (kind : CompKey.Kind)
    (getT : Aol.State → Map V) (setT : Aol.State → Map V → Aol.State)
    (h2 : ∀ s t, getT (setT s t) = t)
    (habs : ∀ (m : Map Bytes), m.Sorted → ∀ (k : Bytes) (x : G),
      absMap (m.set ([pfx] ++ k) (Go.Proto.marshal x)) = setT (absMap m) ((getT (absMap m)).set k (conv x)))
    (hwf : ∀ (m : Map Bytes), WFMap m → ∀ (k : Bytes) (x : G), WFMap (m.set ([pfx] ++ k) (Go.Proto.marshal x)))
    (l : List (Bytes × G)) : ∀ (w : World), WF w → ∀ p,
      (l.map fun e => (e.1, conv e.2)).foldl (Genesis.importStep (toCodec bech) kind) (.ok (getT (abs w))) = .panic p →
      ∃ s, l.foldlM (fun w e => putRaw bech pfx kind w e.1 (Go.Proto.marshal e.2)) w = P.panic s := by
  induction l with
  | nil => intro w _ p h; cases h
  | cons e l ih =>
    intro w hwf0 p h
    simp only [List.map_cons, List.foldl_cons] at h
    simp only [List.foldlM_cons]
    unfold putRaw
    rw [importStep_ok] at h
    cases hd : CompKey.decodeFromString (toCodec bech) kind e.1 with
    | none => exact ⟨_, rfl⟩
    | some comps =>
      simp only [hd] at h ⊢
      cases he : CompKey.encode comps with
      | none => exact ⟨_, rfl⟩
      | some key =>
        simp only [he] at h ⊢
        simp only [P.ok_bind]
        let w1 := w.setStore "aol" ((w.store "aol").set ([pfx] ++ key) (Go.Proto.marshal e.2))
        have hwf1 : WF w1 := by
          show WFMap (w1.store "aol")
          rw [store_setStore]; exact hwf _ hwf0 _ _
        have habs1 : abs w1 = setT (abs w) ((getT (abs w)).set key (conv e.2)) := by
          show absMap (w1.store "aol") = _
          rw [store_setStore]; exact habs _ hwf0.sorted _ _
        have hget : getT (abs w1) = (getT (abs w)).set key (conv e.2) := by rw [habs1, h2]
        rw [← hget] at h
        exact ih w1 hwf1 p h

/-- the genesis of the model that a translated genesis state stands for -/
def toG (lo : List (Bytes × aoltypes.Owner)) (lt : List (Bytes × aoltypes.Topic))
    (lw : List (Bytes × aoltypes.Writer)) (lr : List (Bytes × aoltypes.Record)) : Genesis.AolGenesis :=
  { owners := lo.map fun e => (e.1, toOwner e.2), topics := lt.map fun e => (e.1, toTopic e.2),
    writers := lw.map fun e => (e.1, toWriter e.2), records := lr.map fun e => (e.1, toRecord e.2) }

theorem abs_empty : abs ({} : World) = { owners := [], topics := [], writers := [], records := [] } := rfl

theorem wf_empty : WF ({} : World) := by
  refine ⟨?_, ?_, ?_, ?_, ?_⟩
  · show Map.Sorted ([] : Map Bytes); simp [Map.Sorted, Map.keys]
  all_goals (intro k v hm; exact absurd hm (by simp [World.store, Map.get]))

/-- **AOL genesis import on the translated code.**  Whatever order the four genesis maps are visited in: if the model's
import of the entries succeeds with state `s`, then `InitGenesis` on the empty store succeeds, and the world it leaves is
well-formed and stands for `s`. -/
theorem initGenesis_refines (lo : List (Bytes × aoltypes.Owner)) (lt : List (Bytes × aoltypes.Topic))
    (lw : List (Bytes × aoltypes.Writer)) (lr : List (Bytes × aoltypes.Record)) (s : Aol.State)
    (h : Genesis.aolImport (toCodec bech) (toG lo lt lw lr) = .ok s) :
    ∃ w', aol.InitGenesis bech { Owners := ent lo, Topics := ent lt, Writers := ent lw, Records := ent lr } ({} : World) = P.ok w' ∧
      WF w' ∧ abs w' = s := by
  rw [initGenesis_run]
  unfold Genesis.aolImport Genesis.importTable toG at h
  simp only [] at h
  cases ho : (lo.map fun e => (e.1, toOwner e.2)).foldl (Genesis.importStep (toCodec bech) .owner) (.ok []) with
  | err x => simp [ho, bind, Outcome.bind] at h
  | panic x => simp [ho, bind, Outcome.bind] at h
  | ok mo =>
  cases ht : (lt.map fun e => (e.1, toTopic e.2)).foldl (Genesis.importStep (toCodec bech) .topic) (.ok []) with
  | err x => simp [ho, ht, bind, Outcome.bind] at h
  | panic x => simp [ho, ht, bind, Outcome.bind] at h
  | ok mt =>
  cases hw : (lw.map fun e => (e.1, toWriter e.2)).foldl (Genesis.importStep (toCodec bech) .writer) (.ok []) with
  | err x => simp [ho, ht, hw, bind, Outcome.bind] at h
  | panic x => simp [ho, ht, hw, bind, Outcome.bind] at h
  | ok mw =>
  cases hr : (lr.map fun e => (e.1, toRecord e.2)).foldl (Genesis.importStep (toCodec bech) .record) (.ok []) with
  | err x => simp [ho, ht, hw, hr, bind, Outcome.bind] at h
  | panic x => simp [ho, ht, hw, hr, bind, Outcome.bind] at h
  | ok mr =>
  simp [ho, ht, hw, hr, bind, Outcome.bind, pure] at h
  subst h
  obtain ⟨w1, r1, f1, a1⟩ := fold_table bech toOwner 0 .owner (·.owners) (fun s t => { s with owners := t })
    (fun _ => rfl) (fun _ _ => rfl) (fun _ _ _ => rfl) (fun m hs k x => absMap_set_owner m hs k x)
    (fun m hm k x => wf_set_owner m hm k x) lo {} wf_empty mo (by rw [abs_empty]; exact ho)
  obtain ⟨w2, r2, f2, a2⟩ := fold_table bech toTopic 1 .topic (·.topics) (fun s t => { s with topics := t })
    (fun _ => rfl) (fun _ _ => rfl) (fun _ _ _ => rfl) (fun m hs k x => absMap_set_topic m hs k x)
    (fun m hm k x => wf_set_topic m hm k x) lt w1 f1 mt (by rw [a1, abs_empty]; exact ht)
  obtain ⟨w3, r3, f3, a3⟩ := fold_table bech toWriter 2 .writer (·.writers) (fun s t => { s with writers := t })
    (fun _ => rfl) (fun _ _ => rfl) (fun _ _ _ => rfl) (fun m hs k x => absMap_set_writer m hs k x)
    (fun m hm k x => wf_set_writer m hm k x) lw w2 f2 mw (by rw [a2, a1, abs_empty]; exact hw)
  obtain ⟨w4, r4, f4, a4⟩ := fold_table bech toRecord 3 .record (·.records) (fun s t => { s with records := t })
    (fun _ => rfl) (fun _ _ => rfl) (fun _ _ _ => rfl) (fun m hs k x => absMap_set_record m hs k x)
    (fun m hm k x => wf_set_record m hm k x) lr w3 f3 mr (by rw [a3, a2, a1, abs_empty]; exact hr)
  refine ⟨w4, ?_, f4, ?_⟩
  · unfold importRaw
    simp only [r1, r2, r3, P.ok_bind]
    exact r4
  · rw [a4, a3, a2, a1, abs_empty]

/-- ... and a genesis the model refuses to import (it panics, as `MustDecodeFromString` / `MustEncode` do) makes the
translated `InitGenesis` panic too: the chain does not start. -/
theorem initGenesis_panics (lo : List (Bytes × aoltypes.Owner)) (lt : List (Bytes × aoltypes.Topic))
    (lw : List (Bytes × aoltypes.Writer)) (lr : List (Bytes × aoltypes.Record)) (p : String)
    (h : Genesis.aolImport (toCodec bech) (toG lo lt lw lr) = .panic p) :
    ∃ s, aol.InitGenesis bech { Owners := ent lo, Topics := ent lt, Writers := ent lw, Records := ent lr } ({} : World) = P.panic s := by
  rw [initGenesis_run]
  unfold Genesis.aolImport Genesis.importTable toG at h
  simp only [] at h
  unfold importRaw
  cases ho : (lo.map fun e => (e.1, toOwner e.2)).foldl (Genesis.importStep (toCodec bech) .owner) (.ok []) with
  | err x => simp [ho, bind, Outcome.bind] at h
  | panic x =>
    obtain ⟨s, hs⟩ := fold_table_panic bech toOwner 0 .owner (·.owners) (fun s t => { s with owners := t })
      (fun _ _ => rfl) (fun m hs k x => absMap_set_owner m hs k x) (fun m hm k x => wf_set_owner m hm k x)
      lo {} wf_empty x (by rw [abs_empty]; exact ho)
    exact ⟨s, by simp only [hs]; rfl⟩
  | ok mo =>
  obtain ⟨w1, r1, f1, a1⟩ := fold_table bech toOwner 0 .owner (·.owners) (fun s t => { s with owners := t })
    (fun _ => rfl) (fun _ _ => rfl) (fun _ _ _ => rfl) (fun m hs k x => absMap_set_owner m hs k x)
    (fun m hm k x => wf_set_owner m hm k x) lo {} wf_empty mo (by rw [abs_empty]; exact ho)
  simp only [r1, P.ok_bind]
  cases ht : (lt.map fun e => (e.1, toTopic e.2)).foldl (Genesis.importStep (toCodec bech) .topic) (.ok []) with
  | err x => simp [ho, ht, bind, Outcome.bind] at h
  | panic x =>
    obtain ⟨s, hs⟩ := fold_table_panic bech toTopic 1 .topic (·.topics) (fun s t => { s with topics := t })
      (fun _ _ => rfl) (fun m hs k x => absMap_set_topic m hs k x) (fun m hm k x => wf_set_topic m hm k x)
      lt w1 f1 x (by rw [a1, abs_empty]; exact ht)
    exact ⟨s, by simp only [hs]; rfl⟩
  | ok mt =>
  obtain ⟨w2, r2, f2, a2⟩ := fold_table bech toTopic 1 .topic (·.topics) (fun s t => { s with topics := t })
    (fun _ => rfl) (fun _ _ => rfl) (fun _ _ _ => rfl) (fun m hs k x => absMap_set_topic m hs k x)
    (fun m hm k x => wf_set_topic m hm k x) lt w1 f1 mt (by rw [a1, abs_empty]; exact ht)
  simp only [r2, P.ok_bind]
  cases hw : (lw.map fun e => (e.1, toWriter e.2)).foldl (Genesis.importStep (toCodec bech) .writer) (.ok []) with
  | err x => simp [ho, ht, hw, bind, Outcome.bind] at h
  | panic x =>
    obtain ⟨s, hs⟩ := fold_table_panic bech toWriter 2 .writer (·.writers) (fun s t => { s with writers := t })
      (fun _ _ => rfl) (fun m hs k x => absMap_set_writer m hs k x) (fun m hm k x => wf_set_writer m hm k x)
      lw w2 f2 x (by rw [a2, a1, abs_empty]; exact hw)
    exact ⟨s, by simp only [hs]; rfl⟩
  | ok mw =>
  obtain ⟨w3, r3, f3, a3⟩ := fold_table bech toWriter 2 .writer (·.writers) (fun s t => { s with writers := t })
    (fun _ => rfl) (fun _ _ => rfl) (fun _ _ _ => rfl) (fun m hs k x => absMap_set_writer m hs k x)
    (fun m hm k x => wf_set_writer m hm k x) lw w2 f2 mw (by rw [a2, a1, abs_empty]; exact hw)
  simp only [r3, P.ok_bind]
  cases hr : (lr.map fun e => (e.1, toRecord e.2)).foldl (Genesis.importStep (toCodec bech) .record) (.ok []) with
  | err x => simp [ho, ht, hw, hr, bind, Outcome.bind] at h
  | panic x =>
    exact fold_table_panic bech toRecord 3 .record (·.records) (fun s t => { s with records := t })
      (fun _ _ => rfl) (fun m hs k x => absMap_set_record m hs k x) (fun m hm k x => wf_set_record m hm k x)
      lr w3 f3 x (by rw [a3, a2, a1, abs_empty]; exact hr)
  | ok mr => simp [ho, ht, hw, hr, bind, Outcome.bind, pure] at h

/-- **C08 for x/aol, import half on the translated code**: take any AOL state with sorted tables and admitted keys, and
any translated genesis state that carries the model's export of it (in whatever map order).  `InitGenesis` on the empty
store then succeeds and the world it leaves stands for exactly that state. -/
theorem initGenesis_of_export (hc : (toCodec bech).Lawful) (s : Aol.State)
    (hso : Map.Sorted s.owners) (hst : Map.Sorted s.topics) (hsw : Map.Sorted s.writers) (hsr : Map.Sorted s.records)
    (hko : C08.KeysAdmitted .owner s.owners) (hkt : C08.KeysAdmitted .topic s.topics)
    (hkw : C08.KeysAdmitted .writer s.writers) (hkr : C08.KeysAdmitted .record s.records)
    (lo : List (Bytes × aoltypes.Owner)) (lt : List (Bytes × aoltypes.Topic))
    (lw : List (Bytes × aoltypes.Writer)) (lr : List (Bytes × aoltypes.Record))
    (hg : Genesis.aolExport (toCodec bech) s = .ok (toG lo lt lw lr)) :
    ∃ w', aol.InitGenesis bech { Owners := ent lo, Topics := ent lt, Writers := ent lw, Records := ent lr } ({} : World) = P.ok w' ∧
      WF w' ∧ abs w' = s := by
  obtain ⟨g, he, hi⟩ := C08.aol_import_export (toCodec bech) hc s hso hst hsw hsr hko hkt hkw hkr
  rw [hg] at he
  cases he
  exact initGenesis_refines bech lo lt lw lr s hi

end
end Panacea.Refine.AolGenesis