import Panacea.Refine.AolGenesis
/-!
# Genesis export of the translated `x/aol` module

`GetAllOwners/Topics/Writers/Records` walk a prefix of the store, decode every key (`MustDecode` → `FromByteSlices`) and
value; `ExportGenesis` renders every key in its string form and fills the four genesis maps.
-/
namespace Panacea.Refine.AolExport
open Panacea Panacea.Gen Panacea.Go Panacea.Refine.Aol Panacea.Refine.CompKeyString Panacea.Refine.AolGenesis
open Panacea.Refine.CompKey (decode_refines decodeSpec)

section
variable [Go.Proto aoltypes.Owner] [Go.Proto aoltypes.Topic] [Go.Proto aoltypes.Writer] [Go.Proto aoltypes.Record]
variable [Go.LawfulProto aoltypes.Owner] [Go.LawfulProto aoltypes.Topic] [Go.LawfulProto aoltypes.Writer]
variable [Go.LawfulProto aoltypes.Record]
variable (bech : Go.Bech32)
set_option linter.unusedSectionVars false

theorem verifyAddr_ok (b : Bytes) (h : CompKey.addrOk b = true) : Go.verifyAddressFormat b = none := by
  unfold CompKey.addrOk at h
  unfold Go.verifyAddressFormat
  simp only [Bool.and_eq_true, decide_eq_true_eq] at h
  rw [if_neg (by omega), if_neg (by omega)]

/-! ## `FromByteSlices`, accepting direction -/

theorem owner_fromBytes (k0 : aoltypes.OwnerCompositeKey) (vs comps : List Bytes)
    (h : CompKey.fromByteSlices .owner vs = .ok comps) :
    (aoltypes.OwnerCompositeKey.asCompositeKey bech).FromByteSlices (some k0) vs = P.ok (none, some (ownerOf comps)) := by
  match vs, h with
  | [o], h =>
    simp only [CompKey.fromByteSlices] at h
    split at h
    · rename_i hok
      cases h
      simp [aoltypes.OwnerCompositeKey.asCompositeKey, aoltypes.OwnerCompositeKey.FromByteSlices, Go.len, idx0,
        verifyAddr_ok o hok, Go.deref, ownerOf]
      rfl
    · cases h

theorem topic_fromBytes (k0 : aoltypes.TopicCompositeKey) (vs comps : List Bytes)
    (h : CompKey.fromByteSlices .topic vs = .ok comps) :
    (aoltypes.TopicCompositeKey.asCompositeKey bech).FromByteSlices (some k0) vs = P.ok (none, some (topicOf comps)) := by
  match vs, h with
  | [o, t], h =>
    simp only [CompKey.fromByteSlices] at h
    split at h
    · rename_i hok
      cases h
      simp [aoltypes.TopicCompositeKey.asCompositeKey, aoltypes.TopicCompositeKey.FromByteSlices, Go.len, idx0, idx1,
        verifyAddr_ok o hok, Go.deref, topicOf]
      rfl
    · cases h

theorem writer_fromBytes (k0 : aoltypes.WriterCompositeKey) (vs comps : List Bytes)
    (h : CompKey.fromByteSlices .writer vs = .ok comps) :
    (aoltypes.WriterCompositeKey.asCompositeKey bech).FromByteSlices (some k0) vs = P.ok (none, some (writerOf comps)) := by
  match vs, h with
  | [o, t, x], h =>
    simp only [CompKey.fromByteSlices] at h
    cases ho : CompKey.addrOk o with
    | false => simp [ho] at h
    | true =>
      cases hx : CompKey.addrOk x with
      | false => simp [ho, hx] at h
      | true =>
        simp only [ho, hx, Bool.not_true, Bool.false_eq_true, if_false, Outcome.ok.injEq] at h
        subst h
        simp [aoltypes.WriterCompositeKey.asCompositeKey, aoltypes.WriterCompositeKey.FromByteSlices, Go.len, idx0, idx1, idx2,
          verifyAddr_ok o ho, verifyAddr_ok x hx, Go.deref, writerOf]
        rfl

theorem fromBe64_lt (n : Bytes) (off : Nat) (h : fromBe64 n = some off) : off < 18446744073709551616 := by
  match n, h with
  | [a, b, c, d, e, f, g, i], h =>
    simp only [fromBe64, Option.some.injEq] at h
    have := a.toNat_lt; have := b.toNat_lt; have := c.toNat_lt; have := d.toNat_lt
    have := e.toNat_lt; have := f.toNat_lt; have := g.toNat_lt; have := i.toNat_lt
    omega

theorem be_take8 (n : Bytes) (h : n.length = 8) : n.take 8 = n := by
  rw [List.take_of_length_le (by omega)]

theorem record_fromBytes (k0 : aoltypes.RecordCompositeKey) (vs comps : List Bytes)
    (h : CompKey.fromByteSlices .record vs = .ok comps) :
    (aoltypes.RecordCompositeKey.asCompositeKey bech).FromByteSlices (some k0) vs = P.ok (none, some (recordOf comps)) := by
  match vs, h with
  | [o, t, n], h =>
    simp only [CompKey.fromByteSlices] at h
    cases ho : CompKey.addrOk o with
    | false => simp [ho] at h
    | true =>
      simp only [ho, Bool.not_true, Bool.false_eq_true, if_false, CompKey.offsetOfBytes] at h
      by_cases hl : n.length = 8
      · simp only [hl, ne_eq, not_true_eq_false, if_false] at h
        cases hf : fromBe64 n with
        | none => simp [hf] at h
        | some off =>
          simp only [hf, Outcome.ok.injEq] at h
          subst h
          have hlt : off < 18446744073709551616 := fromBe64_lt n off hf
          have hne : n ≠ [] := by intro hh; simp [hh] at hl
          simp [hne, aoltypes.RecordCompositeKey.asCompositeKey, aoltypes.RecordCompositeKey.FromByteSlices, Go.len, idx0, idx1, idx2,
            verifyAddr_ok o ho, hl, Go.deref, recordOf, Go.bigEndianToUint64, be_take8 n hl, hf,
            Panacea.fromBe64_be64 off hlt]
          rfl
      · simp [hl] at h

/-! ## `MustDecode` and the `GetAll…` walks -/

theorem mustDecode_ok {κ : Type} (I : compkey.CompositeKey κ) (bz : Bytes) (out res : κ) (vs : List Bytes)
    (hd : CompKey.decode bz = some vs) (hf : I.FromByteSlices out vs = P.ok (none, res)) :
    compkey.MustDecode I bz out = P.ok res := by
  unfold compkey.MustDecode
  simp only [decode_refines, decodeSpec, hd, hf, P.ok_bind]
  rfl

/-- the components of a stored key (`[]` for a key that does not decode — excluded by `KeysOK`) -/
def compsOf (kind : CompKey.Kind) (bz : Bytes) : List Bytes :=
  match CompKey.decodeTyped kind bz with
  | .ok c => c
  | _ => []

/-- every key under the table's prefix decodes as a key of the table's kind -/
def KeysOK (kind : CompKey.Kind) (pfx : UInt8) (w : World) : Prop :=
  ∀ e ∈ (w.store "aol").prefixView [pfx], ∃ comps, CompKey.decodeTyped kind e.1 = .ok comps

theorem decodeTyped_split (kind : CompKey.Kind) (bz : Bytes) (comps : List Bytes)
    (h : CompKey.decodeTyped kind bz = .ok comps) :
    ∃ vs, CompKey.decode bz = some vs ∧ CompKey.fromByteSlices kind vs = .ok comps := by
  unfold CompKey.decodeTyped at h
  cases hd : CompKey.decode bz with
  | none => simp [hd] at h
  | some vs => exact ⟨vs, rfl, by simpa [hd] using h⟩

theorem collect2 {α β γ : Type} (l : List γ) (f : γ → α) (g : γ → β)
    (body : γ → List α × List β → P (ForInStep (List α × List β)))
    (hb : ∀ x ∈ l, ∀ s, body x s = P.ok (.yield (s.1 ++ [f x], s.2 ++ [g x]))) :
    ∀ s, forIn l s body = P.ok (s.1 ++ l.map f, s.2 ++ l.map g) := by
  induction l with
  | nil => intro s; simp
  | cons x l ih =>
    intro s
    simp only [List.forIn_cons, hb x (by simp) s, P.ok_bind]
    rw [ih (fun y hy => hb y (List.mem_cons_of_mem _ hy))]
    simp

theorem make0 {α : Type} [Inhabited α] : (Go.make (0 : Int) : P (List α)) = P.ok [] := by
  unfold Go.make; simp

theorem value_ok (G : Type) [Inhabited G] [Go.Proto G] (w : World) (pfx : UInt8) (hs : (w.store "aol").Sorted)
    (hd : Decodes G (w.store "aol") [pfx]) (e : Bytes × Bytes) (he : e ∈ (w.store "aol").prefixView [pfx]) :
    (Go.mustUnmarshal e.2 : P G) = P.ok ((Go.Proto.unmarshal e.2 : Option G).getD default) := by
  have hm : ([pfx] ++ e.1, e.2) ∈ w.store "aol" := Map.mem_prefixView.mp he
  have hg := Map.get_of_mem_sorted hs hm
  have := hd e.1 e.2 hg
  unfold Go.mustUnmarshal
  cases hu : (Go.Proto.unmarshal e.2 : Option G) with
  | none => rw [hu] at this; cases this
  | some x => rfl

theorem getAllTopics_run (w : World) (hwf : WF w) (hk : KeysOK .topic 1 w) :
    aolkeeper.Keeper.GetAllTopics bech w =
      P.ok (((w.store "aol").prefixView [1]).map (fun e => topicOf (compsOf .topic e.1)),
            ((w.store "aol").prefixView [1]).map (fun e => ((Go.Proto.unmarshal e.2 : Option aoltypes.Topic).getD default)), w) := by
  unfold aolkeeper.Keeper.GetAllTopics
  simp only [make0, P.ok_bind, Go.Store.iterate, Go.prefixStore, Go.kvStore, aoltypes.TopicKeyPrefix, List.append_nil,
    List.nil_append]
  rw [collect2 (List.map (fun e => (e.1, e.2)) ((w.store "aol").prefixView [1])) (fun e => topicOf (compsOf .topic e.1))
    (fun e => ((Go.Proto.unmarshal e.2 : Option aoltypes.Topic).getD default)) _ ?_ ([], [])]
  · simp [List.map_map, Function.comp_def]
  · intro x hx s
    have hx' : x ∈ (w.store "aol").prefixView [1] := by simpa using hx
    obtain ⟨comps, hc⟩ := hk x hx'
    obtain ⟨vs, hd, hf⟩ := decodeTyped_split _ _ _ hc
    rw [mustDecode_ok _ _ _ _ vs hd (topic_fromBytes bech default vs comps hf)]
    simp only [P.ok_bind, deref_some, value_ok aoltypes.Topic w 1 hwf.sorted hwf.topics x hx', compsOf, hc, P.pure_eq]

theorem getAllOwners_run (w : World) (hwf : WF w) (hk : KeysOK .owner 0 w) :
    aolkeeper.Keeper.GetAllOwners bech w =
      P.ok (((w.store "aol").prefixView [0]).map (fun e => ownerOf (compsOf .owner e.1)),
            ((w.store "aol").prefixView [0]).map (fun e => ((Go.Proto.unmarshal e.2 : Option aoltypes.Owner).getD default)), w) := by
  unfold aolkeeper.Keeper.GetAllOwners
  simp only [make0, P.ok_bind, Go.Store.iterate, Go.prefixStore, Go.kvStore, aoltypes.OwnerKeyPrefix, List.append_nil,
    List.nil_append]
  rw [collect2 (List.map (fun e => (e.1, e.2)) ((w.store "aol").prefixView [0])) (fun e => ownerOf (compsOf .owner e.1))
    (fun e => ((Go.Proto.unmarshal e.2 : Option aoltypes.Owner).getD default)) _ ?_ ([], [])]
  · simp [List.map_map, Function.comp_def]
  · intro x hx s
    have hx' : x ∈ (w.store "aol").prefixView [0] := by simpa using hx
    obtain ⟨comps, hc⟩ := hk x hx'
    obtain ⟨vs, hd, hf⟩ := decodeTyped_split _ _ _ hc
    rw [mustDecode_ok _ _ _ _ vs hd (owner_fromBytes bech default vs comps hf)]
    simp only [P.ok_bind, deref_some, value_ok aoltypes.Owner w 0 hwf.sorted hwf.owners x hx', compsOf, hc, P.pure_eq]

theorem getAllWriters_run (w : World) (hwf : WF w) (hk : KeysOK .writer 2 w) :
    aolkeeper.Keeper.GetAllWriters bech w =
      P.ok (((w.store "aol").prefixView [2]).map (fun e => writerOf (compsOf .writer e.1)),
            ((w.store "aol").prefixView [2]).map (fun e => ((Go.Proto.unmarshal e.2 : Option aoltypes.Writer).getD default)), w) := by
  unfold aolkeeper.Keeper.GetAllWriters
  simp only [make0, P.ok_bind, Go.Store.iterate, Go.prefixStore, Go.kvStore, aoltypes.WriterKeyPrefix, List.append_nil,
    List.nil_append]
  rw [collect2 (List.map (fun e => (e.1, e.2)) ((w.store "aol").prefixView [2])) (fun e => writerOf (compsOf .writer e.1))
    (fun e => ((Go.Proto.unmarshal e.2 : Option aoltypes.Writer).getD default)) _ ?_ ([], [])]
  · simp [List.map_map, Function.comp_def]
  · intro x hx s
    have hx' : x ∈ (w.store "aol").prefixView [2] := by simpa using hx
    obtain ⟨comps, hc⟩ := hk x hx'
    obtain ⟨vs, hd, hf⟩ := decodeTyped_split _ _ _ hc
    rw [mustDecode_ok _ _ _ _ vs hd (writer_fromBytes bech default vs comps hf)]
    simp only [P.ok_bind, deref_some, value_ok aoltypes.Writer w 2 hwf.sorted hwf.writers x hx', compsOf, hc, P.pure_eq]

theorem getAllRecords_run (w : World) (hwf : WF w) (hk : KeysOK .record 3 w) :
    aolkeeper.Keeper.GetAllRecords bech w =
      P.ok (((w.store "aol").prefixView [3]).map (fun e => recordOf (compsOf .record e.1)),
            ((w.store "aol").prefixView [3]).map (fun e => ((Go.Proto.unmarshal e.2 : Option aoltypes.Record).getD default)), w) := by
  unfold aolkeeper.Keeper.GetAllRecords
  simp only [make0, P.ok_bind, Go.Store.iterate, Go.prefixStore, Go.kvStore, aoltypes.RecordKeyPrefix, List.append_nil,
    List.nil_append]
  rw [collect2 (List.map (fun e => (e.1, e.2)) ((w.store "aol").prefixView [3])) (fun e => recordOf (compsOf .record e.1))
    (fun e => ((Go.Proto.unmarshal e.2 : Option aoltypes.Record).getD default)) _ ?_ ([], [])]
  · simp [List.map_map, Function.comp_def]
  · intro x hx s
    have hx' : x ∈ (w.store "aol").prefixView [3] := by simpa using hx
    obtain ⟨comps, hc⟩ := hk x hx'
    obtain ⟨vs, hd, hf⟩ := decodeTyped_split _ _ _ hc
    rw [mustDecode_ok _ _ _ _ vs hd (record_fromBytes bech default vs comps hf)]
    simp only [P.ok_bind, deref_some, value_ok aoltypes.Record w 3 hwf.sorted hwf.records x hx', compsOf, hc, P.pure_eq]

/-! ## the four loops of `ExportGenesis` -/

def enumK {α : Type} (s : Nat) : List α → List (Int × α)
  | [] => []
  | x :: xs => ((s : Int), x) :: enumK (s + 1) xs

theorem enum_eqK {α : Type} (xs : List α) : Go.enum xs = enumK 0 xs := by
  have h : ∀ (xs : List α) (s : Nat),
      ((List.range' s xs.length).zip xs).map (fun p => ((p.1 : Int), p.2)) = enumK s xs := by
    intro xs
    induction xs with
    | nil => intro s; simp [enumK]
    | cons x xs ih => intro s; simp [enumK, List.range'_succ, ih (s + 1)]
  unfold Go.enum
  rw [List.range_eq_range']
  exact h xs 0

theorem idx_append {α : Type} (pre : List α) (v : α) (rest : List α) :
    Go.idx (pre ++ v :: rest) (pre.length : Int) = P.ok v := by
  unfold Go.idx
  rw [if_neg (by omega)]
  simp

/-- one export loop: the keys rendered as strings, each with the value at the same position, `m[k] = v` into the field -/
theorem export_loop {K G S : Type} (str : K → Bytes) (getF : S → Go.GoMap (Option G)) (setF : S → Go.GoMap (Option G) → S)
    (h1 : ∀ s, setF s (getF s) = s) (h2 : ∀ s t, getF (setF s t) = t) (h3 : ∀ s t t', setF (setF s t) t' = setF s t')
    (body : Int × K → Option S → P (ForInStep (Option S))) (allv : List G) (Pk : K → Prop)
    (hb : ∀ (i : Nat) (k : K) (x : G) (g : S), Pk k → Go.idx allv (i : Int) = P.ok x →
      body ((i : Int), k) (some g) = P.ok (.yield (some (setF g (Go.mapSet (getF g) (str k) (some x))))))
    (ks : List K) : (∀ k ∈ ks, Pk k) → ∀ (pre vs : List G), allv = pre ++ vs → ks.length = vs.length → ∀ g : S,
      forIn (enumK pre.length ks) (some g) body =
        P.ok (some (setF g ((ks.zip vs).foldl (fun m e => Go.mapSet m (str e.1) (some e.2)) (getF g)))) := by
  induction ks with
  | nil =>
    intro _ pre vs _ hl g
    cases vs with
    | nil => simp [enumK, h1]
    | cons _ _ => simp at hl
  | cons k ks ih =>
    intro hP pre vs hall hl g
    cases vs with
    | nil => simp at hl
    | cons v vs =>
      simp only [enumK, List.forIn_cons]
      rw [hb pre.length k v g (hP k (by simp)) (by rw [hall]; exact idx_append pre v vs)]
      simp only [P.ok_bind]
      have := ih (fun k' hk' => hP k' (List.mem_cons_of_mem _ hk')) (pre ++ [v]) vs (by rw [hall]; simp) (by simpa using hl) (setF g (Go.mapSet (getF g) (str k) (some v)))
      simp only [List.length_append, List.length_cons, List.length_nil, Nat.zero_add] at this
      rw [this]
      simp only [List.zip_cons_cons, List.foldl_cons, h2, h3]

theorem export_loop0 {K G S : Type} (str : K → Bytes) (getF : S → Go.GoMap (Option G)) (setF : S → Go.GoMap (Option G) → S)
    (h1 : ∀ s, setF s (getF s) = s) (h2 : ∀ s t, getF (setF s t) = t) (h3 : ∀ s t t', setF (setF s t) t' = setF s t')
    (body : Int × K → Option S → P (ForInStep (Option S))) (vs : List G) (Pk : K → Prop)
    (hb : ∀ (i : Nat) (k : K) (x : G) (g : S), Pk k → Go.idx vs (i : Int) = P.ok x →
      body ((i : Int), k) (some g) = P.ok (.yield (some (setF g (Go.mapSet (getF g) (str k) (some x))))))
    (ks : List K) (hP : ∀ k ∈ ks, Pk k) (hl : ks.length = vs.length) (g : S) :
    forIn (enumK 0 ks) (some g) body =
      P.ok (some (setF g ((ks.zip vs).foldl (fun m e => Go.mapSet m (str e.1) (some e.2)) (getF g)))) := by
  have := export_loop str getF setF h1 h2 h3 body vs Pk hb ks hP [] vs rfl hl g
  simpa using this

/-- the string a key is exported under -/
def strO (k : aoltypes.OwnerCompositeKey) : Bytes := CompKey.encodeToString (toCodec bech) .owner [k.OwnerAddress]
def strT (k : aoltypes.TopicCompositeKey) : Bytes := CompKey.encodeToString (toCodec bech) .topic [k.OwnerAddress, k.TopicName]
def strW (k : aoltypes.WriterCompositeKey) : Bytes :=
  CompKey.encodeToString (toCodec bech) .writer [k.OwnerAddress, k.TopicName, k.WriterAddress]
def strR (k : aoltypes.RecordCompositeKey) : Bytes :=
  CompKey.encodeToString (toCodec bech) .record [k.OwnerAddress, k.TopicName, be64 k.Offset]

theorem encO (k : aoltypes.OwnerCompositeKey) :
    compkey.EncodeToString (aoltypes.OwnerCompositeKey.asCompositeKey bech) (some k) [47] = P.ok (strO bech k) :=
  encodeToString_run _ _ _ (owner_strings bech k)
theorem encT (k : aoltypes.TopicCompositeKey) :
    compkey.EncodeToString (aoltypes.TopicCompositeKey.asCompositeKey bech) (some k) [47] = P.ok (strT bech k) :=
  encodeToString_run _ _ _ (topic_strings bech k)
theorem encW (k : aoltypes.WriterCompositeKey) :
    compkey.EncodeToString (aoltypes.WriterCompositeKey.asCompositeKey bech) (some k) [47] = P.ok (strW bech k) :=
  encodeToString_run _ _ _ (writer_strings bech k)
theorem encR (k : aoltypes.RecordCompositeKey) (hk : k.Offset < 2 ^ 64) :
    compkey.EncodeToString (aoltypes.RecordCompositeKey.asCompositeKey bech) (some k) [47] = P.ok (strR bech k) :=
  encodeToString_run _ _ _ (record_strings bech k hk)

theorem recordOf_lt (comps : List Bytes) : (recordOf comps).Offset < 2 ^ 64 := by
  unfold recordOf
  split
  · rename_i a t n
    cases hf : fromBe64 n with
    | none => simp
    | some off => have := fromBe64_lt n off hf; simp; omega
  · simp [default, instInhabitedNat]
    decide

/-- the map a loop of `ExportGenesis` builds from the keys and values of one table -/
def expMap {K G : Type} (str : K → Bytes) (ks : List K) (vs : List G) : Go.GoMap (Option G) :=
  (ks.zip vs).foldl (fun m e => Go.mapSet m (str e.1) (some e.2)) []

abbrev keysO (w : World) := ((w.store "aol").prefixView [0]).map (fun e => ownerOf (compsOf .owner e.1))
abbrev keysT (w : World) := ((w.store "aol").prefixView [1]).map (fun e => topicOf (compsOf .topic e.1))
abbrev keysW (w : World) := ((w.store "aol").prefixView [2]).map (fun e => writerOf (compsOf .writer e.1))
abbrev keysR (w : World) := ((w.store "aol").prefixView [3]).map (fun e => recordOf (compsOf .record e.1))
abbrev valsOf (G : Type) [Inhabited G] [Go.Proto G] (pfx : UInt8) (w : World) : List G :=
  ((w.store "aol").prefixView [pfx]).map (fun e => ((Go.Proto.unmarshal e.2 : Option G).getD default))

theorem exportGenesis_run (w : World) (hwf : WF w) (h0 : KeysOK .owner 0 w) (h1 : KeysOK .topic 1 w)
    (h2 : KeysOK .writer 2 w) (h3 : KeysOK .record 3 w) :
    aol.ExportGenesis bech w = P.ok (some
      { Owners := expMap (strO bech) (keysO w) (valsOf aoltypes.Owner 0 w),
        Topics := expMap (strT bech) (keysT w) (valsOf aoltypes.Topic 1 w),
        Writers := expMap (strW bech) (keysW w) (valsOf aoltypes.Writer 2 w),
        Records := expMap (strR bech) (keysR w) (valsOf aoltypes.Record 3 w) }, w) := by
  unfold aol.ExportGenesis aoltypes.DefaultGenesis
  simp only [P.pure_eq, P.ok_bind, getAllOwners_run bech w hwf h0, getAllTopics_run bech w hwf h1,
    getAllWriters_run bech w hwf h2, getAllRecords_run bech w hwf h3, enum_eqK]
  rw [export_loop0 (strO bech) (·.Owners) (fun s t => { s with Owners := t }) (fun _ => rfl) (fun _ _ => rfl)
    (fun _ _ _ => rfl) _ (valsOf aoltypes.Owner 0 w) (fun _ => True) ?_ (keysO w) (fun _ _ => trivial)
    (by simp [keysO, valsOf])]
  · simp only [P.ok_bind]
    rw [export_loop0 (strT bech) (·.Topics) (fun s t => { s with Topics := t }) (fun _ => rfl) (fun _ _ => rfl)
      (fun _ _ _ => rfl) _ (valsOf aoltypes.Topic 1 w) (fun _ => True) ?_ (keysT w) (fun _ _ => trivial)
      (by simp [keysT, valsOf])]
    · simp only [P.ok_bind]
      rw [export_loop0 (strW bech) (·.Writers) (fun s t => { s with Writers := t }) (fun _ => rfl) (fun _ _ => rfl)
        (fun _ _ _ => rfl) _ (valsOf aoltypes.Writer 2 w) (fun _ => True) ?_ (keysW w) (fun _ _ => trivial)
        (by simp [keysW, valsOf])]
      · simp only [P.ok_bind]
        rw [export_loop0 (strR bech) (·.Records) (fun s t => { s with Records := t }) (fun _ => rfl) (fun _ _ => rfl)
          (fun _ _ _ => rfl) _ (valsOf aoltypes.Record 3 w) (fun k => k.Offset < 2 ^ 64) ?_ (keysR w)
          (by intro k hk; simp only [keysR, List.mem_map] at hk; obtain ⟨e, _, rfl⟩ := hk; exact recordOf_lt _)
          (by simp [keysR, valsOf])]
        · rfl
        · intro i k x g hk hi
          simp only [deref_some, P.ok_bind, encR bech k hk, hi, P.pure_eq]
      · intro i k x g _ hi
        simp only [deref_some, P.ok_bind, encW bech k, hi, P.pure_eq]
    · intro i k x g _ hi
      simp only [deref_some, P.ok_bind, encT bech k, hi, P.pure_eq]
  · intro i k x g _ hi
    simp only [deref_some, P.ok_bind, encO bech k, hi, P.pure_eq]

/-! ## the exported maps as entry lists, and what they stand for -/

theorem mapSet_fresh {α : Type} (m : Go.GoMap α) (k : Bytes) (v : α) (h : k ∉ m.map (·.1)) :
    Go.mapSet m k v = m ++ [(k, v)] := by
  unfold Go.mapSet
  have : m.any (fun e => e.1 == k) = false := by
    rw [List.any_eq_false]
    intro e he hek
    exact h (List.mem_map.mpr ⟨e, he, by simpa using hek⟩)
  rw [this]; rfl

theorem fold_mapSet_nodup {G : Type} (l : List (Bytes × G)) (hn : (l.map (·.1)).Nodup) :
    ∀ acc : Go.GoMap (Option G), (∀ k ∈ l.map (·.1), k ∉ acc.map (·.1)) →
      l.foldl (fun m e => Go.mapSet m e.1 (some e.2)) acc = acc ++ l.map (fun e => (e.1, some e.2)) := by
  induction l with
  | nil => intro acc _; simp
  | cons e l ih =>
    intro acc hacc
    simp only [List.map_cons, List.nodup_cons] at hn
    simp only [List.foldl_cons, List.map_cons]
    rw [mapSet_fresh acc e.1 _ (hacc e.1 (by simp))]
    rw [ih hn.2 (acc ++ [(e.1, some e.2)]) ?_]
    · simp
    · intro k hk
      simp only [List.map_append, List.map_cons, List.map_nil, List.mem_append, List.mem_singleton, not_or]
      refine ⟨hacc k (by simp [hk]), ?_⟩
      intro hke; subst hke; exact hn.1 hk

theorem expMap_ent {K G : Type} (str : K → Bytes) (ks : List K) (vs : List G)
    (hn : ((ks.zip vs).map (fun e => str e.1)).Nodup) :
    expMap str ks vs = ent ((ks.zip vs).map fun e => (str e.1, e.2)) := by
  unfold expMap ent
  have := fold_mapSet_nodup ((ks.zip vs).map fun e => (str e.1, e.2)) (by simpa [List.map_map, Function.comp_def] using hn) []
    (by intro k _; simp)
  rw [List.foldl_map] at this
  simpa [List.map_map, Function.comp_def] using this

theorem zip_map_same {α β γ : Type} (l : List α) (f : α → β) (g : α → γ) :
    (l.map f).zip (l.map g) = l.map (fun e => (f e, g e)) := by
  induction l with
  | nil => rfl
  | cons x l ih => simp [ih]

theorem exportTable_ok {V : Type} (c : CompKey.AddrCodec) (k : CompKey.Kind) (m : Map V)
    (h : ∀ e ∈ m, ∃ comps, CompKey.decodeTyped k e.1 = .ok comps) :
    Genesis.exportTable c k m = .ok (m.map fun e => (CompKey.encodeToString c k (compsOf k e.1), e.2)) := by
  unfold Genesis.exportTable
  induction m with
  | nil => rfl
  | cons e m ih =>
    obtain ⟨comps, hc⟩ := h e (by simp)
    simp only [List.foldr_cons, List.map_cons]
    rw [ih (fun e' he' => h e' (List.mem_cons_of_mem _ he'))]
    simp [bind, Outcome.bind, hc, compsOf]

/-- every key under the prefix is the encoding of an admitted tuple of the table's kind -/
def AdmittedAt (kind : CompKey.Kind) (pfx : UInt8) (w : World) : Prop :=
  ∀ e ∈ (w.store "aol").prefixView [pfx], ∃ comps, CompKey.encode comps = some e.1 ∧ C18.Admitted kind comps ∧
    CompKey.decodeTyped kind e.1 = .ok comps

theorem keysOK_of_admitted (kind : CompKey.Kind) (pfx : UInt8) (w : World) (h : AdmittedAt kind pfx w) : KeysOK kind pfx w :=
  fun e he => let ⟨c, _, _, hd⟩ := h e he; ⟨c, hd⟩

theorem prefixView_sorted' {V : Type} (m : Map V) (hs : m.Sorted) (p : Bytes) : Map.Sorted (m.prefixView p) := by
  unfold Map.Sorted Map.keys Map.prefixView at *
  rw [List.map_map, List.pairwise_map]
  have h1 : m.Pairwise (fun a b => Bytes.lt a.1 b.1 = true) := List.pairwise_map.mp hs
  have h2 := h1.filter (fun e => p.isPrefixOf e.1)
  refine List.Pairwise.imp_of_mem ?_ h2
  intro a b ha hb hlt
  have pa : p.isPrefixOf a.1 = true := (List.mem_filter.mp ha).2
  have pb : p.isPrefixOf b.1 = true := (List.mem_filter.mp hb).2
  obtain ⟨ra, hra⟩ := (Map.isPrefixOf_iff' _ _).mp pa
  obtain ⟨rb, hrb⟩ := (Map.isPrefixOf_iff' _ _).mp pb
  simp only [Function.comp_apply]
  rw [← hra, ← hrb] at hlt ⊢
  simp only [List.drop_left']
  rw [Map.lt_append_left] at hlt
  simpa using hlt

theorem nodup_map_on {α β : Type} (l : List α) (f : α → β) (hl : l.Nodup)
    (hf : ∀ a ∈ l, ∀ b ∈ l, f a = f b → a = b) : (l.map f).Nodup := by
  unfold List.Nodup at *
  rw [List.pairwise_map]
  exact List.Pairwise.imp_of_mem (fun {a b} ha hb hne heq => hne (hf a ha b hb heq)) hl

/-- distinct stored keys are exported under distinct strings -/
theorem strs_nodup (hc : (toCodec bech).Lawful) (kind : CompKey.Kind) (pfx : UInt8) (w : World) (hs : (w.store "aol").Sorted)
    (ha : AdmittedAt kind pfx w) :
    (((w.store "aol").prefixView [pfx]).map
      (fun e => CompKey.encodeToString (toCodec bech) kind (compsOf kind e.1))).Nodup := by
  have hsp := prefixView_sorted' (w.store "aol") hs [pfx]
  have hk : (((w.store "aol").prefixView [pfx]).map (·.1)).Nodup := by
    have : Map.Sorted ((w.store "aol").prefixView [pfx]) := hsp
    unfold Map.Sorted Map.keys at this
    exact this.imp (fun h => Bytes.lt_ne _ _ h)
  have hinj : ∀ e1 ∈ (w.store "aol").prefixView [pfx], ∀ e2 ∈ (w.store "aol").prefixView [pfx],
      CompKey.encodeToString (toCodec bech) kind (compsOf kind e1.1) =
        CompKey.encodeToString (toCodec bech) kind (compsOf kind e2.1) → e1.1 = e2.1 := by
    intro e1 h1 e2 h2 heq
    obtain ⟨c1, he1, ha1, hd1⟩ := ha e1 h1
    obtain ⟨c2, he2, ha2, hd2⟩ := ha e2 h2
    simp only [compsOf, hd1, hd2] at heq
    have r1 := C18.string_roundtrip_admitted (toCodec bech) hc kind c1 ha1
    have r2 := C18.string_roundtrip_admitted (toCodec bech) hc kind c2 ha2
    rw [heq, r2] at r1
    have : c2 = c1 := by simpa using r1
    subst this
    rw [he1] at he2
    exact (Option.some.inj he2)
  have : (((w.store "aol").prefixView [pfx]).map (·.1)).map (fun k => CompKey.encodeToString (toCodec bech) kind (compsOf kind k)) =
      ((w.store "aol").prefixView [pfx]).map (fun e => CompKey.encodeToString (toCodec bech) kind (compsOf kind e.1)) := by
    simp [List.map_map, Function.comp_def]
  rw [← this]
  refine nodup_map_on _ _ hk ?_
  intro k1 hk1 k2 hk2 heq
  obtain ⟨e1, he1, rfl⟩ := List.mem_map.mp hk1
  obtain ⟨e2, he2, rfl⟩ := List.mem_map.mp hk2
  exact hinj e1 he1 e2 he2 heq

/-! ## the string of a decoded key is the model's string of its components -/

theorem strO_of (bz : Bytes) (comps : List Bytes) (h : CompKey.decodeTyped .owner bz = .ok comps) :
    strO bech (ownerOf comps) = CompKey.encodeToString (toCodec bech) .owner comps := by
  obtain ⟨vs, _, hf⟩ := decodeTyped_split _ _ _ h
  match vs, hf with
  | [o], hf =>
    simp only [CompKey.fromByteSlices] at hf
    split at hf
    · cases hf; rfl
    · cases hf

theorem strT_of (bz : Bytes) (comps : List Bytes) (h : CompKey.decodeTyped .topic bz = .ok comps) :
    strT bech (topicOf comps) = CompKey.encodeToString (toCodec bech) .topic comps := by
  obtain ⟨vs, _, hf⟩ := decodeTyped_split _ _ _ h
  match vs, hf with
  | [o, t], hf =>
    simp only [CompKey.fromByteSlices] at hf
    split at hf
    · cases hf; rfl
    · cases hf

theorem strW_of (bz : Bytes) (comps : List Bytes) (h : CompKey.decodeTyped .writer bz = .ok comps) :
    strW bech (writerOf comps) = CompKey.encodeToString (toCodec bech) .writer comps := by
  obtain ⟨vs, _, hf⟩ := decodeTyped_split _ _ _ h
  match vs, hf with
  | [o, t, x], hf =>
    simp only [CompKey.fromByteSlices] at hf
    cases ho : CompKey.addrOk o with
    | false => simp [ho] at hf
    | true =>
      cases hx : CompKey.addrOk x with
      | false => simp [ho, hx] at hf
      | true =>
        simp only [ho, hx, Bool.not_true, Bool.false_eq_true, if_false, Outcome.ok.injEq] at hf
        subst hf; rfl

theorem strR_of (bz : Bytes) (comps : List Bytes) (h : CompKey.decodeTyped .record bz = .ok comps) :
    strR bech (recordOf comps) = CompKey.encodeToString (toCodec bech) .record comps := by
  obtain ⟨vs, _, hf⟩ := decodeTyped_split _ _ _ h
  match vs, hf with
  | [o, t, n], hf =>
    simp only [CompKey.fromByteSlices] at hf
    cases ho : CompKey.addrOk o with
    | false => simp [ho] at hf
    | true =>
      simp only [ho, Bool.not_true, Bool.false_eq_true, if_false, CompKey.offsetOfBytes] at hf
      by_cases hl : n.length = 8
      · simp only [hl, ne_eq, not_true_eq_false, if_false] at hf
        cases hfb : fromBe64 n with
        | none => simp [hfb] at hf
        | some off =>
          simp only [hfb, Outcome.ok.injEq] at hf
          subst hf
          have hlt := fromBe64_lt n off hfb
          simp [strR, recordOf, Panacea.fromBe64_be64 off hlt]
      · simp [hl] at hf

/-! ## export as entry lists; the round trip -/

/-- the entries of one exported table: the model's string of every stored key, with the decoded value -/
def expList (G : Type) [Inhabited G] [Go.Proto G] (kind : CompKey.Kind) (pfx : UInt8) (w : World) : List (Bytes × G) :=
  ((w.store "aol").prefixView [pfx]).map
    (fun e => (CompKey.encodeToString (toCodec bech) kind (compsOf kind e.1), ((Go.Proto.unmarshal e.2 : Option G).getD default)))

theorem expMap_list {K G : Type} [Inhabited G] [Go.Proto G] (hc : (toCodec bech).Lawful) (kind : CompKey.Kind) (pfx : UInt8)
    (w : World) (hs : (w.store "aol").Sorted) (ha : AdmittedAt kind pfx w) (str : K → Bytes) (kOf : List Bytes → K)
    (hstr : ∀ bz comps, CompKey.decodeTyped kind bz = .ok comps →
      str (kOf comps) = CompKey.encodeToString (toCodec bech) kind comps) :
    expMap str (((w.store "aol").prefixView [pfx]).map (fun e => kOf (compsOf kind e.1)))
      (((w.store "aol").prefixView [pfx]).map (fun e => ((Go.Proto.unmarshal e.2 : Option G).getD default))) =
    ent (expList bech G kind pfx w) := by
  have hcongr : ((w.store "aol").prefixView [pfx]).map (fun e => str (kOf (compsOf kind e.1))) =
      ((w.store "aol").prefixView [pfx]).map (fun e => CompKey.encodeToString (toCodec bech) kind (compsOf kind e.1)) := by
    apply List.map_congr_left
    intro e he
    obtain ⟨c, _, _, hd⟩ := ha e he
    have : compsOf kind e.1 = c := by simp [compsOf, hd]
    rw [this]; exact hstr e.1 c hd
  rw [expMap_ent]
  · rw [zip_map_same]
    unfold expList
    congr 1
    rw [List.map_map]
    apply List.map_congr_left
    intro e he
    obtain ⟨c, _, _, hd⟩ := ha e he
    have : compsOf kind e.1 = c := by simp [compsOf, hd]
    simp only [Function.comp_apply, this]
    rw [hstr e.1 c hd]
  · rw [zip_map_same, List.map_map]
    have := strs_nodup bech hc kind pfx w hs ha
    rw [← hcongr] at this
    simpa [Function.comp_def] using this

/-- `ExportGenesis` of a well-formed world whose keys are admitted: the four maps, entry by entry -/
theorem exportGenesis_ent (hc : (toCodec bech).Lawful) (w : World) (hwf : WF w)
    (a0 : AdmittedAt .owner 0 w) (a1 : AdmittedAt .topic 1 w) (a2 : AdmittedAt .writer 2 w) (a3 : AdmittedAt .record 3 w) :
    aol.ExportGenesis bech w = P.ok (some
      { Owners := ent (expList bech aoltypes.Owner .owner 0 w), Topics := ent (expList bech aoltypes.Topic .topic 1 w),
        Writers := ent (expList bech aoltypes.Writer .writer 2 w), Records := ent (expList bech aoltypes.Record .record 3 w) }, w) := by
  rw [exportGenesis_run bech w hwf (keysOK_of_admitted _ _ _ a0) (keysOK_of_admitted _ _ _ a1)
    (keysOK_of_admitted _ _ _ a2) (keysOK_of_admitted _ _ _ a3)]
  rw [expMap_list bech hc .owner 0 w hwf.sorted a0 (strO bech) ownerOf (strO_of bech),
    expMap_list bech hc .topic 1 w hwf.sorted a1 (strT bech) topicOf (strT_of bech),
    expMap_list bech hc .writer 2 w hwf.sorted a2 (strW bech) writerOf (strW_of bech),
    expMap_list bech hc .record 3 w hwf.sorted a3 (strR bech) recordOf (strR_of bech)]

theorem table_eq {G V : Type} [Inhabited G] [Go.Proto G] (conv : G → V) (m : Map Bytes) (p : Bytes) :
    table conv m p = (m.prefixView p).map (fun e => (e.1, conv ((Go.Proto.unmarshal e.2 : Option G).getD default))) := by
  unfold table Map.mapVals; rfl

/-- the model's export of one table of `abs w` is the translated export's entry list, converted -/
theorem exportTable_abs {G V : Type} [Inhabited G] [Go.Proto G] (conv : G → V) (kind : CompKey.Kind) (pfx : UInt8) (w : World)
    (ha : AdmittedAt kind pfx w) :
    Genesis.exportTable (toCodec bech) kind (table conv (w.store "aol") [pfx]) =
      .ok ((expList bech G kind pfx w).map fun e => (e.1, conv e.2)) := by
  rw [table_eq, exportTable_ok]
  · unfold expList
    simp [List.map_map, Function.comp_def]
  · intro e he
    obtain ⟨e0, he0, rfl⟩ := List.mem_map.mp he
    obtain ⟨c, _, _, hd⟩ := ha e0 he0
    exact ⟨c, hd⟩

theorem keysAdmitted_abs {G V : Type} [Inhabited G] [Go.Proto G] (conv : G → V) (kind : CompKey.Kind) (pfx : UInt8) (w : World)
    (ha : AdmittedAt kind pfx w) : C08.KeysAdmitted kind (table conv (w.store "aol") [pfx]) := by
  intro key hkey
  rw [table_eq] at hkey
  unfold Map.keys at hkey
  simp only [List.map_map, List.mem_map, Function.comp_apply] at hkey
  obtain ⟨e, he, rfl⟩ := hkey
  exact ha e he

theorem table_sorted {G V : Type} [Inhabited G] [Go.Proto G] (conv : G → V) (m : Map Bytes) (hs : m.Sorted) (p : Bytes) :
    Map.Sorted (table conv m p) := by
  have := prefixView_sorted' m hs p
  rw [table_eq]
  unfold Map.Sorted Map.keys at *
  simpa [List.map_map, Function.comp_def] using this

/-- **C08 for x/aol on the translated code.**  For every well-formed world whose store keys are encodings of admitted
tuples (every world reachable by validated messages), and any lawful address codec: `ExportGenesis` succeeds and leaves
the world as it is, and `InitGenesis` of what it returned, on the empty store — in whatever order the four maps are
visited — succeeds and leaves a well-formed world that stands for the same AOL state: every owner, topic, writer and
record with its counters, monikers, descriptions, timestamps. -/
theorem genesis_roundtrip (hc : (toCodec bech).Lawful) (w : World) (hwf : WF w)
    (a0 : AdmittedAt .owner 0 w) (a1 : AdmittedAt .topic 1 w) (a2 : AdmittedAt .writer 2 w) (a3 : AdmittedAt .record 3 w) :
    ∃ g w', aol.ExportGenesis bech w = P.ok (some g, w) ∧ aol.InitGenesis bech g ({} : World) = P.ok w' ∧
      WF w' ∧ abs w' = abs w := by
  have hexp := exportGenesis_ent bech hc w hwf a0 a1 a2 a3
  have hmodel : Genesis.aolExport (toCodec bech) (abs w) =
      .ok (toG (expList bech aoltypes.Owner .owner 0 w) (expList bech aoltypes.Topic .topic 1 w)
        (expList bech aoltypes.Writer .writer 2 w) (expList bech aoltypes.Record .record 3 w)) := by
    unfold Genesis.aolExport abs absMap toG
    simp only [exportTable_abs bech toOwner .owner 0 w a0, exportTable_abs bech toTopic .topic 1 w a1,
      exportTable_abs bech toWriter .writer 2 w a2, exportTable_abs bech toRecord .record 3 w a3]
    rfl
  obtain ⟨w', hi, hwf', habs⟩ := initGenesis_of_export bech hc (abs w)
    (table_sorted toOwner _ hwf.sorted _) (table_sorted toTopic _ hwf.sorted _)
    (table_sorted toWriter _ hwf.sorted _) (table_sorted toRecord _ hwf.sorted _)
    (keysAdmitted_abs toOwner .owner 0 w a0) (keysAdmitted_abs toTopic .topic 1 w a1)
    (keysAdmitted_abs toWriter .writer 2 w a2) (keysAdmitted_abs toRecord .record 3 w a3)
    _ _ _ _ hmodel
  exact ⟨_, w', hexp, hi, hwf', habs⟩

/-- the premises are satisfiable by a non-empty world: one owner entry under a 20-byte address -/
example : ∃ w : World, (w.store "aol") ≠ [] ∧ WF w ∧ AdmittedAt .owner 0 w ∧ AdmittedAt .topic 1 w ∧
    AdmittedAt .writer 2 w ∧ AdmittedAt .record 3 w := by
  let k : Bytes := 20 :: List.replicate 20 1
  let m : Map Bytes := [([0] ++ k, Go.Proto.marshal (default : aoltypes.Owner))]
  have hm : (({} : World).setStore "aol" m).store "aol" = m := store_setStore _ _ _
  have hs : m.Sorted := by simp [m, Map.Sorted, Map.keys]
  have hwf : WFMap m := wf_set_owner [] ⟨by simp [Map.Sorted, Map.keys], by intro k v h; simp [Map.get] at h,
    by intro k v h; simp [Map.get] at h, by intro k v h; simp [Map.get] at h, by intro k v h; simp [Map.get] at h⟩ k default
  refine ⟨({} : World).setStore "aol" m, by rw [hm]; simp [m], by unfold WF; rw [hm]; exact hwf, ?_, ?_, ?_, ?_⟩
  · intro e he
    rw [hm] at he
    have : e = (k, Go.Proto.marshal (default : aoltypes.Owner)) := by
      simpa [m, Map.prefixView, k] using he
    subst this
    have h1 : CompKey.encode [List.replicate 20 1] = some (20 :: List.replicate 20 (1 : UInt8)) := by decide
    have h2 : CompKey.addrOk (List.replicate 20 (1 : UInt8)) = true := by decide
    have h3 : CompKey.decodeTyped .owner (20 :: List.replicate 20 (1 : UInt8)) = .ok [List.replicate 20 1] := by decide
    exact ⟨[List.replicate 20 1], h1, h2, h3⟩
  all_goals (intro e he; rw [hm] at he; simp [m, Map.prefixView, k] at he)

end
end Panacea.Refine.AolExport
