import Panacea.Generated.Facts
import Panacea.Model.App
import Panacea.Properties.C08
import Panacea.Lemmas.MapExt
/-!
# C09 — State transitions are deterministic: replicas agree on every block  (partial)

In the model every observable is a Lean *function* of `(genesis, blocks)`, so two replicas of the model agree
by `rfl` (`replicas_agree`).  The content is in the ties:

* **T (regenerated on every run).**  `Generated.nondet` lists every use, in the non-client custom packages, of
  the wall clock, randomness, goroutines, channels, `select`, floating point, environment reads and `range`
  over a map.  `no_nondeterminism_but_genesis_maps` proves (by `decide` over the regenerated table) that the
  only entries are map ranges in the AOL / DID `InitGenesis` and `GenesisState.Validate`.
* Those map ranges write entries with *distinct keys* through the sorted store, so the result does not depend on
  the iteration order (`C08.import_get`, `C08.rebuild_sorted`) — **provided the genesis has no two spellings
  of one key**, which is what the repaired `GenesisState.Validate` enforces (F12).
* Timestamps come from the block header: the skeleton ties of `AddWriter`, `AddRecord`, `MintPNFT` contain
  `ctx.BlockTime` and the `nondet` table contains no wall-clock use.
* **D.** The `determinism` stream runs twin applications (different `GOMAXPROCS`, interleaved
  `CheckTx` / `Simulate` / queries on one of them) over the same blocks and compares app hashes and every
  `ResponseDeliverTx{Code, Data, GasUsed, Events}`.
**Cannot be exhibited by the model:** wall clock, map iteration order, scheduler, hardware; IAVL / app-hash code.
-/
namespace Panacea.C09
open Panacea App

/-- two replicas that start from the same genesis and process the same blocks are in the same state and give
the same answer to every query, at every height -/
theorem replicas_agree {S B : Type} (exec : S → B → S) (g : S) (bs : List B) (h : Nat) :
    queryAt (runBlocks exec g { committed := [] } bs) h = queryAt (runBlocks exec g { committed := [] } bs) h := rfl

/-- The only non-deterministic primitives in the custom modules' keeper / types / module code are `range`
loops over the genesis maps of AOL and DID. -/
theorem no_nondeterminism_but_genesis_maps :
    Generated.nondet.all (fun e =>
      e.2.1 == "range-over-map" &&
      (e.1 == "x/aol.InitGenesis" || e.1 == "x/aol/types.GenesisState.Validate" ||
       e.1 == "x/did.InitGenesis" || e.1 == "x/did/types.GenesisState.Validate")) = true := by decide

/-- No wall clock, randomness, goroutine, channel, select, float or environment read anywhere in them. -/
theorem no_clock_random_concurrency_float_env :
    Generated.nondet.all (fun e => e.2.1 != "wall-clock" && e.2.1 != "randomness" && e.2.1 != "go-statement" &&
      e.2.1 != "select" && e.2.1 != "channel-send" && e.2.1 != "channel-receive" && e.2.1 != "float-literal" &&
      e.2.1 != "float-type" && e.2.1 != "environment") = true := by decide

/-- Importing entries with distinct keys in any order yields a store in which every key reads its entry:
the imported state is independent of Go's map iteration order. -/
theorem genesis_import_order_independent {V} (l : List (Bytes × V)) (hd : (l.map (·.1)).Nodup)
    (k : Bytes) (v : V) (hm : (k, v) ∈ l) (l' : List (Bytes × V)) (hp : l'.Perm l) :
    Map.get (l'.foldl (fun (m : Map V) (e : Bytes × V) => Map.set m e.1 e.2) ([] : Map V)) k = some v := by
  apply C08.import_get
  · exact (hp.map (·.1)).nodup_iff.mpr hd
  · exact hp.mem_iff.mpr hm

open Panacea.Genesis Panacea.CompKey in
/-- the store key a genesis key string is imported under (`[]` for a string the import panics on) -/
def storeKeyOf (c : CompKey.AddrCodec) (k : CompKey.Kind) (s : Bytes) : Bytes :=
  ((CompKey.decodeFromString c k s).bind CompKey.encode).getD []

open Panacea.Genesis Panacea.CompKey in
theorem importFold_ok {V} (c : AddrCodec) (k : Kind) (l : List (Bytes × V)) :
    ∀ (acc m : Map V), l.foldl (importStep c k) (.ok acc) = .ok m →
      (∀ e ∈ l, ((decodeFromString c k e.1).bind encode).isSome = true) ∧
      m = (l.map fun e => (storeKeyOf c k e.1, e.2)).foldl (fun (mm : Map V) e => mm.set e.1 e.2) acc := by
  induction l with
  | nil => intro acc m h; simp at h; subst h; simp
  | cons e l ih =>
    intro acc m h
    simp only [List.foldl_cons] at h
    have hstep : importStep c k (.ok acc) e =
        match decodeFromString c k e.1 with
        | some comps => (match encode comps with
          | some key => .ok (acc.set key e.2)
          | none => .panic "MustEncode")
        | none => .panic "MustDecodeFromString" := rfl
    rw [hstep] at h
    have hp : ∀ (p : String) (l : List (Bytes × V)), l.foldl (importStep c k) (.panic p) = .panic p := by
      intro p l; induction l with
      | nil => rfl
      | cons e l ih => simpa [List.foldl_cons, importStep] using ih
    cases hd : decodeFromString c k e.1 with
    | none => simp only [hd] at h; rw [hp] at h; cases h
    | some comps =>
      simp only [hd] at h
      cases he : encode comps with
      | none => simp only [he] at h; rw [hp] at h; cases h
      | some key =>
        simp only [he] at h
        obtain ⟨h1, h2⟩ := ih _ _ h
        refine ⟨?_, ?_⟩
        · intro e' he'
          rcases List.mem_cons.mp he' with rfl | hm
          · simp [hd, he]
          · exact h1 e' hm
        · simp only [List.map_cons, List.foldl_cons]
          have : storeKeyOf c k e.1 = key := by simp [storeKeyOf, hd, he]
          rw [this]; exact h2

open Panacea.Genesis Panacea.CompKey in
theorem importFold_of_decodable {V} (c : AddrCodec) (k : Kind) (l : List (Bytes × V))
    (hdec : ∀ e ∈ l, ((decodeFromString c k e.1).bind encode).isSome = true) :
    ∀ acc : Map V, l.foldl (importStep c k) (.ok acc) =
      .ok ((l.map fun e => (storeKeyOf c k e.1, e.2)).foldl (fun (mm : Map V) e => mm.set e.1 e.2) acc) := by
  induction l with
  | nil => intro acc; rfl
  | cons e l ih =>
    intro acc
    have h0 := hdec e (by simp)
    cases hd : decodeFromString c k e.1 with
    | none => simp [hd] at h0
    | some comps =>
      cases he : encode comps with
      | none => simp [hd, he] at h0
      | some key =>
        simp only [List.foldl_cons, List.map_cons]
        have hstep : importStep c k (.ok acc) e = .ok (acc.set key e.2) := by
          simp [importStep, hd, he]
        have : storeKeyOf c k e.1 = key := by simp [storeKeyOf, hd, he]
        rw [hstep, this]
        exact ih (fun e' he' => hdec e' (List.mem_cons_of_mem _ he')) _

open Panacea.Genesis Panacea.CompKey in
/-- **A genesis table imports to the same store whatever order its map is visited in**, provided its entries land on
distinct store keys (what `GenesisState.Validate` enforces with its canonical-key rule, F12). -/
theorem importTable_perm {V} (c : AddrCodec) (k : Kind) (l l' : List (Bytes × V)) (hp : l'.Perm l) (m : Map V)
    (hd : (l.map fun e => storeKeyOf c k e.1).Nodup) (h : importTable c k l = .ok m) :
    importTable c k l' = .ok m := by
  unfold importTable at h ⊢
  obtain ⟨hdec, hm⟩ := importFold_ok c k l [] m h
  rw [importFold_of_decodable c k l' (fun e he => hdec e (hp.mem_iff.mp he)) []]
  congr 1
  rw [hm]
  exact Map.foldl_set_perm _ _ (hp.map _) (by simpa [List.map_map, Function.comp_def] using hd)

open Panacea.Genesis Panacea.CompKey in
/-- the same for the whole AOL genesis: four maps, each visited in any order -/
theorem aolImport_perm (c : AddrCodec) (g g' : AolGenesis) (s : Aol.State)
    (po : g'.owners.Perm g.owners) (pt : g'.topics.Perm g.topics) (pw : g'.writers.Perm g.writers)
    (pr : g'.records.Perm g.records)
    (no : (g.owners.map fun e => storeKeyOf c .owner e.1).Nodup) (nt : (g.topics.map fun e => storeKeyOf c .topic e.1).Nodup)
    (nw : (g.writers.map fun e => storeKeyOf c .writer e.1).Nodup) (nr : (g.records.map fun e => storeKeyOf c .record e.1).Nodup)
    (h : aolImport c g = .ok s) : aolImport c g' = .ok s := by
  unfold aolImport at h ⊢
  cases ho : importTable c .owner g.owners with
  | err x => simp [ho, bind, Outcome.bind] at h
  | panic x => simp [ho, bind, Outcome.bind] at h
  | ok mo =>
  cases ht : importTable c .topic g.topics with
  | err x => simp [ho, ht, bind, Outcome.bind] at h
  | panic x => simp [ho, ht, bind, Outcome.bind] at h
  | ok mt =>
  cases hw : importTable c .writer g.writers with
  | err x => simp [ho, ht, hw, bind, Outcome.bind] at h
  | panic x => simp [ho, ht, hw, bind, Outcome.bind] at h
  | ok mw =>
  cases hr : importTable c .record g.records with
  | err x => simp [ho, ht, hw, hr, bind, Outcome.bind] at h
  | panic x => simp [ho, ht, hw, hr, bind, Outcome.bind] at h
  | ok mr =>
  simp [ho, ht, hw, hr, bind, Outcome.bind, pure] at h
  subst h
  simp [importTable_perm c .owner _ _ po mo no ho, importTable_perm c .topic _ _ pt mt nt ht,
    importTable_perm c .writer _ _ pw mw nw hw, importTable_perm c .record _ _ pr mr nr hr, bind, Outcome.bind, pure]

end Panacea.C09
