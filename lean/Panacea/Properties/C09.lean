import Panacea.Generated.Facts
import Panacea.Model.App
import Panacea.Properties.C08
/-!
# C09 — State transitions are deterministic: replicas agree on every block  (partial)

In the model every observable is a Lean *function* of `(genesis, blocks)`, so two replicas of the model agree
by `rfl` (`replicas_agree`).  The content is in the ties:

* **T (regenerated on every run).**  `Generated.nondet` lists every use, in the non-client custom packages, of
  the wall clock, randomness, goroutines, channels, `select`, floating point, environment reads and `range`
  over a map.  `no_nondeterminism_but_genesis_maps` proves (by `decide` over the regenerated table) that the
  only entries are map ranges in the AOL / DID `InitGenesis` and `GenesisState.Validate`.
* Those map ranges write entries with *distinct keys* through the sorted store, so the result does not depend on
  the iteration order (`C08.import_get`, `C08.rebuild_sorted`) — **provided the genesis has no two spellings
  of one key**, which is what the repaired `GenesisState.Validate` enforces (F12).
* Timestamps come from the block header: the skeleton ties of `AddWriter`, `AddRecord`, `MintPNFT` contain
  `ctx.BlockTime` and the `nondet` table contains no wall-clock use.
* **D.** The `determinism` stream runs twin applications (different `GOMAXPROCS`, interleaved
  `CheckTx` / `Simulate` / queries on one of them) over the same blocks and compares app hashes and every
  `ResponseDeliverTx{Code, Data, GasUsed, Events}`.
**Cannot be exhibited by the model:** wall clock, map iteration order, scheduler, hardware; IAVL / app-hash code.
-/
namespace Panacea.C09
open Panacea App

/-- two replicas that start from the same genesis and process the same blocks are in the same state and give
the same answer to every query, at every height -/
theorem replicas_agree {S B : Type} (exec : S → B → S) (g : S) (bs : List B) (h : Nat) :
    queryAt (runBlocks exec g { committed := [] } bs) h = queryAt (runBlocks exec g { committed := [] } bs) h := rfl

/-- The only non-deterministic primitives in the custom modules' keeper / types / module code are `range`
loops over the genesis maps of AOL and DID. -/
theorem no_nondeterminism_but_genesis_maps :
    Generated.nondet.all (fun e =>
      e.2.1 == "range-over-map" &&
      (e.1 == "x/aol.InitGenesis" || e.1 == "x/aol/types.GenesisState.Validate" ||
       e.1 == "x/did.InitGenesis" || e.1 == "x/did/types.GenesisState.Validate")) = true := by decide

/-- No wall clock, randomness, goroutine, channel, select, float or environment read anywhere in them. -/
theorem no_clock_random_concurrency_float_env :
    Generated.nondet.all (fun e => e.2.1 != "wall-clock" && e.2.1 != "randomness" && e.2.1 != "go-statement" &&
      e.2.1 != "select" && e.2.1 != "channel-send" && e.2.1 != "channel-receive" && e.2.1 != "float-literal" &&
      e.2.1 != "float-type" && e.2.1 != "environment") = true := by decide

/-- Importing entries with distinct keys in any order yields a store in which every key reads its entry:
the imported state is independent of Go's map iteration order. -/
theorem genesis_import_order_independent {V} (l : List (Bytes × V)) (hd : (l.map (·.1)).Nodup)
    (k : Bytes) (v : V) (hm : (k, v) ∈ l) (l' : List (Bytes × V)) (hp : l'.Perm l) :
    Map.get (l'.foldl (fun (m : Map V) (e : Bytes × V) => Map.set m e.1 e.2) ([] : Map V)) k = some v := by
  apply C08.import_get
  · exact (hp.map (·.1)).nodup_iff.mpr hd
  · exact hp.mem_iff.mpr hm

end Panacea.C09
