import Panacea.Lemmas.Pnft
import Panacea.Lemmas.PnftInv
import Panacea.Lemmas.PnftOwner
/-!
# C12 — PNFT tokens: unique, immutable, isolated per denom, consistently indexed

The theorems are about the code after the repairs of F7 (`DenomsByOwner` filters by owner), F8 (`DeleteDenom`
refuses a denom that still has tokens) and F9 (identifiers with `0x00` are rejected).  On the unrepaired
code the monitor `mon.c12` exhibited all three violations on the implementation.

Proved here: uniqueness of ids, immutability of token metadata, non-aliasing of `(denom, token)` pairs on
the identifiers the validators admit, exactness of `DenomsByOwner`; and, from the counting invariant `PInv`
(the stored total supply of a denom is the number of token entries under its listing prefix; token and class
entries are keyed by their own identifiers; proved for the empty store and preserved by every message while
fewer than `2^64` tokens exist): **every existing token belongs to an existing denom**
(`token_belongs_to_existing_denom`), the `PNFTs` listing of a denom returns exactly the tokens of that denom
(`pnfts_listing_exact`) and as many as its total supply says (`pnfts_listing_length`).
From the owner invariant `OInv` (the owner table has exactly the token keys, the owner index exactly one
entry per token under its current owner; same status): `PNFTsByDenomOwner` returns exactly the tokens of the denom
currently held by the address (`pnftsByDenomOwner_listing_exact`).
-/
namespace Panacea.C12
open Panacea CompKey Validate Pnft

/-- Identifiers the validators admit contain no `0x00`. -/
theorem admitted_ids_have_no_nul (c : AddrCodec) (now : Int) (s s' : State) :
    (∀ id n sy de u uh da cr, handle c now s (.createDenom id n sy de u uh da cr) = .ok s' → (0x00 : UInt8) ∉ id) ∧
    (∀ dn id n de u uh da cr, handle c now s (.mintPNFT dn id n de u uh da cr) = .ok s' →
      (0x00 : UInt8) ∉ dn ∧ (0x00 : UInt8) ∉ id) := by
  have key : ∀ b, noNul b = .ok () → (0x00 : UInt8) ∉ b := by
    intro b h; unfold noNul at h
    cases hc : b.contains 0x00 with
    | true => rw [hc] at h; simp at h
    | false => simpa using hc
  have seq : ∀ (x y : Outcome Unit), (x >>= fun _ => y) = .ok () → x = .ok () ∧ y = .ok () := by
    intro x y h; cases x <;> simp [bind, Outcome.bind] at h ⊢; exact h
  constructor
  · intro id n sy de u uh da cr h
    have hv := validate_ok h
    simp only [pnftValidateBasic] at hv
    exact key id (seq _ _ (seq _ _ hv).2).1
  · intro dn id n de u uh da cr h
    have hv := validate_ok h
    simp only [pnftValidateBasic] at hv
    have h3 := (seq _ _ (seq _ _ (seq _ _ hv).2).2).2
    exact ⟨key dn (seq _ _ h3).1, key id (seq _ _ (seq _ _ h3).2).1⟩

/-- Distinct `(denom, token)` pairs never alias one another in the store (on NUL-free identifiers). -/
theorem pairs_do_not_alias (d d' i i' : Bytes) (hd : (0x00 : UInt8) ∉ d) (hd' : (0x00 : UInt8) ∉ d')
    (h : nftKey d i = nftKey d' i') : d = d' ∧ i = i' := nftKey_inj hd hd' h

/-- Within a denom a token id exists at most once: minting an existing id is refused. -/
theorem mint_existing_refused (c : AddrCodec) (now : Int) (s : State) (dn id n de u uh da cr : Bytes) (d : Class)
    (hd : s.classes.get dn = some d) (hx : hasNFT s d.id id = true) :
    (handle c now s (.mintPNFT dn id n de u uh da cr)).isOk = false := by
  cases h : handle c now s (.mintPNFT dn id n de u uh da cr) with
  | ok s' =>
    obtain ⟨d', _, h1, _, _, h2, _⟩ := mint_ok h
    rw [hd] at h1; cases h1; rw [hx] at h2; cases h2
  | err e => rfl
  | panic e => rfl

/-- **Immutability.**  Whatever message is accepted, a stored token entry is afterwards either exactly
what it was or gone (burned): name, description, URI, hash, data, creator and creation time never change. -/
theorem token_metadata_immutable (c : AddrCodec) (now : Int) (s s' : State) (m : PnftMsg)
    (h : handle c now s m = .ok s') (k : Bytes) (n : Nft) (hk : s.nfts.get k = some n) :
    s'.nfts.get k = some n ∨ s'.nfts.get k = none := by
  cases m with
  | createDenom id0 nn sy de u uh da cr => obtain ⟨_, rfl⟩ := createDenom_ok h; exact Or.inl hk
  | updateDenom id0 nn sy de u uh da up => obtain ⟨_, _, _, _, rfl, _⟩ := updateDenom_ok h; exact Or.inl hk
  | deleteDenom id0 rm => obtain ⟨_, _, _, _, rfl⟩ := deleteDenom_ok h; exact Or.inl hk
  | transferDenom id0 sn rc => obtain ⟨_, _, _, rfl⟩ := transferDenom_ok h; exact Or.inl hk
  | mintPNFT dn id0 nn de u uh da cr =>
    obtain ⟨d, _, _, _, _, hno, hn, _⟩ := mint_ok h
    left
    rw [hn]
    have : k ≠ nftKey d.id id0 := by
      intro he; subst he; simp [hasNFT, Map.has, hk] at hno
    rw [Map.get_set_ne _ _ _ _ this]; exact hk
  | transferPNFT dn id0 sn rc =>
    obtain ⟨_, _, _, _, _, _, rfl⟩ := transferPNFT_ok h
    exact Or.inl hk
  | burnPNFT dn id0 b =>
    obtain ⟨_, _, _, _, hn, _⟩ := burn_ok h
    rw [hn]
    by_cases he : k = nftKey dn id0
    · subst he; right; exact Map.get_del_eq _ _
    · left; rw [Map.get_del_ne _ _ _ he]; exact hk

/-- `DenomsByOwner` returns exactly the denoms whose stored owner is the requested address. -/
theorem denomsByOwner_exact (s : State) (owner : Bytes) (d : Class) :
    d ∈ queryDenomsByOwner s owner ↔ (∃ k, (k, d) ∈ s.classes) ∧ d.owner = owner := by
  unfold queryDenomsByOwner
  simp only [List.mem_map, List.mem_filter, decide_eq_true_eq]
  constructor
  · rintro ⟨⟨k, d'⟩, ⟨hm, ho⟩, rfl⟩; exact ⟨⟨k, hm⟩, ho⟩
  · rintro ⟨⟨k, hm⟩, ho⟩; exact ⟨(k, d), ⟨hm, ho⟩, rfl⟩

/-- A denom that still has tokens (non-zero supply) cannot be deleted. -/
theorem delete_nonempty_refused (c : AddrCodec) (now : Int) (s : State) (id rm : Bytes) (h0 : getSupply s id ≠ 0) :
    (handle c now s (.deleteDenom id rm)).isOk = false := by
  cases h : handle c now s (.deleteDenom id rm) with
  | ok s' => obtain ⟨_, _, _, hs, _⟩ := deleteDenom_ok h; exact absurd hs h0
  | err e => rfl
  | panic e => rfl


/-! ## The counting invariant and what follows from it -/

theorem pinv_genesis : PInv {} := pinv_empty

theorem pinv_reachable (c : AddrCodec) (s : State) (B : Nat) (ops : List (Int × PnftMsg))
    (hi : PInv s) (hb : Pnft.Below s B) (hlt : B + ops.length < 2 ^ 64) : PInv (run c s ops) :=
  (pinv_run ops hi hb (by simpa using hlt)).1

/-- **Every existing token belongs to an existing denom**, in every reachable state. -/
theorem token_belongs_to_existing_denom (s : State) (hi : PInv s) (k : Bytes) (n : Nft)
    (h : s.nfts.get k = some n) : hasClass s n.classId = true ∧ k = nftKey n.classId n.id :=
  ⟨hi.tokenClass k n h, (hi.tokenKey k n h).1⟩

/-- the single-item view: a token that `Query/PNFT` returns lives in an existing denom -/
theorem queried_token_has_denom (c : AddrCodec) (s : State) (hi : PInv s) (d i : Bytes) (p : Pnft.Pnft)
    (h : queryPNFT c s d i = some p) : hasClass s p.denomId = true := by
  unfold queryPNFT getPNFT at h
  cases hg : s.nfts.get (nftKey d i) with
  | none => simp [hg] at h
  | some n =>
    simp only [hg, Option.map_some, Option.some.injEq] at h
    subst h
    exact hi.tokenClass _ n hg

/-- **`PNFTs` listing exactness**: for a denom identifier the validators admit, the listing iterates over
exactly the stored tokens whose class is that denom (never another denom's tokens, none missing). -/
theorem pnfts_listing_exact (s : State) (hi : PInv s) (d : Bytes) (hd : NoNul d) (n : Nft) :
    (∃ i, (i, n) ∈ s.nfts.prefixView (d ++ [0x00])) ↔ (∃ k, s.nfts.get k = some n ∧ n.classId = d) := by
  constructor
  · rintro ⟨i, hm⟩
    have hmem := Map.mem_prefixView.mp hm
    have hg := Map.get_of_mem_sorted hi.sortedN hmem
    obtain ⟨hk, hcn, hin⟩ := hi.tokenKey _ n hg
    refine ⟨_, hg, ?_⟩
    have hp : (d ++ [0x00]) <+: nftKey n.classId n.id := by
      rw [← hk]; exact List.prefix_append _ _
    exact ((listPrefix_iff hd hcn).mp hp).symm
  · rintro ⟨k, hg, rfl⟩
    obtain ⟨hk, _, _⟩ := hi.tokenKey k n hg
    refine ⟨n.id, Map.mem_prefixView.mpr ?_⟩
    have : n.classId ++ [0x00] ++ n.id = k := by rw [hk]; simp [nftKey]
    rw [this]
    exact Map.mem_of_get hg

/-- … and it has as many entries as the denom's total supply says. -/
theorem pnfts_listing_length (c : AddrCodec) (s : State) (hi : PInv s) (d : Bytes) (hd : NoNul d) :
    (queryPNFTs c s d).length = getSupply s d := by
  unfold queryPNFTs
  rw [List.length_map, Map.prefixView_length, hi.supplyCount d hd]

/-- non-vacuity: a reachable state with two denoms and tokens, and the invariant's content on it -/
example : getSupply (run { enc := id, dec := fun s => if s.length = 20 then some s else none } {}
    [(1, .createDenom [0x64] [0x6e] [0x73] [] [] [] [] (List.replicate 20 1)),
     (2, .mintPNFT [0x64] [0x31] [0x6e] [] [] [] [] (List.replicate 20 1)),
     (3, .mintPNFT [0x64] [0x32] [0x6e] [] [] [] [] (List.replicate 20 1)),
     (4, .burnPNFT [0x64] [0x31] (List.replicate 20 1)),
     (5, .deleteDenom [0x64] (List.replicate 20 1))]) [0x64] = 1 := by decide


/-! ## The owner index -/

theorem oinv_genesis : OInv {} := oinv_empty

/-- a lawful address codec decodes only to addresses of 1–255 bytes -/
theorem lawful_decShort (c : AddrCodec) (hc : c.Lawful) : DecShort c := by
  intro t a h
  have := hc.dec_ok t a h
  simp [addrOk] at this
  omega

theorem invariants_reachable (c : AddrCodec) (hc : DecShort c) (s : State) (B : Nat) (ops : List (Int × PnftMsg))
    (hp : PInv s) (hi : OInv s) (hb : Pnft.Below s B) (hlt : B + ops.length < 2 ^ 64) :
    PInv (run c s ops) ∧ OInv (run c s ops) :=
  inv_run hc ops hp hi hb (by simpa using hlt)

/-- **`PNFTsByDenomOwner` listing exactness**: exactly the tokens of the denom that the address currently owns,
with the same content as the single-item view (`toPnft` is what `Query/PNFT` returns for that token). -/
theorem pnftsByDenomOwner_listing_exact (c : AddrCodec) (hc : DecShort c) (s : State) (hp : PInv s) (hi : OInv s)
    (d owner o : Bytes) (hd : NoNul d) (hdec : c.dec owner = some o) (l : List Pnft.Pnft)
    (h : queryPNFTsByDenomOwner c s d owner = .ok l) (p : Pnft.Pnft) :
    p ∈ l ↔ ∃ i n, s.nfts.get (nftKey d i) = some n ∧ s.owners.get (nftKey d i) = some o ∧ p = toPnft c s d i n :=
  pnftsByDenomOwner_exact c hc s hp hi d owner o hd hdec l h p

/-- every token has exactly one owner entry, and the single-item view reports it -/
theorem token_has_owner (s : State) (hi : OInv s) (k : Bytes) (n : Nft) (h : s.nfts.get k = some n) :
    ∃ o, s.owners.get k = some o ∧ o.length < 256 := by
  obtain ⟨o, ho⟩ := hi.ownerOfToken k n h
  exact ⟨o, ho, (hi.tokenOfOwner k o ho).2⟩

example : nftKey [0x61] [0x62, 0x00, 0x63] = nftKey [0x61, 0x00, 0x62] [0x63] := by decide  -- why NUL had to go

end Panacea.C12
