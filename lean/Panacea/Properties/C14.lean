import Panacea.Model.SignBytes
import Panacea.Generated.Facts
/-!
# C14 — A signature authorizes exactly one message: sign bytes are injective

* **direct / direct-aux.**  The sign document contains the transaction body bytes, and the messages are a
  *function* of those bytes (the chain decodes them), so two transactions with different messages cannot share
  a sign document (`direct_injective`; the argument is congruence, the right one if an unexciting one).
* **legacy amino-JSON, AOL** (after the repair of F1: the module codec registers the type names): the
  canonical document `{type, value}` determines the message (`aol_legacy_injective`).
* **legacy amino-JSON, PNFT.**  The PNFT messages do not implement `Route`/`Type`, so they are not
  `legacytx.LegacyMsg` and a transaction carrying one cannot be signed or verified in this mode at all
  (`pnft_not_legacy_signable`, over the regenerated method table).
* **legacy amino-JSON, DID — known finding F1-DID.**  The DID module codec registers no names (the golden test
  `TestMsgCreateDID` pins the bare form), and `MsgCreateDID` / `MsgUpdateDID` have identical fields: their sign
  bytes coincide (`did_create_update_collide`); reproduced on the real `SignModeHandler` by `mon.c14.pair`.
* the sign bytes are a pure function of the message in the model; the stream recomputes them and compares.

**Known finding F17.**  The structured document is injective; its *rendering* as JSON bytes is injective only on
strings that are valid UTF-8 (amino-JSON writes U+FFFD for every other byte), and the validators admit other
strings: `mon.c14.pair.utf8` exhibits two admitted AOL messages with identical legacy sign bytes.

Trusted: that rendering distinct canonical documents with valid UTF-8 strings gives distinct bytes (JSON), and protobuf/`Any` decoding
being a function of the body bytes.
-/
namespace Panacea.C14
open Panacea SignBytes

/-- direct modes: `msgsOf` is the chain's decoder of the body bytes -/
theorem direct_injective {Body Msgs Rest : Type} (msgsOf : Body → Msgs) (b1 b2 : Body) (r1 r2 : Rest)
    (h : (b1, r1) = (b2, r2)) : msgsOf b1 = msgsOf b2 := by
  cases h; rfl

/-- all keys of a field list come from `ns` -/
def KeysIn (ns : List Bytes) (R : List (Bytes × Bytes)) : Prop := ∀ e ∈ R, e.1 ∈ ns

theorem keysIn_fieldsOf : ∀ (l : List (Bytes × Bytes)), KeysIn (l.map (·.1)) (fieldsOf l) := by
  intro l
  induction l with
  | nil => intro e he; cases he
  | cons x r ih =>
    obtain ⟨n, v⟩ := x
    intro e he
    simp only [fieldsOf, field, List.mem_append] at he
    rcases he with he | he
    · by_cases hv : v = []
      · simp [hv] at he
      · simp [hv] at he; subst he; simp
    · simp only [List.map_cons, List.mem_cons]; right; exact ih e he

/-- cancel the first field when its name does not occur in the rest of either side -/
theorem field_cancel (n a b : Bytes) (R R' : List (Bytes × Bytes)) (ns : List Bytes) (hn : n ∉ ns)
    (hR : KeysIn ns R) (hR' : KeysIn ns R') (h : field n a ++ R = field n b ++ R') : a = b ∧ R = R' := by
  unfold field at h
  by_cases ha : a = [] <;> by_cases hb : b = []
  · subst ha hb; simpa using h
  · subst ha
    simp [hb] at h
    have : (n, b) ∈ R := by rw [h]; simp
    exact absurd (hR _ this) hn
  · subst hb
    simp [ha] at h
    have : (n, a) ∈ R' := by rw [← h]; simp
    exact absurd (hR' _ this) hn
  · simp [ha, hb] at h; exact h

/-- **The JSON object of a struct determines the struct**: with pairwise distinct field names, two value
vectors that give the same `omitempty` object are equal (an omitted field can only be an empty one). -/
theorem fieldsOf_injective : ∀ (ns : List Bytes) (as bs : List Bytes), ns.Nodup →
    as.length = ns.length → bs.length = ns.length →
    fieldsOf (ns.zip as) = fieldsOf (ns.zip bs) → as = bs := by
  intro ns
  induction ns with
  | nil => intro as bs _ ha hb _; simp at ha hb; subst ha hb; rfl
  | cons n ns ih =>
    intro as bs hnd ha hb h
    match as, bs, ha, hb with
    | a :: as, b :: bs, ha, hb =>
      simp only [List.zip_cons_cons, fieldsOf] at h
      simp only [List.length_cons, Nat.add_right_cancel_iff] at ha hb
      have hn : n ∉ ns := (List.nodup_cons.mp hnd).1
      have k : ∀ (xs : List Bytes), KeysIn ns (fieldsOf (ns.zip xs)) := by
        intro xs e he
        have := keysIn_fieldsOf (ns.zip xs) e he
        obtain ⟨p, hp, hpe⟩ := List.mem_map.mp this
        rw [← hpe]; exact (List.of_mem_zip (a := p.1) (b := p.2) hp).1
      obtain ⟨h1, h2⟩ := field_cancel n a b _ _ ns hn (k as) (k bs) h
      rw [h1, ih as bs (List.nodup_cons.mp hnd).2 ha hb h2]

/-- AOL: two messages with the same legacy sign document are the same message (type and every field). -/
theorem aol_legacy_injective (a b : Aol.Msg) (h : aolLegacyDoc a = aolLegacyDoc b) : a = b := by
  have ht := congrArg LegacyDoc.typeName h
  have hf := congrArg LegacyDoc.fields h
  cases a with
  | createTopic t d o =>
    cases b with
    | createTopic t' d' o' =>
      have := fieldsOf_injective [n_description, n_owner_address, n_topic_name] [d, o, t] [d', o', t'] (by decide) rfl rfl hf
      simp only [List.cons.injEq, and_true] at this
      obtain ⟨rfl, rfl, rfl⟩ := this; rfl
    | addWriter _ _ _ _ _ => simp [aolLegacyDoc] at ht
    | deleteWriter _ _ _ => simp [aolLegacyDoc] at ht
    | addRecord _ _ _ _ _ _ => simp [aolLegacyDoc] at ht
  | addWriter t m d w o =>
    cases b with
    | addWriter t' m' d' w' o' =>
      have := fieldsOf_injective [n_description, n_moniker, n_owner_address, n_topic_name, n_writer_address]
        [d, m, o, t, w] [d', m', o', t', w'] (by decide) rfl rfl hf
      simp only [List.cons.injEq, and_true] at this
      obtain ⟨rfl, rfl, rfl, rfl, rfl⟩ := this; rfl
    | createTopic _ _ _ => simp [aolLegacyDoc] at ht
    | deleteWriter _ _ _ => simp [aolLegacyDoc] at ht
    | addRecord _ _ _ _ _ _ => simp [aolLegacyDoc] at ht
  | deleteWriter t w o =>
    cases b with
    | deleteWriter t' w' o' =>
      have := fieldsOf_injective [n_owner_address, n_topic_name, n_writer_address] [o, t, w] [o', t', w'] (by decide) rfl rfl hf
      simp only [List.cons.injEq, and_true] at this
      obtain ⟨rfl, rfl, rfl⟩ := this; rfl
    | createTopic _ _ _ => simp [aolLegacyDoc] at ht
    | addWriter _ _ _ _ _ => simp [aolLegacyDoc] at ht
    | addRecord _ _ _ _ _ _ => simp [aolLegacyDoc] at ht
  | addRecord t k v w o f =>
    cases b with
    | addRecord t' k' v' w' o' f' =>
      have := fieldsOf_injective [n_fee_payer_address, n_key, n_owner_address, n_topic_name, n_value, n_writer_address]
        [f, k, o, t, v, w] [f', k', o', t', v', w'] (by decide) rfl rfl hf
      simp only [List.cons.injEq, and_true] at this
      obtain ⟨rfl, rfl, rfl, rfl, rfl, rfl⟩ := this; rfl
    | createTopic _ _ _ => simp [aolLegacyDoc] at ht
    | addWriter _ _ _ _ _ => simp [aolLegacyDoc] at ht
    | deleteWriter _ _ _ => simp [aolLegacyDoc] at ht

/-- DID: *within* one message type the legacy sign document determines every signed field (the collision
is only between the types, below). -/
theorem did_legacy_injective_same_type (docJson : Option Did.Doc → Bytes) (did did' : Bytes) (doc doc' : Option Did.Doc)
    (db db' vm vm' sig sig' fr fr' : Bytes)
    (h : didLegacyDoc docJson (.create did doc db vm sig fr) = didLegacyDoc docJson (.create did' doc' db' vm' sig' fr')) :
    did = did' ∧ docJson doc = docJson doc' ∧ vm = vm' ∧ sig = sig' ∧ fr = fr' := by
  have hf := congrArg LegacyDoc.fields h
  have := fieldsOf_injective [n_did, n_document, n_from_address, n_signature, n_verification_method_id]
    [did, docJson doc, fr, sig, vm] [did', docJson doc', fr', sig', vm'] (by decide) rfl rfl hf
  simp only [List.cons.injEq, and_true] at this
  obtain ⟨h1, h2, h3, h4, h5⟩ := this
  exact ⟨h1, h2, h5, h4, h3⟩

/-- PNFT messages cannot be signed in legacy amino-JSON mode: none of them implements `Route` and `Type`. -/
theorem pnft_not_legacy_signable :
    (Generated.msgMethods.filter (fun e => e.2.contains "Route" && e.2.contains "Type")).map (·.1) =
      ["x/aol/types.MsgAddRecordRequest", "x/aol/types.MsgAddWriterRequest", "x/aol/types.MsgCreateTopicRequest",
       "x/aol/types.MsgDeleteWriterRequest", "x/did/types.MsgCreateDIDRequest", "x/did/types.MsgDeactivateDIDRequest",
       "x/did/types.MsgUpdateDIDRequest"] := by decide

/-- **Known finding (F1-DID).**  `MsgCreateDID` and `MsgUpdateDID` with the same field values have the same
legacy sign document. -/
theorem did_create_update_collide (docJson : Option Did.Doc → Bytes) (did : Bytes) (doc : Option Did.Doc)
    (db vm sig fr : Bytes) :
    didLegacyDoc docJson (.create did doc db vm sig fr) = didLegacyDoc docJson (.update did doc db vm sig fr) := rfl

/-- … whereas a deactivation never collides with a create / update that carries a document: only the
latter's sign document has a `document` field. -/
theorem did_deactivate_distinct (docJson : Option Did.Doc → Bytes) (did did' : Bytes) (doc : Option Did.Doc)
    (db vm vm' sig sig' fr fr' : Bytes) (hdoc : docJson doc ≠ []) :
    didLegacyDoc docJson (.deactivate did vm sig fr) ≠ didLegacyDoc docJson (.create did' doc db vm' sig' fr') := by
  intro h
  have hf := congrArg LegacyDoc.fields h
  have hin : (n_document, docJson doc) ∈ (didLegacyDoc docJson (.create did' doc db vm' sig' fr')).fields := by
    simp [didLegacyDoc, fieldsOf, field, hdoc]
  rw [← hf] at hin
  have := keysIn_fieldsOf _ _ hin
  simp only [List.map_cons, List.map_nil] at this
  revert this; decide

/-! non-vacuity / what the rendering looks like -/
example : (aolRender (.deleteWriter [0x74] [0x77] [0x6f])).length = 95 := by decide
/-- the collision witnesses of the unrepaired code (F1) are separated now -/
example : aolLegacyDoc (.addWriter [1] [] [] [2] [3]) ≠ aolLegacyDoc (.deleteWriter [1] [2] [3]) := by decide
example : aolLegacyDoc (.addRecord [1] [] [] [2] [3] []) ≠ aolLegacyDoc (.deleteWriter [1] [2] [3]) := by decide

end Panacea.C14
