import Panacea.Model.Genesis
import Panacea.Lemmas.PrefixView
import Panacea.Properties.C18
/-!
# C08 — Genesis export then import reproduces the custom-module state exactly

Proved for the model: rebuilding a sorted table by `Set`-ting its entries (in export order) gives back the
same table; an AOL table whose keys are canonical encodings of admitted tuples survives
`export → import` unchanged (via `C18.string_roundtrip_admitted`); the DID registry likewise (its keys
are used verbatim); export is a function of the state (determinism is definitional in the model — the
stream compares two real exports byte for byte).

**Partial:** (1) the PNFT round trip (`SaveDenom` / `ImportPNFT` per exported entry) and the JSON codec
are covered by the `genesis` correspondence stream only (export, `ValidateGenesis`, import into a fresh
application, re-export byte-equal, all dumps and queries compared, after histories with transferred tokens,
handed-over denoms, deactivated DIDs, empty record keys/values); (2) independence of Go's map iteration
order on import is argued from key distinctness (`import_sorted_eq` needs the export order; any
permutation of *distinct* keys yields a map with the same `get`, `import_get`) — see also C09;
(3) **known finding F15**: free-text string fields with invalid UTF-8 do not survive the JSON export.
-/
namespace Panacea.C08
open Panacea CompKey Genesis Map

/-- inserting a key greater than every key of a sorted map appends it -/
theorem set_append_max {V} (m : Map V) (k : Bytes) (v : V) (h : ∀ k' ∈ m.keys, Bytes.lt k' k = true) :
    m.set k v = m ++ [(k, v)] := by
  induction m with
  | nil => rfl
  | cons e m ih =>
    obtain ⟨k0, v0⟩ := e
    have h0 : Bytes.lt k0 k = true := h k0 (by simp [keys])
    have hne : k0 ≠ k := Bytes.lt_ne _ _ h0
    have hnlt : Bytes.lt k k0 = false := Bytes.lt_asymm _ _ h0
    simp only [Map.set, hne, if_false, hnlt, Bool.false_eq_true]
    rw [ih (fun k' hk' => h k' (by simp [keys] at hk' ⊢; exact Or.inr hk'))]
    rfl

/-- **Rebuilding a sorted table from its own entries gives the table back.** -/
theorem rebuild_sorted {V} (l : Map V) (acc : Map V) (hs : Map.Sorted (acc ++ l)) :
    l.foldl (fun m e => m.set e.1 e.2) acc = acc ++ l := by
  induction l generalizing acc with
  | nil => simp
  | cons e rest ih =>
    simp only [List.foldl_cons]
    have hmax : ∀ k' ∈ Map.keys acc, Bytes.lt k' e.1 = true := by
      intro k' hk'
      unfold Map.Sorted Map.keys at hs
      simp only [List.map_append, List.map_cons, List.pairwise_append] at hs
      exact hs.2.2 k' hk' e.1 (by simp)
    rw [set_append_max acc e.1 e.2 hmax]
    have : acc ++ [(e.1, e.2)] ++ rest = acc ++ e :: rest := by simp
    rw [ih (acc ++ [(e.1, e.2)]) (by rw [this]; exact hs), this]

/-- DID: import ∘ export is the identity on every sorted registry (tombstones included, verbatim). -/
theorem did_import_export (s : Did.State) (hs : Map.Sorted s) : didImport (didExport s) = s := by
  unfold didImport didExport
  have := rebuild_sorted s [] (by simpa using hs)
  simpa using this

/-- Whatever the order in which distinct-keyed entries are imported, each key reads back its entry
(so the resulting store does not depend on Go's map iteration order). -/
theorem import_get {V} (l : List (Bytes × V)) (hd : (l.map (·.1)).Nodup) (acc : Map V) (k : Bytes) (v : V)
    (hm : (k, v) ∈ l) : (l.foldl (fun m e => m.set e.1 e.2) acc).get k = some v := by
  induction l generalizing acc with
  | nil => simp at hm
  | cons e rest ih =>
    simp only [List.map_cons, List.nodup_cons] at hd
    simp only [List.foldl_cons]
    rcases List.mem_cons.mp hm with rfl | hm
    · -- later entries have other keys
      have : ∀ (rest : List (Bytes × V)) (acc : Map V), k ∉ rest.map (·.1) → acc.get k = some v →
          (rest.foldl (fun m e => m.set e.1 e.2) acc).get k = some v := by
        intro rest
        induction rest with
        | nil => intro acc _ h; exact h
        | cons e' rest' ih' =>
          intro acc hn h
          simp only [List.foldl_cons]
          apply ih'
          · intro hm'; exact hn (by simp [hm'])
          · rw [Map.get_set_ne]; exact h
            intro he; exact hn (by simp [he])
      exact this rest _ hd.1 (Map.get_set_eq _ _ _)
    · exact ih hd.2 _ hm

/-! ## AOL tables -/

/-- keys of a table are canonical encodings of tuples the validators admit -/
def KeysAdmitted {V} (k : Kind) (m : Map V) : Prop :=
  ∀ key ∈ m.keys, ∃ comps, encode comps = some key ∧ C18.Admitted k comps ∧ decodeTyped k key = .ok comps

/-- one entry survives the string round trip: string form decodes back to the same store key -/
theorem entry_roundtrip (c : AddrCodec) (hc : c.Lawful) (k : Kind) (key : Bytes) (comps : List Bytes)
    (he : encode comps = some key) (ha : C18.Admitted k comps) :
    (decodeFromString c k (encodeToString c k comps)).bind encode = some key := by
  rw [C18.string_roundtrip_admitted c hc k comps ha]
  simpa using he

/-- **AOL: import ∘ export is the identity** on every sorted table whose keys are admitted encodings. -/
theorem aol_table_import_export {V} (c : AddrCodec) (hc : c.Lawful) (k : Kind) (m : Map V)
    (hs : Map.Sorted m) (hk : KeysAdmitted k m) :
    ∃ g, exportTable c k m = .ok g ∧ importTable c k g = .ok m := by
  -- the exported list is `m` with keys rendered as strings, in order
  have hexp : ∀ (m : Map V), KeysAdmitted k m →
      ∃ g, exportTable c k m = .ok g ∧ g.length = m.length ∧
        ∀ i (hi : i < m.length), ∃ comps, encode comps = some (m[i]'hi).1 ∧ C18.Admitted k comps ∧
          g[i]? = some (encodeToString c k comps, (m[i]'hi).2) := by
    intro m
    induction m with
    | nil => intro _; exact ⟨[], rfl, rfl, fun i hi => absurd hi (by simp)⟩
    | cons e rest ih =>
      intro hk
      obtain ⟨comps, hen, hadm, hdec⟩ := hk e.1 (by simp [keys])
      obtain ⟨g, hg, hlen, hidx⟩ := ih (fun key hkey => hk key (by simp [keys] at hkey ⊢; exact Or.inr hkey))
      refine ⟨(encodeToString c k comps, e.2) :: g, ?_, by simp [hlen], ?_⟩
      · simp only [exportTable, List.foldr_cons, bind, Outcome.bind] at hg ⊢
        rw [hg]; simp [hdec]
      · intro i hi
        cases i with
        | zero => exact ⟨comps, hen, hadm, by simp⟩
        | succ j =>
          obtain ⟨cj, h1, h2, h3⟩ := hidx j (by simpa using hi)
          exact ⟨cj, by simpa using h1, h2, by simpa using h3⟩
  obtain ⟨g, hg, hlen, hidx⟩ := hexp m hk
  refine ⟨g, hg, ?_⟩
  -- importing g entry by entry performs exactly the `set`s of `rebuild_sorted`
  have himp : ∀ (n : Nat) (hn : n ≤ m.length),
      (g.take n).foldl (importStep c k) (.ok []) =
      .ok ((m.take n).foldl (fun (mm : Map V) (e : Bytes × V) => mm.set e.1 e.2) []) := by
    intro n
    induction n with
    | zero => intro _; rfl
    | succ j ih =>
      intro hn
      have hj : j < m.length := by omega
      obtain ⟨comps, hen, hadm, hgi⟩ := hidx j hj
      have hgt : g.take (j + 1) = g.take j ++ [(encodeToString c k comps, (m[j]'hj).2)] := by
        rw [List.take_succ, hgi]; rfl
      have hmt : m.take (j + 1) = m.take j ++ [m[j]'hj] := by
        rw [List.take_succ, List.getElem?_eq_getElem hj]; rfl
      rw [hgt, hmt, List.foldl_append, List.foldl_append, ih (by omega)]
      have hrt := entry_roundtrip c hc k _ comps hen hadm
      cases hd : decodeFromString c k (encodeToString c k comps) with
      | none => simp [hd] at hrt
      | some cs =>
        simp [hd] at hrt
        simp [List.foldl, importStep, hd, hrt]
  have h1 := himp m.length (Nat.le_refl _)
  rw [List.take_of_length_le (by omega), List.take_of_length_le (Nat.le_refl _)] at h1
  unfold importTable
  rw [h1, rebuild_sorted m [] (by simpa using hs)]
  simp

/-- **AOL: import ∘ export is the identity on whole states**: the four tables of a state whose tables are sorted and
whose keys are admitted encodings (what every reachable state is: `Lemmas/AolKeys.keysInv_run`) are exported and imported back
unchanged. -/
theorem aol_import_export (c : AddrCodec) (hc : c.Lawful) (s : Aol.State)
    (hso : Map.Sorted s.owners) (hst : Map.Sorted s.topics) (hsw : Map.Sorted s.writers) (hsr : Map.Sorted s.records)
    (hko : KeysAdmitted .owner s.owners) (hkt : KeysAdmitted .topic s.topics)
    (hkw : KeysAdmitted .writer s.writers) (hkr : KeysAdmitted .record s.records) :
    ∃ g, aolExport c s = .ok g ∧ aolImport c g = .ok s := by
  obtain ⟨go, eo, io⟩ := aol_table_import_export c hc .owner s.owners hso hko
  obtain ⟨gt, et, it⟩ := aol_table_import_export c hc .topic s.topics hst hkt
  obtain ⟨gw, ew, iw⟩ := aol_table_import_export c hc .writer s.writers hsw hkw
  obtain ⟨gr, er, ir⟩ := aol_table_import_export c hc .record s.records hsr hkr
  refine ⟨{ owners := go, topics := gt, writers := gw, records := gr }, ?_, ?_⟩
  · simp [aolExport, eo, et, ew, er, bind, Outcome.bind, pure]
  · simp [aolImport, io, it, iw, ir, bind, Outcome.bind, pure]

end Panacea.C08
