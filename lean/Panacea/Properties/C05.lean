import Panacea.Lemmas.DidHist
import Panacea.Model.Genesis
/-!
# C05 — A DID is created at most once and deactivation is permanent
-/
namespace Panacea.C05
open Panacea Did

/-- Creating a DID that exists (or is a tombstone) fails and changes nothing. -/
theorem create_existing_fails_noop (da : Bytes → Option Bytes) (cr : Crypto) (s : State) (did : Bytes)
    (doc : Option Doc) (db vmID sig fr : Bytes) (h : (getDoc s did).isEmpty = false) :
    (deliver da cr s (.create did doc db vmID sig fr)).isOk = false ∧
    step da cr s (.create did doc db vmID sig fr) = s := by
  have : (deliver da cr s (.create did doc db vmID sig fr)).isOk = false := by
    cases h3 : deliver da cr s (.create did doc db vmID sig fr) with
    | ok s3 =>
      obtain ⟨_, _, _, _, _, _, _, hemp, _, _⟩ := create_ok h3
      rw [h] at hemp; cases hemp
    | err e => rfl
    | panic e => rfl
  refine ⟨this, ?_⟩
  unfold step
  cases hd : deliver da cr s (.create did doc db vmID sig fr) with
  | ok s' => simp [hd, Outcome.isOk] at this
  | err e => rfl
  | panic e => rfl

/-- A successful deactivation leaves a tombstone (incremented, hence non-zero, sequence). -/
theorem deactivate_makes_tombstone (da : Bytes → Option Bytes) (cr : Crypto) (s s' : State)
    (did vmID sig fr : Bytes) (hov : seqOf s did + 1 < 2 ^ 64)
    (h : deliver da cr s (.deactivate did vmID sig fr) = .ok s') : Dead s' did := by
  obtain ⟨_, _, _, _, _, _, _, hs1⟩ := deactivate_ok h
  refine ⟨_, emptyDoc, by rw [hs1]; exact Map.get_set_eq _ _ _, rfl, emptyDoc_empty, ?_⟩
  simp only
  rw [nextSeq_of_lt (by simpa [two64, seqOf] using hov)]; omega

/-- **Permanence.**  Once a DID is a tombstone, after every further history: its entry is bit-for-bit
the same tombstone, the read operation reports "not found (deactivated)", and every create, update and
deactivate for it is rejected — by anyone, with any key, any proof. -/
theorem tombstone_forever (da : Bytes → Option Bytes) (cr : Crypto) (s : State) (did : Bytes) (ms : List Msg)
    (hd : Dead s did) :
    (run da cr s ms).get did = s.get did ∧
    Dead (run da cr s ms) did ∧
    queryDID (run da cr s ms) did = .err "not-found:deactivated" ∧
    (∀ doc db vmID sig fr, (deliver da cr (run da cr s ms) (.create did doc db vmID sig fr)).isOk = false) ∧
    (∀ doc db vmID sig fr, (deliver da cr (run da cr s ms) (.update did doc db vmID sig fr)).isOk = false) ∧
    (∀ vmID sig fr, (deliver da cr (run da cr s ms) (.deactivate did vmID sig fr)).isOk = false) := by
  have hrun := dead_run (da := da) (cr := cr) ms hd
  obtain ⟨d, doc0, hg, hdoc, hemp, hseq⟩ := hd
  have hg' : (run da cr s ms).get did = some d := by rw [hrun]; exact hg
  have hgd := getDoc_of_get hg'
  refine ⟨hrun, ⟨d, doc0, hg', hdoc, hemp, hseq⟩, ?_, ?_, ?_, ?_⟩
  · simp [queryDID, bind, Outcome.bind, hgd, DocWithSeq.isEmpty, DocWithSeq.deactivated, hdoc, hemp, hseq]
  · intro doc db vmID sig fr
    cases h3 : deliver da cr (run da cr s ms) (.create did doc db vmID sig fr) with
    | ok s3 =>
      obtain ⟨_, _, _, _, _, _, _, he, _, _⟩ := create_ok h3
      rw [hgd] at he; simp [DocWithSeq.isEmpty, hdoc, hemp, hseq] at he
    | err e => rfl
    | panic e => rfl
  · intro doc db vmID sig fr
    cases h3 : deliver da cr (run da cr s ms) (.update did doc db vmID sig fr) with
    | ok s3 =>
      obtain ⟨_, stored, _, _, _, _, _, _, hst, hne, _, _⟩ := update_ok h3
      rw [hgd, hdoc] at hst; cases hst; simp [hemp] at hne
    | err e => rfl
    | panic e => rfl
  · intro vmID sig fr
    cases h3 : deliver da cr (run da cr s ms) (.deactivate did vmID sig fr) with
    | ok s3 =>
      obtain ⟨stored, _, _, _, hst, hne, _, _⟩ := deactivate_ok h3
      rw [hgd, hdoc] at hst; cases hst; simp [hemp] at hne
    | err e => rfl
    | panic e => rfl

/-- After the fix for F6 no message can turn a live document into an id-less one: the only way to a
tombstone is `MsgDeactivateDID`.  (An accepted update always stores a non-empty document.) -/
theorem update_never_deactivates (da : Bytes → Option Bytes) (cr : Crypto) (s s' : State) (did : Bytes)
    (doc : Option Doc) (db vmID sig fr : Bytes)
    (h : deliver da cr s (.update did doc db vmID sig fr) = .ok s') : Live s' did := by
  obtain ⟨d, _, _, _, hvd, _, hid, _, _, _, _, rfl⟩ := update_ok h
  exact ⟨_, d, Map.get_set_eq _ _ _, rfl, valid_nonempty_of_id hid hvd⟩

/-! ## Non-vacuity: a tombstone state -/
def tomb : State := [([1], { doc := some emptyDoc, seq := 3, docBytes := [] })]
example : Dead tomb [1] := ⟨_, emptyDoc, rfl, rfl, by decide, by decide⟩


/-! ## Genesis: the one place where a sequence number is an input

`deactivate_makes_tombstone` needs `seq + 1 < 2^64`.  On a running chain sequences only grow by one per accepted
message; the genesis file is the only way to *set* one.  After the repair of F21 genesis validation refuses the
largest `uint64`, so on a chain started from a validated genesis a deactivation always leaves a tombstone. -/

theorem get_foldl_set (l : List (Bytes × DocWithSeq)) : ∀ (m0 : State) (k : Bytes) (v : DocWithSeq),
    (l.foldl (fun m e => Map.set m e.1 e.2) m0).get k = some v → (k, v) ∈ l ∨ m0.get k = some v := by
  induction l with
  | nil => intro m0 k v h; exact Or.inr h
  | cons e l ih =>
    intro m0 k v h
    rcases ih _ k v h with h1 | h1
    · exact Or.inl (List.mem_cons_of_mem _ h1)
    · by_cases hk : k = e.1
      · subst hk
        rw [Map.get_set_eq] at h1
        cases h1
        exact Or.inl (by simp)
      · rw [Map.get_set_ne _ _ _ _ hk] at h1
        exact Or.inr h1

/-- every sequence of a state imported from a validated genesis is a `uint64` -/
theorem genesis_seq_bound (g : List (Bytes × DocWithSeq)) (hv : Genesis.didGenesisValid g = true) (did : Bytes) :
    seqOf (Genesis.didImport g) did < 2 ^ 64 := by
  unfold seqOf getDoc
  cases hg : (Genesis.didImport g).get did with
  | none => simp
  | some d =>
    rcases get_foldl_set g [] did d hg with h | h
    · unfold Genesis.didGenesisValid at hv
      have := (List.all_eq_true.mp hv) (did, d) h
      simp only [Bool.and_eq_true, decide_eq_true_eq] at this
      simp only [Option.getD_some]
      omega
    · simp [Map.get] at h

/-- the excluded point is real: without the bound the successor of the largest sequence is the initial one -/
example : nextSeq 18446744073709551615 = 0 := by decide

/-! ## The end of the sequence space (F23)

The handlers refuse to produce the wrapped sequence, so the bound `seq + 1 < 2^64` of the theorems above is not a
hypothesis about the history any more: it follows from acceptance, for every sequence a `uint64` can hold. -/

theorem nextSeq_of_noWrap {n : Nat} (hn : n < 2 ^ 64) (h : nextSeq n ≠ 0) : nextSeq n = n + 1 := by
  unfold nextSeq wrap64 at *
  have : n + 1 ≠ 18446744073709551616 := by
    intro he; rw [he] at h; exact h (by decide)
  omega

/-- **A successful deactivation leaves a tombstone, whatever sequence the document had** (any `uint64`). -/
theorem deactivate_makes_tombstone_total (da : Bytes → Option Bytes) (cr : Crypto) (s s' : State)
    (did vmID sig fr : Bytes) (hty : seqOf s did < 2 ^ 64)
    (h : deliver da cr s (.deactivate did vmID sig fr) = .ok s') : Dead s' did := by
  obtain ⟨_, _, _, _, _, _, hp, hs1⟩ := deactivate_ok h
  refine ⟨_, emptyDoc, by rw [hs1]; exact Map.get_set_eq _ _ _, rfl, emptyDoc_empty, ?_⟩
  simp only
  exact hp.noWrap

/-- At the last sequence number updates and deactivations are refused (and, by `refused_is_noop`-style atomicity,
change nothing): the document stays as it is rather than becoming re-creatable. -/
theorem exhausted_refused (da : Bytes → Option Bytes) (cr : Crypto) (s : State) (did : Bytes)
    (hmax : seqOf s did = 2 ^ 64 - 1) :
    (∀ doc db vmID sig fr, (deliver da cr s (.update did doc db vmID sig fr)).isOk = false) ∧
    (∀ vmID sig fr, (deliver da cr s (.deactivate did vmID sig fr)).isOk = false) := by
  have hz : nextSeq (getDoc s did).seq = 0 := by
    have : (getDoc s did).seq = 2 ^ 64 - 1 := hmax
    rw [this]; decide
  constructor
  · intro doc db vmID sig fr
    cases h3 : deliver da cr s (.update did doc db vmID sig fr) with
    | ok s3 =>
      obtain ⟨_, _, _, _, _, _, _, _, _, _, hp, _⟩ := update_ok h3
      exact absurd hz hp.noWrap
    | err e => rfl
    | panic e => rfl
  · intro vmID sig fr
    cases h3 : deliver da cr s (.deactivate did vmID sig fr) with
    | ok s3 =>
      obtain ⟨_, _, _, _, _, _, hp, _⟩ := deactivate_ok h3
      exact absurd hz hp.noWrap
    | err e => rfl
    | panic e => rfl

example : (2 : Nat) ^ 64 - 1 < 2 ^ 64 := by decide   -- the hypothesis of `deactivate_makes_tombstone_total` at the boundary

/-- **Deactivation on a chain started from a validated genesis leaves a tombstone**, for every entry of that genesis
— including the ones whose sequence the genesis file chose, up to the last `uint64` (where the handlers refuse). -/
theorem genesis_deactivate_makes_tombstone (da : Bytes → Option Bytes) (cr : Crypto)
    (g : List (Bytes × DocWithSeq)) (hv : Genesis.didGenesisValid g = true) (s' : State) (did vmID sig fr : Bytes)
    (h : deliver da cr (Genesis.didImport g) (.deactivate did vmID sig fr) = .ok s') : Dead s' did :=
  deactivate_makes_tombstone_total da cr _ s' did vmID sig fr (genesis_seq_bound g hv did) h


end Panacea.C05
