import Panacea.Model.Keystore
/-!
# C20 — Concurrent readers see committed snapshots; shared code is race-free  (partial)

**Proved here (key store, all thread counts, all schedules):** with the lock usage of the repaired key
store (no method acquires the mutex while holding it), no reachable state of the writer-preferring
RWMutex model is a deadlock.  The unrepaired `LoadByAddress` (read lock held across `Load`, which
read-locks again) deadlocks in a three-step schedule — `decide`-checked witness, reproduced on the real
code by the `kslock` stream's watchdog before the repair (F5).

**Proved in `Properties/C10`/`App`:** queries are evaluated on the committed state of a height and never
see the working state of the block being executed.

**Cannot be exhibited by any model here:** data races in Go memory (validation, sign-bytes and query code
share no mutable state: see the fact table of `Properties/C09`), and baseapp's actual snapshotting; the
`conc` stream runs query goroutines against a per-height oracle while blocks execute (support, not proof).
-/
namespace Panacea.C20
open Panacea Keystore

/-- per-thread consistency: what it holds is what its program is about to release -/
def Good (t : Thread) : Prop :=
  (t.heldR = 0 ∧ t.heldW = false ∧ wb t.prog = true ∧ (t.waitingW = true → ∃ r, t.prog = .lock :: r)) ∨
  (t.heldR = 1 ∧ t.heldW = false ∧ t.waitingW = false ∧ ∃ r, t.prog = .runlock :: r ∧ wb r = true) ∨
  (t.heldR = 0 ∧ t.heldW = true ∧ t.waitingW = false ∧ ∃ r, t.prog = .unlock :: r ∧ wb r = true)

theorem wb_cons_rlock {r : List LockOp} (h : wb (.rlock :: r) = true) : ∃ r', r = .runlock :: r' ∧ wb r' = true := by
  match r, h with
  | .runlock :: r', h => exact ⟨r', rfl, by simpa [wb] using h⟩

theorem wb_cons_lock {r : List LockOp} (h : wb (.lock :: r) = true) : ∃ r', r = .unlock :: r' ∧ wb r' = true := by
  match r, h with
  | .unlock :: r', h => exact ⟨r', rfl, by simpa [wb] using h⟩

theorem wb_not_runlock {r : List LockOp} : wb (.runlock :: r) = false := by simp [wb]
theorem wb_not_unlock {r : List LockOp} : wb (.unlock :: r) = false := by simp [wb]

/-- a step of a good thread leaves it good -/
theorem good_step (s : Sys) (t t' : Thread) (hg : Good t) (h : stepOf s t = some t') : Good t' := by
  unfold stepOf at h
  rcases hg with ⟨h1, h2, h3, h4⟩ | ⟨h1, h2, h3, r, hp, hw⟩ | ⟨h1, h2, h3, r, hp, hw⟩
  · match hp : t.prog with
    | [] => simp [hp] at h
    | .rlock :: rest =>
      simp only [hp] at h
      split at h
      · simp at h; subst h
        rw [hp] at h3
        obtain ⟨r', hr, hw⟩ := wb_cons_rlock h3
        right; left
        have hwait : t.waitingW = false := by
          cases hwt : t.waitingW with
          | false => rfl
          | true => obtain ⟨r2, hr2⟩ := h4 hwt; rw [hp] at hr2; cases hr2
        exact ⟨by simp [h1], h2, hwait, r', hr, hw⟩
      · simp at h
    | .runlock :: rest => rw [hp] at h3; simp [wb] at h3
    | .unlock :: rest => rw [hp] at h3; simp [wb] at h3
    | .lock :: rest =>
      simp only [hp] at h
      rw [hp] at h3
      obtain ⟨r', hr, hw⟩ := wb_cons_lock h3
      split at h
      · simp at h; subst h
        right; right
        exact ⟨h1, rfl, rfl, r', hr, hw⟩
      · split at h
        · simp at h
        · simp at h; subst h
          left
          exact ⟨h1, h2, h3, fun _ => ⟨rest, rfl⟩⟩
  · simp only [hp] at h
    simp at h; subst h
    left
    exact ⟨by simp [h1], h2, hw, fun hwt => by simp [h3] at hwt⟩
  · simp only [hp] at h
    simp at h; subst h
    left
    exact ⟨h1, rfl, hw, fun hwt => by simp [h3] at hwt⟩

/-- **Progress.**  If every thread is good (holds only what its program is about to release, i.e. nobody
acquires while holding), the system is never deadlocked: as long as some thread is not finished, some
thread can step. -/
theorem no_deadlock (s : Sys) (hg : ∀ t ∈ s, Good t) : deadlocked s = false := by
  unfold deadlocked
  cases hd : done s with
  | true => rfl
  | false =>
    simp only [Bool.not_false, Bool.true_and, Bool.not_eq_false']
    -- case 1: someone is about to release
    by_cases hrel : ∃ t ∈ s, ∃ r, t.prog = .runlock :: r ∨ t.prog = .unlock :: r
    · obtain ⟨t, ht, r, hp⟩ := hrel
      unfold enabled
      rw [List.any_eq_true]
      refine ⟨t, ht, ?_⟩
      rcases hp with hp | hp <;> simp [stepOf, hp]
    · -- nobody holds anything
      have hfree : free s = true := by
        unfold free; rw [List.all_eq_true]
        intro t ht
        rcases hg t ht with ⟨h1, h2, _, _⟩ | ⟨_, _, _, r, hp, _⟩ | ⟨_, _, _, r, hp, _⟩
        · simp [h1, h2]
        · exact absurd ⟨t, ht, r, Or.inl hp⟩ hrel
        · exact absurd ⟨t, ht, r, Or.inr hp⟩ hrel
      -- some thread is not done
      have hnd : ∃ t ∈ s, t.prog ≠ [] := by
        unfold done at hd
        false_or_by_contra; rename_i hc
        have : s.all (·.prog.isEmpty) = true := by
          rw [List.all_eq_true]; intro t ht
          false_or_by_contra; rename_i hne
          exact hc ⟨t, ht, by intro he; simp [he] at hne⟩
        rw [this] at hd; cases hd
      by_cases hlk : ∃ t ∈ s, ∃ r, t.prog = .lock :: r
      · obtain ⟨t, ht, r, hp⟩ := hlk
        unfold enabled; rw [List.any_eq_true]
        exact ⟨t, ht, by simp [stepOf, hp, hfree]⟩
      · -- all unfinished threads are at an `rlock`, and nobody waits for the write lock
        obtain ⟨t, ht, hne⟩ := hnd
        have hnw : noWriter s = true := by
          unfold noWriter; rw [List.all_eq_true]
          intro u hu
          rcases hg u hu with ⟨_, h2, _, h4⟩ | ⟨_, _, _, r, hp, _⟩ | ⟨_, _, _, r, hp, _⟩
          · have : u.waitingW = false := by
              cases hw : u.waitingW with
              | false => rfl
              | true => obtain ⟨r, hr⟩ := h4 hw; exact absurd ⟨u, hu, r, hr⟩ hlk
            simp [h2, this]
          · exact absurd ⟨u, hu, r, Or.inl hp⟩ hrel
          · exact absurd ⟨u, hu, r, Or.inr hp⟩ hrel
        unfold enabled; rw [List.any_eq_true]
        refine ⟨t, ht, ?_⟩
        match hp : t.prog with
        | [] => exact absurd hp hne
        | .rlock :: r => simp [stepOf, hp, hnw]
        | .runlock :: r => exact absurd ⟨t, ht, r, Or.inl hp⟩ hrel
        | .unlock :: r => exact absurd ⟨t, ht, r, Or.inr hp⟩ hrel
        | .lock :: r => exact absurd ⟨t, ht, r, hp⟩ hlk

/-- goodness is preserved by every step of the system -/
theorem good_preserved (s s' : Sys) (i : Nat) (hg : ∀ t ∈ s, Good t) (h : stepThread s i = some s') :
    ∀ t ∈ s', Good t := by
  unfold stepThread at h
  cases hi : s[i]? with
  | none => simp [hi] at h
  | some t =>
    simp only [hi] at h
    cases hs : stepOf s t with
    | none => simp [hs] at h
    | some t' =>
      simp [hs] at h; subst h
      intro u hu
      rcases List.mem_or_eq_of_mem_set hu with hu | rfl
      · exact hg u hu
      · exact good_step s t u (hg t (List.mem_of_getElem? hi)) hs

/-- the repaired key-store methods only run well-bracketed, non-nesting lock programs, so any number of
concurrent `Save` / `Load` / `LoadByAddress` calls starts in a good state … -/
theorem keystore_threads_good (progs : List (List LockOp))
    (h : ∀ p ∈ progs, p = progSave ∨ p = progLoad ∨ p = progLoadByAddress) :
    ∀ t ∈ progs.map (fun p => ({ prog := p } : Thread)), Good t := by
  intro t ht
  obtain ⟨p, hp, rfl⟩ := List.mem_map.mp ht
  left
  refine ⟨rfl, rfl, ?_, fun hw => by simp at hw⟩
  rcases h p hp with rfl | rfl | rfl <;> decide

/-- … and therefore **no schedule of any number of key-store calls can deadlock** (every reachable state
is good by `good_preserved`, every good state has an enabled thread or is finished by `no_deadlock`). -/
theorem keystore_never_deadlocks (progs : List (List LockOp))
    (h : ∀ p ∈ progs, p = progSave ∨ p = progLoad ∨ p = progLoadByAddress) (sched : List Nat) :
    deadlocked (runSched (progs.map fun p => ({ prog := p } : Thread)) sched) = false := by
  have key : ∀ (sched : List Nat) (st : Sys), (∀ t ∈ st, Good t) → ∀ t ∈ runSched st sched, Good t := by
    intro sched
    induction sched with
    | nil => intro st hg; exact hg
    | cons i rest ih =>
      intro st hg
      simp only [runSched]
      cases hs : stepThread st i with
      | none => simpa [hs] using ih st hg
      | some st' => simpa [hs] using ih st' (good_preserved st st' i hg hs)
  exact no_deadlock _ (key sched _ (keystore_threads_good progs h))

/-! ## The unrepaired `LoadByAddress` deadlocks (F5): three-step witness -/

/-- a loader takes its first read lock, a saver starts waiting for the write lock, the loader's second
`RLock` is now blocked behind the waiting writer, who waits for the loader: nobody can move. -/
def f5Start : Sys := [{ prog := progLoadByAddressOld }, { prog := progSave }]
def f5After : Option Sys := (stepThread f5Start 0).bind fun s => stepThread s 1

example : f5After.map deadlocked = some true := by decide
/-- the same schedule with the repaired method is not a deadlock -/
example : ((stepThread [{ prog := progLoadByAddress }, { prog := progSave }] 0).bind fun s => stepThread s 1).map deadlocked
    = some false := by decide

end Panacea.C20
